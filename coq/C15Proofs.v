(* C15Proofs.v *)
From Coq Require Import ZArith List Bool Lia.
From Coq Require Import ZifyBool.
From TV Require Import Codec C15Model.
Import ListNotations.
Local Open Scope Z_scope.

Lemma index_letter_bounds s : -1 <= index_letter s < Z.of_nat (length s) \/ (s = [] /\ index_letter s = -1).
Proof.
  induction s as [|b r IH]; [right; split; reflexivity|]. left.
  cbn [index_letter length]. destruct (is_letter b); [lia|].
  destruct (index_letter r <? 0) eqn:E; destruct IH as [IH|[-> IH]]; cbn [length] in *; lia.
Qed.

Lemma slice_to_ok s i : 0 <= i <= Z.of_nat (length s) -> slice_to s i = Ok (firstn (Z.to_nat i) s).
Proof. intros H. unfold slice_to. assert ((i <? 0) || (Z.of_nat (length s) <? i) = false) as -> by lia. reflexivity. Qed.
Lemma slice_from_ok s i : 0 <= i <= Z.of_nat (length s) -> slice_from s i = Ok (skipn (Z.to_nat i) s).
Proof. intros H. unfold slice_from. assert ((i <? 0) || (Z.of_nat (length s) <? i) = false) as -> by lia. reflexivity. Qed.

(* the index used for slicing is always within the string *)
Lemma split_index_in_range s :
  let i0 := index_letter s in
  let i := if i0 <? 0 then Z.of_nat (length s) else i0 in
  0 <= i <= Z.of_nat (length s).
Proof.
  cbv zeta. destruct (index_letter s <? 0) eqn:E; [lia|].
  destruct (index_letter_bounds s) as [H|[_ H]]; lia.
Qed.

Lemma parse_bandwidth_no_panic s : parse_bandwidth s <> Panic.
Proof.
  unfold parse_bandwidth. destruct s as [|b r]; [discriminate|].
  set (u := map to_upper (trim (b :: r))).
  pose proof (split_index_in_range u) as Hr. cbv zeta in Hr.
  rewrite (slice_to_ok u _ Hr), (slice_from_ok u _ Hr).
  destruct (parse_decimal _) as [[m j]|]; [|discriminate].
  destruct (m <=? 0); [discriminate|]. destruct (unit_mult _); discriminate.
Qed.

(* ---- unit-less values --------------------------------------------------------- *)

Lemma digit_facts b : is_digit b = true ->
  is_space b = false /\ is_letter b = false /\ to_upper b = b /\ b <> 46 /\ b <> 43 /\ b <> 45.
Proof. unfold is_digit, is_space, is_letter, is_lower, is_upper, to_upper, is_lower. intros H.
  repeat split; try lia. destruct ((97 <=? b) && (b <=? 122)) eqn:E; lia. Qed.

Lemma drop_space_nospace s : forallb (fun b => negb (is_space b)) s = true -> drop_space s = s.
Proof. destruct s as [|b r]; [reflexivity|]. cbn [forallb drop_space]. intros H.
  apply andb_prop in H as [H _]. destruct (is_space b); [discriminate | reflexivity]. Qed.

Lemma trim_nospace s : forallb (fun b => negb (is_space b)) s = true -> trim s = s.
Proof.
  intros H. unfold trim. rewrite (drop_space_nospace s H).
  rewrite drop_space_nospace; [apply rev_involutive|].
  rewrite forallb_forall in *. intros x Hx. apply H. apply in_rev. exact Hx.
Qed.

Lemma index_letter_none s : forallb (fun b => negb (is_letter b)) s = true -> index_letter s = -1.
Proof.
  induction s as [|b r IH]; [reflexivity|]. cbn [forallb index_letter]. intros H.
  apply andb_prop in H as [H1 H2]. destruct (is_letter b); [discriminate|]. rewrite (IH H2). reflexivity.
Qed.

Lemma split_dot_nodot s : forallb (fun b => negb (b =? 46)) s = true -> split_dot s = (s, None).
Proof.
  induction s as [|b r IH]; [reflexivity|]. cbn [forallb split_dot]. intros H.
  apply andb_prop in H as [H1 H2]. destruct (b =? 46); [discriminate|]. rewrite (IH H2). reflexivity.
Qed.

Lemma all_digits_forall (P : Z -> bool) d :
  (forall b, is_digit b = true -> P b = true) -> all_digits d = true -> forallb P d = true.
Proof. unfold all_digits. rewrite !forallb_forall. intros HP H x Hx. apply HP, H, Hx. Qed.

Lemma bandwidth_unitless_ok d v :
  d <> [] -> all_digits d = true -> digits_val 0 d = Some v -> 0 < v < float_overflow -> parse_bandwidth d = Ok v.
Proof.
  intros Hne Hd Hv [Hpos Hmax]. unfold parse_bandwidth. destruct d as [|b r] eqn:Ed; [congruence|]. rewrite <- Ed in *.
  assert (Hns : forallb (fun b => negb (is_space b)) d = true).
  { apply all_digits_forall; [|exact Hd]. intros x Hx. destruct (digit_facts x Hx) as (-> & _). reflexivity. }
  assert (Hnl : forallb (fun b => negb (is_letter b)) d = true).
  { apply all_digits_forall; [|exact Hd]. intros x Hx. destruct (digit_facts x Hx) as (_ & -> & _). reflexivity. }
  assert (Hnd : forallb (fun b => negb (b =? 46)) d = true).
  { apply all_digits_forall; [|exact Hd]. intros x Hx. destruct (digit_facts x Hx) as (_ & _ & _ & H & _). lia. }
  rewrite (trim_nospace d Hns).
  assert (Hup : map to_upper d = d).
  { clear -Hd. unfold all_digits in Hd. induction d as [|x d IH]; [reflexivity|]. cbn [map forallb] in *.
    apply andb_prop in Hd as [H1 H2]. destruct (digit_facts x H1) as (_ & _ & -> & _). rewrite (IH H2). reflexivity. }
  rewrite Hup, (index_letter_none d Hnl). cbn [Z.ltb Z.compare].
  rewrite slice_to_ok, slice_from_ok by lia. rewrite Nat2Z.id, firstn_all, skipn_all.
  unfold parse_decimal.
  assert (Hhd : match d with
                | b0 :: r0 => if b0 =? 43 then (false, r0) else if b0 =? 45 then (true, r0) else (false, d)
                | [] => (false, d) end = (false, d)).
  { rewrite Ed. unfold all_digits in Hd. rewrite Ed in Hd. cbn [forallb] in Hd. apply andb_prop in Hd as [H1 _].
    destruct (digit_facts b H1) as (_ & _ & _ & _ & H43 & H45).
    assert (b =? 43 = false) as -> by lia. assert (b =? 45 = false) as -> by lia. reflexivity. }
  assert (Hsu : forall pd, strip_underscores pd d = Some d).
  { clear -Hd. unfold all_digits in Hd. induction d as [|x d IH]; intros pd; [reflexivity|]. cbn [forallb strip_underscores] in *.
    apply andb_prop in Hd as [H1 H2]. assert (x =? 95 = false) as -> by (unfold is_digit in H1; lia).
    rewrite (IH H2). reflexivity. }
  rewrite Hhd, Hsu, (split_dot_nodot d Hnd), app_nil_r, Hv.
  cbn [length Z.of_nat Z.pow]. rewrite Z.div_1_r.
  assert (float_overflow <=? v = false) as -> by lia.
  assert (Hd' : match d with [] => None | _ :: _ => Some (v, 0%nat) end = Some (v, 0%nat))
    by (rewrite Ed; reflexivity).
  rewrite Hd'.
  assert (v <=? 0 = false) as -> by lia.
  cbn [unit_mult str_eq list_eqb orb]. unfold bw_value. cbn [Z.of_nat Z.pow]. rewrite Z.mul_1_r, Z.div_1_r. reflexivity.
Qed.

(* ---- monotone in the unit ------------------------------------------------------ *)
Lemma bw_value_monotone m j k k' : 0 <= m -> 0 <= k <= k' -> bw_value m j k <= bw_value m j k'.
Proof.
  intros Hm Hk. unfold bw_value. apply Z.div_le_mono; [apply Z.pow_pos_nonneg; lia | nia].
Qed.

Lemma unit_chain :
  unit_mult [66] = Some 1 /\ unit_mult [75] = Some 1024 /\ unit_mult [77] = Some 1048576 /\
  unit_mult [71] = Some 1073741824 /\ unit_mult [84] = Some 1099511627776 /\ unit_mult [] = Some 1.
Proof. repeat split; reflexivity. Qed.

(* a clean number followed by a unit is split exactly between the two *)
Definition clean_num (s : list Z) : bool :=
  forallb (fun b => negb (is_space b) && negb (is_letter b) && negb (is_lower b)) s.
Definition upper_unit (u : list Z) : bool := forallb is_upper u.

Lemma index_letter_app num u b :
  forallb (fun x => negb (is_letter x)) num = true -> is_letter b = true ->
  index_letter (num ++ b :: u) = Z.of_nat (length num).
Proof.
  intros Hn Hb. induction num as [|x num IH]; cbn [app index_letter length].
  - rewrite Hb. reflexivity.
  - cbn [forallb] in Hn. apply andb_prop in Hn as [H1 H2]. destruct (is_letter x); [discriminate|].
    rewrite (IH H2). assert (Z.of_nat (length num) <? 0 = false) as -> by lia. lia.
Qed.

Lemma bandwidth_with_unit num b u m j k :
  num <> [] -> clean_num num = true -> upper_unit (b :: u) = true ->
  parse_decimal num = Some (m, j) -> 0 < m -> unit_mult (b :: u) = Some k ->
  parse_bandwidth (num ++ b :: u) = Ok (bw_value m j k).
Proof.
  intros Hne Hc Hu Hp Hm Hk. unfold parse_bandwidth.
  destruct (num ++ b :: u) as [|y ys] eqn:E; [destruct num; discriminate|]. rewrite <- E.
  unfold clean_num, upper_unit in *.
  assert (Hb : is_upper b = true) by (cbn [forallb] in Hu; apply andb_prop in Hu; tauto).
  assert (Hns : forallb (fun x => negb (is_space x)) (num ++ b :: u) = true).
  { rewrite forallb_app. apply andb_true_intro. split.
    - rewrite forallb_forall in *. intros x Hx. specialize (Hc x Hx). lia.
    - rewrite forallb_forall in *. intros x Hx. specialize (Hu x Hx). unfold is_upper, is_space in *. lia. }
  rewrite (trim_nospace _ Hns).
  assert (Hup : map to_upper (num ++ b :: u) = num ++ b :: u).
  { rewrite <- (map_id (num ++ b :: u)) at 2. apply map_ext_in. intros x Hx. unfold to_upper.
    apply in_app_or in Hx as [Hx|Hx].
    - rewrite forallb_forall in Hc. specialize (Hc x Hx). destruct (is_lower x); [lia | reflexivity].
    - rewrite forallb_forall in Hu. specialize (Hu x Hx). unfold is_upper, is_lower in *.
      destruct ((97 <=? x) && (x <=? 122)) eqn:El; [lia | reflexivity]. }
  rewrite Hup.
  assert (Hnl : forallb (fun x => negb (is_letter x)) num = true).
  { rewrite forallb_forall in *. intros x Hx. specialize (Hc x Hx). lia. }
  rewrite (index_letter_app num u b Hnl) by (unfold is_letter; rewrite Hb; apply orb_true_r).
  assert (Z.of_nat (length num) <? 0 = false) as -> by lia.
  rewrite slice_to_ok, slice_from_ok by (rewrite app_length; lia).
  rewrite Nat2Z.id, firstn_app, Nat.sub_diag, firstn_all. cbn [firstn]. rewrite app_nil_r.
  rewrite skipn_app, Nat.sub_diag, skipn_all. cbn [skipn app].
  rewrite Hp. assert (m <=? 0 = false) as -> by lia. rewrite Hk. reflexivity.
Qed.
