(* PodExist.v — the daemon's question "does this pod still exist (for this node)?" (pkg/k8s/k8s.go PodExist), which the
   node GC (C09) asks before it collects a record: a pod of that namespace/name must be in the API AND be scheduled to
   this node; a same-named pod on another node (a StatefulSet pod that moved) does not keep the old node's record alive.
   case = [me; npods; (name node)*; qname; apierr]   output = [exists; err] *)
From Coq Require Import ZArith List Bool.
From TV Require Import Codec.
Import ListNotations.
Local Open Scope Z_scope.

Fixpoint lookup (name : Z) (pods : list (Z * Z)) : option Z :=
  match pods with
  | [] => None
  | (n, node) :: r => if n =? name then Some node else lookup name r
  end.

(* None = the API could not be asked *)
Definition pod_exist (me : Z) (pods : list (Z * Z)) (apierr : bool) (name : Z) : option bool :=
  if apierr then None
  else match lookup name pods with Some node => Some (node =? me) | None => Some false end.

Fixpoint dec_pods (n : nat) (l : list Z) : list (Z * Z) * list Z :=
  match n, l with
  | S n', a :: b :: r => let '(ps, r') := dec_pods n' r in ((a, b) :: ps, r')
  | _, _ => ([], l)
  end.

Definition run_podexist (i : list Z) : list Z :=
  match i with
  | me :: np :: r =>
      match dec_pods (Z.to_nat np) r with
      | (pods, [q; ae]) => match pod_exist me pods (dec_bool ae) q with
                           | Some b => [enc_bool b; 0] | None => [0; 1] end
      | _ => bad end
  | _ => bad
  end.

(* clause 905: "exists" is answered only for a pod of this node; 906: a pod of this node is found unless the API failed *)
Definition why_podexist (i o : list Z) : Z :=
  match i, o with
  | me :: np :: r, [ex; er] =>
      match dec_pods (Z.to_nat np) r with
      | (pods, [q; ae]) =>
          let mine := match lookup q pods with Some node => node =? me | None => false end in
          if (ex =? 1) && negb mine then 905
          else if (er =? 0) && mine && negb (ex =? 1) then 906
          else 0
      | _ => 907 end
  | _, _ => 907
  end.
Definition chk_podexist (i o : list Z) : bool := why_podexist i o =? 0.

Lemma pod_exist_local me pods ae name :
  pod_exist me pods ae name = Some true -> lookup name pods = Some me.
Proof.
  unfold pod_exist. destruct ae; [discriminate|].
  destruct (lookup name pods) as [node|]; [|discriminate].
  intros H. inversion H as [E]. apply Z.eqb_eq in E. subst. reflexivity.
Qed.
Lemma pod_exist_complete me pods name :
  lookup name pods = Some me -> pod_exist me pods false name = Some true.
Proof. unfold pod_exist. intros ->. rewrite Z.eqb_refl. reflexivity. Qed.
