(* Props_C02.v — property C02 (the cluster IPAM record binds each address to one pod, each pod to one address per
   family, both families on one interface; only valid addresses of attached interfaces of the right kind are
   bound; a reported address is re-adopted exactly). *)
From Coq Require Import ZArith List Bool Relations.
From TV Require Import IpamModel IpamProofs IpamProofs2.
Import ListNotations.
Local Open Scope Z_scope.

(* "an address is bound to at most one pod" holds by the shape of the record: an entry has one owner field and
   addresses are unique (uniq).  WF: every pod owns at most one entry per family, both on one interface. *)

(* a legal step of the binding pass (pick, or re-adoption onto an address of the pod's other interface) keeps
   the record well formed *)
Theorem c02_step_keeps_invariant : forall rdma_on c c', good c -> cstep rdma_on c c' -> good c'.
Proof. exact cstep_good. Qed.
Print Assumptions c02_step_keeps_invariant.

(* any number of such steps: every record reachable by legal steps is well formed *)
Theorem c02_reachable_well_formed : forall rdma_on c c', good c -> clos_refl_trans cr (cstep rdma_on) c c' -> good c'.
Proof. exact csteps_good. Qed.
Print Assumptions c02_reachable_well_formed.

(* the modelled pass (two loops of assignIPFromLocalPool, any pod order, any outcome the loops can produce) over
   pods that report no address yet is such a sequence *)
Theorem c02_pass_keeps_invariant : forall rdma_on c l c', good c -> fresh l -> bind_all rdma_on c l = Some c' -> good c'.
Proof. exact bind_all_fresh_good. Qed.
Print Assumptions c02_pass_keeps_invariant.

(* the same with pods that report addresses, when every pod has a home interface on which all its bindings and all its
   reported addresses lie (what a record grown by the controller itself satisfies): take-over loop + pick loop, any
   pod order, any outcome the loops can produce *)
Theorem c02_pass_keeps_invariant_reporting : forall (home : Z -> Z) rdma_on c l c',
  good c -> AtHome home c -> RepHome home c l -> ids_nz l -> bind_all rdma_on c l = Some c' -> good c'.
Proof. exact bind_all_good. Qed.
Print Assumptions c02_pass_keeps_invariant_reporting.

(* with reporting pods the pass is still a sequence of steps each of which binds an unowned address to a pod
   that has none in that family (the consistency of a re-adoption with the pod's other address is the
   hypothesis take_consistent of c02_step_keeps_invariant: the code re-adopts what the pod reports) *)
Theorem c02_pass_is_legal_steps_partial : forall rdma_on c l c', bind_all rdma_on c l = Some c' -> steps rdma_on c c'.
Proof. exact bind_all_steps. Qed.
Print Assumptions c02_pass_is_legal_steps_partial.

(* the release of vanished pods only shrinks what a pod owns *)
Theorem c02_release_keeps_invariant : forall pods rt_ok rt c, WF c -> WF (release_not_found pods rt_ok rt c).
Proof. exact release_WF. Qed.
Print Assumptions c02_release_keeps_invariant.

(* a picked address is valid, unowned, on an interface that is in use and of the pod's kind *)
Theorem c02_pick_is_valid : forall rdma_on c six p a o, pick_ok rdma_on c six p a o = true ->
  exists e i, lookup c six a = Some (e, i) /\ e_status e = 1 /\ i_st i = 1 /\ i_pod i = 0 /\
              (if p_rdma p then e_mode e = 1 else (rdma_on = true -> e_mode e <> 1)).
Proof. exact pick_ok_valid. Qed.
Print Assumptions c02_pick_is_valid.

(* a pod that reports an address is re-adopted onto exactly that address or not at all *)
Theorem c02_readopt_exact : forall c six p obs c', takeover1 c six p obs = Some c' ->
  c' = c \/ (obs = rep_of p six /\ obs <> 0 /\ c' = set_owner c six obs (p_id p) (p_uid p)).
Proof. exact takeover1_exact. Qed.
Print Assumptions c02_readopt_exact.

(* the boolean the checker evaluates on the implementation's records implies the invariant *)
Theorem c02_checker_sound : forall c, wf c = true -> WF c.
Proof. exact wf_sound. Qed.
Print Assumptions c02_checker_sound.

(* non-vacuity: a dual-stack record with one bound pod; a second pod is bound by the pass, on one interface *)
Definition ex_cr : cr :=
  [mkEni 1 1 0 0 [mkIp 1 1 true 0 0; mkIp 2 1 false 7 70] [mkIp 11 1 false 7 70];
   mkEni 2 1 0 0 [mkIp 3 1 true 0 0; mkIp 4 1 false 0 0] [mkIp 12 1 false 0 0; mkIp 13 2 false 0 0]].
Example c02_ex_wf : wf ex_cr = true.
Proof. vm_compute. reflexivity. Qed.
Example c02_ex_pass :
  let p := mkPod 8 80 true true false 0 0 in
  match bind_all false ex_cr [(p, 4, 12)] with Some c' => wf c' && (Z.eqb (owner_eni c' false 8) 2) && (Z.eqb (owner_eni c' true 8) 2) | None => false end = true.
Proof. vm_compute. reflexivity. Qed.
(* ... and the model refuses an outcome the loops cannot produce: IPv6 from another interface than IPv4 *)
Example c02_ex_refused :
  let p := mkPod 8 80 true true false 0 0 in bind_all false ex_cr [(p, 1, 12)] = None.
Proof. vm_compute. reflexivity. Qed.
