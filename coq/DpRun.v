(* DpRun.v — decoders for the datapath harness (harness/dp), the model evaluated / followed on its cases, and the
   clauses of C13 judged on what the generators returned and on what the kernel held.  Definitions only. *)
From Coq Require Import ZArith List Bool.
From TV Require Import Codec DpModel.
Import ListNotations.
Local Open Scope Z_scope.

Definition lenz {A} (l : list A) : Z := Z.of_nat (length l).

(* ---- kind 1: generators ------------------------------------------------------------------------------------------ *)
(* input: dp on4 on6 def multi strip nextra kinds.. ip gw egw li vi ei *)
Definition dec_gen (l : list Z) : option (Z * gcfg * Z * Z * Z * list Z) :=
  match l with
  | dp :: on4 :: on6 :: df :: mu :: st :: r =>
      match take_list r with
      | Some (ex, ip :: gw :: egw :: li :: vi :: ei :: rest) =>
          Some (dp, mkG (dec_bool on4) (dec_bool on6) (dec_bool df) (dec_bool mu) (dec_bool st) ex ip gw egw, li, vi, ei, rest)
      | _ => None end
  | _ => None
  end.
Definition observed (l : list Z) : option (list Z) :=
  match l with
  | m :: r => if m =? -555 then match take_list r with Some (o, _) => Some o | None => None end else None
  | [] => None
  end.
Definition run_gen (l : list Z) : list Z :=
  match dec_gen l with
  | Some (dp, g, li, vi, ei, rest) =>
      if dp =? 0 then cont_cfg g li ++ host_cfg g vi (tbl_of ei) ++ eni_cfg g ei (tbl_of ei)
      else if dp =? 1 then ipvlan_cont_cfg g li
      else own_cont_cfg (dp =? 3) g li
  | None => bad
  end.

(* a configuration decoded back: addresses (fam ip len), routes (9 fields), rules (9), neighbours (3) *)
Record conf := mkConf { c_addrs : list (list Z); c_routes : list (list Z); c_rules : list (list Z); c_neighs : list (list Z) }.
Fixpoint take_n (k n : nat) (l : list Z) : list (list Z) * list Z :=
  match n with
  | O => ([], l)
  | S n' => let '(xs, r) := take_n k n' (skipn k l) in (firstn k l :: xs, r)
  end.
Definition dec_conf (l : list Z) : conf * list Z :=
  match l with
  | na :: r =>
      let '(ad, r1) := take_n 3 (Z.to_nat na) r in
      match r1 with
      | nr :: r2 =>
          let '(ro, r3) := take_n 9 (Z.to_nat nr) r2 in
          match r3 with
          | nu :: r4 =>
              let '(ru, r5) := take_n 9 (Z.to_nat nu) r4 in
              match r5 with
              | nn :: r6 => let '(ne, r7) := take_n 3 (Z.to_nat nn) r6 in (mkConf ad ro ru ne, r7)
              | [] => (mkConf ad ro ru [], []) end
          | [] => (mkConf ad ro [] [], []) end
      | [] => (mkConf ad [] [] [], []) end
  | [] => (mkConf [] [] [] [], [])
  end.
Definition nth0 (l : list Z) (n : nat) : Z := nth n l 0.
(* C13 on a container configuration: with a default route asked for, exactly one default route per enabled family in
   the main table; nothing at all (address, route, rule, neighbour) for a family that is not enabled *)
Definition is_default (f : Z) (r : list Z) : bool := (nth0 r 0 =? 0) && (nth0 r 1 =? f) && (nth0 r 3 =? 0).
Definition mentions (f : Z) (c : conf) : bool :=
  existsb (fun a => nth0 a 0 =? f) (c_addrs c)
  || existsb (fun r => (nth0 r 1 =? f) || (nth0 r 4 =? f)) (c_routes c)
  || existsb (fun r => (nth0 r 1 =? f) || (nth0 r 4 =? f)) (c_rules c)
  || existsb (fun n => nth0 n 0 =? f) (c_neighs c).
Definition cont_ok (g : gcfg) (c : conf) : bool :=
  forallb (fun f => let on := if f =? 4 then g_on4 g else g_on6 g in
                    if on then (negb (g_def g) || (lenz (filter (is_default f) (c_routes c)) =? 1))
                               && existsb (fun a => (nth0 a 0 =? f) && (nth0 a 1 =? g_ip g)) (c_addrs c)
                    else negb (mentions f c)) [4; 6].
Definition gen_why (l o : list Z) : Z :=
  match dec_gen l with
  | Some (dp, g, li, vi, ei, _) =>
      if match o with x :: _ => x =? -998 | [] => true end then 1311       (* the generator panicked *)
      else
      let '(c, rest) := dec_conf o in
      (* the multi-network variant keeps its default route in the interface's own table: the main table has none *)
      if negb (cont_ok g c) then 1303
      (* 1308: a pod on a trunk member interface (vlan stripping) holds host addresses only: nothing of its vSwitch is
         on-link, everything leaves through the gateway *)
      else if (dp =? 1) && g_strip g && negb (forallb (fun a => nth0 a 2 =? maxlen (nth0 a 0)) (c_addrs c)) then 1308
      else if dp =? 0 then
        let '(h, rest2) := dec_conf rest in
        let '(e, _) := dec_conf rest2 in
        if negb (forallb (fun f => let on := if f =? 4 then g_on4 g else g_on6 g in on || negb (mentions f h || mentions f e)) [4; 6]) then 1306
        else 0
      else 0
  | None => 1399
  end.

(* ---- kind 2: sequences ------------------------------------------------------------------------------------------------ *)
Record look := mkLk { lk_slot : Z; lk_addr : Z; lk_fam : Z; lk_eni : Z; lk_to : Z; lk_from : Z; lk_gw : Z }.
Record cside := mkCs { cs_slot : Z; cs_fam : Z; cs_d4 : Z; cs_d6 : Z; cs_n4 : Z; cs_n6 : Z }.
Record dblk := mkDb { d_op : Z; d_slot : Z; d_addr : Z; d_fam : Z; d_eni : Z; d_err : bool;
                      d_rules : list hrule; d_veths : list Z; d_mains : list (Z * Z * Z); d_tabs : list (Z * Z * Z * Z);
                      d_looks : list look; d_cont : list cside }.
Fixpoint dec_hrules (n : nat) (l : list Z) : list hrule * list Z :=
  match n, l with
  | S n', p :: f :: s :: d :: t :: r => let '(xs, r') := dec_hrules n' r in (mkHr p f s d t :: xs, r')
  | _, _ => ([], l) end.
Fixpoint dec_mains (n : nat) (l : list Z) : list (Z * Z * Z) * list Z :=
  match n, l with
  | S n', f :: a :: d :: r => let '(xs, r') := dec_mains n' r in ((f, a, d) :: xs, r')
  | _, _ => ([], l) end.
Fixpoint dec_tabs (n : nat) (l : list Z) : list (Z * Z * Z * Z) * list Z :=
  match n, l with
  | S n', t :: f :: g :: d :: r => let '(xs, r') := dec_tabs n' r in ((t, f, g, d) :: xs, r')
  | _, _ => ([], l) end.
Fixpoint dec_looks (n : nat) (l : list Z) : list look * list Z :=
  match n, l with
  | S n', s :: a :: f :: e :: t :: fr :: g :: r => let '(xs, r') := dec_looks n' r in (mkLk s a f e t fr g :: xs, r')
  | _, _ => ([], l) end.
Fixpoint dec_cont (n : nat) (l : list Z) : list cside * list Z :=
  match n, l with
  | S n', s :: f :: a :: b :: c :: d :: r => let '(xs, r') := dec_cont n' r in (mkCs s f a b c d :: xs, r')
  | _, _ => ([], l) end.
Definition dec_dblk (l : list Z) : option (dblk * list Z) :=
  match l with
  | m :: op :: sl :: ad :: fa :: en :: er :: nr :: r =>
      if negb (m =? 99) then None else
      let '(rs, r1) := dec_hrules (Z.to_nat nr) r in
      match take_list r1 with
      | Some (vs, nm :: r2) =>
          let '(ms, r3) := dec_mains (Z.to_nat nm) r2 in
          match r3 with
          | nt :: r4 =>
              let '(ts, r5) := dec_tabs (Z.to_nat nt) r4 in
              match r5 with
              | nl :: r6 =>
                  let '(ls, r7) := dec_looks (Z.to_nat nl) r6 in
                  match r7 with
                  | nc :: r8 => let '(cs, r9) := dec_cont (Z.to_nat nc) r8 in
                                Some (mkDb op sl ad fa en (dec_bool er) rs vs ms ts ls cs, r9)
                  | [] => None end
              | [] => None end
          | [] => None end
      | _ => None end
  | _ => None
  end.
Fixpoint dec_dblks (fuel : nat) (l : list Z) : list dblk :=
  match fuel with
  | S f => match dec_dblk l with Some (b, r) => b :: dec_dblks f r | None => [] end
  | O => [] end.

(* the model followed along the operations; the dumps are sets (sorted by the harness) *)
Definition hr_eqb (a b : hrule) : bool := same_sel a b && (hr_tbl a =? hr_tbl b).
Definition set_eq {A} (eqb : A -> A -> bool) (a b : list A) : bool :=
  forallb (fun x => existsb (eqb x) b) a && forallb (fun x => existsb (eqb x) a) b && (lenz a =? lenz b).
Definition m3_eqb (a b : Z * Z * Z) : bool := match a, b with (a1, a2, a3), (b1, b2, b3) => (a1 =? b1) && (a2 =? b2) && (a3 =? b3) end.
Definition t4_eqb (a b : Z * Z * Z * Z) : bool := match a, b with (a1, a2, a3, a4), (b1, b2, b3, b4) => (a1 =? b1) && (a2 =? b2) && (a3 =? b3) && (a4 =? b4) end.
(* only what belongs to pods is compared in the main table (the harness also lists the host routes to the gateways) *)
Definition pod_mains (l : list (Z * Z * Z)) : list (Z * Z * Z) := filter (fun x => snd (fst x) <? 256) l.
Definition same_state (h : hst) (b : dblk) : Z :=
  if negb (set_eq hr_eqb (h_rules h) (d_rules b)) then 1
  else if negb (set_eq Z.eqb (h_veths h) (d_veths b)) then 2
  else if negb (set_eq m3_eqb (pod_mains (h_mains h)) (pod_mains (d_mains b))) then 3
  else if negb (set_eq t4_eqb (h_tabs h) (d_tabs b)) then 4
  else if negb (forallb (fun k => (look_to h (lk_fam k) (lk_addr k) =? lk_to k)
                                  && (fst (look_from h (lk_fam k) (lk_addr k)) =? lk_from k)
                                  && (snd (look_from h (lk_fam k) (lk_addr k)) =? lk_gw k)) (d_looks b)) then 5
  else 0.
Definition apply_op (h : hst) (gens : list (Z * Z)) (b : dblk) : hst * list (Z * Z) :=
  if d_op b =? 1 then (if d_err b then h else setup (d_slot b) (d_addr b) (d_eni b) (d_fam b) h, gens)
  else if d_op b =? 2 then (if d_err b then h else teardown (d_slot b) (d_addr b) (d_fam b) h, gens)
  else if d_op b =? 3 then (drop_veth (d_slot b) h, gens)
  else if d_op b =? 4 then (eni_gone (d_eni b) h, gens)
  else if d_op b =? 5 then
    let g := match List.find (fun x => fst x =? d_eni b) gens with Some x => snd x | None => 1 end in
    match eni_gen h (d_eni b) with
    | Some _ => (h, gens)
    | None => (eni_back (d_eni b) (g + 1) h, (d_eni b, g + 1) :: filter (fun x => negb (fst x =? d_eni b)) gens) end
  else (h, gens).
Fixpoint follow (h : hst) (gens : list (Z * Z)) (l : list dblk) (idx : Z) : Z :=
  match l with
  | [] => 0
  | b :: r => let '(h', gens') := apply_op h gens b in
              let w := same_state h' b in
              if negb (w =? 0) then w * 100000 + idx else follow h' gens' r (idx + 1)
  end.
Definition seq_ops (l : list Z) : list Z := match l with n :: r => skipn (Z.to_nat (6 * n)) r | [] => [] end.
Definition run_seq (l : list Z) : list Z :=
  match observed (seq_ops l) with
  | Some o => let w := follow init_h [(1, 1); (2, 1)] (dec_dblks 200 o) 0 in if w =? 0 then o else [-997; w]
  | None => bad
  end.

(* the clauses on the kernel's state *)
Definition rules_of (a : Z) (l : list hrule) : list hrule := filter (fun r => (hr_src r =? a) || (hr_dst r =? a)) l.
Definition seq_blk_why (prev : option dblk) (b : dblk) : Z :=
  (* 1301 / 1302: every pod that is set up is reachable through its own veth, and leaves through the interface that
     owns its address via that interface's gateway (as long as that interface is there) *)
  if negb (forallb (fun k => lk_to k =? 100 + lk_slot k) (d_looks b)) then 1301
  else if negb (forallb (fun k => (lk_eni k =? 0) || ((lk_from k =? 200 + lk_eni k) && (lk_gw k =? gw_of (lk_eni k)))) (d_looks b)) then 1302
  (* 1303: one default route per enabled family in the pod, nothing for the other family *)
  else if negb (forallb (fun c => (cs_d4 c =? (if Z.odd (cs_fam c) then 1 else 0)) && (cs_d6 c =? (if 2 <=? cs_fam c then 1 else 0))
                                  && (cs_n4 c =? (if Z.odd (cs_fam c) then 1 else 0)) && (cs_n6 c =? (if 2 <=? cs_fam c then 1 else 0))) (d_cont b)) then 1303
  (* 1305: after a setup exactly one rule of each kind for the address, the from-rule pointing to a table that exists *)
  else if (d_op b =? 1) && negb (d_err b) &&
          negb (forallb (fun f => (lenz (filter (fun r => (hr_prio r =? 2048) && (hr_fam r =? f) && (hr_src r =? d_addr b)) (d_rules b)) =? 1)
                                  && (lenz (filter (fun r => (hr_prio r =? 512) && (hr_fam r =? f) && (hr_dst r =? d_addr b)) (d_rules b)) =? 1)) (famlist (d_fam b))) then 1305
  (* 1304: a teardown leaves nothing of the pod behind and touches nothing of the others *)
  else if (d_op b =? 2) && negb (d_err b) then
    if negb (forallb (fun r => negb (existsb (Z.eqb (hr_fam r)) (famlist (d_fam b)) && ((hr_src r =? d_addr b) || (hr_dst r =? d_addr b)))) (d_rules b))
       || existsb (Z.eqb (d_slot b)) (d_veths b)
       || existsb (fun m => snd m =? 100 + d_slot b) (d_mains b) then 1304
    else match prev with
         | Some p =>
             if forallb (fun k => (lk_slot k =? d_slot b) ||
                                  (set_eq hr_eqb (rules_of (lk_addr k) (d_rules p)) (rules_of (lk_addr k) (d_rules b))
                                   && existsb (Z.eqb (lk_slot k)) (d_veths b)
                                   && existsb (fun m => (snd (fst m) =? lk_addr k) && (snd m =? 100 + lk_slot k)) (d_mains b))) (d_looks p)
             then 0 else 1307
         | None => 0 end
  else 0.
Fixpoint seq_why (prev : option dblk) (l : list dblk) (idx : Z) : Z :=
  match l with
  | [] => 0
  | b :: r => let w := seq_blk_why prev b in if negb (w =? 0) then w * 100000 + idx else seq_why (Some b) r (idx + 1)
  end.

(* ---- dispatch ------------------------------------------------------------------------------------------------------------ *)
Definition run_dp (l : list Z) : list Z :=
  match l with
  | k :: r => if k =? 1 then run_gen r else if k =? 2 then run_seq r else bad
  | [] => bad end.
Definition why_dp (l o : list Z) : Z :=
  match l with
  | k :: r => if k =? 1 then gen_why r o * 100000 else if k =? 2 then seq_why None (dec_dblks 200 o) 0 else 139900000
  | [] => 139900000 end.
Definition chk_c13 (l o : list Z) : bool := why_dp l o =? 0.
