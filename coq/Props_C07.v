(* Props_C07.v — property C07 (pool = cloud; failed calls leave no orphan) against the pool LTS. *)
From Coq Require Import ZArith List Bool.
From TV Require Import PoolModel PoolSets PoolInv PoolThm PoolBal.
From TV Require MgrModel MgrProofs.
Import ListNotations.
Local Open Scope Z_scope.

(* whatever the cloud calls answered (success, error before or after the effect, partial result), every
   address the cloud has assigned to the interface is tracked by the interface's set *)
Theorem c07_no_orphan : forall s0 ls s f a,
  Inv s0 -> Led s0 -> run_env s0 ls -> run_cloud ls -> run s0 ls = Some s ->
  In a (f_cl (fget s f)) -> In a (keys (f_set (fget s f))).
Proof. intros s0 ls s f a HI HL He Hc Hr. exact (no_orphan s (proj2 (inv_led_run ls s0 s HI HL He Hc Hr)) f a). Qed.
Print Assumptions c07_no_orphan.

(* after a sync that reports what the cloud has, everything tracked as Valid is assigned in the cloud;
   together with c07_no_orphan: Valid <= cloud <= tracked *)
Theorem c07_sync_agrees : forall s r4 r6 s', step s (LMetaSync true r4 r6) = Some s' ->
  (forall a, In a r4 -> In a (f_cl (s_4 s))) -> (forall a, In a r6 -> In a (f_cl (s_6 s))) ->
  (forall a e, find a (f_set (s_4 s')) = Some e -> e_st e = Valid -> In a (f_cl (s_4 s'))) /\
  (forall a e, find a (f_set (s_6 s')) = Some e -> e_st e = Valid -> In a (f_cl (s_6 s'))).
Proof. exact sync_agrees. Qed.
Print Assumptions c07_sync_agrees.

(* back-off: a create / assign call starts only when the deadline set by a quota or exhaustion answer
   has passed, and a request that would need a new address is not queued before it has *)
Theorem c07_inhibit_respected : forall s0 ls s l s',
  Inv s0 -> Led s0 -> run_env s0 ls -> run_cloud ls -> run s0 ls = Some s -> step s l = Some s' ->
  match l with LCreateBegin _ _ | LAssignBegin F4 _ => s_inh s <= s_now s | _ => True end.
Proof. intros s0 ls s l s' HI HL He Hc Hr Hs. exact (begin_after_backoff s l s' (proj2 (inv_led_run ls s0 s HI HL He Hc Hr)) Hs). Qed.
Print Assumptions c07_inhibit_respected.

Theorem c07_needy_request_refused_meanwhile : forall s pod nc pin erdma e4 e6,
  alloc_kind s pod nc pin erdma = KEnqueue e4 e6 -> s_inh s <= s_now s.
Proof. exact enqueue_needs_no_backoff. Qed.
Print Assumptions c07_needy_request_refused_meanwhile.

(* the watermark band (second sentence), at the level of the balancer's arithmetic (bal_todel / bal_want are the functions
   the replay compares with Manager.syncPool's disposals and pre-heat requests on every generated pass): with min <= max,
   once the disposals and pre-heat requests of a pass are carried out the idle reserve is inside the band — or the node is
   at capacity and only the trim applies; inside the band a pass does nothing; a pass never trims and refills at once.
   Partial: that every disposal / pre-heat request of a pass IS carried out under a healthy cloud is not proved. *)
Theorem c07_band_reached_partial : forall idle inuse mn mx tot,
  0 <= mn <= mx -> 0 <= idle -> idle + inuse + bal_want idle inuse mn tot <= tot ->
  mn <= bal_after idle inuse mn mx tot <= mx \/ (tot <= idle + inuse /\ bal_after idle inuse mn mx tot = Z.min idle mx).
Proof. exact band_reached. Qed.
Print Assumptions c07_band_reached_partial.
Theorem c07_band_is_fixed : forall idle inuse mn mx tot, 0 <= mn <= mx -> mn <= idle <= mx ->
  bal_todel idle mx <= 0 /\ bal_want idle inuse mn tot = 0.
Proof. exact band_fixed. Qed.
Print Assumptions c07_band_is_fixed.
Theorem c07_never_trims_and_refills : forall idle inuse mn mx tot, 0 <= mn <= mx ->
  ~ (0 < bal_todel idle mx /\ 0 < bal_want idle inuse mn tot).
Proof. exact never_both. Qed.
Print Assumptions c07_never_trims_and_refills.

(* a failed assign that returns the addresses it did assign leaves them tracked (marked for release) *)
Example c07_ex :
  let ls := [LAllocEnqueue 1 101 false 0 false; LFwArm; LTick 300; LCreateBegin 1 0; LCreateEnd true 7 false 50 [50] [] 0;
             LWorkerTake 1 50 0 true; LAllocEnqueue 2 102 false 0 false; LFwArm; LTick 300; LAssignBegin F4 1;
             LAssignEnd F4 false [51] 2] in
  run_env (init_slot 0 true false 4 2) ls /\ run_cloud ls /\
  match run (init_slot 0 true false 4 2) ls with
  | Some s => f_cl (s_4 s) = [51; 50] /\ keys (f_set (s_4 s)) = [50; 51] /\ s_inh s = 600600
  | None => False end.
Proof. vm_compute. repeat split; intros H; discriminate. Qed.

(* ---- the several requests of one ADD (Manager.Allocate + the daemon's roll-back) ------------------------------ *)
(* for every assignment of requests to backends and every sequence of answers (resource, error, closed channel, none)
   and cancellations, each taken in before the next: Allocate returns exactly the resources the backends gave to the
   pod, whether it returns an error or not *)
Theorem c07_allocate_returns_what_was_handed_out : forall acc early evs,
  MgrModel.handed (MgrModel.run acc early evs) = MgrModel.got (MgrModel.run acc early evs).
Proof. exact MgrProofs.returned_is_handed. Qed.
Print Assumptions c07_allocate_returns_what_was_handed_out.
(* hence a failed ADD, rolled back with what Allocate returned, leaves no resource marked as the pod's *)
Theorem c07_failed_add_leaves_nothing : forall acc early evs,
  MgrModel.failed (MgrModel.run acc early evs) = true -> MgrModel.owned_after (MgrModel.run acc early evs) = [].
Proof. exact MgrProofs.failed_add_leaves_nothing. Qed.
Print Assumptions c07_failed_add_leaves_nothing.
(* non-vacuity: an ADD of two requests, the first answered, the second failing: one resource returned with the error *)
Example c07_ex_partial :
  let s := MgrModel.run [1; 2] 0 [MgrModel.EAns 1 0; MgrModel.EAns 2 1] in
  MgrModel.failed s = true /\ MgrModel.got s = [101] /\ MgrModel.owned_after s = [].
Proof. vm_compute. repeat split. Qed.
(* the same when the first answer comes in while the dispatch loop finds no backend for the second request, and when
   an answer is taken in the instant of the cancellation *)
Example c07_ex_partial_early :
  let s := MgrModel.run [1; 0] 1 [] in
  MgrModel.failed s = true /\ MgrModel.got s = [101] /\ MgrModel.owned_after s = [].
Proof. vm_compute. repeat split. Qed.
Example c07_ex_partial_instant :
  let s := MgrModel.run [1; 1] 0 [MgrModel.EAnsCancel 2 0 true] in
  MgrModel.failed s = true /\ MgrModel.got s = [102] /\ MgrModel.owned_after s = [].
Proof. vm_compute. repeat split. Qed.
