(* C16Run.v — case decoder for C16.  case = cap :: nops :: op*, op = length-prefixed
   [0; rid; builder; params...] (Issue) | [1; rid] (Rollback) | [2; rid] (Success). *)
From Coq Require Import ZArith List Bool.
From TV Require Import Codec C16Model.
Import ListNotations.
Local Open Scope Z_scope.

Fixpoint dec_strs (n : nat) (l : list Z) : option (list (list Z) * list Z) :=
  match n with
  | O => Some ([], l)
  | S n' => match take_list l with
            | Some (s, r) => match dec_strs n' r with Some (ss, r') => Some (s :: ss, r') | None => None end
            | None => None
            end
  end.

Fixpoint dec_tags (n : nat) (l : list Z) : option (list tag * list Z) :=
  match n with
  | O => Some ([], l)
  | S n' => match take_list l with
            | Some (k, r) =>
                match take_list r with
                | Some (v, r1) => match dec_tags n' r1 with Some (ts, r2) => Some ((k, v) :: ts, r2) | None => None end
                | None => None
                end
            | None => None
            end
  end.

Definition dec_params (l : list Z) : option params :=
  match take_list l with Some (vs, trunk_ :: erdma_ :: nsg :: r1) =>
  match dec_strs (Z.to_nat nsg) r1 with Some (sg, r2) =>
  match take_list r2 with Some (rg_, ipc :: ip6c :: del :: sd :: ntag :: r3) =>
  match dec_tags (Z.to_nat ntag) r3 with Some (tg, r4) =>
  match dec_strs 3 r4 with Some ([inst; zone; eni], _) =>
    Some {| vsw := vs; trunk := dec_bool trunk_; erdma := dec_bool erdma_; sgs := sg; rg := rg_;
            ipcount := ipc; ipv6count := ip6c; del_on_release := del; src_dst := sd; tags := tg;
            instance_id := inst; zone_id := zone; eni_id := eni |}
  | _ => None end | None => None end | _ => None end | None => None end | _ => None end.

Definition dec_op (l : list Z) : option op :=
  match l with
  | 0 :: rid :: builder :: r =>
      match dec_params r with Some p => Some (Issue rid (request_key builder p)) | None => None end
  | [1; rid] => Some (Rollback rid)
  | [2; rid] => Some (Success rid)
  | _ => None
  end.

Fixpoint dec_ops (n : nat) (l : list Z) : option (list op) :=
  match n with
  | O => Some []
  | S n' => match take_list l with
            | Some (o, r) => match dec_op o, dec_ops n' r with
                             | Some o', Some os => Some (o' :: os) | _, _ => None end
            | None => None
            end
  end.

(* concurrent round: K identical requests issued and rolled back, then P identical requests
   issued by P goroutines at once.  Each GenerateKey is atomic (mutex), so the outcome is that of
   SOME sequential order of the P issues; the multiset of tokens is the same for all orders. *)
Fixpoint insert_z (x : Z) (l : list Z) : list Z :=
  match l with [] => [x] | y :: r => if x <=? y then x :: l else y :: insert_z x r end.
Definition sort_z (l : list Z) : list Z := fold_right insert_z [] l.
Definition conc_ops (k p : nat) : list op :=
  map (fun i => Issue (Z.of_nat i) (Some [0])) (seq 1 k)
  ++ map (fun i => Rollback (Z.of_nat i)) (seq 1 k)
  ++ map (fun i => Issue (Z.of_nat i) (Some [0])) (seq (S k) p).
Fixpoint nodup_z (l : list Z) : bool :=
  match l with [] => true | x :: r => negb (existsb (Z.eqb x) r) && nodup_z r end.

Definition run_c16 (i : list Z) : list Z :=
  match i with
  | [-1; k; p] => sort_z (skipn (Z.to_nat k) (mrun 500 minit (conc_ops (Z.to_nat k) (Z.to_nat p))))
  | cap :: n :: r => match dec_ops (Z.to_nat n) r with
                     | Some ops => mrun (Z.to_nat cap) minit ops
                     | None => bad
                     end
  | _ => bad
  end.

Fixpoint dedup (l : list hkey) : list hkey :=
  match l with
  | [] => []
  | k :: r => if existsb (list_eqb k) r then dedup r else k :: dedup r
  end.
Definition issue_keys (ops : list op) : list hkey :=
  flat_map (fun o => match o with Issue _ (Some k) => [k] | _ => [] end) ops.

(* the property is claimed under E9: at most cap distinct request hashes are live, so the
   LRU never evicts; histories beyond that only check model/implementation agreement *)
Definition chk_c16 (i o : list Z) : bool :=
  match i with
  | [-1; k; p] =>
      (* tokens held in flight at the same time are pairwise distinct, and the put-back tokens
         (ids below k) are reused before any fresh one is minted *)
      (Z.of_nat (length o) =? p) && nodup_z o &&
      (Z.of_nat (length (filter (fun t => t <? k) o)) =? Z.min k p) && forallb (fun t => 0 <=? t) o
  | cap :: n :: r => match dec_ops (Z.to_nat n) r with
                     | Some ops =>
                         if (length (dedup (issue_keys ops)) <=? Z.to_nat cap)%nat then crun cinit ops o else true
                     | None => false
                     end
  | _ => false
  end.
