(* C17Proofs.v *)
From Coq Require Import ZArith List Bool Lia.
From TV Require Import Codec C17Model.
Import ListNotations.
Local Open Scope Z_scope.

Lemma cache_get_del_other t c id id' : id <> id' -> cache_get t (cache_del c id) id' = cache_get t c id'.
Proof.
  intros Hne. unfold cache_del. induction c as [|e c IH]; cbn [filter cache_get]; [reflexivity|].
  destruct (c_id e =? id) eqn:E; cbn [negb].
  - apply Z.eqb_eq in E. rewrite IH. assert (c_id e =? id' = false) as -> by lia. reflexivity.
  - cbn [cache_get]. rewrite IH. reflexivity.
Qed.

Lemma cache_get_del_same t c id : cache_get t (cache_del c id) id = None.
Proof.
  unfold cache_del. induction c as [|e c IH]; cbn [filter cache_get]; [reflexivity|].
  destruct (c_id e =? id) eqn:E; cbn [negb]; [exact IH|]. cbn [cache_get]. rewrite E. exact IH.
Qed.

Lemma view_add s c id e id' :
  0 <= ttl s -> cache_get (now s) c id = None -> api_get (ap s) id = Some e ->
  view s (cache_add c id e (now s + ttl s)) id' = view s c id'.
Proof.
  intros Ht Hc Ha. unfold view, cache_add. cbn [cache_get c_id c_exp c_e].
  destruct (id =? id') eqn:E.
  - apply Z.eqb_eq in E; subst id'. assert (now s + ttl s <? now s = false) as -> by lia.
    rewrite Hc, Ha. reflexivity.
  - rewrite cache_get_del_other by lia. reflexivity.
Qed.

(* a read returns the pool's view and does not change the view of any id *)
Lemma get_by_id_view s c id oe c' f :
  0 <= ttl s -> get_by_id s c id = (oe, c', f) ->
  oe = view s c id /\ forall id', view s c' id' = view s c id'.
Proof.
  intros Ht. unfold get_by_id, view.
  destruct (cache_get (now s) c id) as [e|] eqn:Ec.
  - intros H; inversion H; subst. split; [reflexivity | intros; reflexivity].
  - destruct (api_get (ap s) id) as [e|] eqn:Ea; intros H; inversion H; subst.
    + split; [reflexivity|]. intros id'. apply (view_add s c id e id' Ht Ec Ea).
    + split; [reflexivity | intros; reflexivity].
Qed.

Definition candv (s : st) (c : cache) (p : entry -> bool) (id : Z) : bool :=
  match view s c id with Some e => p e | None => false end.

Lemma cands_ext s c c' p ids : (forall id, view s c' id = view s c id) -> cands s c' p ids = cands s c p ids.
Proof. intros H. unfold cands. apply filter_ext. intros id. rewrite H. reflexivity. Qed.

Lemma eligible_disjoint zone ignore e : eligible_in zone e = true -> eligible_fb zone ignore e = false.
Proof. unfold eligible_in, eligible_fb. destruct ignore, (e_zone e =? zone), (e_free e =? 0); cbn; congruence. Qed.

(* the ordered walk = first in-zone candidate; if there is none, fallbacks in list order *)
Lemma walk_spec s zone ignore ids : forall c fetched fb res c' f' fb',
  0 <= ttl s -> walk s zone ignore ids c fetched fb = (res, c', f', fb') ->
  (forall id, view s c' id = view s c id) /\
  res = hd_error (cands s c (eligible_in zone) ids) /\
  (res = None -> fb' = fb ++ cands s c (eligible_fb zone ignore) ids).
Proof.
  induction ids as [|id r IH]; intros c fetched fb res c' f' fb' Ht; cbn [walk].
  - intros H; inversion H; subst. cbn. rewrite app_nil_r. repeat split; reflexivity.
  - destruct (get_by_id s c id) as [[oe c1] f] eqn:Eg.
    destruct (get_by_id_view s c id oe c1 f Ht Eg) as (Hoe & Hv1).
    unfold cands. cbn [filter]. fold (cands s c (eligible_in zone) r). fold (cands s c (eligible_fb zone ignore) r).
    rewrite <- Hoe.
    destruct oe as [e|].
    + destruct (eligible_in zone e) eqn:Ei.
      * intros H; inversion H; subst. cbn [hd_error]. split; [exact Hv1|]. split; [reflexivity | discriminate].
      * intros H. destruct (IH _ _ _ _ _ _ _ Ht H) as (Hv & Hr & Hf).
        rewrite (cands_ext s c c1) in Hr by exact Hv1. rewrite (cands_ext s c c1) in Hf by exact Hv1.
        split; [intros id'; rewrite Hv; apply Hv1|]. split; [exact Hr|].
        intros Hn. rewrite (Hf Hn). destruct (eligible_fb zone ignore e); [rewrite <- app_assoc|]; reflexivity.
    + intros H. destruct (IH _ _ _ _ _ _ _ Ht H) as (Hv & Hr & Hf).
      rewrite (cands_ext s c c1) in Hr by exact Hv1. rewrite (cands_ext s c c1) in Hf by exact Hv1.
      split; [intros id'; rewrite Hv; apply Hv1|]. split; assumption.
Qed.

Lemma visit_all_view s ids : forall c fetched c' f',
  0 <= ttl s -> visit_all s ids c fetched = (c', f') -> forall id, view s c' id = view s c id.
Proof.
  induction ids as [|id r IH]; intros c fetched c' f' Ht; cbn [visit_all].
  - intros H; inversion H; subst. reflexivity.
  - destruct (get_by_id s c id) as [[oe c1] f] eqn:Eg.
    destruct (get_by_id_view s c id oe c1 f Ht Eg) as (_ & Hv1).
    intros H id'. rewrite (IH _ _ _ _ Ht H). apply Hv1.
Qed.

Lemma mem_in x l : mem x l = true <-> In x l.
Proof.
  unfold mem. rewrite existsb_exists. split.
  - intros (y & Hy & E). apply Z.eqb_eq in E. subst. exact Hy.
  - intros H. exists x. split; [exact H | apply Z.eqb_refl].
Qed.

Lemma pick_in legal obs r : pick legal obs = Some r -> In r legal.
Proof.
  unfold pick. destruct (mem obs legal) eqn:E.
  - intros H; inversion H; subst. apply mem_in. exact E.
  - destruct legal; cbn; [discriminate|]. intros H; inversion H. left; reflexivity.
Qed.

Lemma pick_none legal obs : pick legal obs = None -> legal = [].
Proof. unfold pick. destruct (mem obs legal); [discriminate|]. destruct legal; [reflexivity | discriminate]. Qed.

Lemma hd_error_in {A} (l : list A) x : hd_error l = Some x -> In x l.
Proof. destruct l; cbn; [discriminate|]. intros H; inversion H. left; reflexivity. Qed.

Lemma cands_in s c p ids r : In r (cands s c p ids) -> In r ids /\ exists e, view s c r = Some e /\ p e = true.
Proof.
  unfold cands. rewrite filter_In. intros [Hi Hp]. split; [exact Hi|].
  destruct (view s c r) as [e|]; [exists e; split; [reflexivity | exact Hp] | discriminate].
Qed.

Lemma exists_max s c l : l <> [] -> exists m, In m l /\ is_max s c l m = true.
Proof.
  unfold is_max. induction l as [|y l IH]; [congruence|]. intros _.
  destruct (list_eq_dec Z.eq_dec l []) as [->|Hne].
  - exists y. split; [left; reflexivity|]. cbn. rewrite Z.leb_refl. reflexivity.
  - destruct (IH Hne) as (m & Hm & Hall).
    destruct (free_of s c y <=? free_of s c m) eqn:E.
    + exists m. split; [right; exact Hm|]. cbn [forallb]. rewrite E. exact Hall.
    + exists y. split; [left; reflexivity|]. cbn [forallb]. rewrite Z.leb_refl. cbn [andb].
      rewrite forallb_forall in *. intros x Hx. specialize (Hall x Hx). lia.
Qed.

(* ---- the result of GetOne against the view of the pool before the call ------- *)
Definition inz s zone ids := cands s (cch s) (eligible_in zone) ids.
Definition fbs s zone ignore ids := cands s (cch s) (eligible_fb zone ignore) ids.

Lemma get_one_result s zone ids policy ignore obs of_ :
  0 <= ttl s ->
  let r := g_res (snd (get_one s zone ids policy ignore obs of_)) in
  match r with
  | Some x => match inz s zone ids with
              | _ :: _ => In x (inz s zone ids)
              | [] => In x (fbs s zone ignore ids)
              end
  | None => inz s zone ids = [] /\ fbs s zone ignore ids = []
  end.
Proof.
  intros Ht. unfold get_one, inz, fbs.
  destruct (policy =? 1) eqn:P1.
  - destruct (visit_all s ids (cch s) []) as [c1 f1] eqn:Ev.
    pose proof (visit_all_view s ids _ _ _ _ Ht Ev) as Hv.
    rewrite !(cands_ext s (cch s) c1) by exact Hv.
    cbn [snd g_res].
    destruct (cands s (cch s) (eligible_in zone) ids) as [|a l] eqn:Ei.
    + destruct (pick _ obs) as [x|] eqn:Ep.
      * apply pick_in, filter_In in Ep. tauto.
      * apply pick_none in Ep. split; [reflexivity|].
        destruct (cands s (cch s) (eligible_fb zone ignore) ids) as [|b l'] eqn:Ef; [reflexivity|].
        exfalso. (* a non-empty list has a maximal element *)
        assert (Hmax : exists m, In m (b :: l') /\ is_max s c1 (b :: l') m = true)
          by (apply exists_max; discriminate).
        destruct Hmax as (m & Hm & Hmx).
        assert (In m (filter (is_max s c1 (b :: l')) (b :: l'))) by (apply filter_In; split; assumption).
        rewrite Ep in H. contradiction.
    + destruct (pick _ obs) as [x|] eqn:Ep.
      * apply pick_in, filter_In in Ep. tauto.
      * exfalso. apply pick_none in Ep.
        assert (Hmax : exists m, In m (a :: l) /\ is_max s c1 (a :: l) m = true)
          by (apply exists_max; discriminate).
        destruct Hmax as (m & Hm & Hmx).
        assert (In m (filter (is_max s c1 (a :: l)) (a :: l))) by (apply filter_In; split; assumption).
        rewrite Ep in H. contradiction.
  - destruct (policy =? 2) eqn:P2.
    + destruct (cands s (cch s) (eligible_in zone) ids) as [|a l] eqn:Ei.
      * destruct (visit_all s ids (cch s) []) as [c1 f1] eqn:Ev.
        pose proof (visit_all_view s ids _ _ _ _ Ht Ev) as Hv.
        rewrite (cands_ext s (cch s) c1) by exact Hv. cbn [snd g_res].
        destruct (pick _ obs) as [x|] eqn:Ep; [apply pick_in in Ep; exact Ep|].
        apply pick_none in Ep. split; [reflexivity | exact Ep].
      * cbn [snd g_res]. destruct (pick (a :: l) obs) as [x|] eqn:Ep; [apply pick_in in Ep; exact Ep|].
        apply pick_none in Ep. discriminate.
    + destruct (walk s zone ignore ids (cch s) [] []) as [[[res c1] f1] fb] eqn:Ew.
      destruct (walk_spec s zone ignore ids _ _ _ _ _ _ _ Ht Ew) as (Hv & Hr & Hf).
      cbn [snd g_res]. destruct res as [x|].
      * symmetry in Hr. apply hd_error_in in Hr as Hin.
        destruct (cands s (cch s) (eligible_in zone) ids); [contradiction | exact Hin].
      * specialize (Hf eq_refl). cbn [app] in Hf. subst fb.
        destruct (cands s (cch s) (eligible_in zone) ids) as [|a0 l0] eqn:Hi; [|discriminate].
        destruct (cands s (cch s) (eligible_fb zone ignore) ids) as [|b l] eqn:Ef; cbn [hd_error].
        -- split; reflexivity.
        -- left; reflexivity.
Qed.

(* ordered: exactly the first candidate in the caller's order *)
Lemma get_one_ordered s zone ids policy ignore obs of_ :
  0 <= ttl s -> policy <> 1 -> policy <> 2 ->
  g_res (snd (get_one s zone ids policy ignore obs of_)) =
  match inz s zone ids with
  | x :: _ => Some x
  | [] => hd_error (fbs s zone ignore ids)
  end.
Proof.
  intros Ht P1 P2. unfold get_one, inz, fbs.
  assert (policy =? 1 = false) as -> by lia. assert (policy =? 2 = false) as -> by lia.
  destruct (walk s zone ignore ids (cch s) [] []) as [[[res c1] f1] fb] eqn:Ew.
  destruct (walk_spec s zone ignore ids _ _ _ _ _ _ _ Ht Ew) as (Hv & Hr & Hf).
  cbn [snd g_res]. destruct (cands s (cch s) (eligible_in zone) ids) as [|x l]; cbn [hd_error] in Hr; subst res.
  - rewrite (Hf eq_refl). reflexivity.
  - reflexivity.
Qed.

(* most: an in-zone candidate with the most free addresses (fallbacks likewise) *)
Lemma get_one_most s zone ids ignore obs of_ x :
  0 <= ttl s ->
  g_res (snd (get_one s zone ids 1 ignore obs of_)) = Some x ->
  forall y, In y (match inz s zone ids with _ :: _ => inz s zone ids | [] => fbs s zone ignore ids end) ->
            free_of s (cch s) y <= free_of s (cch s) x.
Proof.
  intros Ht. unfold get_one, inz, fbs. cbn [Z.eqb Pos.eqb].
  destruct (visit_all s ids (cch s) []) as [c1 f1] eqn:Ev.
  pose proof (visit_all_view s ids _ _ _ _ Ht Ev) as Hv.
  rewrite !(cands_ext s (cch s) c1) by exact Hv. cbn [snd g_res].
  assert (Hfree : forall z, free_of s c1 z = free_of s (cch s) z) by (intros z; unfold free_of; rewrite Hv; reflexivity).
  destruct (cands s (cch s) (eligible_in zone) ids) as [|a l] eqn:Ei; intros Hp y Hy;
    apply pick_in, filter_In in Hp as [_ Hmax]; unfold is_max in Hmax; rewrite forallb_forall in Hmax;
    specialize (Hmax y Hy); rewrite <- !Hfree; lia.
Qed.

(* Block: the blocked vSwitch is not chosen while its cache entry lives *)
Lemma blocked_not_chosen s id e dt zone ids policy ignore obs of_ :
  0 <= ttl s -> 0 <= dt <= ttl s -> cache_get (now s) (cch s) id = Some e ->
  g_res (snd (get_one (advance (block s id) dt) zone ids policy ignore obs of_)) <> Some id.
Proof.
  intros Ht Hdt Hc Hres.
  set (s' := advance (block s id) dt) in *.
  assert (Ht' : 0 <= ttl s') by (subst s'; unfold advance, block; rewrite Hc; cbn; exact Ht).
  pose proof (get_one_result s' zone ids policy ignore obs of_ Ht') as H. cbv zeta in H. rewrite Hres in H.
  assert (Hview : view s' (cch s') id = Some {| e_zone := e_zone e; e_free := 0 |}).
  { subst s'. unfold advance, block, view. rewrite Hc. cbn [now ttl cch ap cache_add cache_get c_id c_exp c_e].
    rewrite Z.eqb_refl. assert (now s + ttl s <? now s + dt = false) as -> by lia. reflexivity. }
  assert (Hnot : forall p, (forall z, p {| e_zone := e_zone e; e_free := z |} = true -> z <> 0) ->
                           ~ In id (cands s' (cch s') p ids)).
  { intros p Hp Hin. apply cands_in in Hin as (_ & e' & He' & Hpe). rewrite Hview in He'. inversion He'; subst e'.
    exact (Hp 0 Hpe eq_refl). }
  unfold inz, fbs in H.
  destruct (cands s' (cch s') (eligible_in zone) ids) eqn:Ei.
  - apply (Hnot (eligible_fb zone ignore)); [|exact H].
    intros z0 Hz ->. unfold eligible_fb in Hz. cbn in Hz. rewrite !andb_false_r in Hz. discriminate.
  - rewrite <- Ei in H. apply (Hnot (eligible_in zone)); [|exact H].
    intros z0 Hz ->. unfold eligible_in in Hz. cbn in Hz. rewrite andb_false_r in Hz. discriminate.
Qed.
