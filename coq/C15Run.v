(* C15Run.v — case decoder for C15.
   [1; exact; len; bytes..]  parseBandwidth        -> [0; v] | [0] (class only) | [1] err | [-998] panic | [2] not modelled (non-ASCII)
   [9; len; bytes..]         the five units on one number -> concatenation of the five answers
   [k; ...] k in 2..8        entry points that are library parsing + glue: only "no panic" is judged -> [2] *)
From Coq Require Import ZArith List Bool.
From TV Require Import Codec C15Model.
Import ListNotations.
Local Open Scope Z_scope.

Definition ascii (s : list Z) : bool := forallb (fun b => (0 <=? b) && (b <? 128)) s.

Definition enc_bw (exact : bool) (s : list Z) : list Z :=
  if ascii s then
    match parse_bandwidth s with
    | Ok v => if exact then [0; v] else [0]
    | Err => [1]
    | Panic => [-998]
    end
  else [2].

Definition units : list (list Z) := [[]; [75]; [77]; [71]; [84]].

Definition run_c15 (i : list Z) : list Z :=
  match i with
  | 1 :: exact :: r => match take_list r with Some (s, _) => enc_bw (dec_bool exact) s | None => bad end
  | 9 :: r => match take_list r with
              | Some (s, _) => flat_map (fun u => enc_bw true (s ++ u)) units
              | None => bad end
  | k :: _ => if (2 <=? k) && (k <=? 8) then [2] else bad
  | [] => bad
  end.

Fixpoint nondecreasing (l : list Z) : bool :=
  match l with
  | a :: (b :: _) as r => (a <=? b) && nondecreasing r
  | _ => true
  end.

(* values of a run of [0; v] answers; None if some answer is not of that shape *)
Fixpoint ok_values (o : list Z) : option (list Z) :=
  match o with
  | [] => Some []
  | 0 :: v :: r => match ok_values r with Some vs => Some (v :: vs) | None => None end
  | _ => None
  end.

Definition chk_c15 (i o : list Z) : bool :=
  negb (existsb (Z.eqb (-998)) o) &&
  match i with
  | 1 :: exact :: r =>
      match take_list r with
      | Some (s, _) =>
          (* a well-formed unit-less value is accepted *)
          if all_digits s && negb (match s with [] => true | _ => false end) then
            match digits_val 0 s with
            | Some v => if (0 <? v) && (v <? 18446744073709551616) then match o with 0 :: _ => true | _ => false end else true
            | None => true
            end
          else true
      | None => false
      end
  | 9 :: _ => match ok_values o with Some vs => nondecreasing vs | None => true end
  | _ => true
  end.
