(* C19Proofs.v *)
From Coq Require Import ZArith List Bool Lia.
From Coq Require Import ZifyBool.
From TV Require Import C19Model.
Import ListNotations.
Local Open Scope Z_scope.

Ltac split_ifs :=
  repeat match goal with
         | |- context [if ?b then _ else _] => destruct b eqn:?
         end.

Lemma erdma_res_bounds l : 0 <= erdma_res l <= 2 /\ erdma_res l <= Z.max 0 (erdma_adapters l)
                           /\ (0 < erdma_res l -> 3 <= adapters l).
Proof. unfold erdma_res. split_ifs; lia. Qed.

Lemma pool_slots c l :
  1 <= adapters l -> c_shift c <= 0 -> c_multi_ip c = true ->
  0 <= p_max_eni (get_pool_config c l) <= adapters l - 1.
Proof. intros Ha Hs Hm. unfold get_pool_config. rewrite Hm. cbn [p_max_eni]. split_ifs; lia. Qed.

Lemma pool_capacity c l :
  1 <= adapters l -> c_shift c <= 0 -> 0 <= ipv4per l ->
  let p := get_pool_config c l in
  p_capacity p = p_max_eni p * p_ip_per_eni p /\ p_ip_per_eni p <= ipv4per l /\
  0 <= p_capacity p <= (adapters l - 1) * ipv4per l.
Proof.
  intros Ha Hs Hi. unfold get_pool_config.
  destruct (c_multi_ip c); cbn [p_capacity p_max_eni p_ip_per_eni]; [|nia].
  split; [reflexivity|]. split; [lia|]. split_ifs; nia.
Qed.

Lemma pool_watermarks c l :
  0 <= ipv4per l ->
  let p := get_pool_config c l in
  0 <= p_min_pool p <= p_max_pool p /\ p_max_pool p <= p_capacity p.
Proof.
  intros Hi. unfold get_pool_config.
  destruct (c_multi_ip c); cbn [p_capacity p_max_pool p_min_pool]; [|lia].
  set (me := if (if (0 <? c_max_eni c) && (c_max_eni c <? adapters l + c_shift c - 1)
                 then c_max_eni c else adapters l + c_shift c - 1) <? 0 then 0
             else if (0 <? c_max_eni c) && (c_max_eni c <? adapters l + c_shift c - 1)
                  then c_max_eni c else adapters l + c_shift c - 1).
  assert (Hme : 0 <= me) by (subst me; split_ifs; lia).
  assert (Hcap : 0 <= me * ipv4per l) by nia.
  generalize dependent (me * ipv4per l). intros cap Hcap.
  generalize (c_min_eni c * ipv4per l). intros mn.
  split_ifs; lia.
Qed.

Lemma pool_member c l : p_max_member (get_pool_config c l) <= Z.max 0 (member l).
Proof. unfold get_pool_config. destruct (c_multi_ip c); cbn [p_max_member]; lia. Qed.

Lemma pool_erdma c l :
  0 <= ipv4per l ->
  0 <= p_erdma_cap (get_pool_config c l) <= Z.min 2 (Z.max 0 (erdma_adapters l)) * ipv4per l.
Proof.
  intros Hi. pose proof (erdma_res_bounds l) as (H1 & H2 & _).
  unfold get_pool_config. destruct (c_multi_ip c); cbn [p_erdma_cap]; [|nia].
  destruct (c_erdma c); nia.
Qed.

Lemma limits_bounds l :
  1 <= adapters l -> 0 <= ipv4per l ->
  multi_ip_pod l = (adapters l - 1) * ipv4per l /\ exclusive_eni_pod l = adapters l - 1.
Proof. intros; split; reflexivity. Qed.

Lemma check_instance_sound l multi stack trunking erdma oscap v4 v6 tr er :
  check_instance l multi stack trunking erdma oscap = (v4, v6, tr, er) ->
  (v6 = true -> 0 < ipv6per l /\ (multi = true -> ipv6per l = ipv4per l)) /\
  (tr = true -> 0 < member l /\ trunking = true) /\
  (er = true -> 0 < erdma_res l /\ oscap = true /\ erdma = true).
Proof.
  unfold check_instance, support_ipv6, support_multi_ipv6. intros H. inversion H; subst; clear H.
  repeat split; intros; lia.
Qed.

Lemma node_flavor_sum a i4 i6 m eri st ct ce os ex mx mn :
  1 <= a ->
  let n := node_reconcile a i4 i6 m eri st ct ce os ex mx mn in
  flavor_sum (n_flavor n) = a - 1 /\ Forall (fun f => 0 <= f_count f) (n_flavor n).
Proof.
  intros Ha. unfold node_reconcile.
  destruct (ct && (0 <? m) && negb ex && (0 <? a - 1)) eqn:E1;
  [destruct (ce && (0 <? eri) && os && (0 <? a - 1 - 1)) eqn:E2
  |destruct (ce && (0 <? eri) && os && (0 <? a - 1)) eqn:E2];
  cbn [n_flavor app flavor_sum fold_right f_count]; (split; [lia|]);
  repeat constructor; cbn [f_count]; lia.
Qed.

Lemma node_features_sound a i4 i6 m eri st ct ce os ex mx mn :
  let n := node_reconcile a i4 i6 m eri st ct ce os ex mx mn in
  (n_v6 n = true -> i6 = i4) /\
  (n_trunk n = true -> 0 < m /\ ex = false) /\
  (n_erdma n = true -> 0 < eri /\ os = true).
Proof.
  unfold node_reconcile.
  destruct (ct && (0 <? m) && negb ex && (0 <? a - 1)) eqn:E1;
  [destruct (ce && (0 <? eri) && os && (0 <? a - 1 - 1)) eqn:E2
  |destruct (ce && (0 <? eri) && os && (0 <? a - 1)) eqn:E2];
  cbn [n_v6 n_trunk n_erdma]; repeat split; intros; lia.
Qed.

Lemma node_anno_bound a i4 i6 m eri st ct ce os ex mx mn :
  1 <= a -> 0 <= i4 ->
  let n := node_reconcile a i4 i6 m eri st ct ce os ex mx mn in
  0 <= k8s_anno i4 false (n_flavor n) <= (a - 1) * i4 /\
  0 <= k8s_anno i4 true (n_flavor n) <= a - 1.
Proof.
  intros Ha Hi. unfold node_reconcile.
  destruct (ct && (0 <? m) && negb ex && (0 <? a - 1)) eqn:E1;
  [destruct (ce && (0 <? eri) && os && (0 <? a - 1 - 1)) eqn:E2
  |destruct (ce && (0 <? eri) && os && (0 <? a - 1)) eqn:E2];
  cbn [n_flavor app k8s_anno fold_left is_std_secondary is_trunk f_type f_mode f_count]; nia.
Qed.
