(* Props_C16.v — property C16 stated against C16Model. *)
From Coq Require Import ZArith List Bool Permutation.
From TV Require Import Codec C16Model C16Proofs.
Import ListNotations.
Local Open Scope Z_scope.

(* Every history of issue / rollback / success (each atomic: the generator's mutex), with at
   most cap distinct request hashes so that the LRU never evicts (E9): the tokens the
   generator hands out are accepted by the property checker crun — a retry of a rolled-back
   identical request reuses one of its tokens, any other request gets a never-seen token,
   and no two requests in flight share one (see the three lemmas on cstep below). *)
Theorem c16_generator_meets_property : forall cap K ops,
  (forall l, NoDup l -> incl l K -> (length l <= cap)%nat) -> incl (keys_of ops) K ->
  crun cinit ops (mrun cap minit ops) = true.
Proof. intros cap K ops Hf Hi. exact (model_meets_spec cap K ops _ _ _ Hf (R_init K) Hi). Qed.
Print Assumptions c16_generator_meets_property.

(* what acceptance by the checker means *)
Theorem c16_in_flight_distinct : forall c rid k t c',
  NoDup (ctoks c) -> cstep c (Issue rid (Some k)) t = Some c' -> NoDup (ctoks c').
Proof. exact cstep_inflight_distinct. Qed.
Print Assumptions c16_in_flight_distinct.

Theorem c16_retry_same : forall c rid k t c',
  avail c k <> [] -> cstep c (Issue rid (Some k)) t = Some c' -> In t (avail c k).
Proof. exact cstep_retry_reuses. Qed.
Print Assumptions c16_retry_same.

Theorem c16_fresh_unless_retry : forall c rid k t c',
  avail c k = [] -> cstep c (Issue rid (Some k)) t = Some c' -> ~ In t (seen c).
Proof. exact cstep_fresh_unless_retry. Qed.
Print Assumptions c16_fresh_unless_retry.

(* the hashed request does not depend on the order in which the tag map is iterated *)
Theorem c16_enc_perm_invariant : forall b p tags',
  NoDup (map fst (tags p)) -> Permutation (tags p) tags' ->
  request_key b p =
  request_key b {| vsw := vsw p; trunk := trunk p; erdma := erdma p; sgs := sgs p; rg := rg p;
                   ipcount := ipcount p; ipv6count := ipv6count p; del_on_release := del_on_release p;
                   src_dst := src_dst p; tags := tags'; instance_id := instance_id p;
                   zone_id := zone_id p; eni_id := eni_id p |}.
Proof.
  intros b p tags' Hn P. unfold request_key. cbn [vsw trunk erdma sgs rg ipcount ipv6count del_on_release src_dst tags instance_id zone_id eni_id].
  rewrite (sort_tags_perm_invariant (tags p) tags' Hn P). reflexivity.
Qed.
Print Assumptions c16_enc_perm_invariant.

(* the token is not part of what is hashed: request_key is computed from the parameters alone
   (c16_hash_before_token holds by construction: generate takes the key, returns the token) *)

Example c16_ex_retry :
  mrun 500 minit [Issue 1 (Some [7]); Issue 2 (Some [8]); Rollback 1; Issue 3 (Some [7]); Issue 4 (Some [7])]
  = [0; 1; 0; 2].
Proof. vm_compute. reflexivity. Qed.
Example c16_ex_tags :
  sort_tags [([98], [1]); ([97], [2])] = sort_tags [([97], [2]); ([98], [1])].
Proof. vm_compute. reflexivity. Qed.
