(* IpamLoopProofs.v — what the closed-loop model (IpamLoop) says about convergence of the pool maintenance.
   The property (C08, last sentence) asks for a fixed point once min <= max and the cloud is healthy.  The faithful model
   refutes it: two small configurations are shown to call the cloud in EVERY round, forever.  The harness replays both on
   the real ReconcileNode.Reconcile in every run (first two pool-loop cases of the C08 generator). *)
From Coq Require Import ZArith List Bool Lia.
From TV Require Import Codec IpamModel IpamLoop.
Import ListNotations.
Local Open Scope Z_scope.

(* IPv4 only, 3 addresses per interface, min = max = 3, two interfaces holding 2 + 1 idle addresses (3 in all: inside the band) *)
Definition w1_cfg : lcfg := mkLc false 3 3 3 2.
Definition w1_a : lstate := (3, [mkLe 1 2 0 0 0 false; mkLe 2 1 0 0 0 false]).
Definition w1_b : lstate := (3, [mkLe 1 2 1 0 0 false; mkLe 2 1 0 0 0 false]).

Lemma w1_step_a : pass w1_cfg w1_a = (w1_b, [(3, 1, 1)]).
Proof. vm_compute. reflexivity. Qed.
Lemma w1_step_b : pass w1_cfg w1_b = (w1_a, [(5, 1, 1)]).
Proof. vm_compute. reflexivity. Qed.

Lemma passes_S c n st : passes c (S n) st = fst (pass c (passes c n st)).
Proof.
  revert st. induction n as [|n IH]; intros st; [reflexivity|].
  change (passes c (S (S n)) st) with (passes c (S n) (fst (pass c st))). rewrite IH. reflexivity.
Qed.

Lemma w1_orbit n : passes w1_cfg n w1_a = w1_a \/ passes w1_cfg n w1_a = w1_b.
Proof.
  induction n as [|n [IH|IH]]; [left; reflexivity | |]; rewrite passes_S, IH.
  - right. rewrite w1_step_a. reflexivity.
  - left. rewrite w1_step_b. reflexivity.
Qed.

Lemma w1_never_quiet n : snd (pass w1_cfg (passes w1_cfg n w1_a)) <> [].
Proof. destruct (w1_orbit n) as [H|H]; rewrite H; [rewrite w1_step_a | rewrite w1_step_b]; discriminate. Qed.

Lemma w1_no_tie : tie_somewhere w1_cfg w1_a = false /\ tie_somewhere w1_cfg w1_b = false.
Proof. split; vm_compute; reflexivity. Qed.

(* dual stack, 3 per interface, min = max = 2, interfaces with 1 + 2 IPv4 addresses and no IPv6 address yet *)
Definition w2_cfg : lcfg := mkLc true 3 2 2 2.
Definition w2_a : lstate := (3, [mkLe 1 1 0 0 0 false; mkLe 2 2 0 0 0 false]).
Definition w2_b : lstate := (3, [mkLe 1 1 0 0 0 false; mkLe 2 1 1 1 1 false]).

Lemma w2_step_a : pass w2_cfg w2_a = (w2_b, [(4, 2, 2)]).
Proof. vm_compute. reflexivity. Qed.
Lemma w2_step_b : pass w2_cfg w2_b = (w2_b, [(3, 2, 1); (4, 2, 1); (5, 2, 1); (6, 2, 1)]).
Proof. vm_compute. reflexivity. Qed.
Lemma w2_orbit n : passes w2_cfg (S n) w2_a = w2_b.
Proof.
  induction n as [|n IH]; [rewrite passes_S; cbn [passes]; rewrite w2_step_a; reflexivity|].
  rewrite passes_S, IH, w2_step_b. reflexivity.
Qed.
Lemma w2_never_quiet n : snd (pass w2_cfg (passes w2_cfg n w2_a)) <> [].
Proof. destruct n as [|n]; [cbn [passes]; rewrite w2_step_a; discriminate|]. rewrite w2_orbit, w2_step_b. discriminate. Qed.
Lemma w2_no_tie : tie_somewhere w2_cfg w2_a = false /\ tie_somewhere w2_cfg w2_b = false.
Proof. split; vm_compute; reflexivity. Qed.

(* the statement the property would need, and its refutation *)
Definition converges (c : lcfg) (st : lstate) : Prop := exists n, forall m, (n <= m)%nat -> snd (pass c (passes c m st)) = [].
Lemma pool_churn_refuted :
  exists c st, l_min c <= l_max c /\ l_dual c = false /\ ~ converges c st.
Proof.
  exists w1_cfg, w1_a. split; [vm_compute; discriminate|]. split; [reflexivity|].
  intros [n Hn]. exact (w1_never_quiet n (Hn n (le_n n))).
Qed.
Lemma pool_churn_dual_refuted :
  exists c st, l_min c <= l_max c /\ l_dual c = true /\ ~ converges c st.
Proof.
  exists w2_cfg, w2_a. split; [vm_compute; discriminate|]. split; [reflexivity|].
  intros [n Hn]. exact (w2_never_quiet n (Hn n (le_n n))).
Qed.

(* what does hold: a record that is already inside the band on ONE interface stays untouched.
   One interface with n idle IPv4 addresses, min <= n <= max, IPv4 only: the round makes no call and changes nothing. *)
Lemma assign_one_fresh pc t4 t6 :
  t4 <= 0 -> t6 <= 0 -> assign_one pc (fresh_opt false false) t4 t6 = (fresh_opt false false, t4, t6).
Proof.
  intros H4 H6. unfold assign_one, fresh_opt, assign_new. cbn [o_rdma o_eni o_trunk o_add4 o_add6 o_full negb andb orb Z.eqb].
  replace (0 <? t4) with false by (symmetry; apply Z.ltb_ge; exact H4).
  replace (0 <? t6) with false by (symmetry; apply Z.ltb_ge; exact H6). reflexivity.
Qed.
Lemma fresh_tail_quiet pc k t4 t6 :
  t4 <= 0 -> t6 <= 0 ->
  assign_opts pc (fun o => negb (o_rdma o)) (repeat (fresh_opt false false) k) t4 t6 = repeat (fresh_opt false false) k.
Proof.
  intros H4 H6. induction k as [|k IH]; [reflexivity|].
  cbn [repeat assign_opts]. rewrite assign_one_fresh by assumption. rewrite IH.
  unfold opt_filter. reflexivity.
Qed.
Lemma rdma_pass_skips l pc t4 t6 :
  forallb (fun o => negb (o_rdma o)) l = true -> assign_opts pc (fun o => o_rdma o) l t4 t6 = l.
Proof.
  induction l as [|o r IH]; [reflexivity|]. cbn [forallb assign_opts]. intros H. apply andb_prop in H. destruct H as [Ho Hr].
  unfold opt_filter. destruct (o_rdma o); [discriminate|]. cbn [andb]. rewrite IH by exact Hr. reflexivity.
Qed.
Lemma first_ask_none l : forallb (fun o => (o_add4 o <=? 0) && (o_add6 o <=? 0)) l = true -> first_ask l = None.
Proof.
  unfold first_ask. induction l as [|o r IH]; [reflexivity|]. cbn [forallb find]. intros H. apply andb_prop in H. destruct H as [Ho Hr].
  apply andb_prop in Ho. destruct Ho as [H4 H6]. apply Z.leb_le in H4. apply Z.leb_le in H6.
  replace (0 <? o_add4 o) with false by (symmetry; apply Z.ltb_ge; exact H4).
  replace (0 <? o_add6 o) with false by (symmetry; apply Z.ltb_ge; exact H6). cbn [orb]. apply IH. exact Hr.
Qed.
Lemma forallb_repeat {A} (f : A -> bool) x k : f x = true -> forallb f (repeat x k) = true.
Proof. intros H. induction k as [|k IH]; [reflexivity|]. cbn [repeat forallb]. rewrite H, IH. reflexivity. Qed.

Lemma one_interface_in_band_is_fixed c next id n :
  l_dual c = false -> id <> 0 -> l_min c <= n -> n <= l_max c ->
  pass c (next, [mkLe id n 0 0 0 false]) = ((next, [mkLe id n 0 0 0 false]), []).
Proof.
  intros Hd Hid Hmin Hmax.
  assert (Hadd : add_step c next [mkLe id n 0 0 0 false] = ([mkLe id n 0 0 0 false], [])).
  { unfold add_step.
    assert (Hp : first_ask (plan (pcfg c) (map opt_of (sort_e [mkLe id n 0 0 0 false])) (l_min c) 0) = None).
    { apply first_ask_none. unfold plan, pcfg. rewrite Hd. cbn [pc_on4 pc_on6 sort_e fold_right insert_e map].
      unfold eni_options. cbn [pc_fl_sec pc_fl_trunk pc_fl_rdma pc_trunk pc_rdma]. unfold replicate at 1 2. cbn [Z.to_nat repeat app].
      unfold replicate. set (k := Z.to_nat _).
      cbn [assign_opts app]. unfold opt_filter at 1. unfold opt_of at 1 2. cbn [o_rdma o_eni o_inuse negb andb c_gone c_id]. rewrite orb_true_r.
      unfold assign_one. unfold opt_of at 1. cbn [o_eni c_id]. replace (id =? 0) with false by (symmetry; apply Z.eqb_neq; exact Hid). cbn [negb].
      unfold opt_of. cbn [o_len4 o_al4 o_add4 o_len6 o_al6 o_add6 o_trunk o_rdma o_eni o_inuse o_full pc_per4 pc_per6 pc_batch c_id c_gone c_n4 c_d4 c_n6 c_d6 negb].
      unfold len4, len6. cbn [c_n4 c_d4 c_n6 c_d6].
      assert (Hf6 : assign_fam (l_per c) (0 + 0) 0 0 0 l_batch = (0, false, 0)) by reflexivity. rewrite Hf6.
      assert (Hf4 : exists t, t <= 0 /\ assign_fam (l_per c) (n + 0) n 0 (l_min c) l_batch = (0, false, t)).
      { unfold assign_fam. destruct (0 <? l_min c) eqn:E.
        - replace (0 <? l_min c - n) with false by (symmetry; apply Z.ltb_ge; lia). exists (l_min c - n). split; [lia|reflexivity].
        - exists (l_min c). apply Z.ltb_ge in E. split; [lia|reflexivity]. }
      destruct Hf4 as [t [Ht Hf4]]. rewrite Hf4. cbn [orb].
      rewrite fresh_tail_quiet by lia.
      rewrite rdma_pass_skips.
      - cbn [forallb o_add4 o_add6 Z.leb andb]. apply forallb_repeat. reflexivity.
      - cbn [forallb o_rdma negb andb]. apply forallb_repeat. reflexivity. }
    rewrite Hp. reflexivity. }
  unfold pass. rewrite Hadd. unfold status_step. cbn [flat_map c_gone c_id c_n4 c_d4 c_n6 c_d6 app].
  change (0 <? 0) with false. cbn [app]. change (0 - Z.min 0 l_batch) with 0.
  unfold adjust_step. cbn [map c_gone c_n4 fold_left]. replace (0 + n - l_max c <=? 0) with true by (symmetry; apply Z.leb_le; lia).
  reflexivity.
Qed.
Example one_interface_instance : pass (mkLc false 5 1 3 2) (2, [mkLe 1 2 0 0 0 false]) = ((2, [mkLe 1 2 0 0 0 false]), []).
Proof. apply one_interface_in_band_is_fixed; [reflexivity | discriminate | vm_compute; discriminate | vm_compute; discriminate]. Qed.

(* ---- a node with ONE interface does converge (per-interface limit within one batch of 10) ---------------------- *)
(* the plan for one interface of the record holding n valid (idle) and d deleting IPv4 addresses, IPv4 only:
   the interface asks for a = assign_fam ..., the fresh slots for nothing when the demand is covered *)
Lemma plan_single c id n d :
  l_dual c = false -> id <> 0 ->
  let '(a, f, t) := assign_fam (l_per c) (n + d) n 0 (l_min c) l_batch in
  t <= 0 ->
  first_ask (plan (pcfg c) (map opt_of (sort_e [mkLe id n d 0 0 false])) (l_min c) 0) =
  if 0 <? a then Some (mkOpt false false id (n + d) n 0 0 true a 0 f) else None.
Proof.
  intros Hd Hid. destruct (assign_fam (l_per c) (n + d) n 0 (l_min c) l_batch) as [[a f] t] eqn:Ea. intros Ht.
  unfold plan, pcfg. rewrite Hd. cbn [pc_on4 pc_on6 sort_e fold_right insert_e map].
  unfold eni_options. cbn [pc_fl_sec pc_fl_trunk pc_fl_rdma pc_trunk pc_rdma]. unfold replicate at 1 2. cbn [Z.to_nat repeat app].
  unfold replicate. set (k := Z.to_nat _).
  cbn [assign_opts app]. unfold opt_filter at 1. unfold opt_of at 1 2. cbn [o_rdma o_eni o_inuse negb andb c_gone c_id]. rewrite orb_true_r.
  unfold assign_one. unfold opt_of at 1. cbn [o_eni c_id]. replace (id =? 0) with false by (symmetry; apply Z.eqb_neq; exact Hid). cbn [negb].
  unfold opt_of. cbn [o_len4 o_al4 o_add4 o_len6 o_al6 o_add6 o_trunk o_rdma o_eni o_inuse o_full pc_per4 pc_per6 pc_batch c_id c_gone c_n4 c_d4 c_n6 c_d6 negb].
  unfold len4, len6. cbn [c_n4 c_d4 c_n6 c_d6].
  assert (Hf6 : assign_fam (l_per c) (0 + 0) 0 0 0 l_batch = (0, false, 0)) by reflexivity. rewrite Hf6.
  rewrite Ea. cbn [orb].
  rewrite fresh_tail_quiet by lia.
  rewrite rdma_pass_skips.
  2:{ cbn [forallb o_rdma negb andb]. apply forallb_repeat. reflexivity. }
  unfold first_ask. cbn [find o_add4 o_add6]. change (0 <? 0) with false. rewrite orb_false_r.
  change (0 + 0) with 0. rewrite (orb_false_r f). destruct (0 <? a) eqn:E.
  - reflexivity.
  - assert (Hq : forall k, find (fun o : opt => (0 <? o_add4 o) || (0 <? o_add6 o)) (repeat (fresh_opt false false) k) = None).
    { intros k0. induction k0 as [|k0 IH]; [reflexivity|]. cbn [repeat find]. cbn [fresh_opt o_add4 o_add6]. exact IH. }
    apply Hq.
Qed.

Lemma add_single c next id n d :
  l_dual c = false -> id <> 0 ->
  let '(a, f, t) := assign_fam (l_per c) (n + d) n 0 (l_min c) l_batch in
  t <= 0 -> 0 <= a ->
  add_step c next [mkLe id n d 0 0 false] =
  if 0 <? a then ([mkLe id (n + a) d 0 0 false], [(3, id, a)]) else ([mkLe id n d 0 0 false], []).
Proof.
  intros Hd Hid. pose proof (plan_single c id n d Hd Hid) as P.
  destruct (assign_fam (l_per c) (n + d) n 0 (l_min c) l_batch) as [[a f] t]. intros Ht Ha.
  unfold add_step. rewrite (P Ht). destruct (0 <? a) eqn:E; [|reflexivity].
  cbn [o_eni o_add4 o_add6]. replace (id =? 0) with false by (symmetry; apply Z.eqb_neq; exact Hid).
  cbn [map c_id c_n4 c_d4 c_n6 c_d6 c_gone]. rewrite Z.eqb_refl. rewrite E. change (0 <? 0) with false. cbn [app].
  rewrite (Z.max_r 0 a Ha). change (Z.max 0 0) with 0. change (0 + 0) with 0. reflexivity.
Qed.

(* gc on one interface without a deleting interface mark: unassign what is marked (at most a batch), then trim above max *)
Lemma gc_single id n d :
  0 <= d <= l_batch ->
  let l2 := [mkLe id n 0 0 0 false] in
  status_step [mkLe id n d 0 0 false] = (l2, if 0 <? d then [(5, id, d)] else []).
Proof.
  intros Hd. unfold status_step. cbn [flat_map c_gone c_id c_n4 c_d4 c_n6 c_d6 app].
  change (0 <? 0) with false. rewrite (Z.min_l d l_batch) by lia. replace (d - d) with 0 by lia.
  change (0 - Z.min 0 l_batch) with 0. destruct (0 <? d); reflexivity.
Qed.

Lemma adjust_in_band c id n : n <= l_max c -> adjust_step c [mkLe id n 0 0 0 false] = [mkLe id n 0 0 0 false].
Proof.
  intros H. unfold adjust_step. cbn [map c_gone c_n4 fold_left]. replace (0 + n - l_max c <=? 0) with true by (symmetry; apply Z.leb_le; lia). reflexivity.
Qed.
Lemma adjust_above c id n : 1 <= n -> 0 <= l_max c < n ->
  adjust_step c [mkLe id n 0 0 0 false] = [mkLe id (Z.max (l_max c) 1) (n - Z.max (l_max c) 1) 0 0 false].
Proof.
  intros Hn Hm. unfold adjust_step. cbn [map c_gone c_n4 fold_left]. replace (0 + n - l_max c <=? 0) with false by (symmetry; apply Z.leb_gt; lia).
  cbn [sort_e fold_right insert_e rev app trim_from_end]. replace (0 + n - l_max c <=? 0) with false by (symmetry; apply Z.leb_gt; lia).
  unfold trim_e, len4, len6. cbn [c_n4 c_d4 c_n6 c_d6 c_id].
  replace (n + 0 <? 0 + n - l_max c) with false by (symmetry; apply Z.ltb_ge; lia). cbn [andb].
  cbn [find c_id]. rewrite Z.eqb_refl.
  f_equal. f_equal; lia.
Qed.

Definition one (id n d : Z) : list lce := [mkLe id n d 0 0 false].
Section OneInterface.
  Variable c : lcfg.
  Variables next id : Z.
  Hypothesis Hd : l_dual c = false.
  Hypothesis Hid : id <> 0.
  Hypothesis Hmin : 0 <= l_min c <= l_max c.
  Hypothesis Hper : l_min c <= l_per c <= l_batch.

  (* below the band: one round fills up to min *)
  Lemma round_refill n : 1 <= n < l_min c ->
    pass c (next, one id n 0) = ((next, one id (l_min c) 0), [(3, id, l_min c - n)]).
  Proof.
    intros Hn. unfold pass, one.
    pose proof (add_single c next id n 0 Hd Hid) as A.
    assert (E : assign_fam (l_per c) (n + 0) n 0 (l_min c) l_batch = (l_min c - n, false, 0)).
    { unfold assign_fam, min3. replace (0 <? l_min c) with true by (symmetry; apply Z.ltb_lt; lia).
      replace (0 <? l_min c - n) with true by (symmetry; apply Z.ltb_lt; lia).
      replace (0 <? l_per c - (n + 0)) with true by (symmetry; apply Z.ltb_lt; lia).
      unfold l_batch in *. f_equal; [f_equal|]; lia. }
    rewrite E in A. cbv beta iota zeta in A. rewrite (A ltac:(lia) ltac:(lia)). replace (0 <? l_min c - n) with true by (symmetry; apply Z.ltb_lt; lia).
    replace (n + (l_min c - n)) with (l_min c) by lia.
    rewrite (gc_single id (l_min c) 0) by (unfold l_batch; lia). change (0 <? 0) with false.
    rewrite adjust_in_band by lia. reflexivity.
  Qed.
  (* no demand when the interface holds at least min *)
  Lemma no_refill n d : l_min c <= n -> add_step c next (one id n d) = (one id n d, []).
  Proof.
    intros Hn. pose proof (add_single c next id n d Hd Hid) as A.
    assert (E : exists t, t <= 0 /\ assign_fam (l_per c) (n + d) n 0 (l_min c) l_batch = (0, false, t)).
    { unfold assign_fam. destruct (0 <? l_min c) eqn:E0.
      - replace (0 <? l_min c - n) with false by (symmetry; apply Z.ltb_ge; lia). exists (l_min c - n). split; [lia|reflexivity].
      - exists (l_min c). apply Z.ltb_ge in E0. split; [lia|reflexivity]. }
    destruct E as [t [Ht E]]. rewrite E in A. cbv beta iota zeta in A. unfold one. rewrite (A Ht ltac:(lia)). reflexivity.
  Qed.
  (* above the band: the surplus is marked (no call yet) ... *)
  Lemma round_mark n : 1 <= n -> l_max c < n ->
    pass c (next, one id n 0) = ((next, one id (Z.max (l_max c) 1) (n - Z.max (l_max c) 1)), []).
  Proof.
    intros Hn Hm. unfold pass. rewrite no_refill by lia. unfold one.
    rewrite (gc_single id n 0) by (unfold l_batch; lia). change (0 <? 0) with false.
    rewrite adjust_above by lia. reflexivity.
  Qed.
  (* ... and unassigned in the next round *)
  Lemma round_unassign k d : 1 <= k -> l_min c <= k -> (k <= l_max c \/ k = 1) -> 0 < d <= l_batch ->
    pass c (next, one id k d) = ((next, one id k 0), [(5, id, d)]).
  Proof.
    intros Hk Hkm Hb Hdd. unfold pass. rewrite no_refill by lia. unfold one.
    rewrite (gc_single id k d) by lia. replace (0 <? d) with true by (symmetry; apply Z.ltb_lt; lia).
    destruct (Z_le_gt_dec k (l_max c)) as [L|G].
    - rewrite adjust_in_band by lia. reflexivity.
    - assert (k = 1) by lia. subst k. rewrite adjust_above by lia. rewrite Z.max_r by lia. reflexivity.
  Qed.
  (* inside the band (or at the primary address when max = 0): nothing happens *)
  Lemma round_quiet k : 1 <= k -> l_min c <= k -> (k <= l_max c \/ k = 1) ->
    pass c (next, one id k 0) = ((next, one id k 0), []).
  Proof.
    intros Hk Hkm Hb. destruct (Z_le_gt_dec k (l_max c)) as [L|G].
    - apply one_interface_in_band_is_fixed; assumption.
    - assert (k = 1) by lia. subst k. rewrite round_mark by lia. rewrite Z.max_r by lia. reflexivity.
  Qed.
  Lemma quiet_forever k m : 1 <= k -> l_min c <= k -> (k <= l_max c \/ k = 1) ->
    passes c m (next, one id k 0) = (next, one id k 0).
  Proof.
    intros Hk Hkm Hb. induction m as [|m IH]; [reflexivity|]. rewrite passes_S, IH, round_quiet by assumption. reflexivity.
  Qed.

  Theorem one_interface_converges n : 1 <= n <= l_per c -> converges c (next, one id n 0).
  Proof.
    intros Hn. destruct (Z_lt_le_dec n (l_min c)) as [Lo|Hi].
    - (* refill, then quiet *)
      exists 1%nat. intros m Hm. destruct m as [|m]; [lia|].
      assert (E : passes c (S m) (next, one id n 0) = (next, one id (l_min c) 0)).
      { cbn [passes]. rewrite round_refill by lia. cbn [fst]. apply quiet_forever; lia. }
      rewrite E, round_quiet by lia. reflexivity.
    - destruct (Z_le_gt_dec n (l_max c)) as [In|Ab].
      + exists 0%nat. intros m _. rewrite quiet_forever, round_quiet by lia. reflexivity.
      + (* mark, unassign, quiet *)
        exists 2%nat. intros m Hm. destruct m as [|[|m]]; [lia|lia|].
        set (k := Z.max (l_max c) 1).
        assert (E : passes c (S (S m)) (next, one id n 0) = (next, one id k 0)).
        { cbn [passes]. rewrite round_mark by lia. cbn [fst]. fold k.
          destruct (Z.eq_dec (n - k) 0) as [Z0|NZ].
          - rewrite Z0. rewrite round_quiet by (unfold k; lia). cbn [fst]. apply quiet_forever; unfold k; lia.
          - rewrite round_unassign by (unfold k, l_batch in *; lia). cbn [fst]. apply quiet_forever; unfold k; lia. }
        rewrite E, round_quiet by (unfold k; lia). reflexivity.
  Qed.
End OneInterface.
