(* SvcRun.v — replay of a service-level log (harness/svc/svc_test.go) through SvcModel on top of the
   pool replay, and the clauses of C04 / C05 / C09 judged on the implementation's own log. *)
From Coq Require Import ZArith List Bool.
From TV Require Import Codec PoolModel PoolRun PoolChk SvcModel.
Import ListNotations.
Local Open Scope Z_scope.

Record rpc := mkRpc { p_rid : Z; p_kind : Z; p_pod : Z; p_cid : Z; p_rej : bool }.
Record sv := mkSv {
  v_w : world; v_disk : store; v_mem : store; v_pend : list Z; v_rpcs : list rpc;
  v_gone : list Z; v_exited : list Z; v_apierr : bool;
  v_gc : option (store * list Z * list Z * bool);   (* store and API state when the running GC pass began *)
  v_ok : bool; v_why : Z }.

Definition sfail (v : sv) (why : Z) : sv :=
  if v_ok v then mkSv (v_w v) (v_disk v) (v_mem v) (v_pend v) (v_rpcs v) (v_gone v) (v_exited v) (v_apierr v) (v_gc v) false why else v.
Definition with_w (v : sv) (w : world) := mkSv w (v_disk v) (v_mem v) (v_pend v) (v_rpcs v) (v_gone v) (v_exited v) (v_apierr v) (v_gc v) (v_ok v) (v_why v).
Definition with_store (v : sv) (d m : store) := mkSv (v_w v) d m (v_pend v) (v_rpcs v) (v_gone v) (v_exited v) (v_apierr v) (v_gc v) (v_ok v) (v_why v).
Definition with_rp (v : sv) (pend : list Z) (rpcs : list rpc) := mkSv (v_w v) (v_disk v) (v_mem v) pend rpcs (v_gone v) (v_exited v) (v_apierr v) (v_gc v) (v_ok v) (v_why v).
Definition with_api (v : sv) (g e : list Z) (b : bool) := mkSv (v_w v) (v_disk v) (v_mem v) (v_pend v) (v_rpcs v) g e b (v_gc v) (v_ok v) (v_why v).
Definition with_gc (v : sv) (g : option (store * list Z * list Z * bool)) := mkSv (v_w v) (v_disk v) (v_mem v) (v_pend v) (v_rpcs v) (v_gone v) (v_exited v) (v_apierr v) g (v_ok v) (v_why v).
Definition sreq (v : sv) (b : bool) (why : Z) : sv := if b then v else sfail v why.

(* the unfinished pool request of a pod *)
Fixpoint find_req_pod (ss : list slot) (pod : Z) : option Z :=
  match ss with
  | [] => None
  | s :: t => match filter (fun p => (r_pod (snd p) =? pod) && negb (r_fin (snd p))) (s_reqs s) with
              | p :: _ => Some (fst p)
              | [] => find_req_pod t pod end
  end.

Definition pool_rec (c : cfg) (rest : list (list Z)) (v : sv) (r : list Z) : sv :=
  let w := rec_step c rest (v_w v) r in
  let v1 := with_w v w in
  if w_ok w then v1 else sfail v1 (1000 + w_why w).

Fixpoint insert_rec (p : Z * srec) (l : store) : store :=
  match l with [] => [p] | q :: r => if fst p <? fst q then p :: l else q :: insert_rec p r end.
Definition proj_store (s : store) : list Z :=
  len s :: flat_map (fun x => [fst x; k_cid (snd x); k_eni (snd x); k_a4 (snd x); k_a6 (snd x)]) (fold_right insert_rec [] s).

Fixpoint preloads (rest : list (list Z)) : list (list Z) :=
  match rest with
  | [] => [] | (99 :: _) :: _ => []
  | (12 :: i :: 0 :: r) :: t => (12 :: i :: 0 :: r) :: preloads t
  | _ :: t => preloads t
  end.
(* load() applies the stored allocations in Go's map order; when two records claim one address the later one
   wins: the records observed to have taken effect are applied last *)
Definition owners_of (d : store) (winners : list Z) (eni : Z) : list (Z * Z * Z) :=
  let pick (f : Z -> bool) := flat_map (fun x => if (k_eni (snd x) =? eni) && f (fst x) then [(fst x, k_a4 (snd x), k_a6 (snd x))] else []) d in
  pick (fun p => negb (memz p winners)) ++ pick (fun p => memz p winners).
Fixpoint restart_slots (c : cfg) (d : store) (winners : list Z) (now : Z) (pre : list (list Z)) (i : Z) (types : list Z) : list slot :=
  match types with
  | [] => []
  | ty :: t =>
      (match preload_of pre i with
       | Some (eni, trunk, prim, v4, v6) =>
           load_slot (if trunk then 1 else 0) (c_on4 c) (c_on6 c) (c_cap c) (c_batch c) now eni trunk prim v4 v6 (owners_of d winners eni)
       | None => with_now (init_slot 0 (c_on4 c) (c_on6 c) (c_cap c) (c_batch c)) now
       end) :: restart_slots c d winners now pre (i + 1) t
  end.

(* the pool request the handler of RPC rid is about to make for pod (first attempt record before its reply) *)
Fixpoint next_attempt_of (pod rid : Z) (rest : list (list Z)) : option Z :=
  match rest with
  | [] => None
  | (41 :: r :: _) :: t => if r =? rid then None else next_attempt_of pod rid t
  | (20 :: _ :: prid :: p :: _) :: t => if p =? pod then Some prid else next_attempt_of pod rid t
  | _ :: t => next_attempt_of pod rid t
  end.

Definition srec_step (c : cfg) (rest : list (list Z)) (v : sv) (r : list Z) : sv :=
  match r with
  | 50 :: wl =>
      (* crash + start: memory is lost; the pool is rebuilt from what the cloud has attached (the preload
         records that follow) and the allocations on disk *)
      let now := now_of (v_w v) in
      let winners := match take_list wl with Some (l, _) => l | None => [] end in
      let ss := restart_slots c (v_disk v) winners now (preloads rest) 1 (c_types c) in
      mkSv (mkW ss true 0 [] [] (w_out (v_w v))) (v_disk v) (v_disk v) [] [] (v_gone v) (filter (fun e => e <? 1000000) (v_exited v)) (v_apierr v) None (v_ok v) (v_why v)
  | k :: rid :: pod :: cid :: _ =>
      if (31 <=? k) && (k <=? 33) then
        match enter (v_pend v) pod with
        | None => with_rp v (v_pend v) (mkRpc rid (k - 30) pod cid true :: v_rpcs v)
        | Some pend => with_rp v pend (mkRpc rid (k - 30) pod cid false :: v_rpcs v)
        end
      else if k =? 41 then
        (* reply: rid kind code eni a4 a6 *)
        match r with
        | _ :: _ :: kind :: code :: eni :: a4 :: a6 :: _ =>
            match List.find (fun x => p_rid x =? rid) (v_rpcs v) with
            | None => sfail v 410
            | Some x =>
                let rpcs := filter (fun y => negb (p_rid y =? rid)) (v_rpcs v) in
                if p_rej x then sreq (with_rp v (v_pend v) rpcs) (code =? 1) 411
                else
                  let v1 := with_rp v (leave (v_pend v) (p_pod x)) rpcs in
                  if kind =? 1 then
                    if code =? 0 then
                      sreq v1 (match sget (p_pod x) (v_mem v) with
                               | Some rc => (k_cid rc =? p_cid x) && (k_eni rc =? eni) && (k_a4 rc =? a4) && (k_a6 rc =? a6)
                               | None => false end) 412
                    else
                      (* a failed ADD: the pool request, if one is still running, was cancelled or failed *)
                      match find_req_pod (w_slots (v_w v1)) (p_pod x) with
                      | Some prid => pool_rec c rest v1 [10; prid; 0; 0; 0; 0; 0; 0]
                      | None => sreq v1 (negb (code =? 1)) 413
                      end
                  else if kind =? 2 then
                    (* a DEL whose release fails at the interface reports the error and keeps the record *)
                    let failing := memz (- (p_pod x)) (v_exited v) && negb (memz (p_pod x) (v_gone v)) &&
                                   match sget (p_pod x) (v_mem v) with Some rc => k_cid rc =? p_cid x | None => false end in
                    let stfail := memz (1000000 + p_pod x) (v_exited v) in
                    sreq (with_api v1 (v_gone v1) (remz (1000000 + p_pod x) (v_exited v1)) (v_apierr v1)) (code =? (if failing || stfail then 2 else 0)) 414
                  else if memz (p_pod x) (v_gone v) then sreq v1 (code =? 2) 417     (* GetPod fails for a pod the API no longer has *)
                  else
                    let '(e, b4, b6) := get_reply (v_mem v) (p_pod x) (p_cid x) in
                    sreq v1 ((code =? 0) && (e =? eni) && (b4 =? a4) && (b6 =? a6)) 415
            end
        | _ => sfail v 416 end
      else if k =? 42 then
        (* store: op pod cid eni a4 a6  (here rid = op, pod = pod, cid = cid) *)
        match r with
        | _ :: op :: p :: cd :: eni :: a4 :: a6 :: _ =>
            if op =? 1 then
              (* put-begin: Manager.Allocate has returned these addresses to the handler *)
              let v1 := match find_req_pod (w_slots (v_w v)) p with
                        | Some prid => pool_rec c rest v [10; prid; 1; eni; a4; a6; 0; 0]
                        | None => v end in
              sreq v1 (existsb (fun x => (p_pod x =? p) && (p_kind x =? 1) && (p_cid x =? cd) && negb (p_rej x)) (v_rpcs v1)) 421
            else if op =? 2 then with_store v (add_store (v_disk v) p cd eni a4 a6) (add_store (v_mem v) p cd eni a4 a6)
            else if op =? 3 then
              (* delete-begin: by a DEL whose sandbox id matches, or by the running GC pass *)
              sreq v (match v_gc v with Some _ => true | None =>
                        existsb (fun x => (p_pod x =? p) && (p_kind x =? 2) && negb (p_rej x) &&
                                          match sget p (v_mem v) with Some rc => k_cid rc =? p_cid x | None => true end) (v_rpcs v) end) 423
            else if op =? 4 then with_store v (sdel p (v_disk v)) (sdel p (v_mem v))
            else if op =? 5 then v      (* the write of the record failed before any effect: the ADD reports the error *)
            else
              (* the removal of the record failed before any effect: the DEL reports the error (kept as 1000000 + p until its reply) *)
              with_api v (v_gone v) ((1000000 + p) :: v_exited v) (v_apierr v)
        | _ => sfail v 424 end
      else pool_rec c rest v r
  | [2; rid] =>
      (* the caller's context of an RPC is cancelled: its pool request, if any, is cancelled; when the context was
         cancelled before the daemon started on the request, the pool request it is about to make is born cancelled *)
      match List.find (fun x => p_rid x =? rid) (v_rpcs v) with
      | Some x => match find_req_pod (w_slots (v_w v)) (p_pod x) with
                  | Some prid => if p_rej x then v else pool_rec c rest v [2; prid]
                  | None => if p_rej x then v else
                            match next_attempt_of (p_pod x) rid rest with
                            | Some prid => pool_rec c rest v [1; prid; p_pod x; 0; 1]
                            | None => v end
                  end
      | None => v end
  | [34] => with_gc v (Some (v_mem v, v_gone v, v_exited v, v_apierr v))
  | [43; code] =>
      match v_gc v with
      | None => sfail v 430
      | Some (s0, gone0, exited0, apierr0) =>
          (* the records of the vanished pods (API says: does not exist) are gone, the others are kept;
             the store listing order is Go's map order, which does not matter when no cleanup fails.
             The API's answers are those of the moment the pass asked: a pod that comes back under its name
             while the pass is running (SGCRace) was answered for before it came back *)
          let live p := negb (memz p gone0) && negb (memz p exited0) in
          let api p := if apierr0 then None else Some (negb (memz p gone0)) in
          (* a cleanup fails when the release fails at the interface, or when the removal of the record failed in this pass (1000000 + p) *)
          let failing p := (memz (- p) exited0 || memz (1000000 + p) (v_exited v)) && match sget p s0 with Some _ => true | None => false end in
          (* every record whose pod vanished and whose cleanup works is collected, whatever happens to the others *)
          let '(removed, _) := gc_pass live api (fun _ => true) (filter (fun p => negb (failing p)) (map fst s0)) in
          let anyfail := existsb (fun p => failing p && negb (live p) && match api p with Some false => true | _ => false end) (map fst s0) in
          sreq (with_api (with_gc v None) (v_gone v) (filter (fun e => e <? 1000000) (v_exited v)) (v_apierr v)) ((code =? (if anyfail then 1 else 0)) && list_eqb (proj_store (v_mem v)) (proj_store (gc_store s0 removed))) 431
      end
  | [40; p; b] => with_api v (v_gone v) (if dec_bool b then (- p) :: v_exited v else remz (- p) (v_exited v)) (v_apierr v)   (* releasing p fails: kept as -p *)
  | [35; p] => with_api v (p :: v_gone v) (v_exited v) (v_apierr v)
  | [36; p] => with_api v (v_gone v) (p :: v_exited v) (v_apierr v)
  | [37; b] => with_api v (v_gone v) (v_exited v) (dec_bool b)
  | [38] => v
  | [39; _] => v
  | [46] => v
  | [44; p] => with_api v (remz p (v_gone v)) (remz p (v_exited v)) (v_apierr v)   (* a new instance of the name: the API has the pod again, its uid differs *)
  | 99 :: _ =>
      let v1 := pool_rec c rest v r in
      let w := v_w v1 in
      with_w v1 (mkW (w_slots w) (w_ok w) (w_why w) (w_pc w) (w_pre w) (w_out w ++ proj_store (v_mem v1)))
  | _ => pool_rec c rest v r
  end.

Fixpoint sreplay_from (c : cfg) (v : sv) (rs : list (list Z)) : sv :=
  match rs with [] => v | r :: rest => sreplay_from c (srec_step c rest v r) rest end.

Definition run_svc (i : list Z) : list Z :=
  match dec_case i with
  | Some (c, _, rs) =>
      let v := sreplay_from c (mkSv (mkW (init_slots c (first_block rs) 1 (c_types c)) true 0 [] [] []) [] [] [] [] [] [] false None true 0) rs in
      if v_ok v then w_out (v_w v) else [-997; v_why v]
  | None => bad
  end.

(* ---- the clauses of C04 / C05 / C09 on the implementation's own log ---------------------------- *)
Record so := mkSo {
  o_store : store;                 (* what the store holds (completed Put / Delete operations) *)
  o_ack : store;                   (* pod -> what its latest acknowledged ADD returned, until an acknowledged DEL of that sandbox *)
  o_rpcs : list rpc;               (* in flight; p_rej = another request of the pod was in flight at entry *)
  o_gonep : list (Z * Z);          (* vanished pod -> completed GC passes with a working API since *)
  o_apie : bool; o_ingc : bool;
  o_failed : list Z;               (* pods whose ADD failed in this block *)
  o_restarted : bool;              (* a restart happened in this block *)
  o_sn : nat; o_good : bool; o_y : Z }.
Definition so_bad (o : so) (why : Z) : so :=
  if o_good o then mkSo (o_store o) (o_ack o) (o_rpcs o) (o_gonep o) (o_apie o) (o_ingc o) (o_failed o) (o_restarted o) (o_sn o) false why else o.
Definition so_req (o : so) (b : bool) (why : Z) : so := if b then o else so_bad o why.
Definition so_upd (o : so) st ack rpcs gonep apie ingc failed restarted :=
  mkSo st ack rpcs gonep apie ingc failed restarted (o_sn o) (o_good o) (o_y o).

(* a quiescent snapshot: the interfaces, then the store *)
Definition take_store_snap (l : list Z) : list Z :=
  match l with n :: r => skipn (Z.to_nat (5 * n)) r | [] => [] end.
Fixpoint svc_snaps (fuel ns : nat) (l : list Z) : list (list ssnap) :=
  match fuel with
  | O => []
  | S f => match l with [] => [] | _ => let '(s, r) := take_snap ns l in s :: svc_snaps f ns (take_store_snap r) end
  end.
Definition owned_in (ss : list ssnap) (pod : Z) : list (Z * Z * Z) :=     (* eni, family, address *)
  flat_map (fun x => flat_map (fun e => if ent_owner e =? pod then [(x_eni x, 4, ent_addr e)] else []) (x_4 x)
                     ++ flat_map (fun e => if ent_owner e =? pod then [(x_eni x, 6, ent_addr e)] else []) (x_6 x)) ss.
Definition rec_addrs (r : srec) : list (Z * Z * Z) :=
  (if k_a4 r =? 0 then [] else [(k_eni r, 4, k_a4 r)]) ++ (if k_a6 r =? 0 then [] else [(k_eni r, 6, k_a6 r)]).
Definition same_addrs (a b : list (Z * Z * Z)) : bool :=
  let mem x l := existsb (fun y => match x, y with (e1, f1, a1), (e2, f2, a2) => (e1 =? e2) && (f1 =? f2) && (a1 =? a2) end) l in
  forallb (fun x => mem x b) a && forallb (fun x => mem x a) b.
Definition rec_eqb (a b : srec) : bool := (k_cid a =? k_cid b) && (k_eni a =? k_eni b) && (k_a4 a =? k_a4 b) && (k_a6 a =? k_a6 b).

Definition so_step (prop : Z) (ns : nat) (snaps : list (list ssnap)) (o : so) (r : list Z) : so :=
  match r with
  | [47] =>
      (* clause 505: the daemon could not come up again from the records it had written: everything it acknowledged is lost *)
      so_req o false 505
  | 50 :: _ =>
      (* a DEL of the current sandbox that was being processed when the daemon died may or may not have taken
         effect (the runtime retries it): such pods are not counted as holding *)
      let ack := filter (fun x => negb (existsb (fun y => (p_pod y =? fst x) && (p_kind y =? 2) && negb (p_rej y) && (p_cid y =? k_cid (snd x))) (o_rpcs o))) (o_ack o) in
      so_upd o (o_store o) ack [] (o_gonep o) (o_apie o) false [] true
  | k :: rid :: pod :: cid :: rest =>
      if (31 <=? k) && (k <=? 33) then
        so_upd o (o_store o) (o_ack o) (mkRpc rid (k - 30) pod cid (existsb (fun x => p_pod x =? pod) (o_rpcs o)) :: o_rpcs o)
               (o_gonep o) (o_apie o) (o_ingc o) (o_failed o) (o_restarted o)
      else if k =? 22 then
        (* a release reaches the interface: slot(rid) pod(pod) eni(cid) a4 a6 handled uidPassed uidStored.
           C03: the teardown is reported under the uid recorded with the allocation, not under whatever uid the
           API shows for that name now *)
        (if prop =? 3 then
           match rest with
           | _ :: _ :: _ :: up :: ua :: _ =>
               let o1 := so_req o (up =? ua) 351 in
               (* 352: outside a DEL the agent gives an allocation up (and so reports its teardown) only for a pod it has
                  verified to be gone from the API *)
               if o_ingc o1 then so_req o1 (negb (o_apie o1) && existsb (fun g => fst g =? pod) (o_gonep o1)) 352 else o1
           | _ => o end
         else o)
      else if k =? 42 then
        (* store: op(rid) pod(pod) cid(cid) eni a4 a6 *)
        match rest with
        | eni :: a4 :: a6 :: _ =>
            if rid =? 2 then
              (* a record written while a GC pass is running is flagged (count -3000000): the pass must not collect it *)
              so_upd o (sput pod (mkRec cid eni a4 a6) (o_store o)) (o_ack o) (o_rpcs o)
                     (if o_ingc o then (pod, -3000000) :: o_gonep o else o_gonep o) (o_apie o) (o_ingc o) (o_failed o) (o_restarted o)
            else if rid =? 4 then
              let o1 := if (prop =? 9) && o_ingc o
                        then so_req (so_req o (negb (o_apie o) && existsb (fun g => (fst g =? pod) && negb (snd g <? -2500000)) (o_gonep o)) 901)   (* only a vanished pod, and only on the API's word *)
                                    (negb (existsb (fun g => (fst g =? pod) && (snd g <? -2500000)) (o_gonep o))) 904   (* never the record of a request served while the pass runs *)
                        else o in
              (* a record collected by the GC pass ends the pod's hold *)
              so_upd o1 (sdel pod (o_store o1)) (if o_ingc o1 then sdel pod (o_ack o1) else o_ack o1) (o_rpcs o1) (o_gonep o1) (o_apie o1) (o_ingc o1) (o_failed o1) (o_restarted o1)
            else if rid =? 6 then
              (* the removal of the record failed AFTER the allocation was released (DEL and GC release first): the pod's hold
                 has ended although the request reports an error and the record stays until the retry *)
              so_upd o (o_store o) (sdel pod (o_ack o)) (o_rpcs o) (o_gonep o) (o_apie o) (o_ingc o) (o_failed o) (o_restarted o)
            else o
        | _ => o end
      else if k =? 41 then
        (* reply: rid kind(pod) code(cid) eni a4 a6 *)
        match rest with
        | eni :: a4 :: a6 :: _ =>
            let kind := pod in let code := cid in
            match List.find (fun x => p_rid x =? rid) (o_rpcs o) with
            | None => o
            | Some x =>
                let rpcs := filter (fun y => negb (p_rid y =? rid)) (o_rpcs o) in
                let o0 := so_upd o (o_store o) (o_ack o) rpcs (o_gonep o) (o_apie o) (o_ingc o) (o_failed o) (o_restarted o) in
                if p_rej x then (if prop =? 4 then so_req o0 (code =? 1) 401 else o0)
                else
                  let p := p_pod x in
                  if kind =? 1 then
                    if code =? 0 then
                      let rc := mkRec (p_cid x) eni a4 a6 in
                      let o1 := if prop =? 4 then
                                  (* a repeated ADD returns the address the pod holds *)
                                  so_req o0 (match sget p (o_ack o0) with Some old => same_addrs (rec_addrs old) (rec_addrs rc) | None => true end) 402
                                else if prop =? 5 then
                                  (* acknowledged => the record is in the store already *)
                                  so_req o0 (match sget p (o_store o0) with Some st => rec_eqb st rc | None => false end) 501
                                else o0 in
                      so_upd o1 (o_store o1) (sput p rc (o_ack o1)) (o_rpcs o1) (o_gonep o1) (o_apie o1) (o_ingc o1) (o_failed o1) (o_restarted o1)
                    else so_upd o0 (o_store o0) (o_ack o0) (o_rpcs o0) (o_gonep o0) (o_apie o0) (o_ingc o0) (p :: o_failed o0) (o_restarted o0)
                  else if kind =? 2 then
                    if code =? 0 then
                      match sget p (o_ack o0) with
                      | Some old =>
                          if k_cid old =? p_cid x then
                            (* (a record of ANOTHER sandbox id in the store — an ADD that reached the disk but was not acknowledged before a crash —
                               makes this DEL a stale one: it is ignored, see C04) *)
                            let o1 := if prop =? 5 then so_req o0 (match sget p (o_store o0) with None => true | Some st => negb (k_cid st =? p_cid x) || existsb (fun g => fst g =? p) (o_gonep o0) end) 502 else o0 in
                            so_upd o1 (o_store o1) (if existsb (fun g => fst g =? p) (o_gonep o1) then o_ack o1 else sdel p (o_ack o1)) (o_rpcs o1) (o_gonep o1) (o_apie o1) (o_ingc o1) (o_failed o1) (o_restarted o1)
                          else
                            match sget p (o_store o0), prop =? 4 with
                            | None, false =>
                                (* the record on disk was the one of THIS sandbox (its ADD reached the disk but its reply was lost
                                   in a crash): the DEL removed it and the pod's hold has ended *)
                                so_upd o0 (o_store o0) (sdel p (o_ack o0)) (o_rpcs o0) (o_gonep o0) (o_apie o0) (o_ingc o0) (o_failed o0) (o_restarted o0)
                            | st, _ =>
                                (* a DEL for another sandbox neither releases nor removes the current allocation *)
                                (if prop =? 4 then so_req o0 (match st with Some st => rec_eqb st old | None => false end) 403 else o0)
                            end
                      | None => o0 end
                    else o0
                  else
                    (* GET: nothing for another sandbox id, the stored allocation for the current one *)
                    if prop =? 4 then
                      match sget p (o_ack o0) with
                      | Some old =>
                          if code =? 0 then
                            if k_cid old =? p_cid x then so_req o0 (same_addrs (rec_addrs old) (rec_addrs (mkRec 0 eni a4 a6))) 405
                            else so_req o0 ((a4 =? 0) && (a6 =? 0)) 404
                          else o0
                      | None => o0 end
                    else o0
            end
        | _ => o end
      else o
  | [34] => so_upd o (o_store o) (o_ack o) (o_rpcs o) (o_gonep o) (o_apie o) true (o_failed o) (o_restarted o)
  | [43; code] =>
      (* one record's cleanup failure must not stop the others: a pass counts whenever the API could be asked *)
      let gp0 := filter (fun g => negb (snd g <? -1500000)) (o_gonep o) in    (* flags of the pass that ends here *)
      let gp := if negb (o_apie o) then map (fun g => (fst g, snd g + 1)) gp0 else gp0 in
      let o1 := so_upd o (o_store o) (o_ack o) (o_rpcs o) gp (o_apie o) false (o_failed o) (o_restarted o) in
      if prop =? 9 then
        (* after two passes that could ask the API, the record of a vanished pod is gone *)
        so_req o1 (forallb (fun g => (snd g <? 2) || match sget (fst g) (o_store o1) with None => true | Some _ => false end) gp) 902
      else o1
  | [35; p] => so_upd o (o_store o) (o_ack o) (o_rpcs o) (if existsb (fun g => fst g =? p) (o_gonep o) then o_gonep o else (p, 0) :: o_gonep o) (o_apie o) (o_ingc o) (o_failed o) (o_restarted o)
  | [44; p] =>
      (* a new instance of the name exists.  During a GC pass the API may already have said "gone" for the old instance:
         the entry stays, flagged (count -2000000), until the pass ends *)
      (* (an exemption entry — the pod's release fails at the interface, count around -1000000 — stays: the fault is still on) *)
      let counted g := (fst g =? p) && negb (snd g <? -500000) in
      so_upd o (o_store o) (o_ack o) (o_rpcs o)
             (if o_ingc o && existsb counted (o_gonep o)
              then (p, -2000000) :: filter (fun g => negb (counted g)) (o_gonep o)
              else filter (fun g => negb (counted g)) (o_gonep o))
             (o_apie o) (o_ingc o) (o_failed o) (o_restarted o)
  | [40; p; b] =>
      (* a pod whose release fails at the interface is exempt from the two-pass clause (it can never be collected) *)
      so_upd o (o_store o) (o_ack o) (o_rpcs o) ((p, -1000000) :: filter (fun g => negb (fst g =? p)) (o_gonep o)) (o_apie o) (o_ingc o) (o_failed o) (o_restarted o)
  | [37; b] => so_upd o (o_store o) (o_ack o) (o_rpcs o) (o_gonep o) (dec_bool b) (o_ingc o) (o_failed o) (o_restarted o)
  | 99 :: _ =>
      let o1 :=
        match nth_error snaps (o_sn o) with
        | None => so_bad o 990
        | Some ss =>
            let holds p := match sget p (o_ack o) with Some rc => rec_addrs rc | None => [] end in
            let a :=
              if prop =? 4 then
                (* an ADD that failed hands back everything it took: the pod owns what it held before *)
                (* ... or, when a DEL released its allocation and failed to remove the record, what that record names
                   (the failed ADD re-took exactly the recorded allocation: record and pool agree again) *)
                let named p := match sget p (o_store o) with Some rc => rec_addrs rc | None => [] end in
                fold_left (fun acc p => so_req acc (existsb (fun x => (p_pod x =? p) && negb (p_rej x)) (o_rpcs acc)
                                                    || same_addrs (owned_in ss p) (holds p) || same_addrs (owned_in ss p) (named p)) 406) (o_failed o) o
              else o in
            let a :=
              if prop =? 9 then
                (* collecting a pod releases its allocation: nothing stays owned without a record or a request in flight *)
                fold_left (fun acc x =>
                  let chk (f : Z) (es : list (list Z)) :=
                    forallb (fun e => (ent_owner e =? 0) || existsb (fun y => p_pod y =? ent_owner e) (o_rpcs acc) ||
                       match sget (ent_owner e) (o_store acc) with
                       | Some rc => (k_eni rc =? x_eni x) && (if f =? 4 then k_a4 rc =? ent_addr e else k_a6 rc =? ent_addr e)
                       | None => false end) es in
                  so_req acc (chk 4 (x_4 x) && chk 6 (x_6 x)) 903) ss a
              else a in
            if (prop =? 5) && o_restarted o then
              (* after a restart: every acknowledged allocation is still owned by its pod, and nothing is owned
                 without a record that lists it *)
              let a1 := fold_left (fun acc x => so_req acc (forallb (fun ad => existsb (fun y => match ad, y with (e1, f1, a1), (e2, f2, a2) => (e1 =? e2) && (f1 =? f2) && (a1 =? a2) end)
                                                                          (owned_in ss (fst x))) (rec_addrs (snd x))) 503) (o_ack a) a in
              fold_left (fun acc x =>
                let chk (f : Z) (es : list (list Z)) :=
                  forallb (fun e => (ent_owner e =? 0) ||
                     match sget (ent_owner e) (o_store acc) with
                     | Some rc => (k_eni rc =? x_eni x) && (if f =? 4 then k_a4 rc =? ent_addr e else k_a6 rc =? ent_addr e)
                     | None => false end) es in
                so_req acc (chk 4 (x_4 x) && chk 6 (x_6 x)) 504) ss a1
            else a
        end in
      mkSo (o_store o1) (o_ack o1) (o_rpcs o1) (o_gonep o1) (o_apie o1) (o_ingc o1) [] false (S (o_sn o1)) (o_good o1) (o_y o1)
  | _ => o
  end.

Definition svc_obs (prop : Z) (i out : list Z) : so :=
  match dec_case i with
  | Some (c, _, rs) =>
      let ns := length (c_types c) in
      fold_left (so_step prop ns (svc_snaps (S (length rs)) ns out)) rs (mkSo [] [] [] [] false false [] false 0 true 0)
  | None => mkSo [] [] [] [] false false [] false 0 false (-1)
  end.
Definition chk_c04 (i o : list Z) : bool := o_good (svc_obs 4 i o).
Definition chk_c05 (i o : list Z) : bool := o_good (svc_obs 5 i o).
Definition chk_c09 (i o : list Z) : bool := o_good (svc_obs 9 i o).
Definition chk_c03d (i o : list Z) : bool := o_good (svc_obs 3 i o).
Definition why_svc (prop : Z) (i o : list Z) : Z := o_y (svc_obs prop i o) * 100000.
