(* MgrRun.v — case decoder for the Manager.Allocate harness (harness/mgr).
   case = [nr; acc_1..acc_nr; early; nev; ev*]  with ev = 1 req kind | 2 | 3 req kind taken
   (acc_i = backend that accepts request i, 0 none; early = request answered while the dispatch loop is at the next one, 0 none;
    3 = answer and cancellation in one instant, taken = observed: the manager took the answer)
   output = [failed; n; returned sorted..; m; owned after roll-back sorted..] *)
From Coq Require Import ZArith List Bool.
From TV Require Import Codec MgrModel.
Import ListNotations.
Local Open Scope Z_scope.

Fixpoint dec_evs (n : nat) (l : list Z) : list ev :=
  match n, l with
  | S n', 1 :: r :: k :: t => EAns r k :: dec_evs n' t
  | S n', 2 :: t => ECancel :: dec_evs n' t
  | S n', 3 :: r :: k :: tk :: t => EAnsCancel r k (dec_bool tk) :: dec_evs n' t
  | _, _ => []
  end.

Fixpoint insert (x : Z) (l : list Z) : list Z :=
  match l with [] => [x] | y :: t => if x <=? y then x :: l else y :: insert x t end.
Definition sortZ (l : list Z) : list Z := fold_right insert [] l.

Definition dec_mgr (i : list Z) : option (list Z * Z * list ev) :=
  match i with
  | nr :: r =>
      let acc := firstn (Z.to_nat nr) r in
      match skipn (Z.to_nat nr) r with
      | early :: nev :: t => Some (acc, early, dec_evs (Z.to_nat nev) t)
      | _ => None
      end
  | [] => None
  end.

Definition run_mgr (i : list Z) : list Z :=
  match dec_mgr i with
  | Some (acc, early, evs) =>
      let s := run acc early evs in
      (if failed s then 1 else 0) :: enc_list (sortZ (got s)) ++ enc_list (sortZ (owned_after s))
  | None => bad
  end.

(* clause 771: after a failed ADD and its roll-back no backend counts a resource as the pod's;
   clause 772: after a successful one the backends count exactly what was returned *)
Definition why_mgr (i o : list Z) : Z :=
  match o with
  | f :: r =>
      match take_list r with
      | Some (ret, r1) =>
          match take_list r1 with
          | Some (own, _) =>
              if f =? 1 then match own with [] => 0 | _ => 771 end
              else if list_eqb ret own then 0 else 772
          | None => 773 end
      | None => 773 end
  | [] => 773
  end.
Definition chk_mgr (i o : list Z) : bool := why_mgr i o =? 0.
