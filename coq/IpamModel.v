(* IpamModel.v — the cluster IPAM controller's per-node record (networking Node CR status) and the
   passes of pkg/controller/multi-ip/node/{pool,eni}.go that bind, release, plan and trim.
   Go map iteration order is an explicit choice: the binding pass takes, per pod, the address it ends
   up with and checks that the pick / take-over loops could have chosen it.  Definitions only. *)
From Coq Require Import ZArith List Bool.
From TV Require Import Codec.
Import ListNotations.
Local Open Scope Z_scope.

(* one address of an interface: status 1 = Valid, 2 = Deleting *)
Record ipe := mkIp { i_a : Z; i_st : Z; i_prim : bool; i_pod : Z; i_uid : Z }.
(* one interface: status 1 = InUse, 5 = Deleting (4 Detaching, 3 Attaching, 2 Available); type 0 secondary 1 trunk; mode 0 standard 1 high-performance *)
Record eni := mkEni { e_id : Z; e_status : Z; e_type : Z; e_mode : Z; e_4 : list ipe; e_6 : list ipe }.
Definition cr := list eni.

Record pod := mkPod { p_id : Z; p_uid : Z; p_need4 : bool; p_need6 : bool; p_rdma : bool; p_rep4 : Z; p_rep6 : Z }.

Definition fam_of (e : eni) (six : bool) : list ipe := if six then e_6 e else e_4 e.
Definition set_fam (e : eni) (six : bool) (l : list ipe) : eni :=
  if six then mkEni (e_id e) (e_status e) (e_type e) (e_mode e) (e_4 e) l else mkEni (e_id e) (e_status e) (e_type e) (e_mode e) l (e_6 e).

(* where is address a (family six) : interface and entry *)
Definition lookup (c : cr) (six : bool) (a : Z) : option (eni * ipe) :=
  match flat_map (fun e => map (fun i => (e, i)) (filter (fun i => i_a i =? a) (fam_of e six))) c with
  | x :: _ => Some x | [] => None end.
Definition bound_of (c : cr) (six : bool) (p : Z) : list (eni * ipe) :=
  flat_map (fun e => map (fun i => (e, i)) (filter (fun i => i_pod i =? p) (fam_of e six))) c.
Definition set_owner (c : cr) (six : bool) (a p u : Z) : cr :=
  map (fun e => set_fam e six (map (fun i => if i_a i =? a then mkIp (i_a i) (i_st i) (i_prim i) p u else i) (fam_of e six))) c.

(* ---- releasePodNotFound (pool.go:532-570) ---------------------------------------------------- *)
(* rt u : the final runtime status of pod uid u in the NodeRuntime object: 2 = deleted, 1 = initial, 0 = no entry;
   rt_ok : the object could be read (when it cannot, the pass does nothing at all) *)
Definition release_entry (pods : list pod) (rt_ok : bool) (rt : Z -> Z) (i : ipe) : ipe :=
  if negb rt_ok then i
  else if i_pod i =? 0 then i
  else match find (fun p => p_id p =? i_pod i) pods with
       | Some p => mkIp (i_a i) (i_st i) (i_prim i) (i_pod i) (p_uid p)         (* the pod is there: refresh the uid *)
       | None =>
           if (i_uid i =? 0) || (rt (i_uid i) =? 2) then mkIp (i_a i) (i_st i) (i_prim i) 0 0
           else i
       end.
Definition release_not_found (pods : list pod) (rt_ok : bool) (rt : Z -> Z) (c : cr) : cr :=
  map (fun e => mkEni (e_id e) (e_status e) (e_type e) (e_mode e) (map (release_entry pods rt_ok rt) (e_4 e)) (map (release_entry pods rt_ok rt) (e_6 e))) c.

(* ---- assignIPFromLocalPool (pool.go:573-715) -------------------------------------------------- *)
Definition has_b (c : cr) (six : bool) (p : Z) : bool := match bound_of c six p with [] => false | _ => true end.
Definition owner_eni (c : cr) (six : bool) (p : Z) : Z := match bound_of c six p with (e, _) :: _ => e_id e | [] => 0 end.
Definition eni_of (c : cr) (six : bool) (a : Z) : Z := match lookup c six a with Some (e, _) => e_id e | None => 0 end.
(* is address a an entry the pick loop may give to pod p (family six); other = the interface of the pod's
   address of the other family, 0 if it has none: both families come from one interface *)
Definition pick_ok (rdma_on : bool) (c : cr) (six : bool) (p : pod) (a : Z) (other : Z) : bool :=
  match lookup c six a with
  | Some (e, i) =>
      (e_status e =? 1)
      && (if p_rdma p then e_mode e =? 1 else negb (rdma_on && (e_mode e =? 1)))
      && (i_st i =? 1) && (i_pod i =? 0)
      && ((other =? 0) || (e_id e =? other))
  | None => false
  end.
(* the take-over loop binds the reported address if the record knows it and nobody else owns it *)
Definition takeover_ok (c : cr) (six : bool) (p : pod) (a : Z) : bool :=
  match lookup c six a with
  | Some (_, i) => (i_pod i =? 0) || (i_pod i =? p_id p)
  | None => false
  end.
Definition needs (p : pod) (six : bool) : bool := if six then p_need6 p else p_need4 p.
Definition rep_of (p : pod) (six : bool) : Z := if six then p_rep6 p else p_rep4 p.
Definition pending (c : cr) (p : pod) : bool :=
  (p_need4 p && negb (has_b c false (p_id p))) || (p_need6 p && negb (has_b c true (p_id p))) || ((p_rep4 p =? 0) && (p_rep6 p =? 0)).

(* Go's map order is an explicit choice: every pod comes with the addresses it ended up with (0 = none) for the
   families in which it had none before; the passes check that the loops could have produced that outcome. *)
(* first loop: re-adoption of reported addresses *)
Definition takeover1 (c : cr) (six : bool) (p : pod) (obs : Z) : option cr :=
  if needs p six && negb (has_b c six (p_id p)) && negb (rep_of p six =? 0) && negb (obs =? 0) then
    if (obs =? rep_of p six) && takeover_ok c six p obs then Some (set_owner c six obs (p_id p) (p_uid p)) else None
  else Some c.
Definition takeover_pod (c0 c : cr) (x : pod * Z * Z) : option cr :=
  match x with (p, c4, c6) =>
    if pending c0 p then
      match takeover1 c false p c4 with Some c1 => takeover1 c1 true p c6 | None => None end
    else Some c end.
Fixpoint takeover_all (c0 c : cr) (l : list (pod * Z * Z)) : option cr :=
  match l with
  | [] => Some c
  | x :: t => match takeover_pod c0 c x with Some c' => takeover_all c0 c' t | None => None end
  end.
(* a reported address that could be re-adopted is re-adopted *)
Definition takeover_complete (c0 c : cr) (x : pod * Z * Z) : bool :=
  match x with (p, c4, c6) =>
    negb (pending c0 p) ||
    ((negb (p_need4 p && negb (has_b c false (p_id p)) && negb (p_rep4 p =? 0)) || negb (takeover_ok c false p (p_rep4 p)))
     && (negb (p_need6 p && negb (has_b c true (p_id p)) && negb (p_rep6 p =? 0)) || negb (takeover_ok c true p (p_rep6 p)))) end.
(* second loop: picks; IPv4 first, then IPv6 on the same interface; an IPv4 address picked in this pass is given
   back when no IPv6 address follows *)
Definition pick_pod (rdma_on : bool) (c0 c : cr) (x : pod * Z * Z) : option cr :=
  match x with (p, c4, c6) =>
    if negb (pending c0 p) then Some c else
    let id := p_id p in
    let want4 := p_need4 p && negb (has_b c false id) in
    let pick4 := want4 && (p_rep4 p =? 0) && negb (c4 =? 0) in
    let r4 : option cr :=
      if pick4 then (if pick_ok rdma_on c false p c4 (owner_eni c true id) then Some (set_owner c false c4 id (p_uid p)) else None)
      else Some c in
    match r4 with
    | None => None
    | Some c1 =>
        if want4 && negb (has_b c1 false id) then
          (* no IPv4 address: the pod is left for the next pass, IPv6 is not tried *)
          (if p_need6 p && negb (has_b c1 true id) && negb (c6 =? 0) then None else Some c1)
        else
          let want6 := p_need6 p && negb (has_b c1 true id) in
          if want6 then
            if (p_rep6 p =? 0) && negb (c6 =? 0) then
              (if pick_ok rdma_on c1 true p c6 (owner_eni c1 false id) then Some (set_owner c1 true c6 id (p_uid p)) else None)
            else (if pick4 then None else Some c1)         (* the picked IPv4 address would have been given back *)
          else Some c1
    end end.
Fixpoint pick_all (rdma_on : bool) (c0 c : cr) (l : list (pod * Z * Z)) : option cr :=
  match l with
  | [] => Some c
  | x :: t => match pick_pod rdma_on c0 c x with Some c' => pick_all rdma_on c0 c' t | None => None end
  end.
(* the whole pass over the record c *)
Definition bind_all (rdma_on : bool) (c : cr) (l : list (pod * Z * Z)) : option cr :=
  match takeover_all c c l with
  | Some c1 => if forallb (takeover_complete c c1) l then pick_all rdma_on c c1 l else None
  | None => None
  end.

(* ---- the property's well-formedness of a record ----------------------------------------------- *)
(* all entries of one family with the id of their interface *)
Definition ents (c : cr) (six : bool) : list (Z * ipe) := flat_map (fun e => map (fun i => (e_id e, i)) (fam_of e six)) c.
Definition bnd (c : cr) (six : bool) (p : Z) : list (Z * ipe) := filter (fun x => i_pod (snd x) =? p) (ents c six).
Definition pods_of (c : cr) : list Z :=
  flat_map (fun e => map i_pod (filter (fun i => negb (i_pod i =? 0)) (e_4 e ++ e_6 e))) c.
Definition wf_pod (c : cr) (p : Z) : bool :=
  match bnd c false p, bnd c true p with
  | [], [] => true
  | [_], [] => true
  | [], [_] => true
  | [x4], [x6] => fst x4 =? fst x6                          (* dual stack: both on one interface *)
  | _, _ => false
  end.
Definition wf (c : cr) : bool := forallb (wf_pod c) (pods_of c).

(* ---- planning: getEniOptions + assignEniWithOptions (pool.go:924-994, 1482-1553) -------------- *)
Record opt := mkOpt { o_trunk : bool; o_rdma : bool; o_eni : Z; o_len4 : Z; o_al4 : Z; o_len6 : Z; o_al6 : Z; o_inuse : bool;
                      o_add4 : Z; o_add6 : Z; o_full : bool }.
Record plan_cfg := mkPc { pc_on4 : bool; pc_on6 : bool; pc_trunk : bool; pc_rdma : bool; pc_per4 : Z; pc_per6 : Z; pc_batch : Z;
                          pc_fl_sec : Z; pc_fl_trunk : Z; pc_fl_rdma : Z }.
Definition replicate {A} (n : Z) (x : A) : list A := repeat x (Z.to_nat n).
Definition lenz {A} (l : list A) : Z := Z.of_nat (length l).
Definition is_kind (trunk rdma : bool) (o : opt) : bool := Bool.eqb (o_trunk o) trunk && Bool.eqb (o_rdma o) rdma.
Definition fresh_opt (t r : bool) : opt := mkOpt t r 0 0 0 0 0 false 0 0 false.
(* existing: the interfaces of the record in the order sortNetworkInterface produced *)
Definition eni_options (pc : plan_cfg) (existing : list opt) : list opt :=
  let total := pc_fl_sec pc + pc_fl_trunk pc + pc_fl_rdma pc in
  (* a kind the flavor does not list stays at 0: only listed kinds are counted down *)
  let left k fl := if fl =? 0 then 0 else fl - lenz (filter k existing) in
  let new_limit := Z.max (total - lenz existing) 0 in
  let ntrunk := if pc_trunk pc then Z.min (left (is_kind true false) (pc_fl_trunk pc)) new_limit else 0 in
  let new_limit2 := if pc_trunk pc then new_limit - ntrunk else new_limit in
  let nrdma := if pc_rdma pc then Z.min (left (is_kind false true) (pc_fl_rdma pc)) new_limit2 else 0 in
  let head := replicate ntrunk (fresh_opt true false) ++ replicate nrdma (fresh_opt false true) ++ existing in
  let nsec := Z.min (total - lenz head) (left (is_kind false false) (pc_fl_sec pc)) in
  head ++ replicate nsec (fresh_opt false false).

Definition min3 (a b c : Z) : Z := Z.min a (Z.min b c).
(* one family of an interface of the record: (to add, full, demand left) *)
Definition assign_fam (per len al add t batch : Z) : Z * bool * Z :=
  if 0 <? t then
    let t1 := t - al in
    if 0 <? t1 then
      let lq := per - len in
      if 0 <? lq then (min3 lq t1 batch, false, t1 - min3 lq t1 batch) else (add, true, t1)
    else (add, false, t1)
  else (add, false, t).
(* one family of an interface to be created *)
Definition assign_new (per add t batch : Z) : Z * Z :=
  if 0 <? t then (min3 per t batch, t - min3 per t batch) else (add, t).
(* one option of assignEniWithOptions; (t4, t6) = demand still to place *)
Definition assign_one (pc : plan_cfg) (o : opt) (t4 t6 : Z) : opt * Z * Z :=
  if negb (o_eni o =? 0) then
    (* an interface of the record *)
    let '(a4, f4, t4') := assign_fam (pc_per4 pc) (o_len4 o) (o_al4 o) (o_add4 o) t4 (pc_batch pc) in
    let '(a6, f6, t6') := assign_fam (pc_per6 pc) (o_len6 o) (o_al6 o) (o_add6 o) t6 (pc_batch pc) in
    (mkOpt (o_trunk o) (o_rdma o) (o_eni o) (o_len4 o) (o_al4 o) (o_len6 o) (o_al6 o) (o_inuse o) a4 a6 (o_full o || f4 || f6), t4', t6')
  else
    (* an interface to be created; a trunk is created even without demand *)
    let t4a := if o_trunk o && (t4 <=? 0) then 1 else t4 in
    let t6a := if o_trunk o && pc_on6 pc && (t6 <=? 0) then 1 else t6 in
    let '(a4, t4') := assign_new (pc_per4 pc) (o_add4 o) t4a (pc_batch pc) in
    let '(a6, t6') := assign_new (pc_per6 pc) (o_add6 o) t6a (pc_batch pc) in
    (mkOpt (o_trunk o) (o_rdma o) 0 0 0 0 0 false a4 a6 (o_full o), t4', t6').

(* validateENI (pool.go:880-919) without the vSwitch lookups: kind filter; an existing interface must be InUse *)
Definition opt_filter (kinds : opt -> bool) (o : opt) : bool := kinds o && ((o_eni o =? 0) || o_inuse o).
Fixpoint assign_opts (pc : plan_cfg) (kinds : opt -> bool) (l : list opt) (t4 t6 : Z) : list opt :=
  match l with
  | [] => []
  | o :: r => if opt_filter kinds o
              then let '(o', t4', t6') := assign_one pc o t4 t6 in o' :: assign_opts pc kinds r t4' t6'
              else o :: assign_opts pc kinds r t4 t6
  end.
Definition plan (pc : plan_cfg) (existing : list opt) (normal rdma : Z) : list opt :=
  let o1 := assign_opts pc (fun o => negb (o_rdma o)) (eni_options pc existing) (if pc_on4 pc then normal else 0) (if pc_on6 pc then normal else 0) in
  assign_opts pc (fun o => o_rdma o) o1 (if pc_on4 pc then rdma else 0) (if pc_on6 pc then rdma else 0).

(* ---- trimming: releaseUnUsedIP (eni.go:75-119) -------------------------------------------------- *)
Definition idle_valid (l : list ipe) : Z := lenz (filter (fun i => (i_pod i =? 0) && (i_st i =? 1)) l).
Definition in_use_n (l : list ipe) : Z := lenz (filter (fun i => negb (i_pod i =? 0)) l).
(* which interfaces are given up whole, and how many addresses are marked per family otherwise *)
Definition trim_whole (e : eni) (todel : Z) : bool :=
  (in_use_n (e_4 e) =? 0) && (in_use_n (e_6 e) =? 0) && (lenz (e_4 e) <? todel) && (lenz (e_6 e) <? todel)
  && (e_type e =? 0) && (e_mode e =? 0).
Definition trim_counts (e : eni) (todel : Z) : Z * Z :=
  let i4 := idle_valid (e_4 e) in let i6 := idle_valid (e_6 e) in
  let leftover := Z.max i4 i6 - todel in
  (i4 - leftover, i6 - leftover).
Definition markable (l : list ipe) : Z := lenz (filter (fun i => (i_pod i =? 0) && negb (i_prim i) && negb (i_st i =? 2)) l).
Definition trim_ret (e : eni) (todel : Z) : Z :=
  if trim_whole e todel then Z.max (lenz (e_4 e)) (lenz (e_6 e))
  else let '(d4, d6) := trim_counts e todel in
       Z.max (Z.max 0 (Z.min d4 (markable (e_4 e)))) (Z.max 0 (Z.min d6 (markable (e_6 e)))).
