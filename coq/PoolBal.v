(* PoolBal.v — the watermark band of the daemon's pool (C07, second sentence): the arithmetic of one balancer pass
   (PoolModel.bal_todel / bal_want, the very functions the replay compares with Manager.syncPool on every pass). *)
From Coq Require Import ZArith Lia Bool.
From TV Require Import PoolModel.
Local Open Scope Z_scope.

Theorem band_reached idle inuse mn mx tot :
  0 <= mn <= mx -> 0 <= idle -> idle + inuse + bal_want idle inuse mn tot <= tot ->
  mn <= bal_after idle inuse mn mx tot <= mx \/ (tot <= idle + inuse /\ bal_after idle inuse mn mx tot = Z.min idle mx).
Proof.
  unfold bal_after, bal_todel, bal_want. intros Hm Hi Hc. destruct (tot <=? idle + inuse) eqn:E.
  - right. apply Z.leb_le in E. split; [exact E | lia].
  - left. lia.
Qed.
Theorem band_fixed idle inuse mn mx tot : 0 <= mn <= mx -> mn <= idle <= mx ->
  bal_todel idle mx <= 0 /\ bal_want idle inuse mn tot = 0.
Proof. unfold bal_todel, bal_want. intros. destruct (tot <=? idle + inuse); lia. Qed.
Theorem never_both idle inuse mn mx tot : 0 <= mn <= mx -> ~ (0 < bal_todel idle mx /\ 0 < bal_want idle inuse mn tot).
Proof. unfold bal_todel, bal_want. intros H [A B]. destruct (tot <=? idle + inuse); lia. Qed.
