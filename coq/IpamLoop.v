(* IpamLoop.v — the closed loop of the cluster IPAM's pool maintenance on a node WITHOUT pods, by counts: what one
   Reconcile does to the interfaces of the record when the cloud is healthy (addIP's min-pool refill through
   getEniOptions / assignEniWithOptions / allocateFromOptions with one interface per round, then gc: handleStatus
   unassigns what was marked, adjustPool marks the surplus above max through releaseUnUsedIP).
   Interfaces are secondary, standard mode; IPv4 is always on, IPv6 optional.  Definitions only. *)
From Coq Require Import ZArith List Bool.
From TV Require Import Codec IpamModel.
Import ListNotations.
Local Open Scope Z_scope.

(* one interface: valid addresses (all idle: no pods; the first IPv4 one is the primary), addresses marked Deleting,
   and whether the whole interface is marked Deleting *)
Record lce := mkLe { c_id : Z; c_n4 : Z; c_d4 : Z; c_n6 : Z; c_d6 : Z; c_gone : bool }.
Record lcfg := mkLc { l_dual : bool; l_per : Z; l_min : Z; l_max : Z; l_fs : Z }.
Definition l_batch : Z := 10.

Definition len4 (e : lce) : Z := c_n4 e + c_d4 e.
Definition len6 (e : lce) : Z := c_n6 e + c_d6 e.
(* sortNetworkInterface: more IPv4 entries first; equal counts fall back on Go's map order: the model then declares a tie *)
Fixpoint insert_e (e : lce) (l : list lce) : list lce :=
  match l with
  | [] => [e]
  | x :: t => if len4 x <? len4 e then e :: l else x :: insert_e e t
  end.
Definition sort_e (l : list lce) : list lce := fold_right insert_e [] l.
Fixpoint has_tie (l : list lce) : bool :=
  match l with
  | a :: ((b :: _) as t) => (len4 a =? len4 b) || has_tie t
  | _ => false
  end.

(* calls: 1 create n4*1000+n6, 2 attach, 3 assign4 n, 4 assign6 n, 5 unassign4 n, 6 unassign6 n, 7 detach, 8 delete *)
Definition call := (Z * Z * Z)%type.       (* kind, interface, count *)

(* ---- addIP: the demand split, then the first slot that asks for something is served -------------------------- *)
Definition opt_of (e : lce) : opt :=
  mkOpt false false (c_id e) (len4 e) (c_n4 e) (len6 e) (c_n6 e) (negb (c_gone e)) 0 0 false.
Definition pcfg (c : lcfg) : plan_cfg := mkPc true (l_dual c) false false (l_per c) (l_per c) l_batch (l_fs c) 0 0.
Definition first_ask (l : list opt) : option opt :=
  List.find (fun o => (0 <? o_add4 o) || (0 <? o_add6 o)) l.
Definition add_step (c : lcfg) (fresh : Z) (l : list lce) : list lce * list call :=
  match first_ask (plan (pcfg c) (map opt_of (sort_e l)) (l_min c) 0) with
  | None => (l, [])
  | Some o =>
      if o_eni o =? 0 then
        (l ++ [mkLe fresh (Z.max 1 (o_add4 o)) 0 (Z.max 0 (o_add6 o)) 0 false],
         [(1, fresh, Z.max 1 (o_add4 o) * 1000 + Z.max 0 (o_add6 o)); (2, fresh, 0)])
      else
        (map (fun e => if c_id e =? o_eni o
                       then mkLe (c_id e) (c_n4 e + Z.max 0 (o_add4 o)) (c_d4 e) (c_n6 e + Z.max 0 (o_add6 o)) (c_d6 e) (c_gone e) else e) l,
         (if 0 <? o_add4 o then [(3, o_eni o, o_add4 o)] else []) ++ (if 0 <? o_add6 o then [(4, o_eni o, o_add6 o)] else []))
  end.

(* ---- gc, first half: handleStatus --------------------------------------------------------------------------- *)
Definition status_step (l : list lce) : list lce * list call :=
  (flat_map (fun e => if c_gone e then [] else
                      [mkLe (c_id e) (c_n4 e) (c_d4 e - Z.min (c_d4 e) l_batch) (c_n6 e) (c_d6 e - Z.min (c_d6 e) l_batch) false]) l,
   flat_map (fun e => if c_gone e then [(7, c_id e, 0); (8, c_id e, 0)]
                      else (if 0 <? c_d4 e then [(5, c_id e, Z.min (c_d4 e) l_batch)] else [])
                           ++ (if 0 <? c_d6 e then [(6, c_id e, Z.min (c_d6 e) l_batch)] else [])) l).

(* ---- gc, second half: adjustPool + releaseUnUsedIP ------------------------------------------------------------ *)
Definition trim_e (e : lce) (todel : Z) : Z * lce :=
  if (len4 e <? todel) && (len6 e <? todel) then (Z.max (len4 e) (len6 e), mkLe (c_id e) (c_n4 e) (c_d4 e) (c_n6 e) (c_d6 e) true)
  else
    let leftover := Z.max (c_n4 e) (c_n6 e) - todel in
    let m4 := Z.max 0 (Z.min (c_n4 e - leftover) (c_n4 e - 1)) in       (* the primary address cannot be marked *)
    let m6 := Z.max 0 (Z.min (c_n6 e - leftover) (c_n6 e)) in
    (Z.max m4 m6, mkLe (c_id e) (c_n4 e - m4) (c_d4 e + m4) (c_n6 e - m6) (c_d6 e + m6) false).
Fixpoint trim_from_end (rev_sorted : list lce) (todel : Z) : list lce :=
  match rev_sorted with
  | [] => []
  | e :: t => if todel <=? 0 then e :: t
              else let '(r, e') := trim_e e todel in e' :: trim_from_end t (todel - r)
  end.
Definition adjust_step (c : lcfg) (l : list lce) : list lce :=
  let idles := fold_left Z.add (map (fun e => if c_gone e then 0 else c_n4 e) l) 0 in
  let todel := idles - l_max c in
  if todel <=? 0 then l
  else
    let trimmed := trim_from_end (rev (sort_e l)) todel in
    map (fun e => match List.find (fun x => c_id x =? c_id e) trimmed with Some x => x | None => e end) l.

(* ---- one Reconcile: the state carries the next interface id the cloud will hand out ------------------------------ *)
Definition lstate := (Z * list lce)%type.
Definition pass (c : lcfg) (st : lstate) : lstate * list call :=
  let '(next, l) := st in
  let '(l1, c1) := add_step c next l in
  let next' := if match c1 with (1, _, _) :: _ => true | _ => false end then next + 1 else next in
  let '(l2, c2) := status_step l1 in
  ((next', adjust_step c l2), c1 ++ c2).
Definition tie_somewhere (c : lcfg) (st : lstate) : bool :=
  has_tie (sort_e (snd st)) || has_tie (sort_e (fst (status_step (fst (add_step c (fst st) (snd st)))))).
Fixpoint passes (c : lcfg) (n : nat) (st : lstate) : lstate :=
  match n with O => st | S k => passes c k (fst (pass c st)) end.
