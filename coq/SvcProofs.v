(* SvcProofs.v — lemmas about the service model (SvcModel.v) and about load() (PoolRun.load_slot). *)
From Coq Require Import ZArith List Bool Lia.
From TV Require Import PoolModel PoolLib PoolSets PoolInv PoolThm PoolRun SvcModel.
Import ListNotations.
Local Open Scope Z_scope.

Lemma sget_sdel_same p s : sget p (sdel p s) = None.
Proof. induction s as [|[k r] t IH]; cbn [sdel filter sget fst]; [reflexivity|]. destruct (k =? p) eqn:E; cbn [negb]; [exact IH | cbn [sget]; rewrite E; exact IH]. Qed.
Lemma sget_sdel_other p q s : p <> q -> sget q (sdel p s) = sget q s.
Proof.
  intros H. induction s as [|[k r] t IH]; cbn [sdel filter sget fst]; [reflexivity|].
  destruct (k =? p) eqn:E; cbn [negb].
  - apply Z.eqb_eq in E; subst. destruct (p =? q) eqn:E2; [apply Z.eqb_eq in E2; contradiction | exact IH].
  - cbn [sget]. destruct (k =? q); [reflexivity | exact IH].
Qed.
Lemma sget_sput_same p r s : sget p (sput p r s) = Some r.
Proof. unfold sput. cbn [sget]. rewrite Z.eqb_refl. reflexivity. Qed.

(* C04: the pending set admits one request per pod; a rejected request changes nothing *)
Lemma enter_spec pend p : match enter pend p with Some pend' => ~ In p pend /\ pend' = p :: pend | None => In p pend end.
Proof. unfold enter. destruct (memz p pend) eqn:E; [apply memz_In, E | split; [apply memz_false, E | reflexivity]]. Qed.
Lemma enter_twice pend p pend' : enter pend p = Some pend' -> enter pend' p = None.
Proof. unfold enter. destruct (memz p pend); [discriminate|]. intros H; inversion H; subst. cbn. unfold memz. cbn. rewrite Z.eqb_refl. reflexivity. Qed.
Lemma leave_enter pend p pend' : enter pend p = Some pend' -> forall q, In q (leave pend' p) <-> In q pend.
Proof.
  unfold enter. destruct (memz p pend) eqn:E; [discriminate|]. intros H; inversion H; subst. intros q. unfold leave. rewrite In_remz. cbn.
  apply memz_false in E. split; [intros [[->|Hq] Hn]; [contradiction | exact Hq] | intros Hq; split; [right; exact Hq | intros ->; contradiction]].
Qed.

(* C04: a DEL / GET carrying another sandbox id neither releases nor returns the current allocation *)
Lemma stale_ignored s p cid r : sget p s = Some r -> k_cid r <> cid -> del_effect s p cid = ([], s) /\ get_reply s p cid = (0, 0, 0).
Proof. intros F H. unfold del_effect, get_reply. rewrite F. destruct (k_cid r =? cid) eqn:E; [apply Z.eqb_eq in E; contradiction | split; reflexivity]. Qed.
(* repeating a DEL is a no-op *)
Lemma del_twice s p cid : let '(_, s1) := del_effect s p cid in
  (sget p s = None \/ exists r, sget p s = Some r /\ k_cid r = cid) -> del_effect s1 p cid = ([], s1).
Proof.
  unfold del_effect. destruct (sget p s) as [r|] eqn:F.
  - destruct (k_cid r =? cid) eqn:E.
    + intros _. rewrite sget_sdel_same. reflexivity.
    + intros [H|(r' & H & Hc)]; [discriminate|]. inversion H; subst. apply Z.eqb_neq in E. contradiction.
  - intros _. rewrite F. reflexivity.
Qed.
(* the record an ADD writes pins the next ADD of that pod to the same interface and answers GET for that sandbox *)
Lemma add_then s p cid eni a4 a6 :
  add_pin (add_store s p cid eni a4 a6) p = eni /\ get_reply (add_store s p cid eni a4 a6) p cid = (eni, a4, a6) /\
  del_effect (add_store s p cid eni a4 a6) p cid = ([(eni, a4, a6)], sdel p (add_store s p cid eni a4 a6)).
Proof. unfold add_pin, get_reply, del_effect, add_store. rewrite sget_sput_same. cbn. rewrite Z.eqb_refl. repeat split. Qed.

(* C05: the order of a handler's effects, and a crash after any prefix of them *)
Inductive eff := PoolTake | DiskPut | MemPut | ReplyOk | PoolRelease | DiskDel | MemDel.
Definition add_handler : list eff := [PoolTake; DiskPut; MemPut; ReplyOk].        (* daemon.go:216-291, store.go:119-136 *)
Definition del_handler : list eff := [PoolRelease; DiskDel; MemDel; ReplyOk].     (* daemon.go:368-385, store.go:175-185 *)
Definition on_disk_after (init : bool) (es : list eff) : bool :=
  fold_left (fun d e => match e with DiskPut => true | DiskDel => false | _ => d end) es init.
Definition acked (es : list eff) : bool := existsb (fun e => match e with ReplyOk => true | _ => false end) es.
Lemma add_ack_durable k : acked (firstn k add_handler) = true -> on_disk_after false (firstn k add_handler) = true.
Proof. do 5 (destruct k as [|k]; [cbn; try discriminate; try reflexivity|]). cbn. reflexivity. Qed.
Lemma del_ack_durable k : acked (firstn k del_handler) = true -> on_disk_after true (firstn k del_handler) = false.
Proof. do 5 (destruct k as [|k]; [cbn; try discriminate; try reflexivity|]). cbn. reflexivity. Qed.
(* memory never runs ahead of disk *)
Definition in_mem_after (init : bool) (es : list eff) : bool :=
  fold_left (fun d e => match e with MemPut => true | MemDel => false | _ => d end) es init.
Lemma add_mem_implies_disk k : in_mem_after false (firstn k add_handler) = true -> on_disk_after false (firstn k add_handler) = true.
Proof. do 5 (destruct k as [|k]; [cbn; try discriminate; try reflexivity|]). cbn. reflexivity. Qed.

(* C05: after a restart an address is owned only through a stored allocation that lists it *)
Lemma owner_fold_set_owner4 (owners : list (Z * Z * Z)) : forall s a p,
  owner_of (fold_left (fun acc o => match o with (pod, a4, _) => if a4 =? 0 then acc else set_owner a4 pod acc end) owners s) a = p ->
  p = owner_of s a \/ exists a6, In (p, a, a6) owners.
Proof.
  induction owners as [|[[pod a4] a6] t IH]; intros s a p; cbn [fold_left]; [intros H; left; symmetry; exact H|].
  intros H. destruct (IH _ a p H) as [H1|(b & H1)]; [|right; exists b; right; exact H1].
  destruct (a4 =? 0) eqn:E0; [left; exact H1|]. rewrite owner_set_owner in H1. destruct (a =? a4) eqn:Ea; [|left; exact H1].
  apply Z.eqb_eq in Ea; subst a4. destruct (find a s) eqn:F.
  - right. exists a6. left. rewrite H1. reflexivity.
  - left. unfold owner_of. rewrite F. exact H1.
Qed.
Lemma owner_over_cap cap s a : owner_of (over_cap cap s) a = owner_of s a.
Proof.
  unfold over_cap. destruct (cap <? len s); [|reflexivity]. unfold owner_of.
  rewrite (find_map_ent (fun _ e => if in_use e then e else if e_prim e then e else mkEnt 0 Deleting false) a s).
  destruct (find a s) as [e|]; [|reflexivity]. cbn [option_map].
  destruct (in_use e) eqn:Eu; [reflexivity|]. destruct (e_prim e); [reflexivity|]. cbn.
  unfold in_use in Eu. apply negb_false_iff, Z.eqb_eq in Eu. congruence.
Qed.
Theorem load_owner_has_record ty on4 on6 cap batch now eni trunk prim v4 v6 owners a p :
  owner_of (f_set (s_4 (load_slot ty on4 on6 cap batch now eni trunk prim v4 v6 owners))) a = p -> p <> 0 ->
  exists a6, In (p, a, a6) owners.
Proof.
  unfold load_slot. cbn [s_4 f_set]. rewrite owner_over_cap. intros H Hp.
  destruct (owner_fold_set_owner4 owners _ a p H) as [H1|H1]; [|exact H1].
  rewrite owner_put_fresh in H1. assert (p = 0) by (destruct (memz a v4); exact H1). contradiction.
Qed.

(* C09 *)
Lemma gc_only_vanished live api clean l : forall p, In p (fst (gc_pass live api clean l)) -> live p = false /\ api p = Some false /\ In p l.
Proof.
  induction l as [|x t IH]; cbn [gc_pass]; intros p; [intros []|].
  destruct (live x) eqn:El; [intros H; destruct (IH p H) as (A & B & C); repeat split; try assumption; right; exact C|].
  destruct (api x) as [[|]|] eqn:Ea; try (intros H; destruct (IH p H) as (A & B & C); repeat split; try assumption; right; exact C).
  destruct (clean x); [|intros []]. destruct (gc_pass live api clean t) as [r ok] eqn:Eg. cbn [fst]. intros [<-|H].
  - repeat split; try assumption. left; reflexivity.
  - cbn [fst] in IH. destruct (IH p H) as (A & B & C). repeat split; try assumption. right; exact C.
Qed.
Lemma gc_collects_all live api l : (forall p, In p l -> True) ->
  forall p, In p l -> live p = false -> api p = Some false -> In p (fst (gc_pass live api (fun _ => true) l)) /\ snd (gc_pass live api (fun _ => true) l) = true.
Proof.
  intros _. induction l as [|x t IH]; intros p Hp Hl Ha; [destruct Hp|]. cbn [gc_pass].
  assert (Hfin : forall l', snd (gc_pass live api (fun _ => true) l') = true).
  { induction l' as [|y u IHu]; [reflexivity|]. cbn [gc_pass]. destruct (live y); [exact IHu|]. destruct (api y) as [[|]|]; try exact IHu.
    destruct (gc_pass live api (fun _ => true) u); exact IHu. }
  destruct Hp as [<-|Hp].
  - rewrite Hl, Ha. destruct (gc_pass live api (fun _ => true) t) as [r ok] eqn:Eg. cbn. split; [left; reflexivity | exact (Hfin t) || (rewrite <- (Hfin t), Eg; reflexivity)].
  - destruct (IH p Hp Hl Ha) as [A B]. destruct (live x); [split; assumption|]. destruct (api x) as [[|]|]; try (split; assumption).
    destruct (gc_pass live api (fun _ => true) t) as [r ok] eqn:Eg. cbn in *. split; [right; exact A | exact B].
Qed.
