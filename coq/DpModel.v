(* DpModel.v — the policy-route veth datapath (plugin/datapath/policy_router_linux.go): the declarative
   per-link configuration generators, and the host namespace's policy routing state (ip rules, the main
   table's host routes, the per-interface tables, the host veths) under setup / teardown / loss of a sandbox /
   loss and return of an interface, with the kernel's rule-then-table lookup.  Definitions only. *)
From Coq Require Import ZArith List Bool.
From TV Require Import Codec.
Import ListNotations.
Local Open Scope Z_scope.

(* ---- generators, in the harness' integer encoding ---------------------------------------------------------- *)
(* address: family (0 none, 4, 6) and value; -1 = the link-local next hop 169.254.1.1 / fe80::1 *)
Record gcfg := mkG { g_on4 : bool; g_on6 : bool; g_def : bool; g_multi : bool; g_strip : bool; g_extra : list Z;
                     g_ip : Z; g_gw : Z; g_egw : Z }.
Definition maxlen (f : Z) : Z := if f =? 4 then 32 else 128.
Definition fams (g : gcfg) : list Z := (if g_on4 g then [4] else []) ++ (if g_on6 g then [6] else []).
Definition tbl_of (idx : Z) : Z := 1000 + idx.
(* route: table dstfam dst dstlen gwfam gw dev scope onlink; scope 0 = universe, 253 = link *)
Definition route (t df d dl gf gw dev sc ol : Z) : list Z := [t; df; d; dl; gf; gw; dev; sc; ol].
(* rule: prio srcfam src srclen dstfam dst dstlen oif table *)
Definition rule (p sf s sl df d dl oif t : Z) : list Z := [p; sf; s; sl; df; d; dl; oif; t].

Definition cont_routes_fam (g : gcfg) (li f : Z) : list (list Z) :=
  (if g_def g then [route 0 f 0 0 f (-1) li 0 1] else [])
  ++ (if negb (Z.of_nat (length (g_extra g)) =? 0) then [route 0 f (-1) (maxlen f) 0 0 li 253 0] else [])
  ++ (if g_multi g then [route (tbl_of li) f 0 0 f (g_gw g) li 0 1] else []).
Definition extra_route (li k : Z) : list Z :=
  if k =? 0 then route 0 4 8192 24 0 0 li 253 0
  else if k =? 1 then route 0 4 12288 24 4 253 li 0 1
  else route 0 6 12288 120 0 0 li 253 0.
Definition cont_cfg (g : gcfg) (li : Z) : list Z :=
  let addrs := flat_map (fun f => [f; g_ip g; maxlen f]) (fams g) in
  let routes := flat_map (cont_routes_fam g li) (fams g) ++ map (extra_route li) (g_extra g) in
  let rules := (if g_multi g then [rule 512 0 0 0 0 0 0 1 (tbl_of li)] else [])
               ++ (if g_multi g then map (fun f => rule 512 f (g_ip g) (maxlen f) 0 0 0 0 (tbl_of li)) (fams g) else []) in
  let neighs := map (fun f => [f; -1; li]) (fams g) in
  (Z.of_nat (length (fams g)) :: addrs) ++ (Z.of_nat (length routes) :: concat routes)
  ++ (Z.of_nat (length rules) :: concat rules) ++ (Z.of_nat (length neighs) :: concat neighs).

(* generateContCfgForIPVlan: the pod's address keeps the vSwitch prefix (24 / 64 in the harness) unless the interface is a
   trunk member (vlan stripping), where it is a host address and the gateway gets a static neighbour entry; the node's
   address is reached by a link-scoped host route; extra routes are not used by this datapath *)
Definition subnet_len (f : Z) : Z := if f =? 4 then 24 else 64.
Definition ipvlan_cont_cfg (g : gcfg) (li : Z) : list Z :=
  let addrs := map (fun f => [f; g_ip g; if g_strip g then maxlen f else subnet_len f]) (fams g) in
  let routes := flat_map (fun f =>
       (if g_def g then [route 0 f 0 0 f (g_gw g) li 0 1] else [])
       ++ [route 0 f 257 (maxlen f) 0 0 li 253 0]
       ++ (if g_multi g then [route (tbl_of li) f 0 0 f (g_gw g) li 0 1] else [])) (fams g) in
  let rules := (if g_multi g then [rule 512 0 0 0 0 0 0 1 (tbl_of li)] else [])
               ++ (if g_multi g then map (fun f => rule 512 f (g_ip g) (maxlen f) 0 0 0 0 (tbl_of li)) (fams g) else []) in
  let neighs := flat_map (fun f => [[f; 257; li]] ++ (if g_strip g then [[f; g_gw g; li]] else [])) (fams g) in
  (Z.of_nat (length addrs) :: concat addrs) ++ (Z.of_nat (length routes) :: concat routes)
  ++ (Z.of_nat (length rules) :: concat rules) ++ (Z.of_nat (length neighs) :: concat neighs).

(* generateContCfgForExclusiveENI (the pod gets the whole interface) and generateContCfgForVlan (a vlan sub-interface of the
   trunk): default route through the subnet gateway (on-link), the same again in the interface's own table under
   multi-network with a rule per source address and one for the outgoing interface; the exclusive interface reaches its
   IPv6 gateway by a link-scoped host route and carries a host address unless multi-network keeps the subnet prefix; the
   vlan interface always keeps the subnet prefix *)
Definition own_cont_cfg (vlan : bool) (g : gcfg) (li : Z) : list Z :=
  let addrs := map (fun f => [f; g_ip g; if vlan || g_multi g then subnet_len f else maxlen f]) (fams g) in
  let routes := flat_map (fun f =>
       (if (f =? 6) && negb vlan then [route 0 6 (g_gw g) 128 0 0 li 253 0] else [])
       ++ (if g_def g then [route 0 f 0 0 f (g_gw g) li 0 1] else [])
       ++ (if g_multi g then [route (tbl_of li) f 0 0 f (g_gw g) li 0 1] else [])) (fams g)
       ++ map (extra_route li) (g_extra g) in
  let rules := (if g_multi g then [rule 512 0 0 0 0 0 0 1 (tbl_of li)] else [])
               ++ (if g_multi g then map (fun f => rule 512 f (g_ip g) (maxlen f) 0 0 0 0 (tbl_of li)) (fams g) else []) in
  (Z.of_nat (length addrs) :: concat addrs) ++ (Z.of_nat (length routes) :: concat routes)
  ++ (Z.of_nat (length rules) :: concat rules) ++ [0].

Definition host_cfg (g : gcfg) (vi table : Z) : list Z :=
  let addrs := if negb (Z.of_nat (length (g_extra g)) =? 0) then map (fun f => [f; -1; maxlen f]) (fams g) else [] in
  let routes := map (fun f => route 0 f (g_ip g) (maxlen f) 0 0 vi 253 0) (fams g) in
  let rules := flat_map (fun f => [rule 512 0 0 0 f (g_ip g) (maxlen f) 0 254; rule 2048 f (g_ip g) (maxlen f) 0 0 0 0 table]) (fams g) in
  (Z.of_nat (length addrs) :: concat addrs) ++ (Z.of_nat (length routes) :: concat routes)
  ++ (Z.of_nat (length rules) :: concat rules) ++ [0].
Definition eni_cfg (g : gcfg) (ei table : Z) : list Z :=
  let gw := if g_strip g then g_egw g else g_gw g in
  let addrs := map (fun f => [f; 257; maxlen f]) (fams g) in
  let routes := (if g_on4 g then [route table 4 0 0 4 gw ei 0 1] else [])
                ++ (if g_on6 g then [route 0 6 gw 128 0 0 ei 253 0; route table 6 0 0 6 gw ei 0 1] else []) in
  (Z.of_nat (length addrs) :: concat addrs) ++ (Z.of_nat (length routes) :: concat routes) ++ [0; 0].

(* ---- the host namespace ---------------------------------------------------------------------------------------- *)
(* table ids: 0 = main, eni * 10 + generation for the table of an interface (its index changes when it returns);
   devices: 100 + slot = the host veth of a pod slot, 200 + eni = an interface *)
Record hrule := mkHr { hr_prio : Z; hr_fam : Z; hr_src : Z; hr_dst : Z; hr_tbl : Z }.
Record hst := mkH { h_rules : list hrule;                   (* in the order the kernel holds them: older first *)
                    h_veths : list Z;
                    h_mains : list (Z * Z * Z);             (* family, address, device *)
                    h_tabs : list (Z * Z * Z * Z);          (* table, family, gateway, device *)
                    h_enis : list (Z * Z) }.                (* interface -> generation, present ones only *)
Definition init_h : hst := mkH [] [] [] [] [(1, 1); (2, 1)].
Definition eni_gen (h : hst) (j : Z) : option Z := match List.find (fun x => fst x =? j) (h_enis h) with Some x => Some (snd x) | None => None end.
Definition gw_of (j : Z) : Z := j * 256 + 253.
Definition famlist (fam : Z) : list Z := (if Z.odd fam then [4] else []) ++ (if 2 <=? fam then [6] else []).

(* EnsureIPRule: rules with the same priority and selector but another table are removed, the rule is added unless
   it is there (plugin/driver/utils/utils_linux.go) *)
Definition same_sel (a b : hrule) : bool := (hr_prio a =? hr_prio b) && (hr_fam a =? hr_fam b) && (hr_src a =? hr_src b) && (hr_dst a =? hr_dst b).
Definition ensure_rule (l : list hrule) (r : hrule) : list hrule :=
  let kept := filter (fun x => negb (same_sel x r) || (hr_tbl x =? hr_tbl r)) l in
  if existsb (fun x => same_sel x r && (hr_tbl x =? hr_tbl r)) kept then kept else kept ++ [r].

Definition setup_fam (s a j g : Z) (h : hst) (f : Z) : hst :=
  let t := j * 10 + g in
  mkH (ensure_rule (ensure_rule (h_rules h) (mkHr 512 f 0 a 0)) (mkHr 2048 f a 0 t))
      (h_veths h)
      (filter (fun x => negb ((fst (fst x) =? f) && (snd (fst x) =? a))) (h_mains h) ++ [(f, a, 100 + s)])
      (filter (fun x => negb ((fst (fst (fst x)) =? t) && (snd (fst (fst x)) =? f))) (h_tabs h) ++ [(t, f, gw_of j, 200 + j)])
      (h_enis h).
Definition drop_veth (s : Z) (h : hst) : hst :=
  mkH (h_rules h) (filter (fun x => negb (x =? s)) (h_veths h)) (filter (fun x => negb (snd x =? 100 + s)) (h_mains h)) (h_tabs h) (h_enis h).
Definition setup (s a j fam : Z) (h : hst) : hst :=
  match eni_gen h j with
  | None => h
  | Some g =>
      let h1 := drop_veth s h in                                       (* a leftover veth of that name is replaced *)
      let h2 := mkH (h_rules h1) (h_veths h1 ++ [s]) (h_mains h1) (h_tabs h1) (h_enis h1) in
      fold_left (setup_fam s a j g) (famlist fam) h2
  end.
Definition teardown (s a fam : Z) (h : hst) : hst :=
  let h1 := drop_veth s h in
  mkH (filter (fun r => negb (existsb (fun f => (hr_fam r =? f) && (((hr_prio r =? 2048) && (hr_src r =? a)) || ((hr_prio r =? 512) && (hr_dst r =? a)))) (famlist fam))) (h_rules h1))
      (h_veths h1) (h_mains h1) (h_tabs h1) (h_enis h1).
Definition eni_gone (j : Z) (h : hst) : hst :=
  mkH (h_rules h) (h_veths h) (filter (fun x => negb (snd x =? 200 + j)) (h_mains h))
      (filter (fun x => negb (snd x =? 200 + j)) (h_tabs h)) (filter (fun x => negb (fst x =? j)) (h_enis h)).
Definition eni_back (j g : Z) (h : hst) : hst :=
  match eni_gen h j with Some _ => h | None => mkH (h_rules h) (h_veths h) (h_mains h) (h_tabs h) (h_enis h ++ [(j, g)]) end.

(* the kernel's lookups: towards a pod address; from a pod address (arriving on its veth) to the outside *)
Definition look_to (h : hst) (f a : Z) : Z :=
  if existsb (fun r => (hr_prio r =? 512) && (hr_fam r =? f) && (hr_dst r =? a) && (hr_tbl r =? 0)) (h_rules h)
  then match List.find (fun x => (fst (fst x) =? f) && (snd (fst x) =? a)) (h_mains h) with Some x => snd x | None => 0 end
  else match List.find (fun x => (fst (fst x) =? f) && (snd (fst x) =? a)) (h_mains h) with Some x => snd x | None => 0 end.
Fixpoint first_table (tabs : list (Z * Z * Z * Z)) (f : Z) (rs : list hrule) : Z * Z :=
  match rs with
  | [] => (0, 0)
  | r :: t => match List.find (fun x => (fst (fst (fst x)) =? hr_tbl r) && (snd (fst (fst x)) =? f)) tabs with
              | Some x => (snd x, snd (fst x))
              | None => first_table tabs f t end
  end.
Definition look_from (h : hst) (f a : Z) : Z * Z :=
  first_table (h_tabs h) f (filter (fun r => (hr_prio r =? 2048) && (hr_fam r =? f) && (hr_src r =? a) && (hr_dst r =? 0)) (h_rules h)).
