(* C18Run.v — case decoder for C18 (format: harness/c18/c18_test.go) *)
From Coq Require Import ZArith List Bool.
From TV Require Import Codec C18Model.
Import ListNotations.
Local Open Scope Z_scope.

Fixpoint dec_nets (n : nat) (l : list Z) : list pnet * list Z :=
  match n, l with
  | S n', a :: b :: c :: d :: e :: f :: r =>
      let '(ns, r') := dec_nets n' r in
      ({| w_iflen := a; w_ifid := b; w_nvsw := c; w_nsg := d; w_alloc := e; w_attach_eni := dec_bool f |} :: ns, r')
  | _, _ => ([], l)
  end.

Definition dec_pnw (l : list Z) : option (pnw * list Z) :=
  match l with
  | ex :: rd :: hs :: fx :: ps :: nss :: r =>
      match take_list r with
      | Some (zs, nv :: ng :: at_ :: r') =>
          Some ({| k_exists := dec_bool ex; k_ready := dec_bool rd; k_has_sel := dec_bool hs; k_fixed := dec_bool fx;
                   k_podsel := ps; k_nssel := nss; k_zones := zs; k_nvsw := nv; k_nsg := ng; k_attach_eni := dec_bool at_ |}, r')
      | _ => None
      end
  | _ => None
  end.

Fixpoint dec_reqs (n : nat) (l : list Z) : option (list req * list Z) :=
  match n with
  | O => Some ([], l)
  | S n' => match dec_pnw l with
            | Some (k, il :: ii :: r) =>
                match dec_reqs n' r with Some (qs, r') => Some ({| q_pn := k; q_iflen := il; q_ifid := ii |} :: qs, r') | None => None end
            | _ => None
            end
  end.
Fixpoint dec_pns (n : nat) (l : list Z) : option (list pnw * list Z) :=
  match n with
  | O => Some ([], l)
  | S n' => match dec_pnw l with
            | Some (k, r) => match dec_pns n' r with Some (ks, r') => Some (k :: ks, r') | None => None end
            | None => None
            end
  end.

Definition dec_inp (l : list Z) : option inp :=
  match l with
  | inj :: tr :: crd :: hn :: nc :: ig :: ue :: fn :: ds :: pz :: pe :: hn_ :: hr :: hp :: nok :: nn :: r =>
      let '(nets, r1) := dec_nets (Z.to_nat nn) r in
      match r1 with
      | rok :: nq :: r2 =>
          match dec_reqs (Z.to_nat nq) r2 with
          | Some (qs, nse :: np :: r3) =>
              match dec_pns (Z.to_nat np) r3 with
              | Some (ks, [cok; cv; cs; _]) =>   (* last: the device request the first container already carries; the result does not depend on it *)
                  Some {| i_inject := dec_bool inj; i_trunk := dec_bool tr; i_crd := dec_bool crd; i_hostnet := dec_bool hn;
                          i_ncont := nc; i_ignored := dec_bool ig; i_use_eni := dec_bool ue; i_fixed_name := dec_bool fn;
                          i_daemonset := dec_bool ds; i_prev_zone := pz; i_prev_err := dec_bool pe;
                          i_has_nets := dec_bool hn_; i_has_req := dec_bool hr; i_has_pning := dec_bool hp;
                          i_nets_ok := dec_bool nok; i_nets := nets; i_req_ok := dec_bool rok; i_reqs := qs;
                          i_ns_exists := dec_bool nse; i_pns := ks; i_cfg_ok := dec_bool cok; i_cfg_nvsw := cv; i_cfg_nsg := cs |}
              | _ => None end
          | _ => None end
      | _ => None end
  | _ => None
  end.

Definition enc_net (n : pnet) : list Z := [w_iflen n; w_ifid n; w_nvsw n; w_nsg n; w_alloc n].

Definition enc_verdict (v : verdict) : list Z :=
  match v with
  | Allowed => [0] | Denied => [1] | Errored => [2]
  | Patched ns c e aff =>
      3 :: Z.of_nat (length ns) :: flat_map enc_net ns ++ [c; enc_bool e; Z.of_nat (length aff)] ++ flat_map enc_list aff
  end.

Definition run_c18 (i : list Z) : list Z :=
  match dec_inp i with Some x => enc_verdict (pod_webhook x) | None => bad end.

(* ---- the property's clauses on the implementation's verdict ---------------------------- *)
Fixpoint dec_onets (n : nat) (l : list Z) : list (list Z) * list Z :=
  match n with O => ([], l) | S n' => let '(ns, r) := dec_onets n' (skipn 5 l) in (firstn 5 l :: ns, r) end.
Fixpoint nodup_if (l : list (list Z)) : bool :=
  match l with
  | [] => true
  | a :: r => negb (existsb (fun b => (nth 0 a 0 =? nth 0 b 0) && (nth 1 a 0 =? nth 1 b 0)) r) && nodup_if r
  end.
Fixpoint dec_aff (n : nat) (l : list Z) : list (list Z) :=
  match n with O => [] | S n' => match take_list l with Some (z, r) => z :: dec_aff n' r | None => [] end end.

Definition chk_c18 (i o : list Z) : bool :=
  match dec_inp i with
  | None => false
  | Some x =>
      let no_anno := negb (i_has_nets x) && negb (i_has_req x) && negb (i_has_pning x) in
      (* untouched: host network, ignored label, (non-CRD, not marked, no network definition matches) *)
      (if i_hostnet x || i_ignored x then list_eqb o [0] else true) &&
      (if negb (i_crd x) && negb (i_use_eni x) && no_anno && (0 <? i_ncont x) && i_ns_exists x &&
          negb (existsb (fun k => k_ready k && (negb (k_fixed k) || i_fixed_name x) &&
                                  negb ((k_podsel k =? 2) || (k_nssel k =? 2)) && ((k_podsel k =? 1) || (k_nssel k =? 1))) (i_pns x))
       then list_eqb o [0] || list_eqb o [2] else true) &&
      (* conflicting annotations are denied *)
      (if negb (i_hostnet x) && negb (i_ignored x) && (0 <? i_ncont x) &&
          ((i_has_nets x && i_has_req x) || (i_has_nets x && i_has_pning x) || (i_has_req x && i_has_pning x))
       then list_eqb o [1] else true) &&
      match o with
      | 3 :: n :: r =>
          let '(ns, r1) := dec_onets (Z.to_nat n) r in
          (0 <? n) &&
          (* every entry: name of 1..5 characters, unique; <= 10 security groups; an allocation type;
             fixed only for a stable name; vSwitches and security groups present *)
          forallb (fun e => (1 <=? nth 0 e 0) && (nth 0 e 0 <=? 5) && (nth 3 e 0 <=? 10)
                            && ((nth 4 e 0 =? 1) || (nth 4 e 0 =? 2))
                            && (negb (nth 4 e 0 =? 2) || i_fixed_name x)
                            && (if i_cfg_ok x && (0 <? i_cfg_nvsw x) && (0 <? i_cfg_nsg x)
                                then (0 <? nth 2 e 0) && (0 <? nth 3 e 0) else true)) ns
          && nodup_if ns &&
          match r1 with
          | c :: e :: na :: r2 =>
              (* device request = number of networks *)
              (if i_inject x then c =? n else true) &&
              (* zone affinity within the zones in which every requested network has a vSwitch *)
              (let aff := dec_aff (Z.to_nat na) r2 in
               let prev := if i_fixed_name x then [i_prev_zone x] else [] in
               let within (zs : list Z) :=
                 forallb (fun zl => forallb (fun z => existsb (Z.eqb z) zs) zl || list_eqb zl prev) aff in
               if i_daemonset x then match aff with [] => true | _ => false end
               else if i_has_nets x then true
               else match (if i_has_req x then i_reqs x else []) with
                    | q0 :: _ =>
                        (* a network request: only zones in which EVERY requested network has a vSwitch *)
                        within (fold_left (fun acc q => filter (fun z => existsb (Z.eqb z) (k_zones (q_pn q))) acc)
                                          (i_reqs x) (k_zones (q_pn q0)))
                    | [] =>
                        (* a selector match: only zones of the matched network definition *)
                        match match_one (i_fixed_name x) (i_pns x) with
                        | Some k => within (k_zones k)
                        | None => within []
                        end
                    end)
          | _ => false
          end
      | _ => true
      end
  end.
