(* Props_C18.v — property C18 stated against C18Model. *)
From Coq Require Import ZArith List Bool.
From TV Require Import Codec C18Model C18Proofs.
Import ListNotations.
Local Open Scope Z_scope.

(* pods on the host network and pods labelled as ignored are admitted unchanged *)
Theorem c18_untouched_hostnet_ignored : forall i,
  i_hostnet i = true \/ (i_ncont i <> 0 /\ i_ignored i = true) -> pod_webhook i = Allowed.
Proof. intros i [H|[Hc H]]; unfold pod_webhook; rewrite H; [reflexivity|].
  destruct (i_hostnet i); [reflexivity|]. destruct (i_ncont i =? 0) eqn:E; [reflexivity|]. reflexivity. Qed.
Print Assumptions c18_untouched_hostnet_ignored.

(* outside centralized IPAM, an unmarked pod without network annotations that matches no network
   definition is admitted unchanged *)
Theorem c18_untouched_no_match : forall i,
  i_crd i = false -> i_use_eni i = false ->
  i_has_nets i = false -> i_has_req i = false -> i_has_pning i = false ->
  i_ns_exists i = true -> (i_fixed_name i && i_prev_err i = false) ->
  match_one (i_fixed_name i) (i_pns i) = None -> pod_webhook i = Allowed.
Proof.
  intros i Hc Hu H1 H2 H3 Hns Hpe Hm. unfold pod_webhook. rewrite H1, H2, H3, Hc, Hu, Hns, Hpe, Hm. cbn [andb orb negb].
  destruct (i_hostnet i); [reflexivity|]. destruct (i_ncont i =? 0); [reflexivity|]. destruct (i_ignored i); [reflexivity|].
  destruct (i_pns i); reflexivity.
Qed.
Print Assumptions c18_untouched_no_match.

Theorem c18_conflicting_annotations_denied : forall i,
  i_hostnet i = false -> i_ncont i <> 0 -> i_ignored i = false ->
  ((i_has_nets i && i_has_req i) || (i_has_nets i && i_has_pning i) || (i_has_req i && i_has_pning i)) = true ->
  pod_webhook i = Denied.
Proof. intros i H1 H2 H3 H4. unfold pod_webhook. rewrite H1, H3, H4.
  destruct (i_ncont i =? 0) eqn:E; [apply Z.eqb_eq in E; contradiction | reflexivity]. Qed.
Print Assumptions c18_conflicting_annotations_denied.

(* every patched pod carries a non-empty network list whose entries have a name of 1..5
   characters, pairwise distinct, an allocation type, fixed only for a stable pod name, and a
   device request equal to the number of networks *)
Theorem c18_complete : forall i ns c e aff,
  Forall alloc_in (i_nets i) -> pod_webhook i = Patched ns c e aff -> complete i ns c.
Proof.
  intros i ns c e aff Hal. unfold pod_webhook.
  assert (Hd : alloc_in {| w_iflen := 4; w_ifid := 1; w_nvsw := 0; w_nsg := 0; w_alloc := 0; w_attach_eni := false |})
    by (unfold alloc_in; cbn; split; discriminate).
  assert (Hk : forall k a b, alloc_in (of_pn k a b)) by (intros k a b; unfold alloc_in, of_pn; cbn; destruct (k_fixed k); split; discriminate).
  repeat match goal with
         | |- (if ?b then _ else _) = _ -> _ => destruct b; try discriminate
         end.
  destruct (if i_has_nets i then i_nets i else []) as [|n0 r0] eqn:En.
  - repeat match goal with
           | |- (if ?b then _ else _) = _ -> _ => destruct b; try discriminate
           end.
    destruct (if i_has_req i then i_reqs i else []) as [|q0 qr] eqn:Eq.
    + destruct (i_pns i) as [|k0 kr] eqn:Ep.
      * destruct (negb (i_crd i) && negb (i_use_eni i)); [discriminate|].
        apply finish_complete; [discriminate | constructor; [exact Hd | constructor]].
      * destruct (negb (i_ns_exists i)); [discriminate|].
        destruct (match_one (i_fixed_name i) (k0 :: kr)) as [k|].
        -- apply finish_complete; [discriminate | constructor; [apply Hk | constructor]].
        -- destruct (negb (i_crd i) && negb (i_use_eni i)); [discriminate|].
           apply finish_complete; [discriminate | constructor; [exact Hd | constructor]].
    + destruct (requests true [] (q0 :: qr)) as [[rs z]|] eqn:Er; [|discriminate].
      destruct (requests_zones _ _ _ _ _ Er) as (_ & _ & Hlen).
      apply finish_complete.
      * destruct rs; [discriminate Hlen | discriminate].
      * clear -Er Hk. revert Er. generalize true, (@nil Z). revert rs z.
        induction (q0 :: qr) as [|q l IH]; intros rs z f acc; cbn [requests].
        -- intros H; inversion H; constructor.
        -- destruct (negb _ || negb _ || _); [discriminate|].
           destruct (requests false _ l) as [[ns' z']|] eqn:E; [|discriminate].
           intros H; inversion H; subst. constructor; [destruct (q_iflen q =? 0); apply Hk | eapply IH; exact E].
  - apply finish_complete; [discriminate|].
    destruct (i_has_nets i); [rewrite <- En; exact Hal | discriminate].
Qed.
Print Assumptions c18_complete.

(* the zones put into the node affinity for a network request lie in the zones of EVERY requested network *)
Theorem c18_zone_affinity : forall qs ns z,
  requests true [] qs = Some (ns, z) -> forall q, In q qs -> incl z (k_zones (q_pn q)).
Proof. intros qs ns z H. exact (proj1 (requests_zones _ _ _ _ _ H)). Qed.
Print Assumptions c18_zone_affinity.

Example c18_ex :
  let pn := {| k_exists := true; k_ready := true; k_has_sel := false; k_fixed := false; k_podsel := 0; k_nssel := 0;
               k_zones := [3; 1]; k_nvsw := 2; k_nsg := 1; k_attach_eni := false |} in
  requests true [] [{| q_pn := pn; q_iflen := 0; q_ifid := 0 |};
                    {| q_pn := {| k_exists := true; k_ready := true; k_has_sel := false; k_fixed := false; k_podsel := 0; k_nssel := 0;
                                  k_zones := [1; 2]; k_nvsw := 1; k_nsg := 1; k_attach_eni := false |}; q_iflen := 4; q_ifid := 2 |}]
  = Some ([of_pn pn 4 1; {| w_iflen := 4; w_ifid := 2; w_nvsw := 1; w_nsg := 1; w_alloc := 1; w_attach_eni := false |}], [1]).
Proof. vm_compute. reflexivity. Qed.
