(* Props_C18.v — property C18 stated against C18Model. *)
From Coq Require Import ZArith List Bool.
From TV Require Import Codec C18Model C18Proofs.
Import ListNotations.
Local Open Scope Z_scope.

(* pods on the host network and pods labelled as ignored are admitted unchanged *)
Theorem c18_untouched_hostnet_ignored : forall i,
  i_hostnet i = true \/ (i_ncont i <> 0 /\ i_ignored i = true) -> pod_webhook i = Allowed.
Proof. exact c18_untouched_hostnet_ignored_pf. Qed.
Print Assumptions c18_untouched_hostnet_ignored.

(* outside centralized IPAM, an unmarked pod without network annotations that matches no network
   definition is admitted unchanged *)
Theorem c18_untouched_no_match : forall i,
  i_crd i = false -> i_use_eni i = false ->
  i_has_nets i = false -> i_has_req i = false -> i_has_pning i = false ->
  i_ns_exists i = true -> (i_fixed_name i && i_prev_err i = false) ->
  match_one (i_fixed_name i) (i_pns i) = None -> pod_webhook i = Allowed.
Proof. exact c18_untouched_no_match_pf. Qed.
Print Assumptions c18_untouched_no_match.

Theorem c18_conflicting_annotations_denied : forall i,
  i_hostnet i = false -> i_ncont i <> 0 -> i_ignored i = false ->
  ((i_has_nets i && i_has_req i) || (i_has_nets i && i_has_pning i) || (i_has_req i && i_has_pning i)) = true ->
  pod_webhook i = Denied.
Proof. exact c18_conflicting_annotations_denied_pf. Qed.
Print Assumptions c18_conflicting_annotations_denied.

(* every patched pod carries a non-empty network list whose entries have a name of 1..5
   characters, pairwise distinct, an allocation type, fixed only for a stable pod name, and a
   device request equal to the number of networks *)
Theorem c18_complete : forall i ns c e aff,
  Forall alloc_in (i_nets i) -> pod_webhook i = Patched ns c e aff -> complete i ns c.
Proof. exact c18_complete_pf. Qed.
Print Assumptions c18_complete.

(* ... and every entry carries vSwitches and security groups whenever the cluster's eni-config has some
   (after the repair 'fix: fill eni-config defaults for every interface', not only eth0) *)
Theorem c18_vswitch_sg_present : forall i ns c e aff,
  Forall alloc_in (i_nets i) -> pod_webhook i = Patched ns c e aff ->
  i_cfg_nvsw i <> 0 -> i_cfg_nsg i <> 0 ->
  Forall (fun n => w_nvsw n <> 0 /\ w_nsg n <> 0) ns.
Proof. exact c18_vswitch_sg_present_pf. Qed.
Print Assumptions c18_vswitch_sg_present.

(* at most ten security groups per entry (the eni-config reader refuses more than ten, so
   i_cfg_nsg <= 10 whenever the configuration was readable) *)
Theorem c18_at_most_ten_sg : forall i ns c e aff,
  Forall alloc_in (i_nets i) -> pod_webhook i = Patched ns c e aff ->
  i_cfg_nsg i <= 10 -> Forall (fun n => w_nsg n <= 10) ns.
Proof. exact c18_at_most_ten_sg_pf. Qed.
Print Assumptions c18_at_most_ten_sg.

(* the zones put into the node affinity for a network request lie in the zones of EVERY requested network *)
Theorem c18_zone_affinity : forall qs ns z,
  requests true [] qs = Some (ns, z) -> forall q, In q qs -> incl z (k_zones (q_pn q)).
Proof. exact c18_zone_affinity_pf. Qed.
Print Assumptions c18_zone_affinity.

Example c18_ex :
  let pn := {| k_exists := true; k_ready := true; k_has_sel := false; k_fixed := false; k_podsel := 0; k_nssel := 0;
               k_zones := [3; 1]; k_nvsw := 2; k_nsg := 1; k_attach_eni := false |} in
  requests true [] [{| q_pn := pn; q_iflen := 0; q_ifid := 0 |};
                    {| q_pn := {| k_exists := true; k_ready := true; k_has_sel := false; k_fixed := false; k_podsel := 0; k_nssel := 0;
                                  k_zones := [1; 2]; k_nvsw := 1; k_nsg := 1; k_attach_eni := false |}; q_iflen := 4; q_ifid := 2 |}]
  = Some ([of_pn pn 4 1; {| w_iflen := 4; w_ifid := 2; w_nvsw := 1; w_nsg := 1; w_alloc := 1; w_attach_eni := false |}], [1]).
Proof. vm_compute. reflexivity. Qed.
