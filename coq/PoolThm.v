(* PoolThm.v — the ghost-ledger invariants (no orphan, valid => not gone / not being unassigned,
   the judgement of every cloud call at the time it is made, the back-off deadline) and the
   consequences of PoolInv that the property files cite. *)
From Coq Require Import ZArith List Bool Lia.
From TV Require Import PoolModel PoolLib PoolSets PoolInv.
Import ListNotations.
Local Open Scope Z_scope.

(* ---- per-family ledger facts ---------------------------------------------------------------- *)
Definition G (set : iset) (gone unreq : list Z) : Prop :=
  forall a e, find a set = Some e -> e_st e = Valid -> ~ In a gone /\ ~ In a unreq.
Definition Cl (set : iset) (cl : list Z) : Prop := incl cl (keys set).
Definition fam_ok (x : fam) : Prop := G (f_set x) (f_gone x) (f_unreq x) /\ Cl (f_set x) (f_cl x).

Lemma In_remzs a xs l : In a (remzs xs l) <-> In a l /\ ~ In a xs.
Proof. unfold remzs. rewrite filter_In. rewrite negb_true_iff, memz_false. tauto. Qed.
Lemma In_remz a x l : In a (remz x l) <-> In a l /\ a <> x.
Proof. unfold remz. rewrite filter_In. rewrite negb_true_iff, Z.eqb_neq. tauto. Qed.

(* a change of the set that keeps keys and can only move entries away from Valid *)
Lemma fam_ok_weaken set set' gone unreq cl :
  keys set' = keys set ->
  (forall a e', find a set' = Some e' -> e_st e' = Valid -> exists e, find a set = Some e /\ e_st e = Valid) ->
  G set gone unreq /\ Cl set cl -> G set' gone unreq /\ Cl set' cl.
Proof.
  intros Hk Hv [HG HC]. split.
  - intros a e' F Hs. destruct (Hv a e' F Hs) as (e & F0 & Hs0). exact (HG a e F0 Hs0).
  - unfold Cl. rewrite Hk. exact HC.
Qed.

Lemma valid_set_owner a pod s b e' : find b (set_owner a pod s) = Some e' -> exists e, find b s = Some e /\ e_st e = e_st e'.
Proof.
  rewrite find_set_owner. destruct (b =? a) eqn:E; [|intros F; exists e'; split; [exact F | reflexivity]].
  apply Z.eqb_eq in E; subst. destruct (find a s) as [e|]; [|discriminate]. intros F; inversion F; subst. exists e. split; reflexivity.
Qed.
Lemma valid_release a pod s b e' : find b (release a pod s) = Some e' -> exists e, find b s = Some e /\ e_st e = e_st e'.
Proof.
  rewrite find_release. destruct (b =? a) eqn:E; [|intros F; exists e'; split; [exact F | reflexivity]].
  apply Z.eqb_eq in E; subst. destruct (find a s) as [e|]; [|discriminate]. intros F; inversion F; subst. exists e. split; [reflexivity|].
  destruct (e_owner e =? pod); reflexivity.
Qed.

Lemma fam_ok_set_owner a pod x : fam_ok x -> fam_ok (with_set x (set_owner a pod (f_set x))).
Proof.
  unfold fam_ok. destruct x; cbn. apply fam_ok_weaken; [apply keys_set_owner|].
  intros b e' F Hs. destruct (valid_set_owner _ _ _ _ _ F) as (e & F0 & E). exists e. split; [exact F0 | congruence].
Qed.
Lemma fam_ok_release a pod x : fam_ok x -> fam_ok (with_set x (release a pod (f_set x))).
Proof.
  unfold fam_ok. destruct x; cbn. apply fam_ok_weaken; [apply keys_release|].
  intros b e' F Hs. destruct (valid_release _ _ _ _ _ F) as (e & F0 & E). exists e. split; [exact F0 | congruence].
Qed.

Lemma fam_ok_assigned st prim ips x :
  fam_ok x -> fam_ok (ghost_assigned (with_set x (put_fresh st prim ips (f_set x))) ips).
Proof.
  unfold fam_ok, ghost_assigned. destruct x as [on set al dg cl gone un]; cbn. intros [HG HC]. split.
  - intros a e. rewrite find_put_fresh. destruct (memz a ips) eqn:Em.
    + intros _ _. apply memz_In in Em. split; intros H; apply In_remzs in H; tauto.
    + apply memz_false in Em. intros F Hs. destruct (HG a e F Hs) as [A B]. split; intros H; apply In_remzs in H; tauto.
  - intros a Ha. apply in_app_iff in Ha. apply keys_put_fresh. destruct Ha as [Ha|Ha]; [left; exact Ha | right; apply In_remzs in Ha; apply HC; tauto].
Qed.

Lemma fam_ok_dispose m x : fam_ok x -> fam_ok (with_set x (fold_left (fun acc a => dispose_ip a acc) m (dispose_invalid (f_set x)))).
Proof.
  unfold fam_ok. destruct x; cbn. apply fam_ok_weaken; [rewrite keys_marks; apply keys_dispose_invalid|].
  intros b e'. rewrite find_dispose_marks, find_dispose_invalid. destruct (find b f_set) as [e|]; [|destruct (memz b m); discriminate].
  cbn [option_map]. intros F Hs. exists e. split; [reflexivity|].
  destruct (negb (in_use e) && negb (ipst_eqb (e_st e) Valid) && negb (e_prim e)); destruct (memz b m); cbn [option_map e_prim] in F;
    try (destruct (e_prim e)); inversion F; subst; cbn in Hs; try discriminate; exact Hs.
Qed.

Lemma fam_ok_sync r x :
  fam_ok x -> fam_ok (with_ghost (with_set x (sync_set r (f_set x))) (f_cl x) (sync_gone r (f_set x) ++ f_gone x) (f_unreq x)).
Proof.
  unfold fam_ok. destruct x as [on set al dg cl gone un]; cbn. intros [HG HC]. split.
  - intros a e'. rewrite find_sync_set. destruct (find a set) as [e|] eqn:F0; [|discriminate]. cbn [option_map].
    destruct (ipst_eqb (e_st e) Valid && negb (memz a r)) eqn:Ec; intros F Hs; inversion F; subst; [discriminate|].
    destruct (HG a e' F0 Hs) as [A B]. split; [|exact B]. intros H. apply in_app_iff in H as [H|H]; [|exact (A H)].
    unfold sync_gone in H. apply in_map_iff in H as ([k e1] & E & H). cbn in E; subst k. apply filter_In in H as [H Hc]. cbn in Hc.
    (* the entry listed as gone is Valid and not in the remote list; so is (a, e') by Ec = false *)
    apply andb_true_iff in Hc as [Hv Hr]. apply negb_true_iff in Hr. apply ipst_eqb_eq in Hs. rewrite Hs, Hr in Ec. discriminate.
  - unfold Cl. rewrite keys_sync_set. exact HC.
Qed.

Lemma In_keys_del_all a ips s : In a (keys s) -> ~ In a ips -> In a (keys (del_all ips s)).
Proof.
  intros Hk Hn. destruct (find a (del_all ips s)) as [e|] eqn:F; [eapply find_keys; exact F|].
  rewrite find_del_all in F. apply memz_false in Hn. rewrite Hn in F. apply find_none_keys in F. contradiction.
Qed.
Lemma fam_ok_unassigned (ok effect : bool) ips x :
  fam_ok x ->
  fam_ok (let x1 := if ok then with_set x (del_all ips (f_set x)) else x in
          if ok || effect then with_ghost x1 (remzs ips (f_cl x1)) (f_gone x1) (f_unreq x1) else x1).
Proof.
  unfold fam_ok. destruct x as [on set al dg cl gone un]. intros [HG HC]. destruct ok; cbn.
  - split.
    + intros a e. rewrite find_del_all. destruct (memz a ips); [discriminate | apply HG].
    + intros a Ha. apply In_remzs in Ha as [Ha Hn]. apply In_keys_del_all; [apply HC, Ha | exact Hn].
  - destruct effect; cbn; split; try assumption. intros a Ha. apply In_remzs in Ha as [Ha _]. apply HC, Ha.
Qed.

(* ---- the slot-level ledger invariant --------------------------------------------------------- *)
Definition call_ok (c : call) : Prop :=
  match c with
  | CUnassign _ _ u p => u = false /\ p = false
  | CDelete u pend ty tr => u = false /\ pend = 0 /\ ty <> 1 /\ ty <> 2 /\ tr = false
  | _ => True
  end.
Record Led (s : slot) : Prop := mkLed {
  l_4 : fam_ok (s_4 s);
  l_6 : fam_ok (s_6 s);
  l_log : Forall call_ok (s_log s);
  l_arm : forall t, s_fw s = FwArmed t -> s_inh s <= s_now s;
  l_now : 0 <= s_now s
}.

(* the cloud's create answer names the interface's primary address (otherwise the code drops the
   IPv4 addresses it was given, local.go:744-752) *)
Definition cloud_ok (l : label) : Prop :=
  match l with LCreateEnd true _ _ prim _ _ _ => prim <> 0 | _ => True end.

Arguments sync_set : simpl never.
Arguments dispose_invalid : simpl never.
Arguments set_owner : simpl never.
Arguments release : simpl never.
Arguments dispose_ip : simpl never.
Arguments put_fresh : simpl never.
Arguments del_all : simpl never.
Arguments deleting_keys : simpl never.
Arguments keys : simpl never.
Arguments find : simpl never.
Arguments cancel_nc : simpl never.
Arguments prune : simpl never.
Arguments rfind : simpl never.
Arguments rput : simpl never.
Arguments peek_ok : simpl never.
Arguments alloc_kind : simpl never.
Arguments can_dispose : simpl never.
Arguments fresh_ips : simpl never.
Arguments dispose_marks_ok : simpl never.
Arguments unfinished_for : simpl never.
Arguments fw_guard : simpl never.
Arguments held_by : simpl never.
Arguments sync_gone : simpl never.
Arguments memz : simpl never.
Arguments remzs : simpl never.
Arguments remz : simpl never.
Arguments Z.add : simpl never.
Arguments Z.max : simpl never.
Arguments Z.min : simpl never.
Arguments len : simpl never.
Arguments nodupz : simpl never.
Arguments subsetz : simpl never.
Arguments any_in_use_of : simpl never.
Arguments any_prim_of : simpl never.
Arguments inuses : simpl never.
Arguments plen : simpl never.
Arguments switch_f : simpl never.
Arguments pop_f : simpl never.
Arguments mark_req : simpl never.

Lemma fam_ok_q x a d : fam_ok (with_q x a d) <-> fam_ok x.
Proof. destruct x; unfold fam_ok; cbn; tauto. Qed.

(* queue / request-table changes do not touch the ledger components *)
Lemma led_core_switch s f r : let s' := switch_f s f r in
  fam_ok (s_4 s') = fam_ok (s_4 s) /\ fam_ok (s_6 s') = fam_ok (s_6 s) /\ s_log s' = s_log s /\ s_fw s' = s_fw s /\ s_inh s' = s_inh s /\ s_now s' = s_now s.
Proof.
  unfold switch_f. destruct (memz r (f_alloc (fget s f))); [|cbn; tauto].
  destruct (prune (s_reqs s) (f_dang (fget s f))); destruct s as [st eni ty trunk x4 x6 inh fw dw reqs cap batch now held log], x4, x6, f; cbn; tauto.
Qed.
Lemma led_worker_exit s r : Led s -> Led (worker_exit s r).
Proof.
  intros HL. unfold worker_exit.
  pose proof (led_core_switch s F4 r) as H1. cbv zeta in H1.
  pose proof (led_core_switch (switch_f s F4 r) F6 r) as H2. cbv zeta in H2.
  set (s2 := switch_f (switch_f s F4 r) F6 r) in *.
  destruct H1 as (A1 & A2 & A3 & A4 & A5 & A6). destruct H2 as (B1 & B2 & B3 & B4 & B5 & B6).
  assert (HL2 : Led s2).
  { destruct HL as [L4 L6 Ll La Ln]. constructor; [rewrite B1, A1; exact L4 | rewrite B2, A2; exact L6 | rewrite B3, A3; exact Ll | rewrite B4, A4, B5, A5, B6, A6; exact La | rewrite B6, A6; exact Ln]. }
  clearbody s2. unfold mark_req. destruct (rfind r (s_reqs s2)); [|exact HL2]. destruct HL2 as [L4 L6 Ll La Ln]. destruct s2; constructor; assumption.
Qed.
Lemma led_pop s f k : Led s -> Led (pop_f s f k).
Proof.
  intros [L4 L6 Ll La Ln]. unfold pop_f.
  destruct ((k <? 0) || (len (f_alloc (fget s f)) <? k)); destruct s as [st eni ty trunk x4 x6 inh fw dw reqs cap batch now held log], x4, x6, f;
    constructor; cbn in *; assumption.
Qed.

Lemma led_commit s pod c4 c6 deliver k4 k6 : Led s -> Led (commit s pod c4 c6 deliver k4 k6).
Proof.
  intros [L4 L6 Ll La Ln]. unfold commit.
  destruct s as [st eni ty trunk x4 x6 inh fw dw reqs cap batch now held log]. cbn in *.
  pose proof (fam_ok_set_owner c4 pod x4 L4) as A4. pose proof (fam_ok_set_owner c6 pod x6 L6) as A6.
  pose proof (fam_ok_release c4 pod _ A4) as R4. pose proof (fam_ok_release c6 pod _ A6) as R6.
  pose proof (fam_ok_release c4 pod _ L4) as R4'. pose proof (fam_ok_release c6 pod _ L6) as R6'.
  destruct x4, x6. cbn in *.
  destruct (c4 =? 0), (c6 =? 0), deliver, k4, k6; cbn; constructor; cbn; assumption.
Qed.

Ltac open_slot s :=
  let x4 := fresh "x4" in let x6 := fresh "x6" in
  destruct s as [st eni ty trunk x4 x6 inh fw dw reqs cap batch now held log];
  destruct x4 as [on4 set4 al4 dg4 cl4 gone4 un4]; destruct x6 as [on6 set6 al6 dg6 cl6 gone6 un6].
Ltac break_step H :=
  open_heads H;
  repeat match type of H with
  | context [match ?x with _ => _ end] => let E := fresh "E" in destruct x eqn:E; try discriminate H
  end.
Ltac split_andb := repeat match goal with H : _ && _ = true |- _ => apply andb_true_iff in H as [? ?] end.

Lemma any_in_use_false s ips : (forall a, In a ips -> owner_of s a = 0) -> any_in_use_of s ips = false.
Proof.
  intros H. unfold any_in_use_of. destruct (existsb _ ips) eqn:E; [|reflexivity]. apply existsb_exists in E as (a & Ha & Hb).
  specialize (H a Ha). unfold owner_of in H. destruct (find a s) as [e|]; [|discriminate]. unfold in_use in Hb. rewrite H in Hb. discriminate.
Qed.
Lemma any_prim_false s ips : (forall a e, In a ips -> find a s = Some e -> e_prim e = false) -> any_prim_of s ips = false.
Proof.
  intros H. unfold any_prim_of. destruct (existsb _ ips) eqn:E; [|reflexivity]. apply existsb_exists in E as (a & Ha & Hb).
  destruct (find a s) as [e|] eqn:F; [|discriminate]. rewrite (H a e Ha F) in Hb. discriminate.
Qed.

Theorem led_step s l s' : Inv s -> Led s -> cloud_ok l -> step s l = Some s' -> Led s'.
Proof.
  intros HI HL Hc Hs. destruct l; cbn [step] in Hs.
  - (* reject *) break_step Hs; inversion Hs; subst; try exact HL; clear Hs; destruct HL as [L4 L6 Ll La Ln]; open_slot s; constructor; cbn in *; assumption.
  - (* direct *) break_step Hs; inversion Hs; subst; clear Hs; destruct HL as [L4 L6 Ll La Ln];
      pose proof (fam_ok_set_owner c4 pod _ L4) as A4; pose proof (fam_ok_set_owner c6 pod _ L6) as A6;
      open_slot s; cbn in *; constructor; cbn; assumption.
  - (* enqueue *) break_step Hs; inversion Hs; subst; clear Hs; destruct HL as [L4 L6 Ll La Ln];
      open_slot s; cbn in *; constructor; cbn; assumption.
  - (* commit *) break_step Hs; inversion Hs; subst; clear Hs;
      pose proof (led_commit s (r_pod r0) (r_d4 r0) (r_d6 r0) deliver (r_k4 r0) (r_k6 r0) HL) as H;
      unfold mark_req; (destruct (rfind r (s_reqs (commit _ _ _ _ _ _ _))); [|exact H]); destruct H as [L4 L6 Ll La Ln]; destruct (commit _ _ _ _ _ _ _); constructor; assumption.
  - (* worker take *) break_step Hs; inversion Hs; subst; clear Hs; apply led_worker_exit, led_commit, HL.
  - break_step Hs; inversion Hs; subst; apply led_worker_exit, HL.
  - break_step Hs; inversion Hs; subst; apply led_worker_exit, HL.
  - (* cancel *) break_step Hs; inversion Hs; subst; clear Hs; unfold mark_req; rewrite E; destruct HL as [L4 L6 Ll La Ln]; destruct s; constructor; assumption.
  - (* arm *) break_step Hs. inversion Hs; subst; clear Hs. destruct HL as [L4 L6 Ll La Ln]. open_slot s. constructor; cbn in *; try assumption.
    intros t _. unfold fw_guard in E0. cbn in E0. split_andb. apply Z.leb_le. assumption.
  - break_step Hs. inversion Hs; subst; clear Hs. destruct HL as [L4 L6 Ll La Ln]. open_slot s. constructor; cbn in *; try assumption. intros t0 Hx; discriminate.
  - break_step Hs. inversion Hs; subst; clear Hs. destruct HL as [L4 L6 Ll La Ln]. open_slot s. constructor; cbn in *; try assumption. intros t0 Hx; discriminate.
  - (* loop head without arming *) break_step Hs. inversion Hs; subst; clear Hs. destruct HL as [L4 L6 Ll La Ln]. open_slot s. constructor; cbn in *; try assumption. intros t0 Hx; subst; discriminate.
  - (* create begin *) break_step Hs. inversion Hs; subst; clear Hs. destruct HL as [L4 L6 Ll La Ln]. open_slot s. constructor; cbn in *; try assumption.
    + constructor; [exact I | exact Ll].
    + intros t0 Hx; discriminate.
  - (* create end *)
    destruct (s_fw s) eqn:Ef; try discriminate. destruct ok.
    + match type of Hs with (if ?c then _ else _) = _ => destruct c eqn:Eg; [|discriminate] end. inversion Hs; subst; clear Hs.
      pose proof (led_pop _ F6 n6 (led_pop _ F4 n4 (ltac:(destruct HL as [L4 L6 Ll La Ln]; destruct s; constructor; assumption) : Led (with_eni s eni trunk)))) as HP.
      set (S := pop_f (pop_f (with_eni s eni trunk) F4 n4) F6 n6) in *. clearbody S. destruct HP as [L4 L6 Ll La Ln].
      cbn in Hc. apply Z.eqb_neq in Hc.
      pose proof (fam_ok_assigned Valid prim v4 _ L4) as A4. pose proof (fam_ok_assigned Valid 0 v6 _ L6) as A6.
      destruct S as [st eni0 ty trunk0 x4 x6 inh fw dw reqs cap batch now held log], x4, x6. cbn in *. rewrite Hc. cbn.
      constructor; cbn; try assumption. intros t Hx; discriminate.
    + inversion Hs; subst; clear Hs. destruct HL as [L4 L6 Ll La Ln]. unfold inhibit.
      destruct s as [st eni0 ty trunk0 x4 x6 inh fw dw reqs cap batch now held log]. cbn in *.
      destruct (code =? 1); [|destruct (code =? 2)]; cbn; constructor; cbn; try assumption; intros t Hx; discriminate.
  - (* assign begin *) break_step Hs; inversion Hs; subst; clear Hs; destruct HL as [L4 L6 Ll La Ln]; open_slot s; constructor; cbn in *; try assumption;
      try (constructor; [exact I | exact Ll]); intros t0 Hx; discriminate.
  - (* assign end *)
    assert (K : forall n next, (forall t, next <> FwArmed t) ->
        (if fresh_ips ips (f_set (fget s f)) && (len ips <=? n)
         then (if ok
               then Some (with_fw (fset (map_set (pop_f s f (len ips)) f (put_fresh Valid 0 ips)) f
                            (ghost_assigned (fget (map_set (pop_f s f (len ips)) f (put_fresh Valid 0 ips)) f) ips)) next)
               else Some (with_fw (inhibit (fset (map_set s f (put_fresh Deleting 0 ips)) f
                            (ghost_assigned (fget (map_set s f (put_fresh Deleting 0 ips)) f) ips)) code) FwIdle))
         else None) = Some s' -> Led s').
    { intros n next Hnext Hq. destruct (fresh_ips ips (f_set (fget s f)) && (len ips <=? n)); [|discriminate]. destruct ok; inversion Hq; subst; clear Hq.
      - pose proof (led_pop s f (len ips) HL) as HP. set (S := pop_f s f (len ips)) in *. clearbody S. destruct HP as [L4 L6 Ll La Ln].
        pose proof (fam_ok_assigned Valid 0 ips _ L4) as A4. pose proof (fam_ok_assigned Valid 0 ips _ L6) as A6.
        destruct S as [st eni ty trunk x4 x6 inh fw dw reqs cap batch now held log], x4, x6, f; cbn in *; constructor; cbn; try assumption;
          intros t Hx; exfalso; exact (Hnext t Hx).
      - destruct HL as [L4 L6 Ll La Ln].
        pose proof (fam_ok_assigned Deleting 0 ips _ L4) as A4. pose proof (fam_ok_assigned Deleting 0 ips _ L6) as A6. unfold inhibit.
        destruct s as [st eni ty trunk x4 x6 inh fw dw reqs cap batch now held log], x4, x6, f; cbn in *;
          (destruct (code =? 1); [|destruct (code =? 2)]); cbn; constructor; cbn; try assumption; intros t Hx; discriminate. }
    destruct (s_fw s) eqn:Ef; destruct f; try discriminate Hs.
    all: try (destruct started; try discriminate Hs).
    all: eapply K; [|exact Hs]; intros t; try destruct (0 <? n6); discriminate.
  - (* dispose *) break_step Hs; inversion Hs; subst; clear Hs; destruct HL as [L4 L6 Ll La Ln].
    + open_slot s. constructor; cbn in *; assumption.
    + pose proof (fam_ok_dispose m4 _ L4) as A4. pose proof (fam_ok_dispose m6 _ L6) as A6.
      open_slot s. constructor; cbn in *; assumption.
  - (* unassign begin *)
    assert (Hb : subsetz ips (deleting_keys (f_set (fget s f))) = true /\
                 s' = log_call (with_dw (fset s f (with_ghost (fget s f) (f_cl (fget s f)) (f_gone (fget s f)) (ips ++ f_unreq (fget s f)))) (DwUn f ips))
                               (CUnassign f ips (any_in_use_of (f_set (fget s f)) ips) (any_prim_of (f_set (fget s f)) ips))).
    { cbv zeta in Hs. break_step Hs; inversion Hs; subst; split_andb; split; try reflexivity; assumption. }
    destruct Hb as [Hsub ->]. clear Hs.
    assert (Hd : forall a, In a ips -> exists e, find a (f_set (fget s f)) = Some e /\ e_st e = Deleting).
    { intros a Ha. apply deleting_keys_spec; [destruct f; [exact (i_nd _ _ _ _ _ _ _ _ HI F4) | exact (i_nd _ _ _ _ _ _ _ _ HI F6)] | exact (subsetz_In _ _ _ Hsub Ha)]. }
    assert (Hok : set_ok (f_set (fget s f))) by (destruct f; [exact (i_set _ _ _ _ _ _ _ _ HI F4) | exact (i_set _ _ _ _ _ _ _ _ HI F6)]).
    assert (Hcall : call_ok (CUnassign f ips (any_in_use_of (f_set (fget s f)) ips) (any_prim_of (f_set (fget s f)) ips))).
    { cbn. split.
      - apply any_in_use_false. intros a Ha. destruct (Hd a Ha) as (e & F & Hs0). unfold owner_of. rewrite F. exact (proj1 (Hok a e F Hs0)).
      - apply any_prim_false. intros a e Ha F. destruct (Hd a Ha) as (e1 & F1 & Hs1). rewrite F in F1. inversion F1; subst. exact (proj2 (Hok a e1 F Hs1)). }
    assert (Hfam : fam_ok (fget s f) -> fam_ok (with_ghost (fget s f) (f_cl (fget s f)) (f_gone (fget s f)) (ips ++ f_unreq (fget s f)))).
    { unfold fam_ok. destruct (fget s f) as [on set al dg cl gone un] eqn:Ex. cbn in *. intros [HG HC]. split; [|exact HC].
      intros a e Fa Hv. destruct (HG a e Fa Hv) as [A B]. split; [exact A|]. intros Hx. apply in_app_iff in Hx as [Hx|Hx]; [|exact (B Hx)].
      destruct (Hd a Hx) as (e1 & F1 & Hs1). rewrite Fa in F1. inversion F1; subst. congruence. }
    destruct HL as [L4 L6 Ll La Ln].
    destruct s as [st eni ty trunk x4 x6 inh fw dw reqs cap batch now held log], f; cbn in *;
      constructor; cbn; try assumption; try (apply Hfam; assumption); try (constructor; assumption).
  - (* unassign end *)
    destruct (s_dw s) eqn:Ed; try discriminate.
    match type of Hs with (if ?c then _ else _) = _ => destruct c eqn:Ec; [|discriminate] end. inversion Hs; subst; clear Hs.
    destruct HL as [L4 L6 Ll La Ln].
    pose proof (fam_ok_unassigned ok effect ips _ L4) as A4. pose proof (fam_ok_unassigned ok effect ips _ L6) as A6.
    destruct s as [st eni ty trunk x4 x6 inh fw dw reqs cap batch now held log], f, f0; try discriminate; cbn in *; constructor; cbn; assumption.
  - (* delete begin *)
    assert (Hb : can_dispose s = true /\ s_eni s <> 0 /\
                 s' = log_call (with_dw s DwDelete)
                        (CDelete match inuses (f_set (s_4 s)) with [] => match inuses (f_set (s_6 s)) with [] => false | _ :: _ => true end | _ :: _ => true end
                                 (plen s F4 + plen s F6) (s_ty s) (s_trunk s))).
    { destruct (s_dw s); try discriminate; destruct (s_st s); try discriminate;
        (match type of Hs with (if ?c then _ else _) = _ => destruct c eqn:Eg; [|discriminate] end); inversion Hs; subst;
        apply andb_true_iff in Eg as [Ee Hcd]; (split; [exact Hcd|]); (split; [|reflexivity]);
        destruct (s_eni s =? 0) eqn:E0; try discriminate; apply Z.eqb_neq, E0. }
    destruct Hb as (Hcd & Hne & ->). clear Hs. unfold can_dispose in Hcd.
    destruct (s_eni s =? 0) eqn:E0; [apply Z.eqb_eq in E0; contradiction|].
    destruct ((s_ty s =? 1) || (s_ty s =? 2) || s_trunk s) eqn:Et; [discriminate|].
    apply orb_false_iff in Et as [Et Etr]. apply orb_false_iff in Et as [Et1 Et2]. apply Z.eqb_neq in Et1, Et2.
    destruct (inuses (f_set (s_4 s))) eqn:E4; [|discriminate]. destruct (inuses (f_set (s_6 s))) eqn:E6; [|discriminate].
    apply andb_true_iff in Hcd as [P4 P6]. apply Z.eqb_eq in P4, P6.
    destruct HL as [L4 L6 Ll La Ln].
    destruct s as [st eni ty trunk x4 x6 inh fw dw reqs cap batch now held log]; cbn in *; constructor; cbn; try assumption.
    constructor; [|exact Ll]. cbn. rewrite P4, P6. repeat split; try assumption; reflexivity.
  - (* delete end *)
    destruct (s_dw s); try discriminate. destruct HL as [L4 L6 Ll La Ln]. destruct ok; inversion Hs; subst; clear Hs.
    + open_slot s. constructor; cbn in *; try assumption.
      * unfold fam_ok, G, Cl; cbn; split; [intros a e Hx; discriminate | intros a []].
      * unfold fam_ok, G, Cl; cbn; split; [intros a e Hx; discriminate | intros a []].
      * intros t0 Hx. exact Ln.
    + destruct effect; open_slot s; constructor; cbn in *; try assumption;
        unfold fam_ok, Cl in *; cbn in *; (split; [tauto | intros a []]).
  - (* metasync *) break_step Hs; inversion Hs; subst; clear Hs; [|exact HL]. destruct HL as [L4 L6 Ll La Ln].
    pose proof (fam_ok_sync r4 _ L4) as A4. pose proof (fam_ok_sync r6 _ L6) as A6.
    open_slot s. constructor; cbn in *; assumption.
  - (* release *) destruct (negb (s_eni s =? 0) && (s_eni s =? eni)); [|discriminate]. destruct (unfinished_for s pod); [discriminate|]. inversion Hs; subst; clear Hs. destruct HL as [L4 L6 Ll La Ln].
    pose proof (fam_ok_release a4 pod _ L4) as A4. pose proof (fam_ok_release a6 pod _ L6) as A6.
    destruct s as [st eni0 ty trunk x4 x6 inh fw dw reqs cap batch now held log], x4, x6. cbn in *. destruct (a4 =? 0), (a6 =? 0); cbn; constructor; cbn; assumption.
  - (* remote remove *) inversion Hs; subst; clear Hs. destruct HL as [L4 L6 Ll La Ln].
    open_slot s. destruct f; constructor; cbn in *; try assumption; unfold fam_ok, Cl in *; cbn in *;
      (split; [tauto|]); intros b Hb; apply In_remz in Hb; [apply (proj2 L4) | apply (proj2 L6)]; tauto.
  - (* tick *) break_step Hs. inversion Hs; subst; clear Hs. destruct HL as [L4 L6 Ll La Ln]. apply Z.leb_le in E.
    open_slot s. constructor; cbn in *; try assumption; [intros t Hx; specialize (La t Hx); lia | lia].
Qed.

Lemma led_init ty on4 on6 cap batch : Led (init_slot ty on4 on6 cap batch).
Proof.
  constructor; cbn; try (unfold fam_ok, G, Cl; cbn; split; [intros a e Hx; discriminate | intros a []]); try constructor.
  - intros t Hx; discriminate.
  - lia.
Qed.

Fixpoint run_cloud (ls : list label) : Prop := match ls with [] => True | l :: r => cloud_ok l /\ run_cloud r end.

Theorem inv_led_run ls : forall s s', Inv s -> Led s -> run_env s ls -> run_cloud ls -> run s ls = Some s' -> Inv s' /\ Led s'.
Proof.
  induction ls as [|l r IH]; intros s s' HI HL He Hc Hr; cbn [run run_env run_cloud] in *; [inversion Hr; subst; split; assumption|].
  destruct He as [He1 He2]. destruct Hc as [Hc1 Hc2]. destruct (step s l) as [s1|] eqn:Es; [|discriminate].
  exact (IH s1 s' (inv_step s l s1 HI He1 Es) (led_step s l s1 HI HL Hc1 Es) He2 Hc2 Hr).
Qed.

(* ---- statements cited by the property files -------------------------------------------------- *)

(* C01: an address delivered to a pod and not released is owned by that pod; hence by one pod *)
Lemma held_exclusive s : Inv s -> forall p q f a, In (p, f, a) (s_held s) -> In (q, f, a) (s_held s) -> p = q.
Proof.
  intros HI p q f a Hp Hq. destruct (i_held _ _ _ _ _ _ _ _ HI p f a Hp) as (_ & _ & A). destruct (i_held _ _ _ _ _ _ _ _ HI q f a Hq) as (_ & _ & B). congruence.
Qed.

(* C01: what a request is handed: the pod's own entry if it owns one, otherwise a Valid idle entry,
   which the ledger says is neither reported gone by a sync nor in an unassign call *)
Definition handed (s : slot) (f : fid) (pod c : Z) : Prop :=
  c <> 0 -> exists e, find c (f_set (fget s f)) = Some e /\
    ((pod <> 0 /\ e_owner e = pod) \/
     (e_owner e = 0 /\ e_st e = Valid /\ ~ In c (f_gone (fget s f)) /\ ~ In c (f_unreq (fget s f)) /\ (has_owned pod (f_set (fget s f)) = false))).
Lemma peek_handed s f pod c : Led s -> peek_ok (f_set (fget s f)) pod c = true -> handed s f pod c.
Proof.
  intros HL Hp Hc. unfold peek_ok in Hp. destruct (c =? 0) eqn:E; [apply Z.eqb_eq in E; contradiction|].
  destruct (find c (f_set (fget s f))) as [e|] eqn:F; [|discriminate]. exists e. split; [reflexivity|].
  destruct (has_owned pod (f_set (fget s f))) eqn:Eo.
  - left. unfold has_owned in Eo. apply andb_true_iff in Eo as [Hp0 _]. unfold owned_by in Hp. apply Z.eqb_eq in Hp.
    split; [intros ->; discriminate | exact Hp].
  - right. unfold allocatable in Hp. apply andb_true_iff in Hp as [H1 H2]. apply ipst_eqb_eq in H1. apply Z.eqb_eq in H2.
    assert (HG : G (f_set (fget s f)) (f_gone (fget s f)) (f_unreq (fget s f))) by (destruct HL as [[G4 _] [G6 _] _ _ _]; destruct f; assumption).
    destruct (HG c e F H1) as [A B]. repeat split; assumption.
Qed.
Theorem take_handed s r c4 c6 deliver s' q : Led s -> step s (LWorkerTake r c4 c6 deliver) = Some s' -> rfind r (s_reqs s) = Some q ->
  handed s F4 (r_pod q) c4 /\ handed s F6 (r_pod q) c6.
Proof.
  intros HL Hs F. cbn [step] in Hs. rewrite F in Hs.
  match type of Hs with (if ?c then _ else _) = _ => destruct c eqn:Eg; [|discriminate] end.
  apply andb_true_iff in Eg as [Eg Ok6]. apply andb_true_iff in Eg as [_ Ok4].
  split; intros Hc.
  - destruct (f_on (s_4 s)); [apply andb_true_iff in Ok4 as [_ B]; exact (peek_handed s F4 _ _ HL B Hc) | apply Z.eqb_eq in Ok4; contradiction].
  - destruct (f_on (s_6 s)); [apply andb_true_iff in Ok6 as [_ B]; exact (peek_handed s F6 _ _ HL B Hc) | apply Z.eqb_eq in Ok6; contradiction].
Qed.
Theorem direct_handed s r pod pin erdma c4 c6 s' : Led s -> step s (LAllocDirect r pod pin erdma c4 c6) = Some s' ->
  handed s F4 pod c4 /\ handed s F6 pod c6.
Proof.
  intros HL Hs. cbn [step] in Hs. destruct (alloc_kind s pod false pin erdma); try discriminate. destruct (rfind r (s_reqs s)); [discriminate|].
  destruct (unfinished_for s pod || (pod =? 0)); [discriminate|].
  match type of Hs with (if ?c then _ else _) = _ => destruct c eqn:Eg; [|discriminate] end. apply andb_true_iff in Eg as [Ok4 Ok6].
  split; intros Hc.
  - destruct (f_on (s_4 s)); [apply andb_true_iff in Ok4 as [_ B]; exact (peek_handed s F4 _ _ HL B Hc) | apply Z.eqb_eq in Ok4; contradiction].
  - destruct (f_on (s_6 s)); [apply andb_true_iff in Ok6 as [_ B]; exact (peek_handed s F6 _ _ HL B Hc) | apply Z.eqb_eq in Ok6; contradiction].
Qed.

(* C06 / C07: every cloud call in the log was legitimate when it was made; nothing the cloud
   assigned is untracked *)
Lemma log_calls_ok s : Led s -> Forall call_ok (s_log s).
Proof. intros [_ _ H _ _]. exact H. Qed.
Lemma no_orphan s : Led s -> forall f a, In a (f_cl (fget s f)) -> In a (keys (f_set (fget s f))).
Proof. intros [[_ C4] [_ C6] _ _ _] [] a Ha; [apply C4, Ha | apply C6, Ha]. Qed.

(* C07: create / assign calls start only with the back-off deadline in the past; a request that
   needs a new address is refused while it lies ahead *)
Lemma begin_after_backoff s l s' : Led s -> step s l = Some s' ->
  match l with LCreateBegin _ _ | LAssignBegin F4 _ => s_inh s <= s_now s | _ => True end.
Proof.
  intros HL Hs. destruct l; try exact I; [|destruct f; [|exact I]]; cbn [step] in Hs;
    (destruct (s_fw s) eqn:Ef; try discriminate Hs; try (destruct started; discriminate Hs); match goal with Hf : s_fw s = FwArmed ?t |- _ => exact (l_arm s HL t Hf) end).
Qed.
Lemma enqueue_needs_no_backoff s pod nc pin erdma e4 e6 : alloc_kind s pod nc pin erdma = KEnqueue e4 e6 -> s_inh s <= s_now s.
Proof.
  unfold alloc_kind. destruct (negb (Bool.eqb erdma (s_ty s =? 2))); [discriminate|]. destruct (s_st s); try discriminate;
    (destruct (negb (pin =? 0) && negb (s_eni s =? 0) && negb (s_eni s =? pin)); [discriminate|]);
    (destruct (fam_res s F4 pod nc); try discriminate; destruct (fam_res s F6 pod nc); try discriminate;
     cbn [is_expect orb andb]; try discriminate;
     (destruct (s_now s <? s_inh s) eqn:E; [discriminate | intros _; apply Z.ltb_ge in E; exact E])).
Qed.

(* C07: after a truthful sync, what is tracked as valid is what the cloud has *)
Lemma sync_agrees s r4 r6 s' : step s (LMetaSync true r4 r6) = Some s' ->
  (forall a, In a r4 -> In a (f_cl (s_4 s))) -> (forall a, In a r6 -> In a (f_cl (s_6 s))) ->
  (forall a e, find a (f_set (s_4 s')) = Some e -> e_st e = Valid -> In a (f_cl (s_4 s'))) /\
  (forall a e, find a (f_set (s_6 s')) = Some e -> e_st e = Valid -> In a (f_cl (s_6 s'))).
Proof.
  intros Hs H4 H6. cbn [step] in Hs. destruct (negb (s_eni s =? 0) && match s_st s with SInUse => true | _ => false end); [|discriminate].
  inversion Hs; subst; clear Hs. destruct s as [st eni ty trunk x4 x6 inh fw dw reqs cap batch now held log], x4, x6. cbn in *.
  split; intros a e; rewrite find_sync_set; (destruct (find a _) as [e0|]; [|discriminate]); cbn [option_map];
    (destruct (ipst_eqb (e_st e0) Valid && negb (memz a _)) eqn:Ec; intros F Hv; inversion F; subst; [discriminate|]);
    apply ipst_eqb_eq in Hv; rewrite Hv in Ec; cbn [andb] in Ec; apply negb_false_iff, memz_In in Ec; [apply H4 | apply H6]; exact Ec.
Qed.

