(* C16Model.v — idempotency tokens: pkg/aliyun/client/token.go (SimpleIdempotentKeyGenerator
   over an LRU of capacity cap) and the request builders of options.go (what is hashed,
   with tags sorted by key as repaired by the fix: commit).
   The MD5 of the JSON request is modelled as an injective function of the canonical
   request (hypothesis E7), so the hash key IS the canonical encoding.  Definitions only. *)
From Coq Require Import ZArith List Bool.
From TV Require Import Codec.
Import ListNotations.
Local Open Scope Z_scope.

Definition token := Z.
Definition hkey := list Z.
Definition stacks := list (hkey * list token).   (* LRU order: most recently used first *)

Fixpoint lookup (k : hkey) (s : stacks) : option (list token) :=
  match s with
  | [] => None
  | (k', v) :: r => if list_eqb k k' then Some v else lookup k r
  end.
Fixpoint remove (k : hkey) (s : stacks) : stacks :=
  match s with
  | [] => []
  | (k', v) :: r => if list_eqb k k' then remove k r else (k', v) :: remove k r
  end.
(* lru.Add: (re)insert at the front, evict the least recently used beyond cap *)
Definition add (cap : nat) (k : hkey) (v : list token) (s : stacks) : stacks :=
  firstn cap ((k, v) :: remove k s).
(* lru.Get refreshes recency *)
Definition touch (k : hkey) (s : stacks) : stacks :=
  match lookup k s with Some v => (k, v) :: remove k s | None => s end.

Record gen := { store : stacks; next : token }.

Definition generate (cap : nat) (g : gen) (k : hkey) : token * gen :=
  match lookup k (store g) with
  | Some (u :: us) =>
      let l := u :: us in
      let t := last l 0 in
      let l' := removelast l in
      (t, {| store := match l' with [] => remove k (store g) | _ => add cap k l' (store g) end;
             next := next g |})
  | Some [] => (next g, {| store := touch k (store g); next := next g + 1 |})
  | None => (next g, {| store := store g; next := next g + 1 |})
  end.

Definition putback (cap : nat) (g : gen) (k : hkey) (t : token) : gen :=
  {| store := add cap k (match lookup k (store g) with Some us => us ++ [t] | None => [t] end) (store g);
     next := next g |}.

(* ---- histories ------------------------------------------------------------ *)
Inductive op :=
| Issue (rid : Z) (k : option hkey)      (* None: the builder rejected the parameters *)
| Rollback (rid : Z)
| Success (rid : Z).

Definition inflight := list (Z * (hkey * token)).

Fixpoint find_rid (rid : Z) (l : inflight) : option (hkey * token) :=
  match l with
  | [] => None
  | (r, kt) :: l' => if r =? rid then Some kt else find_rid rid l'
  end.
Fixpoint drop_rid (rid : Z) (l : inflight) : inflight :=
  match l with
  | [] => []
  | (r, kt) :: l' => if r =? rid then l' else (r, kt) :: drop_rid rid l'
  end.

Definition mstate := (gen * inflight)%type.

(* one operation of the implementation model; output: Some token for an accepted Issue,
   Some (-1) for a rejected one, None otherwise *)
Definition mstep (cap : nat) (s : mstate) (o : op) : mstate * option token :=
  let '(g, infl) := s in
  match o with
  | Issue rid (Some k) =>
      let '(t, g') := generate cap g k in ((g', (rid, (k, t)) :: infl), Some t)
  | Issue rid None => (s, Some (-1))
  | Rollback rid =>
      match find_rid rid infl with
      | Some (k, t) => ((putback cap g k t, drop_rid rid infl), None)
      | None => (s, None)
      end
  | Success rid => ((g, drop_rid rid infl), None)
  end.

Fixpoint mrun (cap : nat) (s : mstate) (ops : list op) : list token :=
  match ops with
  | [] => []
  | o :: r => let '(s', out) := mstep cap s o in
              match out with Some t => t :: mrun cap s' r | None => mrun cap s' r end
  end.

Definition minit : mstate := ({| store := []; next := 0 |}, []).

(* ---- the property as a checker over (history, tokens observed) ------------ *)
(* avail k: tokens of rolled-back requests with hash key k not yet reused *)
Record cstate := { avail : hkey -> list token; seen : list token; cinfl : inflight }.

Fixpoint remove_first (t : token) (l : list token) : list token :=
  match l with
  | [] => []
  | x :: r => if x =? t then r else x :: remove_first t r
  end.
Definition remove_last_occ (t : token) (l : list token) : list token := rev (remove_first t (rev l)).
Definition memb (t : token) (l : list token) : bool := existsb (fun x => x =? t) l.
Definition upd (f : hkey -> list token) (k : hkey) (v : list token) : hkey -> list token :=
  fun k' => if list_eqb k' k then v else f k'.

Definition cinit : cstate := {| avail := fun _ => []; seen := []; cinfl := [] |}.

(* returns None when the observed token violates the property *)
Definition cstep (c : cstate) (o : op) (t : token) : option cstate :=
  match o with
  | Issue rid (Some k) =>
      let infl_tokens := map (fun x => snd (snd x)) (cinfl c) in
      if memb t infl_tokens then None                       (* two requests in flight share a token *)
      else match avail c k with
           | [] => if memb t (seen c) then None               (* not a retry: must be a fresh token *)
                   else Some {| avail := avail c; seen := t :: seen c; cinfl := (rid, (k, t)) :: cinfl c |}
           | _ :: _ => if memb t (avail c k)                  (* retry of failed identical request: reuse *)
                       then Some {| avail := upd (avail c) k (remove_last_occ t (avail c k));
                                    seen := seen c; cinfl := (rid, (k, t)) :: cinfl c |}
                       else None
           end
  | Issue rid None => if t =? -1 then Some c else None
  | _ => Some c
  end.

Definition cquiet (c : cstate) (o : op) : cstate :=
  match o with
  | Rollback rid =>
      match find_rid rid (cinfl c) with
      | Some (k, t) => {| avail := upd (avail c) k (avail c k ++ [t]); seen := seen c; cinfl := drop_rid rid (cinfl c) |}
      | None => c
      end
  | Success rid => {| avail := avail c; seen := seen c; cinfl := drop_rid rid (cinfl c) |}
  | _ => c
  end.

Fixpoint crun (c : cstate) (ops : list op) (outs : list token) : bool :=
  match ops with
  | [] => match outs with [] => true | _ => false end
  | (Issue _ _ as o) :: r =>
      match outs with
      | t :: outs' => match cstep c o t with Some c' => crun c' r outs' | None => false end
      | [] => false
      end
  | o :: r => crun (cquiet c o) r outs
  end.

(* ---- what is hashed -------------------------------------------------------- *)
Fixpoint lex_ltb (a b : list Z) : bool :=
  match a, b with
  | [], [] => false
  | [], _ :: _ => true
  | _ :: _, [] => false
  | x :: a', y :: b' => if x <? y then true else if y <? x then false else lex_ltb a' b'
  end.

Definition tag := (list Z * list Z)%type.
Fixpoint insert_tag (t : tag) (l : list tag) : list tag :=
  match l with
  | [] => [t]
  | h :: r => if lex_ltb (fst h) (fst t) then h :: insert_tag t r else t :: l
  end.
Definition sort_tags (l : list tag) : list tag := fold_right insert_tag [] l.

Record params := {
  vsw : list Z; trunk : bool; erdma : bool; sgs : list (list Z); rg : list Z;
  ipcount : Z; ipv6count : Z; del_on_release : Z; src_dst : Z; tags : list tag;
  instance_id : list Z; zone_id : list Z; eni_id : list Z }.

Definition is_empty (l : list Z) : bool := match l with [] => true | _ => false end.
Definition enc_tags (l : list tag) : list Z :=
  Z.of_nat (length l) :: flat_map (fun t => enc_list (fst t) ++ enc_list (snd t)) l.

(* builder: 0 create/ECS, 1 create/EFLO, 2 assign-v4/ECS, 3 assign-v4/EFLO, 4 assign-v6/ECS *)
Definition request_key (builder : Z) (p : params) : option hkey :=
  if builder =? 0 then
    if is_empty (vsw p) || (match sgs p with [] => true | _ => false end) then None
    else Some ([0] ++ enc_list (vsw p) ++ [enc_bool (trunk p); enc_bool (erdma p)]
               ++ Z.of_nat (length (sgs p)) :: flat_map enc_list (sgs p) ++ enc_list (rg p)
               ++ [if 1 <? ipcount p then ipcount p - 1 else -1;
                   if 0 <? ipv6count p then ipv6count p else -1;
                   del_on_release p; src_dst p]
               ++ enc_tags (sort_tags (tags p)))
  else if builder =? 1 then
    if (1 <? ipcount p) || is_empty (vsw p) || is_empty (hd [] (sgs p)) then None
    else Some ([1] ++ enc_list (vsw p) ++ enc_list (hd [] (sgs p)) ++ enc_list (instance_id p) ++ enc_list (zone_id p))
  else if builder =? 2 then
    if is_empty (eni_id p) || (ipcount p <=? 0) then None
    else Some ([2] ++ enc_list (eni_id p) ++ [ipcount p])
  else if builder =? 3 then
    if is_empty (eni_id p) || negb (ipcount p =? 1) then None
    else Some ([3] ++ enc_list (eni_id p))
  else if builder =? 4 then
    if is_empty (eni_id p) || (ipv6count p <=? 0) then None
    else Some ([4] ++ enc_list (eni_id p) ++ [ipv6count p])
  else None.
