(* RtRun.v — case decoder for the teardown-report harness (harness/rtflush), the model run beside it, and the clauses of
   C03's third sentence judged on the implementation's own output. *)
From Coq Require Import ZArith List Bool.
From TV Require Import Codec.
From TV Require Import RtModel.
Import ListNotations.
Local Open Scope Z_scope.

Fixpoint dec_ops (n : nat) (l : list Z) : option (list op) :=
  match n with
  | O => Some []
  | S n' =>
      match l with
      | 1 :: u :: r => option_map (cons (ORelease u)) (dec_ops n' r)
      | 2 :: u :: r => option_map (cons (OAnswer u)) (dec_ops n' r)
      | 3 :: g :: s :: r => option_map (cons (OFlush (dec_bool g) (dec_bool s))) (dec_ops n' r)
      | 4 :: g :: s :: r => option_map (cons (OSync (dec_bool g) (dec_bool s))) (dec_ops n' r)
      | 5 :: u :: r => option_map (cons (OBind u)) (dec_ops n' r)
      | 6 :: u :: r => option_map (cons (OForget u)) (dec_ops n' r)
      | 7 :: r => option_map (cons OObjDeleting) (dec_ops n' r)
      | 8 :: r => option_map (cons OObjGone) (dec_ops n' r)
      | 9 :: k :: r => option_map (cons (OIfStatus k)) (dec_ops n' r)
      | _ => None
      end
  end.

Fixpoint insert_z (x : Z) (l : list Z) : list Z := match l with [] => [x] | y :: r => if x <? y then x :: l else y :: insert_z x r end.
Definition sort_z (l : list Z) : list Z := fold_right insert_z [] l.
Fixpoint insert_e (x : ent) (l : list ent) : list ent := match l with [] => [x] | y :: r => if e_uid x <? e_uid y then x :: l else y :: insert_e x r end.
Definition sort_ents (l : list ent) : list ent := fold_right insert_e [] l.
Definition proj (s : st) : list Z :=
  enc_list (sort_z (pend s)) ++
  match rt s with
  | None => [0; 0]
  | Some l => (if deleting s then 2 else 1) :: Z.of_nat (length l) :: flat_map (fun e => [e_uid e; enc_bool (e_ini e); enc_bool (e_del e)]) (sort_ents l)
  end.
Fixpoint run_obs (s : st) (os : list op) : list Z :=
  match os with [] => [] | o :: r => let s' := step s o in proj s' ++ run_obs s' r end.
Definition run_rt (l : list Z) : list Z :=
  match l with
  | n :: r => match dec_ops (Z.to_nat n) r with Some os => run_obs init os | None => bad end
  | [] => bad
  end.

(* ---- clauses on the implementation's output --------------------------------------------------------------------- *)
(* one observation: pending uids, object state, entries *)
Fixpoint dec_ents (n : nat) (l : list Z) : list (Z * bool * bool) * list Z :=
  match n, l with
  | S n', u :: i :: d :: r => let '(es, r') := dec_ents n' r in ((u, dec_bool i, dec_bool d) :: es, r')
  | _, _ => ([], l)
  end.
Definition dec_obs (l : list Z) : option (list Z * Z * list (Z * bool * bool) * list Z) :=
  match take_list l with
  | Some (p, stt :: n :: r) => let '(es, r') := dec_ents (Z.to_nat n) r in Some (p, stt, es, r')
  | _ => None
  end.
(* 361: `deleted` is reported only for a uid whose DEL was processed;
   362: a processed DEL is not forgotten: the uid stays recorded until an ADD for it is answered or its report is saved;
   363: a flush that could read and save the object (present, not being deleted) leaves nothing recorded and every recorded
        uid reported `deleted` *)
Fixpoint rt_why (fuel : nat) (os : list op) (o : list Z) (dels prev : list Z) (prevd ipam : list Z) : Z :=
  match fuel, os with
  | S f, op0 :: r =>
      match dec_obs o with
      | None => 360
      | Some (p, stt, es, rest) =>
          let dels' := match op0 with ORelease u => u :: dels | _ => dels end in
          let ipam' := match op0 with OBind u => u :: ipam | OForget u => remz u ipam | _ => ipam end in
          let reported u := existsb (fun e => match e with (u', _, d) => (u' =? u) && d end) es in
          if negb (forallb (fun e => match e with (u, _, d) => negb d || memz u dels' end) es) then 361
          else if negb (forallb (fun u => memz u p || match op0 with OAnswer u' => u =? u' | OFlush _ _ => reported u | _ => false end)
                                (match op0 with ORelease u => u :: prev | _ => prev end)) then 362
          else if match op0 with
                  | OFlush true true => (stt =? 1) && negb (match prev with [] => true | _ => false end)
                                        && negb ((match p with [] => true | _ => false end) && forallb reported prev)
                  | _ => false end then 363
          (* 364: the periodic clean-up keeps a `deleted` report for as long as the cluster IPAM names the uid *)
          else if match op0 with
                  | OSync _ _ => negb (forallb (fun u => negb (memz u ipam') || (stt =? 0) || reported u) prevd)
                  | _ => false end then 364
          else rt_why f r rest dels' p (map (fun e => match e with (u, _, _) => u end) (filter (fun e => match e with (_, _, d) => d end) es)) ipam'
      end
  | _, _ => 0
  end.
Definition why_rt (l o : list Z) : Z :=
  match l with
  | n :: r => match dec_ops (Z.to_nat n) r with Some os => rt_why (S (length os)) os o [] [] [] [] | None => 369 end
  | [] => 369
  end.
Definition chk_rt (l o : list Z) : bool := why_rt l o =? 0.
