(* DpProofs.v — proofs about the policy-route datapath model (DpModel.v). *)
From Coq Require Import ZArith List Bool Lia.
From TV Require Import Codec DpModel.
Import ListNotations.
Local Open Scope Z_scope.

(* ---------------------------------------------------------------------------------------------------------- *)
(* ensure_rule *)
Lemma same_sel_refl r : same_sel r r = true.
Proof. unfold same_sel. rewrite !Z.eqb_refl. reflexivity. Qed.

Lemma ensure_rule_in l r : exists x, In x (ensure_rule l r) /\ same_sel x r = true /\ hr_tbl x = hr_tbl r.
Proof.
  unfold ensure_rule.
  set (kept := filter (fun x => negb (same_sel x r) || (hr_tbl x =? hr_tbl r)) l).
  destruct (existsb (fun x => same_sel x r && (hr_tbl x =? hr_tbl r)) kept) eqn:E.
  - apply existsb_exists in E as (x & Hx & Hs). apply andb_true_iff in Hs as [Hs Ht]. apply Z.eqb_eq in Ht. exists x. auto.
  - exists r. split; [apply in_or_app; right; left; reflexivity|]. split; [apply same_sel_refl|reflexivity].
Qed.

Lemma ensure_rule_only l r x : In x (ensure_rule l r) -> same_sel x r = true -> hr_tbl x = hr_tbl r.
Proof.
  unfold ensure_rule.
  set (kept := filter (fun x => negb (same_sel x r) || (hr_tbl x =? hr_tbl r)) l).
  assert (K : In x kept -> same_sel x r = true -> hr_tbl x = hr_tbl r).
  { intros Hin Hs. apply filter_In in Hin as [_ H]. rewrite Hs in H. cbn in H. apply Z.eqb_eq. exact H. }
  destruct (existsb _ kept); intros Hin Hs; [apply K; assumption|].
  apply in_app_or in Hin as [Hin|[<-|[]]]; [apply K; assumption|reflexivity].
Qed.

Lemma ensure_rule_other l r x : same_sel x r = false -> (In x (ensure_rule l r) <-> In x l).
Proof.
  intro Hs. unfold ensure_rule.
  set (kept := filter (fun x => negb (same_sel x r) || (hr_tbl x =? hr_tbl r)) l).
  assert (K : In x kept <-> In x l).
  { unfold kept. rewrite filter_In. rewrite Hs. cbn. tauto. }
  destruct (existsb _ kept); [exact K|].
  split.
  - intro H. apply in_app_or in H as [H|[<-|[]]]; [apply K; exact H|]. rewrite same_sel_refl in Hs. discriminate.
  - intro H. apply in_or_app. left. apply K. exact H.
Qed.

(* ---------------------------------------------------------------------------------------------------------- *)
(* one family of a setup *)
Definition from_sel (f a : Z) (r : hrule) : bool := (hr_prio r =? 2048) && (hr_fam r =? f) && (hr_src r =? a).

Lemma first_table_all tabs f t x rs :
  (forall r, In r rs -> hr_tbl r = t) -> rs <> [] ->
  List.find (fun y => (fst (fst (fst y)) =? t) && (snd (fst (fst y)) =? f)) tabs = Some x ->
  first_table tabs f rs = (snd x, snd (fst x)).
Proof.
  intros Hall Hne Hf. destruct rs as [|r rs]; [contradiction|]. cbn [first_table].
  rewrite (Hall r (or_introl eq_refl)). rewrite Hf. reflexivity.
Qed.

Lemma find_app_new {A} (p : A -> bool) l x : (forall y, In y l -> p y = false) -> p x = true -> List.find p (l ++ [x]) = Some x.
Proof.
  intros H Hx. induction l as [|y l IH]; cbn; [rewrite Hx; reflexivity|].
  rewrite (H y (or_introl eq_refl)). apply IH. intros z Hz. apply H. right. exact Hz.
Qed.

Lemma filter_neg_none {A} (p : A -> bool) l y : In y (filter (fun x => negb (p x)) l) -> p y = false.
Proof. intro H. apply filter_In in H as [_ H]. apply negb_true_iff. exact H. Qed.

Lemma setup_fam_to s a j g h f : look_to (setup_fam s a j g h f) f a = 100 + s.
Proof.
  unfold look_to, setup_fam. cbn [h_rules h_mains].
  assert (F : List.find (fun x => (fst (fst x) =? f) && (snd (fst x) =? a))
                (filter (fun x => negb ((fst (fst x) =? f) && (snd (fst x) =? a))) (h_mains h) ++ [(f, a, 100 + s)]) = Some (f, a, 100 + s)).
  { apply find_app_new; [|cbn; rewrite !Z.eqb_refl; reflexivity]. intros y Hy. apply (filter_neg_none (fun x => (fst (fst x) =? f) && (snd (fst x) =? a)) _ y Hy). }
  rewrite F. destruct (existsb _ _); reflexivity.
Qed.

Lemma setup_fam_from s a j g h f : look_from (setup_fam s a j g h f) f a = (200 + j, gw_of j).
Proof.
  unfold look_from, setup_fam. cbn [h_rules h_tabs].
  set (t := j * 10 + g).
  set (rules := ensure_rule (ensure_rule (h_rules h) (mkHr 512 f 0 a 0)) (mkHr 2048 f a 0 t)).
  set (tabs := filter (fun x => negb ((fst (fst (fst x)) =? t) && (snd (fst (fst x)) =? f))) (h_tabs h) ++ [(t, f, gw_of j, 200 + j)]).
  assert (Ft : List.find (fun y => (fst (fst (fst y)) =? t) && (snd (fst (fst y)) =? f)) tabs = Some (t, f, gw_of j, 200 + j)).
  { apply find_app_new; [|cbn; rewrite !Z.eqb_refl; reflexivity]. intros y Hy.
    apply (filter_neg_none (fun x => (fst (fst (fst x)) =? t) && (snd (fst (fst x)) =? f)) _ y Hy). }
  rewrite (first_table_all tabs f t (t, f, gw_of j, 200 + j)); [reflexivity| | |exact Ft].
  - intros r Hr. apply filter_In in Hr as [Hin Hs]. unfold rules in Hin.
    apply (ensure_rule_only _ (mkHr 2048 f a 0 t) r Hin).
    apply andb_true_iff in Hs as [Hs H4]. apply andb_true_iff in Hs as [Hs H3]. apply andb_true_iff in Hs as [H1 H2].
    unfold same_sel. cbn. rewrite H1, H2, H3, H4. reflexivity.
  - destruct (ensure_rule_in (ensure_rule (h_rules h) (mkHr 512 f 0 a 0)) (mkHr 2048 f a 0 t)) as (x & Hx & Hs & _).
    intro E. assert (Hin : In x (filter (fun r => (hr_prio r =? 2048) && (hr_fam r =? f) && (hr_src r =? a) && (hr_dst r =? 0)) rules)).
    { apply filter_In. split; [exact Hx|]. unfold same_sel in Hs. cbn in Hs. exact Hs. }
    rewrite E in Hin. destruct Hin.
Qed.

(* the other family's half of a setup does not disturb this one *)
Lemma setup_fam_keeps_to s a j g h f f' : f <> f' -> look_to (setup_fam s a j g h f') f a = look_to h f a.
Proof.
  intro Hn. unfold look_to, setup_fam. cbn [h_rules h_mains].
  assert (F : forall l, List.find (fun x => (fst (fst x) =? f) && (snd (fst x) =? a))
                (filter (fun x => negb ((fst (fst x) =? f') && (snd (fst x) =? a))) l ++ [(f', a, 100 + s)])
              = List.find (fun x => (fst (fst x) =? f) && (snd (fst x) =? a)) l).
  { induction l as [|y l IH]; cbn.
    - assert (f' =? f = false) as -> by (apply Z.eqb_neq; congruence). reflexivity.
    - destruct ((fst (fst y) =? f') && (snd (fst y) =? a)) eqn:E; cbn.
      + apply andb_true_iff in E as [E1 _]. apply Z.eqb_eq in E1. rewrite E1.
        assert (f' =? f = false) as -> by (apply Z.eqb_neq; congruence). cbn. exact IH.
      + destruct ((fst (fst y) =? f) && (snd (fst y) =? a)); [reflexivity|exact IH]. }
  rewrite F. destruct (existsb _ _); destruct (existsb _ _); reflexivity.
Qed.

Lemma filter_ensure_other (p : hrule -> bool) l r :
  (forall x, p x = true -> same_sel x r = false) ->
  filter p (ensure_rule l r) = filter p l.
Proof.
  intro H. unfold ensure_rule.
  set (q := fun x => negb (same_sel x r) || (hr_tbl x =? hr_tbl r)).
  assert (K : filter p (filter q l) = filter p l).
  { induction l as [|y l IH]; [reflexivity|]. cbn. destruct (q y) eqn:Q; cbn.
    - destruct (p y); [f_equal|]; exact IH.
    - destruct (p y) eqn:P; [|exact IH]. unfold q in Q. rewrite (H y P) in Q. discriminate. }
  destruct (existsb _ (filter q l)); [exact K|].
  rewrite filter_app, K. cbn. destruct (p r) eqn:P; [|apply app_nil_r].
  specialize (H r P). rewrite same_sel_refl in H. discriminate.
Qed.

Lemma setup_fam_keeps_from s a j g h f f' : f <> f' -> look_from (setup_fam s a j g h f') f a = look_from h f a.
Proof.
  intro Hn. unfold look_from, setup_fam. cbn [h_rules h_tabs].
  set (p := fun r => (hr_prio r =? 2048) && (hr_fam r =? f) && (hr_src r =? a) && (hr_dst r =? 0)).
  assert (R : filter p (ensure_rule (ensure_rule (h_rules h) (mkHr 512 f' 0 a 0)) (mkHr 2048 f' a 0 (j * 10 + g))) = filter p (h_rules h)).
  { rewrite !filter_ensure_other; [reflexivity| |]; intros x Hx; unfold p in Hx;
      apply andb_true_iff in Hx as [Hx _]; apply andb_true_iff in Hx as [Hx _]; apply andb_true_iff in Hx as [H1 H2];
      apply Z.eqb_eq in H1, H2; unfold same_sel; cbn; rewrite H1, H2; cbn.
    - reflexivity.
    - assert (f =? f' = false) as -> by (apply Z.eqb_neq; exact Hn). reflexivity. }
  rewrite R.
  (* the tables: only entries of family f' change *)
  set (t := j * 10 + g).
  assert (T : forall rs, first_table (filter (fun x => negb ((fst (fst (fst x)) =? t) && (snd (fst (fst x)) =? f'))) (h_tabs h) ++ [(t, f', gw_of j, 200 + j)]) f rs
                       = first_table (h_tabs h) f rs).
  { induction rs as [|r rs IH]; [reflexivity|]. cbn [first_table].
    assert (F : forall l, List.find (fun x => (fst (fst (fst x)) =? hr_tbl r) && (snd (fst (fst x)) =? f))
                 (filter (fun x => negb ((fst (fst (fst x)) =? t) && (snd (fst (fst x)) =? f'))) l ++ [(t, f', gw_of j, 200 + j)])
               = List.find (fun x => (fst (fst (fst x)) =? hr_tbl r) && (snd (fst (fst x)) =? f)) l).
    { induction l as [|y l IHl]; cbn.
      - assert (f' =? f = false) as -> by (apply Z.eqb_neq; congruence). rewrite andb_false_r. reflexivity.
      - destruct ((fst (fst (fst y)) =? t) && (snd (fst (fst y)) =? f')) eqn:E; cbn.
        + apply andb_true_iff in E as [_ E2]. apply Z.eqb_eq in E2. rewrite E2.
          assert (f' =? f = false) as -> by (apply Z.eqb_neq; congruence). rewrite andb_false_r. exact IHl.
        + destruct ((fst (fst (fst y)) =? hr_tbl r) && (snd (fst (fst y)) =? f)); [reflexivity|exact IHl]. }
    rewrite F. destruct (List.find _ (h_tabs h)); [reflexivity|exact IH]. }
  apply T.
Qed.

(* ---------------------------------------------------------------------------------------------------------- *)
(* a setup: for every state of the host namespace (stale rules of an earlier holder of the address included), every
   slot, address, interface that is present and family combination *)
Theorem setup_lookups s a j fam h g f :
  eni_gen h j = Some g -> In f (famlist fam) -> (fam = 1 \/ fam = 2 \/ fam = 3) ->
  look_to (setup s a j fam h) f a = 100 + s /\ look_from (setup s a j fam h) f a = (200 + j, gw_of j).
Proof.
  intros Hg Hf Hfam. unfold setup. rewrite Hg.
  set (h2 := mkH _ _ _ _ _).
  destruct Hfam as [-> | [-> | ->]];
    [change (famlist 1) with [4] in * | change (famlist 2) with [6] in * | change (famlist 3) with [4; 6] in *]; cbn [fold_left].
  - destruct Hf as [<-|[]]. split; [apply setup_fam_to|apply setup_fam_from].
  - destruct Hf as [<-|[]]. split; [apply setup_fam_to|apply setup_fam_from].
  - destruct Hf as [<-|[<-|[]]].
    + split.
      * rewrite setup_fam_keeps_to by discriminate. apply setup_fam_to.
      * rewrite setup_fam_keeps_from by discriminate. apply setup_fam_from.
    + split; [apply setup_fam_to|apply setup_fam_from].
Qed.

(* ---------------------------------------------------------------------------------------------------------- *)
(* a teardown removes every rule of the pod's address (in its families), its veth and the routes through it, and
   nothing else *)
Definition pod_rule (fam a : Z) (r : hrule) : bool :=
  existsb (fun f => (hr_fam r =? f) && (((hr_prio r =? 2048) && (hr_src r =? a)) || ((hr_prio r =? 512) && (hr_dst r =? a)))) (famlist fam).

Theorem teardown_clean s a fam h :
  (forall r, In r (h_rules (teardown s a fam h)) -> pod_rule fam a r = false) /\
  ~ In s (h_veths (teardown s a fam h)) /\
  (forall m, In m (h_mains (teardown s a fam h)) -> snd m <> 100 + s).
Proof.
  unfold teardown, drop_veth. cbn [h_rules h_veths h_mains]. split; [|split].
  - intros r Hr. apply filter_In in Hr as [_ H]. apply negb_true_iff in H. exact H.
  - intro H. apply filter_In in H as [_ H]. rewrite Z.eqb_refl in H. discriminate.
  - intros m Hm. apply filter_In in Hm as [_ H]. apply negb_true_iff in H. apply Z.eqb_neq in H. exact H.
Qed.

Theorem teardown_others s a fam h :
  (forall r, pod_rule fam a r = false -> (In r (h_rules (teardown s a fam h)) <-> In r (h_rules h))) /\
  (forall v, v <> s -> (In v (h_veths (teardown s a fam h)) <-> In v (h_veths h))) /\
  (forall m, snd m <> 100 + s -> (In m (h_mains (teardown s a fam h)) <-> In m (h_mains h))) /\
  h_tabs (teardown s a fam h) = h_tabs h.
Proof.
  unfold teardown, drop_veth. cbn [h_rules h_veths h_mains h_tabs].
  split; [|split; [|split; [|reflexivity]]].
  - intros r Hr. rewrite filter_In. fold (pod_rule fam a r). rewrite Hr. cbn. tauto.
  - intros v Hv. rewrite filter_In. assert (v =? s = false) as -> by (apply Z.eqb_neq; exact Hv). cbn. tauto.
  - intros m Hm. rewrite filter_In. assert (snd m =? 100 + s = false) as -> by (apply Z.eqb_neq; exact Hm). cbn. tauto.
Qed.

(* ---------------------------------------------------------------------------------------------------------- *)
(* the container configuration: exactly one default route per enabled family in the main table when a default route
   is asked for, none otherwise, whatever the extra routes *)
Definition is_def (f : Z) (r : list Z) : bool :=
  match r with t :: df :: _ :: dl :: _ => (t =? 0) && (df =? f) && (dl =? 0) | _ => false end.
Lemma extra_not_default li f l : filter (is_def f) (map (extra_route li) l) = [].
Proof.
  induction l as [|k l IH]; [reflexivity|]. cbn [map filter]. rewrite IH.
  unfold extra_route. destruct (k =? 0); [cbn; rewrite andb_false_r; reflexivity|].
  destruct (k =? 1); cbn; rewrite andb_false_r; reflexivity.
Qed.
Theorem cont_one_default g li f : 0 <= li -> (f = 4 \/ f = 6) ->
  length (filter (is_def f) (flat_map (cont_routes_fam g li) (fams g) ++ map (extra_route li) (g_extra g))) =
  if (if f =? 4 then g_on4 g else g_on6 g) && g_def g then 1%nat else 0%nat.
Proof.
  intros Hli Hf. rewrite filter_app, extra_not_default, app_nil_r.
  unfold fams, cont_routes_fam, route.
  assert (T : tbl_of li =? 0 = false) by (apply Z.eqb_neq; unfold tbl_of; lia).
  set (t := tbl_of li) in *. set (gw := g_gw g).
  destruct Hf as [-> | ->]; destruct (g_on4 g), (g_on6 g), (g_def g), (g_multi g), (negb (Z.of_nat (length (g_extra g)) =? 0));
    cbn [flat_map app filter is_def length maxlen Z.eqb andb Pos.eqb]; rewrite ?T; cbn [andb filter length app]; reflexivity.
Qed.
