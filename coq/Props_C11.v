(* Props_C11.v — property C11 (fixed IPs survive recreation; the leak collector only reaps what is provably ours
   and stale). *)
From Coq Require Import ZArith List Bool.
From TV Require Import PeModel PeProofs PeProofs2.
Import ListNotations.
Local Open Scope Z_scope.

(* the collector's loop over the allocations (with its carried flag) computes "some fixed allocation votes keep":
   the order of the allocations does not matter *)
Theorem c11_keep_if_any_says_keep : forall age l, gc_keep age l = existsb (alloc_keeps age) l.
Proof. exact gc_keep_spec. Qed.
Print Assumptions c11_keep_if_any_says_keep.

(* a Never allocation, or a TTL that has not elapsed since the pod was last seen, keeps the record ... *)
Theorem c11_kept_before_ttl : forall age l a, In a l -> a_fixed a = true ->
  (a_strat a = 2 \/ (a_strat a = 1 /\ 0 <= age < a_ttl a)) -> gc_keep age l = true.
Proof.
  intros age l a Hin Hf H. apply (gc_keep_any age l a Hin). unfold alloc_keeps. rewrite Hf. cbn [negb].
  destruct H as [H|[H1 [H2 H3]]].
  - rewrite H. reflexivity.
  - rewrite H1. cbn. apply orb_true_iff. right. apply andb_true_iff. split; [apply Z.leb_le|apply Z.ltb_lt]; assumption.
Qed.
Print Assumptions c11_kept_before_ttl.

(* ... and a kept record is never moved by the collector, nor is the record of a pod that exists and needs it *)
Theorem c11_collector_keeps : forall pod r, gc_keep (r_seen r) (r_allocs r) = true -> gc_rec pod r = r_phase r.
Proof. exact gc_rec_kept. Qed.
Print Assumptions c11_collector_keeps.
Theorem c11_collector_keeps_live : forall p r, requires_rec p = true -> gc_rec (Some p) r = r_phase r.
Proof. exact gc_rec_pod_present. Qed.
Print Assumptions c11_collector_keeps_live.

(* no step of either controller or of the collector changes a record's interfaces and addresses: a recreated pod
   finds the same interface and address *)
Theorem c11_allocations_stable : forall s e r r', s_rec s = Some r -> s_rec (step s e) = Some r' -> r_allocs r' = r_allocs r.
Proof. exact step_keeps_allocs. Qed.
Print Assumptions c11_allocations_stable.

(* a pod recreated under the same name (new uid, same node) gets its unbound fixed-IP record back: uid taken over,
   binding requested, attached - Bind under the new uid with the interfaces and addresses it had *)
Theorem c11_fixed_record_rebound : forall r p used,
  r_phase r = 3 -> r_del r = false -> have_fixed (r_allocs r) = true ->
  q_exited p = false -> q_kind p <> 5 -> r_node r = q_node p -> r_uid r <> q_uid p ->
  exists r', s_rec (fold_left step [EvPodCtl []; EvPodCtl []; EvEniCtl true true] (mkSt (Some p) (Some r) used)) = Some r' /\
             r_phase r' = 1 /\ r_uid r' = q_uid p /\ r_allocs r' = r_allocs r.
Proof. exact fixed_record_rebound. Qed.
Print Assumptions c11_fixed_record_rebound.

(* the leaked-interface collector's victims: both tags of this cluster, at least ten minutes old, named by no record *)
Theorem c11_leak_victims : forall tags age ref,
  leak_victim tags age ref = true <-> bit tags 0 = true /\ bit tags 1 = true /\ bit tags 2 = false /\ 600 <= age /\ ref = false.
Proof. exact leak_victim_spec. Qed.
Print Assumptions c11_leak_victims.

(* non-vacuity: a fixed-IP pod is bound, deleted, detached; recreated under a new uid it is re-bound to the same
   interface; mixed strategies keep the record whatever the order *)
Example c11_ex_rebind :
  let a := [mkAl 5 5 true 1 300] in
  let l := [EvAdd (mkPv 1 11 1 false 1); EvPodCtl a; EvEniCtl true true; EvGone; EvPodCtl []; EvEniCtl true true;
            EvAdd (mkPv 1 12 1 false 1); EvPodCtl []; EvPodCtl []; EvEniCtl true true] in
  s_rec (run l) = Some (mkRec 1 1 12 1 false true a (-1)).
Proof. vm_compute. reflexivity. Qed.
Example c11_ex_mixed :
  gc_keep 1000 [mkAl 1 1 true 2 0; mkAl 2 2 true 1 60] = true /\ gc_keep 1000 [mkAl 2 2 true 1 60; mkAl 1 1 true 2 0] = true /\
  gc_keep 1000 [mkAl 2 2 true 1 60] = false /\ gc_keep 59 [mkAl 2 2 true 1 60] = true.
Proof. vm_compute. auto. Qed.
