(* C14Run.v — case decoder for C14: [run_c14] evaluates the model on a harness
   case, [chk_c14] evaluates the property itself (independent bitwise CIDR
   evaluator / arithmetic spec) on what the implementation returned. *)
From Coq Require Import NArith ZArith List Bool.
From TV Require Import Bits Sha1 Codec C14Model.
Import ListNotations.
Local Open Scope Z_scope.

Definition enc_key (k : key) : list Z := [k_off k; Z.of_N (k_val k); Z.of_N (k_mask k)].
Definition dec_key (l : list Z) : key :=
  {| k_off := nth 0 l 0; k_val := Z.to_N (nth 1 l 0); k_mask := Z.to_N (nth 2 l 0) |}.

Definition run_c14 (i : list Z) : list Z :=
  match i with
  | 1 :: ip :: plen :: _ => enc_key (u32_v4 12 (Z.to_N ip) (Z.to_N plen))
  | 2 :: ip :: plen :: _ => enc_key (u32_v4 16 (Z.to_N ip) (Z.to_N plen))
  | 3 :: ip :: plen :: _ =>
      let ks := u32_v6_src (Z.to_N ip) (Z.to_N plen) in
      Z.of_nat (length ks) :: flat_map enc_key ks
  | [4; w; net; plen] =>
      match get_ip_at_neg3 (Z.to_N w) (Z.to_N net) (Z.to_N plen) with
      | Some a => [1; Z.of_N a] | None => [0] end
  | [5; idx] => [route_table_id idx]
  | 6 :: r =>
      match take_list r with Some (pfx, r1) =>
      match take_list r1 with Some (ns, r2) =>
      match take_list r2 with Some (name, r3) =>
      match take_list r3 with Some (if1, r4) =>
      match take_list r4 with Some (if2, _) =>
        enc_list (veth_name pfx ns name if1) ++ enc_list (veth_name pfx ns name if2)
      | None => bad end | None => bad end | None => bad end | None => bad end | None => bad end
  | _ => bad
  end.

Definition other32 (p : N) : N := ((p + 305419896) mod 4294967296)%N.
Definition other128 (p : N) : N := ((p + 305419896) mod 2 ^ 128)%N.

Definition chk_keys (w : N) (hdr : N -> Z -> N) (ks : list key) (ip plen : N) (probes : list Z) : bool :=
  forallb (fun p => Bool.eqb (keys_match (hdr (Z.to_N p)) ks) (in_cidrb w (Z.to_N p) ip plen)) probes.

Definition chk_c14 (i o : list Z) : bool :=
  match i with
  | 1 :: ip :: plen :: probes =>
      (length o =? 3)%nat &&
      chk_keys 32 (fun p => ipv4_word p (other32 p)) [dec_key o] (Z.to_N ip) (Z.to_N plen) (tl probes)
  | 2 :: ip :: plen :: probes =>
      (length o =? 3)%nat &&
      chk_keys 32 (fun p => ipv4_word (other32 p) p) [dec_key o] (Z.to_N ip) (Z.to_N plen) (tl probes)
  | 3 :: ip :: plen :: probes =>
      match o with
      | n :: r =>
          (Z.of_nat (length r) =? 3 * n) &&
          chk_keys 128 (fun p => ipv6_word p (other128 p)) (map dec_key (chunk 3 (Z.to_nat n) r))
                   (Z.to_N ip) (Z.to_N plen) (tl probes)
      | [] => false
      end
  | [4; w; net; plen] =>
      list_eqb o (match gateway_spec (Z.to_N w) (Z.to_N net) (Z.to_N plen) with
                  | Some a => [1; Z.of_N a] | None => [0] end)
  | [5; idx] =>
      match o with
      | [t] => (t =? 1000 + idx) && ((idx <? 0) || negb (table_reserved t))
      | _ => false
      end
  | 6 :: r =>
      match take_list r with Some (pfx, r1) =>
      match take_list r1 with Some (ns, r2) =>
      match take_list r2 with Some (name, r3) =>
      match take_list r3 with Some (if1, r4) =>
      match take_list r4 with Some (if2, _) =>
        match take_list o with Some (n1, o1) =>
        match take_list o1 with Some (n2, _) =>
          ((length n1 <=? length pfx + 11)%nat) && ((length n2 <=? length pfx + 11)%nat) &&
          (* names differ exactly when the interfaces differ (eth0 = "") —
             "differ" relies on truncated SHA-1 having no collision on these inputs *)
          Bool.eqb (list_eqb n1 n2) (list_eqb (norm_if if1) (norm_if if2)) &&
          list_eqb (firstn (length pfx) n1) pfx
        | None => false end | None => false end
      | None => false end | None => false end | None => false end | None => false end | None => false end
  | _ => false
  end.
