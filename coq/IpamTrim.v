(* IpamTrim.v — trimming (releaseUnUsedIP as modelled in IpamRun.trim) only ever marks unowned, non-primary,
   valid addresses; it changes no owner. *)
From Coq Require Import ZArith List Bool Lia.
From TV Require Import Codec IpamModel IpamRun.
Import ListNotations.
Local Open Scope Z_scope.

Definition marked (i j : ipe) : Prop :=
  j = i \/ (i_pod i = 0 /\ i_prim i = false /\ i_st i <> 2 /\ j = mkIp (i_a i) 2 (i_prim i) (i_pod i) (i_uid i)).

Lemma mark_first_aux l : forall k acc,
  exists l', snd (fold_left (fun (acc : Z * list ipe) (i : ipe) =>
         if (0 <? fst acc) && (i_pod i =? 0) && negb (i_prim i) && negb (i_st i =? 2)
         then (fst acc - 1, snd acc ++ [mkIp (i_a i) 2 (i_prim i) (i_pod i) (i_uid i)])
         else (fst acc, snd acc ++ [i])) l (k, acc)) = acc ++ l' /\ Forall2 marked l l'.
Proof.
  induction l as [|x l IH]; intros k acc.
  - exists []. cbn. rewrite app_nil_r. split; [reflexivity|constructor].
  - cbn [fold_left fst snd].
    destruct ((0 <? k) && (i_pod x =? 0) && negb (i_prim x) && negb (i_st x =? 2)) eqn:G.
    + destruct (IH (k - 1) (acc ++ [mkIp (i_a x) 2 (i_prim x) (i_pod x) (i_uid x)])) as (l' & E & F).
      exists (mkIp (i_a x) 2 (i_prim x) (i_pod x) (i_uid x) :: l'). rewrite E, <- app_assoc. split; [reflexivity|].
      constructor; [|exact F]. right.
      apply andb_true_iff in G as [G Hs]. apply andb_true_iff in G as [G Hp]. apply andb_true_iff in G as [_ Ho].
      apply Z.eqb_eq in Ho. apply negb_true_iff in Hp. apply negb_true_iff in Hs. apply Z.eqb_neq in Hs. auto.
    + destruct (IH k (acc ++ [x])) as (l' & E & F).
      exists (x :: l'). rewrite E, <- app_assoc. split; [reflexivity|]. constructor; [left; reflexivity|exact F].
Qed.

Theorem mark_first_marks k l : Forall2 marked l (mark_first k l).
Proof. unfold mark_first. destruct (mark_first_aux l k []) as (l' & E & F). rewrite E. exact F. Qed.

(* whatever trimming does to an interface: entries keep address, owner and uid; an interface is given up whole only
   when nothing on it has an owner *)
Theorem trim_keeps_owners e todel :
  let e' := snd (trim e todel) in
  Forall2 marked (e_4 e) (e_4 e') /\ Forall2 marked (e_6 e) (e_6 e') /\
  (e_status e' <> e_status e -> in_use_n (e_4 e) = 0 /\ in_use_n (e_6 e) = 0).
Proof.
  unfold trim. destruct (trim_whole e todel) eqn:W.
  - cbn [snd e_4 e_6 e_status].
    assert (R : forall l, Forall2 marked l l) by (induction l; constructor; [left; reflexivity|assumption]).
    split; [apply R|]. split; [apply R|]. intros _.
    unfold trim_whole in W. repeat (apply andb_true_iff in W as [W ?]). apply Z.eqb_eq in W. apply Z.eqb_eq in H3. auto.
  - destruct (trim_counts e todel) as [d4 d6]. cbn [snd e_4 e_6 e_status].
    split; [apply mark_first_marks|]. split; [apply mark_first_marks|]. intro H. contradiction H. reflexivity.
Qed.
