(* PoolQuota.v — C06, first sentence: the daemon never asks the cloud for more addresses on an interface than the
   per-interface limit.  Invariant: addresses on the interface + requests queued for one (live or not yet filtered)
   never exceed the limit; a call in flight never asks beyond what the limit leaves. *)
From Coq Require Import ZArith List Bool Lia.
From TV Require Import PoolModel PoolLib PoolSets PoolInv.
Import ListNotations.
Local Open Scope Z_scope.

Definition rawlen (s : slot) (f : fid) : Z := len (f_alloc (fget s f)).
Definition fw_ok (s : slot) : Prop :=
  match s_fw s with
  | FwAssign4 n4 n6 | FwCreate n4 n6 => setlen s F4 + n4 <= s_cap s /\ setlen s F6 + n6 <= s_cap s
  | FwAssign6 n6 _ => setlen s F6 + n6 <= s_cap s
  | _ => True
  end.
Record QInv (s : slot) : Prop := mkQ {
  q4 : setlen s F4 + rawlen s F4 <= s_cap s;
  q6 : setlen s F6 + rawlen s F6 <= s_cap s;
  qfw : fw_ok s;
  qcap : 1 <= s_cap s }.
(* a new interface is created into an empty slot (false only after the delete race of c06_delete_quiet_refuted) *)
Definition env_q (s : slot) (l : label) : Prop :=
  match l with LCreateBegin _ _ => f_set (s_4 s) = [] /\ f_set (s_6 s) = [] | _ => True end.

(* ---- lengths ------------------------------------------------------------------------------------------- *)
Lemma len_put a e s : len (put a e s) = if match find a s with Some _ => true | None => false end then len s else len s + 1.
Proof.
  induction s as [|[k e0] r IH]; [reflexivity|].
  change (find a ((k, e0) :: r)) with (if k =? a then Some e0 else find a r).
  change (put a e ((k, e0) :: r)) with (if k =? a then (k, e) :: r else (k, e0) :: put a e r). destruct (k =? a).
  - rewrite !len_cons. reflexivity.
  - rewrite !len_cons, IH. destruct (find a r); lia.
Qed.
Lemma len_set_owner a p s : len (set_owner a p s) = len s.
Proof. unfold set_owner. destruct (find a s) eqn:E; [rewrite len_put, E; reflexivity | reflexivity]. Qed.
Lemma len_release a p s : len (release a p s) = len s.
Proof. unfold release. destruct (find a s) eqn:E; [|reflexivity]. destruct (e_owner e =? p); [rewrite len_put, E; reflexivity | reflexivity]. Qed.
Lemma len_dispose_ip a s : len (dispose_ip a s) = len s.
Proof. unfold dispose_ip. destruct (find a s) eqn:E; [|reflexivity]. destruct (e_prim e); [reflexivity | rewrite len_put, E; reflexivity]. Qed.
Lemma len_map {A B} (g : A -> B) l : len (map g l) = len l.
Proof. unfold len. rewrite map_length. reflexivity. Qed.
Lemma len_filter_le {A} (g : A -> bool) l : len (filter g l) <= len l.
Proof. unfold len. induction l as [|x r IH]; cbn [filter length]; [lia|]. destruct (g x); cbn [length]; lia. Qed.
Lemma len_fold_dispose m : forall s, len (fold_left (fun acc a => dispose_ip a acc) m s) = len s.
Proof. induction m as [|a r IH]; intros s; cbn [fold_left]; [reflexivity|]. rewrite IH, len_dispose_ip. reflexivity. Qed.
Lemma len_del_all ips : forall s, len (del_all ips s) <= len s.
Proof.
  unfold del_all. induction ips as [|a r IH]; intros s; cbn [fold_left]; [lia|].
  etransitivity; [apply IH|]. unfold del. apply len_filter_le.
Qed.
Lemma len_put_fresh st prim ips : forall s, len (put_fresh st prim ips s) <= len s + len ips.
Proof.
  unfold put_fresh. induction ips as [|a r IH]; intros s; cbn [fold_left]; [unfold len; cbn; lia|].
  etransitivity; [apply IH|]. rewrite len_put, len_cons. destruct (find a s); lia.
Qed.
Lemma len_prune t l : len (prune t l) <= len l.
Proof. apply len_filter_le. Qed.
Lemma len_remz_le r l : len (remz r l) <= len l.
Proof. apply len_filter_le. Qed.
Lemma len_remz_lt r l : memz r l = true -> len (remz r l) + 1 <= len l.
Proof.
  unfold memz, remz, len. induction l as [|x t IH]; cbn [existsb filter length]; [discriminate|].
  intros H. apply orb_true_iff in H as [H|H].
  - apply Z.eqb_eq in H. subst. rewrite Z.eqb_refl. cbn [negb]. pose proof (len_filter_le (fun x0 => negb (x0 =? x)) t) as L. unfold len in L. lia.
  - specialize (IH H). destruct (negb (x =? r)); cbn [length]; lia.
Qed.

Lemma filter_idem {A} (g : A -> bool) l : filter g (filter g l) = filter g l.
Proof. induction l as [|x r IH]; cbn [filter]; [reflexivity|]. destruct (g x) eqn:E; cbn [filter]; [rewrite E, IH; reflexivity | exact IH]. Qed.
Lemma prune_idem t l : prune t (prune t l) = prune t l.
Proof. apply filter_idem. Qed.

(* exact shapes of the in-place filterings *)
Lemma prune_both_eq s : prune_both s = set_allocs s (prune (s_reqs s) (f_alloc (s_4 s))) (prune (s_reqs s) (f_alloc (s_6 s))).
Proof. destruct s as [st eni ty trunk x4 x6 inh fw dw reqs cap batch now held log], x4, x6. reflexivity. Qed.
Lemma loop_head_eq s : loop_head s = set_allocs s (prune (s_reqs s) (f_alloc (s_4 s)))
                                         (if plen s F4 <=? 0 then prune (s_reqs s) (f_alloc (s_6 s)) else f_alloc (s_6 s)).
Proof.
  destruct s as [st eni ty trunk x4 x6 inh fw dw reqs cap batch now held log], x4, x6.
  unfold loop_head, prune_q, set_allocs, plen. cbn. rewrite prune_idem. destruct (len (prune reqs f_alloc) <=? 0); reflexivity.
Qed.
Definition adm_e4 (s : slot) (pod : Z) (nc : bool) : bool := f_on (s_4 s) && (nc || negb (avail pod (f_set (s_4 s)))).
Definition adm_e6 (s : slot) (pod : Z) (nc : bool) : bool :=
  f_on (s_6 s) && negb (adm_e4 s pod nc && (s_cap s <=? setlen s F4 + plen s F4)) && (nc || negb (avail pod (f_set (s_6 s)))).
Lemma adm_prune_eq s pod nc : adm_prune s pod nc =
  set_allocs s (if adm_e4 s pod nc then prune (s_reqs s) (f_alloc (s_4 s)) else f_alloc (s_4 s))
               (if adm_e6 s pod nc then prune (s_reqs s) (f_alloc (s_6 s)) else f_alloc (s_6 s)).
Proof.
  destruct s as [st eni ty trunk x4 x6 inh fw dw reqs cap batch now held log], x4, x6.
  unfold adm_prune, adm_e6, adm_e4, prune_q, set_allocs, plen, setlen. cbn.
  repeat match goal with |- context [if ?c then _ else _] => destruct c eqn:?; cbn end; try reflexivity; try congruence.
Qed.
Arguments adm_prune : simpl never.
Arguments loop_head : simpl never.
Arguments prune_both : simpl never.
Ltac brk H :=
  repeat match type of H with
  | context [match ?x with _ => _ end] => let E := fresh "E" in destruct x eqn:E; try discriminate H
  end.

(* ---- the invariant only looks at four lengths, the factory worker's state and the limit -------------------- *)
Lemma q_mono s s' :
  setlen s' F4 <= setlen s F4 -> rawlen s' F4 <= rawlen s F4 -> setlen s' F6 <= setlen s F6 -> rawlen s' F6 <= rawlen s F6 ->
  s_cap s' = s_cap s -> (s_fw s' = s_fw s \/ match s_fw s' with FwIdle | FwArmed _ => True | _ => False end) -> QInv s -> QInv s'.
Proof.
  intros A4 B4 A6 B6 C F [R4 R6 Hfw Hc]. constructor; try lia.
  unfold fw_ok in *. destruct F as [F|F].
  - rewrite F, C. destruct (s_fw s); try exact I; lia.
  - destruct (s_fw s'); try exact I; contradiction.
Qed.

Ltac open_s s :=
  let x4 := fresh "x4" in let x6 := fresh "x6" in
  destruct s as [zst zeni zty ztrunk x4 x6 zinh zfw zdw zreqs zcap zbatch znow zheld zlog];
  destruct x4 as [zon4 zset4 zal4 zdg4 zcl4 zgone4 zun4]; destruct x6 as [zon6 zset6 zal6 zdg6 zcl6 zgone6 zun6].

(* projections of the helpers *)
Lemma m_set_allocs s a4 a6 :
  setlen (set_allocs s a4 a6) F4 = setlen s F4 /\ setlen (set_allocs s a4 a6) F6 = setlen s F6 /\
  rawlen (set_allocs s a4 a6) F4 = len a4 /\ rawlen (set_allocs s a4 a6) F6 = len a6 /\
  s_fw (set_allocs s a4 a6) = s_fw s /\ s_cap (set_allocs s a4 a6) = s_cap s.
Proof. open_s s. cbn. repeat split. Qed.
Lemma m_commit s pod c4 c6 d k4 k6 :
  setlen (commit s pod c4 c6 d k4 k6) F4 = setlen s F4 /\ setlen (commit s pod c4 c6 d k4 k6) F6 = setlen s F6 /\
  rawlen (commit s pod c4 c6 d k4 k6) F4 = rawlen s F4 /\ rawlen (commit s pod c4 c6 d k4 k6) F6 = rawlen s F6 /\
  s_fw (commit s pod c4 c6 d k4 k6) = s_fw s /\ s_cap (commit s pod c4 c6 d k4 k6) = s_cap s.
Proof.
  open_s s. unfold commit, map_set, setlen, rawlen. cbn.
  destruct (c4 =? 0), (c6 =? 0), d, k4, k6; cbn; rewrite ?len_set_owner, ?len_release, ?len_set_owner; repeat split; reflexivity.
Qed.
Lemma m_mark_req s r g :
  setlen (mark_req s r g) F4 = setlen s F4 /\ setlen (mark_req s r g) F6 = setlen s F6 /\
  rawlen (mark_req s r g) F4 = rawlen s F4 /\ rawlen (mark_req s r g) F6 = rawlen s F6 /\
  s_fw (mark_req s r g) = s_fw s /\ s_cap (mark_req s r g) = s_cap s.
Proof. unfold mark_req. destruct (rfind r (s_reqs s)); [open_s s; cbn|]; repeat split. Qed.
Lemma m_switch s f r :
  setlen (switch_f s f r) F4 = setlen s F4 /\ setlen (switch_f s f r) F6 = setlen s F6 /\
  rawlen (switch_f s f r) F4 <= rawlen s F4 /\ rawlen (switch_f s f r) F6 <= rawlen s F6 /\
  s_fw (switch_f s f r) = s_fw s /\ s_cap (switch_f s f r) = s_cap s.
Proof.
  unfold switch_f. destruct (memz r (f_alloc (fget s f))) eqn:M; [|repeat split; lia].
  pose proof (len_remz_lt r _ M) as L.
  destruct (prune (s_reqs s) (f_dang (fget s f))) as [|h t]; open_s s; destruct f; unfold setlen, rawlen in *; cbn in *; rewrite ?len_app, ?len_cons; repeat split; try lia;
    change (len (@nil Z)) with 0; lia.
Qed.
Lemma m_worker_exit s r :
  setlen (worker_exit s r) F4 = setlen s F4 /\ setlen (worker_exit s r) F6 = setlen s F6 /\
  rawlen (worker_exit s r) F4 <= rawlen s F4 /\ rawlen (worker_exit s r) F6 <= rawlen s F6 /\
  s_fw (worker_exit s r) = s_fw s /\ s_cap (worker_exit s r) = s_cap s.
Proof.
  unfold worker_exit.
  destruct (m_mark_req (switch_f (switch_f s F4 r) F6 r) r (fun q => set_fin (set_wd q))) as (a & b & c & d & e & g).
  destruct (m_switch (switch_f s F4 r) F6 r) as (a1 & b1 & c1 & d1 & e1 & g1).
  destruct (m_switch s F4 r) as (a2 & b2 & c2 & d2 & e2 & g2).
  repeat split; congruence || lia.
Qed.

Lemma len_skipn {A} (l : list A) k : 0 <= k <= len l -> len (skipn (Z.to_nat k) l) = len l - k.
Proof. intros H. unfold len in *. rewrite skipn_length. lia. Qed.
Lemma m_pop s f k :
  setlen (pop_f s f k) F4 = setlen s F4 /\ setlen (pop_f s f k) F6 = setlen s F6 /\
  rawlen (pop_f s f k) f = (if (k <? 0) || (rawlen s f <? k) then 0 else rawlen s f - k) /\
  (forall g, g <> f -> rawlen (pop_f s f k) g = rawlen s g) /\
  s_fw (pop_f s f k) = s_fw s /\ s_cap (pop_f s f k) = s_cap s.
Proof.
  unfold pop_f, rawlen. destruct ((k <? 0) || (len (f_alloc (fget s f)) <? k)) eqn:E.
  - open_s s; destruct f; unfold setlen; cbn in *; repeat split; try reflexivity; intros g Hg; destruct g; try contradiction; reflexivity.
  - apply orb_false_iff in E as [E1 E2]. apply Z.ltb_ge in E1, E2.
    open_s s; destruct f; unfold setlen; cbn in *; repeat split; try reflexivity; try (apply len_skipn; lia);
      intros g Hg; destruct g; try contradiction; reflexivity.
Qed.
Lemma len_prune_le t l : len (prune t l) <= len l. Proof. apply len_filter_le. Qed.

Lemma m_prune_both s :
  setlen (prune_both s) F4 = setlen s F4 /\ setlen (prune_both s) F6 = setlen s F6 /\
  rawlen (prune_both s) F4 = plen s F4 /\ rawlen (prune_both s) F6 = plen s F6 /\
  s_fw (prune_both s) = s_fw s /\ s_cap (prune_both s) = s_cap s.
Proof. rewrite prune_both_eq. destruct (m_set_allocs s (prune (s_reqs s) (f_alloc (s_4 s))) (prune (s_reqs s) (f_alloc (s_6 s)))) as (a & b & c & d & e & g). repeat split; assumption. Qed.
Lemma m_loop_head s :
  setlen (loop_head s) F4 = setlen s F4 /\ setlen (loop_head s) F6 = setlen s F6 /\
  rawlen (loop_head s) F4 <= rawlen s F4 /\ rawlen (loop_head s) F6 <= rawlen s F6 /\
  s_fw (loop_head s) = s_fw s /\ s_cap (loop_head s) = s_cap s.
Proof.
  rewrite loop_head_eq.
  match goal with |- context [set_allocs s ?a ?b] => destruct (m_set_allocs s a b) as (a1 & b1 & c1 & d1 & e1 & g1) end.
  repeat split; try assumption.
  - rewrite c1. apply len_prune_le.
  - rewrite d1. destruct (plen s F4 <=? 0); [apply len_prune_le | unfold rawlen; cbn; lia].
Qed.
Lemma plen_le_raw s f : plen s f <= rawlen s f. Proof. apply len_prune_le. Qed.

Lemma fam_expect s f pod nc : is_expect (fam_res s f pod nc) = true ->
  f_on (fget s f) = true /\ (nc || negb (avail pod (f_set (fget s f)))) = true /\ setlen s f + plen s f < s_cap s.
Proof.
  unfold fam_res. destruct (f_on (fget s f)); cbn [negb]; [|discriminate].
  destruct nc; cbn [orb].
  - destruct (s_cap s <=? setlen s f + plen s f) eqn:E; [discriminate|]. apply Z.leb_gt in E. auto.
  - destruct (avail pod (f_set (fget s f))); [discriminate|]. destruct (s_cap s <=? setlen s f + plen s f) eqn:E; [discriminate|]. apply Z.leb_gt in E. auto.
Qed.
Lemma fam_not_full s f pod nc : fam_res s f pod nc <> FFull ->
  (f_on (fget s f) && (nc || negb (avail pod (f_set (fget s f))))) && (s_cap s <=? setlen s f + plen s f) = false.
Proof.
  unfold fam_res. destruct (f_on (fget s f)); cbn [negb andb]; [|reflexivity].
  destruct nc; cbn [orb].
  - destruct (s_cap s <=? setlen s f + plen s f); [intros H; contradiction H; reflexivity | reflexivity].
  - destruct (avail pod (f_set (fget s f))); cbn [negb andb]; [reflexivity|]. destruct (s_cap s <=? setlen s f + plen s f); [intros H; contradiction H; reflexivity | reflexivity].
Qed.
Lemma alloc_kind_enqueue s pod nc pin erdma e4 e6 : alloc_kind s pod nc pin erdma = KEnqueue e4 e6 ->
  (e4 = true -> adm_e4 s pod nc = true /\ setlen s F4 + plen s F4 < s_cap s) /\
  (e6 = true -> adm_e6 s pod nc = true /\ setlen s F6 + plen s F6 < s_cap s).
Proof.
  unfold alloc_kind. destruct (negb (Bool.eqb erdma (s_ty s =? 2))); [discriminate|].
  destruct (s_st s); try discriminate;
    (destruct (negb (pin =? 0) && negb (s_eni s =? 0) && negb (s_eni s =? pin)); [discriminate|]);
    (destruct (fam_res s F4 pod nc) eqn:R4; try discriminate; destruct (fam_res s F6 pod nc) eqn:R6; try discriminate;
     cbn [is_expect orb andb]; try discriminate;
     repeat match goal with |- context [if ?c then _ else _] => destruct c; try discriminate end;
     intros H; injection H as <- <-; split; intros X; try discriminate X).
  all: try (assert (E4 : is_expect (fam_res s F4 pod nc) = true) by (rewrite R4; reflexivity); destruct (fam_expect _ _ _ _ E4) as (o4 & v4 & q4)).
  all: try (assert (E6 : is_expect (fam_res s F6 pod nc) = true) by (rewrite R6; reflexivity); destruct (fam_expect _ _ _ _ E6) as (o6 & v6 & q6)).
  all: assert (NF : fam_res s F4 pod nc <> FFull) by (rewrite R4; discriminate); apply fam_not_full in NF.
  all: unfold adm_e4, adm_e6; cbn [fget] in *; split; try assumption.
  all: try (rewrite o4, v4; reflexivity).
  all: unfold adm_e4; rewrite o6, v6, NF; reflexivity.
Qed.

Ltac mono_with L := (* L : the six facts about the new state, as produced by the m_ lemmas (with = or <=) *)
  let a := fresh in let b := fresh in let c := fresh in let d := fresh in let e := fresh in let g := fresh in
  destruct L as (a & b & c & d & e & g); eapply q_mono; [| | | | |left; eassumption|eassumption]; try lia; try congruence.

Theorem q_step s l s' : QInv s -> fault_free l = true -> env_q s l -> step s l = Some s' -> QInv s'.
Proof.
  intros HQ Hff He Hs.
  destruct l; cbn [step fault_free env_q] in *.
  - (* reject *) brk Hs; injection Hs as <-; [|exact HQ].
    rewrite adm_prune_eq. destruct (m_set_allocs s (if adm_e4 s pod nc then prune (s_reqs s) (f_alloc (s_4 s)) else f_alloc (s_4 s))
                                        (if adm_e6 s pod nc then prune (s_reqs s) (f_alloc (s_6 s)) else f_alloc (s_6 s))) as (a & b & c & d & e & g).
    apply (q_mono s); [| | | | |left; exact e|exact HQ]; try lia; try congruence.
    + rewrite c. unfold rawlen. cbn. destruct (adm_e4 s pod nc); [apply len_prune_le | lia].
    + rewrite d. unfold rawlen. cbn. destruct (adm_e6 s pod nc); [apply len_prune_le | lia].
  - (* direct *) brk Hs; injection Hs as <-;
    (apply (q_mono s); [| | | | |left|exact HQ]; open_s s; unfold setlen, rawlen, map_set; cbn; rewrite ?len_set_owner; try lia; try reflexivity).
  - (* enqueue *) destruct (alloc_kind s pod nc pin erdma) eqn:Ek; try discriminate.
    destruct (rfind r (s_reqs s)); [discriminate|]. destruct (unfinished_for s pod); [discriminate|].
    injection Hs as <-. destruct (alloc_kind_enqueue _ _ _ _ _ _ _ Ek) as [K4 K6].
    destruct HQ as [R4 R6 Hfw Hc]. rewrite adm_prune_eq.
    pose proof (len_prune_le (s_reqs s) (f_alloc (s_4 s))) as P4. pose proof (len_prune_le (s_reqs s) (f_alloc (s_6 s))) as P6.
    unfold plen, setlen, rawlen, fw_ok in *. cbn [fget] in *.
    destruct e4, e6;
      try (destruct (K4 eq_refl) as [A4 B4]; rewrite A4); try (destruct (K6 eq_refl) as [A6 B6]; rewrite A6);
      open_s s; cbn in *; (constructor; unfold fw_ok, setlen, rawlen; cbn; rewrite ?len_app; try exact Hc; try exact Hfw;
        repeat match goal with |- context [if ?c then _ else _] => destruct c end; change (len [r]) with 1; try lia).
  - (* commit *) brk Hs; injection Hs as <-.
    all: cycle 0.
    destruct (m_mark_req (commit s (r_pod r0) (r_d4 r0) (r_d6 r0) deliver (r_k4 r0) (r_k6 r0)) r set_fin) as (a & b & c & d & e & g).
    destruct (m_commit s (r_pod r0) (r_d4 r0) (r_d6 r0) deliver (r_k4 r0) (r_k6 r0)) as (a1 & b1 & c1 & d1 & e1 & g1).
    apply (q_mono s); [| | | | |left|exact HQ]; try lia; congruence.
  - (* worker take *) brk Hs; injection Hs as <-.
    match goal with |- QInv (worker_exit ?x r) => destruct (m_worker_exit x r) as (a & b & c & d & e & g) end.
    match goal with _ : setlen (worker_exit (commit s ?p ?c4 ?c6 ?dl ?k4 ?k6) r) F4 = _ |- _ => destruct (m_commit s p c4 c6 dl k4 k6) as (a1 & b1 & c1 & d1 & e1 & g1) end.
    apply (q_mono s); [| | | | |left|exact HQ]; try lia; congruence.
  - (* worker cancel *) brk Hs; injection Hs as <-. destruct (m_worker_exit s r) as (a & b & c & d & e & g).
    apply (q_mono s); [| | | | |left|exact HQ]; try lia; congruence.
  - (* no-cache exit *) brk Hs; injection Hs as <-. destruct (m_worker_exit s r) as (a & b & c & d & e & g).
    apply (q_mono s); [| | | | |left|exact HQ]; try lia; congruence.
  - (* cancel *) brk Hs; injection Hs as <-. destruct (m_mark_req s r set_ctx) as (a & b & c & d & e & g).
    apply (q_mono s); [| | | | |left|exact HQ]; try lia; congruence.
  - (* arm *) brk Hs; injection Hs as <-. destruct (m_loop_head s) as (a & b & c & d & e & g).
    apply (q_mono s); [| | | | |right|exact HQ]; unfold setlen, rawlen in *; cbn [fget] in *; cbn; try lia; try exact I; assumption.
  - (* expire *) brk Hs; injection Hs as <-. destruct (m_prune_both s) as (a & b & c & d & e & g).
    pose proof (plen_le_raw s F4). pose proof (plen_le_raw s F6).
    apply (q_mono s); [| | | | |right|exact HQ]; unfold setlen, rawlen in *; cbn [fget] in *; cbn; try lia; try exact I; assumption.
  - (* skip *) brk Hs; injection Hs as <-. apply (q_mono s); [| | | | |right|exact HQ]; open_s s; unfold setlen, rawlen; cbn; try lia; try reflexivity; exact I.
  - (* look *) brk Hs; injection Hs as <-. destruct (m_loop_head s) as (a & b & c & d & e & g).
    apply (q_mono s); [| | | | |left|exact HQ]; try lia; assumption.
  - (* create begin *) destruct HQ as [R4 R6 Hfw Hc]. destruct He as [S4 S6].
    destruct (m_prune_both s) as (a & b & c & d & e & g). pose proof (plen_le_raw s F4) as P4. pose proof (plen_le_raw s F6) as P6.
    pose proof (len_nonneg (f_alloc (s_4 s))) as M4. pose proof (len_nonneg (f_alloc (s_6 s))) as M6.
    brk Hs; injection Hs as <-. repeat match goal with H : _ && _ = true |- _ => apply andb_true_iff in H as [H ?] end.
    repeat match goal with H : (_ =? _) = true |- _ => apply Z.eqb_eq in H end.
    unfold fw_ok, setlen, rawlen in *; cbn [fget] in *. rewrite S4, S6 in *. change (len (@nil (Z * ent))) with 0 in *.
    constructor; unfold fw_ok, setlen, rawlen; cbn; rewrite ?g; try exact Hc; rewrite ?a, ?b, ?c, ?d, ?S4, ?S6; change (len (@nil (Z * ent))) with 0; try lia.
  - (* create end *) destruct (s_fw s) eqn:Ef; try discriminate. destruct ok; [|discriminate Hff].
    match type of Hs with (if ?c then _ else _) = _ => destruct c eqn:Eg; [|discriminate] end.
    injection Hs as <-. apply andb_true_iff in Eg as [Eg G6]. apply andb_true_iff in Eg as [Eg G4]. apply Z.leb_le in G4, G6.
    destruct HQ as [R4 R6 Hfw Hc]. unfold fw_ok in Hfw. rewrite Ef in Hfw. destruct Hfw as [W4 W6].
    set (T := with_eni s eni trunk).
    assert (T4 : setlen T F4 = setlen s F4 /\ rawlen T F4 = rawlen s F4 /\ setlen T F6 = setlen s F6 /\ rawlen T F6 = rawlen s F6 /\ s_cap T = s_cap s)
      by (subst T; open_s s; repeat split).
    destruct T4 as (t1 & t2 & t3 & t4 & t5).
    destruct (m_pop T F4 n4) as (a1 & b1 & c1 & d1 & e1 & g1).
    destruct (m_pop (pop_f T F4 n4) F6 n6) as (a2 & b2 & c2 & d2 & e2 & g2).
    specialize (d1 F6 ltac:(discriminate)). specialize (d2 F4 ltac:(discriminate)).
    set (P := pop_f (pop_f T F4 n4) F6 n6) in *.
    pose proof (len_put_fresh Valid prim v4 (f_set (s_4 P))) as L4. pose proof (len_put_fresh Valid 0 v6 (f_set (s_6 P))) as L6.
    pose proof (len_nonneg v4) as N4. pose proof (len_nonneg v6) as N6.
    pose proof (len_nonneg (f_alloc (s_4 s))) as M4. pose proof (len_nonneg (f_alloc (s_6 s))) as M6.
    unfold setlen, rawlen in *. cbn [fget] in *.
    constructor; unfold fw_ok, setlen, rawlen, map_set, ghost_assigned; destruct (prim =? 0); cbn; try exact I.
    all: try (rewrite g2, g1, t5; exact Hc).
    all: rewrite ?g2, ?g1, ?t5.
    all: rewrite ?d2, ?d1, ?c2, ?c1, ?a2, ?a1, ?b2, ?b1 in *; rewrite ?t1, ?t2, ?t3, ?t4 in *.
    all: repeat match goal with
         | |- context [if ?c then _ else _] => let E := fresh "E" in destruct c eqn:E; [|apply orb_false_iff in E as [? ?]]
         | H : context [if ?c then _ else _] |- _ => let E := fresh "E" in destruct c eqn:E; [|apply orb_false_iff in E as [? ?]]
         end.
    all: repeat match goal with H : (_ <? _) = false |- _ => apply Z.ltb_ge in H end.
    all: lia.
  - (* assign begin *) cbv zeta in Hs. destruct HQ as [R4 R6 Hfw Hc].
    destruct (m_prune_both s) as (a & b & c & d & e & g). pose proof (plen_le_raw s F4) as P4. pose proof (plen_le_raw s F6) as P6.
    brk Hs; injection Hs as <-; unfold fw_ok, setlen, rawlen in *; cbn [fget] in *;
      (constructor; unfold fw_ok, setlen, rawlen; cbn; rewrite ?g; try exact Hc; try lia).
    rewrite E in Hfw. exact Hfw.
  - (* assign end *) destruct ok; [|discriminate Hff].
    destruct HQ as [R4 R6 Hfw Hc]. unfold fw_ok in Hfw.
    destruct (s_fw s) eqn:Ef; destruct f; try discriminate Hs; try (destruct started; try discriminate Hs); cbv zeta in Hs.
    all: match type of Hs with (if ?c then _ else _) = _ => destruct c eqn:Eg; [|discriminate] end.
    all: injection Hs as <-; apply andb_true_iff in Eg as [Eg G]; apply Z.leb_le in G.
    + (* IPv4 answer *) destruct Hfw as [W4 W6].
      destruct (m_pop s F4 (len ips)) as (a1 & b1 & c1 & d1 & e1 & g1). specialize (d1 F6 ltac:(discriminate)).
      set (P := pop_f s F4 (len ips)) in *.
      pose proof (len_put_fresh Valid 0 ips (f_set (s_4 P))) as L4. pose proof (len_nonneg ips) as N4.
      pose proof (len_nonneg (f_alloc (s_4 s))) as M4.
      unfold setlen, rawlen in *. cbn [fget] in *.
      constructor; unfold fw_ok, setlen, rawlen, map_set, ghost_assigned; cbn; rewrite ?g1; try exact Hc.
      3: destruct (0 <? n6); cbn; [rewrite b1; exact W6 | exact I].
      all: rewrite ?c1, ?d1, ?a1, ?b1 in *.
      all: repeat match goal with
           | |- context [if ?c then _ else _] => let E := fresh "E" in destruct c eqn:E; [|apply orb_false_iff in E as [? ?]]
           | H : context [if ?c then _ else _] |- _ => let E := fresh "E" in destruct c eqn:E; [|apply orb_false_iff in E as [? ?]]
           end.
      all: repeat match goal with H : (_ <? _) = false |- _ => apply Z.ltb_ge in H end.
      all: lia.
    + (* IPv6 answer *)
      destruct (m_pop s F6 (len ips)) as (a1 & b1 & c1 & d1 & e1 & g1). specialize (d1 F4 ltac:(discriminate)).
      set (P := pop_f s F6 (len ips)) in *.
      pose proof (len_put_fresh Valid 0 ips (f_set (s_6 P))) as L6. pose proof (len_nonneg ips) as N6.
      pose proof (len_nonneg (f_alloc (s_6 s))) as M6.
      unfold setlen, rawlen in *. cbn [fget] in *.
      constructor; unfold fw_ok, setlen, rawlen, map_set, ghost_assigned; cbn; rewrite ?g1; try exact Hc; try exact I.
      all: rewrite ?c1, ?d1, ?a1, ?b1 in *.
      all: repeat match goal with
           | |- context [if ?c then _ else _] => let E := fresh "E" in destruct c eqn:E; [|apply orb_false_iff in E as [? ?]]
           | H : context [if ?c then _ else _] |- _ => let E := fresh "E" in destruct c eqn:E; [|apply orb_false_iff in E as [? ?]]
           end.
      all: repeat match goal with H : (_ <? _) = false |- _ => apply Z.ltb_ge in H end.
      all: lia.
  - (* dispose *) brk Hs; injection Hs as <-;
    (apply (q_mono s); [| | | | |left|exact HQ]; open_s s; unfold setlen, rawlen, dispose_invalid; cbn; rewrite ?len_fold_dispose, ?len_map; try lia; try reflexivity).
  - (* unassign begin *) cbv zeta in Hs. brk Hs; injection Hs as <-;
    (apply (q_mono s); [| | | | |left|exact HQ]; open_s s; destruct f; unfold setlen, rawlen; cbn; try lia; try reflexivity).
  - (* unassign end *) cbv zeta in Hs. brk Hs; injection Hs as <-;
    (apply (q_mono s); [| | | | |left|exact HQ]; open_s s; unfold setlen, rawlen; cbn; try lia; try reflexivity; try apply len_del_all).
  - (* delete begin *) brk Hs; injection Hs as <-;
    (apply (q_mono s); [| | | | |left|exact HQ]; open_s s; unfold setlen, rawlen; cbn; try lia; try reflexivity).
  - (* delete end *) brk Hs; injection Hs as <-;
    (apply (q_mono s); [| | | | |left|exact HQ]; open_s s; unfold setlen, rawlen; cbn; try lia; try reflexivity; try apply len_nonneg).
  - (* meta sync *) brk Hs; injection Hs as <-; try exact HQ;
    (apply (q_mono s); [| | | | |left|exact HQ]; open_s s; unfold setlen, rawlen, sync_set; cbn; rewrite ?len_map; try lia; try reflexivity).
  - (* release *) brk Hs; injection Hs as <-;
    (apply (q_mono s); [| | | | |left|exact HQ]; open_s s; unfold setlen, rawlen, map_set; cbn; rewrite ?len_release; try lia; try reflexivity).
  - (* remote remove *) injection Hs as <-. apply (q_mono s); [| | | | |left|exact HQ]; open_s s; destruct f; unfold setlen, rawlen; cbn; try lia; try reflexivity.
  - (* tick *) brk Hs; injection Hs as <-. apply (q_mono s); [| | | | |left|exact HQ]; open_s s; unfold setlen, rawlen; cbn; try lia; try reflexivity.
Qed.

Lemma q_init ty on4 on6 cap batch : 1 <= cap -> QInv (init_slot ty on4 on6 cap batch).
Proof. intros H. constructor; unfold setlen, rawlen, fw_ok, init_slot, len; cbn; try lia; exact I. Qed.

(* runs whose labels are fault free and create interfaces into an empty slot *)
Fixpoint run_q (s : slot) (ls : list label) : Prop :=
  match ls with
  | [] => True
  | l :: r => fault_free l = true /\ env_q s l /\ match step s l with Some s' => run_q s' r | None => True end
  end.
Theorem q_run ls : forall s s', QInv s -> run_q s ls -> run s ls = Some s' -> QInv s'.
Proof.
  induction ls as [|l r IH]; intros s s' HQ Hr Hs; cbn [run run_q] in *; [injection Hs as <-; exact HQ|].
  destruct Hr as (Hf & He & Hr). destruct (step s l) as [s1|] eqn:E; [|discriminate].
  exact (IH s1 s' (q_step s l s1 HQ Hf He E) Hr Hs).
Qed.

(* the quota: a call for more addresses never asks beyond what the per-interface limit leaves *)
Theorem quota_assign s f n s' : QInv s -> step s (LAssignBegin f n) = Some s' -> setlen s f + n <= s_cap s.
Proof.
  intros [R4 R6 Hfw Hc] Hs. cbn [step] in Hs. cbv zeta in Hs.
  pose proof (plen_le_raw s F4) as P4. pose proof (plen_le_raw s F6) as P6. unfold fw_ok in Hfw.
  destruct (s_fw s) eqn:Ef; destruct f; try discriminate Hs; try (destruct started; try discriminate Hs);
    match type of Hs with (if ?c then _ else _) = _ => destruct c eqn:Eg; [|discriminate] end;
    repeat match goal with H : _ && _ = true |- _ => apply andb_true_iff in H as [H ?] end;
    repeat match goal with H : (_ =? _) = true |- _ => apply Z.eqb_eq in H end; subst; unfold rawlen, setlen in *; cbn [fget] in *; lia.
Qed.
Theorem quota_create s n4 n6 s' : QInv s -> step s (LCreateBegin n4 n6) = Some s' -> n4 <= s_cap s /\ n6 <= s_cap s.
Proof.
  intros [R4 R6 Hfw Hc] Hs. cbn [step] in Hs.
  pose proof (plen_le_raw s F4) as P4. pose proof (plen_le_raw s F6) as P6.
  pose proof (len_nonneg (f_set (s_4 s))). pose proof (len_nonneg (f_set (s_6 s))).
  destruct (s_fw s); try discriminate. match type of Hs with (if ?c then _ else _) = _ => destruct c eqn:Eg; [|discriminate] end.
  repeat match goal with H : _ && _ = true |- _ => apply andb_true_iff in H as [H ?] end.
  repeat match goal with H : (_ =? _) = true |- _ => apply Z.eqb_eq in H end. unfold rawlen, setlen in *; cbn [fget] in *. lia.
Qed.
Print Assumptions q_run.
Print Assumptions quota_assign.
