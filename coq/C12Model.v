(* C12Model.v — daemon/daemon.go:defaultForNetConf, pkg/eni/remote.go:RemoteIPResource.ToRPC
   (gateway derivation reuses C14Model), plugin/terway/cni.go:getDatePath and the projection
   computed by parseSetupConf.  Definitions only. *)
From Coq Require Import NArith ZArith List Bool.
From TV Require Import Bits Codec C14Model.
Import ListNotations.
Local Open Scope Z_scope.

(* ---- exactly one default route, primary interface present ------------------------- *)
(* interface name codes: 0 = "", 1 = "eth0", other = another name *)
Definition is_primary (ifc : Z) : bool := (ifc =? 0) || (ifc =? 1).
Record nc := { n_if : Z; n_dr : bool }.

Fixpoint dup_default (seen : bool) (l : list nc) : bool :=
  match l with
  | [] => false
  | c :: r => (n_dr c && seen) || dup_default (seen || n_dr c) r
  end.
Fixpoint set_first_primary (l : list nc) : list nc :=
  match l with
  | [] => []
  | c :: r => if is_primary (n_if c) then {| n_if := n_if c; n_dr := true |} :: r else c :: set_first_primary r
  end.

(* None = error *)
Definition default_for_netconf (l : list nc) : option (list nc) :=
  match l with
  | [] => Some []
  | _ =>
      if dup_default false l then None
      else if negb (existsb (fun c => is_primary (n_if c)) l) then None
      else if existsb n_dr l then Some l else Some (set_first_primary l)
  end.

Definition count_default (l : list nc) : nat := length (filter n_dr l).

(* ---- PodENI allocation -> NetConf: the gateway is derived from the subnet ------------ *)
Record fam := { f_has : bool; f_ip : N; f_net : N; f_plen : Z }.   (* plen < 0: CIDR string empty *)
Record alloc := { a_v4 : fam; a_v6 : fam; a_if : Z; a_dr : bool; a_vid_known : bool; a_vid : Z }.
Record conf := { c_has4 : bool; c_ip4 : N; c_gw4 : N; c_has6 : bool; c_ip6 : N; c_gw6 : N;
                 c_if : Z; c_dr : bool; c_trunk : bool; c_vid : Z }.

Definition fam_gw (w : N) (f : fam) : option (option N) :=   (* None = give up (nil); Some None = family absent *)
  if f_has f then
    if f_plen f <? 0 then None
    else match get_ip_at_neg3 w (f_net f) (Z.to_N (f_plen f)) with
         | Some g => Some (Some g)
         | None => None
         end
  else Some None.

Fixpoint remote_to_rpc (trunk : bool) (l : list alloc) : option (list conf) :=
  match l with
  | [] => Some []
  | a :: r =>
      match fam_gw 32 (a_v4 a), fam_gw 128 (a_v6 a) with
      | Some g4, Some g6 =>
          if trunk && negb (a_vid_known a) then None
          else match remote_to_rpc trunk r with
               | Some cs =>
                   Some ({| c_has4 := f_has (a_v4 a); c_ip4 := if f_has (a_v4 a) then f_ip (a_v4 a) else 0%N;
                            c_gw4 := match g4 with Some g => g | None => 0%N end;
                            c_has6 := f_has (a_v6 a); c_ip6 := if f_has (a_v6 a) then f_ip (a_v6 a) else 0%N;
                            c_gw6 := match g6 with Some g => g | None => 0%N end;
                            c_if := a_if a; c_dr := a_dr a; c_trunk := trunk;
                            c_vid := if trunk then a_vid a else 0 |} :: cs)
               | None => None
               end
      | _, _ => None
      end
  end.

(* ---- datapath choice ---------------------------------------------------------------- *)
(* ip type: 0 VPCIP, 1 VPCENI, 2 ENIMultiIP; datapath: 0 VPCRoute, 2 IPVlan, 3 ExclusiveENI, 4 Vlan; None = panic *)
Definition get_datapath (iptype : Z) (vlan_strip_vlan trunk : bool) : option Z :=
  if iptype =? 0 then Some 0
  else if iptype =? 1 then Some (if trunk then 4 else 3)
  else if iptype =? 2 then Some (if trunk && vlan_strip_vlan then 4 else 2)
  else None.

(* ---- what the plugin recovers -------------------------------------------------------- *)
(* limits: the daemon's, unless the runtime passes a positive rate (bits/s -> bytes/s) *)
Definition limit (daemon_has_pod : bool) (daemon_val rt_rate : Z) : Z :=
  if 0 <? rt_rate then rt_rate / 8 else if daemon_has_pod then daemon_val else 0.
