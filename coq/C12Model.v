(* C12Model.v — daemon/daemon.go:defaultForNetConf, pkg/eni/remote.go:RemoteIPResource.ToRPC
   (gateway derivation reuses C14Model), plugin/terway/cni.go:getDatePath and the projection
   computed by parseSetupConf.  Definitions only. *)
From Coq Require Import NArith ZArith List Bool.
From TV Require Import Bits Codec C14Model.
Import ListNotations.
Local Open Scope Z_scope.

(* ---- exactly one default route, primary interface present ------------------------- *)
(* interface name codes: 0 = "", 1 = "eth0", other = another name *)
Definition is_primary (ifc : Z) : bool := (ifc =? 0) || (ifc =? 1).
Record nc := { n_if : Z; n_dr : bool }.

Fixpoint dup_default (seen : bool) (l : list nc) : bool :=
  match l with
  | [] => false
  | c :: r => (n_dr c && seen) || dup_default (seen || n_dr c) r
  end.
Fixpoint set_first_primary (l : list nc) : list nc :=
  match l with
  | [] => []
  | c :: r => if is_primary (n_if c) then {| n_if := n_if c; n_dr := true |} :: r else c :: set_first_primary r
  end.

(* None = error *)
Definition default_for_netconf (l : list nc) : option (list nc) :=
  match l with
  | [] => Some []
  | _ =>
      if dup_default false l then None
      else if negb (existsb (fun c => is_primary (n_if c)) l) then None
      else if existsb n_dr l then Some l else Some (set_first_primary l)
  end.

Definition count_default (l : list nc) : nat := length (filter n_dr l).

(* ---- PodENI allocation -> NetConf: the gateway is derived from the subnet ------------ *)
Record fam := { f_has : bool; f_ip : N; f_net : N; f_plen : Z }.   (* plen < 0: CIDR string empty *)
Record alloc := { a_v4 : fam; a_v6 : fam; a_if : Z; a_dr : bool; a_vid_known : bool; a_vid : Z }.
Record conf := { c_has4 : bool; c_ip4 : N; c_gw4 : N; c_has6 : bool; c_ip6 : N; c_gw6 : N;
                 c_if : Z; c_dr : bool; c_trunk : bool; c_vid : Z }.

Definition fam_gw (w : N) (f : fam) : option (option N) :=   (* None = give up (nil); Some None = family absent *)
  if f_has f then
    if f_plen f <? 0 then None
    else match get_ip_at_neg3 w (f_net f) (Z.to_N (f_plen f)) with
         | Some g => Some (Some g)
         | None => None
         end
  else Some None.

Fixpoint remote_to_rpc (trunk : bool) (l : list alloc) : option (list conf) :=
  match l with
  | [] => Some []
  | a :: r =>
      match fam_gw 32 (a_v4 a), fam_gw 128 (a_v6 a) with
      | Some g4, Some g6 =>
          if trunk && negb (a_vid_known a) then None
          else match remote_to_rpc trunk r with
               | Some cs =>
                   Some ({| c_has4 := f_has (a_v4 a); c_ip4 := if f_has (a_v4 a) then f_ip (a_v4 a) else 0%N;
                            c_gw4 := match g4 with Some g => g | None => 0%N end;
                            c_has6 := f_has (a_v6 a); c_ip6 := if f_has (a_v6 a) then f_ip (a_v6 a) else 0%N;
                            c_gw6 := match g6 with Some g => g | None => 0%N end;
                            c_if := a_if a; c_dr := a_dr a; c_trunk := trunk;
                            c_vid := if trunk then a_vid a else 0 |} :: cs)
               | None => None
               end
      | _, _ => None
      end
  end.

(* ---- datapath choice ---------------------------------------------------------------- *)
(* ip type: 0 VPCIP, 1 VPCENI, 2 ENIMultiIP; datapath: 0 VPCRoute, 2 IPVlan, 3 ExclusiveENI, 4 Vlan; None = panic *)
Definition get_datapath (iptype : Z) (vlan_strip_vlan trunk : bool) : option Z :=
  if iptype =? 0 then Some 0
  else if iptype =? 1 then Some (if trunk then 4 else 3)
  else if iptype =? 2 then Some (if trunk && vlan_strip_vlan then 4 else 2)
  else None.

(* ---- what the plugin recovers -------------------------------------------------------- *)
(* limits: the daemon's, unless the runtime passes a positive rate (bits/s -> bytes/s) *)
Definition limit (daemon_has_pod : bool) (daemon_val rt_rate : Z) : Z :=
  if 0 <? rt_rate then rt_rate / 8 else if daemon_has_pod then daemon_val else 0.

(* ---- the node-local pool's answer (pkg/eni/local.go LocalIPResource.ToRPC): a copy ------------------ *)
(* one family of a NetConf as the harness prints it: has address, address, has subnet, subnet base as written,
   prefix length, has gateway, gateway *)
Definition conf_fam (has : bool) (ip : N) (hasnet : bool) (base : N) (plen : Z) (hasgw : bool) (gw : N) : list Z :=
  [if has then 1 else 0; if has then Z.of_N ip else 0;
   if hasnet then 1 else 0; if hasnet then Z.of_N base else 0; if hasnet then plen else 0;
   if hasgw then 1 else 0; if hasgw then Z.of_N gw else 0].
(* s4 / s6: the interface carries a subnet of the family although the pod has no address of it *)
Definition local_to_rpc (h4 : bool) (i4 n4 : N) (p4 : Z) (g4 : N) (h6 : bool) (i6 n6 : N) (p6 : Z) (g6 : N) (s4 s6 erdma : bool) : list Z :=
  conf_fam h4 i4 (h4 || s4) n4 p4 (h4 || s4) g4 ++ conf_fam h6 i6 (h6 || s6) n6 p6 (h6 || s6) g6 ++
  [if h4 || s4 then 1 else 0; if h4 || s4 then Z.of_N g4 else 0; 0; 1; 0; if erdma then 1 else 0].

(* ---- the daemon's side of the cluster IPAM (pkg/eni/crdv2.go multiIP) ------------------------------- *)
Record cip := { ci_addr : N; ci_valid : bool; ci_pod : bool; ci_uid : Z }.          (* uid: 0 none, 1 the pod's, 2 another *)
Record cif := { ce_inuse : bool; ce_hp : bool; ce_net4 : N; ce_plen4 : Z; ce_net6 : N; ce_plen6 : Z; ce_v4 : list cip; ce_v6 : list cip }.
Definition ip_match (i : cip) : bool := ci_valid i && ci_pod i && negb (ci_uid i =? 2).
Definition last_match (l : list cip) : option N :=
  match rev (filter ip_match l) with i :: _ => Some (ci_addr i) | [] => None end.
(* walk over the interfaces (the implementation walks a Go map: the inputs hold at most one matching entry per family,
   both on one interface, so the order does not matter): the last match of each family, and the interface of the last match *)
Fixpoint crd_walk (es : list cif) (idx : Z) (acc : option N * option N * option (Z * cif)) : option N * option N * option (Z * cif) :=
  match es with
  | [] => acc
  | e :: r =>
      let '(a4, a6, ae) := acc in
      if ce_inuse e then
        let m4 := last_match (ce_v4 e) in let m6 := last_match (ce_v6 e) in
        crd_walk r (idx + 1)
          (match m4 with Some _ => m4 | None => a4 end, match m6 with Some _ => m6 | None => a6 end,
           match m4, m6 with None, None => ae | _, _ => Some (idx, e) end)
      else crd_walk r (idx + 1) acc
  end.
(* None: the request fails (nothing bound to the pod within the time limit, or an interface without CIDR) *)
Definition crd_multi_ip (erdma_node : bool) (es : list cif) : option (list Z) :=
  match crd_walk es 1 (None, None, None) with
  | (a4, a6, Some (idx, e)) =>
      let bad4 := match a4 with Some _ => ce_plen4 e <? 0 | None => false end in
      let bad6 := match a6 with Some _ => ce_plen6 e <? 0 | None => false end in
      if bad4 || bad6 then None
      else
        let g4 := match a4 with Some _ => get_ip_at_neg3 32 (ce_net4 e) (Z.to_N (ce_plen4 e)) | None => None end in
        let g6 := match a6 with Some _ => get_ip_at_neg3 128 (ce_net6 e) (Z.to_N (ce_plen6 e)) | None => None end in
        let fam (w : N) (a g : option N) (net : N) (plen : Z) :=
          conf_fam (match a with Some _ => true | None => false end) (match a with Some x => x | None => 0%N end)
                   (match a with Some _ => true | None => false end) (net_base w net (Z.to_N plen)) plen
                   (match g with Some _ => true | None => false end) (match g with Some x => x | None => 0%N end) in
        Some (idx :: fam 32%N a4 g4 (ce_net4 e) (ce_plen4 e) ++ fam 128%N a6 g6 (ce_net6 e) (ce_plen6 e) ++
              [match g4 with Some _ => 1 | None => 0 end; match g4 with Some x => Z.of_N x | None => 0 end;
               0; 1; 0; if erdma_node && ce_hp e then 1 else 0])
  | _ => None
  end.
