(* PeModel.v — the per-pod ENI record (PodENI) and the decisions of the two controllers that move it
   (pkg/controller/pod/pod_controller.go, pkg/controller/pod-eni/eni_controller.go): the phase machine,
   the fixed-IP retention rule of the record collector and the ownership test of the leaked-interface
   collector.  Definitions only. *)
From Coq Require Import ZArith List Bool.
From TV Require Import Codec.
Import ListNotations.
Local Open Scope Z_scope.

(* phases: 0 Initial, 1 Bind, 2 Detaching, 3 Unbind, 4 Binding, 5 Deleting *)
(* an allocation: strategy 1 = TTL (a_ttl seconds, negative = unparsable / negative), 2 = Never, 3 = anything else *)
Record alloc := mkAl { a_eni : Z; a_ip : Z; a_fixed : bool; a_strat : Z; a_ttl : Z }.
Record prec := mkRec { r_name : Z; r_phase : Z; r_uid : Z; r_node : Z; r_del : bool; r_fin : bool; r_allocs : list alloc; r_seen : Z }.
(* a pod: kind 5 = does not ask for a per-pod interface *)
Record podv := mkPv { q_name : Z; q_uid : Z; q_node : Z; q_exited : bool; q_kind : Z }.

Definition have_fixed (l : list alloc) : bool := existsb a_fixed l.

(* ---- the documented phase machine ------------------------------------------------------------------------ *)
Definition edge_ok (p c : Z) : bool :=
  (p =? c) || ((p =? 0) && (c =? 1)) || ((p =? 1) && (c =? 2)) || ((p =? 2) && (c =? 3))
  || ((p =? 3) && (c =? 4)) || ((p =? 4) && (c =? 1)) || (c =? 5).

(* ---- the pod controller (Reconcile -> podCreate / podDelete) on one name -------------------------------- *)
Inductive pact := PNone | PCreate | PSetPhase (p : Z) | PDelete | PSetUid | PSetNode | PRequeue.
Definition pod_ctl (pod : option podv) (r : option prec) : pact :=
  match pod with
  | None => (* podDelete *)
      match r with
      | None => PNone
      | Some r => if (r_phase r =? 5) || r_del r then PNone
                  else if have_fixed (r_allocs r) then (if (r_phase r =? 2) || (r_phase r =? 3) then PNone else PSetPhase 2)
                  else PSetPhase 5
      end
  | Some p =>
      if q_exited p then
        match r with
        | None => PNone
        | Some r => if (r_phase r =? 5) || r_del r then PNone
                    else if have_fixed (r_allocs r) then (if (r_phase r =? 2) || (r_phase r =? 3) then PNone else PSetPhase 2)
                    else PSetPhase 5
        end
      else if q_kind p =? 5 then PNone
      else match r with
           | None => PCreate
           | Some r =>
               if r_del r then PRequeue
               else if r_phase r =? 3 then
                 (if negb (r_node r =? 0) && negb (r_node r =? q_node p) then PSetNode
                  else if r_uid r =? q_uid p then PSetPhase 4 else PSetUid)
               else if r_phase r =? 1 then
                 (if r_uid r =? q_uid p then PNone
                  else if have_fixed (r_allocs r) then PSetPhase 2 else PDelete)
               else PRequeue
           end
  end.

(* ---- the PodENI controller on one record ----------------------------------------------------------------- *)
Inductive eact := ENone | EAttach | EDetach | EDeleteObj | EFinalize | EError.
Definition eni_ctl (pod : option podv) (fixed_name : bool) (r : prec) : eact :=
  if r_del r then (if r_fin r then EFinalize else ENone)
  else if (r_phase r =? 1) || (r_phase r =? 3) then ENone
  else if r_phase r =? 2 then EDetach
  else if r_phase r =? 5 then EDeleteObj
  else (* Initial or Binding *)
    match pod with
    | None => EError
    | Some _ =>
        if (r_phase r =? 0) || (fixed_name && have_fixed (r_allocs r)) then EAttach else EError
    end.

(* which phases make the cloud detach or delete the record's interfaces *)
Definition eact_pulls (a : eact) : bool := match a with EDetach | EFinalize => true | _ => false end.

(* ---- the record collector: keep a fixed-IP record? (eni_controller.go:569-622) ------------------------------ *)
(* age : seconds since the pod was last seen; -1 = never recorded (the zero time: always expired) *)
Definition alloc_keeps (age : Z) (a : alloc) : bool :=
  if negb (a_fixed a) then false
  else if a_strat a =? 2 then true
  else if a_strat a =? 1 then (a_ttl a <? 0) || ((0 <=? age) && (age <? a_ttl a))
  else true.
Definition gc_keep (age : Z) (l : list alloc) : bool :=
  fold_left (fun keep a =>
     if negb (a_fixed a) then keep
     else if a_strat a =? 2 then true
     else if a_strat a =? 1 then
       (if (a_ttl a <? 0) || ((0 <=? age) && (age <? a_ttl a)) then true else keep)
     else true) l false.
Definition requires_rec (p : podv) : bool := negb (q_exited p) && negb (q_kind p =? 5).
(* the phase the collector leaves the record in *)
Definition gc_rec (pod : option podv) (r : prec) : Z :=
  match pod with
  | Some p => if requires_rec p then r_phase r
              else if (r_phase r =? 2) || (r_phase r =? 5) || (r_phase r =? 4) then r_phase r
              else if gc_keep (r_seen r) (r_allocs r) then r_phase r else 5
  | None => if (r_phase r =? 2) || (r_phase r =? 5) || (r_phase r =? 4) then r_phase r
            else if gc_keep (r_seen r) (r_allocs r) then r_phase r else 5
  end.

(* ---- the leaked-interface collector (eni_controller.go:442-513, 794-812) ------------------------------------ *)
(* tags: bit 0 = cluster-id tag with this cluster's id, bit 1 = creator tag of the terway controller,
   bit 2 = cluster-id tag with another value, bit 3 = unrelated tags *)
Definition bit (n k : Z) : bool := (n / 2 ^ k) mod 2 =? 1.
Definition ours (tags : Z) : bool := bit tags 0 && bit tags 1 && negb (bit tags 2).
Definition leak_victim (tags age : Z) (referenced : bool) : bool := ours tags && (600 <=? age) && negb referenced.
