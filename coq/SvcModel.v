(* SvcModel.v — the daemon's RPC service (daemon/daemon.go: AllocIP, ReleaseIP, GetIPInfo, gcPods) over
   the resource store, as pure functions; the pool underneath is PoolModel.  Definitions only. *)
From Coq Require Import ZArith List Bool.
From TV Require Import PoolModel.
Import ListNotations.
Local Open Scope Z_scope.

(* what the latest successful ADD stored for a pod: sandbox id and the allocation (one ENI-IP item) *)
Record srec := mkRec { k_cid : Z; k_eni : Z; k_a4 : Z; k_a6 : Z }.
Definition store := list (Z * srec).          (* pod -> record *)

Fixpoint sget (p : Z) (s : store) : option srec :=
  match s with [] => None | (k, r) :: t => if k =? p then Some r else sget p t end.
Definition sdel (p : Z) (s : store) : store := filter (fun x => negb (fst x =? p)) s.
Definition sput (p : Z) (r : srec) (s : store) : store := (p, r) :: sdel p s.

(* the pending-pod set: LoadOrStore at entry, Delete when the handler returns (daemon.go:111-120) *)
Definition enter (pend : list Z) (p : Z) : option (list Z) := if memz p pend then None else Some (p :: pend).
Definition leave (pend : list Z) (p : Z) : list Z := remz p pend.

(* ReleaseIP (daemon.go:296-388) for a pod the API still knows, with IPStickTime = 0:
   what is released, and the store afterwards *)
Definition del_effect (s : store) (p cid : Z) : list (Z * Z * Z) * store :=
  match sget p s with
  | Some r => if k_cid r =? cid then ([(k_eni r, k_a4 r, k_a6 r)], sdel p s) else ([], s)
  | None => ([], s)
  end.
(* GetIPInfo (daemon.go:390-470): the stored configuration, unless the sandbox id differs *)
Definition get_reply (s : store) (p cid : Z) : Z * Z * Z :=
  match sget p s with
  | Some r => if k_cid r =? cid then (k_eni r, k_a4 r, k_a6 r) else (0, 0, 0)
  | None => (0, 0, 0)
  end.
(* AllocIP: the request is pinned to the interface of the stored allocation (daemon.go:197-201) *)
Definition add_pin (s : store) (p : Z) : Z := match sget p s with Some r => k_eni r | None => 0 end.
Definition add_store (s : store) (p cid eni a4 a6 : Z) : store := sput p (mkRec cid eni a4 a6) s.

(* one pass of gcPods (daemon.go:522-658) over a store listing, with IPStickTime = 0.
   [live p]: the node's pod list has p with a running sandbox;  [api p]: Some true = exists,
   Some false = does not exist, None = the lookup failed;  [clean p]: kernel rule cleanup succeeded.
   Result: the pods whose allocation is released and whose record is deleted, and whether the pass
   ran to the end (any cleanup error returns from the whole pass, daemon.go:618-621). *)
Fixpoint gc_pass (live : Z -> bool) (api : Z -> option bool) (clean : Z -> bool) (l : list Z) : list Z * bool :=
  match l with
  | [] => ([], true)
  | p :: t =>
      if live p then gc_pass live api clean t
      else match api p with
           | Some false =>
               if clean p then let '(r, ok) := gc_pass live api clean t in (p :: r, ok)
               else ([], false)
           | _ => gc_pass live api clean t
           end
  end.
Definition gc_store (s : store) (removed : list Z) : store := filter (fun x => negb (memz (fst x) removed)) s.
