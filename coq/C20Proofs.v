(* C20Proofs.v *)
From Coq Require Import ZArith List Bool Lia.
From TV Require Import Codec C20Model.
Import ListNotations.
Local Open Scope Z_scope.

(* ---- an induction principle for the nested type ---------------------------------- *)
Section JsonInd.
  Variable P : json -> Prop.
  Hypothesis Hnull : P JNull.
  Hypothesis Hbool : forall b, P (JBool b).
  Hypothesis Hnum : forall n, P (JNum n).
  Hypothesis Hstr : forall s, P (JStr s).
  Hypothesis Harr : forall l, Forall P l -> P (JArr l).
  Hypothesis Hobj : forall l, Forall (fun kv => P (snd kv)) l -> P (JObj l).
  Fixpoint json_ind' (j : json) : P j :=
    match j with
    | JNull => Hnull | JBool b => Hbool b | JNum n => Hnum n | JStr s => Hstr s
    | JArr l => Harr l ((fix go (l : list json) : Forall P l :=
                           match l with [] => Forall_nil _ | x :: r => Forall_cons _ (json_ind' x) (go r) end) l)
    | JObj l => Hobj l ((fix go (l : obj) : Forall (fun kv => P (snd kv)) l :=
                           match l with [] => Forall_nil _ | (k, v) :: r => Forall_cons (k, v) (json_ind' v) (go r) end) l)
    end.
End JsonInd.

Lemma keq_refl k : list_eqb k k = true. Proof. apply list_eqb_spec; reflexivity. Qed.
Lemma keq_neq k k' : k <> k' -> list_eqb k k' = false.
Proof. intros H. destruct (list_eqb k k') eqn:E; [apply list_eqb_spec in E; contradiction | reflexivity]. Qed.
Lemma keq_true k k' : list_eqb k k' = true -> k = k'. Proof. apply list_eqb_spec. Qed.

Definition keys (d : obj) : list key := map fst d.

(* the object-level loops, named *)
Definition prune_obj : obj -> obj :=
  fix go (l : obj) : obj :=
    match l with [] => [] | (k, v) :: r => if is_null v then go r else (k, prune v) :: go r end.
Definition merge_obj : obj -> obj -> obj :=
  fix go (p : obj) (d : obj) : obj :=
    match p with
    | [] => d
    | (k, v) :: r =>
        go r (if is_null v then del k d
              else match get k d with
                   | None => set k (prune v) d
                   | Some c => if is_null c then set k (prune v) d else set k (merge c v) d
                   end)
    end.
Lemma prune_obj_eq l : prune (JObj l) = JObj (prune_obj l). Proof. reflexivity. Qed.
Lemma merge_obj_eq d p : merge (JObj d) (JObj p) = JObj (merge_obj p d). Proof. reflexivity. Qed.

Definition upd1 (d : obj) (k : key) (v : json) : obj :=
  if is_null v then del k d
  else match get k d with
       | None => set k (prune v) d
       | Some c => if is_null c then set k (prune v) d else set k (merge c v) d
       end.
Lemma merge_obj_cons k v r d : merge_obj ((k, v) :: r) d = merge_obj r (upd1 d k v).
Proof. reflexivity. Qed.

(* ---- finite-map facts ------------------------------------------------------------- *)
Lemma get_del_same k d : get k (del k d) = None.
Proof. induction d as [|[k' v] d IH]; cbn [del get]; [reflexivity|].
  destruct (list_eqb k k') eqn:E; [exact IH|]. cbn [get]. rewrite E. exact IH. Qed.
Lemma get_del_other k k' d : k <> k' -> get k' (del k d) = get k' d.
Proof. intros Hne. induction d as [|[k2 v] d IH]; cbn [del get]; [reflexivity|].
  destruct (list_eqb k k2) eqn:E.
  - apply keq_true in E; subst k2. rewrite (keq_neq k' k) by congruence. exact IH.
  - cbn [get]. rewrite IH. reflexivity. Qed.
Lemma get_set_same k v d : get k (set k v d) = Some v.
Proof. induction d as [|[k' v'] d IH]; cbn [set get]; [rewrite keq_refl; reflexivity|].
  destruct (list_eqb k k') eqn:E; cbn [get]; [rewrite keq_refl; reflexivity | rewrite E; exact IH]. Qed.
Lemma get_set_other k k' v d : k <> k' -> get k' (set k v d) = get k' d.
Proof. intros Hne. induction d as [|[k2 v2] d IH]; cbn [set get].
  - rewrite (keq_neq k' k) by congruence. reflexivity.
  - destruct (list_eqb k k2) eqn:E.
    + apply keq_true in E; subst k2. cbn [get]. rewrite (keq_neq k' k) by congruence. apply get_del_other; exact Hne.
    + cbn [get]. rewrite IH. reflexivity. Qed.

Lemma del_absent k d : get k d = None -> del k d = d.
Proof. induction d as [|[k' v] d IH]; cbn [del get]; [reflexivity|].
  destruct (list_eqb k k'); [discriminate|]. intros H. rewrite (IH H). reflexivity. Qed.

Lemma get_none_notin k d : get k d = None <-> ~ In k (keys d).
Proof. induction d as [|[k' v] d IH]; cbn [get keys map In fst]; [tauto|].
  destruct (list_eqb k k') eqn:E.
  - apply keq_true in E. split; [discriminate | intros H; exfalso; apply H; left; congruence].
  - rewrite IH. split; [intros H [H1|H1]; [subst; rewrite keq_refl in E; discriminate | exact (H H1)] | tauto]. Qed.

Lemma set_same k v d : NoDup (keys d) -> get k d = Some v -> set k v d = d.
Proof. induction d as [|[k' v'] d IH]; cbn [set get keys map fst]; [discriminate|]. intros Hn.
  inversion Hn as [|? ? Hni Hnd]; subst.
  destruct (list_eqb k k') eqn:E.
  - apply keq_true in E; subst k'. intros H; inversion H; subst. f_equal. apply del_absent. apply get_none_notin. exact Hni.
  - intros H. rewrite (IH Hnd H). reflexivity. Qed.

Lemma keys_del_incl k d : incl (keys (del k d)) (keys d).
Proof. induction d as [|[k' v] d IH]; cbn [del keys map fst]; [apply incl_refl|].
  destruct (list_eqb k k'); [apply incl_tl; exact IH|]. cbn [map fst].
  apply incl_cons; [left; reflexivity | apply incl_tl; exact IH]. Qed.
Lemma nodup_del k d : NoDup (keys d) -> NoDup (keys (del k d)).
Proof. induction d as [|[k' v] d IH]; cbn [del keys map fst]; intros H; [constructor|].
  inversion H as [|? ? Hni Hnd]; subst. destruct (list_eqb k k'); [apply IH; exact Hnd|].
  cbn [map fst]. constructor; [|apply IH; exact Hnd]. intros Hin. apply Hni. exact (keys_del_incl k d k' Hin). Qed.
Lemma nodup_set k v d : NoDup (keys d) -> NoDup (keys (set k v d)).
Proof. induction d as [|[k' v'] d IH]; cbn [set keys map fst]; intros H; [repeat constructor; tauto|].
  inversion H as [|? ? Hni Hnd]; subst. destruct (list_eqb k k') eqn:E; cbn [map fst].
  - apply keq_true in E; subst k'. constructor; [|apply nodup_del; exact Hnd].
    intros Hin. apply Hni. exact (keys_del_incl k d k Hin).
  - constructor; [|apply IH; exact Hnd]. intros Hin.
    assert (Hg : get k' (set k v d) <> None) by (rewrite get_none_notin; tauto).
    rewrite get_set_other in Hg by (intros ->; rewrite keq_refl in E; discriminate).
    apply Hg. apply get_none_notin. exact Hni. Qed.

Lemma nodup_upd1 d k v : NoDup (keys d) -> NoDup (keys (upd1 d k v)).
Proof. intros H. unfold upd1. destruct (is_null v); [apply nodup_del; exact H|].
  destruct (get k d) as [c|]; [destruct (is_null c)|]; apply nodup_set; exact H. Qed.

Lemma get_upd1_other d k v k' : k <> k' -> get k' (upd1 d k v) = get k' d.
Proof. intros Hne. unfold upd1. destruct (is_null v); [apply get_del_other; exact Hne|].
  destruct (get k d) as [c|]; [destruct (is_null c)|]; apply get_set_other; exact Hne. Qed.

(* what one overlay member does to its own key *)
Definition upd_val (cur : option json) (v : json) : option json :=
  if is_null v then None
  else Some (match cur with
             | None => prune v
             | Some c => if is_null c then prune v else merge c v
             end).
Lemma get_upd1_same d k v : get k (upd1 d k v) = upd_val (get k d) v.
Proof. unfold upd1, upd_val. destruct (is_null v); [apply get_del_same|].
  destruct (get k d) as [c|]; [destruct (is_null c)|]; apply get_set_same. Qed.

(* keys absent from the overlay keep the base value; overlay members act on their own key *)
Lemma merge_obj_get_absent p : forall d k, ~ In k (keys p) -> get k (merge_obj p d) = get k d.
Proof. induction p as [|[k' v] p IH]; intros d k Hn; [reflexivity|]. rewrite merge_obj_cons.
  cbn [keys map fst In] in Hn. rewrite IH by tauto. apply get_upd1_other. intros ->. tauto. Qed.

Lemma merge_obj_get_present p : forall d k v, NoDup (keys p) -> In (k, v) p ->
  get k (merge_obj p d) = upd_val (get k d) v.
Proof. induction p as [|[k' v'] p IH]; intros d k v Hn Hin; [contradiction|]. rewrite merge_obj_cons.
  cbn [keys map fst] in Hn. inversion Hn as [|? ? Hni Hnd]; subst.
  destruct Hin as [E|Hin].
  - inversion E; subst. rewrite merge_obj_get_absent by exact Hni. apply get_upd1_same.
  - rewrite (IH _ _ _ Hnd Hin). rewrite get_upd1_other; [reflexivity|].
    intros ->. apply Hni. change k with (fst (k, v)). apply in_map. exact Hin. Qed.

Lemma nodup_merge_obj p : forall d, NoDup (keys d) -> NoDup (keys (merge_obj p d)).
Proof. induction p as [|[k v] p IH]; intros d H; [exact H|]. rewrite merge_obj_cons. apply IH, nodup_upd1, H. Qed.

(* ---- well-formed documents: unique member names at every level ---------------------- *)
Fixpoint wf (j : json) : Prop :=
  match j with
  | JObj l => NoDup (map fst l) /\ (fix go (l : obj) : Prop := match l with [] => True | (_, v) :: r => wf v /\ go r end) l
  | JArr l => (fix go (l : list json) : Prop := match l with [] => True | v :: r => wf v /\ go r end) l
  | _ => True
  end.
Definition wf_members (l : obj) : Prop := Forall (fun kv => wf (snd kv)) l.
Lemma wf_obj l : wf (JObj l) <-> NoDup (keys l) /\ wf_members l.
Proof. cbn [wf]. unfold keys, wf_members. split; intros [H1 H2]; split; try exact H1.
  - induction l as [|[k v] l IH]; [constructor|]. destruct H2 as [Hv Hr]. constructor; [exact Hv | apply IH; [inversion H1; assumption | exact Hr]].
  - induction l as [|[k v] l IH]; [exact I|]. inversion H2; subst. split; [assumption | apply IH; [inversion H1; assumption | assumption]]. Qed.
Lemma wf_arr l : wf (JArr l) <-> Forall wf l.
Proof. cbn [wf]. split.
  - induction l as [|v l IH]; [constructor|]. intros [H1 H2]. constructor; [exact H1 | exact (IH H2)].
  - induction l as [|v l IH]; [intros; exact I|]. intros H; inversion H; subst. split; [assumption | apply IH; assumption]. Qed.

Lemma is_null_prune v : is_null (prune v) = is_null v.
Proof. destruct v; reflexivity. Qed.
Lemma merge_nonnull c v : is_null v = false -> is_null (merge c v) = false.
Proof. destruct v; try discriminate; destruct c; reflexivity. Qed.

Lemma prune_obj_keys_incl l : incl (keys (prune_obj l)) (keys l).
Proof. induction l as [|[k v] l IH]; [apply incl_refl|]. cbn [prune_obj keys map fst].
  destruct (is_null v); [apply incl_tl; exact IH|]. cbn [map fst]. apply incl_cons; [left; reflexivity | apply incl_tl; exact IH]. Qed.
Lemma nodup_prune_obj l : NoDup (keys l) -> NoDup (keys (prune_obj l)).
Proof. induction l as [|[k v] l IH]; intros H; [constructor|]. cbn [prune_obj keys map fst] in *.
  inversion H as [|? ? Hni Hnd]; subst. destruct (is_null v); [apply IH; exact Hnd|]. cbn [map fst].
  constructor; [|apply IH; exact Hnd]. intros Hin. apply Hni. exact (prune_obj_keys_incl l k Hin). Qed.
Lemma get_prune_obj l : NoDup (keys l) -> forall k v, In (k, v) l ->
  get k (prune_obj l) = if is_null v then None else Some (prune v).
Proof. induction l as [|[k' v'] l IH]; intros Hn k v Hin; [contradiction|]. cbn [keys map fst] in Hn.
  inversion Hn as [|? ? Hni Hnd]; subst. cbn [prune_obj]. destruct Hin as [E|Hin].
  - inversion E; subst. destruct (is_null v) eqn:En.
    + apply get_none_notin. intros H. apply Hni. exact (prune_obj_keys_incl l k H).
    + cbn [get]. rewrite keq_refl. reflexivity.
  - assert (Hne : k <> k') by (intros ->; apply Hni; change k' with (fst (k', v)); apply in_map; exact Hin).
    destruct (is_null v'); [apply IH; assumption|]. cbn [get]. rewrite (keq_neq k k' Hne). apply IH; assumption. Qed.

(* a second application changes nothing, member by member *)
Lemma merge_obj_fix p : forall d, NoDup (keys p) -> NoDup (keys d) ->
  (forall k v, In (k, v) p ->
     if is_null v then get k d = None
     else exists x, get k d = Some x /\ is_null x = false /\ merge x v = x) ->
  merge_obj p d = d.
Proof. induction p as [|[k v] p IH]; intros d Hnp Hnd H; [reflexivity|]. rewrite merge_obj_cons.
  cbn [keys map fst] in Hnp. inversion Hnp as [|? ? Hni Hnp']; subst.
  assert (Hu : upd1 d k v = d).
  { specialize (H k v (or_introl eq_refl)). unfold upd1. destruct (is_null v).
    - apply del_absent; exact H.
    - destruct H as (x & Hg & Hx & Hm). rewrite Hg, Hx, Hm. apply set_same; assumption. }
  rewrite Hu. apply IH; try assumption. intros k' v' Hin. apply H. right. exact Hin. Qed.

Lemma get_in k d v : get k d = Some v -> In (k, v) d.
Proof. induction d as [|[k' v'] d IH]; cbn [get]; [discriminate|].
  destruct (list_eqb k k') eqn:E; [apply keq_true in E; intros H; inversion H; subst; left; reflexivity | intros H; right; exact (IH H)]. Qed.

Lemma flat_elems_prune l :
  forallb (fun e => match e with JObj _ | JArr _ => false | _ => true end) l = true -> map prune l = l.
Proof. induction l as [|e l IH]; [reflexivity|]. cbn [forallb map]. intros H. apply andb_prop in H as [H1 H2].
  rewrite (IH H2). destruct e; try discriminate; reflexivity. Qed.

Definition flat_members : obj -> bool :=
  fix go (l : obj) : bool := match l with [] => true | (_, v) :: r => flat_arrays v && go r end.
Lemma flat_obj l : flat_arrays (JObj l) = true <-> Forall (fun kv => flat_arrays (snd kv) = true) l.
Proof. change (flat_arrays (JObj l)) with (flat_members l).
  induction l as [|[k v] l IH]; [split; [constructor | reflexivity]|].
  cbn [flat_members]. rewrite andb_true_iff, IH.
  split; [intros [H1 H2]; constructor; assumption | intros H; inversion H; subst; split; assumption]. Qed.

(* THE idempotence lemma: applying an overlay value to what it produced changes nothing *)
Lemma merge_twice v :
  wf v -> flat_arrays v = true -> is_null v = false ->
  merge (prune v) v = prune v /\ (forall c, wf c -> merge (merge c v) v = merge c v).
Proof.
  induction v as [| b | n | s | l IHl | p IHp] using json_ind'; intros Hwf Hflat Hnn; try discriminate.
  - split; [reflexivity | intros c _; destruct c; reflexivity].
  - split; [reflexivity | intros c _; destruct c; reflexivity].
  - split; [reflexivity | intros c _; destruct c; reflexivity].
  - (* arrays of scalars are replaced wholesale *)
    cbn [flat_arrays] in Hflat. pose proof (flat_elems_prune l Hflat) as Hp.
    assert (Hpr : prune (JArr l) = JArr l) by (cbn [prune]; rewrite Hp; reflexivity).
    split.
    + rewrite Hpr. cbn [merge]. exact Hpr.
    + intros c _. destruct c; cbn [merge]; rewrite ?Hp; cbn [merge prune]; rewrite ?Hp; reflexivity.
  - apply wf_obj in Hwf as [Hnd Hmem]. apply flat_obj in Hflat.
    assert (Hmember : forall k v, In (k, v) p -> is_null v = false ->
              merge (prune v) v = prune v /\ (forall c, wf c -> merge (merge c v) v = merge c v)).
    { intros k v Hin Hv. unfold wf_members in Hmem. rewrite Forall_forall in IHp, Hmem, Hflat.
      apply (IHp (k, v) Hin); [apply (Hmem (k, v) Hin) | apply (Hflat (k, v) Hin) | exact Hv]. }
    assert (Hpart1 : merge (prune (JObj p)) (JObj p) = prune (JObj p)).
    { rewrite prune_obj_eq, merge_obj_eq. f_equal. apply merge_obj_fix; [exact Hnd | apply nodup_prune_obj; exact Hnd|].
      intros k v Hin. rewrite (get_prune_obj p Hnd k v Hin). destruct (is_null v) eqn:En; [reflexivity|].
      exists (prune v). split; [reflexivity|]. split; [rewrite is_null_prune; exact En|].
      apply (Hmember k v Hin En). }
    split; [exact Hpart1|].
    intros c Hc. destruct c as [| b | n | s | l | d]; try exact Hpart1.
    apply wf_obj in Hc as [Hdn Hdm]. rewrite !merge_obj_eq. f_equal.
    apply merge_obj_fix; [exact Hnd | apply nodup_merge_obj; exact Hdn|].
    intros k v Hin. rewrite (merge_obj_get_present p d k v Hnd Hin). unfold upd_val.
    destruct (is_null v) eqn:En; [reflexivity|].
    destruct (Hmember k v Hin En) as [H1 H2].
    destruct (get k d) as [c'|] eqn:Eg.
    + destruct (is_null c') eqn:Ec.
      * exists (prune v). split; [reflexivity|]. split; [rewrite is_null_prune; exact En | exact H1].
      * exists (merge c' v). split; [reflexivity|]. split; [apply merge_nonnull; exact En|].
        apply H2. apply get_in in Eg. unfold wf_members in Hdm. rewrite Forall_forall in Hdm. exact (Hdm (k, c') Eg).
    + exists (prune v). split; [reflexivity|]. split; [rewrite is_null_prune; exact En | exact H1].
Qed.

Lemma merge_idempotent d p :
  wf (JObj d) -> wf (JObj p) -> flat_arrays (JObj p) = true ->
  merge (merge (JObj d) (JObj p)) (JObj p) = merge (JObj d) (JObj p).
Proof. intros Hd Hp Hf. exact (proj2 (merge_twice (JObj p) Hp Hf eq_refl) (JObj d) Hd). Qed.

(* without the schema hypothesis the library's asymmetric null pruning breaks it *)
Lemma merge_idempotent_needs_flat :
  exists d p, wf (JObj d) /\ wf (JObj p) /\
    merge (merge (JObj d) (JObj p)) (JObj p) <> merge (JObj d) (JObj p).
Proof.
  exists [([97], JObj [([121], JNum 1)])], [([97], JArr [JObj [([120], JNull)]])].
  split; [cbn; repeat constructor; tauto|]. split; [cbn; repeat constructor; tauto|].
  vm_compute. discriminate.
Qed.

Lemma merge_empty_overlay d : merge (JObj d) (JObj []) = JObj d.
Proof. reflexivity. Qed.

Lemma merge_absent_kept d p k : ~ In k (keys p) ->
  match merge (JObj d) (JObj p) with JObj r => get k r = get k d | _ => False end.
Proof. intros H. rewrite merge_obj_eq. apply merge_obj_get_absent. exact H. Qed.

Lemma merge_member d p k v : NoDup (keys p) -> In (k, v) p ->
  match merge (JObj d) (JObj p) with JObj r => get k r = upd_val (get k d) v | _ => False end.
Proof. intros Hn Hin. rewrite merge_obj_eq. apply merge_obj_get_present; assumption. Qed.

(* ---- CNI chain ------------------------------------------------------------------------ *)
Ltac step_cases H :=
  unfold step_plugin in H;
  repeat match type of H with
         | context [match ?x with _ => _ end] => destruct x eqn:?
         | context [if ?x then _ else _] => destruct x eqn:?
         end;
  try discriminate; inversion H; subst; clear H.

Fixpoint kept (f : feat) (ps : list plugin) (idx : Z) : list Z :=
  match ps with
  | [] => []
  | p :: r => match p_type p with
              | PCilium => if f_ebpf f then idx :: kept f r (idx + 1) else kept f r (idx + 1)
              | _ => idx :: kept f r (idx + 1)
              end
  end.

Lemma run_order f ps : forall s idx s',
  run_plugins f s idx ps = COk s' -> map o_idx (c_out s') = map o_idx (c_out s) ++ kept f ps idx.
Proof.
  induction ps as [|p r IH]; intros s idx s' H; cbn [run_plugins kept] in *.
  - inversion H; subst. rewrite app_nil_r. reflexivity.
  - destruct (step_plugin f s idx p) as [s1|] eqn:Es; [|discriminate].
    rewrite (IH _ _ _ H). clear IH H.
    step_cases Es; cbn [c_out]; rewrite ?map_app; cbn [map o_idx]; rewrite <- ?app_assoc; try reflexivity;
      try (rewrite Heqb in *; discriminate).
Qed.

Definition out_ok (f : feat) (o : outp) : Prop :=
  match o_type o with
  | PTerway => if f_ebpf f
               then (exists dp, o_vtype o = Some dp /\ dp <> DNone) /\ o_bw o <> None
               else o_vtype o = None /\ o_bw o = None
  | PCilium => f_ebpf f = true
  | _ => True
  end.

Lemma run_out_ok f ps : forall s idx s',
  Forall (out_ok f) (c_out s) -> run_plugins f s idx ps = COk s' -> Forall (out_ok f) (c_out s').
Proof.
  induction ps as [|p r IH]; intros s idx s' Hs H; cbn [run_plugins] in *.
  - inversion H; subst. exact Hs.
  - destruct (step_plugin f s idx p) as [s1|] eqn:Es; [|discriminate].
    apply (IH _ _ _ (fun x => x) H) || (eapply IH; [|exact H]). clear IH H.
    step_cases Es; cbn [c_out]; try exact Hs;
      (apply Forall_app; split; [exact Hs|]; constructor; [|constructor];
       unfold out_ok; cbn [o_type o_vtype o_bw]; try exact I;
       destruct (f_ebpf f); cbn [negb] in *; try discriminate; try reflexivity;
       try (split; [eexists; split; [reflexivity | discriminate] | discriminate]);
       try (split; reflexivity)).
Qed.

(* the chainer: present whenever the last terway entry selected ipvlan / datapath v2 *)
Fixpoint last_terway_dp (out : list outp) (acc : option dpath) : option dpath :=
  match out with
  | [] => acc
  | o :: r => last_terway_dp r (match o_type o with PTerway => o_vtype o | _ => acc end)
  end.
Definition has_cilium (out : list outp) : bool :=
  existsb (fun o => match o_type o with PCilium => true | _ => false end) out.
Definition needs_chainer (d : option dpath) : bool :=
  match d with Some DIpvlan | Some DV2 => true | _ => false end.

Lemma last_terway_app out o acc :
  last_terway_dp (out ++ [o]) acc = match o_type o with PTerway => o_vtype o | _ => last_terway_dp out acc end.
Proof. revert acc. induction out as [|x out IH]; intros acc; cbn [app last_terway_dp]; [reflexivity | apply IH]. Qed.

Lemma has_cilium_app out o : has_cilium (out ++ [o]) = has_cilium out || match o_type o with PCilium => true | _ => false end.
Proof. unfold has_cilium. rewrite existsb_app. cbn. rewrite orb_false_r. reflexivity. Qed.

Definition chain_inv (s : cstate) : Prop :=
  (c_exist s = true -> has_cilium (c_out s) = true) /\
  (needs_chainer (last_terway_dp (c_out s) None) = true -> c_require s = true).

Lemma run_chain_inv f ps : forall s idx s',
  f_ebpf f = true -> chain_inv s -> run_plugins f s idx ps = COk s' -> chain_inv s'.
Proof.
  induction ps as [|p r IH]; intros s idx s' Hf Hs H; cbn [run_plugins] in *.
  - inversion H; subst. exact Hs.
  - destruct (step_plugin f s idx p) as [s1|] eqn:Es; [|discriminate].
    eapply IH; [exact Hf| |exact H]. clear IH H. destruct Hs as [H1 H2].
    step_cases Es; unfold chain_inv; cbn [c_out c_exist c_require];
      rewrite ?last_terway_app, ?has_cilium_app; cbn [o_type o_vtype needs_chainer];
      try (rewrite Hf in *; discriminate);
      (split; [intros; rewrite ?H1 by assumption; try reflexivity; auto using orb_true_r
              | intros; try reflexivity; try discriminate; auto]).
Qed.

Lemma run_no_cilium_without_ebpf f ps : forall s idx s',
  f_ebpf f = false -> has_cilium (c_out s) = false -> run_plugins f s idx ps = COk s' -> has_cilium (c_out s') = false.
Proof.
  induction ps as [|p r IH]; intros s idx s' Hf Hs H; cbn [run_plugins] in *.
  - inversion H; subst. exact Hs.
  - destruct (step_plugin f s idx p) as [s1|] eqn:Es; [|discriminate].
    eapply IH; [exact Hf| |exact H]. clear IH H.
    step_cases Es; cbn [c_out]; rewrite ?has_cilium_app; cbn [o_type]; rewrite ?Hs; try reflexivity;
      try (rewrite Hf in *; discriminate).
Qed.
