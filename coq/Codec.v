(* Codec.v — the wire format between the Go harness and the extracted model:
   every case is a list of integers; nested lists are length-prefixed. *)
From Coq Require Import ZArith List Bool Lia.
Import ListNotations.
Local Open Scope Z_scope.

Definition bad : list Z := [-999].

(* length-prefixed list: n x1 .. xn rest *)
Definition take_list (l : list Z) : option (list Z * list Z) :=
  match l with
  | n :: r =>
      if n <? 0 then None
      else let k := Z.to_nat n in
           if Nat.ltb (length r) k then None else Some (firstn k r, skipn k r)
  | [] => None
  end.

Definition enc_list (l : list Z) : list Z := Z.of_nat (length l) :: l.

Definition enc_bool (b : bool) : Z := if b then 1 else 0.
Definition dec_bool (z : Z) : bool := negb (z =? 0).

Definition enc_opt (o : option Z) : list Z :=
  match o with Some v => [1; v] | None => [0] end.

Fixpoint list_eqb (a b : list Z) : bool :=
  match a, b with
  | [], [] => true
  | x :: a', y :: b' => (x =? y) && list_eqb a' b'
  | _, _ => false
  end.

Lemma list_eqb_spec a b : list_eqb a b = true <-> a = b.
Proof.
  revert b; induction a as [|x a IH]; intros [|y b]; cbn [list_eqb]; split; intros H;
    try reflexivity; try discriminate.
  - apply andb_true_iff in H as [H1 H2]. apply Z.eqb_eq in H1. apply IH in H2. congruence.
  - inversion H; subst. apply andb_true_iff; split; [apply Z.eqb_refl | apply IH; reflexivity].
Qed.

(* take n fixed-size records of k integers each *)
Fixpoint chunk (k : nat) (n : nat) (l : list Z) : list (list Z) :=
  match n with
  | O => []
  | S n' => firstn k l :: chunk k n' (skipn k l)
  end.
