(* C14Proofs.v — lemmas about C14Model. *)
From Coq Require Import NArith ZArith List Bool Lia.
From Coq Require Import ZifyN ZifyNat ZifyBool.
From TV Require Import Bits Sha1 Codec C14Model.
Import ListNotations.
Local Open Scope N_scope.

(* ---- one key ------------------------------------------------------------- *)
Lemma key_match_generic word val m :
  N.land (N.lxor word (N.land val m)) m = 0 <-> N.land word m = N.land val m.
Proof.
  assert (E : N.land (N.lxor word (N.land val m)) m = N.lxor (N.land word m) (N.land val m)).
  { apply N.bits_inj; intros j. rewrite ?N.land_spec, ?N.lxor_spec, ?N.land_spec.
    destruct (N.testbit word j), (N.testbit val j), (N.testbit m j); reflexivity. }
  rewrite E. apply N.lxor_eq_0_iff.
Qed.

Lemma u32_v4_correct off ip plen word :
  plen <= 32 -> ip < 2 ^ 32 -> word < 2 ^ 32 ->
  (key_matches (u32_v4 off ip plen) word = true <-> in_cidr 32 word ip plen).
Proof.
  intros Hp Hi Hw. unfold key_matches, u32_v4; cbn [k_val k_mask].
  rewrite N.eqb_eq, key_match_generic.
  apply mask_eq_iff_in_cidr; assumption.
Qed.

(* ---- 128-bit words ------------------------------------------------------- *)
Lemma word128_testbit x i r :
  N.testbit (word128 x i) r = N.testbit x (r + 32 * (3 - i)) && (r <? 32).
Proof.
  unfold word128. rewrite N.land_spec, N.shiftr_spec', ones_testbit. reflexivity.
Qed.

Lemma word128_land x y i : word128 (N.land x y) i = N.land (word128 x i) (word128 y i).
Proof.
  apply N.bits_inj; intros r.
  rewrite N.land_spec, !word128_testbit, N.land_spec.
  destruct (N.testbit x _), (N.testbit y _), (r <? 32); reflexivity.
Qed.

Lemma words_eq x y :
  x < 2 ^ 128 -> y < 2 ^ 128 ->
  word128 x 0 = word128 y 0 -> word128 x 1 = word128 y 1 ->
  word128 x 2 = word128 y 2 -> word128 x 3 = word128 y 3 -> x = y.
Proof.
  intros Hx Hy H0 H1 H2 H3. apply N.bits_inj; intros j.
  destruct (N.ltb_spec j 128) as [Hj|Hj].
  2:{ rewrite !(testbit_high _ 128) by assumption. reflexivity. }
  assert (Hw : forall i, i <= 3 -> word128 x i = word128 y i).
  { intros i Hi. assert (i = 0 \/ i = 1 \/ i = 2 \/ i = 3) as [->|[->|[->| ->]]] by lia; assumption. }
  set (i := 3 - j / 32). set (r := j mod 32).
  assert (Hr : r < 32) by (subst r; apply N.mod_lt; lia).
  assert (Hjr : j = r + 32 * (3 - i)).
  { subst i r. pose proof (N.div_mod j 32). assert (j / 32 <= 3).
    { apply N.lt_succ_r. apply N.div_lt_upper_bound; lia. } lia. }
  assert (Hb : N.testbit (word128 x i) r = N.testbit (word128 y i) r)
    by (rewrite Hw; [reflexivity | subst i; lia]).
  rewrite !word128_testbit in Hb.
  assert (Hlt : (r <? 32) = true) by (apply N.ltb_lt; exact Hr).
  rewrite Hlt, !andb_true_r, <- Hjr in Hb. exact Hb.
Qed.

Lemma v6_key_step src dst ip plen i :
  i <= 3 ->
  let m := mask 128 plen in
  (forallb (fun k => key_matches k (ipv6_word src dst (k_off k)))
     (let mw := word128 m i in
      if mw =? 0 then []
      else [{| k_off := (8 + 4 * Z.of_N i)%Z; k_val := word128 (N.land ip m) i; k_mask := mw |}])
   = true
   <-> word128 (N.land src m) i = word128 (N.land ip m) i).
Proof.
  intros Hi m. cbv zeta. rewrite !word128_land.
  destruct (N.eqb_spec (word128 m i) 0) as [E|E].
  - rewrite E, !N.land_0_r. cbn. split; reflexivity.
  - cbn [forallb]. unfold key_matches. cbn [k_off k_val k_mask]. rewrite andb_true_r, N.eqb_eq.
    assert (Hword : ipv6_word src dst (8 + 4 * Z.of_N i)%Z = word128 src i).
    { assert (i = 0 \/ i = 1 \/ i = 2 \/ i = 3) as [->|[->|[->| ->]]] by lia; reflexivity. }
    rewrite Hword. apply key_match_generic.
Qed.

Lemma u32_v6_src_correct src dst ip plen :
  plen <= 128 -> ip < 2 ^ 128 -> src < 2 ^ 128 ->
  (keys_match (ipv6_word src dst) (u32_v6_src ip plen) = true <-> in_cidr 128 src ip plen).
Proof.
  intros Hp Hi Hs.
  rewrite <- (mask_eq_iff_in_cidr 128 plen src ip Hp Hs Hi).
  unfold keys_match, u32_v6_src. cbn [flat_map]. rewrite app_nil_r.
  rewrite !forallb_app, !andb_true_iff.
  rewrite (v6_key_step src dst ip plen 0), (v6_key_step src dst ip plen 1),
          (v6_key_step src dst ip plen 2), (v6_key_step src dst ip plen 3) by lia.
  split.
  - intros (H0 & H1 & H2 & H3).
    apply words_eq; try assumption; apply land_mask_lt; exact Hp.
  - intros ->. repeat split; reflexivity.
Qed.

(* ---- gateway ------------------------------------------------------------- *)
Lemma land_mask_div w p a :
  p <= w -> a < 2 ^ w -> N.land a (mask w p) = a / 2 ^ (w - p) * 2 ^ (w - p).
Proof.
  intros Hp Ha. rewrite <- N.shiftr_div_pow2, <- N.shiftl_mul_pow2.
  apply N.bits_inj; intros j.
  rewrite N.land_spec, mask_testbit by exact Hp.
  destruct (N.leb_spec (w - p) j) as [H|H].
  - rewrite N.shiftl_spec_high' by exact H. rewrite N.shiftr_spec'.
    replace (j - (w - p) + (w - p)) with j by lia. cbn [andb].
    destruct (N.ltb_spec j w) as [H2|H2]; [apply andb_true_r|].
    rewrite (testbit_high a w j Ha H2). reflexivity.
  - rewrite N.shiftl_spec_low by exact H. cbn [andb]. apply andb_false_r.
Qed.

Lemma lor_ones_low q n : N.lor (q * 2 ^ n) (ones n) = q * 2 ^ n + ones n.
Proof.
  assert (Hz : N.land (q * 2 ^ n) (ones n) = 0).
  { unfold ones. rewrite N.sub_1_r, <- N.ones_equiv, N.land_ones.
    apply N.mod_mul. apply N.pow_nonzero. lia. }
  rewrite N.add_nocarry_lxor by exact Hz. symmetry. apply N.lxor_lor. exact Hz.
Qed.

Lemma pow2_pos n : 0 < 2 ^ n.
Proof. apply N.neq_0_lt_0, N.pow_nonzero. lia. Qed.

Lemma gateway_correct w net plen :
  plen <= w -> net < 2 ^ w ->
  get_ip_at_neg3 w net plen = gateway_spec w net plen.
Proof.
  intros Hp Hn. unfold get_ip_at_neg3, gateway_spec, last_addr, net_base.
  rewrite (land_mask_div w plen net Hp Hn), lor_ones_low. unfold ones.
  set (S := 2 ^ (w - plen)). set (q := net / S).
  assert (HS : 0 < S) by apply pow2_pos.
  assert (Hsplit : 2 ^ w = 2 ^ plen * S).
  { subst S. rewrite <- N.pow_add_r. f_equal. lia. }
  assert (Hq : q < 2 ^ plen).
  { subst q. apply N.div_lt_upper_bound; [lia|]. rewrite N.mul_comm, <- Hsplit. exact Hn. }
  assert (Hlast : q * S + S <= 2 ^ w) by (rewrite Hsplit; nia).
  destruct (N.leb_spec (plen + 2) w) as [Hc|Hc].
  - (* room for a gateway: S >= 4 *)
    assert (HS4 : 4 <= S).
    { subst S. change 4 with (2 ^ 2). apply N.pow_le_mono_r; lia. }
    destruct (Z.ltb_spec (Z.of_N (q * S + (S - 1)) - 2) 0) as [Hneg|Hnn]; [lia|].
    set (a := Z.to_N (Z.of_N (q * S + (S - 1)) - 2)).
    assert (Ha : a = q * S + (S - 3)) by (subst a; lia).
    destruct (N.leb_spec (2 ^ w) a) as [Hbig|Hsmall]; [lia|].
    rewrite (land_mask_div w plen a Hp Hsmall). fold S.
    assert (Hdiv : a / S = q).
    { symmetry. apply (N.div_unique a S q (S - 3)); lia. }
    rewrite Hdiv, N.eqb_refl. f_equal. lia.
  - (* /w or /(w-1): nothing below the last address lies inside *)
    assert (HS2 : S <= 2).
    { subst S. change 2 with (2 ^ 1) at 2. apply N.pow_le_mono_r; lia. }
    destruct (Z.ltb_spec (Z.of_N (q * S + (S - 1)) - 2) 0) as [Hneg|Hnn]; [reflexivity|].
    set (a := Z.to_N (Z.of_N (q * S + (S - 1)) - 2)).
    assert (Ha : a + 3 = q * S + S) by (subst a; lia).
    destruct (N.leb_spec (2 ^ w) a) as [Hbig|Hsmall]; [reflexivity|].
    rewrite (land_mask_div w plen a Hp Hsmall). fold S.
    destruct (N.eqb_spec (a / S * S) (q * S)) as [E|E]; [|reflexivity].
    exfalso. pose proof (N.div_mod a S ltac:(lia)) as Hdm.
    pose proof (N.mod_lt a S ltac:(lia)). nia.
Qed.

(* the derived gateway, when there is one, is inside the subnet and is neither
   the network address nor one of the two last addresses *)
Lemma gateway_inside w net plen g :
  plen <= w -> net < 2 ^ w -> gateway_spec w net plen = Some g ->
  net_base w net plen < g /\ g + 2 = last_addr w net plen /\
  N.land g (mask w plen) = net_base w net plen.
Proof.
  intros Hp Hn Hg. rewrite <- (gateway_correct w net plen Hp Hn) in Hg.
  pose proof (gateway_correct w net plen Hp Hn) as Hc. rewrite Hg in Hc.
  unfold get_ip_at_neg3 in Hg.
  destruct (Z.ltb_spec (Z.of_N (last_addr w net plen) - 2) 0) as [|Hnn]; [discriminate|].
  destruct (N.leb_spec (2 ^ w) (Z.to_N (Z.of_N (last_addr w net plen) - 2))); [discriminate|].
  destruct (N.eqb_spec (N.land (Z.to_N (Z.of_N (last_addr w net plen) - 2)) (mask w plen))
                       (net_base w net plen)) as [E|]; [|discriminate].
  inversion Hg; subst g. split; [|split; [lia | exact E]].
  unfold gateway_spec in Hc. destruct (N.leb_spec (plen + 2) w) as [Hle|]; [|discriminate].
  inversion Hc as [Hc'].
  assert (4 <= 2 ^ (w - plen)).
  { change 4 with (2 ^ 2). apply N.pow_le_mono_r; lia. }
  lia.
Qed.

(* ---- route table ---------------------------------------------------------- *)
Lemma table_injective i j : route_table_id i = route_table_id j -> i = j.
Proof. unfold route_table_id. lia. Qed.

Lemma table_not_reserved i : (0 <= i)%Z -> table_reserved (route_table_id i) = false /\ (1000 <= route_table_id i)%Z.
Proof. unfold table_reserved, route_table_id. lia. Qed.

(* ---- interface names ------------------------------------------------------ *)
Lemma veth_len pfx ns name ifn :
  length (veth_name pfx ns name ifn) = (length pfx + 11)%nat.
Proof.
  unfold veth_name. rewrite app_length, firstn_length, hex_length, sha1_length. reflexivity.
Qed.

Lemma veth_preimage_distinct ns name i j :
  norm_if i <> norm_if j -> veth_preimage ns name i <> veth_preimage ns name j.
Proof.
  unfold veth_preimage. intros Hne Heq.
  apply app_inv_head in Heq. apply app_inv_head in Heq. apply app_inv_head in Heq.
  exact (Hne Heq).
Qed.

Lemma veth_deterministic_up_to_eth0 pfx ns name :
  veth_name pfx ns name str_eth0 = veth_name pfx ns name [].
Proof. reflexivity. Qed.

(* ---- the boolean checker applied to implementation output ---------------- *)
From TV Require Import C14Run.
Lemma chk_keys_spec w hdr ks ip plen probes :
  chk_keys w hdr ks ip plen probes = true <->
  Forall (fun p => keys_match (hdr (Z.to_N p)) ks = true <-> in_cidr w (Z.to_N p) ip plen) probes.
Proof.
  unfold chk_keys. rewrite forallb_forall, Forall_forall.
  split; intros H p Hp; specialize (H p Hp).
  - apply Bool.eqb_prop in H. rewrite H. apply in_cidrb_spec.
  - rewrite <- in_cidrb_spec in H.
    destruct (keys_match _ _), (in_cidrb _ _ _ _); try reflexivity; exfalso;
      destruct H as [H1 H2]; try (specialize (H1 eq_refl); discriminate);
      try (specialize (H2 eq_refl); discriminate).
Qed.

(* the model's own keys pass the checker on every probe list: the checker
   demands nothing the theorems do not give *)
Lemma chk_model_v4_src ip plen probes :
  plen <= 32 -> ip < 2 ^ 32 -> Forall (fun p => (0 <= p < 2 ^ 32)%Z) probes ->
  chk_keys 32 (fun p => ipv4_word p (other32 p)) [u32_v4 12 ip plen] ip plen probes = true.
Proof.
  intros Hp Hi Hpr. apply chk_keys_spec. rewrite Forall_forall in *. intros p Hin.
  specialize (Hpr p Hin). unfold keys_match. cbn [forallb k_off u32_v4].
  rewrite andb_true_r. change (ipv4_word (Z.to_N p) (other32 (Z.to_N p)) 12) with (Z.to_N p).
  apply u32_v4_correct; try assumption. lia.
Qed.
