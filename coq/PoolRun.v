(* PoolRun.v — replay of a harness log (harness/pool/world.go) through the pool model.
   The log is: configuration, then records; stimulus records say what the script did,
   observation records say what the implementation did (cloud calls, per-interface
   Allocate / Release / Dispose calls with results, replies).  Each observation is turned
   into the model label it exhibits (the choices the label carries are read off the
   observation); [step] must accept it — otherwise the implementation left the set of
   behaviours the theorems quantify over.  At every quiescent point (record 99) the
   model's projection is emitted and compared with the implementation's snapshot.
   The expansion (which silent label an observation implies) is search code: if it is
   wrong the replay reports a mismatch; it cannot hide one, because every state change
   goes through [step] and every snapshot is compared. *)
From Coq Require Import ZArith List Bool.
From TV Require Import Codec PoolModel.
Import ListNotations.
Local Open Scope Z_scope.

Record cfg := mkCfg { c_types : list Z; c_on4 : bool; c_on6 : bool; c_cap : Z; c_batch : Z; c_min : Z; c_max : Z; c_tot : Z; c_policy : Z }.

(* load() (local.go:209-352): entries from the cloud's list, all valid; stored allocations re-own
   the listed addresses that exist; a family holding more than cap entries gets its idle ones
   marked for disposal *)
Definition over_cap (cap : Z) (s : iset) : iset :=
  if cap <? len s then
    map (fun p => (fst p, if in_use (snd p) then snd p else if e_prim (snd p) then snd p else mkEnt 0 Deleting false)) s
  else s.
Definition load_slot (ty : Z) (on4 on6 : bool) (cap batch now : Z) (eni : Z) (trunk : bool) (prim : Z)
           (v4 v6 : list Z) (owners : list (Z * Z * Z)) : slot :=
  let s4 := put_fresh Valid prim v4 [] in
  let s6 := put_fresh Valid 0 v6 [] in
  let s4' := fold_left (fun acc o => match o with (pod, a4, _) => if a4 =? 0 then acc else set_owner a4 pod acc end) owners s4 in
  let s6' := fold_left (fun acc o => match o with (pod, _, a6) => if a6 =? 0 then acc else set_owner a6 pod acc end) owners s6 in
  let held := flat_map (fun o => match o with (pod, a4, a6) =>
                  (match find a4 s4 with Some _ => if a4 =? 0 then [] else [(pod, F4, a4)] | None => [] end) ++
                  (match find a6 s6 with Some _ => if a6 =? 0 then [] else [(pod, F6, a6)] | None => [] end) end) owners in
  mkSlot SInUse eni ty trunk
         (mkFam on4 (over_cap cap s4') [] [] v4 [] [])
         (mkFam on6 (over_cap cap s6') [] [] v6 [] [])
         0 FwIdle DwIdle [] cap batch now held [].

(* ---- the world: the interfaces of one node ------------------------------------------------- *)
Record world := mkW { w_slots : list slot; w_ok : bool; w_why : Z; w_pc : list Z; w_pre : list (Z * Z); w_out : list Z }.

Definition slot_at (w : world) (i : Z) : option slot := nth_error (w_slots w) (Z.to_nat (i - 1)).
Fixpoint set_nth {A} (n : nat) (x : A) (l : list A) : list A :=
  match l, n with [], _ => [] | _ :: r, O => x :: r | y :: r, S n' => y :: set_nth n' x r end.
Definition put_slot (w : world) (i : Z) (s : slot) : world :=
  mkW (set_nth (Z.to_nat (i - 1)) s (w_slots w)) (w_ok w) (w_why w) (w_pc w) (w_pre w) (w_out w).
Definition fail (w : world) (why : Z) : world :=
  if w_ok w then mkW (w_slots w) false why (w_pc w) (w_pre w) (w_out w) else w.

(* apply a label on interface i; a label the model does not accept marks the replay as failed *)
Definition arm (s : slot) : slot :=
  match step s LFwArm with
  | Some s' => s'
  | None => match step s LFwLook with Some s' => s' | None => s end
  end.

(* which critical sections end with l.cond.Broadcast() (or are followed by one): only then do the
   goroutines parked in cond.Wait() look at the state again *)
Definition broadcasts (l : label) (s' : slot) : bool :=
  match l with
  | LAllocEnqueue _ _ _ _ _ | LWorkerTake _ _ _ _ | LWorkerCancel _ | LNoCacheExit _
  | LDispose _ _ _ _ | LFwExpire => true
  | LCancel r => match rfind r (s_reqs s') with Some q => negb (r_direct q) && negb (r_fin q) | None => false end
  | LCreateEnd ok eni _ _ _ _ _ => ok || negb (eni =? 0)
  | LAssignEnd _ ok _ _ => ok && (match s_fw s' with FwIdle => true | _ => false end)
  | LDeleteEnd ok _ => ok
  | LMetaSync ok _ _ => ok
  | _ => false
  end.
Definition own_loop (l : label) : bool :=
  match l with LCreateEnd _ _ _ _ _ _ _ | LAssignEnd _ _ _ _ => true | _ => false end.

(* silent steps of woken goroutines: cancelled or popped requests leave *)
Definition flush_slot (s : slot) : slot :=
  fold_left (fun acc p =>
    let r := fst p in
    match rfind r (s_reqs acc) with
    | Some q =>
        if r_fin q then acc
        else if r_direct q then acc
        else if r_nc q then (if r_wd q || r_ctx q then match step acc (LNoCacheExit r) with Some a => a | None => acc end else acc)
        else if r_ctx q then match step acc (LWorkerCancel r) with Some a => a | None => acc end
        else acc
    | None => acc end) (s_reqs s) s.
Definition settle (l : label) (s' : slot) : slot :=
  if broadcasts l s' then arm (flush_slot (arm s')) else if own_loop l then arm s' else s'.

Definition app (w : world) (i : Z) (l : label) (why : Z) : world :=
  match slot_at w i with
  | Some s => match step s l with Some s' => put_slot w i (settle l s') | None => fail w why end
  | None => fail w why
  end.
(* apply only if enabled *)
Definition try_app (w : world) (i : Z) (l : label) : world :=
  match slot_at w i with
  | Some s => match step s l with Some s' => put_slot w i (settle l s') | None => w end
  | None => w
  end.

Fixpoint find_req (ss : list slot) (i : Z) (r : Z) : option (Z * req) :=
  match ss with
  | [] => None
  | s :: t => match rfind r (s_reqs s) with Some q => Some (i, q) | None => find_req t (i + 1) r end
  end.

Definition first_peek (s : iset) (pod : Z) : Z :=
  match filter (fun p => negb (pod =? 0) && owned_by pod (snd p)) s with
  | p :: _ => fst p
  | [] => match filter (fun p => allocatable (snd p)) s with p :: _ => fst p | [] => 0 end
  end.

Definition fam_of (k : Z) : fid := if (k =? 3) || (k =? 5) then F6 else F4.

(* ---- projection compared with the implementation's snapshot -------------------------------- *)
Fixpoint insert_ent (p : Z * ent) (l : list (Z * ent)) : list (Z * ent) :=
  match l with [] => [p] | q :: r => if fst p <? fst q then p :: l else q :: insert_ent p r end.
Definition sort_set (s : iset) : iset := fold_right insert_ent [] s.
Definition st_code (s : sst) : Z := match s with SInit => 0 | SCreating => 1 | SInUse => 2 | SDeleting => 3 end.
Definition ip_code (s : ipst) : Z := match s with Valid => 1 | Invalid => 2 | Deleting => 3 end.
Definition proj_set (s : iset) : list Z :=
  len s :: flat_map (fun p => [fst p; e_owner (snd p); ip_code (e_st (snd p)); enc_bool (e_prim (snd p))]) (sort_set s).
Definition proj_slot (s : slot) : list Z :=
  [st_code (s_st s); s_eni s; s_inh s] ++ proj_set (f_set (s_4 s)) ++ proj_set (f_set (s_6 s))
  ++ enc_list (prune (s_reqs s) (f_alloc (s_4 s))) ++ enc_list (prune (s_reqs s) (f_alloc (s_6 s)))
  ++ enc_list (prune (s_reqs s) (f_dang (s_4 s))) ++ enc_list (prune (s_reqs s) (f_dang (s_6 s))).

Definition dispose_ret (s : slot) (n : Z) (whole : bool) : Z :=
  if whole then Z.max (setlen s F4) (setlen s F6)
  else Z.max (Z.min (len (idles (f_set (s_4 s)))) n) (Z.min (len (idles (f_set (s_6 s)))) n).

(* ---- one record ------------------------------------------------------------------------------ *)
Definition two_lists (l : list Z) : list Z * list Z :=
  match take_list l with
  | Some (a, r) => match take_list r with Some (b, _) => (a, b) | None => (a, []) end
  | None => ([], [])
  end.

(* pre-heat requests carry a two-minute context (manager.go:329): advancing the clock cancels,
   at its deadline, every such request still waiting *)
Definition set_now (w : world) (t : Z) : world :=
  mkW (map (fun s => with_now s t) (w_slots w)) (w_ok w) (w_why w) (w_pc w) (w_pre w) (w_out w).
Fixpoint insert_dl (p : Z * Z) (l : list (Z * Z)) : list (Z * Z) :=
  match l with [] => [p] | q :: r => if snd p <? snd q then p :: l else q :: insert_dl p r end.
(* is a cloud call of the factory worker of interface i begun before the next quiescent point? *)
Fixpoint begins_ahead (i : Z) (rest : list (list Z)) : bool :=
  match rest with
  | [] => false
  | (99 :: _) :: _ => false
  | (11 :: j :: k :: _) :: t => ((j =? i) && (k <=? 3)) || begins_ahead i t
  | _ :: t => begins_ahead i t
  end.

(* hold i p: a pre-heat request whose two minutes end at the very instant now' at which the factory worker of its
   interface begins a call (observed ahead) is cancelled after that call has begun: the worker read the queues first *)
Definition advance_h (w : world) (now' : Z) (hold : Z * Z -> bool) : world :=
  let due := fold_right insert_dl [] (filter (fun p => (snd p <=? now') && negb (hold p)) (w_pre w)) in
  let w1 := fold_left (fun acc p =>
    match find_req (w_slots acc) 1 (fst p) with
    | Some (i, q) => if r_fin q then acc else try_app (set_now acc (snd p)) i (LCancel (fst p))
    | None => acc end) due w in
  let w2 := set_now w1 now' in
  mkW (w_slots w2) (w_ok w2) (w_why w2) (w_pc w2) (filter (fun p => (now' <? snd p) || hold p) (w_pre w2)) (w_out w2).
Definition advance (w : world) (now' : Z) : world := advance_h w now' (fun _ => false).

Definition now_of (w : world) : Z := match w_slots w with s :: _ => s_now s | [] => 0 end.

(* replies are logged when Manager.Allocate returns, i.e. a little after the worker took the address;
   when an observation on interface i does not fit, the replies logged later in the same block for
   requests waiting on i are applied first *)
Fixpoint pull_replies (w : world) (i : Z) (rest : list (list Z)) : world :=
  match rest with
  | [] => w
  | (99 :: _) :: _ => w
  | (10 :: rid :: 1 :: _ :: a4 :: a6 :: _) :: t =>
      let w1 := match find_req (w_slots w) 1 rid with
                | Some (j, q) => if (j =? i) && negb (r_fin q) && negb (r_direct q) then try_app w i (LWorkerTake rid a4 a6 true) else w
                | None => w end in
      pull_replies w1 i t
  | _ :: t => pull_replies w i t
  end.
Definition attempt_fits (w : world) (i pod : Z) (nc : bool) (pin : Z) (erdma : bool) (acc reason : Z) : bool :=
  match slot_at w i with
  | Some s => match alloc_kind s pod nc pin erdma with
              | KReject k => (acc =? 0) && (k =? reason)
              | _ => acc =? 1 end
  | None => false end.

(* ---- the balancer pass (manager.go:279-356) replayed against what was observed ------------------ *)
Definition usage (c : cfg) (s : slot) : Z * Z :=
  if (s_eni s =? 0) || negb (match s_st s with SInUse => true | _ => false end) then (0, 0)
  else if c_on4 c then (len (idles (f_set (s_4 s))), len (inuses (f_set (s_4 s))))
  else if c_on6 c then (len (idles (f_set (s_6 s))), len (inuses (f_set (s_6 s))))
  else (0, 0).
Fixpoint block_disposes (rest : list (list Z)) : list (Z * Z * Z) :=
  match rest with
  | [] => []
  | (99 :: _) :: _ => []
  | (21 :: i :: n :: ret :: _) :: t => (i, n, ret) :: block_disposes t
  | _ :: t => block_disposes t
  end.
Fixpoint block_preheats (rest : list (list Z)) (seen : list Z) : list Z :=
  match rest with
  | [] => seen
  | (99 :: _) :: _ => seen
  | (20 :: _ :: rid :: _ :: nc :: _) :: t => block_preheats t (if (nc =? 1) && negb (memz rid seen) then rid :: seen else seen)
  | _ :: t => block_preheats t seen
  end.
Definition balancer_ok (c : cfg) (w : world) (rest : list (list Z)) : bool :=
  let us := map (usage c) (w_slots w) in
  let idle := fold_left Z.add (map fst us) 0 in
  let inuse := fold_left Z.add (map snd us) 0 in
  let ds := block_disposes rest in
  let todel := bal_todel idle (c_max c) in
  let shrink_ok :=
    if todel <=? 0 then (match ds with [] => true | _ => false end)
    else
      let '(cur, ok) := fold_left (fun acc d => match acc, d with (cur, ok), (_, n, ret) => (cur - ret, ok && (0 <? cur) && (n =? cur)) end) ds (todel, true) in
      ok && ((cur <=? 0) || (len ds =? len (w_slots w))) && nodupz (map (fun d => fst (fst d)) ds) in
  let want := bal_want idle inuse (c_min c) (c_tot c) in
  shrink_ok && (len (block_preheats rest []) =? want).

Fixpoint next_dispose (i : Z) (rest : list (list Z)) : option (Z * Z * Z) :=
  match rest with
  | [] => None
  | (99 :: _) :: _ => None
  | (21 :: j :: n :: ret :: whole :: _) :: t => if j =? i then Some (n, ret, whole) else next_dispose i t
  | _ :: t => next_dispose i t
  end.

(* a metadata read staged to overlap the answer of the slot's outstanding call ([8; i; 1]): the goroutines the sync's
   Broadcast wakes get the pool's lock only after the factory worker, which was queued on it first, has recorded its answer.
   The flag (kept among the pre-cancelled ids as -(1000000 + i)) moves the woken workers' silent steps behind that record. *)
Fixpoint block_has_callend (i : Z) (rest : list (list Z)) : bool :=
  match rest with
  | [] => false
  | (99 :: _) :: _ => false
  | (12 :: j :: _) :: t => (j =? i) || block_has_callend i t
  | _ :: t => block_has_callend i t
  end.
Definition ovl_flag (i : Z) : Z := - (1000000 + i).
(* the raw queues the implementation showed at the end of such a block (record 24): alloc4, alloc6, dang4, dang6 *)
Fixpoint find_raw (i : Z) (rest : list (list Z)) : option (list Z * list Z * list Z * list Z) :=
  match rest with
  | [] => None
  | (99 :: _) :: _ => None
  | (24 :: j :: q) :: t =>
      if j =? i then
        match take_list q with
        | Some (a4, q1) => match take_list q1 with
                           | Some (a6, q2) => match take_list q2 with
                                              | Some (d4, q3) => match take_list q3 with Some (d6, _) => Some (a4, a6, d4, d6) | None => None end
                                              | None => None end
                           | None => None end
        | None => None end
      else find_raw i t
  | _ :: t => find_raw i t
  end.
Definition raw_matches (s : slot) (o : list Z * list Z * list Z * list Z) : bool :=
  match o with (a4, a6, d4, d6) =>
    list_eqb (f_alloc (s_4 s)) a4 && list_eqb (f_alloc (s_6 s)) a6 && list_eqb (f_dang (s_4 s)) d4 && list_eqb (f_dang (s_6 s)) d6 end.
Definition set_pc (w : world) (pc : list Z) : world := mkW (w_slots w) (w_ok w) (w_why w) pc (w_pre w) (w_out w).

Definition rec_step (c : cfg) (rest : list (list Z)) (w : world) (r : list Z) : world :=
  match r with
  | 1 :: rid :: pod :: pin :: pre :: _ =>
      if pre =? 0 then w else mkW (w_slots w) (w_ok w) (w_why w) (rid :: w_pc w) (w_pre w) (w_out w)
  | 2 :: rid :: _ =>
      match find_req (w_slots w) 1 rid with
      | Some (i, q) => app w i (LCancel rid) 2
      | None => w end
  | 3 :: _ => w
  | 4 :: _ => w
  | 5 :: _ => w
  | 6 :: _ => if balancer_ok c w rest then w else fail w 60
  | 7 :: i :: fam :: _ :: removed :: _ =>
      if removed =? 0 then w else app w i (LRemoteRemove (if fam =? 6 then F6 else F4) removed) 7
  | 24 :: _ => w
  | 8 :: i :: 1 :: _ => if block_has_callend i rest then set_pc w (ovl_flag i :: w_pc w) else w
  | 8 :: _ => w
  | 9 :: _ => w          (* a Dispose is armed to race with the next attempt: the Dispose itself is record 21 *)
  | 10 :: rid :: ok :: eni :: a4 :: a6 :: o4 :: o6 :: _ =>
      match find_req (w_slots w) 1 rid with
      | Some (i, q) =>
          if r_fin q then w
          else if r_direct q then
            let delivered := (ok =? 1) || negb (o4 =? 0) || negb (o6 =? 0) in
            let w_now := app w i (LCommit rid delivered) 10 in
            (* the caller of a cancelled direct request returns before the goroutine that rolls the hand-out back has
               run; a Dispose observed on that interface later in this block saw the addresses either still held or
               already given back: its return value tells which, and the roll-back is then left to the block's end *)
            if delivered then w_now
            else match next_dispose i rest, slot_at w_now i with
                 | Some (n, ret, whole), Some s_rb => if ret =? dispose_ret s_rb n (dec_bool whole) then w_now else w
                 | _, _ => w_now end
          else if ok =? 1 then app w i (LWorkerTake rid a4 a6 true) 10
          else if negb (o4 =? 0) || negb (o6 =? 0) then app w i (LWorkerTake rid o4 o6 true) 10
          else app w i (LWorkerCancel rid) 10
      | None => if ok =? 1 then fail w 10 else w end
  | 11 :: i :: k :: n4 :: n6 :: ips =>
      if k =? 1 then app w i (LCreateBegin n4 n6) 11
      else if (k =? 2) || (k =? 3) then app w i (LAssignBegin (fam_of k) n4) 11
      else if (k =? 4) || (k =? 5) then
        match take_list ips with Some (l, _) => app w i (LUnassignBegin (fam_of k) l) 11 | None => fail w 11 end
      else app w i LDeleteBegin 11
  | 12 :: i :: k :: ok :: eff :: code :: eni :: trunk :: prim :: ips =>
      let '(i4, i6) := two_lists ips in
      if k =? 0 then w    (* preload: consumed when the world is built *)
      else
      let endl (w0 : world) :=
        if k =? 1 then app w0 i (LCreateEnd (dec_bool ok) eni (dec_bool trunk) prim i4 i6 code) 12
        else if k =? 2 then app w0 i (LAssignEnd F4 (dec_bool ok) i4 code) 12
        else if k =? 3 then app w0 i (LAssignEnd F6 (dec_bool ok) i6 code) 12
        else if (k =? 4) || (k =? 5) then app w0 i (LUnassignEnd (fam_of k) (dec_bool ok) (dec_bool eff)) 12
        else app w0 i (LDeleteEnd (dec_bool ok) (dec_bool eff)) 12 in
      if memz (ovl_flag i) (w_pc w) then
        (* the workers woken by the overlapping sync run before or after this record: both orders are legal, the raw queues
           observed at the end of the block tell which one it was *)
        let w0 := set_pc w (remz (ovl_flag i) (w_pc w)) in
        let flush (x : world) := match slot_at x i with Some s => put_slot x i (arm (flush_slot (arm s))) | None => x end in
        let wa := endl (flush w0) in
        let wb := flush (endl w0) in
        match find_raw i rest, slot_at wa i with
        | Some o, Some sa => if w_ok wa && raw_matches sa o then wa else wb
        | _, _ => wb end
      else endl w
  | 14 :: dt :: _ =>
      if dt <? 0 then fail w 14
      else
        let now' := now_of w + dt in
        let w1 := advance_h w now' (fun p => (snd p =? now') &&
                    match find_req (w_slots w) 1 (fst p) with
                    | Some (i, q) => negb (r_fin q) && begins_ahead i rest
                    | None => false end) in
        (* the 300 ms sleep of an armed factory worker that finds nothing to do ends with a broadcast *)
        (* an armed factory worker whose 300 ms sleep has ended either starts a call (observed below) or
           finds nothing to do; whether its loop-head check beat the exit of the last waiting request is
           a race the observations resolve *)
        let tick (ix : nat) (s : slot) :=
          match s_fw s with
          | FwArmed t =>
              if (t <=? s_now s) && negb (begins_ahead (Z.of_nat ix + 1) rest) then
                match step s LFwExpire with
                | Some s2 => settle LFwExpire s2
                | None => match step s LFwSkip with Some s2 => arm s2 | None => s end
                end
              else s
          | _ => s end in
        mkW (map (fun p => tick (fst p) (snd p)) (combine (seq 0 (length (w_slots w1))) (w_slots w1)))
            (w_ok w1) (w_why w1) (w_pc w1) (w_pre w1) (w_out w1)
  | 13 :: i :: ok :: ips =>
      let '(r4, r6) := two_lists ips in
      if memz (ovl_flag i) (w_pc w) then
        match slot_at w i with
        | Some s => match step s (LMetaSync (dec_bool ok) r4 r6) with Some s' => put_slot w i s' | None => fail w 13 end
        | None => fail w 13 end
      else app w i (LMetaSync (dec_bool ok) r4 r6) 13
  | 20 :: i :: rid :: pod :: nc :: pin :: erdma :: acc :: reason :: c4 :: c6 :: _ =>
      let w := if attempt_fits w i pod (dec_bool nc) pin (dec_bool erdma) acc reason then w else pull_replies w i rest in
      match slot_at w i with
      | None => fail w 20
      | Some s =>
          if acc =? 0 then app w i (LAllocReject pod (dec_bool nc) pin (dec_bool erdma) reason) 20
          else
            let w1 :=
              match alloc_kind s pod (dec_bool nc) pin (dec_bool erdma) with
              | KDirect =>
                  let d4 := if f_on (s_4 s) then (if c4 =? 0 then first_peek (f_set (s_4 s)) pod else c4) else 0 in
                  let d6 := if f_on (s_6 s) then (if c6 =? 0 then first_peek (f_set (s_6 s)) pod else c6) else 0 in
                  app w i (LAllocDirect rid pod pin (dec_bool erdma) d4 d6) 20
              | KEnqueue _ _ => app w i (LAllocEnqueue rid pod (dec_bool nc) pin (dec_bool erdma)) 20
              | KReject _ => fail w 21
              end in
            let w2 := if memz rid (w_pc w1) then app w1 i (LCancel rid) 22 else w1 in
            if dec_bool nc then mkW (w_slots w2) (w_ok w2) (w_why w2) (w_pc w2) ((rid, now_of w2 + 120000) :: w_pre w2) (w_out w2) else w2
      end
  | 21 :: i :: n :: ret :: whole :: ips =>
      let '(m4, m6) := two_lists ips in
      match slot_at w i with
      | None => fail w 23
      | Some s =>
          if negb (s_eni s =? 0) && (match s_st s with SInUse => true | _ => false end) then
            (* the observed marks include step (a) (idle invalid entries); the label carries step (b)'s *)
            let by_a (x : iset) (a : Z) := match find a x with
                                           | Some e => negb (in_use e) && negb (ipst_eqb (e_st e) Valid) && negb (e_prim e)
                                           | None => false end in
            let b4 := filter (fun a => negb (by_a (f_set (s_4 s)) a)) m4 in
            let b6 := filter (fun a => negb (by_a (f_set (s_6 s)) a)) m6 in
            if ret =? dispose_ret s n (dec_bool whole)
            then app w i (LDispose n (dec_bool whole) b4 b6) 24 else fail w 25
          else if (ret =? 0) && (whole =? 0) then w else fail w 26
      end
  | 22 :: i :: pod :: eni :: a4 :: a6 :: handled :: _ =>
      match slot_at w i with
      | None => fail w 27
      | Some s =>
          if handled =? 1 then app w i (LRelease pod eni a4 a6) 28
          else if negb (s_eni s =? 0) && (s_eni s =? eni) then fail w 29 else w
      end
  | 99 :: _ =>
      (* pre-heat requests carry a two-minute context (manager.go:329); the sleep of an armed factory
         worker (300 ms) ends long before, so expiry is applied after the block's observations *)
      (* a direct-path commit goroutine whose caller is gone has rolled back by now *)
      let ss := map (fun s => fold_left (fun acc p =>
                      match rfind (fst p) (s_reqs acc) with
                      | Some q => if r_direct q && negb (r_fin q) && r_ctx q
                                  then match step acc (LCommit (fst p) false) with Some a => a | None => acc end else acc
                      | None => acc end) (s_reqs s) s) (w_slots w) in
      mkW ss (w_ok w) (w_why w) (w_pc w) (w_pre w) (w_out w ++ flat_map proj_slot ss)
  | _ => fail w 98
  end.

(* ---- decoding -------------------------------------------------------------------------------- *)
Fixpoint dec_recs (n : nat) (l : list Z) : option (list (list Z)) :=
  match n with
  | O => Some []
  | S n' => match take_list l with
            | Some (r, rest) => match dec_recs n' rest with Some rs => Some (r :: rs) | None => None end
            | None => None end
  end.

Definition dec_case (l : list Z) : option (cfg * list Z * list (list Z)) :=
  match l with
  | ns :: r =>
      let k := Z.to_nat ns in
      let types := firstn k r in
      let pre := firstn k (skipn k r) in
      match skipn (k + k) r with
      | on4 :: on6 :: cap :: batch :: mn :: mx :: tot :: pol :: n :: rest =>
          match dec_recs (Z.to_nat n) rest with
          | Some rs => Some (mkCfg types (dec_bool on4) (dec_bool on6) cap batch mn mx tot pol, pre, rs)
          | None => None end
      | _ => None end
  | [] => None
  end.

(* the interfaces at start-up: the preload records (12 i 0 ...) of the first block describe the
   attached interfaces the daemon finds *)
Fixpoint first_block (rs : list (list Z)) : list (list Z) :=
  match rs with [] => [] | (99 :: _) :: _ => [] | r :: t => r :: first_block t end.

Definition preload_of (rs : list (list Z)) (i : Z) : option (Z * bool * Z * list Z * list Z) :=
  match filter (fun r => match r with 12 :: j :: 0 :: _ => j =? i | _ => false end) rs with
  | (12 :: _ :: _ :: _ :: _ :: _ :: eni :: trunk :: prim :: ips) :: _ =>
      let '(i4, i6) := two_lists ips in Some (eni, dec_bool trunk, prim, i4, i6)
  | _ => None
  end.

Fixpoint init_slots (c : cfg) (rs : list (list Z)) (i : Z) (types : list Z) : list slot :=
  match types with
  | [] => []
  | ty :: t =>
      (match preload_of rs i with
       | Some (eni, trunk, prim, v4, v6) => load_slot ty (c_on4 c) (c_on6 c) (c_cap c) (c_batch c) 0 eni trunk prim v4 v6 []
       | None => init_slot ty (c_on4 c) (c_on6 c) (c_cap c) (c_batch c)
       end) :: init_slots c rs (i + 1) t
  end.

Fixpoint replay_from (c : cfg) (w : world) (rs : list (list Z)) : world :=
  match rs with
  | [] => w
  | r :: rest => replay_from c (rec_step c rest w r) rest
  end.
Definition replay (c : cfg) (rs : list (list Z)) : world :=
  replay_from c (mkW (init_slots c (first_block rs) 1 (c_types c)) true 0 [] [] []) rs.

Definition run_pool (i : list Z) : list Z :=
  match dec_case i with
  | Some (c, _, rs) =>
      let w := replay c rs in
      if w_ok w then w_out w else [-997; w_why w]
  | None => bad
  end.
