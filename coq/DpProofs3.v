(* DpProofs3.v — the ipvlan container-side configuration (DpModel.ipvlan_cont_cfg): trunk-member pods hold host
   addresses only; exactly one default route per enabled family in the main table when one is asked for. *)
From Coq Require Import ZArith List Bool Lia.
From TV Require Import Codec DpModel DpProofs.
Import ListNotations.
Local Open Scope Z_scope.

Definition ipvlan_addrs (g : gcfg) : list (list Z) :=
  map (fun f => [f; g_ip g; if g_strip g then maxlen f else subnet_len f]) (fams g).
Definition ipvlan_routes (g : gcfg) (li : Z) : list (list Z) :=
  flat_map (fun f =>
       (if g_def g then [route 0 f 0 0 f (g_gw g) li 0 1] else [])
       ++ [route 0 f 257 (maxlen f) 0 0 li 253 0]
       ++ (if g_multi g then [route (tbl_of li) f 0 0 f (g_gw g) li 0 1] else [])) (fams g).

(* the configuration is built from these lists *)
Lemma ipvlan_cont_cfg_shape g li :
  exists rules neighs,
    ipvlan_cont_cfg g li =
    (Z.of_nat (length (ipvlan_addrs g)) :: concat (ipvlan_addrs g)) ++ (Z.of_nat (length (ipvlan_routes g li)) :: concat (ipvlan_routes g li))
    ++ rules ++ neighs.
Proof. unfold ipvlan_cont_cfg, ipvlan_addrs, ipvlan_routes. eexists. eexists. reflexivity. Qed.

Theorem ipvlan_trunk_host_addresses g : g_strip g = true ->
  Forall (fun a => match a with [f; _; l] => l = maxlen f | _ => False end) (ipvlan_addrs g).
Proof.
  intro H. unfold ipvlan_addrs. rewrite H. apply Forall_forall. intros a Ha.
  apply in_map_iff in Ha as (f & <- & _). reflexivity.
Qed.

Theorem ipvlan_one_default g li f : 0 <= li -> (f = 4 \/ f = 6) ->
  length (filter (is_def f) (ipvlan_routes g li)) = if (if f =? 4 then g_on4 g else g_on6 g) && g_def g then 1%nat else 0%nat.
Proof.
  intros Hli Hf. unfold ipvlan_routes, fams, route.
  assert (T : tbl_of li =? 0 = false) by (apply Z.eqb_neq; unfold tbl_of; lia).
  set (t := tbl_of li) in *. set (gw := g_gw g).
  destruct Hf as [-> | ->]; destruct (g_on4 g), (g_on6 g), (g_def g), (g_multi g);
    cbn [flat_map app filter is_def length maxlen Z.eqb andb Pos.eqb]; rewrite ?T; cbn [andb filter length app]; reflexivity.
Qed.

(* ---- the exclusive-interface and vlan container configurations (DpModel.own_cont_cfg) ---------------------------- *)
Definition own_routes (vlan : bool) (g : gcfg) (li : Z) : list (list Z) :=
  flat_map (fun f =>
       (if (f =? 6) && negb vlan then [route 0 6 (g_gw g) 128 0 0 li 253 0] else [])
       ++ (if g_def g then [route 0 f 0 0 f (g_gw g) li 0 1] else [])
       ++ (if g_multi g then [route (tbl_of li) f 0 0 f (g_gw g) li 0 1] else [])) (fams g).
Lemma own_cont_cfg_shape vlan g li :
  exists addrs rules,
    own_cont_cfg vlan g li =
    addrs ++ (Z.of_nat (length (own_routes vlan g li ++ map (extra_route li) (g_extra g))) :: concat (own_routes vlan g li ++ map (extra_route li) (g_extra g)))
    ++ rules ++ [0].
Proof. unfold own_cont_cfg, own_routes. eexists. eexists. reflexivity. Qed.
(* exactly one default route per enabled family in the main table when one is asked for, none otherwise (extra routes
   are never default routes: their prefix lengths are 24 and 120) *)
Theorem own_one_default vlan g li f : 0 <= li -> (f = 4 \/ f = 6) ->
  length (filter (is_def f) (own_routes vlan g li)) = if (if f =? 4 then g_on4 g else g_on6 g) && g_def g then 1%nat else 0%nat.
Proof.
  intros Hli Hf. unfold own_routes, fams, route.
  assert (T : tbl_of li =? 0 = false) by (apply Z.eqb_neq; unfold tbl_of; lia).
  set (t := tbl_of li) in *. set (gw := g_gw g).
  destruct Hf as [-> | ->]; destruct vlan, (g_on4 g), (g_on6 g), (g_def g), (g_multi g);
    cbn [flat_map app filter is_def length maxlen Z.eqb andb negb Pos.eqb]; rewrite ?T; cbn [andb filter length app]; reflexivity.
Qed.
