(* PeProofs.v — proofs about the PodENI model (PeModel.v): the controllers' decisions follow the documented
   phase machine (with the one deviation stated), no interface is pulled from a running bound pod for any
   interleaving of pod events and controller steps, the collector's keep rule, the ownership test. *)
From Coq Require Import ZArith List Bool Lia.
From TV Require Import Codec PeModel.
Import ListNotations.
Local Open Scope Z_scope.

Definition phase_wf (r : prec) : Prop := 0 <= r_phase r <= 5.

(* ---------------------------------------------------------------------------------------------------------- *)
(* the phase edges of the decisions *)
Lemma del_branch_edge r ph :
  (if (r_phase r =? 5) || r_del r then PNone
   else if have_fixed (r_allocs r) then (if (r_phase r =? 2) || (r_phase r =? 3) then PNone else PSetPhase 2)
   else PSetPhase 5) = PSetPhase ph ->
  phase_wf r ->
  edge_ok (r_phase r) ph = true \/ ((r_phase r = 0 \/ r_phase r = 4) /\ ph = 2 /\ have_fixed (r_allocs r) = true).
Proof.
  intros H [Hlo Hhi].
  destruct ((r_phase r =? 5) || r_del r) eqn:G5; [discriminate|].
  apply orb_false_iff in G5 as [G5 _]. apply Z.eqb_neq in G5.
  destruct (have_fixed (r_allocs r)) eqn:F.
  - destruct ((r_phase r =? 2) || (r_phase r =? 3)) eqn:G; [discriminate|]. injection H as <-.
    apply orb_false_iff in G as [G2 G3]. apply Z.eqb_neq in G2, G3.
    assert (r_phase r = 0 \/ r_phase r = 1 \/ r_phase r = 4) as [E|[E|E]] by lia.
    + right. auto.
    + left. rewrite E. reflexivity.
    + right. auto.
  - injection H as <-. left. unfold edge_ok. rewrite Z.eqb_refl, !orb_true_r. reflexivity.
Qed.

Theorem pod_ctl_edges pod r ph :
  pod_ctl pod (Some r) = PSetPhase ph -> phase_wf r ->
  edge_ok (r_phase r) ph = true \/ ((r_phase r = 0 \/ r_phase r = 4) /\ ph = 2 /\ have_fixed (r_allocs r) = true).
Proof.
  unfold pod_ctl. destruct pod as [p|]; [|apply del_branch_edge].
  destruct (q_exited p); [apply del_branch_edge|].
  destruct (q_kind p =? 5); [discriminate|].
  destruct (r_del r); [discriminate|].
  destruct (r_phase r =? 3) eqn:P3.
  - apply Z.eqb_eq in P3.
    destruct (negb (r_node r =? 0) && negb (r_node r =? q_node p)); [discriminate|].
    destruct (r_uid r =? q_uid p); [|discriminate]. intros H _. injection H as <-. left. rewrite P3. reflexivity.
  - destruct (r_phase r =? 1) eqn:P1; [|discriminate]. apply Z.eqb_eq in P1.
    destruct (r_uid r =? q_uid p); [discriminate|].
    destruct (have_fixed (r_allocs r)); [|discriminate]. intros H _. injection H as <-. left. rewrite P1. reflexivity.
Qed.

(* the deviation is real: a fixed-IP pod deleted while its record is still Binding *)
Example pod_ctl_binding_to_detaching :
  pod_ctl None (Some (mkRec 1 4 7 1 false true [mkAl 1 1 true 2 0] 0)) = PSetPhase 2 /\ edge_ok 4 2 = false.
Proof. vm_compute. auto. Qed.

Ltac four := split; [|split; [|split]].
Theorem eni_ctl_edges pod fx r : phase_wf r ->
  (eni_ctl pod fx r = EAttach -> r_phase r = 0 \/ r_phase r = 4) /\
  (eni_ctl pod fx r = EDetach -> r_phase r = 2 /\ r_del r = false) /\
  (eni_ctl pod fx r = EDeleteObj -> r_phase r = 5 /\ r_del r = false) /\
  (eni_ctl pod fx r = EFinalize -> r_del r = true).
Proof.
  intros [Hlo Hhi]. unfold eni_ctl. destruct (r_del r) eqn:D.
  - destruct (r_fin r); four; intro H; try discriminate; reflexivity.
  - destruct ((r_phase r =? 1) || (r_phase r =? 3)) eqn:G; [four; intro H; discriminate|].
    apply orb_false_iff in G as [G1 G3]. apply Z.eqb_neq in G1, G3.
    destruct (r_phase r =? 2) eqn:P2; [apply Z.eqb_eq in P2; four; intro H; try discriminate; auto|].
    destruct (r_phase r =? 5) eqn:P5; [apply Z.eqb_eq in P5; four; intro H; try discriminate; auto|].
    apply Z.eqb_neq in P2, P5.
    destruct pod as [p|]; [|four; intro H; discriminate].
    destruct ((r_phase r =? 0) || (fx && have_fixed (r_allocs r))); four; intro H; try discriminate. lia.
Qed.

(* ---------------------------------------------------------------------------------------------------------- *)
(* one name under every interleaving of pod events and controller steps *)
Record st := mkSt { s_pod : option podv; s_rec : option prec; s_used : list Z }.
Inductive ev :=
| EvAdd (p : podv)                    (* a pod of this name appears: a uid never used before *)
| EvExit                              (* its sandbox exits for good *)
| EvGone                              (* the pod object vanishes *)
| EvPodCtl (al : list alloc)          (* the pod controller looks at the name; al = what it would allocate *)
| EvEniCtl (fx ok : bool)             (* the PodENI controller looks at the record; ok = its cloud / API calls work *)
| EvGc.                               (* the record collector passes *)

Definition set_phase (r : prec) (p : Z) : prec := mkRec (r_name r) p (r_uid r) (r_node r) (r_del r) (r_fin r) (r_allocs r) (r_seen r).
Definition set_del (r : prec) : prec := mkRec (r_name r) (r_phase r) (r_uid r) (r_node r) true (r_fin r) (r_allocs r) (r_seen r).
Definition set_uid (r : prec) (u : Z) : prec := mkRec (r_name r) (r_phase r) u (r_node r) (r_del r) (r_fin r) (r_allocs r) (r_seen r).
Definition set_node (r : prec) (n : Z) : prec := mkRec (r_name r) (r_phase r) (r_uid r) n (r_del r) (r_fin r) (r_allocs r) (r_seen r).

Definition step (s : st) (e : ev) : st :=
  match e with
  | EvAdd p =>
      match s_pod s with
      | None => if existsb (Z.eqb (q_uid p)) (s_used s) || q_exited p then s else mkSt (Some p) (s_rec s) (q_uid p :: s_used s)
      | Some _ => s end
  | EvExit => match s_pod s with Some p => mkSt (Some (mkPv (q_name p) (q_uid p) (q_node p) true (q_kind p))) (s_rec s) (s_used s) | None => s end
  | EvGone => mkSt None (s_rec s) (s_used s)
  | EvPodCtl al =>
      match pod_ctl (s_pod s) (s_rec s), s_pod s, s_rec s with
      | PCreate, Some p, None => mkSt (s_pod s) (Some (mkRec (q_name p) 0 (q_uid p) (q_node p) false true al (-1))) (s_used s)
      | PSetPhase ph, _, Some r => mkSt (s_pod s) (Some (set_phase r ph)) (s_used s)
      | PDelete, _, Some r => mkSt (s_pod s) (Some (set_del r)) (s_used s)
      | PSetUid, Some p, Some r => mkSt (s_pod s) (Some (set_uid r (q_uid p))) (s_used s)
      | PSetNode, Some p, Some r => mkSt (s_pod s) (Some (set_node r (q_node p))) (s_used s)
      | _, _, _ => s
      end
  | EvEniCtl fx ok =>
      match s_rec s with
      | None => s
      | Some r =>
          if negb ok then s else
          match eni_ctl (s_pod s) fx r with
          | EAttach => mkSt (s_pod s) (Some (set_phase r 1)) (s_used s)
          | EDetach => mkSt (s_pod s) (Some (set_phase r 3)) (s_used s)
          | EDeleteObj => mkSt (s_pod s) (Some (set_del r)) (s_used s)
          | EFinalize => mkSt (s_pod s) None (s_used s)
          | _ => s
          end
      end
  | EvGc => match s_rec s with Some r => mkSt (s_pod s) (Some (set_phase r (gc_rec (s_pod s) r))) (s_used s) | None => s end
  end.
Definition init_st : st := mkSt None None [].
Definition run (l : list ev) : st := fold_left step l init_st.

(* does this step detach or delete the record's interfaces in the cloud? (whether or not the calls succeed) *)
Definition pulls (s : st) (e : ev) : bool :=
  match e, s_rec s with
  | EvEniCtl fx _, Some r => eact_pulls (eni_ctl (s_pod s) fx r)
  | _, _ => false
  end.

Definition going (r : prec) : Prop := r_phase r = 2 \/ r_phase r = 5 \/ r_del r = true.
Record Inv (s : st) : Prop := {
  i_kind : forall p r, s_pod s = Some p -> s_rec s = Some r -> r_uid r = q_uid p -> q_kind p <> 5;
  i_safe : forall p r, s_pod s = Some p -> s_rec s = Some r -> going r -> r_uid r = q_uid p -> q_exited p = true;
  i_used : forall r, s_rec s = Some r -> In (r_uid r) (s_used s);
  i_usedp : forall p, s_pod s = Some p -> In (q_uid p) (s_used s) }.

Lemma inv_init : Inv init_st.
Proof. split; cbn; intros; discriminate. Qed.

Lemma existsb_eqb_false u l : existsb (Z.eqb u) l = false -> ~ In u l.
Proof. intros H Hin. assert (existsb (Z.eqb u) l = true) by (apply existsb_exists; exists u; split; [exact Hin|apply Z.eqb_refl]). congruence. Qed.

(* what the pod controller's decisions say about the pod when they start taking the record away *)
Lemma pod_ctl_going p r ph :
  pod_ctl (Some p) (Some r) = PSetPhase ph -> (ph = 2 \/ ph = 5) -> q_exited p = true \/ r_uid r <> q_uid p.
Proof.
  unfold pod_ctl. destruct (q_exited p); [auto|].
  destruct (q_kind p =? 5); [discriminate|]. destruct (r_del r); [discriminate|].
  destruct (r_phase r =? 3).
  - destruct (negb (r_node r =? 0) && negb (r_node r =? q_node p)); [discriminate|].
    destruct (r_uid r =? q_uid p); [|discriminate]. intros H [E|E]; injection H as <-; discriminate.
  - destruct (r_phase r =? 1); [|discriminate]. destruct (r_uid r =? q_uid p) eqn:U; [discriminate|].
    intros _ _. right. apply Z.eqb_neq. exact U.
Qed.
Lemma pod_ctl_delete p r : pod_ctl (Some p) (Some r) = PDelete -> r_uid r <> q_uid p.
Proof.
  unfold pod_ctl. destruct (q_exited p).
  - destruct ((r_phase r =? 5) || r_del r); [discriminate|]. destruct (have_fixed (r_allocs r)); [destruct (_ || _)|]; discriminate.
  - destruct (q_kind p =? 5); [discriminate|]. destruct (r_del r); [discriminate|].
    destruct (r_phase r =? 3).
    + destruct (negb (r_node r =? 0) && negb (r_node r =? q_node p)); [discriminate|]. destruct (r_uid r =? q_uid p); discriminate.
    + destruct (r_phase r =? 1); [|discriminate]. destruct (r_uid r =? q_uid p) eqn:U; [discriminate|].
      intros _. apply Z.eqb_neq. exact U.
Qed.
Lemma pod_ctl_setuid p r : pod_ctl (Some p) (Some r) = PSetUid -> q_kind p <> 5 /\ r_phase r = 3 /\ r_del r = false /\ q_exited p = false.
Proof.
  unfold pod_ctl. destruct (q_exited p).
  - destruct ((r_phase r =? 5) || r_del r); [discriminate|]. destruct (have_fixed (r_allocs r)); [destruct (_ || _)|]; discriminate.
  - destruct (q_kind p =? 5) eqn:K; [discriminate|]. destruct (r_del r); [discriminate|].
    destruct (r_phase r =? 3) eqn:P3.
    + intros _. apply Z.eqb_neq in K. apply Z.eqb_eq in P3. auto.
    + destruct (r_phase r =? 1); [|discriminate]. destruct (r_uid r =? q_uid p); [discriminate|]. destruct (have_fixed (r_allocs r)); discriminate.
Qed.
Lemma pod_ctl_create p : pod_ctl (Some p) None = PCreate -> q_kind p <> 5 /\ q_exited p = false.
Proof.
  unfold pod_ctl. destruct (q_exited p); [discriminate|]. destruct (q_kind p =? 5) eqn:K; [discriminate|].
  intros _. apply Z.eqb_neq in K. auto.
Qed.
Lemma pod_ctl_none_del r ph : pod_ctl None (Some r) = PSetPhase ph -> True.
Proof. auto. Qed.

Lemma gc_rec_going pod r : gc_rec pod r <> r_phase r -> gc_rec pod r = 5 /\ (pod = None \/ exists p, pod = Some p /\ requires_rec p = false).
Proof.
  unfold gc_rec. destruct pod as [p|].
  - destruct (requires_rec p) eqn:R; [intro H; contradiction H; reflexivity|].
    destruct ((r_phase r =? 2) || (r_phase r =? 5) || (r_phase r =? 4)); [intro H; contradiction H; reflexivity|].
    destruct (gc_keep (r_seen r) (r_allocs r)); [intro H; contradiction H; reflexivity|].
    intros _. split; [reflexivity|right; exists p; auto].
  - destruct ((r_phase r =? 2) || (r_phase r =? 5) || (r_phase r =? 4)); [intro H; contradiction H; reflexivity|].
    destruct (gc_keep (r_seen r) (r_allocs r)); [intro H; contradiction H; reflexivity|]. auto.
Qed.

Lemma inv_update s r r' :
  Inv s -> s_rec s = Some r -> r_uid r' = r_uid r ->
  (going r' -> going r \/ (forall p, s_pod s = Some p -> q_uid p = r_uid r -> q_exited p = true)) ->
  Inv (mkSt (s_pod s) (Some r') (s_used s)).
Proof.
  intros [Ik Is Iu Iup] R U G. split; cbn.
  - intros q x Hq Hx Hu. injection Hx as <-. apply (Ik q r Hq R). congruence.
  - intros q x Hq Hx Hg Hu. injection Hx as <-. destruct (G Hg) as [G1|G2].
    + apply (Is q r Hq R G1). congruence.
    + apply (G2 q Hq). congruence.
  - intros x Hx. injection Hx as <-. rewrite U. apply Iu. exact R.
  - exact Iup.
Qed.

Lemma going_set_phase r ph : going (set_phase r ph) -> ph = 2 \/ ph = 5 \/ r_del r = true.
Proof. intros [H|[H|H]]; cbn in H; auto. Qed.

Lemma inv_step s e : Inv s -> Inv (step s e).
Proof.
  intros HI. pose proof HI as [Ik Is Iu Iup]. destruct e as [np| | |al|fx ok|]; cbn [step].
  - (* a new pod *)
    destruct (s_pod s) eqn:P; [exact HI|].
    destruct (existsb (Z.eqb (q_uid np)) (s_used s) || q_exited np) eqn:U; [exact HI|].
    apply orb_false_iff in U as [U _]. apply existsb_eqb_false in U.
    split; cbn.
    + intros q x Hq Hx Hu. injection Hq as <-. exfalso. apply U. rewrite <- Hu. apply Iu. exact Hx.
    + intros q x Hq Hx _ Hu. injection Hq as <-. exfalso. apply U. rewrite <- Hu. apply Iu. exact Hx.
    + intros x Hx. right. apply Iu. exact Hx.
    + intros q Hq. injection Hq as <-. left. reflexivity.
  - (* the sandbox exits *)
    destruct (s_pod s) as [p|] eqn:P; [|exact HI].
    split; cbn.
    + intros q x Hq Hx Hu. injection Hq as <-. cbn in *. apply (Ik p x eq_refl Hx Hu).
    + intros q x Hq _ _ _. injection Hq as <-. reflexivity.
    + exact Iu.
    + intros q Hq. injection Hq as <-. cbn. apply Iup. reflexivity.
  - (* the pod vanishes *)
    split; cbn; try (intros; discriminate). exact Iu.
  - (* the pod controller *)
    destruct (pod_ctl (s_pod s) (s_rec s)) as [| |ph| | | |] eqn:A; try exact HI.
    + (* create *)
      destruct (s_pod s) as [p|] eqn:P; [|exact HI]. destruct (s_rec s) eqn:R; [exact HI|].
      destruct (pod_ctl_create p A) as [K X].
      split; cbn.
      * intros q x Hq _ _. injection Hq as <-. exact K.
      * intros q x _ Hx Hg _. injection Hx as <-. destruct Hg as [H1|[H1|H1]]; cbn in H1; discriminate.
      * intros x Hx. injection Hx as <-. cbn. apply Iup. reflexivity.
      * exact Iup.
    + (* a phase is set *)
      destruct (s_rec s) as [r|] eqn:R; [|destruct (s_pod s); exact HI].
      assert (Inv (mkSt (s_pod s) (Some (set_phase r ph)) (s_used s))) as G; [|destruct (s_pod s); exact G].
      apply (inv_update s r); [exact HI|exact R|reflexivity|].
      intro Hg. destruct (going_set_phase r ph Hg) as [E|[E|E]].
      * right. intros q Hq Hu. rewrite Hq in A. destruct (pod_ctl_going q r ph A (or_introl E)) as [X|X]; [exact X|congruence].
      * right. intros q Hq Hu. rewrite Hq in A. destruct (pod_ctl_going q r ph A (or_intror E)) as [X|X]; [exact X|congruence].
      * left. right. right. exact E.
    + (* the record object is deleted *)
      destruct (s_rec s) as [r|] eqn:R; [|destruct (s_pod s); exact HI].
      assert (Inv (mkSt (s_pod s) (Some (set_del r)) (s_used s))) as G; [|destruct (s_pod s); exact G].
      apply (inv_update s r); [exact HI|exact R|reflexivity|].
      intros _. right. intros q Hq Hu. rewrite Hq in A. exfalso. apply (pod_ctl_delete q r A). congruence.
    + (* the uid is taken over *)
      destruct (s_pod s) as [p|] eqn:P; [|exact HI]. destruct (s_rec s) as [r|] eqn:R; [|exact HI].
      destruct (pod_ctl_setuid p r A) as (K & P3 & D & X).
      split; cbn.
      * intros q x Hq _ _. injection Hq as <-. exact K.
      * intros q x _ Hx Hg _. injection Hx as <-. destruct Hg as [H1|[H1|H1]]; cbn in H1; try lia. congruence.
      * intros x Hx. injection Hx as <-. cbn. apply Iup. reflexivity.
      * exact Iup.
    + (* the node label follows the pod *)
      destruct (s_pod s) as [p|] eqn:P; [|exact HI]. destruct (s_rec s) as [r|] eqn:R; [|exact HI].
      rewrite <- P. apply (inv_update s r); [exact HI|exact R|reflexivity|].
      intros Hg. left. destruct Hg as [H1|[H1|H1]]; cbn in H1; [left|right; left|right; right]; exact H1.
  - (* the PodENI controller *)
    destruct (s_rec s) as [r|] eqn:R; [|exact HI].
    destruct (negb ok); [exact HI|].
    destruct (eni_ctl (s_pod s) fx r) eqn:A; try exact HI.
    + apply (inv_update s r); [exact HI|exact R|reflexivity|].
      intro Hg. left. destruct (going_set_phase r 1 Hg) as [E|[E|E]]; try discriminate. right. right. exact E.
    + apply (inv_update s r); [exact HI|exact R|reflexivity|].
      intro Hg. left. destruct (going_set_phase r 3 Hg) as [E|[E|E]]; try discriminate. right. right. exact E.
    + (* the object is deleted: the record was Deleting already *)
      apply (inv_update s r); [exact HI|exact R|reflexivity|].
      intros _. left. right. left.
      unfold eni_ctl in A. destruct (r_del r); [destruct (r_fin r); discriminate|].
      destruct ((r_phase r =? 1) || (r_phase r =? 3)); [discriminate|]. destruct (r_phase r =? 2); [discriminate|].
      destruct (r_phase r =? 5) eqn:P5; [apply Z.eqb_eq; exact P5|]. destruct (s_pod s); [destruct (_ || _)|]; discriminate.
    + split; cbn; try (intros; discriminate). exact Iup.
  - (* the record collector *)
    destruct (s_rec s) as [r|] eqn:R; [|exact HI].
    apply (inv_update s r); [exact HI|exact R|reflexivity|].
    intro Hg. destruct (Z.eq_dec (gc_rec (s_pod s) r) (r_phase r)) as [E|E].
    + left. destruct Hg as [H1|[H1|H1]]; cbn in H1; [left|right; left|right; right]; congruence.
    + right. intros q Hq Hu. destruct (gc_rec_going (s_pod s) r E) as [_ [N|(p' & Hp' & Rq)]]; [congruence|].
      rewrite Hq in Hp'. injection Hp' as <-. unfold requires_rec in Rq.
      apply andb_false_iff in Rq as [Rq|Rq].
      * apply negb_false_iff in Rq. exact Rq.
      * apply negb_false_iff in Rq. apply Z.eqb_eq in Rq. exfalso. apply (Ik q r Hq eq_refl); [congruence|exact Rq].
Qed.

Theorem inv_run l : Inv (run l).
Proof.
  unfold run. assert (G : forall s, Inv s -> Inv (fold_left step l s)).
  { induction l as [|e l IH]; intros s H; [exact H|]. cbn. apply IH. apply inv_step. exact H. }
  apply G. apply inv_init.
Qed.

(* the cloud detach / delete of the record's interfaces happens only when the record is on its way out *)
Lemma pulls_going s e r : s_rec s = Some r -> pulls s e = true -> going r.
Proof.
  intros R. unfold pulls. destruct e; try discriminate. rewrite R.
  unfold eni_ctl. destruct (r_del r) eqn:D; [intros _; right; right; exact D|].
  destruct ((r_phase r =? 1) || (r_phase r =? 3)); [discriminate|].
  destruct (r_phase r =? 2) eqn:P2; [intros _; left; apply Z.eqb_eq; exact P2|].
  destruct (r_phase r =? 5); [discriminate|]. destruct (s_pod s); [destruct (_ || _)|]; discriminate.
Qed.

Theorem never_pulled_from_running_pod l e r p :
  s_rec (run l) = Some r -> s_pod (run l) = Some p -> pulls (run l) e = true ->
  q_uid p = r_uid r -> q_exited p = true.
Proof.
  intros R P Hp U. destruct (inv_run l) as [_ Is _ _].
  apply (Is p r P R); [eapply pulls_going; eassumption|congruence].
Qed.

(* no action of either controller or of the collector changes the interfaces and addresses of a record *)
Lemma step_keeps_allocs s e r r' : s_rec s = Some r -> s_rec (step s e) = Some r' -> r_allocs r' = r_allocs r.
Proof.
  intros R. destruct e as [p| | |al|fx ok|]; cbn [step].
  - destruct (s_pod s); [|destruct (_ || _)]; cbn; rewrite R; intro H; injection H as <-; reflexivity.
  - destruct (s_pod s); cbn; rewrite R; intro H; injection H as <-; reflexivity.
  - cbn. rewrite R. intro H; injection H as <-; reflexivity.
  - rewrite R. destruct (pod_ctl (s_pod s) (Some r)); destruct (s_pod s); cbn; try rewrite R; intro H; injection H as <-; reflexivity.
  - rewrite R. destruct (negb ok); [rewrite R; intro H; injection H as <-; reflexivity|].
    destruct (eni_ctl (s_pod s) fx r); cbn; try rewrite R; intro H; try discriminate; injection H as <-; reflexivity.
  - rewrite R. cbn. intro H; injection H as <-; reflexivity.
Qed.

(* ---------------------------------------------------------------------------------------------------------- *)
(* the record collector's keep rule (C11) *)
Lemma gc_keep_acc age l : forall k,
  fold_left (fun keep a =>
     if negb (a_fixed a) then keep
     else if a_strat a =? 2 then true
     else if a_strat a =? 1 then
       (if (a_ttl a <? 0) || ((0 <=? age) && (age <? a_ttl a)) then true else keep)
     else true) l k = k || existsb (alloc_keeps age) l.
Proof.
  induction l as [|a l IH]; intro k; [cbn; rewrite orb_false_r; reflexivity|].
  cbn [fold_left existsb]. rewrite IH. unfold alloc_keeps at 2.
  destruct (a_fixed a); cbn [negb]; [|reflexivity].
  destruct (a_strat a =? 2); [rewrite orb_true_r; reflexivity|].
  destruct (a_strat a =? 1).
  - destruct ((a_ttl a <? 0) || ((0 <=? age) && (age <? a_ttl a))); [rewrite orb_true_r; reflexivity|]. reflexivity.
  - rewrite orb_true_r. reflexivity.
Qed.
Theorem gc_keep_spec age l : gc_keep age l = existsb (alloc_keeps age) l.
Proof. unfold gc_keep. rewrite gc_keep_acc. reflexivity. Qed.

Theorem gc_keep_any age l a : In a l -> alloc_keeps age a = true -> gc_keep age l = true.
Proof. intros Hin Hk. rewrite gc_keep_spec. apply existsb_exists. exists a. auto. Qed.

(* a record the rule keeps is never moved by the collector *)
Theorem gc_rec_kept pod r : gc_keep (r_seen r) (r_allocs r) = true -> gc_rec pod r = r_phase r.
Proof.
  intro K. unfold gc_rec. rewrite K.
  destruct pod as [p|]; [destruct (requires_rec p); [reflexivity|]|]; destruct (_ || _); reflexivity.
Qed.
Theorem gc_rec_pod_present p r : requires_rec p = true -> gc_rec (Some p) r = r_phase r.
Proof. intro R. unfold gc_rec. rewrite R. reflexivity. Qed.

Theorem leak_victim_spec tags age ref :
  leak_victim tags age ref = true <-> bit tags 0 = true /\ bit tags 1 = true /\ bit tags 2 = false /\ 600 <= age /\ ref = false.
Proof.
  unfold leak_victim, ours. split.
  - intro H. apply andb_true_iff in H as [H R]. apply andb_true_iff in H as [H A]. apply andb_true_iff in H as [H B2].
    apply andb_true_iff in H as [B0 B1]. apply negb_true_iff in B2, R. apply Z.leb_le in A. auto.
  - intros (B0 & B1 & B2 & A & R). rewrite B0, B1, B2, R. apply Z.leb_le in A. rewrite A. reflexivity.
Qed.
