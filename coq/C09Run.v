(* C09Run.v — C09 is decided on the service harness (SvcRun) and, for the question the GC asks the API about a pod
   (PodExist, marker 98), on PodExist.v. *)
From Coq Require Import ZArith List Bool.
From TV Require Import Codec SvcRun PodExist.
Import ListNotations.
Local Open Scope Z_scope.

Definition run_c09 (l : list Z) : list Z := match l with 98 :: r => run_podexist r | _ => run_svc l end.
Definition chk_c09_all (l o : list Z) : bool := match l with 98 :: r => chk_podexist r o | _ => chk_c09 l o end.
Definition why_c09 (l o : list Z) : Z := match l with 98 :: r => why_podexist r o * 100000 | _ => why_svc 9 l o end.
