(* Props_C17.v — property C17 stated against C17Model.  "The view" of the pool for an id is
   its unexpired cache entry, else the API's answer; every clause is relative to the view
   at the moment of the call (reads do not change it: get_by_id_view). *)
From Coq Require Import ZArith List Bool.
From TV Require Import Codec C17Model C17Proofs.
Import ListNotations.
Local Open Scope Z_scope.

(* member of the caller's list, in the requested zone unless fallback is enabled, with free
   addresses; a fallback only when no in-zone candidate exists; an error only when there is
   no candidate at all — for every policy, every resolution of shuffles / sort ties (obs) *)
Theorem c17_member_zone_free : forall s zone ids policy ignore obs obs_f,
  0 <= ttl s ->
  match g_res (snd (get_one s zone ids policy ignore obs obs_f)) with
  | Some x =>
      In x ids /\ exists e, view s (cch s) x = Some e /\ e_free e <> 0 /\
      (e_zone e = zone \/ (ignore = true /\ inz s zone ids = []))
  | None => inz s zone ids = [] /\ fbs s zone ignore ids = []
  end.
Proof.
  intros s zone ids policy ignore obs obs_f Ht.
  pose proof (get_one_result s zone ids policy ignore obs obs_f Ht) as H. cbv zeta in H.
  destruct (g_res _) as [x|]; [|exact H].
  unfold inz, fbs in *. destruct (cands s (cch s) (eligible_in zone) ids) as [|a l] eqn:Ei.
  - apply cands_in in H as (Hin & e & Hv & Hp). split; [exact Hin|]. exists e. split; [exact Hv|].
    unfold eligible_fb in Hp. apply andb_prop in Hp as [Hp Hf]. apply andb_prop in Hp as [Hig _].
    split; [intros E; rewrite E in Hf; discriminate | right; split; [exact Hig | reflexivity]].
  - rewrite <- Ei in H. apply cands_in in H as (Hin & e & Hv & Hp). split; [exact Hin|]. exists e. split; [exact Hv|].
    unfold eligible_in in Hp. apply andb_prop in Hp as [Hz Hf].
    split; [intros E; rewrite E in Hf; discriminate | left; apply Z.eqb_eq; exact Hz].
Qed.
Print Assumptions c17_member_zone_free.

Theorem c17_ordered_first : forall s zone ids policy ignore obs obs_f,
  0 <= ttl s -> policy <> 1 -> policy <> 2 ->
  g_res (snd (get_one s zone ids policy ignore obs obs_f)) =
  match inz s zone ids with x :: _ => Some x | [] => hd_error (fbs s zone ignore ids) end.
Proof. exact get_one_ordered. Qed.
Print Assumptions c17_ordered_first.

Theorem c17_most_max : forall s zone ids ignore obs obs_f x,
  0 <= ttl s ->
  g_res (snd (get_one s zone ids 1 ignore obs obs_f)) = Some x ->
  forall y, In y (match inz s zone ids with _ :: _ => inz s zone ids | [] => fbs s zone ignore ids end) ->
            free_of s (cch s) y <= free_of s (cch s) x.
Proof. exact get_one_most. Qed.
Print Assumptions c17_most_max.

Theorem c17_blocked_until_expiry : forall s id e dt zone ids policy ignore obs obs_f,
  0 <= ttl s -> 0 <= dt <= ttl s -> cache_get (now s) (cch s) id = Some e ->
  g_res (snd (get_one (advance (block s id) dt) zone ids policy ignore obs obs_f)) <> Some id.
Proof. exact blocked_not_chosen. Qed.
Print Assumptions c17_blocked_until_expiry.

(* the caller's list is handed back untouched (the model shuffles/sorts copies) *)
Theorem c17_ids_unchanged : forall s zone ids policy ignore obs obs_f,
  g_ids_after (snd (get_one s zone ids policy ignore obs obs_f)) = ids.
Proof.
  intros. unfold get_one.
  repeat match goal with
         | |- context [if ?b then _ else _] => destruct b
         | |- context [let '(_, _) := ?x in _] => destruct x
         | |- context [match ?x with [] => _ | _ :: _ => _ end] => destruct x
         end; reflexivity.
Qed.
Print Assumptions c17_ids_unchanged.

(* reads are atomic and do not disturb the view of any id: interleaved calls see the same
   decision inputs as sequential ones (logical atomicity; data-race freedom is the race detector's) *)
Theorem c17_reads_preserve_view : forall s c id oe c' f,
  0 <= ttl s -> get_by_id s c id = (oe, c', f) ->
  oe = view s c id /\ forall id', view s c' id' = view s c id'.
Proof. exact get_by_id_view. Qed.
Print Assumptions c17_reads_preserve_view.

Example c17_ex :
  let s := {| now := 0; ttl := 600; cch := [];
              ap := [(1, Some {| e_zone := 7; e_free := 0 |}); (2, Some {| e_zone := 8; e_free := 5 |});
                     (3, Some {| e_zone := 7; e_free := 9 |})] |} in
  g_res (snd (get_one s 7 [1; 2; 3] 0 true 0 [])) = Some 3 /\
  g_res (snd (get_one s 9 [1; 2; 3] 0 true 0 [])) = Some 2 /\
  g_res (snd (get_one s 9 [1; 2; 3] 0 false 0 [])) = None.
Proof. vm_compute. repeat split; reflexivity. Qed.
