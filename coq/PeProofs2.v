(* PeProofs2.v — progress of the PodENI model: the record of a vanished pod without a fixed address disappears;
   a fixed-IP record is re-bound to the recreated pod with the same interfaces. *)
From Coq Require Import ZArith List Bool Lia.
From TV Require Import Codec PeModel PeProofs.
Import ListNotations.
Local Open Scope Z_scope.

(* the pod is gone, the record is bound and has no fixed address: the pod controller marks it, the PodENI controller
   deletes the object, then (finalizer) detaches and deletes the interfaces and lets the record go — whatever else
   the state holds *)
Theorem vanished_pod_record_goes r used :
  r_phase r = 1 -> r_del r = false -> r_fin r = true -> have_fixed (r_allocs r) = false ->
  s_rec (fold_left step [EvPodCtl []; EvEniCtl true true; EvEniCtl true true] (mkSt None (Some r) used)) = None.
Proof.
  intros P D F X. cbn [fold_left].
  (* pod controller *)
  assert (A1 : pod_ctl None (Some r) = PSetPhase 5).
  { unfold pod_ctl. rewrite P, D, X. reflexivity. }
  unfold step at 3. cbn [s_pod s_rec]. rewrite A1.
  (* PodENI controller: delete the object *)
  set (r1 := set_phase r 5).
  assert (A2 : eni_ctl None true r1 = EDeleteObj).
  { unfold eni_ctl, r1. cbn. rewrite D. reflexivity. }
  unfold step at 2. cbn [s_pod s_rec negb]. rewrite A2.
  (* PodENI controller: finalizer *)
  set (r2 := set_del r1).
  assert (A3 : eni_ctl None true r2 = EFinalize).
  { unfold eni_ctl, r2, r1. cbn. rewrite F. reflexivity. }
  unfold step. cbn [s_pod s_rec negb]. rewrite A3. reflexivity.
Qed.

(* a fixed-IP record left Unbind by the previous instance; a pod of the same name appears with a new uid on the
   same node: the pod controller takes the uid over, asks for the binding, the PodENI controller attaches — the
   record is Bind under the new uid with the interfaces and addresses it had *)
Theorem fixed_record_rebound r p used :
  r_phase r = 3 -> r_del r = false -> have_fixed (r_allocs r) = true ->
  q_exited p = false -> q_kind p <> 5 -> r_node r = q_node p -> r_uid r <> q_uid p ->
  exists r', s_rec (fold_left step [EvPodCtl []; EvPodCtl []; EvEniCtl true true] (mkSt (Some p) (Some r) used)) = Some r' /\
             r_phase r' = 1 /\ r_uid r' = q_uid p /\ r_allocs r' = r_allocs r.
Proof.
  intros P D X E K N U. cbn [fold_left].
  assert (Kb : q_kind p =? 5 = false) by (apply Z.eqb_neq; exact K).
  assert (Ub : r_uid r =? q_uid p = false) by (apply Z.eqb_neq; exact U).
  assert (Nb : negb (r_node r =? 0) && negb (r_node r =? q_node p) = false) by (rewrite N, Z.eqb_refl; cbn; apply andb_false_r).
  assert (A1 : pod_ctl (Some p) (Some r) = PSetUid).
  { unfold pod_ctl. rewrite E, Kb, D, P. cbn. rewrite Nb, Ub. reflexivity. }
  unfold step at 3. cbn [s_pod s_rec]. rewrite A1.
  set (r1 := set_uid r (q_uid p)).
  assert (A2 : pod_ctl (Some p) (Some r1) = PSetPhase 4).
  { unfold pod_ctl, r1. cbn. rewrite E, Kb, D, P. cbn. rewrite Nb, Z.eqb_refl. reflexivity. }
  unfold step at 2. cbn [s_pod s_rec]. rewrite A2.
  set (r2 := set_phase r1 4).
  assert (A3 : eni_ctl (Some p) true r2 = EAttach).
  { unfold eni_ctl, r2, r1, set_phase, set_uid. cbn [r_del r_phase r_allocs r_fin]. rewrite D, X. reflexivity. }
  unfold step. cbn [s_pod s_rec negb]. rewrite A3.
  exists (set_phase r2 1). repeat split.
Qed.
