(* Props_C10.v — property C10 (the PodENI record follows its phase machine and an interface is never pulled from a
   live pod). *)
From Coq Require Import ZArith List Bool.
From TV Require Import PeModel PeProofs PeProofs2.
Import ListNotations.
Local Open Scope Z_scope.

(* every phase the pod controller sets follows an edge of the documented machine - except that a fixed-IP record
   still Initial or Binding is sent to Detaching when its pod goes away (known finding, witness below) *)
Theorem c10_pod_controller_edges : forall pod r ph,
  pod_ctl pod (Some r) = PSetPhase ph -> phase_wf r ->
  edge_ok (r_phase r) ph = true \/ ((r_phase r = 0 \/ r_phase r = 4) /\ ph = 2 /\ have_fixed (r_allocs r) = true).
Proof. exact pod_ctl_edges. Qed.
Print Assumptions c10_pod_controller_edges.

Theorem c10_documented_machine_refuted :
  exists pod r ph, pod_ctl pod (Some r) = PSetPhase ph /\ phase_wf r /\ edge_ok (r_phase r) ph = false.
Proof.
  exists None, (mkRec 1 4 7 1 false true [mkAl 1 1 true 2 0] 0), 2. vm_compute. repeat split; discriminate.
Qed.
Print Assumptions c10_documented_machine_refuted.

(* the PodENI controller attaches only from Initial / Binding (to Bind), detaches only from Detaching (to Unbind),
   deletes the object only from Deleting and finalizes (detach + delete of the interfaces) only under deletion *)
Theorem c10_podeni_controller_edges : forall pod fx r, phase_wf r ->
  (eni_ctl pod fx r = EAttach -> r_phase r = 0 \/ r_phase r = 4) /\
  (eni_ctl pod fx r = EDetach -> r_phase r = 2 /\ r_del r = false) /\
  (eni_ctl pod fx r = EDeleteObj -> r_phase r = 5 /\ r_del r = false) /\
  (eni_ctl pod fx r = EFinalize -> r_del r = true).
Proof. exact eni_ctl_edges. Qed.
Print Assumptions c10_podeni_controller_edges.

(* for every interleaving of pod events (appear with a fresh uid, exit, vanish) and steps of the pod controller, the
   PodENI controller (calls working or failing) and the record collector: whenever a step detaches or deletes the
   record's interfaces, the pod instance the record is bound to (same uid) is not running *)
Theorem c10_never_pulled_from_running_pod : forall l e r p,
  s_rec (run l) = Some r -> s_pod (run l) = Some p -> pulls (run l) e = true ->
  q_uid p = r_uid r -> q_exited p = true.
Proof. exact never_pulled_from_running_pod. Qed.
Print Assumptions c10_never_pulled_from_running_pod.

(* when a pod without a fixed address is gone, its bound record is marked, deleted, its interfaces detached and deleted
   and the record disappears: three controller steps, whatever else the state holds *)
Theorem c10_vanished_pod_record_goes : forall r used,
  r_phase r = 1 -> r_del r = false -> r_fin r = true -> have_fixed (r_allocs r) = false ->
  s_rec (fold_left step [EvPodCtl []; EvEniCtl true true; EvEniCtl true true] (mkSt None (Some r) used)) = None.
Proof. exact vanished_pod_record_goes. Qed.
Print Assumptions c10_vanished_pod_record_goes.

(* non-vacuity: a pod is created, bound, replaced by a new instance under the same name; the interfaces are pulled
   (finalizer) while the NEW pod runs - allowed, the record is bound to the old uid - and a new record is created *)
Example c10_ex :
  let p1 := mkPv 1 11 1 false 0 in let p2 := mkPv 1 12 1 false 0 in
  let l := [EvAdd p1; EvPodCtl [mkAl 5 5 false 0 0]; EvEniCtl true true; EvGone; EvAdd p2; EvPodCtl []] in
  pulls (run l) (EvEniCtl true true) = true /\
  match s_rec (run l), s_pod (run l) with Some r, Some p => (r_uid r =? 11) && (q_uid p =? 12) | _, _ => false end = true /\
  s_rec (run (l ++ [EvEniCtl true true; EvPodCtl [mkAl 6 6 false 0 0]])) = Some (mkRec 1 0 12 1 false true [mkAl 6 6 false 0 0] (-1)).
Proof. vm_compute. auto. Qed.
