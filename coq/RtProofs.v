(* RtProofs.v — theorems about the teardown-report model (RtModel). *)
From Coq Require Import ZArith List Bool Lia.
From TV Require Import RtModel.
Import ListNotations.
Local Open Scope Z_scope.

Lemma memz_In x l : memz x l = true <-> In x l.
Proof.
  induction l as [|y r IH]; cbn [memz In]; [split; [discriminate | tauto]|].
  rewrite orb_true_iff, IH, Z.eqb_eq. split; intros [H|H]; auto.
Qed.
Lemma In_addz x y l : In x (addz y l) <-> x = y \/ In x l.
Proof.
  unfold addz. destruct (memz y l) eqn:E.
  - apply memz_In in E. split; [auto | intros [->|H]; assumption].
  - cbn [In]. split; intros [H|H]; auto.
Qed.
Lemma In_remz x y l : In x (remz y l) <-> In x l /\ x <> y.
Proof.
  unfold remz. rewrite filter_In, negb_true_iff, Z.eqb_neq. split; intros [A B]; split; auto.
Qed.

(* the invariant: whatever is recorded or reported as torn down had its DEL processed *)
Definition Inv (s : st) : Prop :=
  (forall u, In u (pend s) -> In u (dels s)) /\
  (forall e, In e (table s) -> e_del e = true -> In (e_uid e) (dels s)).

Lemma stamp_deleted_spec u l e : In e (stamp_deleted u l) -> e_del e = true -> e_uid e = u \/ (In e l /\ e_del e = true).
Proof.
  unfold stamp_deleted. destruct (find_ent u l) as [ef|].
  - intros Hin Hd. apply in_map_iff in Hin as (e0 & He & Hin). destruct (e_uid e0 =? u) eqn:E.
    + subst e. left. reflexivity.
    + subst e. right. auto.
  - intros Hin Hd. apply in_app_iff in Hin as [H|[H|[]]]; [right; auto | subst e; left; reflexivity].
Qed.
Lemma fold_stamp_spec us : forall l e, In e (fold_left (fun l u => stamp_deleted u l) us l) -> e_del e = true ->
  In (e_uid e) us \/ (In e l /\ e_del e = true).
Proof.
  induction us as [|u r IH]; intros l e Hin Hd; cbn [fold_left] in Hin; [right; auto|].
  destruct (IH _ _ Hin Hd) as [H|[H H2]]; [left; right; exact H|].
  destruct (stamp_deleted_spec _ _ _ H H2) as [E|E]; [left; left; symmetry; exact E | right; exact E].
Qed.

Lemma inv_init : Inv init.
Proof. split; cbn; intros; contradiction. Qed.
Lemma inv_step s o : Inv s -> Inv (step s o).
Proof.
  intros [Hp Ht]. destruct o; cbn [step].
  - (* release *) split; cbn [pend dels table rt].
    + intros x Hx. apply In_addz. apply In_addz in Hx as [->|Hx]; [left; reflexivity | right; apply Hp; exact Hx].
    + intros e He Hd. apply In_addz. right. apply (Ht e He Hd).
  - (* answer *) split; cbn [pend dels table rt]; [|exact Ht]. intros x Hx. apply In_remz in Hx as [Hx _]. apply Hp; exact Hx.
  - (* flush *) destruct (pend s) as [|p0 pr] eqn:Ep; [split; [intros x Hx; unfold pend in *; rewrite Ep in Hx; contradiction | exact Ht]|].
    assert (K : Inv s) by (split; [intros x Hx; rewrite Ep in Hx; apply Hp; exact Hx | exact Ht]).
    destruct (negb get_ok); [exact K|].
    destruct (deleting s); [exact K|].
    destruct (negb save_ok); [exact K|].
    split; cbn [pend dels table rt]; [intros x []|].
    intros e He Hd. destruct (fold_stamp_spec _ _ _ He Hd) as [H|[H H2]]; [apply Hp; exact H | apply (Ht e H H2)].
  - (* sync *) destruct (negb get_ok); [split; assumption|]. destruct (deleting s); [split; assumption|]. destruct (negb save_ok); [split; assumption|].
    split; cbn [pend dels table rt]; [exact Hp|].
    intros e He Hd. apply in_app_iff in He as [He|He].
    + apply filter_In in He as [He _]. apply (Ht e He Hd).
    + apply in_map_iff in He as (u & Hu & _). subst e. discriminate Hd.
  - split; assumption.
  - split; assumption.
  - destruct (rt s) eqn:E; split; cbn [pend dels table rt]; try assumption; unfold table in Ht; rewrite E in Ht; exact Ht.
  - split; cbn [pend dels table rt]; [exact Hp | intros e []].
  - split; assumption.
Qed.
Lemma inv_run os : forall s, Inv s -> Inv (run s os).
Proof. unfold run. induction os as [|o r IH]; intros s H; cbn [fold_left]; [exact H | apply IH, inv_step, H]. Qed.

(* `dels` is exactly the set of uids whose DEL was processed in the history *)
Fixpoint released (os : list op) : list Z :=
  match os with [] => [] | ORelease u :: r => u :: released r | _ :: r => released r end.
Lemma dels_step s o u : In u (dels (step s o)) <-> In u (dels s) \/ (match o with ORelease v => u = v | _ => False end).
Proof.
  destruct o; cbn [step dels]; try tauto.
  - rewrite In_addz. tauto.
  - destruct (pend s); [tauto|]. destruct (negb get_ok); [tauto|]. destruct (deleting s); [tauto|]. destruct (negb save_ok); cbn [dels]; tauto.
  - destruct (negb get_ok); [tauto|]. destruct (deleting s); [tauto|]. destruct (negb save_ok); cbn [dels]; tauto.
  - destruct (rt s); cbn [dels]; tauto.
Qed.
Lemma dels_run os : forall s u, In u (dels (run s os)) <-> In u (dels s) \/ In u (released os).
Proof.
  unfold run. induction os as [|o r IH]; intros s u; cbn [fold_left released]; [cbn [In]; tauto|].
  rewrite IH, dels_step. destruct o; cbn [In]; try tauto. split; intros H; intuition congruence.
Qed.

(* C03, third sentence: over every history of DELs, answers, flushes, syncs, API failures and IPAM changes, a uid is reported
   `deleted` only if a DEL for it was processed *)
Theorem reported_only_after_del os e :
  In e (table (run init os)) -> e_del e = true -> In (e_uid e) (released os).
Proof.
  intros He Hd. destruct (inv_run os init inv_init) as [_ Ht]. pose proof (Ht e He Hd) as H.
  apply dels_run in H as [[]|H]. exact H.
Qed.

(* a processed DEL is not forgotten: the uid stays recorded until an ADD for it is answered or a flush saves its report *)
Theorem recorded_until_reported s o u :
  In u (pend s) -> In u (pend (step s o)) \/ o = OAnswer u \/
  (exists g sv, o = OFlush g sv /\ exists e, In e (table (step s o)) /\ e_uid e = u /\ e_del e = true).
Proof.
  intros Hu. destruct o; cbn [step pend]; try (left; exact Hu).
  - left. apply In_addz. right. exact Hu.
  - destruct (Z.eq_dec u u0) as [->|N]; [right; left; reflexivity | left; apply In_remz; split; assumption].
  - destruct (pend s) as [|p0 pr] eqn:Ep; [contradiction|].
    destruct (negb get_ok) eqn:Eg; [left; cbn [pend]; rewrite Ep; exact Hu|].
    destruct (deleting s); [left; rewrite Ep; exact Hu|]. destruct (negb save_ok) eqn:Es; [left; rewrite Ep; exact Hu|].
    right. right. exists get_ok, save_ok. split; [reflexivity|]. cbn [table rt].
    assert (G : forall us l, In u us \/ (exists e, In e l /\ e_uid e = u /\ e_del e = true) ->
                exists e, In e (fold_left (fun l u => stamp_deleted u l) us l) /\ e_uid e = u /\ e_del e = true).
    { induction us as [|v r IH]; intros l [H|H]; cbn [fold_left].
      - contradiction.
      - exact H.
      - apply IH. destruct H as [->|H]; [|left; exact H]. right.
        unfold stamp_deleted. destruct (find_ent u l) as [e0|] eqn:F.
        + apply find_some in F as [Fi Fe]. apply Z.eqb_eq in Fe. exists (mkEnt u (e_ini e0) true). split; [|split; reflexivity].
          apply in_map_iff. exists e0. rewrite Fe, Z.eqb_refl. split; [reflexivity | exact Fi].
        + exists (mkEnt u false true). split; [apply in_app_iff; right; left; reflexivity | split; reflexivity].
      - apply IH. right. destruct H as (e & He & Hu0 & Hd). unfold stamp_deleted. destruct (find_ent v l) eqn:F.
        + destruct (e_uid e =? v) eqn:E.
          * exists (mkEnt v (e_ini e) true). apply Z.eqb_eq in E. split; [apply in_map_iff; exists e; rewrite <- E, Z.eqb_refl; split; [reflexivity | exact He] | split; [cbn; lia | reflexivity]].
          * exists e. split; [apply in_map_iff; exists e; rewrite E; split; [reflexivity | exact He] | split; assumption].
        + exists e. split; [apply in_app_iff; left; exact He | split; assumption]. }
    apply G. left. exact Hu.
  - destruct (negb get_ok); [left; exact Hu|]. destruct (deleting s); [left; exact Hu|]. destruct (negb save_ok); left; exact Hu.
  - destruct (rt s); left; exact Hu.
Qed.

(* the periodic clean-up keeps a `deleted` report for as long as the cluster IPAM still names the uid (that report is what
   lets the control plane free the address) *)
Theorem sync_keeps_report_while_bound s g sv e :
  In e (table s) -> e_del e = true -> In (e_uid e) (ipam s) -> In e (table (step s (OSync g sv))).
Proof.
  intros He Hd Hi. cbn [step]. destruct (negb g); [exact He|]. destruct (deleting s); [exact He|]. destruct (negb sv); [exact He|].
  cbn [table rt]. apply in_app_iff. left. apply filter_In. split; [exact He|]. apply memz_In in Hi. rewrite Hi. reflexivity.
Qed.
