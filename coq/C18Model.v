(* C18Model.v — pkg/controller/webhook/mutating.go:podWebhook over a projected pod, the
   PodNetworking objects (selector match results supplied by the label library as oracle
   codes), the namespace, eni-config, the previous PodENI and the cluster configuration.
   Definitions only. *)
From Coq Require Import ZArith List Bool.
From TV Require Import Codec.
Import ListNotations.
Local Open Scope Z_scope.

(* an interface name is (length, identity); eth0 = (4, 1) *)
Record pnet := { w_iflen : Z; w_ifid : Z; w_nvsw : Z; w_nsg : Z;
                 w_alloc : Z;                (* 0 absent, 1 elastic, 2 fixed, 3 present with an empty type *)
                 w_attach_eni : bool }.
Record pnw := { k_exists : bool; k_ready : bool; k_has_sel : bool; k_fixed : bool;
                k_podsel : Z; k_nssel : Z;   (* 0 no selector, 1 matches, 2 does not match *)
                k_zones : list Z; k_nvsw : Z; k_nsg : Z; k_attach_eni : bool }.
Record req := { q_pn : pnw; q_iflen : Z; q_ifid : Z }.   (* q_iflen = 0: no interface override *)

Record inp := {
  i_inject : bool; i_trunk : bool; i_crd : bool; i_hostnet : bool; i_ncont : Z; i_ignored : bool;
  i_use_eni : bool; i_fixed_name : bool; i_daemonset : bool; i_prev_zone : Z; i_prev_err : bool;
  i_has_nets : bool; i_has_req : bool; i_has_pning : bool;
  i_nets_ok : bool; i_nets : list pnet; i_req_ok : bool; i_reqs : list req;
  i_ns_exists : bool; i_pns : list pnw; i_cfg_ok : bool; i_cfg_nvsw : Z; i_cfg_nsg : Z }.

Inductive verdict :=
| Allowed | Denied | Errored
| Patched (nets : list pnet) (res_count : Z) (res_eni : bool) (affinity : list (list Z)).

Definition is_eth0 (n : pnet) : bool := (w_iflen n =? 4) && (w_ifid n =? 1).
Definition same_if (a b : pnet) : bool := (w_iflen a =? w_iflen b) && (w_ifid a =? w_ifid b).

Fixpoint insert_z (x : Z) (l : list Z) : list Z :=
  match l with [] => [x] | y :: r => if x <? y then x :: l else if x =? y then l else y :: insert_z x r end.
Definition zset (l : list Z) : list Z := fold_right insert_z [] l.        (* sets.String.List(): sorted, unique *)
Definition zinter (a b : list Z) : list Z := filter (fun x => existsb (Z.eqb x) b) a.

Definition of_pn (k : pnw) (iflen ifid : Z) : pnet :=
  {| w_iflen := iflen; w_ifid := ifid; w_nvsw := k_nvsw k; w_nsg := k_nsg k;
     w_alloc := if k_fixed k then 2 else 1; w_attach_eni := k_attach_eni k |}.

(* getPodNetworkRequests: None = error (denied) *)
Fixpoint requests (first : bool) (acc : list Z) (l : list req) : option (list pnet * list Z) :=
  match l with
  | [] => Some ([], acc)
  | q :: r =>
      let k := q_pn q in
      if negb (k_exists k) || negb (k_ready k) || k_has_sel k then None
      else
        let zs := zset (k_zones k) in
        let acc' := if first then zs else zinter acc zs in
        match requests false acc' r with
        | Some (ns, z) => Some ((if q_iflen q =? 0 then of_pn k 4 1 else of_pn k (q_iflen q) (q_ifid q)) :: ns, z)
        | None => None
        end
  end.

(* matchOnePodNetworking: every selector that is set must match, and at least one must be set *)
Fixpoint match_one (fixed_name : bool) (l : list pnw) : option pnw :=
  match l with
  | [] => None
  | k :: r =>
      if negb (k_ready k) then match_one fixed_name r
      else if negb fixed_name && k_fixed k then match_one fixed_name r
      else if (k_podsel k =? 2) || (k_nssel k =? 2) then match_one fixed_name r
      else if (k_podsel k =? 1) || (k_nssel k =? 1) then Some k
      else match_one fixed_name r
  end.

Inductive vres := VDenied | VOk (nets : list pnet) (require : bool) (use_prev : bool).

Fixpoint validate (fixed_name : bool) (seen : list pnet) (l : list pnet) : vres :=
  match l with
  | [] => VOk [] false false
  | n :: r =>
      if 10 <? w_nsg n then VDenied
      else if (w_iflen n <=? 0) || (6 <=? w_iflen n) then VDenied
      else if existsb (same_if n) seen then VDenied
      else
        let al := if (w_alloc n =? 0) || (w_alloc n =? 3) then 1 else w_alloc n in   (* 3: present with an empty type *)
        if (al =? 2) && negb fixed_name then VDenied
        else match validate fixed_name (n :: seen) r with
             | VDenied => VDenied
             | VOk ns req up =>
                 VOk ({| w_iflen := w_iflen n; w_ifid := w_ifid n; w_nvsw := w_nvsw n; w_nsg := w_nsg n;
                         w_alloc := al; w_attach_eni := w_attach_eni n |} :: ns)
                     (req || (w_nvsw n =? 0) || (w_nsg n =? 0)) (up || (al =? 2))
             end
  end.

Definition fill_defaults (i : inp) (n : pnet) : pnet :=
  {| w_iflen := w_iflen n; w_ifid := w_ifid n;
     w_nvsw := if w_nvsw n =? 0 then i_cfg_nvsw i else w_nvsw n;
     w_nsg := if w_nsg n =? 0 then i_cfg_nsg i else w_nsg n;
     w_alloc := w_alloc n; w_attach_eni := w_attach_eni n |}.

Definition finish (i : inp) (nets : list pnet) (vzone : list Z) : verdict :=
  match validate (i_fixed_name i) [] nets with
  | VDenied => Denied
  | VOk ns require use_prev =>
      if require && negb (i_cfg_ok i) then Errored
      else
        let ns' := if require then map (fill_defaults i) ns else ns in
        let prev := if use_prev && i_fixed_name i && negb (i_prev_zone i =? 0) then [i_prev_zone i] else [] in
        let aff := if i_daemonset i then []
                   else filter (fun z => match z with [] => false | _ => true end) [prev; vzone] in
        Patched ns'
                (if i_inject i then Z.of_nat (length ns') else 0)
                (if i_inject i then (if i_trunk i then existsb w_attach_eni ns' else true) else false)
                aff
  end.

Definition pod_webhook (i : inp) : verdict :=
  if i_hostnet i then Allowed
  else if i_ncont i =? 0 then Allowed
  else if i_ignored i then Allowed
  else if (i_has_nets i && i_has_req i) || (i_has_nets i && i_has_pning i) || (i_has_req i && i_has_pning i) then Denied
  else if i_fixed_name i && i_prev_err i then Errored
  else if i_has_nets i && negb (i_nets_ok i) then Denied
  else
    let nets := if i_has_nets i then i_nets i else [] in
    match nets with
    | _ :: _ => finish i nets []
    | [] =>
        if i_has_req i && negb (i_req_ok i) then Denied
        else
          match (if i_has_req i then i_reqs i else []) with
          | (_ :: _) as qs =>
              match requests true [] qs with
              | None => Denied
              | Some (ns, z) => finish i ns z
              end
          | [] =>
              match i_pns i with
              | [] =>
                  if negb (i_crd i) && negb (i_use_eni i) then Allowed
                  else finish i [{| w_iflen := 4; w_ifid := 1; w_nvsw := 0; w_nsg := 0; w_alloc := 0; w_attach_eni := false |}] []
              | _ =>
                  if negb (i_ns_exists i) then Errored
                  else match match_one (i_fixed_name i) (i_pns i) with
                       | None =>
                           if negb (i_crd i) && negb (i_use_eni i) then Allowed
                           else finish i [{| w_iflen := 4; w_ifid := 1; w_nvsw := 0; w_nsg := 0; w_alloc := 0; w_attach_eni := false |}] []
                       | Some k => finish i [of_pn k 4 1] (zset (k_zones k))
                       end
              end
          end
    end.
