(* PoolChk.v — the clauses of C01, C06, C07 as boolean predicates over what the IMPLEMENTATION did
   (the harness log and its snapshots).  These functions do not use the pool model: they keep an
   observer's ledger (what the cloud assigned / was asked to remove / what a sync reported, which
   pod was handed which address and has not released it) and judge every reply, every cloud call
   and every quiescent snapshot against it. *)
From Coq Require Import ZArith List Bool.
From TV Require Import Codec PoolModel PoolRun.
Import ListNotations.
Local Open Scope Z_scope.

Record led := mkLed { l_eni : Z; l_4 : list Z; l_6 : list Z; l_prim : Z }.
Record rq := mkRq { q_rid : Z; q_pod : Z; q_slot : Z; q_done : bool }.

Record obs := mkObs {
  o_now : Z;
  o_slot_eni : list (Z * Z);          (* interface slot -> eni the cloud attached for it *)
  o_led : list led;                   (* what the cloud has assigned, per eni *)
  o_gone : list Z;                    (* addresses a sync reported missing *)
  o_unreq : list Z;                   (* addresses an unassign call was started for *)
  o_rr : list (Z * Z);                (* (eni, address) removed remotely, not yet reported by a sync *)
  o_held : list (Z * Z * Z);          (* pod, family (4/6), address: handed out and not released *)
  o_reqs : list rq;
  o_calls : list (Z * Z * list Z);    (* slot, kind, addresses: cloud calls in flight *)
  o_fault : bool;                     (* some cloud call failed or was answered only in part *)
  o_inh : list (Z * Z);               (* slot -> back-off deadline implied by the answers so far *)
  o_snap : nat;                       (* index of the next snapshot *)
  o_idx : Z;                          (* index of the current record *)
  o_bal : Z * Z * list Z;             (* balancer pass in this block: must-dispose flag, pre-heat requests wanted (-1: no pass), pre-heat rids seen *)
  o_ok : bool; o_why : Z }.

Definition bad_obs (o : obs) (why : Z) : obs :=
  if o_ok o then mkObs (o_now o) (o_slot_eni o) (o_led o) (o_gone o) (o_unreq o) (o_rr o) (o_held o) (o_reqs o) (o_calls o)
                       (o_fault o) (o_inh o) (o_snap o) (o_idx o) (o_bal o) false (why * 100000 + o_idx o) else o.
Definition req_ok (o : obs) (b : bool) (why : Z) : obs := if b then o else bad_obs o why.

Fixpoint assoc (k : Z) (l : list (Z * Z)) : Z := match l with [] => 0 | (a, b) :: r => if a =? k then b else assoc k r end.
Definition set_assoc (k v : Z) (l : list (Z * Z)) : list (Z * Z) := (k, v) :: filter (fun p => negb (fst p =? k)) l.
Definition led_of (o : obs) (e : Z) : option led := List.find (fun l => l_eni l =? e) (o_led o).
Definition put_led (x : led) (l : list led) : list led := x :: filter (fun y => negb (l_eni y =? l_eni x)) l.
Definition held_by_other (o : obs) (pod fam a : Z) : bool :=
  existsb (fun h => match h with (p, f, b) => negb (p =? pod) && (f =? fam) && (b =? a) end) (o_held o).
Definition held_in_fam (o : obs) (pod fam : Z) : list Z :=
  flat_map (fun h => match h with (p, f, b) => if (p =? pod) && (f =? fam) then [b] else [] end) (o_held o).
Definition is_held (o : obs) (fam a : Z) : bool :=
  existsb (fun h => match h with (_, f, b) => (f =? fam) && (b =? a) end) (o_held o).

Definition upd (o : obs) now se ld gone unreq rr held reqs calls fault inh :=
  mkObs now se ld gone unreq rr held reqs calls fault inh (o_snap o) (o_idx o) (o_bal o) (o_ok o) (o_why o).

(* ---- the clause evaluated when an address is handed to a pod (C01) -------------------------- *)
Definition handout_code (o : obs) (pod eni fam a : Z) : Z :=
  if a =? 0 then 0
  else if held_by_other o pod fam a then 1                              (* somebody else holds it *)
  else match held_in_fam o pod fam with
       | [] =>                                                           (* a new hand-out *)
           if negb (match led_of o eni with
                    | Some l => memz a (if fam =? 4 then l_4 l else l_6 l)      (* assigned by the cloud to an attached interface *)
                                || existsb (fun p => (fst p =? eni) && (snd p =? a)) (o_rr o)   (* (a remote removal no sync has reported yet does not count) *)
                    | None => false end) then 2
           else if memz a (o_unreq o) then 3                             (* unassigned by the daemon *)
           else if memz a (o_gone o) then 4                              (* seen as removed by the sync *)
           else 0
       | olds => if forallb (Z.eqb a) olds then 0 else 5                 (* a repeated ADD must get the same address *)
       end.
Definition handout_ok (o : obs) (pod eni fam a : Z) : bool := handout_code o pod eni fam a =? 0.

(* one slot of a snapshot: status, eni, inhibit, v4 entries, v6 entries, four queues *)
Record ssnap := mkSS { x_st : Z; x_eni : Z; x_inh : Z; x_4 : list (list Z); x_6 : list (list Z); x_q : list (list Z) }.
Fixpoint take_ents (n : nat) (l : list Z) : list (list Z) * list Z :=
  match n with
  | O => ([], l)
  | S n' => match l with
            | a :: b :: c :: d :: r => let '(es, r') := take_ents n' r in ([a; b; c; d] :: es, r')
            | _ => ([], []) end
  end.
Definition take_set (l : list Z) : list (list Z) * list Z :=
  match l with n :: r => take_ents (Z.to_nat n) r | [] => ([], []) end.
Definition take_q (l : list Z) : list Z * list Z := match take_list l with Some p => p | None => ([], []) end.
Definition take_ssnap (l : list Z) : option (ssnap * list Z) :=
  match l with
  | st :: e :: inh :: r =>
      let '(s4, r1) := take_set r in
      let '(s6, r2) := take_set r1 in
      let '(q1, r3) := take_q r2 in let '(q2, r4) := take_q r3 in let '(q3, r5) := take_q r4 in let '(q4, r6) := take_q r5 in
      Some (mkSS st e inh s4 s6 [q1; q2; q3; q4], r6)
  | _ => None
  end.
Fixpoint take_snap (n : nat) (l : list Z) : list ssnap * list Z :=
  match n with
  | O => ([], l)
  | S n' => match take_ssnap l with
            | Some (s, r) => let '(ss, r') := take_snap n' r in (s :: ss, r')
            | None => ([], []) end
  end.
Fixpoint all_snaps (fuel ns : nat) (l : list Z) : list (list ssnap) :=
  match fuel with
  | O => []
  | S f => match l with [] => [] | _ => let '(s, r) := take_snap ns l in s :: all_snaps f ns r end
  end.

Definition ent_addr (e : list Z) := nth 0 e 0.
Definition ent_owner (e : list Z) := nth 1 e 0.
Definition ent_st (e : list Z) := nth 2 e 0.
Definition ent_prim (e : list Z) := nth 3 e 0.

(* ---- per-record update of the observer, with the per-property judgements ------------------------
   [prop]: 1 = C01, 6 = C06, 7 = C07 *)
Definition slot_eni (o : obs) (i : Z) : Z := assoc i (o_slot_eni o).
Definition add_assigned (o : obs) (e : Z) (i4 i6 : list Z) (prim : Z) : list led :=
  match led_of o e with
  | Some l => put_led (mkLed e (i4 ++ l_4 l) (i6 ++ l_6 l) (l_prim l)) (o_led o)
  | None => put_led (mkLed e i4 i6 prim) (o_led o)
  end.

Definition set_bal (o : obs) (b : Z * Z * list Z) : obs :=
  mkObs (o_now o) (o_slot_eni o) (o_led o) (o_gone o) (o_unreq o) (o_rr o) (o_held o) (o_reqs o) (o_calls o)
        (o_fault o) (o_inh o) (o_snap o) (o_idx o) b (o_ok o) (o_why o).
(* Usage() of an interface as the balancer reads it, on the implementation's own snapshot *)
Definition snap_usage (c : cfg) (x : ssnap) : Z * Z :=
  if (x_eni x =? 0) || negb (x_st x =? 2) then (0, 0)
  else let es := if c_on4 c then x_4 x else if c_on6 c then x_6 x else [] in
       (len (filter (fun e => ent_owner e =? 0) es), len (filter (fun e => negb (ent_owner e =? 0)) es)).

Definition obs_step1 (prop : Z) (c : cfg) (snaps : list (list ssnap)) (o : obs) (r : list Z) : obs :=
  match r with
  | 6 :: _ =>
      (* a balancer pass: with more idle addresses than max_pool_size it must dispose; below min_pool_size
         (and below the node's total) it must ask for the difference *)
      match nth_error snaps (pred (o_snap o)) with
      | Some ss =>
          let us := map (snap_usage c) ss in
          let idle := fold_left Z.add (map fst us) 0 in
          let inuse := fold_left Z.add (map snd us) 0 in
          set_bal o (if 0 <? idle - c_max c then 1 else 0, if c_tot c <=? idle + inuse then 0 else Z.max 0 (c_min c - idle), [])
      | None => o end
  | 1 :: rid :: pod :: _ :: 1 :: _ =>
      (* cancelled before it started *)
      upd o (o_now o) (o_slot_eni o) (o_led o) (o_gone o) (o_unreq o) (o_rr o) (o_held o)
          (mkRq rid pod (-1) false :: o_reqs o) (o_calls o) (o_fault o) (o_inh o)
  | 1 :: rid :: pod :: _ =>
      upd o (o_now o) (o_slot_eni o) (o_led o) (o_gone o) (o_unreq o) (o_rr o) (o_held o)
          (mkRq rid pod 0 false :: o_reqs o) (o_calls o) (o_fault o) (o_inh o)
  | 2 :: rid :: _ =>
      (* the caller gave up: the request no longer waits on any interface (slot -1), whenever its worker notices *)
      upd o (o_now o) (o_slot_eni o) (o_led o) (o_gone o) (o_unreq o) (o_rr o) (o_held o)
          (map (fun q => if q_rid q =? rid then mkRq rid (q_pod q) (-1) (q_done q) else q) (o_reqs o)) (o_calls o) (o_fault o) (o_inh o)
  | 7 :: i :: fam :: _ :: removed :: _ =>
      if removed =? 0 then o else
      let e := slot_eni o i in
      let ld := match led_of o e with
                | Some l => put_led (mkLed e (if fam =? 6 then l_4 l else remz removed (l_4 l))
                                           (if fam =? 6 then remz removed (l_6 l) else l_6 l) (l_prim l)) (o_led o)
                | None => o_led o end in
      upd o (o_now o) (o_slot_eni o) ld (o_gone o) (o_unreq o) ((e, removed) :: o_rr o) (o_held o) (o_reqs o) (o_calls o) true (o_inh o)
  | 14 :: dt :: _ =>
      upd o (o_now o + dt) (o_slot_eni o) (o_led o) (o_gone o) (o_unreq o) (o_rr o) (o_held o) (o_reqs o) (o_calls o) (o_fault o) (o_inh o)
  | 10 :: rid :: ok :: eni :: a4 :: a6 :: _ =>
      let pod := match List.find (fun q => q_rid q =? rid) (o_reqs o) with Some q => q_pod q | None => 0 end in
      let reqs := map (fun q => if q_rid q =? rid then mkRq (q_rid q) (q_pod q) (q_slot q) true else q) (o_reqs o) in
      if ok =? 1 then
        let o1 := if prop =? 1 then req_ok (req_ok o (handout_ok o pod eni 4 a4) (140 + handout_code o pod eni 4 a4))
                                           (handout_ok o pod eni 6 a6) (160 + handout_code o pod eni 6 a6) else o in
        let h := (if a4 =? 0 then [] else [(pod, 4, a4)]) ++ (if a6 =? 0 then [] else [(pod, 6, a6)]) in
        let held := h ++ filter (fun x => negb (existsb (fun y => match x, y with (p1, f1, b1), (p2, f2, b2) => (p1 =? p2) && (f1 =? f2) && (b1 =? b2) end) h)) (o_held o1) in
        upd o1 (o_now o1) (o_slot_eni o1) (o_led o1) (o_gone o1) (o_unreq o1) (o_rr o1) held reqs (o_calls o1) (o_fault o1) (o_inh o1)
      else upd o (o_now o) (o_slot_eni o) (o_led o) (o_gone o) (o_unreq o) (o_rr o) (o_held o) reqs (o_calls o) (o_fault o) (o_inh o)
  | 20 :: i :: rid :: pod :: nc :: _ :: _ :: acc :: _ =>
      let o := match o_bal o with (d, w, seen) => if (nc =? 1) && negb (memz rid seen) then set_bal o (d, w, rid :: seen) else o end in
      if acc =? 1 then
        let reqs := if existsb (fun q => q_rid q =? rid) (o_reqs o)
                    then map (fun q => if q_rid q =? rid then mkRq rid (q_pod q) (if q_slot q =? -1 then -1 else i) (q_done q) else q) (o_reqs o)
                    else mkRq rid pod i false :: o_reqs o in
        upd o (o_now o) (o_slot_eni o) (o_led o) (o_gone o) (o_unreq o) (o_rr o) (o_held o) reqs (o_calls o) (o_fault o) (o_inh o)
      else o
  | 22 :: i :: pod :: eni :: a4 :: a6 :: handled :: _ =>
      if handled =? 1 then
        let held := filter (fun h => match h with (p, f, b) =>
                       negb ((p =? pod) && (((f =? 4) && (b =? a4)) || ((f =? 6) && (b =? a6)))) end) (o_held o) in
        upd o (o_now o) (o_slot_eni o) (o_led o) (o_gone o) (o_unreq o) (o_rr o) held (o_reqs o) (o_calls o) (o_fault o) (o_inh o)
      else o
  | 11 :: i :: k :: n4 :: n6 :: ips =>
      let e := slot_eni o i in
      let l := match led_of o e with Some l => l | None => mkLed e [] [] 0 end in
      let o1 :=
        if prop =? 6 then
          if k =? 1 then
            req_ok (req_ok o (o_fault o || ((n4 <=? c_cap c) && (n6 <=? c_cap c))) 611)
                   (len (o_led o) + len (filter (fun p => snd (fst p) =? 1) (o_calls o)) <? len (c_types c) + 1) 612
          else if k =? 2 then req_ok o (o_fault o || (len (l_4 l) + n4 <=? c_cap c)) 613
          else if k =? 3 then req_ok o (o_fault o || (len (l_6 l) + n4 <=? c_cap c)) 614
          else if (k =? 4) || (k =? 5) then
            match take_list ips with
            | Some (xs, _) =>
                req_ok (req_ok o (negb (existsb (is_held o (if k =? 4 then 4 else 6)) xs)) 615)
                       (negb ((k =? 4) && memz (l_prim l) xs)) 616
            | None => bad_obs o 617 end
          else
            (* delete: no address of the interface in use, no request waiting on it, never trunk / erdma *)
            req_ok (req_ok (req_ok o (negb (existsb (is_held o 4) (l_4 l) || existsb (is_held o 6) (l_6 l))) 618)
                           (negb (existsb (fun q => (q_slot q =? i) && negb (q_done q) && negb (q_pod q =? 0)) (o_reqs o))) 619)
                   (nth (Z.to_nat (i - 1)) (c_types c) 0 =? 0) 620
        else if prop =? 7 then
          (* no create / assign call while the back-off deadline implied by earlier answers lies ahead
             (the worker checks 300 ms before it calls) *)
          if k <=? 3 then req_ok o (assoc i (o_inh o) <=? o_now o) 711 else o
        else o in
      let unreq := if (k =? 4) || (k =? 5) then match take_list ips with Some (xs, _) => xs ++ o_unreq o1 | None => o_unreq o1 end else o_unreq o1 in
      upd o1 (o_now o1) (o_slot_eni o1) (o_led o1) (o_gone o1) unreq (o_rr o1) (o_held o1) (o_reqs o1) ((i, k, match take_list ips with Some (xs, _) => xs | None => [] end) :: o_calls o1) (o_fault o1) (o_inh o1)
  | 12 :: i :: k :: ok :: eff :: code :: eni :: trunk :: prim :: ips =>
      let '(i4, i6) := two_lists ips in
      let calls := filter (fun p => negb ((fst (fst p) =? i) && (snd (fst p) =? k))) (o_calls o) in
      let mine := flat_map (fun p => if (fst (fst p) =? i) && (snd (fst p) =? k) then snd p else []) (o_calls o) in
      let fault := o_fault o || ((ok =? 0) && negb (k =? 0)) in
      let inh := if code =? 1 then set_assoc i (Z.max (assoc i (o_inh o)) (o_now o + 60000)) (o_inh o)
                 else if code =? 2 then set_assoc i (Z.max (assoc i (o_inh o)) (o_now o + 600000)) (o_inh o)
                 else o_inh o in
      let e := slot_eni o i in
      if (k =? 0) || (k =? 1) then
        if eni =? 0 then upd o (o_now o) (o_slot_eni o) (o_led o) (o_gone o) (o_unreq o) (o_rr o) (o_held o) (o_reqs o) calls fault inh
        else upd o (o_now o) (set_assoc i eni (o_slot_eni o)) (put_led (mkLed eni i4 i6 prim) (o_led o))
                 (remzs (i4 ++ i6) (o_gone o)) (remzs (i4 ++ i6) (o_unreq o)) (o_rr o) (o_held o) (o_reqs o) calls fault inh
      else if (k =? 2) || (k =? 3) then
        upd o (o_now o) (o_slot_eni o) (add_assigned o e i4 i6 0) (remzs (i4 ++ i6) (o_gone o)) (remzs (i4 ++ i6) (o_unreq o))
            (o_rr o) (o_held o) (o_reqs o) calls fault inh
      else if (k =? 4) || (k =? 5) then
        let ld := if (ok =? 1) || (eff =? 1) then
                    match led_of o e with
                    | Some l => put_led (mkLed e (if k =? 4 then remzs mine (l_4 l) else l_4 l) (if k =? 5 then remzs mine (l_6 l) else l_6 l) (l_prim l)) (o_led o)
                    | None => o_led o end
                  else o_led o in
        upd o (o_now o) (o_slot_eni o) ld (o_gone o) (o_unreq o) (o_rr o) (o_held o) (o_reqs o) calls fault inh
      else
        if (ok =? 1) || (eff =? 1)
        then upd o (o_now o) (set_assoc i 0 (o_slot_eni o)) (filter (fun l => negb (l_eni l =? e)) (o_led o)) (o_gone o) (o_unreq o) (o_rr o)
                 (o_held o) (o_reqs o) calls fault (if ok =? 1 then set_assoc i 0 inh else inh)
        else upd o (o_now o) (o_slot_eni o) (o_led o) (o_gone o) (o_unreq o) (o_rr o) (o_held o) (o_reqs o) calls fault inh
  | 13 :: i :: ok :: ips =>
      if ok =? 1 then
        (* the sync of interface i has now reported the remote removals on it *)
        let e := slot_eni o i in
        let seen := map snd (filter (fun p => fst p =? e) (o_rr o)) in
        upd o (o_now o) (o_slot_eni o) (o_led o) (seen ++ o_gone o) (o_unreq o) (filter (fun p => negb (fst p =? e)) (o_rr o))
            (o_held o) (o_reqs o) (o_calls o) (o_fault o) (o_inh o)
      else o
  | 21 :: i :: n :: ret :: whole :: ips =>
      let o := match o_bal o with (d, w, seen) => set_bal o (0, w, seen) end in
      if prop =? 6 then
        let '(m4, m6) := two_lists ips in
        req_ok o (negb (existsb (is_held o 4) m4 || existsb (is_held o 6) m6)) 621
      else o
  | 99 :: _ =>
      let o := if prop =? 7 then
                 match o_bal o with
                 | (d, w, seen) => req_ok (req_ok o (d =? 0) 706) ((w <? 0) || (len seen =? w)) 707
                 end else o in
      let o1 :=
        match nth_error snaps (o_snap o) with
        | None => bad_obs o 990
        | Some ss =>
            if prop =? 7 then
              fold_left (fun acc p =>
                let '(ix, x) := p in
                let i := Z.of_nat ix + 1 in
                let busy := existsb (fun q => fst (fst q) =? i) (o_calls acc) in
                match led_of acc (x_eni x) with
                | Some l =>
                    (* nothing the cloud assigned is untracked, unless its interface is on the way out *)
                    let a1 := req_ok acc ((x_st x =? 3) || (x_st x =? 1) ||
                                          (forallb (fun a => existsb (fun e => ent_addr e =? a) (x_4 x)) (l_4 l)
                                           && forallb (fun a => existsb (fun e => ent_addr e =? a) (x_6 x)) (l_6 l))) 701 in
                    (* with every call returned, what is tracked as valid is what the cloud has (up to
                       removals no sync has reported yet) *)
                    let a2 := if busy then a1 else
                      req_ok a1 (forallb (fun e => negb (ent_st e =? 1) || memz (ent_addr e) (l_4 l) || memz (ent_addr e) (map snd (o_rr acc))) (x_4 x)
                                 && forallb (fun e => negb (ent_st e =? 1) || memz (ent_addr e) (l_6 l) || memz (ent_addr e) (map snd (o_rr acc))) (x_6 x)) 702 in
                    (* no address is owned by a pod that neither holds it nor has a request in flight *)
                    req_ok a2 (forallb (fun e => (ent_owner e =? 0) || memz (ent_addr e) (held_in_fam acc (ent_owner e) 4)
                                                 || existsb (fun q => (q_pod q =? ent_owner e) && negb (q_done q)) (o_reqs acc)) (x_4 x)
                               && forallb (fun e => (ent_owner e =? 0) || memz (ent_addr e) (held_in_fam acc (ent_owner e) 6)
                                                 || existsb (fun q => (q_pod q =? ent_owner e) && negb (q_done q)) (o_reqs acc)) (x_6 x)) 703
                | None =>
                    (* the interface the slot tracks must exist in the cloud, or be none *)
                    req_ok acc ((x_eni x =? 0) || (x_st x =? 3) || busy) 704
                end) (combine (seq 0 (length ss)) ss)
                (* every interface the cloud created for the daemon is tracked by a slot *)
                (req_ok o (forallb (fun l => existsb (fun x => x_eni x =? l_eni l) ss
                                             || existsb (fun q => snd (fst q) =? 1) (o_calls o)) (o_led o)) 705)
            else o
        end in
      mkObs (o_now o1) (o_slot_eni o1) (o_led o1) (o_gone o1) (o_unreq o1) (o_rr o1) (o_held o1) (o_reqs o1) (o_calls o1)
            (o_fault o1) (o_inh o1) (S (o_snap o1)) (o_idx o1) (0, -1, []) (o_ok o1) (o_why o1)
  | _ => o
  end.

Definition obs_step (prop : Z) (c : cfg) (snaps : list (list ssnap)) (o : obs) (r : list Z) : obs :=
  let o1 := obs_step1 prop c snaps o r in
  mkObs (o_now o1) (o_slot_eni o1) (o_led o1) (o_gone o1) (o_unreq o1) (o_rr o1) (o_held o1) (o_reqs o1) (o_calls o1)
        (o_fault o1) (o_inh o1) (o_snap o1) (o_idx o1 + 1) (o_bal o1) (o_ok o1) (o_why o1).

Definition chk_pool (prop : Z) (i out : list Z) : bool :=
  match dec_case i with
  | Some (c, _, rs) =>
      let snaps := all_snaps (S (length rs)) (length (c_types c)) out in
      o_ok (fold_left (obs_step prop c snaps) rs (mkObs 0 [] [] [] [] [] [] [] [] false [] 0 0 (0, -1, []) true 0))
  | None => false
  end.

Definition chk_c01 := chk_pool 1.
Definition chk_c06 := chk_pool 6.
Definition chk_c07 := chk_pool 7.

(* diagnostic: which clause failed *)
Definition why_pool (prop : Z) (i out : list Z) : Z :=
  match dec_case i with
  | Some (c, _, rs) =>
      let snaps := all_snaps (S (length rs)) (length (c_types c)) out in
      o_why (fold_left (obs_step prop c snaps) rs (mkObs 0 [] [] [] [] [] [] [] [] false [] 0 0 (0, -1, []) true 0))
  | None => -1
  end.
