(* C20Model.v — (1) github.com/evanphx/json-patch v5.6.0 MergePatch as used by
   types/daemon/config.go:MergeConfigAndUnmarshal (merge / mergeDocs / pruneNulls, including
   the library's treatment of nulls inside arrays); (2) cmd/terway-cli/cni.go:mergeConfigList
   over abstract plugin lists.  Definitions only. *)
From Coq Require Import ZArith List Bool.
From TV Require Import Codec.
Import ListNotations.
Local Open Scope Z_scope.

(* ---- JSON -------------------------------------------------------------------- *)
Definition key := list Z.
Inductive json :=
| JNull | JBool (b : bool) | JNum (n : Z) | JStr (s : list Z)
| JArr (l : list json) | JObj (l : list (key * json)).

Definition obj := list (key * json).

Fixpoint get (k : key) (d : obj) : option json :=
  match d with [] => None | (k', v) :: r => if list_eqb k k' then Some v else get k r end.
Fixpoint del (k : key) (d : obj) : obj :=
  match d with [] => [] | (k', v) :: r => if list_eqb k k' then del k r else (k', v) :: del k r end.
(* replace in place, or append: objects are finite maps, compared up to key order (see jeqb) *)
Fixpoint set (k : key) (v : json) (d : obj) : obj :=
  match d with
  | [] => [(k, v)]
  | (k', v') :: r => if list_eqb k k' then (k, v) :: del k r else (k', v') :: set k v r
  end.

Definition is_null (j : json) : bool := match j with JNull => true | _ => false end.

(* pruneNulls: drop null members of objects, recursively, also inside arrays; null array
   elements stay *)
Fixpoint prune (j : json) : json :=
  match j with
  | JObj l => JObj ((fix go (l : obj) : obj :=
                       match l with
                       | [] => []
                       | (k, v) :: r => if is_null v then go r else (k, prune v) :: go r
                       end) l)
  | JArr l => JArr (map prune l)
  | _ => j
  end.

(* merge(cur, patch) *)
Fixpoint merge (cur patch : json) {struct patch} : json :=
  match patch with
  | JObj p =>
      match cur with
      | JObj d =>
          JObj ((fix go (p : obj) (d : obj) : obj :=
                   match p with
                   | [] => d
                   | (k, v) :: r =>
                       go r (if is_null v then del k d
                             else match get k d with
                                  | None => set k (prune v) d
                                  | Some c => if is_null c then set k (prune v) d else set k (merge c v) d
                                  end)
                   end) p d)
      | _ => prune patch          (* cur is not a document *)
      end
  | _ => match cur with
         | JObj _ => patch        (* patch is not a document: returned as it is *)
         | _ => prune patch
         end
  end.

(* doMergePatch for two documents that are both objects; None = another path of the library *)
Definition merge_patch (doc patch : json) : option json :=
  match doc, patch with
  | JObj _, JObj _ => Some (merge doc patch)
  | _, _ => None
  end.

(* order-insensitive equality of JSON values (objects as finite maps, keys unique) *)
Fixpoint jeqb (a b : json) {struct a} : bool :=
  match a, b with
  | JNull, JNull => true
  | JBool x, JBool y => Bool.eqb x y
  | JNum x, JNum y => x =? y
  | JStr x, JStr y => list_eqb x y
  | JArr x, JArr y =>
      (fix go (x y : list json) : bool :=
         match x, y with
         | [], [] => true
         | a :: x', b :: y' => jeqb a b && go x' y'
         | _, _ => false
         end) x y
  | JObj x, JObj y =>
      (length x =? length y)%nat &&
      (fix go (x : obj) : bool :=
         match x with
         | [] => true
         | (k, v) :: x' => match get k y with Some w => jeqb v w | None => false end && go x'
         end) x
  | _, _ => false
  end.

(* no array of the overlay contains an object (the configuration schema has arrays of strings only) *)
Fixpoint flat_arrays (j : json) : bool :=
  match j with
  | JArr l => forallb (fun e => match e with JObj _ | JArr _ => false | _ => true end) l
  | JObj l => (fix go (l : obj) : bool := match l with [] => true | (_, v) :: r => flat_arrays v && go r end) l
  | _ => true
  end.

(* ---- CNI chain ------------------------------------------------------------------ *)
(* virtual type as written by the user, after strings.ToLower *)
Inductive vtype := VAbsent | VVeth | VEmpty | VIpvlan | VV2 | VOther.
Inductive npp := NAbsent | NIpt | NEbpf | NOtherStr | NNotString.
Inductive ptype := PTerway | PCilium | POther | PNoType.
Record plugin := { p_type : ptype; p_vtype : vtype; p_npp : npp }.

Inductive dpath := DNone | DVeth | DIpvlan | DV2.
Inductive bwmode := BEdt | BTc.
(* what happens to input plugin number idx *)
Record outp := { o_idx : Z;                       (* -1 for the appended chainer *)
                 o_type : ptype;
                 o_vtype : option dpath;          (* eniip_virtual_type after generation: None = deleted / untouched non-terway *)
                 o_bw : option bwmode;
                 o_cilium_dp : option dpath }.    (* datapath written into a cilium entry / the appended chainer *)

Record feat := { f_ebpf : bool; f_edt : bool; f_policy : bool;
                 f_switch_v2 : bool;              (* _switchDataPathV2(): feature gate + recorded datapath / cilium_net absent *)
                 f_prev_chainer : Z }.            (* recorded has_cilium_chainer: 1 true, 0 false, -1 unknown (then: user request) *)

Record cstate := { c_out : list outp; c_require : bool; c_exist : bool; c_dp : dpath;
                   c_edt : bool; c_npp_ebpf : bool }.

Inductive cres := COk (s : cstate) | CErr.

Definition allow_policy (f : feat) : bool :=
  if f_prev_chainer f =? 1 then true else if f_prev_chainer f =? 0 then false else f_policy f.

Definition step_plugin (f : feat) (s : cstate) (idx : Z) (p : plugin) : cres :=
  let emit o s' := COk {| c_out := c_out s' ++ [o]; c_require := c_require s'; c_exist := c_exist s';
                          c_dp := c_dp s'; c_edt := c_edt s'; c_npp_ebpf := c_npp_ebpf s' |} in
  match p_type p with
  | PNoType => CErr
  | POther => emit {| o_idx := idx; o_type := POther; o_vtype := None; o_bw := None; o_cilium_dp := None |} s
  | PCilium =>
      if f_ebpf f then
        emit {| o_idx := idx; o_type := PCilium; o_vtype := None; o_bw := None; o_cilium_dp := Some (c_dp s) |}
             {| c_out := c_out s; c_require := true; c_exist := true; c_dp := c_dp s; c_edt := c_edt s; c_npp_ebpf := c_npp_ebpf s |}
      else COk s
  | PTerway =>
      match p_npp p with
      | NNotString => CErr
      | _ =>
          let npp_ebpf := match p_npp p with NAbsent => c_npp_ebpf s | NEbpf => true | _ => false end in
          if negb (f_ebpf f) then
            emit {| o_idx := idx; o_type := PTerway; o_vtype := None; o_bw := None; o_cilium_dp := None |}
                 {| c_out := c_out s; c_require := c_require s; c_exist := c_exist s; c_dp := c_dp s; c_edt := c_edt s; c_npp_ebpf := npp_ebpf |}
          else
            let dp := match p_vtype p with
                      | VAbsent | VVeth | VEmpty => if npp_ebpf && allow_policy f then DV2 else DVeth
                      | VIpvlan => if f_switch_v2 f then DV2 else DIpvlan
                      | VV2 => DV2
                      | VOther => c_dp s
                      end in
            match dp with
            | DNone => CErr
            | _ =>
                let require := match dp with DVeth => false | _ => true end in
                let edt := match dp with DVeth => false | _ => c_edt s end in
                emit {| o_idx := idx; o_type := PTerway; o_vtype := Some dp; o_bw := Some (if edt then BEdt else BTc); o_cilium_dp := None |}
                     {| c_out := c_out s; c_require := require; c_exist := c_exist s; c_dp := dp; c_edt := edt; c_npp_ebpf := npp_ebpf |}
            end
      end
  end.

Fixpoint run_plugins (f : feat) (s : cstate) (idx : Z) (ps : list plugin) : cres :=
  match ps with
  | [] => COk s
  | p :: r => match step_plugin f s idx p with COk s' => run_plugins f s' (idx + 1) r | CErr => CErr end
  end.

Definition merge_config_list (f : feat) (ps : list plugin) : option (list outp) :=
  match run_plugins f {| c_out := []; c_require := false; c_exist := false; c_dp := DNone;
                         c_edt := f_edt f; c_npp_ebpf := false |} 0 ps with
  | CErr => None
  | COk s =>
      Some (if f_ebpf f && c_require s && negb (c_exist s)
            then c_out s ++ [{| o_idx := -1; o_type := PCilium; o_vtype := None; o_bw := None; o_cilium_dp := Some (c_dp s) |}]
            else c_out s)
  end.
