(* C17Run.v — case decoder for C17.  case = ttl :: nops :: op*, each op length-prefixed:
     [0; zone; policy; ignore; nids; ids..; res; nf; fetched..; nafter; after..]   GetOne (+ what was observed)
     [1; id] Block   [2; dt] Advance   [3; id; ok; zone; free] the VPC API now answers this for id
     [4; (zone policy ignore nids ids..) x 2; annotated] two overlapping selections (A parked in its first cloud call while B runs);
        followed, once annotated, by the two GetOne records in the order in which they took effect
   output: per GetOne  res :: nf :: fetched.. ++ nafter :: after..  *)
From Coq Require Import ZArith List Bool.
From TV Require Import Codec C17Model.
Import ListNotations.
Local Open Scope Z_scope.

Inductive cop :=
| OGet (zone policy : Z) (ignore : bool) (ids : list Z) (obs : Z) (obs_f obs_after : list Z)
| OBlock (id : Z) | OAdv (dt : Z) | OApi (id : Z) (r : option entry)
| ONop.   (* [4; ..]: two overlapping selections; the two GetOne records that follow are what they did, in the order of their effect *)

Definition dec_cop (l : list Z) : option cop :=
  match l with
  | 0 :: zone :: policy :: ignore :: r =>
      match take_list r with
      | Some (ids, obs :: r1) =>
          match take_list r1 with
          | Some (f, r2) => match take_list r2 with
                            | Some (after, _) => Some (OGet zone policy (dec_bool ignore) ids obs f after)
                            | None => None end
          | None => None end
      | _ => None
      end
  | [1; id] => Some (OBlock id)
  | [2; dt] => Some (OAdv dt)
  | 4 :: _ => Some ONop
  | [3; id; ok; zone; free] => Some (OApi id (if dec_bool ok then Some {| e_zone := zone; e_free := free |} else None))
  | _ => None
  end.

Fixpoint dec_cops (n : nat) (l : list Z) : option (list cop) :=
  match n with
  | O => Some []
  | S n' => match take_list l with
            | Some (o, r) => match dec_cop o, dec_cops n' r with
                             | Some o', Some os => Some (o' :: os) | _, _ => None end
            | None => None
            end
  end.

Definition enc_res (o : option Z) : Z := match o with Some x => x | None => 0 end.

Fixpoint run_ops (s : st) (ops : list cop) : list Z :=
  match ops with
  | [] => []
  | OGet zone policy ignore ids obs f after :: r =>
      let '(s', o) := get_one s zone ids policy ignore obs f in
      enc_res (g_res o) :: enc_list (g_fetched o) ++ enc_list (g_ids_after o) ++ run_ops s' r
  | OBlock id :: r => run_ops (block s id) r
  | OAdv dt :: r => run_ops (advance s dt) r
  | OApi id e :: r => run_ops (set_api s id e) r
  | ONop :: r => run_ops s r
  end.

Definition run_c17 (i : list Z) : list Z :=
  match i with
  | ttl_ :: n :: r =>
      match dec_cops (Z.to_nat n) r with
      | Some ops => run_ops {| now := 0; ttl := ttl_; cch := []; ap := [] |} ops
      | None => bad
      end
  | _ => bad
  end.

(* the clauses of the property, judged on what the implementation returned, against the
   pool's view (cache, else API) before the call *)
Definition check_getone (s : st) (zone policy : Z) (ignore : bool) (ids : list Z) (res : Z) (after : list Z) : bool :=
  let inz := cands s (cch s) (eligible_in zone) ids in
  let fbs := cands s (cch s) (eligible_fb zone ignore) ids in
  let judge (l : list Z) :=
    mem res l
    && (if (policy =? 1) || (policy =? 2) then true else match l with x :: _ => res =? x | [] => false end)
    && (if policy =? 1 then is_max s (cch s) l res else true) in
  list_eqb after ids &&
  (if res =? 0 then match inz, fbs with [], [] => true | _, _ => false end
   else match inz with _ :: _ => judge inz | [] => judge fbs end).

Fixpoint chk_ops (s : st) (ops : list cop) (o : list Z) : bool :=
  match ops with
  | [] => match o with [] => true | _ => false end
  | OGet zone policy ignore ids obs f after :: r =>
      match o with
      | res :: o1 =>
          match take_list o1 with
          | Some (_, o2) =>
              match take_list o2 with
              | Some (aft, o3) =>
                  check_getone s zone policy ignore ids res aft
                  && chk_ops (fst (get_one s zone ids policy ignore obs f)) r o3
              | None => false end
          | None => false end
      | [] => false
      end
  | OBlock id :: r => chk_ops (block s id) r o
  | OAdv dt :: r => chk_ops (advance s dt) r o
  | OApi id e :: r => chk_ops (set_api s id e) r o
  | ONop :: r => chk_ops s r o
  end.

Definition chk_c17 (i o : list Z) : bool :=
  match i with
  | ttl_ :: n :: r =>
      match dec_cops (Z.to_nat n) r with
      | Some ops => chk_ops {| now := 0; ttl := ttl_; cch := []; ap := [] |} ops o
      | None => false
      end
  | _ => false
  end.
