(* C15Model.v — pkg/k8s/k8s.go:parseBandwidth with Go's slicing rule (s[:i] panics for
   i < 0 or i > len), as repaired by the fix: commit (no letter => the whole string is the number).
   Strings are byte lists; the model's domain is ASCII (bytes < 128): for other strings Go's
   Unicode-aware TrimSpace/ToUpper/IsLetter differ and only "does not panic" is compared.
   ParseFloat on a letter-free string accepts exactly  [+-] (digits+ [. digits*] | . digits+),
   modelled as an exact rational m / 10^j.  Definitions only. *)
From Coq Require Import ZArith List Bool.
From TV Require Import Codec.
Import ListNotations.
Local Open Scope Z_scope.

Inductive res (A : Type) : Type := Ok (a : A) | Err | Panic.
Arguments Ok {A} a. Arguments Err {A}. Arguments Panic {A}.

Definition is_space (b : Z) : bool := ((9 <=? b) && (b <=? 13)) || (b =? 32).
Definition is_lower (b : Z) : bool := (97 <=? b) && (b <=? 122).
Definition is_upper (b : Z) : bool := (65 <=? b) && (b <=? 90).
Definition is_letter (b : Z) : bool := is_lower b || is_upper b.
Definition is_digit (b : Z) : bool := (48 <=? b) && (b <=? 57).
Definition to_upper (b : Z) : Z := if is_lower b then b - 32 else b.

Fixpoint drop_space (s : list Z) : list Z :=
  match s with b :: r => if is_space b then drop_space r else s | [] => [] end.
Definition trim (s : list Z) : list Z := rev (drop_space (rev (drop_space s))).

(* strings.IndexFunc(s, unicode.IsLetter): -1 when there is none *)
Fixpoint index_letter (s : list Z) : Z :=
  match s with
  | [] => -1
  | b :: r => if is_letter b then 0 else let i := index_letter r in if i <? 0 then -1 else i + 1
  end.

(* Go slice expressions on a string: out of range panics *)
Definition slice_to (s : list Z) (i : Z) : res (list Z) :=
  if (i <? 0) || (Z.of_nat (length s) <? i) then Panic else Ok (firstn (Z.to_nat i) s).
Definition slice_from (s : list Z) (i : Z) : res (list Z) :=
  if (i <? 0) || (Z.of_nat (length s) <? i) then Panic else Ok (skipn (Z.to_nat i) s).

(* digits -> (value, count) *)
Fixpoint digits_val (acc : Z) (s : list Z) : option Z :=
  match s with
  | [] => Some acc
  | b :: r => if is_digit b then digits_val (acc * 10 + (b - 48)) r else None
  end.
Fixpoint split_dot (s : list Z) : list Z * option (list Z) :=
  match s with
  | [] => ([], None)
  | b :: r => if b =? 46 then ([], Some r) else let '(a, t) := split_dot r in (b :: a, t)
  end.

(* ParseFloat lets single underscores separate digits ("1_000"): each must stand between two digits *)
Fixpoint strip_underscores (prev_digit : bool) (s : list Z) : option (list Z) :=
  match s with
  | [] => Some []
  | b :: r =>
      if b =? 95 then
        if prev_digit && match r with d :: _ => is_digit d | [] => false end
        then strip_underscores false r else None
      else match strip_underscores (is_digit b) r with Some t => Some (b :: t) | None => None end
  end.

Definition float_overflow : Z := 2 ^ 1024 - 2 ^ 970.

(* strconv.ParseFloat restricted to letter-free input: Some (m, j) = m / 10^j, None = syntax error *)
Definition parse_decimal (s : list Z) : option (Z * nat) :=
  let '(neg, body) := match s with
                      | b :: r => if b =? 43 then (false, r) else if b =? 45 then (true, r) else (false, s)
                      | [] => (false, s)
                      end in
  match strip_underscores false body with
  | None => None
  | Some body =>
  let '(ip, fp) := split_dot body in
  let frac := match fp with Some f => f | None => [] end in
  match ip, frac with
  | [], [] => None
  | _, _ =>
      match digits_val 0 (ip ++ frac) with
      | Some m =>
          (* values that round to 2^1024 or more are a range error *)
          if float_overflow <=? m / 10 ^ Z.of_nat (length frac) then None
          else Some (if neg then - m else m, length frac)
      | None => None
      end
  end
  end.

Definition all_digits (d : list Z) : bool := forallb is_digit d.

Definition str_eq (a b : list Z) : bool := list_eqb a b.
(* "T","TB","TIB" -> 1024^4 ... "B","" -> 1 *)
Definition unit_mult (u : list Z) : option Z :=
  if str_eq u [84] || str_eq u [84;66] || str_eq u [84;73;66] then Some 1099511627776
  else if str_eq u [71] || str_eq u [71;66] || str_eq u [71;73;66] then Some 1073741824
  else if str_eq u [77] || str_eq u [77;66] || str_eq u [77;73;66] then Some 1048576
  else if str_eq u [75] || str_eq u [75;66] || str_eq u [75;73;66] then Some 1024
  else if str_eq u [66] || str_eq u [] then Some 1
  else None.

Definition bw_value (m : Z) (j : nat) (k : Z) : Z := m * k / 10 ^ Z.of_nat j.

Definition parse_bandwidth (s0 : list Z) : res Z :=
  match s0 with
  | [] => Err
  | _ =>
      let s := map to_upper (trim s0) in
      let i0 := index_letter s in
      let i := if i0 <? 0 then Z.of_nat (length s) else i0 in
      match slice_to s i, slice_from s i with
      | Ok num, Ok unit_ =>
          match parse_decimal num with
          | Some (m, j) =>
              if m <=? 0 then Err
              else match unit_mult unit_ with
                   | Some k => Ok (bw_value m j k)
                   | None => Err
                   end
          | None => Err
          end
      | _, _ => Panic
      end
  end.
