(* Props_C20.v — property C20 stated against C20Model. *)
From Coq Require Import ZArith List Bool.
From TV Require Import Codec C20Model C20Proofs.
Import ListNotations.
Local Open Scope Z_scope.

(* ---- layered configuration: JSON merge patch ---------------------------------------- *)
Theorem c20_empty_overlay : forall d, merge (JObj d) (JObj []) = JObj d.
Proof. exact merge_empty_overlay. Qed.
Print Assumptions c20_empty_overlay.

(* applying an overlay twice equals applying it once — for every base document, every overlay
   whose arrays hold scalars only (the configuration schema: arrays of strings) *)
Theorem c20_idempotent_partial : forall d p,
  wf (JObj d) -> wf (JObj p) -> flat_arrays (JObj p) = true ->
  merge (merge (JObj d) (JObj p)) (JObj p) = merge (JObj d) (JObj p).
Proof. exact merge_idempotent. Qed.
Print Assumptions c20_idempotent_partial.

(* the full statement (no hypothesis on arrays) is false of the library's algorithm: it prunes
   nulls inside an array of objects on some paths and not on others. Not observable in a merged
   Config (no field is an array of objects); recorded so that the hypothesis above is not silent. *)
Theorem c20_idempotent_refuted : exists d p, wf (JObj d) /\ wf (JObj p) /\
  merge (merge (JObj d) (JObj p)) (JObj p) <> merge (JObj d) (JObj p).
Proof. exact merge_idempotent_needs_flat. Qed.
Print Assumptions c20_idempotent_refuted.

Theorem c20_absent_keys_kept : forall d p k, ~ In k (keys p) ->
  match merge (JObj d) (JObj p) with JObj r => get k r = get k d | _ => False end.
Proof. exact merge_absent_kept. Qed.
Print Assumptions c20_absent_keys_kept.

(* what a member of the overlay does: null removes, an object merges into an object, anything
   else replaces (RFC 7396), nulls inside the replacement pruned *)
Theorem c20_overlay_member : forall d p k v, NoDup (keys p) -> In (k, v) p ->
  match merge (JObj d) (JObj p) with JObj r => get k r = upd_val (get k d) v | _ => False end.
Proof. exact merge_member. Qed.
Print Assumptions c20_overlay_member.

(* ---- generated CNI chain -------------------------------------------------------------- *)
Definition final_out (f : feat) (ps : list plugin) : option (list outp) := merge_config_list f ps.

(* input order kept: the emitted entries are exactly the input plugins in order, minus cilium
   entries on a kernel without eBPF, plus at most one chainer appended at the end *)
Theorem c20_order_kept : forall f ps out,
  merge_config_list f ps = Some out ->
  map o_idx out = kept f ps 0 \/ map o_idx out = kept f ps 0 ++ [-1].
Proof.
  intros f ps out. unfold merge_config_list.
  destruct (run_plugins _ _ _ _) as [s|] eqn:E; [|discriminate].
  pose proof (run_order f ps _ _ _ E) as H. cbn [c_out map app] in H.
  destruct (f_ebpf f && c_require s && negb (c_exist s)); intros Ho; inversion Ho; subst.
  - right. rewrite map_app, H. reflexivity.
  - left. exact H.
Qed.
Print Assumptions c20_order_kept.

(* every terway entry: with eBPF a virtual type among veth/ipvlan/datapathv2 and a bandwidth
   mode among edt/tc; without eBPF neither; a cilium entry only with eBPF *)
Theorem c20_vtype_bw_in_set : forall f ps out,
  merge_config_list f ps = Some out -> Forall (out_ok f) out.
Proof.
  intros f ps out. unfold merge_config_list.
  destruct (run_plugins _ _ _ _) as [s|] eqn:E; [|discriminate].
  pose proof (run_out_ok f ps {| c_out := []; c_require := false; c_exist := false; c_dp := DNone; c_edt := f_edt f; c_npp_ebpf := false |} 0 s (Forall_nil _) E) as H.
  destruct (f_ebpf f && c_require s && negb (c_exist s)) eqn:Eb; intros Ho; inversion Ho; subst; [|exact H].
  apply Forall_app; split; [exact H|]. constructor; [|constructor].
  unfold out_ok; cbn [o_type]. apply andb_prop in Eb as [Eb _]. apply andb_prop in Eb as [Eb _]. exact Eb.
Qed.
Print Assumptions c20_vtype_bw_in_set.

Theorem c20_chainer_when_required : forall f ps out,
  f_ebpf f = true -> merge_config_list f ps = Some out ->
  needs_chainer (last_terway_dp out None) = true -> has_cilium out = true.
Proof.
  intros f ps out Hf. unfold merge_config_list.
  destruct (run_plugins _ _ _ _) as [s|] eqn:E; [|discriminate].
  assert (Hinit : chain_inv {| c_out := []; c_require := false; c_exist := false; c_dp := DNone; c_edt := f_edt f; c_npp_ebpf := false |})
    by (split; cbn; discriminate).
  destruct (run_chain_inv f ps _ _ _ Hf Hinit E) as [H1 H2].
  rewrite Hf. cbn [andb].
  destruct (c_require s) eqn:Er; destruct (c_exist s) eqn:Ee; cbn [andb negb]; intros Ho; inversion Ho; subst; intros Hn.
  - exact (H1 eq_refl).
  - rewrite has_cilium_app. cbn [o_type]. apply orb_true_r.
  - exact (H1 eq_refl).
  - specialize (H2 Hn). discriminate.
Qed.
Print Assumptions c20_chainer_when_required.

Theorem c20_no_chainer_without_ebpf : forall f ps out,
  f_ebpf f = false -> merge_config_list f ps = Some out -> has_cilium out = false.
Proof.
  intros f ps out Hf. unfold merge_config_list.
  destruct (run_plugins _ _ _ _) as [s|] eqn:E; [|discriminate].
  pose proof (run_no_cilium_without_ebpf f ps {| c_out := []; c_require := false; c_exist := false; c_dp := DNone; c_edt := f_edt f; c_npp_ebpf := false |} 0 s Hf eq_refl E) as H.
  rewrite Hf. cbn [andb]. intros Ho; inversion Ho; subst. exact H.
Qed.
Print Assumptions c20_no_chainer_without_ebpf.

Example c20_ex_merge :
  merge (JObj [([97], JNum 1); ([98], JObj [([99], JNum 2); ([100], JNum 3)])])
        (JObj [([98], JObj [([99], JNull); ([101], JNum 4)]); ([102], JStr [120])])
  = JObj [([97], JNum 1); ([98], JObj [([100], JNum 3); ([101], JNum 4)]); ([102], JStr [120])].
Proof. vm_compute. reflexivity. Qed.
Example c20_ex_chain :
  let f := {| f_ebpf := true; f_edt := true; f_policy := false; f_switch_v2 := false; f_prev_chainer := -1 |} in
  option_map (map o_idx) (merge_config_list f [{| p_type := PTerway; p_vtype := VIpvlan; p_npp := NAbsent |};
                                               {| p_type := POther; p_vtype := VAbsent; p_npp := NAbsent |}])
  = Some [0; 1; -1].
Proof. vm_compute. reflexivity. Qed.
