(* Sha1.v — executable SHA-1 over byte lists (bytes are Z in [0,256)), so that the
   model computes the real host-side interface names.  Definitions only + a test vector. *)
From Coq Require Import ZArith List Lia.
Import ListNotations.
Local Open Scope Z_scope.

Definition w32 (x : Z) : Z := x mod 4294967296.
Definition rotl (x n : Z) : Z := w32 (Z.lor (Z.shiftl x n) (Z.shiftr x (32 - n))).
Definition add32 (a b : Z) : Z := w32 (a + b).
Definition not32 (a : Z) : Z := 4294967295 - a.

Definition be32 (b : list Z) : Z :=
  match b with
  | [a; b; c; d] => ((a * 256 + b) * 256 + c) * 256 + d
  | _ => 0
  end.

Fixpoint words (n : nat) (l : list Z) : list Z :=
  match n with
  | O => []
  | S n' => be32 (firstn 4 l) :: words n' (skipn 4 l)
  end.

Fixpoint blocks (n : nat) (l : list Z) : list (list Z) :=
  match n with
  | O => []
  | S n' => words 16 (firstn 64 l) :: blocks n' (skipn 64 l)
  end.

Definition be_bytes (k : nat) (v : Z) : list Z :=
  map (fun i => (Z.shiftr v (8 * Z.of_nat i)) mod 256) (rev (seq 0 k)).

Definition pad (msg : list Z) : list Z :=
  let len := Z.of_nat (length msg) in
  let k := (119 - len mod 64) mod 64 in
  msg ++ [128] ++ repeat 0 (Z.to_nat k) ++ be_bytes 8 (8 * len).

(* message schedule, most recent word first *)
Fixpoint expand (n : nat) (wrev : list Z) : list Z :=
  match n with
  | O => wrev
  | S n' =>
      let x := Z.lxor (Z.lxor (nth 2 wrev 0) (nth 7 wrev 0))
                      (Z.lxor (nth 13 wrev 0) (nth 15 wrev 0)) in
      expand n' (rotl x 1 :: wrev)
  end.

Definition st := (Z * Z * Z * Z * Z)%type.

Definition round (i : nat) (s : st) (w : Z) : st :=
  let '(a, b, c, d, e) := s in
  let '(f, k) :=
    if Nat.ltb i 20 then (Z.lor (Z.land b c) (Z.land (not32 b) d), 1518500249)
    else if Nat.ltb i 40 then (Z.lxor (Z.lxor b c) d, 1859775393)
    else if Nat.ltb i 60 then (Z.lor (Z.lor (Z.land b c) (Z.land b d)) (Z.land c d), 2400959708)
    else (Z.lxor (Z.lxor b c) d, 3395469782) in
  let t := add32 (add32 (add32 (add32 (rotl a 5) f) e) k) w in
  (t, a, rotl b 30, c, d).

Fixpoint rounds (i : nat) (ws : list Z) (s : st) : st :=
  match ws with
  | [] => s
  | w :: ws' => rounds (S i) ws' (round i s w)
  end.

Definition block_step (h : st) (blk : list Z) : st :=
  let ws := rev (expand 64 (rev blk)) in
  let '(a, b, c, d, e) := rounds 0 ws h in
  let '(h0, h1, h2, h3, h4) := h in
  (add32 h0 a, add32 h1 b, add32 h2 c, add32 h3 d, add32 h4 e).

Definition sha1_init : st := (1732584193, 4023233417, 2562383102, 271733878, 3285377520).

Definition sha1 (msg : list Z) : list Z :=
  let p := pad msg in
  let nb := Nat.div (length p) 64 in
  let '(h0, h1, h2, h3, h4) := fold_left block_step (blocks nb p) sha1_init in
  be_bytes 4 h0 ++ be_bytes 4 h1 ++ be_bytes 4 h2 ++ be_bytes 4 h3 ++ be_bytes 4 h4.

Definition hex_digit (d : Z) : Z := if d <? 10 then 48 + d else 87 + d.
Definition hex (bs : list Z) : list Z :=
  flat_map (fun b => [hex_digit (b / 16); hex_digit (b mod 16)]) bs.

Lemma be_bytes_length k v : length (be_bytes k v) = k.
Proof. unfold be_bytes. rewrite map_length, rev_length, seq_length. reflexivity. Qed.

Lemma sha1_length msg : length (sha1 msg) = 20%nat.
Proof.
  unfold sha1. destruct (fold_left block_step _ _) as [[[[h0 h1] h2] h3] h4].
  rewrite !app_length, !be_bytes_length. reflexivity.
Qed.

Lemma hex_length bs : length (hex bs) = (2 * length bs)%nat.
Proof. induction bs as [|b bs IH]; cbn [hex flat_map length app]; [reflexivity|].
  unfold hex in IH. rewrite IH. lia. Qed.

(* "abc" -> a9993e364706816aba3e25717850c26c9cd0d89d *)
Example sha1_abc :
  hex (sha1 [97; 98; 99]) =
  [97;57;57;57;51;101;51;54;52;55;48;54;56;49;54;97;98;97;51;101;50;53;55;49;55;56;53;48;99;50;54;99;57;99;100;48;100;56;57;100].
Proof. vm_compute. reflexivity. Qed.
