(* C12Run.v — case decoder for C12 (formats in harness/c12 and harness/inplace/plugin_c12_test.go) *)
From Coq Require Import NArith ZArith List Bool.
From TV Require Import Bits Codec C14Model C12Model.
Import ListNotations.
Local Open Scope Z_scope.

Fixpoint dec_ncs (n : nat) (l : list Z) : list nc :=
  match n, l with
  | S n', i :: d :: r => {| n_if := i; n_dr := dec_bool d |} :: dec_ncs n' r
  | _, _ => []
  end.

Fixpoint dec_allocs (n : nat) (l : list Z) : list alloc :=
  match n, l with
  | S n', h4 :: i4 :: n4 :: p4 :: h6 :: i6 :: n6 :: p6 :: ifc :: dr :: vk :: vid :: r =>
      {| a_v4 := {| f_has := dec_bool h4; f_ip := Z.to_N i4; f_net := Z.to_N n4; f_plen := p4 |};
         a_v6 := {| f_has := dec_bool h6; f_ip := Z.to_N i6; f_net := Z.to_N n6; f_plen := p6 |};
         a_if := ifc; a_dr := dec_bool dr; a_vid_known := dec_bool vk; a_vid := vid |} :: dec_allocs n' r
  | _, _ => []
  end.

Definition enc_conf (c : conf) : list Z :=
  [enc_bool (c_has4 c); Z.of_N (c_ip4 c); Z.of_N (c_gw4 c); enc_bool (c_has6 c); Z.of_N (c_ip6 c); Z.of_N (c_gw6 c);
   c_if c; enc_bool (c_dr c); enc_bool (c_trunk c); c_vid c].

Fixpoint enc_routes (gw4h gw4 gw6h gw6 : Z) (n : nat) (l : list Z) : list Z :=
  match n, l with
  | S n', fam :: net :: plen :: r =>
      (if fam =? 4 then [4; Z.of_N (N.land (Z.to_N net) (mask 32 (Z.to_N plen))); plen; gw4h; gw4]
       else [6; Z.of_N (N.land (Z.to_N net) (mask 128 (Z.to_N plen))); plen; gw6h; gw6]) ++ enc_routes gw4h gw4 gw6h gw6 n' r
  | _, _ => []
  end.

Fixpoint dec_cips (n : nat) (l : list Z) : list cip * list Z :=
  match n, l with
  | S n', a :: st :: pm :: um :: r =>
      let '(is, r') := dec_cips n' r in ({| ci_addr := Z.to_N a; ci_valid := st =? 1; ci_pod := dec_bool pm; ci_uid := um |} :: is, r')
  | _, _ => ([], l)
  end.
Fixpoint dec_cifs (n : nat) (l : list Z) : list cif :=
  match n, l with
  | S n', st :: mode :: n4 :: p4 :: n6 :: p6 :: k4 :: r =>
      let '(v4, r1) := dec_cips (Z.to_nat k4) r in
      match r1 with
      | k6 :: r2 =>
          let '(v6, r3) := dec_cips (Z.to_nat k6) r2 in
          {| ce_inuse := st =? 1; ce_hp := mode =? 1; ce_net4 := Z.to_N n4; ce_plen4 := p4; ce_net6 := Z.to_N n6; ce_plen6 := p6;
             ce_v4 := v4; ce_v6 := v6 |} :: dec_cifs n' r3
      | [] => []
      end
  | _, _ => []
  end.

Definition run_c12 (i : list Z) : list Z :=
  match i with
  | 1 :: n :: r =>
      match default_for_netconf (dec_ncs (Z.to_nat n) r) with
      | Some l' => 1 :: Z.of_nat (length l') :: map (fun c => enc_bool (n_dr c)) l'
      | None => [0]
      end
  | 2 :: trunk :: n :: r =>
      match remote_to_rpc (dec_bool trunk) (dec_allocs (Z.to_nat n) r) with
      | Some cs => 1 :: Z.of_nat (length cs) :: flat_map enc_conf cs
      | None => [0]
      end
  | [3; t; v; tr] => match get_datapath t (dec_bool v) (dec_bool tr) with Some d => [d] | None => [-998] end
  | 4 :: t :: h4 :: i4 :: n4 :: p4 :: g4 :: h6 :: i6 :: n6 :: p6 :: g6 ::
      heni :: trunk :: vid :: erdma :: egh :: eg4 :: hpod :: ing :: egr :: ifc :: dr :: aifc ::
      rte :: rti :: vs :: dpeer :: nr :: routes =>
      let tr := dec_bool heni && dec_bool trunk in
      match get_datapath t (dec_bool vs) tr with
      | None => [-998]
      | Some dp =>
          [1; dp; if ifc =? 0 then aifc else ifc;
           (* an address is recovered for a family only when the daemon sent address AND subnet (flag 1) *)
           enc_bool (h4 =? 1); if h4 =? 1 then i4 else 0; if h4 =? 1 then p4 else 0; if h4 =? 1 then g4 else 0;
           enc_bool (h6 =? 1); if h6 =? 1 then i6 else 0; if h6 =? 1 then p6 else 0; if h6 =? 1 then g6 else 0;
           if dec_bool heni then egh else 0; if dec_bool heni && dec_bool egh then eg4 else 0;
           limit (dec_bool hpod) ing rti; limit (dec_bool hpod) egr rte;
           enc_bool tr; if dec_bool heni then vid else 0; dr; if dec_bool heni then erdma else 0; dpeer; nr]
          ++ enc_routes (enc_bool (dec_bool h4)) (if dec_bool h4 then g4 else 0) (enc_bool (dec_bool h6)) (if dec_bool h6 then g6 else 0) (Z.to_nat nr) routes
      end
  | [5; h4; i4; n4; p4; g4; h6; i6; n6; p6; g6; s4; s6; erdma] =>
      1 :: local_to_rpc (dec_bool h4) (Z.to_N i4) (Z.to_N n4) p4 (Z.to_N g4) (dec_bool h6) (Z.to_N i6) (Z.to_N n6) p6 (Z.to_N g6)
                        (dec_bool s4) (dec_bool s6) (dec_bool erdma)
  | 6 :: en :: ne :: r =>
      match crd_multi_ip (dec_bool en) (dec_cifs (Z.to_nat ne) r) with
      | Some o => 1 :: o
      | None => [0]
      end
  | _ => bad
  end.

(* ---- property clauses on implementation output ---------------------------------------- *)
Definition in_subnet (w ip net : N) (plen : Z) : bool :=
  (N.land ip (mask w (Z.to_N plen)) =? N.land net (mask w (Z.to_N plen)))%N.

Definition chk_c12 (i o : list Z) : bool :=
  match i with
  | 1 :: n :: r =>
      let l := dec_ncs (Z.to_nat n) r in
      match o with
      | 1 :: m :: drs =>
          match l with
          | [] => match drs with [] => true | _ => false end
          | _ =>
              (* exactly one default-route interface; the primary interface is there; nothing dropped *)
              (Z.of_nat (length (filter dec_bool drs)) =? 1) && (m =? n) && (Z.of_nat (length drs) =? n)
              && existsb (fun c => is_primary (n_if c)) l
              && ((count_default l =? 0)%nat || list_eqb drs (map (fun c => enc_bool (n_dr c)) l))
          end
      | [0] => (2 <=? count_default l)%nat || negb (existsb (fun c => is_primary (n_if c)) l)
      | _ => false
      end
  | 2 :: trunk :: n :: r =>
      let l := dec_allocs (Z.to_nat n) r in
      match o with
      | 1 :: m :: cs =>
          (m =? Z.of_nat (length l)) &&
          (fix go (l : list alloc) (cs : list Z) : bool :=
             match l, cs with
             | [], [] => true
             | a :: l', h4 :: i4 :: g4 :: h6 :: i6 :: g6 :: ifc :: dr :: tk :: vid :: cs' =>
                 (* addresses and gateway inside the reported subnet; gateway = the subnet's reserved one, not the pod *)
                 (if f_has (a_v4 a) then
                    dec_bool h4 && (i4 =? Z.of_N (f_ip (a_v4 a))) &&
                    in_subnet 32 (Z.to_N g4) (f_net (a_v4 a)) (f_plen (a_v4 a)) &&
                    (Z.to_N g4 + 2 =? last_addr 32 (f_net (a_v4 a)) (Z.to_N (f_plen (a_v4 a))))%N &&
                    ((f_ip (a_v4 a) + 2 =? last_addr 32 (f_net (a_v4 a)) (Z.to_N (f_plen (a_v4 a))))%N || negb (g4 =? i4))
                  else negb (dec_bool h4)) &&
                 (if f_has (a_v6 a) then
                    dec_bool h6 && (i6 =? Z.of_N (f_ip (a_v6 a))) &&
                    in_subnet 128 (Z.to_N g6) (f_net (a_v6 a)) (f_plen (a_v6 a)) &&
                    (Z.to_N g6 + 2 =? last_addr 128 (f_net (a_v6 a)) (Z.to_N (f_plen (a_v6 a))))%N
                  else negb (dec_bool h6)) &&
                 (ifc =? a_if a) && (dr =? enc_bool (a_dr a)) && go l' cs'
             | _, _ => false
             end) l cs
      | _ => true
      end
  | [3; t; v; tr] =>
      (* total on the three IP types; one datapath, a function of (type, vlan mode, trunk) only — judged by the model comparison *)
      if (0 <=? t) && (t <=? 2) then match o with [d] => (0 <=? d) && (d <=? 4) | _ => false end else true
  | 4 :: t :: h4 :: i4 :: n4 :: p4 :: g4 :: h6 :: i6 :: n6 :: p6 :: g6 ::
      heni :: trunk :: vid :: erdma :: egh :: eg4 :: hpod :: ing :: egr :: ifc :: dr :: aifc ::
      rte :: rti :: vs :: dpeer :: nr :: routes =>
      match o with
      | 1 :: dp :: name :: oh4 :: oi4 :: op4 :: og4 :: oh6 :: oi6 :: op6 :: og6 :: _ :: _ :: oing :: oegr :: _ =>
          (* the plugin recovers exactly the addresses (with the subnet's mask), gateways and limits *)
          (oh4 =? enc_bool (h4 =? 1)) && (if h4 =? 1 then (oi4 =? i4) && (op4 =? p4) && (og4 =? g4) else true) &&
          (oh6 =? enc_bool (h6 =? 1)) && (if h6 =? 1 then (oi6 =? i6) && (op6 =? p6) && (og6 =? g6) else true) &&
          (oing =? (if 0 <? rti then rti / 8 else if dec_bool hpod then ing else 0)) &&
          (oegr =? (if 0 <? rte then rte / 8 else if dec_bool hpod then egr else 0))
      | _ => true
      end
  | [5; h4; i4; n4; p4; g4; h6; i6; n6; p6; g6; s4; s6; erdma] =>
      (* one configuration, the default-route one on the primary interface; the pod's addresses as sent; judged further by the model comparison *)
      match o with
      | 1 :: oh4 :: oi4 :: _ :: _ :: _ :: _ :: _ :: oh6 :: oi6 :: _ :: _ :: _ :: _ :: _ :: _ :: _ :: ifc :: dr :: _ =>
          (oh4 =? enc_bool (dec_bool h4)) && (if dec_bool h4 then oi4 =? i4 else true) &&
          (oh6 =? enc_bool (dec_bool h6)) && (if dec_bool h6 then oi6 =? i6 else true) && is_primary ifc && (dr =? 1)
      | _ => false
      end
  | 6 :: en :: ne :: r =>
      let es := dec_cifs (Z.to_nat ne) r in
      match o with
      | 1 :: idx :: oh4 :: oi4 :: on4 :: ob4 :: op4 :: og4h :: og4 :: oh6 :: oi6 :: on6 :: ob6 :: op6 :: og6h :: og6 :: _ :: _ :: ifc :: dr :: _ =>
          match nth_error es (Z.to_nat (idx - 1)) with
          | None => false
          | Some e =>
              (* the address is one the record binds to this pod (valid, the pod's name, not another uid) on an attached interface;
                 subnet and gateway are that interface's: gateway = third-from-last address, inside the subnet, not the pod's address *)
              let famok (w : N) (oh oi on ob op ogh og : Z) (l : list cip) (net : N) (plen : Z) :=
                if oh =? 1 then
                  existsb (fun i => ip_match i && (Z.of_N (ci_addr i) =? oi)) l && (on =? 1) && (op =? plen)
                  && (ob =? Z.of_N (net_base w net (Z.to_N plen)))
                  && (if ogh =? 1 then in_subnet w (Z.to_N og) net plen && (Z.to_N og + 2 =? last_addr w net (Z.to_N plen))%N
                                        && ((Z.to_N oi + 2 =? last_addr w net (Z.to_N plen))%N || negb (og =? oi))
                      else true)
                else true in
              ce_inuse e && ((oh4 =? 1) || (oh6 =? 1)) &&
              famok 32%N oh4 oi4 on4 ob4 op4 og4h og4 (ce_v4 e) (ce_net4 e) (ce_plen4 e) &&
              famok 128%N oh6 oi6 on6 ob6 op6 og6h og6 (ce_v6 e) (ce_net6 e) (ce_plen6 e) &&
              is_primary ifc && (dr =? 1)
          end
      | _ => true
      end
  | _ => false
  end.
