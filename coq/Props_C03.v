(* Props_C03.v — property C03 (an address is reclaimed only after the pod is gone and its teardown confirmed). *)
From Coq Require Import ZArith List Bool.
From TV Require Import IpamModel IpamRun IpamProofs IpamTrim.
From TV Require RtModel RtRun RtProofs.
Import ListNotations.
Local Open Scope Z_scope.

(* the release pass changes the owner of an entry only to "nobody", only when the runtime object could be read,
   the pod is not among the node's pods, and either no uid was recorded or the final runtime report of that uid
   is `deleted` (2) *)
Theorem c03_release_gate : forall pods rt_ok rt i,
  i_pod (release_entry pods rt_ok rt i) <> i_pod i ->
  i_pod (release_entry pods rt_ok rt i) = 0 /\ rt_ok = true /\
  find (fun p => p_id p =? i_pod i) pods = None /\ (i_uid i = 0 \/ rt (i_uid i) = 2).
Proof. exact release_entry_gate. Qed.
Print Assumptions c03_release_gate.

(* and it touches nothing else of the entry: address, status (never marked for deletion), primary flag *)
Theorem c03_release_touches_owner_only : forall pods rt_ok rt i,
  i_a (release_entry pods rt_ok rt i) = i_a i /\ i_st (release_entry pods rt_ok rt i) = i_st i /\
  i_prim (release_entry pods rt_ok rt i) = i_prim i.
Proof. exact release_entry_keeps. Qed.
Print Assumptions c03_release_touches_owner_only.

(* once the pod is gone and its teardown is reported the address does become free *)
Theorem c03_freed_when_confirmed : forall pods rt_ok rt i,
  i_pod i <> 0 -> rt_ok = true -> find (fun p => p_id p =? i_pod i) pods = None -> (i_uid i = 0 \/ rt (i_uid i) = 2) ->
  i_pod (release_entry pods rt_ok rt i) = 0.
Proof. exact release_entry_live. Qed.
Print Assumptions c03_freed_when_confirmed.

(* the binding pass never touches an entry that has an owner *)
Theorem c03_binding_keeps_owned : forall rdma_on c c', bstep rdma_on c c' ->
  forall six x, In x (ents c six) -> own x <> 0 ->
  (forall y, In y (ents c six) -> addr y = addr x -> y = x) -> In x (ents c' six).
Proof. exact bstep_only_unowned. Qed.
Print Assumptions c03_binding_keeps_owned.

(* pool trimming marks only unowned, non-primary, valid addresses and gives an interface up whole only when
   nothing on it is owned *)
Theorem c03_trim_skips_owned : forall e todel,
  let e' := snd (trim e todel) in
  Forall2 marked (e_4 e) (e_4 e') /\ Forall2 marked (e_6 e) (e_6 e') /\
  (e_status e' <> e_status e -> in_use_n (e_4 e) = 0 /\ in_use_n (e_6 e) = 0).
Proof. exact trim_keeps_owners. Qed.
Print Assumptions c03_trim_skips_owned.

(* non-vacuity: a gone pod whose teardown is reported is released; one without a report is not; a live one never *)
Example c03_ex :
  let rt := fun u => if u =? 70 then 2 else if u =? 80 then 1 else 0 in
  map (fun i => i_pod (release_entry [mkPod 9 90 true false false 0 0] true rt i))
      [mkIp 1 1 false 7 70; mkIp 2 1 false 8 80; mkIp 3 1 false 9 91; mkIp 4 1 false 6 60; mkIp 5 1 false 5 0] = [0; 8; 9; 6; 0].
Proof. vm_compute. reflexivity. Qed.

(* ---- the node agent's side (third sentence): its teardown reports (pkg/eni/crdv2.go; model RtModel, tied by harness/rtflush) *)
(* over every history of processed DELs, answered ADDs, flushes and clean-ups (each with failing or succeeding API calls),
   changes of the cluster IPAM and removals of the NodeRuntime object: a uid is reported `deleted` only if a DEL for it was processed *)
Theorem c03_reported_only_after_del : forall os e,
  In e (RtModel.table (RtModel.run RtModel.init os)) -> RtModel.e_del e = true -> In (RtModel.e_uid e) (RtProofs.released os).
Proof. exact RtProofs.reported_only_after_del. Qed.
Print Assumptions c03_reported_only_after_del.
(* a processed DEL is not forgotten: the uid stays recorded until an ADD for it is answered or a flush has saved its report *)
Theorem c03_recorded_until_reported : forall s o u,
  In u (RtModel.pend s) -> In u (RtModel.pend (RtModel.step s o)) \/ o = RtModel.OAnswer u \/
  (exists g sv, o = RtModel.OFlush g sv /\ exists e, In e (RtModel.table (RtModel.step s o)) /\ RtModel.e_uid e = u /\ RtModel.e_del e = true).
Proof. exact RtProofs.recorded_until_reported. Qed.
Print Assumptions c03_recorded_until_reported.
(* the periodic clean-up keeps the report for as long as the cluster IPAM names the uid *)
Theorem c03_report_kept_while_bound : forall s g sv e,
  In e (RtModel.table s) -> RtModel.e_del e = true -> In (RtModel.e_uid e) (RtModel.ipam s) -> In e (RtModel.table (RtModel.step s (RtModel.OSync g sv))).
Proof. exact RtProofs.sync_keeps_report_while_bound. Qed.
Print Assumptions c03_report_kept_while_bound.
Example c03_report_ex :
  RtRun.proj (RtModel.run RtModel.init [RtModel.OBind 2; RtModel.ORelease 2; RtModel.OFlush true false; RtModel.OFlush true true; RtModel.OSync true true; RtModel.OForget 2; RtModel.OSync true true])
  = [0; 1; 0].
Proof. vm_compute. reflexivity. Qed.
