(* Extract.v — extraction of the executable models for the correspondence driver.
   Directives: ExtrOcamlBasic only (bool, option, list, prod, unit, sumbool -> OCaml);
   N / Z / positive / nat stay the extracted inductive datatypes. *)
From Coq Require Extraction ExtrOcamlBasic.
From TV Require C14Run C19Run C16Run C17Run C15Run C20Run C12Run C18Run PoolRun PoolChk SvcRun IpamRun PeRun DpRun C03Run C07Run C09Run.
Extraction Language OCaml.
Extraction "model.ml" C14Run.run_c14 C14Run.chk_c14
  C19Run.run_c19 C19Run.chk_c19
  C16Run.run_c16 C16Run.chk_c16
  C17Run.run_c17 C17Run.chk_c17
  C15Run.run_c15 C15Run.chk_c15
  C20Run.run_c20 C20Run.chk_c20
  C12Run.run_c12 C12Run.chk_c12
  C18Run.run_c18 C18Run.chk_c18
  PoolRun.run_pool PoolChk.chk_c01 PoolChk.chk_c06 PoolChk.chk_c07 PoolChk.why_pool
  SvcRun.run_svc SvcRun.chk_c04 SvcRun.chk_c05 SvcRun.chk_c09 SvcRun.why_svc
  IpamRun.run_ipam IpamRun.chk_c02 IpamRun.chk_c03 IpamRun.chk_c08 IpamRun.why_ipam
  PeRun.run_pe PeRun.chk_c10 PeRun.chk_c11 PeRun.why_pe
  DpRun.run_dp DpRun.chk_c13 DpRun.why_dp
  C03Run.run_c03 C03Run.chk_c03_all C03Run.why_c03
  C07Run.run_c07 C07Run.chk_c07_all C07Run.why_c07
  C09Run.run_c09 C09Run.chk_c09_all C09Run.why_c09.
