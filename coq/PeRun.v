(* PeRun.v — decoders for the PodENI harness (harness/podeni), the model followed along the observed steps, and
   the clauses of C10 / C11 judged on what the implementation did.  Definitions only. *)
From Coq Require Import ZArith List Bool.
From TV Require Import Codec PeModel.
Import ListNotations.
Local Open Scope Z_scope.

Definition lenz {A} (l : list A) : Z := Z.of_nat (length l).

(* a cloud interface as the harness reports it *)
Record cif := mkCif { ci_id : Z; ci_inuse : bool; ci_member : bool; ci_tags : Z; ci_age : Z }.
(* one step: 4 pod controller, 5 PodENI controller, 6 record collector, 7 interface collector, 12 a parked attach returned *)
Record blk := mkBlk { b_step : Z; b_name : Z; b_err : bool; b_now : Z; b_pods : list podv; b_recs : list prec; b_calls : list (list Z); b_pre : list cif; b_cloud : list cif }.

Fixpoint dec_pods (n : nat) (l : list Z) : list podv * list Z :=
  match n, l with
  | S n', a :: u :: nd :: ex :: k :: r => let '(ps, r') := dec_pods n' r in (mkPv a u nd (dec_bool ex) k :: ps, r')
  | _, _ => ([], l)
  end.
Fixpoint dec_allocs (n : nat) (l : list Z) : list alloc * list Z :=
  match n, l with
  | S n', e :: ip :: fx :: st :: ttl :: r => let '(al, r') := dec_allocs n' r in (mkAl e ip (dec_bool fx) st ttl :: al, r')
  | _, _ => ([], l)
  end.
Fixpoint dec_recs (n : nat) (l : list Z) : list prec * list Z :=
  match n, l with
  | S n', nm :: ph :: uid :: nd :: dl :: fin :: na :: r =>
      let '(al, r1) := dec_allocs (Z.to_nat na) r in
      match r1 with
      | seen :: r2 => let '(rs, r3) := dec_recs n' r2 in (mkRec nm ph uid nd (dec_bool dl) (dec_bool fin) al seen :: rs, r3)
      | [] => ([], l) end
  | _, _ => ([], l)
  end.
Fixpoint dec_lists (n : nat) (l : list Z) : list (list Z) * list Z :=
  match n with
  | S n' => match take_list l with Some (x, r) => let '(xs, r') := dec_lists n' r in (x :: xs, r') | None => ([], l) end
  | O => ([], l)
  end.
Fixpoint dec_cifs (n : nat) (l : list Z) : list cif * list Z :=
  match n, l with
  | S n', id :: iu :: mb :: tg :: age :: r => let '(cs, r') := dec_cifs n' r in (mkCif id (dec_bool iu) (dec_bool mb) tg age :: cs, r')
  | _, _ => ([], l)
  end.
Definition dec_blk (l : list Z) : option (blk * list Z) :=
  match l with
  | m :: st :: nm :: er :: tnow :: np :: r =>
      if negb (m =? 88) then None else
      let '(pods, r1) := dec_pods (Z.to_nat np) r in
      match r1 with
      | nr :: r2 =>
          let '(recs, r3) := dec_recs (Z.to_nat nr) r2 in
          match r3 with
          | nc :: r4 =>
              let '(calls, r5) := dec_lists (Z.to_nat nc) r4 in
              match r5 with
              | npre :: r6 =>
                  let '(pre, r7) := dec_cifs (Z.to_nat npre) r6 in
                  match r7 with
                  | ncl :: r8 => let '(cl, r9) := dec_cifs (Z.to_nat ncl) r8 in Some (mkBlk st nm (dec_bool er) tnow pods recs calls pre cl, r9)
                  | [] => None end
              | [] => None end
          | [] => None end
      | [] => None end
  | _ => None
  end.
Fixpoint dec_blks (fuel : nat) (l : list Z) : list blk :=
  match fuel with
  | S f => match dec_blk l with Some (b, r) => b :: dec_blks f r | None => [] end
  | O => []
  end.
(* the script is skipped: 10 trunk dual nrec (len rec..)* then -555 n out.. *)
Definition observed_of (l : list Z) : option (list Z) :=
  match l with
  | _ :: _ :: _ :: n :: r =>
      let '(_, r1) := dec_lists (Z.to_nat n) r in
      match r1 with
      | m :: r2 => if m =? -555 then match take_list r2 with Some (o, _) => Some o | None => None end else None
      | [] => None end
  | _ => None
  end.

Definition find_pod (ps : list podv) (n : Z) : option podv := List.find (fun p => q_name p =? n) ps.
Definition find_rec (rs : list prec) (n : Z) : option prec := List.find (fun r => r_name r =? n) rs.
(* a pod's kind carries "+10" when it is owned by a ReplicaSet (not a fixed-name pod) *)
Definition base_kind (p : podv) : podv := mkPv (q_name p) (q_uid p) (q_node p) (q_exited p) (q_kind p mod 10).
(* ... and "+100" while it is terminating (deletion timestamp set, still running) *)
Definition fixed_name (p : podv) : bool := q_kind p mod 100 <? 10.
Definition terminating (b : blk) (n : Z) : bool := match find_pod (b_pods b) n with Some p => 100 <=? q_kind p | None => false end.
Definition pod_of (b : blk) (n : Z) : option podv := match find_pod (b_pods b) n with Some p => Some (base_kind p) | None => None end.
Definition calls_clean (cs : list (list Z)) : bool := forallb (fun c => match c with _ :: _ :: ok :: _ => ok =? 1 | _ => true end) cs.
Definition allocs_eqb (a b : list alloc) : bool :=
  list_eqb (flat_map (fun x => [a_eni x; a_ip x; enc_bool (a_fixed x); a_strat x; a_ttl x]) a)
           (flat_map (fun x => [a_eni x; a_ip x; enc_bool (a_fixed x); a_strat x; a_ttl x]) b).
Definition same_but_phase (a b : prec) : bool :=
  (r_uid a =? r_uid b) && (r_node a =? r_node b) && Bool.eqb (r_del a) (r_del b) && allocs_eqb (r_allocs a) (r_allocs b).

(* ---- the model followed along a step: 0 = the implementation did what the model's decision says ------------- *)
Definition others_same (prev cur : list prec) (n : Z) : bool :=
  forallb (fun r => (r_name r =? n) || match find_rec cur (r_name r) with
                                       | Some c => (r_phase c =? r_phase r) && same_but_phase r c | None => false end) prev
  && forallb (fun c => (r_name c =? n) || match find_rec prev (r_name c) with Some _ => true | None => false end) cur.

Definition step_model (prev : list prec) (b : blk) : Z :=
  if b_err b || negb (calls_clean (b_calls b)) then 0 else
  let n := b_name b in
  if b_step b =? 4 then
    if negb (others_same prev (b_recs b) n) then 41 else
    (* a terminating pod whose sandbox has not exited is left alone by the pod controller until it is gone *)
    let waits := terminating b n && match pod_of b n with Some p => negb (q_exited p) | None => false end in
    match (if waits then (match find_rec prev n with Some _ => PRequeue | None => PNone end) else pod_ctl (pod_of b n) (find_rec prev n)),
          find_rec prev n, find_rec (b_recs b) n with
    | PNone, None, None => 0
    | PNone, Some r, Some c | PRequeue, Some r, Some c => if (r_phase c =? r_phase r) && same_but_phase r c then 0 else 42
    | PCreate, None, Some c =>
        match pod_of b n with
        | Some p => if (r_phase c =? 0) && (r_uid c =? q_uid p) && (r_node c =? q_node p) && negb (lenz (r_allocs c) =? 0) && r_fin c then 0 else 43
        | None => 43 end
    | PSetPhase ph, Some r, Some c => if (r_phase c =? ph) && same_but_phase r c then 0 else 44
    | PDelete, Some r, Some c => if r_del c then 0 else 45
    | PDelete, Some r, None => if r_fin r then 45 else 0
    | PSetUid, Some r, Some c => match pod_of b n with Some p => if (r_uid c =? q_uid p) && (r_phase c =? r_phase r) then 0 else 46 | None => 46 end
    | PSetNode, Some r, Some c => match pod_of b n with Some p => if (r_node c =? q_node p) && (r_phase c =? r_phase r) then 0 else 47 | None => 47 end
    | _, _, _ => 48
    end
  else if (b_step b =? 5) || (b_step b =? 12) then
    if negb (others_same prev (b_recs b) n) then 51 else
    if b_step b =? 12 then 0 else       (* a parked attach raced with other steps: judged by the clauses only *)
    match find_rec prev n with
    | None => (match find_rec (b_recs b) n with None => 0 | Some _ => 52 end)
    | Some r =>
        let fx := match find_pod (b_pods b) n with Some p => fixed_name p | None => true end in
        match eni_ctl (pod_of b n) fx r, find_rec (b_recs b) n with
        | ENone, Some c => if (r_phase c =? r_phase r) && same_but_phase r c then 0 else 53
        | EAttach, Some c => if (r_phase c =? 1) && allocs_eqb (r_allocs r) (r_allocs c) then 0 else 54
        | EDetach, Some c => if (r_phase c =? 3) && allocs_eqb (r_allocs r) (r_allocs c) then 0 else 55
        | EDeleteObj, Some c => if r_del c then 0 else 56
        | EDeleteObj, None => if r_fin r then 56 else 0
        | EFinalize, None => 0
        | EFinalize, Some _ => 57
        | EError, _ => 58              (* the implementation reported no error where the model expects one *)
        | _, None => 59
        end
    end
  else if b_step b =? 6 then
    (* the age of "last seen" is read off the record after the pass: the pass does not touch it when it decides *)
    if forallb (fun r => match find_rec (b_recs b) (r_name r) with
                         | Some c => (r_phase c =? gc_rec (pod_of b (r_name r)) (mkRec (r_name r) (r_phase r) (r_uid r) (r_node r) (r_del r) (r_fin r) (r_allocs r) (r_seen c)))
                                     && same_but_phase r c
                                     (* the pass stamps "last seen" when it finds the pod of a fixed-IP record *)
                                     && (match pod_of b (r_name r) with
                                         | Some p => negb (requires_rec p && have_fixed (r_allocs r)) || ((0 <=? r_seen c) && (r_seen c <=? 1))
                                         | None => true end)
                         | None => false end) prev
       && (lenz prev =? lenz (b_recs b)) then 0 else 61
  else 0.

(* the interface collector: the calls are exactly detach for attached member victims and delete for available ones;
   an age within a second of the grace period is left open (the creation time has second resolution) *)
Definition referenced (rs : list prec) (e : Z) : bool := existsb (fun r => existsb (fun a => a_eni a =? e) (r_allocs r)) rs.
Definition gc7_model (prev : list prec) (b : blk) : Z :=
  if negb (b_step b =? 7) then 0 else
  let pre_cloud := b_pre b in
  let called k e := existsb (fun c => match c with kk :: ee :: _ => (kk =? k) && (ee =? e) | _ => false end) (b_calls b) in
  if forallb (fun ci =>
       let edge := (598 <=? ci_age ci) && (ci_age ci <=? 601) in
       let v := leak_victim (ci_tags ci) (ci_age ci) (referenced prev (ci_id ci)) in
       let want_detach := v && ci_inuse ci && ci_member ci in
       let want_delete := v && negb (ci_inuse ci) in
       edge || (Bool.eqb (called 7 (ci_id ci)) want_detach && Bool.eqb (called 8 (ci_id ci)) want_delete)) pre_cloud
  then 0 else 71.

Fixpoint follow (prev : list prec) (pre_cloud : list cif) (l : list blk) (idx : Z) : Z :=
  match l with
  | [] => 0
  | b :: r => let w := step_model prev b in
              let w := if w =? 0 then gc7_model prev b else w in
              if negb (w =? 0) then w * 100000 + idx else follow (b_recs b) (b_cloud b) r (idx + 1)
  end.

Definition run_pe (l : list Z) : list Z :=
  match observed_of l with
  | Some o => let w := follow [] [] (dec_blks 2000 o) 0 in if w =? 0 then o else [-997; w]
  | None => bad
  end.

(* ---- the clauses ------------------------------------------------------------------------------------------------ *)
(* C10 *)
(* 1001: the record moves along the documented phases; a new record starts in Initial *)
(* strict = false tolerates the deviation of the known finding (Initial / Binding -> Detaching of a fixed-IP record),
   which is then reported by a second pass (clause 1006) only when nothing else fails in the history *)
Definition phases_ok (strict : bool) (prev cur : list prec) : bool :=
  forallb (fun c => match find_rec prev (r_name c) with
                    | Some r => if allocs_eqb (r_allocs r) (r_allocs c)
                                then edge_ok (r_phase r) (r_phase c)
                                     || (negb strict && ((r_phase r =? 0) || (r_phase r =? 4)) && (r_phase c =? 2) && have_fixed (r_allocs r))
                                else true
                    | None => r_phase c =? 0 end) cur.
(* 1002: an interface is never detached or deleted while the pod instance its record is bound to still runs *)
Definition pull_ok (prev : list prec) (b : blk) : bool :=
  forallb (fun c => match c with
     | k :: e :: ok :: _ =>
         if ((k =? 7) || (k =? 8)) && negb (ok =? 0) then
           forallb (fun r => if existsb (fun a => a_eni a =? e) (r_allocs r) && (r_phase r =? 1) then
                               match find_pod (b_pods b) (r_name r) with
                               | Some p => negb ((q_uid p =? r_uid r) && negb (q_exited p))
                               | None => true end
                             else true) prev
         else true
     | _ => true end) (b_calls b).
(* 1004: when the pod controller's step fails, what it created is deleted again or is named by the record
   (unless the roll-back's own delete call was made to fail) *)
Definition rollback_ok (b : blk) : bool :=
  if negb (b_step b =? 4) then true else
  let delete_failed := existsb (fun c => match c with k :: _ :: ok :: _ => (k =? 8) && negb (ok =? 1) | _ => false end) (b_calls b) in
  delete_failed ||
  forallb (fun c => match c with
     | k :: e :: ok :: _ => if (k =? 1) && (ok =? 1) then negb (existsb (fun ci => ci_id ci =? e) (b_cloud b)) || referenced (b_recs b) e else true
     | _ => true end) (b_calls b).
(* 1005 (end of the healthy tail): a record without a fixed address exists only for a pod that exists;
   1003: every interface the controllers created in this history is named by a record or gone *)
Definition final_ok (created : list Z) (b : blk) : Z :=
  if negb (forallb (fun r => have_fixed (r_allocs r) || match find_pod (b_pods b) (r_name r) with Some _ => true | None => false end) (b_recs b)) then 1005
  else if negb (forallb (fun ci => negb (existsb (Z.eqb (ci_id ci)) created) || referenced (b_recs b) (ci_id ci)) (b_cloud b)) then 1003
  else 0.
Definition created_in (b : blk) : list Z :=
  flat_map (fun c => match c with k :: e :: ok :: _ => if (k =? 1) && (ok =? 1) then [e] else [] | _ => [] end) (b_calls b).
(* C11 *)
(* 1101: while a record exists its interfaces and addresses never change; at the end every running fixed-name pod
   with a fixed address is bound (phase Bind, its uid) *)
Definition allocs_stable (prev cur : list prec) : bool :=
  forallb (fun c => match find_rec prev (r_name c) with
                    | Some r => negb (have_fixed (r_allocs r)) || allocs_eqb (r_allocs r) (r_allocs c) || r_del r
                    | None => true end) cur.
(* kinds 1..4: fixed allocations only; 6, 7: an elastic interface beside a fixed one (the record as a whole is a fixed-IP record) *)
Definition fixed_kind (k : Z) : bool := ((1 <=? k mod 10) && (k mod 10 <=? 4)) || (k mod 10 =? 6) || (k mod 10 =? 7).
Definition rebound_ok (b : blk) : bool :=
  forallb (fun p => if fixed_kind (q_kind p) && fixed_name p && negb (q_exited p) && negb (100 <=? q_kind p) then
                      match find_rec (b_recs b) (q_name p) with
                      | Some r => (r_phase r =? 1) && (r_uid r =? q_uid p)
                      | None => false end
                    else true) (b_pods b).
(* 1102: a fixed-IP record is given up (Deleting / deletion) only by the record collector, only when the pod is
   absent or does not need it, no allocation says Never and every TTL has elapsed since the pod was last seen *)
Definition giving_up (r c : prec) : bool := (negb ((r_phase r =? 5) || r_del r)) && ((r_phase c =? 5) || r_del c).
(* when did the controllers last see the pod of a record: a collector pass that finds the pod, or the attach *)
Definition seen_upd (obs : list (Z * Z)) (prev : list prec) (b : blk) : list (Z * Z) :=
  fold_left (fun acc c =>
     let saw := ((b_step b =? 6) && match pod_of b (r_name c) with Some p => requires_rec p | None => false end)
                || (((b_step b =? 5) || (b_step b =? 12)) && (r_phase c =? 1)
                    && match find_rec prev (r_name c) with Some r => negb (r_phase r =? 1) | None => true end) in
     if saw then (r_name c, b_now b) :: filter (fun x => negb (fst x =? r_name c)) acc else acc) (b_recs b) obs.
Definition ttl_true_ok (obs : list (Z * Z)) (prev : list prec) (b : blk) : bool :=
  forallb (fun r => if have_fixed (r_allocs r) then
                      match find_rec (b_recs b) (r_name r) with
                      | Some c => if giving_up r c then
                                    match List.find (fun x => fst x =? r_name r) obs with
                                    | Some x => forallb (fun a => negb (a_fixed a) || negb (a_strat a =? 1) || (a_ttl a <=? b_now b - snd x + 1)) (r_allocs r)
                                    | None => true end
                                  else true
                      | None => true end
                    else true) prev.
Definition ttl_ok (prev : list prec) (b : blk) : bool :=
  forallb (fun r => if have_fixed (r_allocs r) then
                      match find_rec (b_recs b) (r_name r) with
                      | Some c => if giving_up r c then
                                    (b_step b =? 6)
                                    && match pod_of b (r_name r) with Some p => negb (requires_rec p) | None => true end
                                    && forallb (fun a => negb (a_fixed a) || ((a_strat a =? 1) && (0 <=? a_ttl a) && ((r_seen c <? 0) || (a_ttl a <=? r_seen c + 1)))) (r_allocs r)
                                  else true
                      | None => (r_phase r =? 5) || r_del r       (* a record disappears only after Deleting *)
                      end
                    else true) prev.
(* 1103: the interface collector touches only interfaces with both of this cluster's tags, older than the grace
   period and named by no record *)
Definition reap_ok (prev : list prec) (b : blk) : bool :=
  if negb (b_step b =? 7) then true else
  let pre_cloud := b_pre b in
  forallb (fun c => match c with
     | k :: e :: _ =>
         if (k =? 7) || (k =? 8) then
           match List.find (fun ci => ci_id ci =? e) pre_cloud with
           | Some ci => ours (ci_tags ci) && (599 <=? ci_age ci) && negb (referenced prev e)
           | None => false end
         else true
     | _ => true end) (b_calls b).

Definition blk_why (prop : Z) (created : list Z) (obs : list (Z * Z)) (prev : list prec) (pre_cloud : list cif) (b : blk) (last : bool) : Z :=
  if prop =? 10 then
    if negb (phases_ok false prev (b_recs b)) then 1001
    else if negb (pull_ok prev b) then 1002
    else if negb (rollback_ok b) then 1004
    else if last then final_ok created b else 0
  else
    if negb (allocs_stable prev (b_recs b)) then 1101
    else if negb (ttl_ok prev b) then 1102
    else if negb (ttl_true_ok obs prev b) then 1105
    else if negb (reap_ok prev b) then 1103
    else if last && negb (rebound_ok b) then 1104
    else 0.
Fixpoint hist_why (prop : Z) (created : list Z) (obs : list (Z * Z)) (prev : list prec) (pre_cloud : list cif) (l : list blk) (idx : Z) : Z :=
  match l with
  | [] => 0
  | b :: r => let cr := created ++ created_in b in
              let w := blk_why prop cr obs prev pre_cloud b (match r with [] => true | _ => false end) in
              if negb (w =? 0) then w * 100000 + idx else hist_why prop cr (seen_upd obs prev b) (b_recs b) (b_cloud b) r (idx + 1)
  end.
Fixpoint strict_why (prev : list prec) (l : list blk) (idx : Z) : Z :=
  match l with
  | [] => 0
  | b :: r => if negb (phases_ok true prev (b_recs b)) then 1006 * 100000 + idx else strict_why (b_recs b) r (idx + 1)
  end.
Definition why_pe (prop : Z) (l o : list Z) : Z :=
  let bs := dec_blks 2000 o in
  let w := hist_why prop [] [] [] [] bs 0 in
  if (w =? 0) && (prop =? 10) then strict_why [] bs 0 else w.
Definition chk_c10 (l o : list Z) : bool := why_pe 10 l o =? 0.
Definition chk_c11 (l o : list Z) : bool := why_pe 11 l o =? 0.
