(* Props_C06.v — property C06 (quotas and disposal safety) against the pool LTS. *)
From Coq Require Import ZArith List Bool.
From TV Require Import PoolModel PoolSets PoolInv PoolThm PoolQuota.
Import ListNotations.
Local Open Scope Z_scope.

(* first sentence: never more addresses on an interface than the instance type allows.  With a fault-free cloud (the
   quantifier of C06) and interfaces created into empty slots (false only after the delete race refuted below), from a slot
   with a limit of at least one: in every reachable state a call that assigns n more addresses of a family finds
   `addresses on the interface + n <= limit`, and a new interface is asked for with at most `limit` addresses per family.
   The invariant behind it: addresses + queued requests (filtered or not) never exceed the limit. *)
Theorem c06_quota_assign : forall ty on4 on6 cap batch ls s f n s',
  1 <= cap -> run_q (init_slot ty on4 on6 cap batch) ls -> run (init_slot ty on4 on6 cap batch) ls = Some s ->
  step s (LAssignBegin f n) = Some s' -> setlen s f + n <= s_cap s.
Proof.
  intros ty on4 on6 cap batch ls s f n s' Hc Hr Hs Hb.
  exact (quota_assign s f n s' (q_run ls _ s (q_init ty on4 on6 cap batch Hc) Hr Hs) Hb).
Qed.
Print Assumptions c06_quota_assign.
Theorem c06_quota_create : forall ty on4 on6 cap batch ls s n4 n6 s',
  1 <= cap -> run_q (init_slot ty on4 on6 cap batch) ls -> run (init_slot ty on4 on6 cap batch) ls = Some s ->
  step s (LCreateBegin n4 n6) = Some s' -> n4 <= s_cap s /\ n6 <= s_cap s.
Proof.
  intros ty on4 on6 cap batch ls s n4 n6 s' Hc Hr Hs Hb.
  exact (quota_create s n4 n6 s' (q_run ls _ s (q_init ty on4 on6 cap batch Hc) Hr Hs) Hb).
Qed.
Print Assumptions c06_quota_create.

(* every unassign call names only addresses no pod owns and never the primary address; every delete
   call is made with no address in use, no request in the allocating queues, and never for a trunk or
   erdma interface — judged at the time the call is made, over every reachable state *)
Theorem c06_calls_safe : forall s0 ls s,
  Inv s0 -> Led s0 -> run_env s0 ls -> run_cloud ls -> run s0 ls = Some s -> Forall call_ok (s_log s).
Proof. intros s0 ls s HI HL He Hc Hr. exact (log_calls_ok s (proj2 (inv_led_run ls s0 s HI HL He Hc Hr))). Qed.
Print Assumptions c06_calls_safe.

(* the pool shrinks only by disposing idle addresses: the entries a Dispose pass marks are unowned and
   not the primary address *)
Theorem c06_shrink_only_idle : forall s n m f, NoDup (keys (f_set (fget s f))) ->
  dispose_marks_ok (dispose_invalid (f_set (fget s f))) n m = true ->
  forall a, In a m -> exists e, find a (dispose_invalid (f_set (fget s f))) = Some e /\ e_owner e = 0 /\ e_prim e = false.
Proof. intros s n m f Hn H a Ha. eapply dispose_marks_idle; [rewrite keys_dispose_invalid; exact Hn | exact H | exact Ha]. Qed.
Print Assumptions c06_shrink_only_idle.

(* a Deleting entry is always idle and never the primary address (so what the dispose worker unassigns
   is never in use) *)
Theorem c06_deleting_is_idle : forall s0 ls s f a e, Inv s0 -> run_env s0 ls -> run s0 ls = Some s ->
  find a (f_set (fget s f)) = Some e -> e_st e = Deleting -> e_owner e = 0 /\ e_prim e = false.
Proof.
  intros s0 ls s f a e HI He Hr F Hd. pose proof (i_set _ _ _ _ _ _ _ _ (inv_run ls s0 s HI He Hr) f) as X.
  destruct f; exact (X a e F Hd).
Qed.
Print Assumptions c06_deleting_is_idle.

(* the clause "never deletes an interface with pending requests" in full generality is FALSE of the
   model (and of the code it mirrors): canDispose looks at the allocating queues only; a request that
   was popped into `danging` by an assign answer and whose worker has not run yet is not seen.  The
   witness: request 1 of pod 101 waits; an address arrives (pop -> danging); a balancer pass disposes
   the whole interface; the delete call starts; the worker takes the address; the delete succeeds:
   pod 101 holds address 51 of an interface that no longer exists. *)
Theorem c06_delete_quiet_refuted :
  exists ls s, run (init_slot 0 true false 4 2) ls = Some s /\ In (101, F4, 51) (s_held s) /\ f_set (s_4 s) = [] /\ s_eni s = 0.
Proof.
  exists [LAllocEnqueue 9 0 true 0 false; LFwArm; LTick 300; LCreateBegin 1 0; LCreateEnd true 7 false 50 [50] [] 0; LNoCacheExit 9;
          LAllocDirect 2 102 0 false 50 0; LCommit 2 true;
          LAllocEnqueue 1 101 false 0 false; LFwArm; LTick 300; LAssignBegin F4 1; LAssignEnd F4 true [51] 0;
          LRelease 102 7 50 0;
          LDispose 2 true [] []; LDeleteBegin; LWorkerTake 1 51 0 true; LDeleteEnd true true].
  eexists. vm_compute. repeat split. left; reflexivity.
Qed.
Print Assumptions c06_delete_quiet_refuted.

Example c06_ex :
  let ls := [LAllocEnqueue 1 101 false 0 false; LFwArm; LTick 300; LCreateBegin 1 0; LCreateEnd true 7 false 50 [50] [] 0;
             LWorkerTake 1 50 0 true; LAllocEnqueue 2 102 false 0 false; LFwArm; LTick 300; LAssignBegin F4 1; LAssignEnd F4 true [51] 0;
             LWorkerTake 2 51 0 true; LRelease 102 7 51 0; LDispose 1 false [51] []; LUnassignBegin F4 [51]; LUnassignEnd F4 true true] in
  run_env (init_slot 0 true false 4 2) ls /\
  match run (init_slot 0 true false 4 2) ls with Some s => s_log s = [CUnassign F4 [51] false false; CAssign F4 1 1; CCreate 1 0] | None => False end.
Proof. vm_compute. repeat split. Qed.

(* the quota theorems are not vacuous: a run that creates an interface and assigns an address meets their hypotheses, and a
   third pod is refused on an interface of limit 2 that holds 1 address and has 1 request queued *)
Example c06_quota_ex :
  let pre := [LAllocEnqueue 1 101 false 0 false; LFwArm; LTick 300; LCreateBegin 1 0; LCreateEnd true 7 false 50 [50] [] 0;
              LWorkerTake 1 50 0 true; LAllocEnqueue 2 102 false 0 false; LFwArm; LTick 300] in
  run_q (init_slot 0 true false 2 2) pre /\
  match run (init_slot 0 true false 2 2) pre with
  | Some s => step s (LAssignBegin F4 1) <> None /\ step s (LAssignBegin F4 2) = None /\
              step s (LAllocEnqueue 3 103 false 0 false) = None /\ step s (LAllocReject 103 false 0 false 3) <> None
  | None => False end.
Proof. vm_compute. repeat split; discriminate. Qed.
