(* RtModel.v — the node agent's reporting of sandbox teardowns to the control plane (pkg/eni/crdv2.go):
   Release records the pod's uid in `deletedPods`; a delivered Allocate answer for the uid drops it again;
   syncNodeRuntime (every 3 s) stamps `deleted` on the NodeRuntime entries of the recorded uids and forgets them once the
   object is saved; syncDeletedPods (every 5 min) drops entries the cluster IPAM has forgotten and whose final status is
   `deleted`, and adds an `initial` entry for every uid the IPAM still names.  Definitions only. *)
From Coq Require Import ZArith List Bool.
Import ListNotations.
Local Open Scope Z_scope.

Fixpoint memz (x : Z) (l : list Z) : bool := match l with [] => false | y :: r => (x =? y) || memz x r end.
Definition addz (x : Z) (l : list Z) : list Z := if memz x l then l else x :: l.
Definition remz (x : Z) (l : list Z) : list Z := filter (fun y => negb (x =? y)) l.

(* one NodeRuntime entry: uid, has `initial`, has `deleted` (time only moves forward and `initial` is only ever written
   into a fresh entry, so `deleted`, when present, is the final status) *)
Record ent := mkEnt { e_uid : Z; e_ini : bool; e_del : bool }.
Record st := mkSt {
  pend : list Z;            (* deletedPods *)
  rt : option (list ent);   (* the NodeRuntime object's pod table; None: the object does not exist *)
  deleting : bool;          (* the object carries a deletion timestamp *)
  ipam : list Z;            (* uids the Node record still names *)
  dels : list Z }.          (* ghost: every uid whose DEL was ever processed *)

Inductive op :=
| ORelease (u : Z)                 (* a DEL for uid u reached CRDV2.Release *)
| OAnswer (u : Z)                  (* an Allocate answer for uid u was delivered (successful or not) *)
| OFlush (get_ok save_ok : bool)   (* syncNodeRuntime, with the outcome of its API calls *)
| OSync (get_ok save_ok : bool)    (* syncDeletedPods *)
| OBind (u : Z) | OForget (u : Z)  (* the cluster IPAM binds / releases an address of uid u *)
| OObjDeleting                     (* the NodeRuntime object gets a deletion timestamp (a finalizer holds it) *)
| OObjGone                         (* the object is removed *)
| OIfStatus (k : Z).               (* the Node record shows another status for the interface: of no concern to the reports *)

Definition find_ent (u : Z) (l : list ent) : option ent := List.find (fun e => e_uid e =? u) l.
Definition stamp_deleted (u : Z) (l : list ent) : list ent :=
  match find_ent u l with
  | Some _ => map (fun e => if e_uid e =? u then mkEnt u (e_ini e) true else e) l
  | None => l ++ [mkEnt u false true]
  end.
Definition table (s : st) : list ent := match rt s with Some l => l | None => [] end.

Definition step (s : st) (o : op) : st :=
  match o with
  | ORelease u => mkSt (addz u (pend s)) (rt s) (deleting s) (ipam s) (addz u (dels s))
  | OAnswer u => mkSt (remz u (pend s)) (rt s) (deleting s) (ipam s) (dels s)
  | OFlush get_ok save_ok =>
      match pend s with
      | [] => s
      | _ =>
          if negb get_ok then s
          else if deleting s then s
          else if negb save_ok then s
          else mkSt [] (Some (fold_left (fun l u => stamp_deleted u l) (pend s) (table s))) false (ipam s) (dels s)
      end
  | OSync get_ok save_ok =>
      if negb get_ok then s
      else if deleting s then s
      else if negb save_ok then s
      else
        let kept := filter (fun e => memz (e_uid e) (ipam s) || negb (e_del e)) (table s) in
        let back := filter (fun u => match find_ent u kept with Some _ => false | None => true end) (ipam s) in
        mkSt (pend s) (Some (kept ++ map (fun u => mkEnt u true false) back)) false (ipam s) (dels s)
  | OBind u => mkSt (pend s) (rt s) (deleting s) (addz u (ipam s)) (dels s)
  | OForget u => mkSt (pend s) (rt s) (deleting s) (remz u (ipam s)) (dels s)
  | OObjDeleting => match rt s with Some _ => mkSt (pend s) (rt s) true (ipam s) (dels s) | None => s end
  | OObjGone => mkSt (pend s) None false (ipam s) (dels s)
  | OIfStatus _ => s
  end.
Definition init : st := mkSt [] None false [] [].
Definition run (s : st) (os : list op) : st := fold_left step os s.
