(* PoolInv.v — invariants of the pool LTS and their preservation by every label. *)
From Coq Require Import ZArith List Bool Lia.
From TV Require Import PoolModel PoolLib PoolSets.
Import ListNotations.
Local Open Scope Z_scope.

(* ---- owner_of under the set operations --------------------------------------------------- *)
Lemma owner_set_owner s a pod b :
  owner_of (set_owner a pod s) b = if b =? a then (match find a s with Some _ => pod | None => 0 end) else owner_of s b.
Proof. unfold owner_of. rewrite find_set_owner. destruct (b =? a); [destruct (find a s); reflexivity | reflexivity]. Qed.
Lemma owner_release s a pod b :
  owner_of (release a pod s) b = if b =? a then (if owner_of s a =? pod then 0 else owner_of s a) else owner_of s b.
Proof.
  unfold owner_of. rewrite find_release. destruct (b =? a); [|reflexivity].
  destruct (find a s) as [e|]; [destruct (e_owner e =? pod); reflexivity | destruct (0 =? pod); reflexivity].
Qed.
Lemma owner_put_fresh st prim ips s b : owner_of (put_fresh st prim ips s) b = if memz b ips then 0 else owner_of s b.
Proof. unfold owner_of. rewrite find_put_fresh. destruct (memz b ips); reflexivity. Qed.
Lemma owner_del_all ips s b : owner_of (del_all ips s) b = if memz b ips then 0 else owner_of s b.
Proof. unfold owner_of. rewrite find_del_all. destruct (memz b ips); reflexivity. Qed.
Lemma owner_dispose_invalid s b : owner_of (dispose_invalid s) b = owner_of s b.
Proof. unfold owner_of. rewrite find_dispose_invalid. destruct (find b s) as [e|]; [|reflexivity]. cbn [option_map].
  destruct (negb (in_use e) && negb (ipst_eqb (e_st e) Valid) && negb (e_prim e)); reflexivity. Qed.
Lemma owner_sync_set r s b : owner_of (sync_set r s) b = owner_of s b.
Proof. unfold owner_of. rewrite find_sync_set. destruct (find b s) as [e|]; [|reflexivity]. cbn [option_map].
  destruct (ipst_eqb (e_st e) Valid && negb (memz b r)); reflexivity. Qed.
Lemma owner_marks m s b : owner_of (fold_left (fun acc a => dispose_ip a acc) m s) b = owner_of s b.
Proof. unfold owner_of. rewrite find_dispose_marks. destruct (memz b m); [|reflexivity].
  destruct (find b s) as [e|]; [|reflexivity]. cbn [option_map]. destruct (e_prim e); reflexivity. Qed.

(* ---- entry-level invariant: a Deleting entry is idle and not the primary address -------- *)
Definition ent_ok (e : ent) : Prop := e_st e = Deleting -> e_owner e = 0 /\ e_prim e = false.
Definition set_ok (s : iset) : Prop := forall a e, find a s = Some e -> ent_ok e.

Lemma set_ok_nil : set_ok [].
Proof. intros a e H. discriminate. Qed.
Lemma set_ok_put_fresh st prim ips s : (st = Deleting -> prim = 0 /\ ~ In 0 ips) -> set_ok s -> set_ok (put_fresh st prim ips s).
Proof.
  intros Hp H a e. rewrite find_put_fresh. destruct (memz a ips) eqn:Em; [|apply H].
  intros E; inversion E; subst. intros Hd. cbn in *. split; [reflexivity|].
  destruct (Hp Hd) as [-> Hn]. destruct (a =? 0) eqn:E0; [|reflexivity].
  apply Z.eqb_eq in E0; subst. apply memz_In in Em. contradiction.
Qed.
Lemma set_ok_put_valid prim ips s : set_ok s -> set_ok (put_fresh Valid prim ips s).
Proof.
  intros H a e. rewrite find_put_fresh. destruct (memz a ips); [|apply H].
  intros E; inversion E; subst. intros Hd. discriminate.
Qed.
Lemma fresh_ips_spec ips s : fresh_ips ips s = true -> ~ In 0 ips /\ forall a, In a ips -> find a s = None.
Proof.
  unfold fresh_ips. intros H. apply andb_true_iff in H as [H H3]. apply andb_true_iff in H as [_ H2].
  split; [apply memz_false; destruct (memz 0 ips); [discriminate | reflexivity]|].
  intros a Ha. rewrite forallb_forall in H3. specialize (H3 a Ha). apply find_none_keys, memz_false.
  destruct (memz a (keys s)); [discriminate | reflexivity].
Qed.
Lemma set_ok_put_deleting ips s : ~ In 0 ips -> set_ok s -> set_ok (put_fresh Deleting 0 ips s).
Proof.
  intros H0 H a e. rewrite find_put_fresh. destruct (memz a ips) eqn:Em; [|apply H].
  intros E; inversion E; subst. intros _. cbn. split; [reflexivity|].
  destruct (a =? 0) eqn:E0; [|reflexivity]. apply Z.eqb_eq in E0; subst. apply memz_In in Em. contradiction.
Qed.
Lemma set_ok_set_owner a pod s : set_ok s -> (forall e, find a s = Some e -> e_st e = Deleting -> pod = 0) -> set_ok (set_owner a pod s).
Proof.
  intros H Hp b e. rewrite find_set_owner. destruct (b =? a) eqn:E; [|apply H].
  apply Z.eqb_eq in E; subst. destruct (find a s) as [e0|] eqn:F; [|discriminate]. intros E; inversion E; subst.
  intros Hd. cbn in *. split; [exact (Hp e0 eq_refl Hd) | exact (proj2 (H a e0 F Hd))].
Qed.
Lemma set_ok_release a pod s : set_ok s -> set_ok (release a pod s).
Proof.
  intros H b e. rewrite find_release. destruct (b =? a) eqn:E; [|apply H].
  apply Z.eqb_eq in E; subst. destruct (find a s) as [e0|] eqn:F; [|discriminate]. intros E; inversion E; subst.
  destruct (e_owner e0 =? pod); [|exact (H a e0 F)]. intros Hd. cbn in *. split; [reflexivity | exact (proj2 (H a e0 F Hd))].
Qed.
Lemma set_ok_del_all ips s : set_ok s -> set_ok (del_all ips s).
Proof. intros H b e. rewrite find_del_all. destruct (memz b ips); [discriminate | apply H]. Qed.
Lemma set_ok_sync r s : set_ok s -> set_ok (sync_set r s).
Proof.
  intros H b e. rewrite find_sync_set. destruct (find b s) as [e0|] eqn:F; [|discriminate]. cbn [option_map].
  intros E; inversion E; subst; clear E. destruct (ipst_eqb (e_st e0) Valid && negb (memz b r)); [intros Hd; discriminate | exact (H b e0 F)].
Qed.
Lemma set_ok_dispose_invalid s : set_ok s -> set_ok (dispose_invalid s).
Proof.
  intros H b e. rewrite find_dispose_invalid. destruct (find b s) as [e0|] eqn:F; [|discriminate]. cbn [option_map].
  intros E; inversion E; subst; clear E.
  destruct (negb (in_use e0) && negb (ipst_eqb (e_st e0) Valid) && negb (e_prim e0)) eqn:Ec; [|exact (H b e0 F)].
  intros _. cbn. apply andb_true_iff in Ec as [Ec Ep]. apply andb_true_iff in Ec as [Eu _].
  unfold in_use in Eu. split; [destruct (e_owner e0 =? 0) eqn:E0; [apply Z.eqb_eq in E0; exact E0 | discriminate] | destruct (e_prim e0); [discriminate | reflexivity]].
Qed.
(* the marked entries are candidates: not in use, not the primary address *)
Lemma dispose_marks_idle s n m : NoDup (keys s) -> dispose_marks_ok s n m = true ->
  forall a, In a m -> exists e, find a s = Some e /\ e_owner e = 0 /\ e_prim e = false.
Proof.
  unfold dispose_marks_ok. intros Hn H a Ha. repeat (apply andb_true_iff in H as [H ?]).
  match goal with H1 : subsetz m _ = true |- _ => unfold subsetz in H1; rewrite forallb_forall in H1; specialize (H1 a Ha); apply memz_In in H1; rename H1 into Hk end.
  unfold keys in Hk. apply in_map_iff in Hk as ([k e] & E & Hk). cbn in E; subst k.
  apply filter_In in Hk as [Hk Hp]. apply filter_In in Hk as [Hk Hc]. cbn in Hp, Hc.
  exists e. split; [apply In_find; [exact Hn | exact Hk]|].
  unfold cand in Hc. cbn in Hc. apply andb_true_iff in Hc as [Hu _]. unfold in_use in Hu.
  split; [destruct (e_owner e =? 0) eqn:E0; [apply Z.eqb_eq in E0; exact E0 | discriminate] | destruct (e_prim e); [discriminate | reflexivity]].
Qed.
Lemma set_ok_marks m s : set_ok s -> (forall a, In a m -> exists e, find a s = Some e /\ e_owner e = 0 /\ e_prim e = false) ->
  set_ok (fold_left (fun acc a => dispose_ip a acc) m s).
Proof.
  intros H Hm b e. rewrite find_dispose_marks. destruct (memz b m) eqn:Em; [|apply H].
  apply memz_In in Em. destruct (Hm b Em) as (e0 & F & Ho & Hp). rewrite F. cbn [option_map]. rewrite Hp.
  intros E; inversion E; subst; clear E. intros _. cbn. split; [exact Ho | reflexivity].
Qed.
Lemma nodup_map_keys (g : Z * ent -> Z * ent) s : (forall p, fst (g p) = fst p) -> NoDup (keys s) -> NoDup (keys (map g s)).
Proof. intros Hg H. rewrite keys_map_same by exact Hg. exact H. Qed.
Lemma keys_dispose_ip a s : keys (dispose_ip a s) = keys s.
Proof. unfold dispose_ip. destruct (find a s) as [e|] eqn:F; [|reflexivity]. destruct (e_prim e); [reflexivity|]. apply keys_put_in. eapply find_keys; exact F. Qed.
Lemma keys_marks m : forall s, keys (fold_left (fun acc a => dispose_ip a acc) m s) = keys s.
Proof. induction m as [|a r IH]; intros s; cbn [fold_left]; [reflexivity|]. rewrite IH. apply keys_dispose_ip. Qed.
Lemma keys_set_owner a pod s : keys (set_owner a pod s) = keys s.
Proof. unfold set_owner. destruct (find a s) as [e|] eqn:F; [|reflexivity]. apply keys_put_in. eapply find_keys; exact F. Qed.
Lemma keys_release a pod s : keys (release a pod s) = keys s.
Proof. unfold release. destruct (find a s) as [e|] eqn:F; [|reflexivity]. destruct (e_owner e =? pod); [|reflexivity]. apply keys_put_in. eapply find_keys; exact F. Qed.
Lemma nodup_del_all ips : forall s, NoDup (keys s) -> NoDup (keys (del_all ips s)).
Proof. unfold del_all. induction ips as [|a r IH]; intros s H; cbn [fold_left]; [exact H | apply IH, nodup_del, H]. Qed.
Lemma keys_dispose_invalid s : keys (dispose_invalid s) = keys s.
Proof. unfold dispose_invalid. apply keys_map_same. intros [k e]. cbn. destruct (negb (in_use e) && negb (ipst_eqb (e_st e) Valid) && negb (e_prim e)); reflexivity. Qed.
Lemma keys_sync_set r s : keys (sync_set r s) = keys s.
Proof. unfold sync_set. apply keys_map_same. intros [k e]. cbn. destruct (ipst_eqb (e_st e) Valid && negb (memz k r)); reflexivity. Qed.

(* ---- the invariant ------------------------------------------------------------------------ *)
Definition dsel (q : req) (f : fid) : Z := match f with F4 => r_d4 q | F6 => r_d6 q end.
Definition ksel (q : req) (f : fid) : bool := match f with F4 => r_k4 q | F6 => r_k6 q end.
Definition sel (s4 s6 : iset) (f : fid) : iset := match f with F4 => s4 | F6 => s6 end.
(* every request still running on the interface is a pre-heat (no-cache) one *)
Definition quietR (reqs : rtab) : Prop := forall r q, rfind r reqs = Some q -> r_fin q = false -> r_nc q = true.
Definition quiet (s : slot) : Prop := quietR (s_reqs s).

(* stated over the components it reads, so that a label that leaves a component alone leaves the
   clauses about it alone *)
Record InvC (s4 s6 : iset) (held : list (Z * fid * Z)) (reqs : rtab) (dw : dwst) (st : sst) (fw : fwst) (eni : Z) : Prop := mkInv {
  i_nd : forall f, NoDup (keys (sel s4 s6 f));
  i_set : forall f, set_ok (sel s4 s6 f);
  i_held : forall p f a, In (p, f, a) held -> p <> 0 /\ a <> 0 /\ owner_of (sel s4 s6 f) a = p;
  i_dir : forall r q, rfind r reqs = Some q -> r_direct q = true -> r_fin q = false ->
      r_pod q <> 0 /\ r_nc q = false /\
      forall f, dsel q f <> 0 ->
        owner_of (sel s4 s6 f) (dsel q f) = r_pod q /\ (ksel q f = false -> ~ In (r_pod q, f, dsel q f) held);
  i_one : forall r1 q1 r2 q2, rfind r1 reqs = Some q1 -> rfind r2 reqs = Some q2 ->
      r_fin q1 = false -> r_fin q2 = false -> r_pod q1 = r_pod q2 -> r_pod q1 <> 0 -> r1 = r2;
  i_un : forall f ips, dw = DwUn f ips -> forall a, In a ips -> exists e, find a (sel s4 s6 f) = Some e /\ e_st e = Deleting;
  i_dl : dw = DwDelete -> st = SDeleting /\ (forall f a, owner_of (sel s4 s6 f) a = 0) /\ quietR reqs;
  i_cr : forall n4 n6, fw = FwCreate n4 n6 -> st = SCreating;
  i_se : st = SDeleting -> eni <> 0
}.
Definition Inv (s : slot) : Prop :=
  InvC (f_set (s_4 s)) (f_set (s_6 s)) (s_held s) (s_reqs s) (s_dw s) (s_st s) (s_fw s) (s_eni s).

(* the environment hypothesis of the per-interface theorems: an interface is deleted only when no
   pod request still runs on it.  The code checks the two allocating queues only (canDispose,
   local.go:1089-1105); a request already popped into `danging` whose worker has not run yet is
   not seen — see c06_delete_race_refuted. *)
Definition env_ok (s : slot) (l : label) : Prop :=
  match l with LDeleteBegin => quiet s | _ => True end.

Lemma rfind_rput_same r q t : rfind r (rput r q t) = Some q.
Proof. induction t as [|[k q0] t IH]; cbn [rput rfind]; [rewrite Z.eqb_refl; reflexivity|].
  destruct (k =? r) eqn:E; cbn [rfind]; rewrite E; [reflexivity | exact IH]. Qed.
Lemma rfind_rput_other r r' q t : r <> r' -> rfind r' (rput r q t) = rfind r' t.
Proof.
  intros Hn. induction t as [|[k q0] t IH]; cbn [rput rfind].
  - destruct (r =? r') eqn:E; [apply Z.eqb_eq in E; contradiction | reflexivity].
  - destruct (k =? r) eqn:E; cbn [rfind].
    + apply Z.eqb_eq in E; subst. destruct (r =? r') eqn:E2; [apply Z.eqb_eq in E2; contradiction | reflexivity].
    + destruct (k =? r'); [reflexivity | exact IH].
Qed.
Lemma rfind_rput r r' q t : rfind r' (rput r q t) = if r =? r' then Some q else rfind r' t.
Proof. destruct (r =? r') eqn:E; [apply Z.eqb_eq in E; subst; apply rfind_rput_same | apply rfind_rput_other; apply Z.eqb_neq in E; exact E]. Qed.

(* the request table after cancel_nc: only r_wd changes *)
Lemma rfind_cancel_nc l : forall t r, exists b : bool, rfind r (cancel_nc t l) = option_map (fun q => if b then set_wd q else q) (rfind r t).
Proof.
  unfold cancel_nc. induction l as [|x l IH]; intros t r; cbn [fold_left]; [exists false; destruct (rfind r t); reflexivity|].
  destruct (rfind x t) as [q|] eqn:F; [|apply IH]. destruct (r_nc q); [|apply IH].
  destruct (IH (rput x (set_wd q) t) r) as [b Hb]. rewrite Hb, rfind_rput. destruct (x =? r) eqn:E.
  - apply Z.eqb_eq in E; subst. rewrite F. cbn [option_map]. exists true. destruct b; reflexivity.
  - exists b. reflexivity.
Qed.

Arguments sync_set : simpl never.
Arguments dispose_invalid : simpl never.
Arguments set_owner : simpl never.
Arguments release : simpl never.
Arguments dispose_ip : simpl never.
Arguments put_fresh : simpl never.
Arguments del_all : simpl never.
Arguments deleting_keys : simpl never.
Arguments keys : simpl never.
Arguments find : simpl never.
Arguments cancel_nc : simpl never.
Arguments prune : simpl never.
Arguments rfind : simpl never.
Arguments rput : simpl never.
Arguments peek_ok : simpl never.
Arguments alloc_kind : simpl never.
Arguments can_dispose : simpl never.
Arguments fresh_ips : simpl never.
Arguments dispose_marks_ok : simpl never.
Arguments unfinished_for : simpl never.
Arguments fw_guard : simpl never.
Arguments held_by : simpl never.
Arguments sync_gone : simpl never.
Arguments memz : simpl never.
Arguments remzs : simpl never.
Arguments remz : simpl never.
Arguments Z.add : simpl never.
Arguments Z.max : simpl never.
Arguments Z.min : simpl never.
Arguments len : simpl never.
Arguments nodupz : simpl never.
Arguments subsetz : simpl never.

(* the in-place filtering of the queues at the factory worker's loop head changes nothing but the two allocating lists *)
Lemma loop_head_shape s : exists a4 a6, loop_head s = set_allocs s a4 a6.
Proof.
  destruct s as [st eni ty trunk x4 x6 inh fw dw reqs cap batch now held log], x4, x6.
  unfold loop_head, prune_q, set_allocs, plen; cbn.
  match goal with |- context [if ?c then _ else _] => destruct c end; eexists; eexists; reflexivity.
Qed.
Lemma prune_both_shape s : exists a4 a6, prune_both s = set_allocs s a4 a6.
Proof.
  destruct s as [st eni ty trunk x4 x6 inh fw dw reqs cap batch now held log], x4, x6.
  unfold prune_both, prune_q, set_allocs; cbn. eexists; eexists; reflexivity.
Qed.
Lemma adm_prune_shape s pod nc : exists a4 a6, adm_prune s pod nc = set_allocs s a4 a6.
Proof.
  destruct s as [st eni ty trunk x4 x6 inh fw dw reqs cap batch now held log], x4, x6.
  unfold adm_prune, prune_q, set_allocs, plen, setlen; cbn.
  repeat match goal with |- context [if ?c then _ else _] => destruct c end; eexists; eexists; reflexivity.
Qed.
Arguments adm_prune : simpl never.
Arguments loop_head : simpl never.
Arguments prune_both : simpl never.
Ltac open_heads H :=
  repeat match type of H with
  | context [loop_head ?x] => let a4 := fresh "a4'" in let a6 := fresh "a6'" in let E := fresh "Eh" in
                              destruct (loop_head_shape x) as [a4 [a6 E]]; rewrite E in H; clear E; cbn in H
  | context [prune_both ?x] => let a4 := fresh "a4'" in let a6 := fresh "a6'" in let E := fresh "Eh" in
                               destruct (prune_both_shape x) as [a4 [a6 E]]; rewrite E in H; clear E; cbn in H
  | context [adm_prune ?x ?p ?n] => let a4 := fresh "a4'" in let a6 := fresh "a6'" in let E := fresh "Eh" in
                               destruct (adm_prune_shape x p n) as [a4 [a6 E]]; rewrite E in H; clear E; cbn in H
  end.

(* ---- preservation, label by label ------------------------------------------------------------ *)
Ltac break_step H :=
  open_heads H;
  repeat match type of H with
  | context [match ?x with _ => _ end] => let E := fresh "E" in destruct x eqn:E; try discriminate H
  end.
Ltac open_slot s :=
  let x4 := fresh "x4" in let x6 := fresh "x6" in
  destruct s as [st eni ty trunk x4 x6 inh fw dw reqs cap batch now held log];
  destruct x4 as [on4 set4 al4 dg4 cl4 gone4 un4]; destruct x6 as [on6 set6 al6 dg6 cl6 gone6 un6].
Ltac done_inv HI := destruct HI as [Hnd Hset Hheld Hdir Hone Hun Hdl Hcr Hse]; constructor; try assumption.

Lemma inv_init ty on4 on6 cap batch : Inv (init_slot ty on4 on6 cap batch).
Proof.
  unfold Inv, init_slot; cbn. constructor; cbn.
  - intros []; constructor.
  - intros []; apply set_ok_nil.
  - intros p f a [].
  - intros r q H; discriminate.
  - intros r1 q1 r2 q2 H; discriminate.
  - intros f ips H; discriminate.
  - intros H; discriminate.
  - intros n4 n6 H; discriminate.
  - intros H; discriminate.
Qed.

Lemma inv_nochange s l s' : Inv s -> step s l = Some s' ->
  match l with
  | LAllocReject _ _ _ _ _ | LFwArm | LFwExpire | LFwSkip | LFwLook | LRemoteRemove _ _ | LTick _ => True
  | _ => False end -> Inv s'.
Proof.
  intros HI Hs Hl. open_slot s. unfold Inv in *. destruct l; try contradiction; cbn in Hs |- *.
  - break_step Hs; inversion Hs; subst; cbn; exact HI.
  - break_step Hs; inversion Hs; subst; cbn; done_inv HI; intros n4 n6 H; discriminate.
  - break_step Hs; inversion Hs; subst; cbn; done_inv HI; intros n4 n6 H; discriminate.
  - break_step Hs; inversion Hs; subst; cbn; done_inv HI; intros n4 n6 H; discriminate.
  - break_step Hs; inversion Hs; subst; cbn; exact HI.
  - destruct f; inversion Hs; subst; cbn; exact HI.
  - break_step Hs; inversion Hs; subst; cbn; exact HI.
Qed.

(* a request-table change that only finishes / cancels requests keeps the clauses about requests *)
Definition req_le (q' q : req) : Prop :=
  r_pod q' = r_pod q /\ r_nc q' = r_nc q /\ r_direct q' = r_direct q /\ r_d4 q' = r_d4 q /\ r_d6 q' = r_d6 q /\
  r_k4 q' = r_k4 q /\ r_k6 q' = r_k6 q /\ (r_fin q' = false -> r_fin q = false).
Definition reqs_le (reqs' reqs : rtab) : Prop :=
  forall r q', rfind r reqs' = Some q' -> exists q, rfind r reqs = Some q /\ req_le q' q.
Lemma req_le_refl q : req_le q q. Proof. unfold req_le; tauto. Qed.
Lemma reqs_le_refl t : reqs_le t t. Proof. intros r q H. exists q. split; [exact H | apply req_le_refl]. Qed.
Lemma reqs_le_trans a b c : reqs_le a b -> reqs_le b c -> reqs_le a c.
Proof.
  intros H1 H2 r q Hq. destruct (H1 r q Hq) as (q1 & F1 & L1). destruct (H2 r q1 F1) as (q2 & F2 & L2).
  exists q2. split; [exact F2|]. unfold req_le in *. intuition congruence.
Qed.
Lemma reqs_le_rput r g t q : rfind r t = Some q -> req_le (g q) q -> reqs_le (rput r (g q) t) t.
Proof.
  intros F L r' q'. rewrite rfind_rput. destruct (r =? r') eqn:E.
  - apply Z.eqb_eq in E; subst. intros H; inversion H; subst. exists q. split; assumption.
  - intros H. exists q'. split; [exact H | apply req_le_refl].
Qed.
Lemma reqs_le_cancel_nc l t : reqs_le (cancel_nc t l) t.
Proof.
  intros r q'. destruct (rfind_cancel_nc l t r) as [b Hb]. rewrite Hb. destruct (rfind r t) as [q|]; [|discriminate].
  cbn [option_map]. intros H; inversion H; subst. exists q. split; [reflexivity|]. destruct b; unfold req_le, set_wd; cbn; tauto.
Qed.

Lemma dir_le s4 s6 held reqs reqs' :
  reqs_le reqs' reqs ->
  (forall r q, rfind r reqs = Some q -> r_direct q = true -> r_fin q = false ->
      r_pod q <> 0 /\ r_nc q = false /\
      forall f, dsel q f <> 0 -> owner_of (sel s4 s6 f) (dsel q f) = r_pod q /\ (ksel q f = false -> ~ In (r_pod q, f, dsel q f) held)) ->
  (forall r q, rfind r reqs' = Some q -> r_direct q = true -> r_fin q = false ->
      r_pod q <> 0 /\ r_nc q = false /\
      forall f, dsel q f <> 0 -> owner_of (sel s4 s6 f) (dsel q f) = r_pod q /\ (ksel q f = false -> ~ In (r_pod q, f, dsel q f) held)).
Proof.
  intros Hle H r q' F Hd Hf. destruct (Hle r q' F) as (q & Fq & L). destruct L as (L1 & L2 & L3 & L4 & L5 & L6 & L7 & L8).
  destruct (H r q Fq) as (A & B & C); [congruence | auto|].
  split; [congruence|]. split; [congruence|]. intros f Hne.
  assert (Ed : dsel q' f = dsel q f) by (destruct f; cbn; assumption).
  assert (Ek : ksel q' f = ksel q f) by (destruct f; cbn; assumption).
  rewrite Ed, Ek, L1 in *. apply C. exact Hne.
Qed.
Lemma one_le reqs reqs' :
  reqs_le reqs' reqs ->
  (forall r1 q1 r2 q2, rfind r1 reqs = Some q1 -> rfind r2 reqs = Some q2 -> r_fin q1 = false -> r_fin q2 = false -> r_pod q1 = r_pod q2 -> r_pod q1 <> 0 -> r1 = r2) ->
  (forall r1 q1 r2 q2, rfind r1 reqs' = Some q1 -> rfind r2 reqs' = Some q2 -> r_fin q1 = false -> r_fin q2 = false -> r_pod q1 = r_pod q2 -> r_pod q1 <> 0 -> r1 = r2).
Proof.
  intros Hle H r1 q1 r2 q2 F1 F2 A B C D.
  destruct (Hle r1 q1 F1) as (p1 & G1 & (L1 & _ & _ & _ & _ & _ & _ & M1)).
  destruct (Hle r2 q2 F2) as (p2 & G2 & (L2 & _ & _ & _ & _ & _ & _ & M2)).
  apply (H r1 p1 r2 p2 G1 G2); auto; congruence.
Qed.
Lemma quiet_le reqs reqs' : reqs_le reqs' reqs -> quietR reqs -> quietR reqs'.
Proof.
  intros Hle H r q' F Hf. destruct (Hle r q' F) as (q & Fq & (L1 & L2 & _ & _ & _ & _ & _ & M)).
  rewrite L2. apply (H r q Fq). auto.
Qed.
(* clauses about requests, for a change of the request table alone *)
Lemma inv_reqs_le s4 s6 held reqs reqs' dw st fw eni :
  reqs_le reqs' reqs -> InvC s4 s6 held reqs dw st fw eni -> InvC s4 s6 held reqs' dw st fw eni.
Proof.
  intros Hle HI. done_inv HI.
  - eapply dir_le; eassumption.
  - eapply one_le; eassumption.
  - intros H. destruct (Hdl H) as (A & B & C). split; [exact A|]. split; [exact B|]. eapply quiet_le; eassumption.
Qed.

Lemma req_le_ctx q : req_le (set_ctx q) q. Proof. unfold req_le, set_ctx; cbn; tauto. Qed.
Lemma req_le_wd q : req_le (set_wd q) q. Proof. unfold req_le, set_wd; cbn; tauto. Qed.
Lemma req_le_fin q : req_le (set_fin q) q. Proof. unfold req_le, set_fin; cbn. repeat split; try reflexivity. discriminate. Qed.
Lemma req_le_finwd q : req_le (set_fin (set_wd q)) q. Proof. unfold req_le, set_fin, set_wd; cbn. repeat split; try reflexivity. discriminate. Qed.

(* worker_exit touches the queues and finishes the request *)
Lemma core_switch s f r : let s' := switch_f s f r in
  f_set (s_4 s') = f_set (s_4 s) /\ f_set (s_6 s') = f_set (s_6 s) /\ s_held s' = s_held s /\ s_reqs s' = s_reqs s /\
  s_dw s' = s_dw s /\ s_st s' = s_st s /\ s_fw s' = s_fw s /\ s_eni s' = s_eni s.
Proof.
  unfold switch_f. destruct (memz r (f_alloc (fget s f))); [|cbn; tauto].
  destruct (prune (s_reqs s) (f_dang (fget s f))); destruct s, f; cbn; tauto.
Qed.
Lemma inv_worker_exit s r : Inv s -> Inv (worker_exit s r).
Proof.
  intros HI. unfold worker_exit.
  pose proof (core_switch s F4 r) as H1. cbv zeta in H1.
  pose proof (core_switch (switch_f s F4 r) F6 r) as H2. cbv zeta in H2.
  set (s2 := switch_f (switch_f s F4 r) F6 r) in *.
  destruct H1 as (A1 & A2 & A3 & A4 & A5 & A6 & A7 & A8). destruct H2 as (B1 & B2 & B3 & B4 & B5 & B6 & B7 & B8).
  assert (HI2 : Inv s2) by (unfold Inv in *; rewrite B1, B2, B3, B4, B5, B6, B7, B8, A1, A2, A3, A4, A5, A6, A7, A8; exact HI).
  clearbody s2. clear -HI2. unfold mark_req. destruct (rfind r (s_reqs s2)) as [q|] eqn:F; [|exact HI2].
  unfold Inv in *. destruct s2; cbn in *. eapply inv_reqs_le; [|exact HI2]. apply (reqs_le_rput r (fun q => set_fin (set_wd q))); [exact F | apply req_le_finwd].
Qed.

Lemma inv_LCancel s r s' : Inv s -> step s (LCancel r) = Some s' -> Inv s'.
Proof.
  intros HI Hs. cbn in Hs. destruct (rfind r (s_reqs s)) as [q|] eqn:F; [|discriminate]. inversion Hs; subst; clear Hs.
  unfold mark_req. rewrite F. unfold Inv in *. destruct s; cbn in *.
  eapply inv_reqs_le; [|exact HI]. apply (reqs_le_rput r set_ctx); [exact F | apply req_le_ctx].
Qed.
Lemma inv_LWorkerCancel s r s' : Inv s -> step s (LWorkerCancel r) = Some s' -> Inv s'.
Proof. intros HI Hs. cbn in Hs. break_step Hs. inversion Hs; subst. apply inv_worker_exit, HI. Qed.
Lemma inv_LNoCacheExit s r s' : Inv s -> step s (LNoCacheExit r) = Some s' -> Inv s'.
Proof. intros HI Hs. cbn in Hs. break_step Hs. inversion Hs; subst. apply inv_worker_exit, HI. Qed.

Lemma inv_LAssignBegin s f n s' : Inv s -> step s (LAssignBegin f n) = Some s' -> Inv s'.
Proof.
  intros HI Hs. open_slot s. unfold Inv in *. cbn in Hs.
  break_step Hs; inversion Hs; subst; cbn; done_inv HI; intros a b H; discriminate.
Qed.

Lemma inv_LCreateBegin s n4 n6 s' : Inv s -> step s (LCreateBegin n4 n6) = Some s' -> Inv s'.
Proof.
  intros HI Hs. open_slot s. unfold Inv in *. cbn in Hs. break_step Hs. inversion Hs; subst; clear Hs. cbn.
  apply andb_true_iff in E0 as [E0 _]. apply andb_true_iff in E0 as [E0 _]. apply andb_true_iff in E0 as [_ Ee]. apply Z.eqb_eq in Ee.
  done_inv HI.
  - intros H. destruct (Hdl H) as (A & _). exfalso. apply (Hse A). exact Ee.
  - intros; reflexivity.
  - intros H; discriminate.
Qed.

Lemma deleting_keys_spec a s : NoDup (keys s) -> In a (deleting_keys s) -> exists e, find a s = Some e /\ e_st e = Deleting.
Proof.
  unfold deleting_keys. intros Hn H. apply in_map_iff in H as ([k e] & E & H). cbn in E; subst.
  apply filter_In in H as [H Hd]. cbn in Hd. apply ipst_eqb_eq in Hd. exists e. split; [apply In_find; assumption | exact Hd].
Qed.
Lemma subsetz_In a b x : subsetz a b = true -> In x a -> In x b.
Proof. unfold subsetz. rewrite forallb_forall. intros H Hx. apply memz_In, H, Hx. Qed.

Ltac split_andb := repeat match goal with H : _ && _ = true |- _ => apply andb_true_iff in H as [? ?] end.

Lemma inv_LUnassignBegin s f ips s' : Inv s -> step s (LUnassignBegin f ips) = Some s' -> Inv s'.
Proof.
  intros HI Hs. open_slot s. unfold Inv in *. pose proof (i_nd _ _ _ _ _ _ _ _ HI) as Hnd0.
  destruct f; cbn in Hs; break_step Hs; inversion Hs; subst; clear Hs; cbn; split_andb;
    (done_inv HI; [ intros f ips0 Hq; inversion Hq; subst; intros a Ha;
                    match goal with H1 : subsetz _ _ = true |- _ => pose proof (subsetz_In _ _ _ H1 Ha) as Hk end;
                    apply deleting_keys_spec; [apply Hnd0 | exact Hk]
                  | intros Hq; discriminate ]).
Qed.

(* a change of the address sets that keeps every owner and keeps Deleting entries Deleting *)
Lemma inv_sets_owner s4 s6 s4' s6' held reqs dw st fw eni :
  (forall f, NoDup (keys (sel s4' s6' f))) -> (forall f, set_ok (sel s4' s6' f)) ->
  (forall f a, owner_of (sel s4' s6' f) a = owner_of (sel s4 s6 f) a) ->
  (forall f a e, find a (sel s4 s6 f) = Some e -> e_st e = Deleting -> exists e', find a (sel s4' s6' f) = Some e' /\ e_st e' = Deleting) ->
  InvC s4 s6 held reqs dw st fw eni -> InvC s4' s6' held reqs dw st fw eni.
Proof.
  intros N S O D HI. done_inv HI.
  - intros p f a H. rewrite O. apply Hheld, H.
  - intros r q F Hd Hf. destruct (Hdir r q F Hd Hf) as (A & B & C). split; [exact A|]. split; [exact B|].
    intros f Hne. rewrite O. apply C, Hne.
  - intros f ips H a Ha. destruct (Hun f ips H a Ha) as (e & F & Hd). exact (D f a e F Hd).
  - intros H. destruct (Hdl H) as (A & B & C). split; [exact A|]. split; [|exact C]. intros f a. rewrite O. apply B.
Qed.

Lemma inv_LMetaSync s ok r4 r6 s' : Inv s -> step s (LMetaSync ok r4 r6) = Some s' -> Inv s'.
Proof.
  intros HI Hs. open_slot s. unfold Inv in *. cbn in HI. cbn in Hs. break_step Hs; inversion Hs; subst; clear Hs; cbn; [|exact HI].
  eapply inv_sets_owner; [| | | |exact HI].
  - intros []; cbn [sel]; rewrite keys_sync_set; [exact (i_nd _ _ _ _ _ _ _ _ HI F4) | exact (i_nd _ _ _ _ _ _ _ _ HI F6)].
  - intros []; cbn [sel]; apply set_ok_sync; [exact (i_set _ _ _ _ _ _ _ _ HI F4) | exact (i_set _ _ _ _ _ _ _ _ HI F6)].
  - intros [] a; cbn [sel]; apply owner_sync_set.
  - intros [] a e F Hd; cbn [sel] in *; rewrite find_sync_set, F; cbn [option_map]; rewrite Hd; cbn; eexists; split; reflexivity || exact Hd.
Qed.

Lemma inv_LDispose s n whole m4 m6 s' : Inv s -> step s (LDispose n whole m4 m6) = Some s' -> Inv s'.
Proof.
  intros HI Hs. open_slot s. unfold Inv in *. cbn in HI. cbn in Hs. break_step Hs; inversion Hs; subst; clear Hs; cbn.
  - (* the whole interface *)
    split_andb. destruct st; try match goal with Hm : false = true |- _ => discriminate Hm end. done_inv HI.
    + intros Hx. destruct (Hdl Hx) as (A & _). discriminate A.
    + intros a b Hx. specialize (Hcr a b Hx). discriminate Hcr.
    + intros _. match goal with Hy : negb (eni =? 0) = true |- _ => destruct (eni =? 0) eqn:Ee; [discriminate | apply Z.eqb_neq in Ee; exact Ee] end.
  - (* marks *)
    split_andb.
    pose proof (i_nd _ _ _ _ _ _ _ _ HI) as Hnd0. pose proof (i_set _ _ _ _ _ _ _ _ HI) as Hset0.
    assert (M4 : forall a, In a m4 -> exists e, find a (dispose_invalid set4) = Some e /\ e_owner e = 0 /\ e_prim e = false).
    { eapply dispose_marks_idle; [rewrite keys_dispose_invalid; exact (Hnd0 F4) | eassumption]. }
    assert (M6 : forall a, In a m6 -> exists e, find a (dispose_invalid set6) = Some e /\ e_owner e = 0 /\ e_prim e = false).
    { eapply dispose_marks_idle; [rewrite keys_dispose_invalid; exact (Hnd0 F6) | eassumption]. }
    eapply inv_sets_owner; [| | | |exact HI].
    + intros []; cbn [sel]; rewrite keys_marks, keys_dispose_invalid; [exact (Hnd0 F4) | exact (Hnd0 F6)].
    + intros []; cbn [sel]; [apply set_ok_marks; [apply set_ok_dispose_invalid; exact (Hset0 F4) | exact M4] | apply set_ok_marks; [apply set_ok_dispose_invalid; exact (Hset0 F6) | exact M6]].
    + intros [] a; cbn [sel]; rewrite owner_marks; apply owner_dispose_invalid.
    + intros [] a e F Hd; cbn [sel] in *; rewrite find_dispose_marks, find_dispose_invalid, F; cbn [option_map];
        (destruct (negb (in_use e) && negb (ipst_eqb (e_st e) Valid) && negb (e_prim e));
         [ destruct (memz a _); cbn [option_map e_prim]; [destruct (e_prim e)|]; eexists; split; reflexivity
         | destruct (memz a _); cbn [option_map]; [destruct (e_prim e)|]; eexists; split; try reflexivity; try exact Hd; reflexivity ]).
Qed.

Lemma inv_fw s4 s6 held reqs dw st fw fw' eni :
  (forall a b, fw' <> FwCreate a b) -> InvC s4 s6 held reqs dw st fw eni -> InvC s4 s6 held reqs dw st fw' eni.
Proof. intros H HI. done_inv HI. intros a b Hx. exfalso. exact (H a b Hx). Qed.

Lemma owner_put_fresh_same st prim ips s a : (forall b, In b ips -> find b s = None) -> owner_of (put_fresh st prim ips s) a = owner_of s a.
Proof.
  intros Hf. rewrite owner_put_fresh. destruct (memz a ips) eqn:E; [|reflexivity].
  apply memz_In in E. unfold owner_of. rewrite (Hf a E). reflexivity.
Qed.
Lemma find_put_fresh_keep st prim ips s a e : (forall b, In b ips -> find b s = None) -> find a s = Some e -> find a (put_fresh st prim ips s) = Some e.
Proof.
  intros Hf F. rewrite find_put_fresh. destruct (memz a ips) eqn:E; [|exact F].
  apply memz_In in E. rewrite (Hf a E) in F. discriminate.
Qed.

(* sets after a cloud answer was recorded: family f gets fresh entries *)
Lemma inv_put_fresh s4 s6 held reqs dw st fw eni f stt prim ips :
  fresh_ips ips (sel s4 s6 f) = true -> (stt = Valid \/ (stt = Deleting /\ prim = 0)) ->
  InvC s4 s6 held reqs dw st fw eni ->
  InvC (match f with F4 => put_fresh stt prim ips s4 | F6 => s4 end) (match f with F4 => s6 | F6 => put_fresh stt prim ips s6 end) held reqs dw st fw eni.
Proof.
  intros Hfr Hst HI. destruct (fresh_ips_spec _ _ Hfr) as [H0 Hnone].
  pose proof (i_nd _ _ _ _ _ _ _ _ HI) as Hnd0. pose proof (i_set _ _ _ _ _ _ _ _ HI) as Hset0.
  assert (Hok : set_ok (put_fresh stt prim ips (sel s4 s6 f))).
  { destruct Hst as [->|[-> ->]]; [apply set_ok_put_valid | apply set_ok_put_deleting; [exact H0|]]; apply Hset0. }
  eapply inv_sets_owner; [| | | |exact HI].
  - intros g; destruct f, g; cbn [sel] in *; try apply nodup_put_fresh; first [exact (Hnd0 F4) | exact (Hnd0 F6)].
  - intros g; destruct f, g; cbn [sel] in *; first [exact Hok | exact (Hset0 F4) | exact (Hset0 F6)].
  - intros g a; destruct f, g; cbn [sel] in *; try reflexivity; apply owner_put_fresh_same; exact Hnone.
  - intros g a e F Hd; destruct f, g; cbn [sel] in *; try (exists e; split; [exact F | exact Hd]);
      (exists e; split; [apply find_put_fresh_keep; assumption | exact Hd]).
Qed.

Lemma reqs_le_pop s f k : reqs_le (s_reqs (pop_f s f k)) (s_reqs s).
Proof.
  unfold pop_f. destruct ((k <? 0) || (len (f_alloc (fget s f)) <? k)); destruct s, f; cbn; apply reqs_le_cancel_nc.
Qed.
Lemma core_pop s f k : let s' := pop_f s f k in
  f_set (s_4 s') = f_set (s_4 s) /\ f_set (s_6 s') = f_set (s_6 s) /\ s_held s' = s_held s /\
  s_dw s' = s_dw s /\ s_st s' = s_st s /\ s_fw s' = s_fw s /\ s_eni s' = s_eni s.
Proof. unfold pop_f. destruct ((k <? 0) || (len (f_alloc (fget s f)) <? k)); destruct s, f; cbn; tauto. Qed.
Lemma inv_pop s f k : Inv s -> Inv (pop_f s f k).
Proof.
  intros HI. pose proof (core_pop s f k) as H. cbv zeta in H. destruct H as (A1 & A2 & A3 & A4 & A5 & A6 & A7).
  unfold Inv. rewrite A1, A2, A3, A4, A5, A6, A7. eapply inv_reqs_le; [apply reqs_le_pop | exact HI].
Qed.

Lemma inv_LAssignEnd s f ok ips code s' : Inv s -> step s (LAssignEnd f ok ips code) = Some s' -> Inv s'.
Proof.
  intros HI Hs. cbn [step] in Hs.
  assert (K : forall n next, (if fresh_ips ips (f_set (fget s f)) && (len ips <=? n)
        then (if ok
              then Some (with_fw (fset (map_set (pop_f s f (len ips)) f (put_fresh Valid 0 ips)) f
                           (ghost_assigned (fget (map_set (pop_f s f (len ips)) f (put_fresh Valid 0 ips)) f) ips)) next)
              else Some (with_fw (inhibit (fset (map_set s f (put_fresh Deleting 0 ips)) f
                           (ghost_assigned (fget (map_set s f (put_fresh Deleting 0 ips)) f) ips)) code) FwIdle))
        else None) = Some s' -> (forall a b, next <> FwCreate a b) -> Inv s').
  { intros n next Hq Hnext. destruct (fresh_ips ips (f_set (fget s f)) && (len ips <=? n)) eqn:Eg; [|discriminate].
    apply andb_true_iff in Eg as [Efr _]. destruct ok; inversion Hq; subst; clear Hq.
    - pose proof (inv_pop s f (len ips) HI) as HP. pose proof (core_pop s f (len ips)) as C. cbv zeta in C.
      set (S := pop_f s f (len ips)) in *. destruct C as (A1 & A2 & _).
      assert (Efr' : fresh_ips ips (sel (f_set (s_4 S)) (f_set (s_6 S)) f) = true) by (destruct f; cbn [sel fget] in *; [rewrite A1 | rewrite A2]; exact Efr).
      pose proof (inv_put_fresh _ _ _ _ _ _ _ _ f Valid 0 ips Efr' (or_introl eq_refl) HP) as HQ.
      clearbody S. clear -HQ Hnext. unfold Inv. destruct S as [st eni ty trunk x4 x6 inh fw dw reqs cap batch now held log], x4, x6, f; cbn in *;
        (eapply inv_fw; [exact Hnext | exact HQ]).
    - assert (Efr' : fresh_ips ips (sel (f_set (s_4 s)) (f_set (s_6 s)) f) = true) by (destruct f; exact Efr).
      pose proof (inv_put_fresh _ _ _ _ _ _ _ _ f Deleting 0 ips Efr' (or_intror (conj eq_refl eq_refl)) HI) as HQ.
      clear -HQ. unfold Inv, inhibit. destruct s as [st eni ty trunk x4 x6 inh fw dw reqs cap batch now held log], x4, x6, f; cbn in *;
        (destruct (code =? 1); [|destruct (code =? 2)]; cbn; (eapply inv_fw; [intros a b Hx; discriminate | exact HQ])). }
  destruct (s_fw s) eqn:Ef; destruct f; try discriminate Hs.
  all: try (destruct started; try discriminate Hs).
  all: eapply K; [exact Hs | intros a b; try destruct (0 <? n6); discriminate].
Qed.

Lemma inv_st s4 s6 held reqs dw st st' fw fw' eni eni' :
  dw <> DwDelete -> (forall a b, fw' = FwCreate a b -> st' = SCreating) -> (st' = SDeleting -> eni' <> 0) ->
  InvC s4 s6 held reqs dw st fw eni -> InvC s4 s6 held reqs dw st' fw' eni'.
Proof. intros Hd H1 H2 HI. done_inv HI. intros Hx. contradiction. Qed.

Lemma inv_LCreateEnd s ok eni trunk prim v4 v6 code s' : Inv s -> step s (LCreateEnd ok eni trunk prim v4 v6 code) = Some s' -> Inv s'.
Proof.
  intros HI Hs. cbn [step] in Hs. destruct (s_fw s) eqn:Ef; try discriminate.
  assert (Hdw : s_dw s <> DwDelete).
  { intros Hx. destruct (i_dl _ _ _ _ _ _ _ _ HI Hx) as (A & _). rewrite (i_cr _ _ _ _ _ _ _ _ HI _ _ Ef) in A. discriminate. }
  destruct ok.
  - match type of Hs with (if ?c then _ else _) = _ => destruct c eqn:Eg; [|discriminate] end. inversion Hs; subst; clear Hs.
    split_andb.
    assert (HI1 : Inv (with_eni s eni trunk)).
    { unfold Inv in *. destruct s; cbn in *. eapply inv_st; [exact Hdw | intros a b Hx; exact (i_cr _ _ _ _ _ _ _ _ HI a b Hx) | | exact HI].
      intros Hx. rewrite (i_cr _ _ _ _ _ _ _ _ HI _ _ Ef) in Hx. discriminate. }
    pose proof (inv_pop _ F6 n6 (inv_pop _ F4 n4 HI1)) as HP.
    pose proof (core_pop (with_eni s eni trunk) F4 n4) as C1. pose proof (core_pop (pop_f (with_eni s eni trunk) F4 n4) F6 n6) as C2. cbv zeta in C1, C2.
    set (S := pop_f (pop_f (with_eni s eni trunk) F4 n4) F6 n6) in *.
    destruct C1 as (A1 & A2 & _ & A4 & _). destruct C2 as (B1 & B2 & _ & B4 & _).
    assert (E4 : f_set (s_4 S) = f_set (s_4 s)) by (rewrite B1, A1; destruct s; reflexivity).
    assert (E6 : f_set (s_6 S) = f_set (s_6 s)) by (rewrite B2, A2; destruct s; reflexivity).
    assert (Ed : s_dw S = s_dw s) by (rewrite B4, A4; destruct s; reflexivity).
    assert (F4ok : fresh_ips v4 (sel (f_set (s_4 S)) (f_set (s_6 S)) F4) = true) by (cbn [sel]; rewrite E4; assumption).
    pose proof (inv_put_fresh _ _ _ _ _ _ _ _ F4 Valid prim v4 F4ok (or_introl eq_refl) HP) as HQ4. cbn beta iota in HQ4.
    assert (HQ4' : InvC (if prim =? 0 then f_set (s_4 S) else put_fresh Valid prim v4 (f_set (s_4 S))) (f_set (s_6 S)) (s_held S) (s_reqs S) (s_dw S) (s_st S) (s_fw S) (s_eni S))
      by (destruct (prim =? 0); [exact HP | exact HQ4]).
    assert (F6ok : fresh_ips v6 (sel (if prim =? 0 then f_set (s_4 S) else put_fresh Valid prim v4 (f_set (s_4 S))) (f_set (s_6 S)) F6) = true) by (cbn [sel]; rewrite E6; assumption).
    pose proof (inv_put_fresh _ _ _ _ _ _ _ _ F6 Valid 0 v6 F6ok (or_introl eq_refl) HQ4') as HQ6. cbn beta iota in HQ6.
    assert (Hdw' : s_dw S <> DwDelete) by (rewrite Ed; exact Hdw).
    clearbody S. clear -HQ6 Hdw'. unfold Inv.
    destruct S as [st eni0 ty trunk0 x4 x6 inh fw dw reqs cap batch now held log], x4, x6; cbn in *.
    destruct (prim =? 0); cbn; (eapply inv_st; [exact Hdw' | intros a b Hx; discriminate | intros Hx; discriminate | exact HQ6]).
  - inversion Hs; subst; clear Hs. unfold Inv in *. unfold inhibit.
    destruct s as [st eni0 ty trunk0 x4 x6 inh fw dw reqs cap batch now held log]; cbn in *.
    destruct (code =? 1); [|destruct (code =? 2)]; cbn;
      (eapply inv_st; [exact Hdw | intros a b Hx; discriminate | | exact HI]);
      (destruct (eni =? 0) eqn:Ee; [intros Hx; discriminate | intros _; apply Z.eqb_neq in Ee; exact Ee]).
Qed.

(* generic: a set change that keeps owners, together with a dispose-worker state that is neither
   in a call nor deleting (the clauses about the worker's call become vacuous) *)
Lemma inv_sets_owner_dw s4 s6 s4' s6' held reqs dw dw' st fw eni :
  (forall f, NoDup (keys (sel s4' s6' f))) -> (forall f, set_ok (sel s4' s6' f)) ->
  (forall f a, owner_of (sel s4' s6' f) a = owner_of (sel s4 s6 f) a) ->
  (forall f ips, dw' <> DwUn f ips) -> dw' <> DwDelete ->
  InvC s4 s6 held reqs dw st fw eni -> InvC s4' s6' held reqs dw' st fw eni.
Proof.
  intros N S O D1 D2 HI. done_inv HI.
  - intros p f a H. rewrite O. apply Hheld, H.
  - intros r q F Hd Hf. destruct (Hdir r q F Hd Hf) as (A & B & C). split; [exact A|]. split; [exact B|].
    intros f Hne. rewrite O. apply C, Hne.
  - intros f ips H. exfalso. exact (D1 f ips H).
  - intros H. contradiction.
Qed.

Lemma inv_LUnassignEnd s f ok effect s' : Inv s -> step s (LUnassignEnd f ok effect) = Some s' -> Inv s'.
Proof.
  intros HI Hs. open_slot s. unfold Inv in *. cbn in HI. cbn [step s_dw] in Hs. destruct dw as [| | |g ips]; try discriminate.
  pose proof (i_nd _ _ _ _ _ _ _ _ HI) as Hnd0. pose proof (i_set _ _ _ _ _ _ _ _ HI) as Hset0.
  pose proof (i_un _ _ _ _ _ _ _ _ HI g ips eq_refl) as Hun0.
  assert (Ho : forall a, In a ips -> owner_of (sel set4 set6 g) a = 0).
  { intros a Ha. destruct (Hun0 a Ha) as (e & F & Hd). unfold owner_of. rewrite F. exact (proj1 (Hset0 g a e F Hd)). }
  destruct f, g; try discriminate; cbn in Hs; inversion Hs; subst; clear Hs; destruct ok, effect; cbn;
    eapply inv_sets_owner_dw; try exact HI; try (intros f0 i0 Hx; discriminate Hx); try (intros Hx; discriminate Hx).
  all: try (intros []; cbn [sel]; try apply nodup_del_all; first [exact (Hnd0 F4) | exact (Hnd0 F6)]).
  all: try (intros []; cbn [sel]; try apply set_ok_del_all; first [exact (Hset0 F4) | exact (Hset0 F6)]).
  all: intros [] a; cbn [sel] in *; try reflexivity; rewrite owner_del_all; destruct (memz a ips) eqn:Em; try reflexivity; apply memz_In in Em; symmetry; apply Ho, Em.
Qed.

Lemma inuses_nil_owner s : inuses s = [] -> forall a, owner_of s a = 0.
Proof.
  intros H a. unfold owner_of. destruct (find a s) as [e|] eqn:F; [|reflexivity].
  apply find_In in F. destruct (e_owner e =? 0) eqn:E; [apply Z.eqb_eq in E; exact E|].
  assert (Hin : In (a, e) (inuses s)) by (unfold inuses; apply filter_In; split; [exact F | unfold in_use; cbn; rewrite E; reflexivity]).
  rewrite H in Hin. destruct Hin.
Qed.
Lemma can_dispose_owners s : can_dispose s = true -> s_eni s <> 0 ->
  forall f a, owner_of (f_set (fget s f)) a = 0.
Proof.
  unfold can_dispose. intros H He. destruct (s_eni s =? 0) eqn:E; [apply Z.eqb_eq in E; contradiction|].
  destruct ((s_ty s =? 1) || (s_ty s =? 2) || s_trunk s); [discriminate|].
  destruct (inuses (f_set (s_4 s))) eqn:E4; [|discriminate]. destruct (inuses (f_set (s_6 s))) eqn:E6; [|discriminate].
  intros [] a; cbn [fget]; apply inuses_nil_owner; assumption.
Qed.

Lemma inv_LDeleteBegin s s' : Inv s -> env_ok s LDeleteBegin -> step s LDeleteBegin = Some s' -> Inv s'.
Proof.
  intros HI He Hs. cbn [step] in Hs.
  assert (K : s_st s = SDeleting -> (if negb (s_eni s =? 0) && can_dispose s
        then Some (log_call (with_dw s DwDelete)
               (CDelete match inuses (f_set (s_4 s)) with [] => match inuses (f_set (s_6 s)) with [] => false | _ :: _ => true end | _ :: _ => true end
                        (plen s F4 + plen s F6) (s_ty s) (s_trunk s)))
        else None) = Some s' -> Inv s').
  { intros Hst Hq. destruct (negb (s_eni s =? 0) && can_dispose s) eqn:Eg; [|discriminate]. inversion Hq; subst; clear Hq.
    apply andb_true_iff in Eg as [Ee Ec]. assert (Hne : s_eni s <> 0) by (destruct (s_eni s =? 0) eqn:E; [discriminate | apply Z.eqb_neq in E; exact E]).
    pose proof (can_dispose_owners s Ec Hne) as Ho. unfold env_ok, quiet in He.
    unfold Inv in *. destruct s as [st eni ty trunk x4 x6 inh fw dw reqs cap batch now held log]; cbn in *.
    done_inv HI.
    - intros f ips Hx; discriminate.
    - intros _. split; [exact Hst|]. split; [|exact He]. intros [] a; [exact (Ho F4 a) | exact (Ho F6 a)]. }
  destruct (s_dw s) eqn:Ed; try discriminate; destruct (s_st s) eqn:Est; try discriminate; exact (K eq_refl Hs).
Qed.

Lemma inv_LDeleteEnd s ok effect s' : Inv s -> step s (LDeleteEnd ok effect) = Some s' -> Inv s'.
Proof.
  intros HI Hs. open_slot s. unfold Inv in *. cbn in HI. cbn [step s_dw] in Hs. destruct dw; try discriminate.
  destruct (i_dl _ _ _ _ _ _ _ _ HI eq_refl) as (Hst & Hown & Hq).
  destruct ok; cbn in Hs; inversion Hs; subst; clear Hs; cbn.
  - (* the interface is gone: nothing was owned, only pre-heat requests were running *)
    done_inv HI.
    + intros []; constructor.
    + intros []; apply set_ok_nil.
    + intros p f a Hx. destruct (Hheld p f a Hx) as (A & B & C). rewrite Hown in C. congruence.
    + intros r q F Hd Hf. destruct (Hdir r q F Hd Hf) as (A & B & C). specialize (Hq r q F Hf). congruence.
    + intros f ips Hx; discriminate.
    + intros Hx; discriminate.
    + intros a b Hx. specialize (Hcr a b Hx). congruence.
    + intros Hx; discriminate.
  - destruct effect; cbn; (done_inv HI; [intros f ips Hx; discriminate | intros Hx; discriminate]).
Qed.

Lemma rfind_In r q t : rfind r t = Some q -> In (r, q) t.
Proof.
  induction t as [|[k q0] t IH]; unfold rfind; fold rfind; [discriminate|].
  destruct (k =? r) eqn:E; [apply Z.eqb_eq in E; subst; intros H; inversion H; left; reflexivity | intros H; right; exact (IH H)].
Qed.
Lemma unfinished_for_false s pod : unfinished_for s pod = false -> pod <> 0 ->
  forall r q, rfind r (s_reqs s) = Some q -> r_pod q = pod -> r_fin q = true.
Proof.
  unfold unfinished_for. intros H Hp r q F Hq. destruct (pod =? 0) eqn:E; [apply Z.eqb_eq in E; contradiction|]. cbn [negb andb] in H.
  destruct (r_fin q) eqn:Ef; [reflexivity|]. exfalso.
  assert (Hex : existsb (fun p => (r_pod (snd p) =? pod) && negb (r_fin (snd p))) (s_reqs s) = true).
  { apply existsb_exists. exists (r, q). split; [apply rfind_In, F|]. cbn. rewrite Ef. apply andb_true_iff. split; [apply Z.eqb_eq, Hq | reflexivity]. }
  congruence.
Qed.

Lemma st_release a pod s b e : find b s = Some e -> exists e', find b (release a pod s) = Some e' /\ e_st e' = e_st e.
Proof.
  intros F. rewrite find_release. destruct (b =? a) eqn:E; [|exists e; split; [exact F | reflexivity]].
  apply Z.eqb_eq in E; subst. rewrite F. destruct (e_owner e =? pod); eexists; split; reflexivity.
Qed.

Lemma inv_LRelease s pod en a4 a6 s' : Inv s -> step s (LRelease pod en a4 a6) = Some s' -> Inv s'.
Proof.
  intros HI Hs. open_slot s. unfold Inv in *. cbn in HI. cbn [step s_eni] in Hs.
  match type of Hs with (if ?c then _ else _) = _ => destruct c; [|discriminate] end.
  match type of Hs with (if ?c then _ else _) = _ => destruct c eqn:Eu; [discriminate|] end.
  cbn in Eu. inversion Hs; subst; clear Hs.
  set (t4 := if a4 =? 0 then set4 else release a4 pod set4).
  set (t6 := if a6 =? 0 then set6 else release a6 pod set6).
  set (held' := filter (fun h : Z * fid * Z => negb ((fst (fst h) =? pod) && match snd (fst h) with
       | F4 => negb (a4 =? 0) && (snd h =? a4) | F6 => negb (a6 =? 0) && (snd h =? a6) end)) held).
  assert (Hgoal : InvC t4 t6 held' reqs dw st fw eni).
  { pose proof (i_nd _ _ _ _ _ _ _ _ HI) as Hnd0. pose proof (i_set _ _ _ _ _ _ _ _ HI) as Hset0.
    assert (Ow : forall f a, owner_of (sel t4 t6 f) a =
              let af := match f with F4 => a4 | F6 => a6 end in
              if negb (af =? 0) && (a =? af) && (owner_of (sel set4 set6 f) a =? pod) then 0 else owner_of (sel set4 set6 f) a).
    { intros [] a; cbn [sel]; cbv zeta; [unfold t4; destruct (a4 =? 0) eqn:E0 | unfold t6; destruct (a6 =? 0) eqn:E0]; cbn [negb andb]; try reflexivity;
        rewrite owner_release; (destruct (a =? _) eqn:E1; [apply Z.eqb_eq in E1; subst; cbn [andb]; reflexivity | reflexivity]). }
    assert (Hin : forall h, In h held' -> In h held) by (intros h Hh; unfold held' in Hh; apply filter_In in Hh; tauto).
    done_inv HI.
    - intros []; cbn [sel]; [unfold t4; destruct (a4 =? 0) | unfold t6; destruct (a6 =? 0)]; try rewrite keys_release; first [exact (Hnd0 F4) | exact (Hnd0 F6)].
    - intros []; cbn [sel]; [unfold t4; destruct (a4 =? 0) | unfold t6; destruct (a6 =? 0)]; try apply set_ok_release; first [exact (Hset0 F4) | exact (Hset0 F6)].
    - intros p f a Hh. unfold held' in Hh. apply filter_In in Hh as [Hh Hc]. destruct (Hheld p f a Hh) as (A & B & C).
      split; [exact A|]. split; [exact B|]. rewrite Ow. cbv zeta. rewrite C.
      destruct (negb (match f with F4 => a4 | F6 => a6 end =? 0) && (a =? match f with F4 => a4 | F6 => a6 end) && (p =? pod)) eqn:Ec; [|reflexivity].
      exfalso. cbn in Hc. apply andb_true_iff in Ec as [Ec Ep]. apply andb_true_iff in Ec as [E0 Ea]. rewrite Ep in Hc. destruct f; rewrite E0, Ea in Hc; discriminate.
    - intros r q F Hd Hf. destruct (Hdir r q F Hd Hf) as (A & B & C). split; [exact A|]. split; [exact B|].
      intros f Hne. destruct (C f Hne) as (C1 & C2). split; [|intros Hk Hx; exact (C2 Hk (Hin _ Hx))].
      rewrite Ow. cbv zeta. rewrite C1.
      destruct (r_pod q =? pod) eqn:Ep; [|rewrite andb_false_r; reflexivity].
      apply Z.eqb_eq in Ep. exfalso.
      assert (Hfin := unfinished_for_false (mkSlot st eni ty trunk (mkFam on4 set4 al4 dg4 cl4 gone4 un4) (mkFam on6 set6 al6 dg6 cl6 gone6 un6) inh fw dw reqs cap batch now held log) pod Eu).
      cbn in Hfin. rewrite (Hfin ltac:(congruence) r q F Ep) in Hf. discriminate.
    - intros f ips Hx a Ha. destruct (Hun f ips Hx a Ha) as (e & F & Hd).
      destruct f; cbn [sel] in *; [unfold t4; destruct (a4 =? 0) | unfold t6; destruct (a6 =? 0)]; try (exists e; split; assumption);
        [destruct (st_release a4 pod _ _ _ F) as (e' & F' & Es) | destruct (st_release a6 pod _ _ _ F) as (e' & F' & Es)]; (exists e'; split; [exact F' | congruence]).
    - intros Hx. destruct (Hdl Hx) as (A & B & C). split; [exact A|]. split; [|exact C]. intros f a. rewrite Ow. cbv zeta. rewrite B.
      destruct (_ && _ && _); reflexivity. }
  clear -Hgoal. subst t4 t6 held'. destruct (a4 =? 0), (a6 =? 0); cbn; exact Hgoal.
Qed.

Lemma alloc_kind_deleting s pod nc pin erdma : s_st s = SDeleting -> exists k, alloc_kind s pod nc pin erdma = KReject k.
Proof. intros H. unfold alloc_kind. destruct (negb (Bool.eqb erdma (s_ty s =? 2))); [eexists; reflexivity|]. rewrite H. eexists; reflexivity. Qed.

Lemma inv_add_req s4 s6 held reqs dw st fw eni r q :
  rfind r reqs = None -> r_fin q = false -> r_direct q = false ->
  (r_pod q <> 0 -> forall r' q', rfind r' reqs = Some q' -> r_pod q' = r_pod q -> r_fin q' = true) ->
  dw <> DwDelete ->
  InvC s4 s6 held reqs dw st fw eni -> InvC s4 s6 held (rput r q reqs) dw st fw eni.
Proof.
  intros Hn Hf Hd Hu Hdw HI. done_inv HI.
  - intros r0 q0. rewrite rfind_rput. destruct (r =? r0) eqn:E; [intros Hx; inversion Hx; subst; congruence | apply Hdir].
  - intros r1 q1 r2 q2. rewrite !rfind_rput. destruct (r =? r1) eqn:E1; destruct (r =? r2) eqn:E2.
    + apply Z.eqb_eq in E1, E2. congruence.
    + intros H1 H2 A B C D. inversion H1; subst. rewrite (Hu D r2 q2 H2 (eq_sym C)) in B. discriminate.
    + intros H1 H2 A B C D. inversion H2; subst. assert (D' : r_pod q2 <> 0) by congruence. rewrite (Hu D' r1 q1 H1 C) in A. discriminate.
    + apply Hone.
  - intros Hx. contradiction.
Qed.

Lemma inv_LAllocEnqueue s r pod nc pin erdma s' : Inv s -> step s (LAllocEnqueue r pod nc pin erdma) = Some s' -> Inv s'.
Proof.
  intros HI Hs. cbn [step] in Hs. destruct (alloc_kind s pod nc pin erdma) eqn:Ek; try discriminate.
  destruct (rfind r (s_reqs s)) eqn:Er; [discriminate|]. destruct (unfinished_for s pod) eqn:Eu; [discriminate|].
  inversion Hs; subst; clear Hs.
  assert (Hdw : s_dw s <> DwDelete).
  { intros Hx. destruct (i_dl _ _ _ _ _ _ _ _ HI Hx) as (A & _). destruct (alloc_kind_deleting s pod nc pin erdma A) as [k Hk]. congruence. }
  assert (HQ : InvC (f_set (s_4 s)) (f_set (s_6 s)) (s_held s) (rput r (new_req pod nc false 0 0 false false) (s_reqs s)) (s_dw s) (s_st s) (s_fw s) (s_eni s)).
  { apply inv_add_req; try assumption; try reflexivity. cbn. intros Hp r' q' F Hq. exact (unfinished_for_false s pod Eu Hp r' q' F Hq). }
  clear -HQ. unfold Inv. destruct (adm_prune_shape s pod nc) as [a4' [a6' Eh]]. rewrite Eh. clear Eh.
  destruct s as [st eni ty trunk x4 x6 inh fw dw reqs cap batch now held log], x4, x6, e4, e6; cbn in *; exact HQ.
Qed.

(* ---- primitive changes of ownership ---------------------------------------------------------- *)
Definition upd_sel (s4 s6 : iset) (f : fid) (g : iset -> iset) : iset * iset :=
  match f with F4 => (g s4, s6) | F6 => (s4, g s6) end.

Lemma put_same a e s : find a s = Some e -> put a e s = s.
Proof.
  induction s as [|[k e0] r IH]; unfold find; fold find; unfold put; fold put; [discriminate|].
  destruct (k =? a) eqn:E; [apply Z.eqb_eq in E; subst; intros H; inversion H; reflexivity | intros H; f_equal; exact (IH H)].
Qed.
Lemma set_owner_same a pod s : owner_of s a = pod -> a <> 0 -> (exists e, find a s = Some e) -> set_owner a pod s = s.
Proof.
  intros Ho _ [e F]. unfold set_owner. rewrite F. unfold owner_of in Ho. rewrite F in Ho. subst. destruct e; cbn. apply put_same. exact F.
Qed.

Definition no_direct_of (reqs : rtab) (pod : Z) : Prop :=
  forall r q, rfind r reqs = Some q -> r_fin q = false -> r_direct q = true -> r_pod q <> pod.

Lemma inv_set_owner_at s4 s6 held reqs dw st fw eni f c pod e :
  find c (sel s4 s6 f) = Some e -> ((e_owner e = pod /\ pod <> 0) \/ (e_st e = Valid /\ e_owner e = 0)) ->
  no_direct_of reqs pod -> dw <> DwDelete ->
  InvC s4 s6 held reqs dw st fw eni ->
  InvC (fst (upd_sel s4 s6 f (set_owner c pod))) (snd (upd_sel s4 s6 f (set_owner c pod))) held reqs dw st fw eni.
Proof.
  intros F Hp Hnd0 Hdw HI.
  pose proof (i_nd _ _ _ _ _ _ _ _ HI) as N. pose proof (i_set _ _ _ _ _ _ _ _ HI) as S.
  assert (Ow : forall g a, owner_of (sel (fst (upd_sel s4 s6 f (set_owner c pod))) (snd (upd_sel s4 s6 f (set_owner c pod))) g) a =
                           if fid_eqb f g && (a =? c) then pod else owner_of (sel s4 s6 g) a).
  { intros g a. destruct f, g; cbn [upd_sel fst snd sel fid_eqb andb] in *; try reflexivity; rewrite owner_set_owner, F; destruct (a =? c); reflexivity. }
  assert (Hc : owner_of (sel s4 s6 f) c = e_owner e) by (unfold owner_of; rewrite F; reflexivity).
  done_inv HI.
  - intros g. destruct f, g; cbn [upd_sel fst snd sel]; try rewrite keys_set_owner; first [exact (N F4) | exact (N F6)].
  - intros g. destruct f, g; cbn [upd_sel fst snd sel] in *; try (first [exact (S F4) | exact (S F6)]);
      (apply set_ok_set_owner; [first [exact (S F4) | exact (S F6)]|]; intros e1 F1 Hd1; rewrite F in F1; inversion F1; subst e1;
       destruct Hp as [[A B]|[A B]]; [first [destruct (S F4 _ _ F Hd1) as [O _] | destruct (S F6 _ _ F Hd1) as [O _]]; congruence | congruence]).
  - intros p g a Hh. destruct (Hheld p g a Hh) as (A & B & C). split; [exact A|]. split; [exact B|]. rewrite Ow.
    destruct (fid_eqb f g && (a =? c)) eqn:Ec; [|exact C]. apply andb_true_iff in Ec as [Ef Ea].
    destruct (fid_eqb_spec f g) as [<-|]; [|discriminate]. apply Z.eqb_eq in Ea; subst a. rewrite Hc in C.
    destruct Hp as [[P1 P2]|[P1 P2]]; congruence.
  - intros r q Fq Hd Hf. destruct (Hdir r q Fq Hd Hf) as (A & B & C). split; [exact A|]. split; [exact B|].
    intros g Hne. destruct (C g Hne) as (C1 & C2). split; [|exact C2]. rewrite Ow.
    destruct (fid_eqb f g && (dsel q g =? c)) eqn:Ec; [|exact C1]. apply andb_true_iff in Ec as [Ef Ea].
    destruct (fid_eqb_spec f g) as [<-|]; [|discriminate]. apply Z.eqb_eq in Ea. rewrite Ea, Hc in C1.
    exfalso. destruct Hp as [[P1 P2]|[P1 P2]]; [apply (Hnd0 r q Fq Hf Hd); congruence | congruence].
  - intros g ips Hx a Ha. destruct (Hun g ips Hx a Ha) as (e1 & F1 & Hd1).
    destruct f, g; cbn [upd_sel fst snd sel] in *; try (exists e1; split; assumption);
      (rewrite find_set_owner; destruct (a =? c) eqn:Ea; [apply Z.eqb_eq in Ea; subst a; rewrite F in *; inversion F1; subst e1; eexists; split; [reflexivity | exact Hd1] | exists e1; split; assumption]).
  - intros Hx; contradiction.
Qed.

Lemma inv_release_at s4 s6 held reqs dw st fw eni f c pod :
  ~ In (pod, f, c) held -> no_direct_of reqs pod ->
  InvC s4 s6 held reqs dw st fw eni ->
  InvC (fst (upd_sel s4 s6 f (release c pod))) (snd (upd_sel s4 s6 f (release c pod))) held reqs dw st fw eni.
Proof.
  intros Hnh Hnd0 HI.
  pose proof (i_nd _ _ _ _ _ _ _ _ HI) as N. pose proof (i_set _ _ _ _ _ _ _ _ HI) as S.
  assert (Ow : forall g a, owner_of (sel (fst (upd_sel s4 s6 f (release c pod))) (snd (upd_sel s4 s6 f (release c pod))) g) a =
                           if fid_eqb f g && (a =? c) && (owner_of (sel s4 s6 g) a =? pod) then 0 else owner_of (sel s4 s6 g) a).
  { intros g a. destruct f, g; cbn [upd_sel fst snd sel fid_eqb andb] in *; try reflexivity; rewrite owner_release;
      (destruct (a =? c) eqn:Ea; [apply Z.eqb_eq in Ea; subst a; cbn [andb]; reflexivity | reflexivity]). }
  done_inv HI.
  - intros g. destruct f, g; cbn [upd_sel fst snd sel]; try rewrite keys_release; first [exact (N F4) | exact (N F6)].
  - intros g. destruct f, g; cbn [upd_sel fst snd sel]; try apply set_ok_release; first [exact (S F4) | exact (S F6)].
  - intros p g a Hh. destruct (Hheld p g a Hh) as (A & B & C). split; [exact A|]. split; [exact B|]. rewrite Ow, C.
    destruct (fid_eqb f g && (a =? c) && (p =? pod)) eqn:Ec; [|reflexivity]. exfalso.
    apply andb_true_iff in Ec as [Ec Ep]. apply andb_true_iff in Ec as [Ef Ea].
    destruct (fid_eqb_spec f g) as [<-|]; [|discriminate]. apply Z.eqb_eq in Ea, Ep. subst. exact (Hnh Hh).
  - intros r q Fq Hd Hf. destruct (Hdir r q Fq Hd Hf) as (A & B & C). split; [exact A|]. split; [exact B|].
    intros g Hne. destruct (C g Hne) as (C1 & C2). split; [|exact C2]. rewrite Ow, C1.
    destruct (r_pod q =? pod) eqn:Ep; [|rewrite andb_false_r; reflexivity]. apply Z.eqb_eq in Ep. exfalso. exact (Hnd0 r q Fq Hf Hd Ep).
  - intros g ips Hx a Ha. destruct (Hun g ips Hx a Ha) as (e1 & F1 & Hd1).
    destruct f, g; cbn [upd_sel fst snd sel] in *; try (exists e1; split; assumption);
      (destruct (st_release c pod _ _ _ F1) as (e' & F' & Es); exists e'; split; [exact F' | congruence]).
  - intros Hx. destruct (Hdl Hx) as (A & B & C). split; [exact A|]. split; [|exact C]. intros g a. rewrite Ow, B. destruct (_ && _ && _); reflexivity.
Qed.

Lemma inv_add_held s4 s6 held reqs dw st fw eni f c pod :
  pod <> 0 -> c <> 0 -> owner_of (sel s4 s6 f) c = pod -> no_direct_of reqs pod ->
  InvC s4 s6 held reqs dw st fw eni -> InvC s4 s6 ((pod, f, c) :: held) reqs dw st fw eni.
Proof.
  intros Hp Hc Ho Hnd0 HI. done_inv HI.
  - intros p g a [Hx|Hx]; [inversion Hx; subst; tauto | exact (Hheld p g a Hx)].
  - intros r q Fq Hd Hf. destruct (Hdir r q Fq Hd Hf) as (A & B & C). split; [exact A|]. split; [exact B|].
    intros g Hne. destruct (C g Hne) as (C1 & C2). split; [exact C1|]. intros Hk [Hx|Hx]; [|exact (C2 Hk Hx)].
    injection Hx as E1 E2 E3. exact (Hnd0 r q Fq Hf Hd (eq_sym E1)).
Qed.

Lemma inv_add_req_gen s4 s6 held reqs dw st fw eni r q :
  rfind r reqs = None -> r_fin q = false ->
  (r_direct q = true ->
      r_pod q <> 0 /\ r_nc q = false /\
      forall f, dsel q f <> 0 -> owner_of (sel s4 s6 f) (dsel q f) = r_pod q /\ (ksel q f = false -> ~ In (r_pod q, f, dsel q f) held)) ->
  (r_pod q <> 0 -> forall r' q', rfind r' reqs = Some q' -> r_pod q' = r_pod q -> r_fin q' = true) ->
  dw <> DwDelete ->
  InvC s4 s6 held reqs dw st fw eni -> InvC s4 s6 held (rput r q reqs) dw st fw eni.
Proof.
  intros Hn Hf Hd Hu Hdw HI. done_inv HI.
  - intros r0 q0. rewrite rfind_rput. destruct (r =? r0) eqn:E; [intros Hx; inversion Hx; subst; intros A _; exact (Hd A) | apply Hdir].
  - intros r1 q1 r2 q2. rewrite !rfind_rput. destruct (r =? r1) eqn:E1; destruct (r =? r2) eqn:E2.
    + apply Z.eqb_eq in E1, E2. congruence.
    + intros H1 H2 A B C D. inversion H1; subst. rewrite (Hu D r2 q2 H2 (eq_sym C)) in B. discriminate.
    + intros H1 H2 A B C D. inversion H2; subst. assert (D' : r_pod q2 <> 0) by congruence. rewrite (Hu D' r1 q1 H1 C) in A. discriminate.
    + apply Hone.
  - intros Hx. contradiction.
Qed.

Lemma no_direct_from_unfinished s pod : unfinished_for s pod = false -> pod <> 0 -> no_direct_of (s_reqs s) pod.
Proof. intros Hu Hp r q F Hf _ Hq. rewrite (unfinished_for_false s pod Hu Hp r q F Hq) in Hf. discriminate. Qed.

Lemma owner_after_set_owner s c pod e : find c s = Some e -> owner_of (set_owner c pod s) c = pod.
Proof. intros F. rewrite owner_set_owner, Z.eqb_refl, F. reflexivity. Qed.

Lemma held_by_false_not_held s4 s6 held reqs dw st fw eni f c pod :
  InvC s4 s6 held reqs dw st fw eni -> held_by (sel s4 s6 f) c pod = false -> c <> 0 -> pod <> 0 -> ~ In (pod, f, c) held.
Proof.
  intros HI Hk Hc Hp Hin. destruct (i_held _ _ _ _ _ _ _ _ HI pod f c Hin) as (_ & _ & Ho).
  unfold held_by in Hk. unfold owner_of in Ho.
  destruct (c =? 0) eqn:E1; [apply Z.eqb_eq in E1; contradiction|]. destruct (pod =? 0) eqn:E2; [apply Z.eqb_eq in E2; contradiction|].
  cbn [negb andb] in Hk. destruct (find c (sel s4 s6 f)) as [e|]; [|congruence]. rewrite Ho, Z.eqb_refl in Hk. discriminate.
Qed.

Lemma inv_LAllocDirect s r pod pin erdma c4 c6 s' : Inv s -> step s (LAllocDirect r pod pin erdma c4 c6) = Some s' -> Inv s'.
Proof.
  intros HI Hs. cbn [step] in Hs. destruct (alloc_kind s pod false pin erdma) eqn:Ek; try discriminate.
  destruct (rfind r (s_reqs s)) eqn:Er; [discriminate|].
  destruct (unfinished_for s pod || (pod =? 0)) eqn:Eu; [discriminate|]. apply orb_false_iff in Eu as [Eu Ep]. apply Z.eqb_neq in Ep.
  match type of Hs with (if ?c then _ else _) = _ => destruct c eqn:Eok; [|discriminate] end. inversion Hs; subst; clear Hs.
  apply andb_true_iff in Eok as [Ok4 Ok6].
  assert (Hdw : s_dw s <> DwDelete).
  { intros Hx. destruct (i_dl _ _ _ _ _ _ _ _ HI Hx) as (A & _). destruct (alloc_kind_deleting s pod false pin erdma A) as [k Hk]. congruence. }
  pose proof (no_direct_from_unfinished s pod Eu Ep) as Hnd0.
  open_slot s. unfold Inv in *. cbn in HI, Hdw, Hnd0, Er, Ok4, Ok6 |- *.
  (* family 4 *)
  assert (P4 : c4 = 0 \/ (c4 <> 0 /\ exists e, find c4 set4 = Some e /\ ((e_owner e = pod /\ pod <> 0) \/ (e_st e = Valid /\ e_owner e = 0)))).
  { destruct on4; [|left; apply Z.eqb_eq, Ok4]. apply andb_true_iff in Ok4 as [A B]. right.
    assert (Hc : c4 <> 0) by (destruct (c4 =? 0) eqn:E; [discriminate | apply Z.eqb_neq, E]). split; [exact Hc|]. destruct (peek_ok_entry _ _ _ Hc B) as (e & F & [[X Y]|[X Y]]); exists e; (split; [exact F|]); [left | right]; split; assumption. }
  assert (P6 : c6 = 0 \/ (c6 <> 0 /\ exists e, find c6 set6 = Some e /\ ((e_owner e = pod /\ pod <> 0) \/ (e_st e = Valid /\ e_owner e = 0)))).
  { destruct on6; [|left; apply Z.eqb_eq, Ok6]. apply andb_true_iff in Ok6 as [A B]. right.
    assert (Hc : c6 <> 0) by (destruct (c6 =? 0) eqn:E; [discriminate | apply Z.eqb_neq, E]). split; [exact Hc|]. destruct (peek_ok_entry _ _ _ Hc B) as (e & F & [[X Y]|[X Y]]); exists e; (split; [exact F|]); [left | right]; split; assumption. }
  set (t4 := if c4 =? 0 then set4 else set_owner c4 pod set4).
  set (t6 := if c6 =? 0 then set6 else set_owner c6 pod set6).
  assert (H1 : InvC t4 set6 held reqs dw st fw eni).
  { unfold t4. destruct P4 as [->|(Hc & e & F & Hp)]; [exact HI|]. destruct (c4 =? 0) eqn:E; [apply Z.eqb_eq in E; contradiction|].
    exact (inv_set_owner_at _ _ _ _ _ _ _ _ F4 c4 pod e F Hp Hnd0 Hdw HI). }
  assert (H2 : InvC t4 t6 held reqs dw st fw eni).
  { unfold t6. destruct P6 as [->|(Hc & e & F & Hp)]; [exact H1|]. destruct (c6 =? 0) eqn:E; [apply Z.eqb_eq in E; contradiction|].
    exact (inv_set_owner_at _ _ _ _ _ _ _ _ F6 c6 pod e F Hp Hnd0 Hdw H1). }
  assert (HQ : InvC t4 t6 held (rput r (new_req pod false true c4 c6 (held_by set4 c4 pod) (held_by set6 c6 pod)) reqs) dw st fw eni).
  { apply inv_add_req_gen; try assumption; try reflexivity.
    - intros _. cbn. split; [exact Ep|]. split; [reflexivity|]. intros [] Hne; cbn [dsel ksel new_req r_d4 r_d6 r_k4 r_k6 r_pod sel] in *.
      + destruct P4 as [->|(Hc & e & F & Hp)]; [contradiction|]. split.
        * unfold t4. destruct (c4 =? 0) eqn:E; [apply Z.eqb_eq in E; contradiction|]. eapply owner_after_set_owner; exact F.
        * intros Hk. exact (held_by_false_not_held _ _ _ _ _ _ _ _ F4 c4 pod HI Hk Hc Ep).
      + destruct P6 as [->|(Hc & e & F & Hp)]; [contradiction|]. split.
        * unfold t6. destruct (c6 =? 0) eqn:E; [apply Z.eqb_eq in E; contradiction|]. eapply owner_after_set_owner; exact F.
        * intros Hk. exact (held_by_false_not_held _ _ _ _ _ _ _ _ F6 c6 pod HI Hk Hc Ep).
    - cbn. intros _ r' q' F Hq.
      exact (unfinished_for_false (mkSlot st eni ty trunk (mkFam on4 set4 al4 dg4 cl4 gone4 un4) (mkFam on6 set6 al6 dg6 cl6 gone6 un6) inh fw dw reqs cap batch now held log) pod Eu Ep r' q' F Hq). }
  clear -HQ. subst t4 t6. destruct (c4 =? 0), (c6 =? 0); cbn; exact HQ.
Qed.

Lemma owner_nonzero_find s a : owner_of s a <> 0 -> exists e, find a s = Some e.
Proof. unfold owner_of. destruct (find a s) as [e|]; [intros _; exists e; reflexivity | intros H; contradiction]. Qed.

Lemma no_direct_after_fin reqs r q : rfind r reqs = Some q -> r_fin q = false -> r_pod q <> 0 ->
  (forall r1 q1 r2 q2, rfind r1 reqs = Some q1 -> rfind r2 reqs = Some q2 -> r_fin q1 = false -> r_fin q2 = false -> r_pod q1 = r_pod q2 -> r_pod q1 <> 0 -> r1 = r2) ->
  no_direct_of (rput r (set_fin q) reqs) (r_pod q).
Proof.
  intros F Hf Hp Hone r' q'. rewrite rfind_rput. destruct (r =? r') eqn:E.
  - intros Hx; inversion Hx; subst. cbn. discriminate.
  - intros F' Hf' _ Hq. apply Z.eqb_neq in E. apply E. exact (Hone r q r' q' F F' Hf Hf' (eq_sym Hq) Hp).
Qed.

Lemma inv_LCommit s r deliver s' : Inv s -> step s (LCommit r deliver) = Some s' -> Inv s'.
Proof.
  intros HI Hs. cbn [step] in Hs. destruct (rfind r (s_reqs s)) as [q|] eqn:F; [|discriminate].
  match type of Hs with (if ?c then _ else _) = _ => destruct c eqn:Eg; [|discriminate] end. inversion Hs; subst; clear Hs.
  apply andb_true_iff in Eg as [Eg _]. apply andb_true_iff in Eg as [Hd Hf]. apply negb_true_iff in Hf.
  destruct (i_dir _ _ _ _ _ _ _ _ HI r q F Hd Hf) as (Hp & Hnc & Hdq).
  open_slot s. unfold Inv in *. cbn in HI, F, Hdq |- *.
  pose proof (i_one _ _ _ _ _ _ _ _ HI) as Hone0.
  set (pod := r_pod q) in *. set (d4 := r_d4 q) in *. set (d6 := r_d6 q) in *.
  (* the repeated Allocate(podID) in commit changes nothing: the entries are the pod's already *)
  assert (U4 : (if d4 =? 0 then set4 else set_owner d4 pod set4) = set4).
  { destruct (d4 =? 0) eqn:E; [reflexivity|]. apply Z.eqb_neq in E. destruct (Hdq F4 E) as (O & _). change (owner_of set4 d4 = pod) in O.
    apply set_owner_same; [exact O | exact E | apply owner_nonzero_find; rewrite O; exact Hp]. }
  assert (U6 : (if d6 =? 0 then set6 else set_owner d6 pod set6) = set6).
  { destruct (d6 =? 0) eqn:E; [reflexivity|]. apply Z.eqb_neq in E. destruct (Hdq F6 E) as (O & _). change (owner_of set6 d6 = pod) in O.
    apply set_owner_same; [exact O | exact E | apply owner_nonzero_find; rewrite O; exact Hp]. }
  (* the request finishes *)
  assert (H1 : InvC set4 set6 held (rput r (set_fin q) reqs) dw st fw eni).
  { eapply inv_reqs_le; [|exact HI]. apply (reqs_le_rput r set_fin); [exact F | apply req_le_fin]. }
  pose proof (no_direct_after_fin reqs r q F Hf Hp Hone0) as Hnd0. fold pod in Hnd0.
  destruct deliver.
  - (* delivered: the pod now holds the addresses *)
    assert (H2 : InvC set4 set6 ((if (d6 =? 0) || (pod =? 0) then [] else [(pod, F6, d6)]) ++ held) (rput r (set_fin q) reqs) dw st fw eni).
    { destruct ((d6 =? 0) || (pod =? 0)) eqn:E; [exact H1|]. apply orb_false_iff in E as [E _]. apply Z.eqb_neq in E. cbn [app].
      apply inv_add_held; try assumption. exact (proj1 (Hdq F6 E)). }
    assert (H3 : InvC set4 set6 ((if (d4 =? 0) || (pod =? 0) then [] else [(pod, F4, d4)]) ++ (if (d6 =? 0) || (pod =? 0) then [] else [(pod, F6, d6)]) ++ held) (rput r (set_fin q) reqs) dw st fw eni).
    { destruct ((d4 =? 0) || (pod =? 0)) eqn:E; [exact H2|]. apply orb_false_iff in E as [E _]. apply Z.eqb_neq in E. cbn [app].
      apply inv_add_held; try assumption. exact (proj1 (Hdq F4 E)). }
    clear -H3 U4 U6 F. unfold commit, mark_req. cbn.
    destruct (d4 =? 0) eqn:E4; destruct (d6 =? 0) eqn:E6; cbn in *; rewrite ?U4, ?U6, ?F; cbn; rewrite ?U4, ?U6; exact H3.
  - (* rolled back: what this request took is released; what the pod held before stays *)
    set (v4 := if (d4 =? 0) || r_k4 q then set4 else release d4 pod set4).
    set (v6 := if (d6 =? 0) || r_k6 q then set6 else release d6 pod set6).
    assert (H2 : InvC v4 set6 held (rput r (set_fin q) reqs) dw st fw eni).
    { unfold v4. destruct ((d4 =? 0) || r_k4 q) eqn:E; [exact H1|]. apply orb_false_iff in E as [E Ek]. apply Z.eqb_neq in E.
      refine (inv_release_at _ _ _ _ _ _ _ _ F4 d4 pod _ Hnd0 H1). exact (proj2 (Hdq F4 E) Ek). }
    assert (H3 : InvC v4 v6 held (rput r (set_fin q) reqs) dw st fw eni).
    { unfold v6. destruct ((d6 =? 0) || r_k6 q) eqn:E; [exact H2|]. apply orb_false_iff in E as [E Ek]. apply Z.eqb_neq in E.
      refine (inv_release_at _ _ _ _ _ _ _ _ F6 d6 pod _ Hnd0 H2). exact (proj2 (Hdq F6 E) Ek). }
    clear -H3 U4 U6 F. subst v4 v6. unfold commit, mark_req. cbn.
    destruct (d4 =? 0) eqn:E4; destruct (d6 =? 0) eqn:E6; destruct (r_k4 q); destruct (r_k6 q); cbn in *; rewrite ?U4, ?U6, ?F; cbn; rewrite ?U4, ?U6; exact H3.
Qed.

Lemma inv_LWorkerTake s r c4 c6 deliver s' : Inv s -> step s (LWorkerTake r c4 c6 deliver) = Some s' -> Inv s'.
Proof.
  intros HI Hs. cbn [step] in Hs. destruct (rfind r (s_reqs s)) as [q|] eqn:F; [|discriminate].
  match type of Hs with (if ?c then _ else _) = _ => destruct c eqn:Eg; [|discriminate] end. inversion Hs; subst; clear Hs.
  apply inv_worker_exit.
  apply andb_true_iff in Eg as [Eg Ok6]. apply andb_true_iff in Eg as [Eg Ok4]. apply andb_true_iff in Eg as [Eg _].
  apply andb_true_iff in Eg as [Eg Hf]. apply andb_true_iff in Eg as [Hd Hnc]. apply negb_true_iff in Hf, Hd, Hnc.
  assert (Hdw : s_dw s <> DwDelete).
  { intros Hx. destruct (i_dl _ _ _ _ _ _ _ _ HI Hx) as (_ & _ & Q). specialize (Q r q F Hf). congruence. }
  assert (Hnd0 : no_direct_of (s_reqs s) (r_pod q)).
  { intros r' q' F' Hf' Hd' Hq. destruct (i_dir _ _ _ _ _ _ _ _ HI r' q' F' Hd' Hf') as (Hp' & _).
    assert (r = r') by (apply (i_one _ _ _ _ _ _ _ _ HI r q r' q' F F' Hf Hf'); congruence). subst r'. congruence. }
  open_slot s. unfold Inv in *. cbn in HI, F, Hdw, Hnd0, Ok4, Ok6 |- *.
  set (pod := r_pod q) in *.
  assert (P4 : c4 = 0 \/ (c4 <> 0 /\ exists e, find c4 set4 = Some e /\ ((e_owner e = pod /\ pod <> 0) \/ (e_st e = Valid /\ e_owner e = 0)))).
  { destruct on4; [|left; apply Z.eqb_eq, Ok4]. apply andb_true_iff in Ok4 as [A B]. right.
    assert (Hc : c4 <> 0) by (destruct (c4 =? 0) eqn:E; [discriminate | apply Z.eqb_neq, E]). split; [exact Hc|].
    destruct (peek_ok_entry _ _ _ Hc B) as (e & Fe & [[X Y]|[X Y]]); exists e; (split; [exact Fe|]); [left | right]; split; assumption. }
  assert (P6 : c6 = 0 \/ (c6 <> 0 /\ exists e, find c6 set6 = Some e /\ ((e_owner e = pod /\ pod <> 0) \/ (e_st e = Valid /\ e_owner e = 0)))).
  { destruct on6; [|left; apply Z.eqb_eq, Ok6]. apply andb_true_iff in Ok6 as [A B]. right.
    assert (Hc : c6 <> 0) by (destruct (c6 =? 0) eqn:E; [discriminate | apply Z.eqb_neq, E]). split; [exact Hc|].
    destruct (peek_ok_entry _ _ _ Hc B) as (e & Fe & [[X Y]|[X Y]]); exists e; (split; [exact Fe|]); [left | right]; split; assumption. }
  set (t4 := if c4 =? 0 then set4 else set_owner c4 pod set4).
  set (t6 := if c6 =? 0 then set6 else set_owner c6 pod set6).
  assert (H1 : InvC t4 set6 held reqs dw st fw eni).
  { unfold t4. destruct P4 as [->|(Hc & e & Fe & Hp)]; [exact HI|]. destruct (c4 =? 0) eqn:E; [apply Z.eqb_eq in E; contradiction|].
    exact (inv_set_owner_at _ _ _ _ _ _ _ _ F4 c4 pod e Fe Hp Hnd0 Hdw HI). }
  assert (H2 : InvC t4 t6 held reqs dw st fw eni).
  { unfold t6. destruct P6 as [->|(Hc & e & Fe & Hp)]; [exact H1|]. destruct (c6 =? 0) eqn:E; [apply Z.eqb_eq in E; contradiction|].
    exact (inv_set_owner_at _ _ _ _ _ _ _ _ F6 c6 pod e Fe Hp Hnd0 Hdw H1). }
  assert (O4 : c4 <> 0 -> owner_of t4 c4 = pod).
  { intros Hc. destruct P4 as [->|(_ & e & Fe & _)]; [contradiction|]. unfold t4. destruct (c4 =? 0) eqn:E; [apply Z.eqb_eq in E; contradiction|]. eapply owner_after_set_owner; exact Fe. }
  assert (O6 : c6 <> 0 -> owner_of t6 c6 = pod).
  { intros Hc. destruct P6 as [->|(_ & e & Fe & _)]; [contradiction|]. unfold t6. destruct (c6 =? 0) eqn:E; [apply Z.eqb_eq in E; contradiction|]. eapply owner_after_set_owner; exact Fe. }
  destruct deliver.
  - assert (H3 : InvC t4 t6 ((if (c6 =? 0) || (pod =? 0) then [] else [(pod, F6, c6)]) ++ held) reqs dw st fw eni).
    { destruct ((c6 =? 0) || (pod =? 0)) eqn:E; [exact H2|]. apply orb_false_iff in E as [E E0]. apply Z.eqb_neq in E, E0. cbn [app].
      apply inv_add_held; try assumption. exact (O6 E). }
    assert (H4 : InvC t4 t6 ((if (c4 =? 0) || (pod =? 0) then [] else [(pod, F4, c4)]) ++ (if (c6 =? 0) || (pod =? 0) then [] else [(pod, F6, c6)]) ++ held) reqs dw st fw eni).
    { destruct ((c4 =? 0) || (pod =? 0)) eqn:E; [exact H3|]. apply orb_false_iff in E as [E E0]. apply Z.eqb_neq in E, E0. cbn [app].
      apply inv_add_held; try assumption. exact (O4 E). }
    clear -H4. subst t4 t6. unfold commit. cbn. destruct (c4 =? 0), (c6 =? 0); cbn; exact H4.
  - assert (NH : forall f c, c <> 0 -> held_by (sel set4 set6 f) c pod = false -> ~ In (pod, f, c) held).
    { intros f c Hc Hk Hin. destruct (i_held _ _ _ _ _ _ _ _ HI pod f c Hin) as (Hp & _). exact (held_by_false_not_held _ _ _ _ _ _ _ _ f c pod HI Hk Hc Hp Hin). }
    set (v4 := if (c4 =? 0) || held_by set4 c4 pod then t4 else release c4 pod t4).
    set (v6 := if (c6 =? 0) || held_by set6 c6 pod then t6 else release c6 pod t6).
    assert (H3 : InvC v4 t6 held reqs dw st fw eni).
    { unfold v4. destruct ((c4 =? 0) || held_by set4 c4 pod) eqn:E; [exact H2|]. apply orb_false_iff in E as [E Ek]. apply Z.eqb_neq in E.
      exact (inv_release_at _ _ _ _ _ _ _ _ F4 c4 pod (NH F4 c4 E Ek) Hnd0 H2). }
    assert (H4 : InvC v4 v6 held reqs dw st fw eni).
    { unfold v6. destruct ((c6 =? 0) || held_by set6 c6 pod) eqn:E; [exact H3|]. apply orb_false_iff in E as [E Ek]. apply Z.eqb_neq in E.
      exact (inv_release_at _ _ _ _ _ _ _ _ F6 c6 pod (NH F6 c6 E Ek) Hnd0 H3). }
    clear -H4. subst v4 v6 t4 t6. unfold commit. cbn.
    destruct (c4 =? 0), (c6 =? 0), (held_by set4 c4 pod), (held_by set6 c6 pod); cbn; exact H4.
Qed.

(* ---- every label preserves the invariant ----------------------------------------------------- *)
Theorem inv_step s l s' : Inv s -> env_ok s l -> step s l = Some s' -> Inv s'.
Proof.
  intros HI He Hs. destruct l.
  - eapply inv_nochange; [exact HI | exact Hs | exact I].
  - eapply inv_LAllocDirect; eassumption.
  - eapply inv_LAllocEnqueue; eassumption.
  - eapply inv_LCommit; eassumption.
  - eapply inv_LWorkerTake; eassumption.
  - eapply inv_LWorkerCancel; eassumption.
  - eapply inv_LNoCacheExit; eassumption.
  - eapply inv_LCancel; eassumption.
  - eapply inv_nochange; [exact HI | exact Hs | exact I].
  - eapply inv_nochange; [exact HI | exact Hs | exact I].
  - eapply inv_nochange; [exact HI | exact Hs | exact I].
  - eapply inv_nochange; [exact HI | exact Hs | exact I].
  - eapply inv_LCreateBegin; eassumption.
  - eapply inv_LCreateEnd; eassumption.
  - eapply inv_LAssignBegin; eassumption.
  - eapply inv_LAssignEnd; eassumption.
  - eapply inv_LDispose; eassumption.
  - eapply inv_LUnassignBegin; eassumption.
  - eapply inv_LUnassignEnd; eassumption.
  - eapply inv_LDeleteBegin; eassumption.
  - eapply inv_LDeleteEnd; eassumption.
  - eapply inv_LMetaSync; eassumption.
  - eapply inv_LRelease; eassumption.
  - eapply inv_nochange; [exact HI | exact Hs | exact I].
  - eapply inv_nochange; [exact HI | exact Hs | exact I].
Qed.

(* a run all of whose labels satisfy the environment hypothesis *)
Fixpoint run_env (s : slot) (ls : list label) : Prop :=
  match ls with
  | [] => True
  | l :: r => env_ok s l /\ match step s l with Some s' => run_env s' r | None => True end
  end.
Theorem inv_run ls : forall s s', Inv s -> run_env s ls -> run s ls = Some s' -> Inv s'.
Proof.
  induction ls as [|l r IH]; intros s s' HI He Hr; cbn [run run_env] in *; [inversion Hr; subst; exact HI|].
  destruct He as [He1 He2]. destruct (step s l) as [s1|] eqn:Es; [|discriminate].
  exact (IH s1 s' (inv_step s l s1 HI He1 Es) He2 Hr).
Qed.
