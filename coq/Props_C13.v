(* Props_C13.v — property C13 (the programmed datapath routes pod traffic as intended and is fully removed).
   Proved for the policy-route veth datapath (the one the kernel of this sandbox can run: veth pairs stand in for
   ENIs); the ipvlan, exclusive-ENI and vlan datapaths are judged by the clauses on their generators' output only
   (their link types do not exist here) — the level of this property is partial. *)
From Coq Require Import ZArith List Bool.
From TV Require Import DpModel DpProofs DpProofs2 DpProofs3.
Import ListNotations.
Local Open Scope Z_scope.

(* after a setup — from EVERY state of the host namespace, stale rules and routes of an earlier holder of the address
   included — the kernel's lookup delivers traffic for the pod's address to the pod's veth, and sends traffic sourced
   from it out of the interface that owns the address via that interface's gateway; for IPv4, IPv6 and dual stack *)
Theorem c13_setup_routes_as_intended_partial : forall s a j fam h g f,
  eni_gen h j = Some g -> In f (famlist fam) -> (fam = 1 \/ fam = 2 \/ fam = 3) ->
  look_to (setup s a j fam h) f a = 100 + s /\ look_from (setup s a j fam h) f a = (200 + j, gw_of j).
Proof. exact setup_lookups. Qed.
Print Assumptions c13_setup_routes_as_intended_partial.

(* a setup changes no rule of another address *)
Theorem c13_setup_spares_others_partial : forall s a j fam h r, hr_src r <> a -> hr_dst r <> a ->
  (In r (h_rules (setup s a j fam h)) <-> In r (h_rules h)).
Proof. intros s a j fam h r Hs Hd. apply setup_spares_other_rules. apply other_address_foreign; assumption. Qed.
Print Assumptions c13_setup_spares_others_partial.

(* a teardown leaves no rule of the pod's address, no veth, no route through it ... *)
Theorem c13_teardown_removes_all_partial : forall s a fam h,
  (forall r, In r (h_rules (teardown s a fam h)) -> pod_rule fam a r = false) /\
  ~ In s (h_veths (teardown s a fam h)) /\
  (forall m, In m (h_mains (teardown s a fam h)) -> snd m <> 100 + s).
Proof. exact teardown_clean. Qed.
Print Assumptions c13_teardown_removes_all_partial.

(* ... and touches nothing that belongs to another pod: every other rule, veth, host route and table is as before *)
Theorem c13_teardown_spares_others_partial : forall s a fam h,
  (forall r, pod_rule fam a r = false -> (In r (h_rules (teardown s a fam h)) <-> In r (h_rules h))) /\
  (forall v, v <> s -> (In v (h_veths (teardown s a fam h)) <-> In v (h_veths h))) /\
  (forall m, snd m <> 100 + s -> (In m (h_mains (teardown s a fam h)) <-> In m (h_mains h))) /\
  h_tabs (teardown s a fam h) = h_tabs h.
Proof. exact teardown_others. Qed.
Print Assumptions c13_teardown_spares_others_partial.

(* the pod's side: exactly one default route per enabled family in its main table when a default route is asked for,
   none otherwise and none for a family that is not enabled, whatever the extra routes *)
Theorem c13_one_default_route_partial : forall g li f, 0 <= li -> (f = 4 \/ f = 6) ->
  length (filter (is_def f) (flat_map (cont_routes_fam g li) (fams g) ++ map (extra_route li) (g_extra g))) =
  if (if f =? 4 then g_on4 g else g_on6 g) && g_def g then 1%nat else 0%nat.
Proof. exact cont_one_default. Qed.
Print Assumptions c13_one_default_route_partial.

(* the ipvlan datapath's pod side (its generator is compared field by field with DpModel.ipvlan_cont_cfg): a pod on a
   trunk member interface holds host addresses only, and there is exactly one default route per enabled family *)
Theorem c13_ipvlan_trunk_host_addresses_partial : forall g, g_strip g = true ->
  Forall (fun a => match a with [f; _; l] => l = maxlen f | _ => False end) (ipvlan_addrs g).
Proof. exact ipvlan_trunk_host_addresses. Qed.
Print Assumptions c13_ipvlan_trunk_host_addresses_partial.
Theorem c13_ipvlan_one_default_route_partial : forall g li f, 0 <= li -> (f = 4 \/ f = 6) ->
  length (filter (is_def f) (ipvlan_routes g li)) = if (if f =? 4 then g_on4 g else g_on6 g) && g_def g then 1%nat else 0%nat.
Proof. exact ipvlan_one_default. Qed.
Print Assumptions c13_ipvlan_one_default_route_partial.

(* non-vacuity: pod in slot 1 with address 11 on interface 1 loses its sandbox without a DEL (its rules stay behind);
   the address is handed to slot 2 on interface 2: the stale from-rule is replaced, not shadowing the new one *)
(* the exclusive-interface and the vlan container configurations (own_cont_cfg, compared field by field with
   generateContCfgForExclusiveENI / generateContCfgForVlan on every generated configuration): exactly one default route per
   enabled family in the main table when one is asked for, none otherwise *)
Theorem c13_own_interface_one_default_route_partial : forall vlan g li f, 0 <= li -> (f = 4 \/ f = 6) ->
  length (filter (is_def f) (own_routes vlan g li ++ map (extra_route li) (g_extra g))) =
  if (if f =? 4 then g_on4 g else g_on6 g) && g_def g then 1%nat else 0%nat.
Proof.
  intros vlan g li f Hli Hf. rewrite filter_app, extra_not_default, app_nil_r. exact (own_one_default vlan g li f Hli Hf).
Qed.
Print Assumptions c13_own_interface_one_default_route_partial.

Example c13_ex :
  let h := setup 2 11 2 1 (drop_veth 1 (setup 1 11 1 1 init_h)) in
  look_to h 4 11 = 102 /\ look_from h 4 11 = (202, gw_of 2) /\
  length (filter (fun r => (hr_prio r =? 2048) && (hr_src r =? 11)) (h_rules h)) = 1%nat.
Proof. vm_compute. auto. Qed.
