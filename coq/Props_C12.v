(* Props_C12.v — property C12 stated against C12Model (and C14Model for the gateway). *)
From Coq Require Import NArith ZArith List Bool.
From TV Require Import Bits Codec C14Model C12Model C12Proofs.
Import ListNotations.
Local Open Scope Z_scope.

(* every returned configuration list names exactly one default-route interface, contains the
   pod's primary interface and keeps every entry *)
Theorem c12_default_route_unique : forall l l',
  l <> [] -> default_for_netconf l = Some l' ->
  count_default l' = 1%nat /\ existsb (fun c => is_primary (n_if c)) l' = true /\ map n_if l' = map n_if l.
Proof. exact default_ok. Qed.
Print Assumptions c12_default_route_unique.

(* and a list is refused exactly when it has two default routes or no primary interface *)
Theorem c12_default_route_errors : forall l,
  default_for_netconf l = None <->
  l <> [] /\ ((2 <= count_default l)%nat \/ existsb (fun c => is_primary (n_if c)) l = false).
Proof. exact default_err. Qed.
Print Assumptions c12_default_route_errors.

(* PodENI / CRD results: the gateway is the subnet's third-from-last address, inside the subnet,
   and differs from the pod address unless the pod sits on that reserved address (E2) *)
Theorem c12_gateway : forall w f g,
  f_has f = true -> fam_gw w f = Some (Some g) ->
  (Z.to_N (f_plen f) <= w)%N -> (f_net f < 2 ^ w)%N ->
  let plen := Z.to_N (f_plen f) in
  (g + 2 = last_addr w (f_net f) plen)%N /\ N.land g (mask w plen) = net_base w (f_net f) plen /\
  (net_base w (f_net f) plen < g)%N /\
  ((f_ip f + 2)%N <> last_addr w (f_net f) plen -> g <> f_ip f).
Proof. exact remote_gateway. Qed.
Print Assumptions c12_gateway.

(* one datapath for every configuration: total on the three IP types, a function of nothing but
   (IP type, VLAN mode, trunking) — the latter by its very type *)
Theorem c12_datapath_function : forall t v tr, 0 <= t <= 2 -> get_datapath t v tr <> None.
Proof. exact get_datapath_total. Qed.
Print Assumptions c12_datapath_function.

(* limits: the runtime's positive rate (bits -> bytes) overrides, per direction, else the daemon's *)
Theorem c12_limits : forall has_pod dv rt,
  (0 < rt -> limit has_pod dv rt = rt / 8) /\ (rt <= 0 -> limit has_pod dv rt = if has_pod then dv else 0).
Proof. exact limit_spec. Qed.
Print Assumptions c12_limits.

(* the daemon's side of the cluster IPAM (crdv2.go multiIP): the addresses it answers with are bound to the pod in the Node
   record — a valid entry with the pod's name and not another instance's uid, on an attached interface — and the interface
   whose CIDR yields subnet and gateway is an attached one of the record *)
Theorem c12_crd_answer_is_bound : forall es r4 r6 re,
  crd_walk es 1 (None, None, None) = (r4, r6, re) ->
  (forall a, r4 = Some a -> bound4 es a) /\ (forall a, r6 = Some a -> bound6 es a) /\
  (forall j e, re = Some (j, e) -> In e es /\ ce_inuse e = true).
Proof. exact crd_pick_is_bound. Qed.
Print Assumptions c12_crd_answer_is_bound.

Example c12_ex :
  default_for_netconf [{| n_if := 2; n_dr := false |}; {| n_if := 1; n_dr := false |}]
  = Some [{| n_if := 2; n_dr := false |}; {| n_if := 1; n_dr := true |}]
  /\ default_for_netconf [{| n_if := 2; n_dr := true |}; {| n_if := 1; n_dr := true |}] = None
  /\ default_for_netconf [{| n_if := 2; n_dr := true |}] = None.
Proof. vm_compute. repeat split; reflexivity. Qed.
