(* Props_C15.v — property C15 for the terway-authored glue that the model covers
   (parseBandwidth with Go's slicing rule).  encoding/json, yaml, strconv and the
   apimachinery quantity parser are library code: exercised by the harness, not proved. *)
From Coq Require Import ZArith List Bool.
From TV Require Import Codec C15Model C15Proofs.
Import ListNotations.
Local Open Scope Z_scope.

(* every byte string: rejected or accepted, never a panic (the slice index is in range) *)
Theorem c15_no_panic_parse_bandwidth : forall s, parse_bandwidth s <> Panic.
Proof. exact parse_bandwidth_no_panic. Qed.
Print Assumptions c15_no_panic_parse_bandwidth.

(* a positive value written without a unit is accepted, with its own value *)
Theorem c15_bandwidth_unitless_ok : forall d v,
  d <> [] -> all_digits d = true -> digits_val 0 d = Some v -> 0 < v < float_overflow -> parse_bandwidth d = Ok v.
Proof. exact bandwidth_unitless_ok. Qed.
Print Assumptions c15_bandwidth_unitless_ok.

(* a clean decimal followed by a unit gets that unit's multiple ... *)
Theorem c15_bandwidth_with_unit : forall num b u m j k,
  num <> [] -> clean_num num = true -> upper_unit (b :: u) = true ->
  parse_decimal num = Some (m, j) -> 0 < m -> unit_mult (b :: u) = Some k ->
  parse_bandwidth (num ++ b :: u) = Ok (bw_value m j k).
Proof. exact bandwidth_with_unit. Qed.
Print Assumptions c15_bandwidth_with_unit.

(* ... and the multiples grow with the unit: B <= K <= M <= G <= T *)
Theorem c15_bandwidth_monotone : forall m j,
  0 <= m ->
  bw_value m j 1 <= bw_value m j 1024 /\ bw_value m j 1024 <= bw_value m j 1048576 /\
  bw_value m j 1048576 <= bw_value m j 1073741824 /\ bw_value m j 1073741824 <= bw_value m j 1099511627776.
Proof. intros m j Hm. repeat split; apply bw_value_monotone; try exact Hm; split; discriminate || (intros H; discriminate H) || idtac.
  all: try (cbv; congruence). Qed.
Print Assumptions c15_bandwidth_monotone.

Example c15_ex : parse_bandwidth [49;48;48;48] = Ok 1000 /\ parse_bandwidth [49;46;53;109] = Ok 1572864
              /\ parse_bandwidth [109] = Err /\ parse_bandwidth [32] = Err.
Proof. vm_compute. repeat split; reflexivity. Qed.
