(* C17Model.v — pkg/vswitch/vswitch.go: SwitchPool.GetOne / GetByID / Block over an expiring
   cache (LRUExpireCache; its size bound 100 is hypothesis E9 and not modelled) and the VPC API
   as an oracle table.  Policy: 0 ordered (also the unset policy), 1 most, 2 random.
   Random shuffling (on a copy of the caller's list, as repaired by the fix: commit) and the
   unstable sort's ties are resolved by the observed result, validated against the legal set.
   Definitions only. *)
From Coq Require Import ZArith List Bool.
From TV Require Import Codec.
Import ListNotations.
Local Open Scope Z_scope.

Record entry := { e_zone : Z; e_free : Z }.
Record centry := { c_id : Z; c_e : entry; c_exp : Z }.
Definition cache := list centry.
Definition api := list (Z * option entry).   (* id -> DescribeVSwitchByID answer; None/absent = error *)

Record st := { now : Z; ttl : Z; cch : cache; ap : api }.

Fixpoint api_get (a : api) (id : Z) : option entry :=
  match a with
  | [] => None
  | (i, r) :: a' => if i =? id then r else api_get a' id
  end.

(* LRUExpireCache.Get: an entry whose expiry is before now is dropped *)
Fixpoint cache_get (t : Z) (c : cache) (id : Z) : option entry :=
  match c with
  | [] => None
  | e :: c' => if c_id e =? id then (if c_exp e <? t then None else Some (c_e e)) else cache_get t c' id
  end.
Definition cache_del (c : cache) (id : Z) : cache := filter (fun e => negb (c_id e =? id)) c.
Definition cache_add (c : cache) (id : Z) (e : entry) (exp : Z) : cache :=
  {| c_id := id; c_e := e; c_exp := exp |} :: cache_del c id.

(* GetByID: (what the caller sees, new cache, whether the API was asked) *)
Definition get_by_id (s : st) (c : cache) (id : Z) : option entry * cache * bool :=
  match cache_get (now s) c id with
  | Some e => (Some e, c, false)
  | None => match api_get (ap s) id with
            | Some e => (Some e, cache_add c id e (now s + ttl s), true)
            | None => (None, c, true)
            end
  end.

Definition view (s : st) (c : cache) (id : Z) : option entry :=
  match cache_get (now s) c id with Some e => Some e | None => api_get (ap s) id end.

Definition eligible_in (zone : Z) (e : entry) : bool := (e_zone e =? zone) && negb (e_free e =? 0).
Definition eligible_fb (zone : Z) (ignore : bool) (e : entry) : bool :=
  ignore && negb (e_zone e =? zone) && negb (e_free e =? 0).

(* ordered walk: stop at the first in-zone candidate with free addresses; remember fallbacks *)
Fixpoint walk (s : st) (zone : Z) (ignore : bool) (ids : list Z) (c : cache) (fetched fb : list Z)
  : option Z * cache * list Z * list Z :=
  match ids with
  | [] => (None, c, fetched, fb)
  | id :: r =>
      let '(oe, c', f) := get_by_id s c id in
      let fetched' := if f then fetched ++ [id] else fetched in
      match oe with
      | Some e => if eligible_in zone e then (Some id, c', fetched', fb)
                  else walk s zone ignore r c' fetched' (if eligible_fb zone ignore e then fb ++ [id] else fb)
      | None => walk s zone ignore r c' fetched' fb
      end
  end.

(* visit every id (first pass of 'most'; complete walk of 'random' that found nothing) *)
Fixpoint visit_all (s : st) (ids : list Z) (c : cache) (fetched : list Z) : cache * list Z :=
  match ids with
  | [] => (c, fetched)
  | id :: r => let '(_, c', f) := get_by_id s c id in
               visit_all s r c' (if f then fetched ++ [id] else fetched)
  end.

Definition free_of (s : st) (c : cache) (id : Z) : Z :=
  match view s c id with Some e => e_free e | None => 0 end.
Definition cands (s : st) (c : cache) (p : entry -> bool) (ids : list Z) : list Z :=
  filter (fun id => match view s c id with Some e => p e | None => false end) ids.
Definition is_max (s : st) (c : cache) (l : list Z) (id : Z) : bool :=
  forallb (fun x => free_of s c x <=? free_of s c id) l.
Definition mem (x : Z) (l : list Z) : bool := existsb (Z.eqb x) l.

(* pick among candidates: the observed one if legal, else the first legal one *)
Definition pick (legal : list Z) (obs : Z) : option Z :=
  if mem obs legal then Some obs else hd_error legal.

Record getone_out := { g_res : option Z; g_fetched : list Z; g_ids_after : list Z }.

Definition get_one (s : st) (zone : Z) (ids : list Z) (policy : Z) (ignore : bool)
           (obs : Z) (obs_fetched : list Z) : st * getone_out :=
  let mk c res f := ({| now := now s; ttl := ttl s; cch := c; ap := ap s |},
                     {| g_res := res; g_fetched := f; g_ids_after := ids |}) in
  if policy =? 1 then
    (* most: read everything, sort by free descending (ties arbitrary), then walk: all hits *)
    let '(c1, f1) := visit_all s ids (cch s) [] in
    let inz := cands s c1 (eligible_in zone) ids in
    let fbs := cands s c1 (eligible_fb zone ignore) ids in
    let res := match inz with
               | _ :: _ => pick (filter (is_max s c1 inz) inz) obs
               | [] => pick (filter (is_max s c1 fbs) fbs) obs
               end in
    mk c1 res f1
  else if policy =? 2 then
    (* random: any in-zone candidate; if none, the walk was complete and a fallback is legal *)
    let inz := cands s (cch s) (eligible_in zone) ids in
    match inz with
    | _ :: _ =>
        let okf := forallb (fun f => mem f ids && match cache_get (now s) (cch s) f with None => true | Some _ => false end) obs_fetched in
        let fl := if okf then obs_fetched else [] in
        let c1 := fold_left (fun c f => match api_get (ap s) f with
                                        | Some e => cache_add c f e (now s + ttl s) | None => c end) fl (cch s) in
        mk c1 (pick inz obs) fl
    | [] =>
        let '(c1, f1) := visit_all s ids (cch s) [] in
        let fbs := cands s c1 (eligible_fb zone ignore) ids in
        mk c1 (pick fbs obs) (if list_eqb (map (fun x => if mem x f1 then 1 else 0) obs_fetched)
                                          (map (fun _ => 1) f1) then obs_fetched else f1)
    end
  else
    let '(res, c1, f1, fb) := walk s zone ignore ids (cch s) [] [] in
    mk c1 (match res with Some r => Some r | None => hd_error fb end) f1.

(* Block: only if the id is cached (and not expired): free := 0, expiry renewed *)
Definition block (s : st) (id : Z) : st :=
  match cache_get (now s) (cch s) id with
  | Some e => {| now := now s; ttl := ttl s;
                 cch := cache_add (cch s) id {| e_zone := e_zone e; e_free := 0 |} (now s + ttl s); ap := ap s |}
  | None => {| now := now s; ttl := ttl s; cch := cache_del (cch s) id; ap := ap s |}
  end.

Definition advance (s : st) (dt : Z) : st := {| now := now s + dt; ttl := ttl s; cch := cch s; ap := ap s |}.
Definition set_api (s : st) (id : Z) (r : option entry) : st :=
  {| now := now s; ttl := ttl s; cch := cch s; ap := (id, r) :: ap s |}.
