(* C12Proofs.v *)
From Coq Require Import NArith ZArith List Bool Lia.
From Coq Require Import ZifyBool ZifyN ZifyNat.
From TV Require Import Bits Codec C14Model C14Proofs C12Model.
Import ListNotations.
Local Open Scope Z_scope.

Lemma dup_default_spec l : forall seen,
  dup_default seen l = true <-> ((seen = true /\ 1 <= count_default l)%nat \/ (2 <= count_default l)%nat).
Proof.
  unfold count_default. induction l as [|c r IH]; intros seen; cbn [dup_default filter length].
  - split; [discriminate | intros [[_ H]|H]; lia].
  - rewrite orb_true_iff, IH, andb_true_iff. destruct (n_dr c); cbn [length orb]; destruct seen; cbn [orb]; split; intros H;
      repeat match goal with H : _ \/ _ |- _ => destruct H | H : _ /\ _ |- _ => destruct H end; try discriminate; try lia;
      try (left; split; [reflexivity | lia]); try (right; lia);
      try (right; left; split; [reflexivity | lia]); try (right; right; lia).
    all: try (destruct (length (filter n_dr r)) as [|[|n]] eqn:E; try lia;
              try (right; left; split; [reflexivity|lia]); try (right; right; lia)).
Qed.

Lemma set_first_primary_count l :
  existsb n_dr l = false -> existsb (fun c => is_primary (n_if c)) l = true ->
  count_default (set_first_primary l) = 1%nat.
Proof.
  unfold count_default. induction l as [|c r IH]; cbn [existsb set_first_primary]; [discriminate|].
  intros Hd Hp. apply orb_false_iff in Hd as [Hc Hr].
  destruct (is_primary (n_if c)) eqn:E; cbn [filter n_dr].
  - cbn [length]. f_equal. clear -Hr. induction r as [|x r IH]; [reflexivity|]. cbn [existsb filter] in *.
    apply orb_false_iff in Hr as [Hx Hr]. rewrite Hx. exact (IH Hr).
  - rewrite Hc. apply IH; [exact Hr | exact Hp].
Qed.

Lemma set_first_primary_ifs l : map n_if (set_first_primary l) = map n_if l.
Proof. induction l as [|c r IH]; [reflexivity|]. cbn [set_first_primary]. destruct (is_primary (n_if c)); cbn [map n_if]; [reflexivity | rewrite IH; reflexivity]. Qed.

Lemma count_zero_iff l : existsb n_dr l = false <-> count_default l = 0%nat.
Proof. unfold count_default. induction l as [|c r IH]; cbn [existsb filter]; [tauto|].
  destruct (n_dr c); cbn [orb length]; [split; [discriminate | lia] | exact IH]. Qed.

(* a returned configuration names exactly one default-route interface and contains the primary one *)
Lemma default_ok l l' :
  l <> [] -> default_for_netconf l = Some l' ->
  count_default l' = 1%nat /\ existsb (fun c => is_primary (n_if c)) l' = true /\ map n_if l' = map n_if l.
Proof.
  intros Hne. unfold default_for_netconf. destruct l as [|c0 r0] eqn:El; [congruence|]. rewrite <- El in *. clear El Hne.
  destruct (dup_default false l) eqn:Ed; [discriminate|].
  destruct (existsb (fun c => is_primary (n_if c)) l) eqn:Ep; cbn [negb]; [|discriminate].
  assert (Hle : (count_default l <= 1)%nat).
  { destruct (Nat.le_gt_cases (count_default l) 1) as [H|H]; [exact H|].
    assert (dup_default false l = true) by (apply dup_default_spec; right; lia). congruence. }
  destruct (existsb n_dr l) eqn:Ex; intros H; inversion H; subst.
  - split; [|split; [exact Ep | reflexivity]].
    destruct (count_default l') as [|[|n]] eqn:Ec; try lia. apply count_zero_iff in Ec. congruence.
  - split; [apply set_first_primary_count; assumption|]. split; [|apply set_first_primary_ifs].
    clear -Ep. induction l as [|c r IH]; [discriminate|]. cbn [existsb set_first_primary] in *.
    destruct (is_primary (n_if c)) eqn:E; cbn [existsb n_if]; [rewrite E; reflexivity | rewrite E; cbn [orb] in *; exact (IH Ep)].
Qed.

(* it is refused exactly for a duplicate default route or a missing primary interface *)
Lemma default_err l :
  default_for_netconf l = None <->
  l <> [] /\ ((2 <= count_default l)%nat \/ existsb (fun c => is_primary (n_if c)) l = false).
Proof.
  unfold default_for_netconf. destruct l as [|c0 r0] eqn:El; [split; [discriminate | intros [H _]; congruence]|]. rewrite <- El.
  assert (Hne : l <> []) by (rewrite El; discriminate).
  destruct (dup_default false l) eqn:Ed.
  - apply dup_default_spec in Ed as [[H _]|H]; [discriminate|]. split; [intros _; split; [exact Hne | left; exact H] | reflexivity].
  - assert (Hlt : ~ (2 <= count_default l)%nat).
    { intros H. assert (dup_default false l = true) by (apply dup_default_spec; right; exact H). congruence. }
    destruct (existsb (fun c => is_primary (n_if c)) l) eqn:Ep; cbn [negb].
    + destruct (existsb n_dr l); split; try discriminate; intros [_ [H|H]]; [contradiction | discriminate | contradiction | discriminate].
    + split; [intros _; split; [exact Hne | right; reflexivity] | reflexivity].
Qed.

(* ---- gateway of a PodENI allocation ---------------------------------------------------- *)
Local Open Scope N_scope.
Lemma fam_gw_spec w f g :
  f_has f = true -> fam_gw w f = Some (Some g) ->
  (0 <= f_plen f)%Z /\ get_ip_at_neg3 w (f_net f) (Z.to_N (f_plen f)) = Some g.
Proof.
  unfold fam_gw. intros -> . destruct (f_plen f <? 0)%Z eqn:E; [discriminate|].
  destruct (get_ip_at_neg3 _ _ _) as [x|]; [|discriminate]. intros H; inversion H; subst. split; [lia | reflexivity].
Qed.

Lemma remote_gateway w f g :
  f_has f = true -> fam_gw w f = Some (Some g) ->
  Z.to_N (f_plen f) <= w -> f_net f < 2 ^ w ->
  let plen := Z.to_N (f_plen f) in
  (* third-from-last address of the subnet, inside it, not the network address *)
  g + 2 = last_addr w (f_net f) plen /\ N.land g (mask w plen) = net_base w (f_net f) plen /\
  net_base w (f_net f) plen < g /\
  (* and not the pod's address, unless the pod sits on the reserved third-from-last address *)
  (f_ip f + 2 <> last_addr w (f_net f) plen -> g <> f_ip f).
Proof.
  intros Hh Hg Hp Hn. destruct (fam_gw_spec w f g Hh Hg) as [_ Hget]. cbv zeta.
  rewrite (gateway_correct w (f_net f) _ Hp Hn) in Hget.
  destruct (gateway_inside w (f_net f) _ g Hp Hn Hget) as (H1 & H2 & H3).
  repeat split; try assumption. intros Hip ->. apply Hip. exact H2.
Qed.
Local Close Scope N_scope.

Lemma get_datapath_total t v tr : 0 <= t <= 2 -> get_datapath t v tr <> None.
Proof. intros H. unfold get_datapath. destruct (t =? 0) eqn:E0; [discriminate|]. destruct (t =? 1) eqn:E1; [discriminate|].
  assert (t =? 2 = true) as -> by lia. discriminate. Qed.

Lemma limit_spec has_pod dv rt :
  (0 < rt -> limit has_pod dv rt = rt / 8) /\ (rt <= 0 -> limit has_pod dv rt = if has_pod then dv else 0).
Proof. unfold limit. split; intros H; [assert (0 <? rt = true) as -> by lia | assert (0 <? rt = false) as -> by lia]; reflexivity. Qed.

(* ---- the daemon's side of the cluster IPAM (crdv2.go multiIP) ------------------------------------------- *)
(* what the walk returns is bound to the pod in the record: a valid entry carrying the pod's name and not another uid,
   on an attached interface *)
Definition bound4 (es : list cif) (a : N) : Prop :=
  exists e i, In e es /\ ce_inuse e = true /\ In i (ce_v4 e) /\ ip_match i = true /\ ci_addr i = a.
Definition bound6 (es : list cif) (a : N) : Prop :=
  exists e i, In e es /\ ce_inuse e = true /\ In i (ce_v6 e) /\ ip_match i = true /\ ci_addr i = a.

Lemma last_match_in l a : last_match l = Some a -> exists i, In i l /\ ip_match i = true /\ ci_addr i = a.
Proof.
  unfold last_match. destruct (rev (filter ip_match l)) as [|i r] eqn:E; [discriminate|]. intros H; inversion H; subst.
  assert (Hin : In i (rev (filter ip_match l))) by (rewrite E; left; reflexivity).
  apply in_rev in Hin. apply filter_In in Hin. destruct Hin as [Hi Hm]. exists i. auto.
Qed.

Lemma crd_walk_sound all : forall es idx a4 a6 ae r4 r6 re,
  (forall x, In x es -> In x all) ->
  (forall a, a4 = Some a -> bound4 all a) -> (forall a, a6 = Some a -> bound6 all a) ->
  (forall j e, ae = Some (j, e) -> In e all /\ ce_inuse e = true) ->
  crd_walk es idx (a4, a6, ae) = (r4, r6, re) ->
  (forall a, r4 = Some a -> bound4 all a) /\ (forall a, r6 = Some a -> bound6 all a) /\
  (forall j e, re = Some (j, e) -> In e all /\ ce_inuse e = true).
Proof.
  induction es as [|e r IH]; intros idx a4 a6 ae r4 r6 re Hsub H4 H6 He Hw; cbn [crd_walk] in Hw.
  - inversion Hw; subst. auto.
  - destruct (ce_inuse e) eqn:Eu.
    + eapply IH; [| | | |exact Hw].
      * intros x Hx. apply Hsub. right. exact Hx.
      * intros a Ha. destruct (last_match (ce_v4 e)) as [m|] eqn:Em.
        -- inversion Ha; subst. destruct (last_match_in _ _ Em) as [i [Hi [Hm Hadr]]]. exists e, i. repeat split; try assumption. apply Hsub. left. reflexivity.
        -- apply H4. exact Ha.
      * intros a Ha. destruct (last_match (ce_v6 e)) as [m|] eqn:Em.
        -- inversion Ha; subst. destruct (last_match_in _ _ Em) as [i [Hi [Hm Hadr]]]. exists e, i. repeat split; try assumption. apply Hsub. left. reflexivity.
        -- apply H6. exact Ha.
      * intros j e0 Hj. destruct (last_match (ce_v4 e)), (last_match (ce_v6 e)); try (inversion Hj; subst; split; [apply Hsub; left; reflexivity | exact Eu]).
        apply (He j e0 Hj).
    + eapply IH; [| | | |exact Hw]; try assumption. intros x Hx. apply Hsub. right. exact Hx.
Qed.

Theorem crd_pick_is_bound es r4 r6 re :
  crd_walk es 1 (None, None, None) = (r4, r6, re) ->
  (forall a, r4 = Some a -> bound4 es a) /\ (forall a, r6 = Some a -> bound6 es a) /\
  (forall j e, re = Some (j, e) -> In e es /\ ce_inuse e = true).
Proof.
  intros H. eapply (crd_walk_sound es es 1 None None None); try exact H; try (intros; discriminate). intros x Hx; exact Hx.
Qed.
