(* C20Run.v — case decoder for C20.
   JSON wire format: 0 | 1 b | 2 n | 3 len bytes.. | 4 n elems.. | 5 n (len keybytes.. value)..  (objects sorted by key on output)
   [1; base; overlay]  -> [1; merged; merged-again; 1; 1] | [0]
   [2; ebpf; edt; policy; switch_v2; prev_chainer; n; (ptype vtype npp bwin)*]
   (bwin: a bandwidth_mode the input entry already carries; the generator never reads it) -> [0] | [1; n; (idx type vtype bw ciliumdp)*] *)
From Coq Require Import ZArith List Bool.
From TV Require Import Codec C20Model.
Import ListNotations.
Local Open Scope Z_scope.

Fixpoint dec_json (fuel : nat) (l : list Z) : option (json * list Z) :=
  match fuel with
  | O => None
  | S f =>
      match l with
      | 0 :: r => Some (JNull, r)
      | 1 :: b :: r => Some (JBool (dec_bool b), r)
      | 2 :: n :: r => Some (JNum n, r)
      | 3 :: r => match take_list r with Some (s, r') => Some (JStr s, r') | None => None end
      | 4 :: n :: r =>
          match (fix elems (n : nat) (l : list Z) : option (list json * list Z) :=
                   match n with
                   | O => Some ([], l)
                   | S n' => match dec_json f l with
                             | Some (v, l1) => match elems n' l1 with Some (vs, l2) => Some (v :: vs, l2) | None => None end
                             | None => None end
                   end) (Z.to_nat n) r with
          | Some (vs, r') => Some (JArr vs, r') | None => None end
      | 5 :: n :: r =>
          match (fix members (n : nat) (l : list Z) : option (obj * list Z) :=
                   match n with
                   | O => Some ([], l)
                   | S n' => match take_list l with
                             | Some (k, l0) =>
                                 match dec_json f l0 with
                                 | Some (v, l1) => match members n' l1 with Some (ms, l2) => Some ((k, v) :: ms, l2) | None => None end
                                 | None => None end
                             | None => None end
                   end) (Z.to_nat n) r with
          | Some (ms, r') => Some (JObj ms, r') | None => None end
      | _ => None
      end
  end.

Fixpoint lex_ltb (a b : list Z) : bool :=
  match a, b with
  | [], [] => false | [], _ :: _ => true | _ :: _, [] => false
  | x :: a', y :: b' => if x <? y then true else if y <? x then false else lex_ltb a' b'
  end.
Fixpoint insert_member (m : key * list Z) (l : list (key * list Z)) : list (key * list Z) :=
  match l with
  | [] => [m]
  | h :: r => if lex_ltb (fst h) (fst m) then h :: insert_member m r else m :: l
  end.

Fixpoint enc_json (j : json) : list Z :=
  match j with
  | JNull => [0] | JBool b => [1; enc_bool b] | JNum n => [2; n] | JStr s => 3 :: enc_list s
  | JArr l => 4 :: Z.of_nat (length l) :: flat_map enc_json l
  | JObj l =>
      let ms := (fix go (l : obj) : list (key * list Z) :=
                   match l with [] => [] | (k, v) :: r => insert_member (k, enc_json v) (go r) end) l in
      5 :: Z.of_nat (length ms) :: flat_map (fun m => enc_list (fst m) ++ snd m) ms
  end.

Definition dec_ptype (z : Z) : ptype := if z =? 0 then PTerway else if z =? 1 then PCilium else if z =? 2 then POther else PNoType.
Definition enc_ptype (p : ptype) : Z := match p with PTerway => 0 | PCilium => 1 | POther => 2 | PNoType => 3 end.
Definition dec_vtype (z : Z) : vtype :=
  if z =? 0 then VAbsent else if z =? 1 then VVeth else if z =? 2 then VEmpty else if z =? 3 then VIpvlan else if z =? 4 then VV2 else VOther.
Definition dec_npp (z : Z) : npp :=
  if z =? 0 then NAbsent else if z =? 1 then NIpt else if z =? 2 then NEbpf else if z =? 3 then NOtherStr else NNotString.
Definition enc_dp (d : option dpath) : Z :=
  match d with None => 0 | Some DNone => 9 | Some DVeth => 1 | Some DIpvlan => 2 | Some DV2 => 3 end.
Definition enc_bw (b : option bwmode) : Z := match b with None => 0 | Some BEdt => 1 | Some BTc => 2 end.
(* the chainer writes its datapath as a string: the empty string for "none yet" *)
Definition enc_cdp (d : option dpath) : Z :=
  match d with None => -1 | Some DNone => 0 | Some DVeth => 1 | Some DIpvlan => 2 | Some DV2 => 3 end.

Fixpoint dec_plugins (n : nat) (l : list Z) : list plugin :=
  match n, l with
  | S n', t :: v :: p :: _ :: r => {| p_type := dec_ptype t; p_vtype := dec_vtype v; p_npp := dec_npp p |} :: dec_plugins n' r
  | _, _ => []
  end.

Definition enc_outp (o : outp) : list Z :=
  [o_idx o; enc_ptype (o_type o); enc_dp (o_vtype o); enc_bw (o_bw o); enc_cdp (o_cilium_dp o)].

Definition run_c20 (i : list Z) : list Z :=
  match i with
  | 1 :: r =>
      match dec_json (length r) r with
      | Some (base, r1) =>
          match dec_json (length r1) r1 with
          | Some (ov, _) =>
              match merge_patch base ov with
              | Some m1 => match merge_patch m1 ov with
                           | Some m2 => 1 :: enc_json m1 ++ enc_json m2 ++ [1; 1]
                           | None => [0] end
              | None => [0]
              end
          | None => bad end
      | None => bad end
  | 2 :: eb :: ed :: po :: sw :: pc :: n :: r =>
      let f := {| f_ebpf := dec_bool eb; f_edt := dec_bool ed; f_policy := dec_bool po;
                  f_switch_v2 := dec_bool sw; f_prev_chainer := pc |} in
      match merge_config_list f (dec_plugins (Z.to_nat n) r) with
      | Some out => 1 :: Z.of_nat (length out) :: flat_map enc_outp out
      | None => [0]
      end
  | _ => bad
  end.

(* property clauses judged on the implementation's output *)
Definition json_eqb (a b : json) : bool := list_eqb (enc_json a) (enc_json b).

Definition chk_merge (base ov : json) (o : list Z) : bool :=
  match o with
  | 1 :: r =>
      match dec_json (length r) r with
      | Some (m1, r1) =>
          match dec_json (length r1) r1 with
          | Some (m2, [cfg_consistent; cfg_idem]) =>
              (* MergeConfigAndUnmarshal = decode of the merge patch result *)
              dec_bool cfg_consistent &&
              (* applying the overlay twice = once (schema: arrays of scalars) *)
              (if flat_arrays ov then json_eqb m1 m2 && dec_bool cfg_idem else true) &&
              (* the empty overlay changes nothing *)
              (match ov with JObj [] => json_eqb m1 base | _ => true end) &&
              (* members absent from the overlay keep the base value; null members are removed *)
              match base, ov, m1 with
              | JObj b, JObj p, JObj m =>
                  forallb (fun kv => match get (fst kv) p with
                                     | None => match get (fst kv) m with Some w => json_eqb w (snd kv) | None => false end
                                     | Some _ => true end) b
                  && forallb (fun kv => if is_null (snd kv) then match get (fst kv) m with None => true | Some _ => false end else true) p
              | _, _, _ => true
              end
          | _ => false end
      | None => false end
  | _ => true      (* not two objects: error path of the library, outside the property *)
  end.

Fixpoint dec_outs (n : nat) (l : list Z) : list (list Z) :=
  match n with O => [] | S n' => firstn 5 l :: dec_outs n' (skipn 5 l) end.

Definition chk_chain (eb : bool) (plugins : list plugin) (o : list Z) : bool :=
  match o with
  | 1 :: n :: r =>
      let outs := dec_outs (Z.to_nat n) r in
      let idxs := map (fun x => nth 0 x 0) outs in
      let body := filter (fun x => negb (x =? -1)) idxs in
      (* input order kept; at most one appended chainer, at the end *)
      (fix incr (l : list Z) : bool := match l with a :: (b :: _) as t => (a <? b) && incr t | _ => true end) body
      && forallb (fun x => (0 <=? x) && (x <? Z.of_nat (length plugins))) body
      && (match rev idxs with -1 :: t => negb (existsb (Z.eqb (-1)) t) | t => negb (existsb (Z.eqb (-1)) t) end)
      (* types kept; virtual type and bandwidth mode from the supported sets *)
      && forallb (fun x =>
            let ty := nth 1 x 0 in let vt := nth 2 x 0 in let bw := nth 3 x 0 in
            (if nth 0 x 0 =? -1 then ty =? 1
             else ty =? enc_ptype (p_type (nth (Z.to_nat (nth 0 x 0)) plugins {| p_type := PNoType; p_vtype := VAbsent; p_npp := NAbsent |})))
            && (if ty =? 0 then if eb then ((vt =? 1) || (vt =? 2) || (vt =? 3)) && ((bw =? 1) || (bw =? 2)) else (vt =? 0) && ((bw =? 0) || (bw =? 1) || (bw =? 2)) else true)
            && (if ty =? 1 then eb else true)) outs
      (* a chainer whenever the last terway entry selected ipvlan / datapath v2 *)
      && (let lastvt := fold_left (fun acc x => if nth 1 x 0 =? 0 then nth 2 x 0 else acc) outs 0 in
          if eb && ((lastvt =? 2) || (lastvt =? 3)) then existsb (fun x => nth 1 x 0 =? 1) outs else true)
  | _ => true
  end.

Definition chk_c20 (i o : list Z) : bool :=
  match i with
  | 1 :: r =>
      match dec_json (length r) r with
      | Some (base, r1) => match dec_json (length r1) r1 with Some (ov, _) => chk_merge base ov o | None => false end
      | None => false end
  | 2 :: eb :: ed :: po :: sw :: pc :: n :: r => chk_chain (dec_bool eb) (dec_plugins (Z.to_nat n) r) o
  | _ => false
  end.
