(* C19Run.v — case decoder / property checker for C19 *)
From Coq Require Import ZArith List Bool.
From TV Require Import Codec C19Model.
Import ListNotations.
Local Open Scope Z_scope.

Definition b2z := enc_bool.
Definition z2b := dec_bool.

Definition enc_flavor (f : flavor) : list Z :=
  [match f_type f with FTrunk => 1 | FSecondary => 0 end;
   match f_mode f with MHigh => 1 | MStandard => 0 end; f_count f].
Definition dec_flavor (l : list Z) : flavor :=
  {| f_type := if nth 0 l 0 =? 1 then FTrunk else FSecondary;
     f_mode := if nth 1 l 0 =? 1 then MHigh else MStandard; f_count := nth 2 l 0 |}.

Definition run_c19 (i : list Z) : list Z :=
  match i with
  | [1; ad; i4; mem; era; cmaxe; cmine; shift; cmaxp; cminp; er; crd; multi] =>
      let l := {| adapters := ad; ipv4per := i4; ipv6per := 0; member := mem; maxmember := 0; erdma_adapters := era |} in
      let c := {| c_max_eni := cmaxe; c_min_eni := cmine; c_shift := shift; c_max_pool := cmaxp;
                  c_min_pool := cminp; c_erdma := z2b er; c_crd := z2b crd; c_multi_ip := z2b multi |} in
      let p := get_pool_config c l in
      [p_max_eni p; p_max_member p; p_ip_per_eni p; p_capacity p; p_max_pool p; p_min_pool p; p_erdma_cap p; p_batch p]
  | [2; ad; i4; i6; mem; mm; era] =>
      let l := {| adapters := ad; ipv4per := i4; ipv6per := i6; member := mem; maxmember := mm; erdma_adapters := era |} in
      [erdma_res l; multi_ip_pod l; exclusive_eni_pod l; mem; mm; b2z (support_ipv6 l); b2z (support_multi_ipv6 l)]
  | [3; ad; i4; i6; mem; era; multi; stack; tr; er; os] =>
      let l := {| adapters := ad; ipv4per := i4; ipv6per := i6; member := mem; maxmember := 0; erdma_adapters := era |} in
      let '(v4, v6, t, e) := check_instance l (z2b multi) stack (z2b tr) (z2b er) (z2b os) in
      [b2z v4; b2z v6; b2z t; b2z e]
  | [4; ad; i4; i6; mem; eri; stack; ct; ce; os; ex; mx; mn] =>
      let n := node_reconcile ad i4 i6 mem eri stack (z2b ct) (z2b ce) (z2b os) (z2b ex) mx mn in
      [b2z (n_v4 n); b2z (n_v6 n); b2z (n_trunk n); b2z (n_erdma n); Z.of_nat (length (n_flavor n))]
        ++ flat_map enc_flavor (n_flavor n) ++ [n_max_pool n; n_min_pool n;
        match k8s_anno_out (k8s_anno i4 (z2b ex) (n_flavor n)) with Some v => v | None => -1 end]
  | _ => bad
  end.

Definition chk_c19 (i o : list Z) : bool :=
  match i with
  | [1; ad; i4; mem; era; cmaxe; cmine; shift; cmaxp; cminp; er; crd; multi] =>
      match o with
      | [maxe; maxm; ippe; cap; maxp; minp; ercap; _] =>
          (* hypotheses of the property: a real instance type, default ratio, shift <= 0 *)
          if (1 <=? ad) && (0 <=? i4) && (shift <=? 0) then
            (0 <=? maxe) && (maxe <=? ad - 1) && (cap <=? maxe * i4) && (cap <=? (ad - 1) * i4)
            && (0 <=? minp) && (minp <=? maxp) && (maxp <=? cap)
            && (maxm <=? Z.max 0 mem) && (ercap <=? Z.min 2 (Z.max 0 era) * i4) && (ippe <=? i4)
          else true
      | _ => false
      end
  | [2; ad; i4; i6; mem; mm; era] =>
      match o with
      | [er; mip; ex; tp; mtp; s6; sm6] =>
          if (1 <=? ad) && (0 <=? i4) then
            (er <=? Z.min 2 (Z.max 0 era)) && (0 <=? er) && (mip <=? (ad - 1) * i4) && (ex <=? ad - 1)
            && (tp <=? Z.max 0 mem) && (negb (z2b s6) || (0 <? i6))
          else true
      | _ => false
      end
  | [3; ad; i4; i6; mem; era; multi; stack; tr; er; os] =>
      match o with
      | [v4; v6; t; e] =>
          (negb (z2b v6) || ((0 <? i6) && (negb (z2b multi) || (i6 =? i4))))
          && (negb (z2b t) || (0 <? mem))
          && (negb (z2b e) || ((0 <? era) && (3 <=? ad) && z2b os))
      | _ => false
      end
  | [4; ad; i4; i6; mem; eri; stack; ct; ce; os; ex; mx; mn] =>
      match o with
      | v4 :: v6 :: t :: e :: nf :: r =>
          let fs := map dec_flavor (chunk 3 (Z.to_nat nf) r) in
          let anno := nth (3 * Z.to_nat nf + 2) r 0 in
          if (1 <=? ad) && (0 <=? i4) then
            (flavor_sum fs <=? ad - 1) && forallb (fun f => 0 <=? f_count f) fs
            && (negb (z2b v6) || (i6 =? i4)) && (negb (z2b t) || ((0 <? mem) && negb (z2b ex)))
            && (negb (z2b e) || ((0 <? eri) && z2b os))
            && (if z2b ex then anno <=? ad - 1 else anno <=? (ad - 1) * i4)
          else true
      | _ => false
      end
  | _ => false
  end.
