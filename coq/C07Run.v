(* C07Run.v — C07 is decided on two harnesses: the node pool (PoolRun / PoolChk) and, for "no address stays marked as owned
   by a pod that holds none" across the several requests of one ADD, the Manager.Allocate harness (MgrRun), marker 99. *)
From Coq Require Import ZArith List Bool.
From TV Require Import Codec PoolRun PoolChk MgrRun.
Import ListNotations.
Local Open Scope Z_scope.

Definition run_c07 (l : list Z) : list Z := match l with 99 :: r => run_mgr r | _ => run_pool l end.
Definition chk_c07_all (l o : list Z) : bool := match l with 99 :: r => chk_mgr r o | _ => chk_c07 l o end.
Definition why_c07 (l o : list Z) : Z := match l with 99 :: r => why_mgr r o * 100000 | _ => why_pool 7 l o end.
