(* MgrProofs.v — Allocate returns exactly what the backends handed out, error or not; the daemon's roll-back therefore
   leaves nothing owned by a pod whose ADD failed. *)
From Coq Require Import ZArith List Bool Lia.
From TV Require Import MgrModel.
Import ListNotations.
Local Open Scope Z_scope.

Definition Inv (s : mst) : Prop := handed s = got s.

Lemma settle_inv s : Inv s -> Inv (settle s).
Proof. unfold Inv, settle. destruct (waiting s); cbn; auto. Qed.

Lemma step_inv acc s e : Inv s -> Inv (step acc s e).
Proof.
  unfold Inv. intros H. destruct e as [r k| |r k taken]; cbn [step].
  - destruct (mem r (waiting s)); [|exact H].
    destruct (active s); [|cbn; exact H].
    destruct (k =? 0); [|cbn; exact H].
    apply settle_inv. unfold Inv. cbn. rewrite H. reflexivity.
  - destruct (active s); cbn; exact H.
  - destruct (active s); [|cbn; exact H].
    destruct (mem r (waiting s) && taken && (k =? 0)); cbn; [rewrite H; reflexivity | exact H].
Qed.

Lemma init_inv acc early : Inv (init acc early).
Proof. unfold init. destruct (existsb (Z.eqb 0) acc); [reflexivity|]. apply settle_inv. reflexivity. Qed.

Lemma fold_inv acc evs : forall s, Inv s -> Inv (fold_left (step acc) evs s).
Proof. induction evs as [|e evs IH]; intros s H; cbn [fold_left]; [exact H|]. apply IH, step_inv, H. Qed.

Lemma run_inv acc early evs : Inv (run acc early evs).
Proof.
  unfold run, finish. pose proof (fold_inv acc evs _ (init_inv acc early)) as H.
  destruct (active _); [apply step_inv|]; exact H.
Qed.

Lemma filter_not_mem_self l : filter (fun x => negb (mem x l)) l = [].
Proof.
  assert (G : forall m, (forall x, In x m -> In x l) -> filter (fun x => negb (mem x l)) m = []).
  { induction m as [|a m IH]; intros Hm; cbn [filter]; [reflexivity|].
    assert (Ha : mem a l = true).
    { unfold mem. apply existsb_exists. exists a. split; [apply Hm; left; reflexivity | apply Z.eqb_refl]. }
    rewrite Ha. cbn [negb]. apply IH. intros x Hx. apply Hm. right. exact Hx. }
  apply G. auto.
Qed.

(* every resource a backend gave to the pod is in what Allocate returns, whether it returns an error or not *)
Lemma returned_is_handed acc early evs : handed (run acc early evs) = got (run acc early evs).
Proof. apply run_inv. Qed.

(* a failed ADD, rolled back with what Allocate returned, leaves nothing with the pod *)
Lemma failed_add_leaves_nothing acc early evs : failed (run acc early evs) = true -> owned_after (run acc early evs) = [].
Proof. intros Hf. unfold owned_after. rewrite Hf, (run_inv acc early evs). apply filter_not_mem_self. Qed.

(* a successful ADD holds exactly what was returned *)
Lemma ok_add_holds_returned acc early evs : failed (run acc early evs) = false -> owned_after (run acc early evs) = got (run acc early evs).
Proof. intros Hf. unfold owned_after. rewrite Hf. apply run_inv. Qed.

(* the call never outlives its context: after the run nothing is active, and it fails unless every request was answered *)
Lemma run_not_active acc early evs : active (run acc early evs) = false.
Proof. unfold run, finish. destruct (active (fold_left _ _ _)) eqn:E; [cbn; rewrite E; reflexivity | exact E]. Qed.
