(* Props_C04.v — property C04 (stale, duplicate and concurrent CNI requests are harmless). *)
From Coq Require Import ZArith List Bool.
From TV Require Import PoolModel PoolSets PoolInv PoolThm SvcModel SvcProofs.
Import ListNotations.
Local Open Scope Z_scope.

(* while one request of a pod is in flight every other request of that pod is rejected; the set returns to
   what it was when the request ends *)
Theorem c04_one_in_flight : forall pend p,
  match enter pend p with
  | Some pend' => ~ In p pend /\ enter pend' p = None /\ (forall q, In q (leave pend' p) <-> In q pend)
  | None => In p pend
  end.
Proof.
  intros pend p. pose proof (enter_spec pend p) as H. destruct (enter pend p) as [pend'|] eqn:E; [|exact H].
  destruct H as [H1 H2]. split; [exact H1|]. split; [exact (enter_twice pend p pend' E) | exact (leave_enter pend p pend' E)].
Qed.
Print Assumptions c04_one_in_flight.

(* a DEL or a status query carrying another sandbox id neither releases nor returns the current allocation *)
Theorem c04_stale_ignored : forall s p cid r, sget p s = Some r -> k_cid r <> cid ->
  del_effect s p cid = ([], s) /\ get_reply s p cid = (0, 0, 0).
Proof. exact stale_ignored. Qed.
Print Assumptions c04_stale_ignored.

(* repeating a DEL is a no-op *)
Theorem c04_del_idempotent : forall s p cid, let '(_, s1) := del_effect s p cid in
  (sget p s = None \/ exists r, sget p s = Some r /\ k_cid r = cid) -> del_effect s1 p cid = ([], s1).
Proof. exact del_twice. Qed.
Print Assumptions c04_del_idempotent.

(* repeating a completed ADD: the request is pinned to the interface of the stored allocation, and on that
   interface the pool may only hand the pod the entry it already owns (c01_repeat_add_same) *)
Theorem c04_repeat_add : forall s p cid eni a4 a6 set pod c e,
  add_pin (add_store s p cid eni a4 a6) p = eni /\
  (pod <> 0 -> has_owned pod set = true -> c <> 0 -> peek_ok set pod c = true -> find c set = Some e -> e_owner e = pod).
Proof.
  intros s p cid eni a4 a6 set pod c e. split; [exact (proj1 (add_then s p cid eni a4 a6))|].
  intros Hp Ho Hc Hk F. unfold peek_ok in Hk. destruct (c =? 0) eqn:E; [apply Z.eqb_eq in E; contradiction|].
  rewrite F, Ho in Hk. unfold owned_by in Hk. apply Z.eqb_eq in Hk. exact Hk.
Qed.
Print Assumptions c04_repeat_add.

(* an ADD whose caller went away hands back what it took and keeps what the pod held before: along every
   run, after the roll-back of a request nothing is held by a pod that does not own it (Inv), i.e. the
   interface-level part of "a failed ADD returns every address it took".  The Manager-level drop of a
   response that was already delivered (manager.go:215-218) is outside this per-interface theorem and is
   judged on the implementation's snapshots by chk_c04 / chk_c07. *)
Theorem c04_rollback_keeps_invariant_partial : forall s0 ls s r c4 c6 s',
  Inv s0 -> run_env s0 ls -> run s0 ls = Some s -> step s (LWorkerTake r c4 c6 false) = Some s' ->
  Inv s' /\ (forall p q f a, In (p, f, a) (s_held s') -> In (q, f, a) (s_held s') -> p = q).
Proof.
  intros s0 ls s r c4 c6 s' HI He Hr Hs.
  assert (HI' : Inv s') by exact (inv_step s (LWorkerTake r c4 c6 false) s' (inv_run ls s0 s HI He Hr) I Hs).
  split; [exact HI' | exact (held_exclusive s' HI')].
Qed.
Print Assumptions c04_rollback_keeps_invariant_partial.

Example c04_ex :
  let s := add_store [] 7 70 3 11 0 in
  del_effect s 7 69 = ([], s) /\ get_reply s 7 69 = (0, 0, 0) /\ del_effect s 7 70 = ([(3, 11, 0)], []) /\ enter [7] 7 = None.
Proof. vm_compute. repeat split. Qed.
