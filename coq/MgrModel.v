(* MgrModel.v — Manager.Allocate (pkg/eni/manager.go:130-236) as the daemon uses it (daemon.go allocIP: on an error the
   returned resources, and only they, are handed back through Manager.Release).
   One ADD carries several resource requests; each is dispatched to the first backend that accepts it; a backend answers
   later (resource / error / closed channel) or never; the caller may cancel. Schedules: every answer is taken in by the
   manager before the next event happens (the harness waits for quiescence between events).
   Definitions only. *)
From Coq Require Import ZArith List Bool.
Import ListNotations.
Local Open Scope Z_scope.

Inductive ev :=
| EAns (req : Z) (kind : Z)     (* the backend of request req answers: 0 a resource, 1 an error, otherwise it closes the channel *)
| ECancel                       (* the caller's context ends *)
| EAnsCancel (req : Z) (kind : Z) (taken : bool).
    (* the caller's context ends in the very instant in which the backend of req answers; taken = the manager took the
       answer (observed: the runtime decides) *)

Record mst := { waiting : list Z;     (* requests dispatched and not yet answered *)
                got : list Z;         (* resources collected by Allocate: what it returns *)
                handed : list Z;      (* backends' side: resources a backend gave to the pod *)
                active : bool;        (* Allocate still runs with a live context *)
                failed : bool }.      (* Allocate returns an error *)

Definition mem (x : Z) (l : list Z) : bool := existsb (Z.eqb x) l.
Definition del (x : Z) (l : list Z) : list Z := filter (fun y => negb (y =? x)) l.

(* resource a backend hands out for request r *)
Definition rid (acc : list Z) (r : Z) : Z := 100 * nth (Z.to_nat (r - 1)) acc 0 + r.

Definition settle (s : mst) : mst :=
  match waiting s with
  | [] => {| waiting := []; got := got s; handed := handed s; active := false; failed := failed s |}
  | _ => s
  end.

Definition step (acc : list Z) (s : mst) (e : ev) : mst :=
  match e with
  | EAns r k =>
      if mem r (waiting s) then
        if active s then
          if k =? 0 then
            settle {| waiting := del r (waiting s); got := got s ++ [rid acc r]; handed := handed s ++ [rid acc r];
                      active := true; failed := failed s |}
          else {| waiting := del r (waiting s); got := got s; handed := handed s; active := false; failed := true |}
        else
          (* the request's context is gone: the backend's answer finds nobody and the backend keeps the resource *)
          {| waiting := del r (waiting s); got := got s; handed := handed s; active := false; failed := failed s |}
      else s
  | ECancel => if active s then {| waiting := waiting s; got := got s; handed := handed s; active := false; failed := true |} else s
  | EAnsCancel r k taken =>
      if active s then
        if mem r (waiting s) && taken && (k =? 0)
        then (* an answer the manager took is returned, even though the call fails *)
             {| waiting := del r (waiting s); got := got s ++ [rid acc r]; handed := handed s ++ [rid acc r];
                active := false; failed := true |}
        else {| waiting := del r (waiting s); got := got s; handed := handed s; active := false; failed := true |}
      else {| waiting := del r (waiting s); got := got s; handed := handed s; active := false; failed := failed s |}
  end.

Fixpoint seqZ (from : Z) (n : nat) : list Z := match n with O => [] | S n' => from :: seqZ (from + 1) n' end.

(* dispatch, request by request: a request no backend accepts fails the call at once. `early` = a request whose backend
   answers (a resource) while the dispatch loop is still busy with the next request (0 = none): the answer is taken in
   and must be returned even if a later request then finds no backend *)
Fixpoint first_zero (acc : list Z) (i : Z) : Z :=
  match acc with [] => 0 | a :: r => if a =? 0 then i else first_zero r (i + 1) end.

Definition early_ok (acc : list Z) (early : Z) : bool :=
  let z := first_zero acc 1 in
  (0 <? early) && (early <? Z.of_nat (length acc)) && ((z =? 0) || (early <? z)).

Definition init (acc : list Z) (early : Z) : mst :=
  let all := seqZ 1 (length acc) in
  let e := early_ok acc early in
  let w := if e then del early all else all in
  let g := if e then [rid acc early] else [] in
  if existsb (Z.eqb 0) acc
  then {| waiting := w; got := g; handed := g; active := false; failed := true |}
  else settle {| waiting := w; got := g; handed := g; active := true; failed := false |}.

(* the caller's context always ends eventually *)
Definition finish (s : mst) : mst := if active s then step [] s ECancel else s.

Definition run (acc : list Z) (early : Z) (evs : list ev) : mst := finish (fold_left (step acc) evs (init acc early)).

(* what the backends still count as the pod's after the daemon's roll-back (Release of what Allocate returned, when it failed) *)
Definition owned_after (s : mst) : list Z :=
  if failed s then filter (fun x => negb (mem x (got s))) (handed s) else handed s.
