(* IpamProofs2.v — the binding pass with pods that report addresses: when every pod's reported addresses and
   existing bindings lie on one interface (its "home"), the whole modelled pass keeps the record well formed. *)
From Coq Require Import ZArith List Bool Lia Relations.
From TV Require Import Codec IpamModel IpamProofs.
Import ListNotations.
Local Open Scope Z_scope.

Section Home.
Variable home : Z -> Z.

(* every binding of a pod lies on the pod's home interface *)
Definition AtHome (c : cr) : Prop := forall q six y, q <> 0 -> In y (bnd c six q) -> fst y = home q.
(* every reported address the record knows lies on the reporting pod's home interface *)
Definition RepHome (c : cr) (l : list (pod * Z * Z)) : Prop :=
  forall p c4 c6 six x, In (p, c4, c6) l -> rep_of p six <> 0 -> In x (ents c six) -> addr x = rep_of p six -> fst x = home (p_id p).
Definition ids_nz (l : list (pod * Z * Z)) : Prop := forall p c4 c6, In (p, c4, c6) l -> p_id p <> 0.

Lemma ents_set_owner_any c six six' a p u x' :
  In x' (ents (set_owner c six a p u) six') -> exists x, In x (ents c six') /\ fst x' = fst x /\ addr x' = addr x.
Proof.
  destruct (Bool.bool_dec six' six) as [->|Hn].
  - rewrite ents_set_owner_same. intro H. apply in_map_iff in H as (x & <- & Hx). exists x. split; [exact Hx|].
    split; [reflexivity|apply addr_updx].
  - rewrite (neq_negb six six' Hn), ents_set_owner_other. intro H. exists x'. auto.
Qed.

Lemma RepHome_set_owner c l six a p u : RepHome c l -> RepHome (set_owner c six a p u) l.
Proof.
  intros H q c4 c6 six' x' Hin Hr Hx' Ha.
  destruct (ents_set_owner_any c six six' a p u x' Hx') as (x & Hx & Hf & Had).
  rewrite Hf. apply (H q c4 c6 six' x Hin Hr Hx). congruence.
Qed.

(* binding an unowned entry that lies on the pod's home keeps everybody at home *)
Lemma AtHome_set_owner c six a p u x :
  AtHome c -> uniq c six -> In x (ents c six) -> addr x = a -> own x = 0 -> p <> 0 -> fst x = home p ->
  AtHome (set_owner c six a p u).
Proof.
  intros HA Hu Hx Ha Ho Hp Hh q six' y Hq Hy.
  destruct (Bool.bool_dec six' six) as [->|Hn].
  - unfold bnd in Hy. rewrite ents_set_owner_same in Hy. fold (ownb q) in Hy.
    destruct (Z.eq_dec q p) as [->|Hqp].
    + assert (Hxp : own x <> p) by (rewrite Ho; congruence).
      destruct (filter_updx_new a p u (ents c six) x Hu Hx Ha Hxp) as (l1 & l2 & E1 & E2).
      rewrite E1 in Hy. apply in_app_or in Hy as [Hy|[<-|Hy]].
      * apply (HA p six y Hp). rewrite bnd_eq, E2. apply in_or_app. left. exact Hy.
      * destruct (updx_hit a p u x Ha) as (_ & Hf & _). rewrite Hf. exact Hh.
      * apply (HA p six y Hp). rewrite bnd_eq, E2. apply in_or_app. right. exact Hy.
    + rewrite filter_updx_other in Hy; [apply (HA q six y Hq); exact Hy|exact Hqp|].
      intros z Hz Hza. rewrite (uniq_same_entry _ z x Hu Hz Hx) by congruence. rewrite Ho. congruence.
  - rewrite (neq_negb six six' Hn) in *. unfold bnd in Hy. rewrite ents_set_owner_other in Hy. apply (HA q (negb six) y Hq). exact Hy.
Qed.

Lemma good_set_owner_uniq c six a p u six' : uniq c six' -> uniq (set_owner c six a p u) six'.
Proof. apply uniq_set_owner. Qed.

(* one re-adoption *)
Lemma takeover1_home rdma_on c l six p c4 c6 obs c' :
  good c -> AtHome c -> RepHome c l -> In (p, c4, c6) l -> p_id p <> 0 ->
  takeover1 c six p obs = Some c' ->
  good c' /\ AtHome c' /\ RepHome c' l /\ clos_refl_trans cr (cstep rdma_on) c c'.
Proof.
  intros Hg HA HR Hin Hp. unfold takeover1.
  destruct (needs p six && negb (has_b c six (p_id p)) && negb (rep_of p six =? 0) && negb (obs =? 0)) eqn:G;
    [|intro H; injection H as <-; split; [exact Hg|split; [exact HA|split; [exact HR|apply rt_refl]]]].
  apply andb_true_iff in G as [G Ho]. apply andb_true_iff in G as [G Hr]. apply andb_true_iff in G as [Hn Hh].
  apply negb_true_iff in Hh. apply negb_true_iff in Hr. apply Z.eqb_neq in Hr.
  destruct ((obs =? rep_of p six) && takeover_ok c six p obs) eqn:T; [|discriminate].
  apply andb_true_iff in T as [Te Tt]. apply Z.eqb_eq in Te. intro H. injection H as <-.
  (* the entry that is adopted *)
  pose proof Tt as Tt'. unfold takeover_ok in Tt'.
  destruct (lookup c six obs) as [[e i]|] eqn:L; [|discriminate].
  destruct (lookup_in _ _ _ _ _ L) as (Hx & Hia & _).
  assert (Hfree : i_pod i = 0).
  { apply orb_true_iff in Tt' as [H|H]; apply Z.eqb_eq in H; [exact H|].
    exfalso. pose proof (has_b_false _ _ _ Hh) as Hnb.
    assert (In (e_id e, i) (bnd c six (p_id p))) by (unfold bnd; apply filter_In; split; [exact Hx|cbn; apply Z.eqb_eq; exact H]).
    rewrite Hnb in H0. destruct H0. }
  assert (Hhome : fst (e_id e, i) = home (p_id p)).
  { apply (HR p c4 c6 six (e_id e, i) Hin); [congruence|exact Hx|unfold addr; cbn; congruence]. }
  assert (Hcons : take_consistent c six p obs).
  { intros e0 i0 y L0 Hy. rewrite L in L0. injection L0 as <- <-. rewrite (HA (p_id p) (negb six) y Hp Hy). symmetry. exact Hhome. }
  assert (Hstep : cstep rdma_on c (set_owner c six obs (p_id p) (p_uid p))).
  { eapply (c_take rdma_on c _ six p obs); auto. }
  destruct Hg as (Hwf & U4 & U6 & Hids).
  split; [eapply cstep_good; [split; [exact Hwf|split; [exact U4|split; [exact U6|exact Hids]]]|exact Hstep]|].
  split; [|split; [apply RepHome_set_owner; exact HR|apply rt_step; exact Hstep]].
  apply (AtHome_set_owner c six obs (p_id p) (p_uid p) (e_id e, i)); auto; try (destruct six; assumption).
Qed.

Lemma takeover_all_home rdma_on c0 l0 l : forall c c',
  (forall x, In x l -> In x l0) -> ids_nz l0 ->
  good c -> AtHome c -> RepHome c l0 ->
  takeover_all c0 c l = Some c' ->
  good c' /\ AtHome c' /\ RepHome c' l0 /\ clos_refl_trans cr (cstep rdma_on) c c'.
Proof.
  induction l as [|[[p c4] c6] l IH]; intros c c' Hsub Hnz Hg HA HR H; cbn [takeover_all] in H.
  - injection H as <-. split; [exact Hg|split; [exact HA|split; [exact HR|apply rt_refl]]].
  - destruct (takeover_pod c0 c (p, c4, c6)) as [c1|] eqn:T; [|discriminate].
    assert (Hin : In (p, c4, c6) l0) by (apply Hsub; left; reflexivity).
    assert (Hp : p_id p <> 0) by (eapply Hnz; exact Hin).
    assert (S1 : good c1 /\ AtHome c1 /\ RepHome c1 l0 /\ clos_refl_trans cr (cstep rdma_on) c c1).
    { unfold takeover_pod in T. destruct (pending c0 p).
      - destruct (takeover1 c false p c4) as [c2|] eqn:T4; [|discriminate].
        destruct (takeover1_home rdma_on c l0 false p c4 c6 c4 c2 Hg HA HR Hin Hp T4) as (G2 & A2 & R2 & S2).
        destruct (takeover1_home rdma_on c2 l0 true p c4 c6 c6 c1 G2 A2 R2 Hin Hp T) as (G3 & A3 & R3 & S3).
        split; [exact G3|split; [exact A3|split; [exact R3|eapply rt_trans; eassumption]]].
      - injection T as <-. split; [exact Hg|split; [exact HA|split; [exact HR|apply rt_refl]]]. }
    destruct S1 as (G1 & A1 & R1 & St1).
    destruct (IH c1 c' (fun x Hx => Hsub x (or_intror Hx)) Hnz G1 A1 R1 H) as (G' & A' & R' & St').
    split; [exact G'|split; [exact A'|split; [exact R'|eapply rt_trans; eassumption]]].
Qed.

Lemma pick_all_csteps_nz rdma_on c0 l : ids_nz l -> forall c c', pick_all rdma_on c0 c l = Some c' -> clos_refl_trans cr (cstep rdma_on) c c'.
Proof.
  induction l as [|[[p c4] c6] l IH]; intros Hf c c' H; cbn [pick_all] in H.
  - injection H as <-. apply rt_refl.
  - destruct (pick_pod rdma_on c0 c (p, c4, c6)) as [c1|] eqn:P; [|discriminate].
    eapply rt_trans; [eapply pick_pod_csteps; [eapply Hf; left; reflexivity|exact P]|].
    apply IH; [|exact H]. intros q d4 d6 Hq; apply (Hf q d4 d6); right; exact Hq.
Qed.

(* the whole pass: release done, take-over loop, pick loop — any pod order, any outcome the loops can produce *)
Theorem bind_all_good rdma_on c l c' :
  good c -> AtHome c -> RepHome c l -> ids_nz l -> bind_all rdma_on c l = Some c' -> good c'.
Proof.
  intros Hg HA HR Hnz. unfold bind_all. destruct (takeover_all c c l) as [c1|] eqn:T; [|discriminate].
  destruct (forallb (takeover_complete c c1) l); [|discriminate]. intro H.
  destruct (takeover_all_home rdma_on c l l c c1 (fun x Hx => Hx) Hnz Hg HA HR T) as (G1 & _ & _ & _).
  eapply csteps_good; [exact G1|]. eapply pick_all_csteps_nz; eassumption.
Qed.
End Home.
