(* Props_C01.v — property C01 stated against the pool LTS (PoolModel.v).
   "every label list" = every interleaving of the goroutines of one network interface at the
   granularity the per-interface mutex makes atomic, every history, every fault placement, every
   remote removal, every resolution of map-order / select choices. *)
From Coq Require Import ZArith List Bool.
From TV Require Import PoolModel PoolSets PoolInv PoolThm.
Import ListNotations.
Local Open Scope Z_scope.

(* at every instant an address delivered to a pod and not released is owned by that pod in the
   interface's set; hence no address is held by two pods.  Hypotheses: run_env — the interface is
   deleted only when no pod request still runs on it (see c06_delete_quiet_refuted in Props_C06.v for
   what happens otherwise); H_seq (one unfinished request per pod) is a guard of the labels. *)
Theorem c01_exclusive : forall ty on4 on6 cap batch ls s,
  run_env (init_slot ty on4 on6 cap batch) ls -> run (init_slot ty on4 on6 cap batch) ls = Some s ->
  forall p q f a, In (p, f, a) (s_held s) -> In (q, f, a) (s_held s) -> p = q.
Proof. intros ty on4 on6 cap batch ls s He Hr. exact (held_exclusive s (inv_run ls _ s (inv_init ty on4 on6 cap batch) He Hr)). Qed.
Print Assumptions c01_exclusive.

Theorem c01_held_is_owned : forall ty on4 on6 cap batch ls s,
  run_env (init_slot ty on4 on6 cap batch) ls -> run (init_slot ty on4 on6 cap batch) ls = Some s ->
  forall p f a, In (p, f, a) (s_held s) -> p <> 0 /\ a <> 0 /\ owner_of (f_set (fget s f)) a = p.
Proof.
  intros ty on4 on6 cap batch ls s He Hr p f a H.
  pose proof (i_held _ _ _ _ _ _ _ _ (inv_run ls _ s (inv_init ty on4 on6 cap batch) He Hr) p f a H) as X. destruct f; exact X.
Qed.
Print Assumptions c01_held_is_owned.

(* the same for any start state that satisfies the invariant (e.g. an interface restored by load()) *)
Theorem c01_exclusive_from : forall s0 ls s, Inv s0 -> run_env s0 ls -> run s0 ls = Some s ->
  forall p q f a, In (p, f, a) (s_held s) -> In (q, f, a) (s_held s) -> p = q.
Proof. intros s0 ls s HI He Hr. exact (held_exclusive s (inv_run ls s0 s HI He Hr)). Qed.
Print Assumptions c01_exclusive_from.

(* what is handed out: whenever a worker or the direct path commits entry c to a pod, either the pod
   owned that entry already (repeated ADD: the same address, whatever its status), or — only if the pod
   owns nothing in that family — the entry is idle and Valid, the cloud's answer that brought it has not
   been followed by a sync that missed it, and no unassign call was started for it *)
Theorem c01_handed_out_is_live : forall s0 ls s r c4 c6 deliver s' q,
  Inv s0 -> Led s0 -> run_env s0 ls -> run_cloud ls -> run s0 ls = Some s ->
  step s (LWorkerTake r c4 c6 deliver) = Some s' -> rfind r (s_reqs s) = Some q ->
  handed s F4 (r_pod q) c4 /\ handed s F6 (r_pod q) c6.
Proof.
  intros s0 ls s r c4 c6 deliver s' q HI HL He Hc Hr Hs F.
  exact (take_handed s r c4 c6 deliver s' q (proj2 (inv_led_run ls s0 s HI HL He Hc Hr)) Hs F).
Qed.
Print Assumptions c01_handed_out_is_live.

Theorem c01_handed_out_is_live_direct : forall s0 ls s r pod pin erdma c4 c6 s',
  Inv s0 -> Led s0 -> run_env s0 ls -> run_cloud ls -> run s0 ls = Some s ->
  step s (LAllocDirect r pod pin erdma c4 c6) = Some s' ->
  handed s F4 pod c4 /\ handed s F6 pod c6.
Proof.
  intros s0 ls s r pod pin erdma c4 c6 s' HI HL He Hc Hr Hs.
  exact (direct_handed s r pod pin erdma c4 c6 s' (proj2 (inv_led_run ls s0 s HI HL He Hc Hr)) Hs).
Qed.
Print Assumptions c01_handed_out_is_live_direct.

(* a repeated ADD gets the address the pod owns: PeekAvailable may only return an entry of the same pod
   when one exists *)
Theorem c01_repeat_add_same : forall s pod c e, pod <> 0 -> has_owned pod s = true -> c <> 0 -> peek_ok s pod c = true ->
  find c s = Some e -> e_owner e = pod.
Proof.
  intros s pod c e Hp Ho Hc Hk F. unfold peek_ok in Hk. destruct (c =? 0) eqn:E; [apply Z.eqb_eq in E; contradiction|].
  rewrite F, Ho in Hk. unfold owned_by in Hk. apply Z.eqb_eq in Hk. exact Hk.
Qed.
Print Assumptions c01_repeat_add_same.

(* non-vacuity: a history in which two pods compete for one address of a created interface:
   enqueue p1, enqueue p2, create, p1 takes it, p1 releases, p2 ... *)
Example c01_ex :
  let ls := [LAllocEnqueue 1 101 false 0 false; LFwArm; LTick 300; LCreateBegin 1 0;
             LAllocEnqueue 2 102 false 0 false;
             LCreateEnd true 7 false 50 [50] [] 0; LWorkerTake 1 50 0 true; LRelease 101 7 50 0; LWorkerTake 2 50 0 true] in
  run_env (init_slot 0 true false 4 2) ls /\
  match run (init_slot 0 true false 4 2) ls with Some s => s_held s = [(102, F4, 50)] | None => False end.
Proof. vm_compute. repeat split. Qed.
