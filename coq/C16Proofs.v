(* C16Proofs.v *)
From Coq Require Import ZArith List Bool Lia Permutation.
From TV Require Import Codec C16Model.
Import ListNotations.
Local Open Scope Z_scope.

Lemma keq_refl k : list_eqb k k = true.
Proof. apply list_eqb_spec. reflexivity. Qed.
Lemma keq_neq k k' : k <> k' -> list_eqb k k' = false.
Proof. intros H. destruct (list_eqb k k') eqn:E; [|reflexivity]. apply list_eqb_spec in E. contradiction. Qed.

Definition stk (s : stacks) (k : hkey) : list token :=
  match lookup k s with Some us => us | None => [] end.
Definition toks (s : stacks) : list token := flat_map snd s.
Definition itoks (l : inflight) : list token := map (fun x => snd (snd x)) l.
Definition ikeys (l : inflight) : list hkey := map (fun x => fst (snd x)) l.
Definition skeys (s : stacks) : list hkey := map fst s.

(* ---- association-list facts ------------------------------------------------ *)
Lemma lookup_remove_same k s : lookup k (remove k s) = None.
Proof.
  induction s as [|[k' v] s IH]; cbn [remove lookup]; [reflexivity|].
  destruct (list_eqb k k') eqn:E; [exact IH|]. cbn [lookup]. rewrite E. exact IH.
Qed.

Lemma lookup_remove_other k k' s : k <> k' -> lookup k' (remove k s) = lookup k' s.
Proof.
  intros Hne. induction s as [|[k2 v] s IH]; cbn [remove lookup]; [reflexivity|].
  destruct (list_eqb k k2) eqn:E.
  - apply list_eqb_spec in E; subst k2. rewrite (keq_neq k' k) by congruence. exact IH.
  - cbn [lookup]. rewrite IH. reflexivity.
Qed.

Lemma skeys_remove_incl k s : incl (skeys (remove k s)) (skeys s).
Proof.
  induction s as [|[k' v] s IH]; cbn [remove skeys map]; [apply incl_refl|].
  destruct (list_eqb k k'); [apply incl_tl; exact IH|].
  cbn [map]. apply incl_cons; [left; reflexivity | apply incl_tl; exact IH].
Qed.

Lemma not_in_skeys_remove k s : ~ In k (skeys (remove k s)).
Proof.
  induction s as [|[k' v] s IH]; cbn [remove skeys map]; [tauto|].
  destruct (list_eqb k k') eqn:E; [exact IH|].
  cbn [map In fst]. intros [H|H]; [rewrite H, keq_refl in E; discriminate | exact (IH H)].
Qed.

Lemma nodup_skeys_remove k s : NoDup (skeys s) -> NoDup (skeys (remove k s)).
Proof.
  induction s as [|[k' v] s IH]; cbn [remove skeys map]; intros H; [constructor|].
  inversion H as [|? ? Hn Hd]; subst.
  destruct (list_eqb k k'); [apply IH; exact Hd|].
  cbn [map]. constructor; [|apply IH; exact Hd].
  intros Hin. apply Hn. exact (skeys_remove_incl k s k' Hin).
Qed.

Lemma lookup_none_notin k s : lookup k s = None -> ~ In k (skeys s).
Proof.
  induction s as [|[k' v] s IH]; cbn [lookup skeys map In]; [tauto|].
  destruct (list_eqb k k') eqn:E; [discriminate|].
  cbn [fst]. intros H [H1|H1]; [rewrite H1, keq_refl in E; discriminate | exact (IH H H1)].
Qed.

Lemma lookup_some_in k s v : lookup k s = Some v -> In k (skeys s).
Proof.
  induction s as [|[k' v'] s IH]; cbn [lookup skeys map In]; [discriminate|].
  cbn [fst]. destruct (list_eqb k k') eqn:E; [apply list_eqb_spec in E; left; congruence|].
  intros H. right. exact (IH H).
Qed.

Lemma remove_notin k s : ~ In k (skeys s) -> remove k s = s.
Proof.
  induction s as [|[k' v] s IH]; cbn [remove skeys map In]; intros H; [reflexivity|].
  cbn [fst] in H. rewrite keq_neq by (intros ->; apply H; left; reflexivity).
  f_equal. apply IH. tauto.
Qed.

(* with unique keys, the tokens of a store split into one stack and the rest *)
Lemma toks_split k s : NoDup (skeys s) -> Permutation (toks s) (stk s k ++ toks (remove k s)).
Proof.
  unfold stk, toks. induction s as [|[k' v] s IH]; cbn [lookup remove flat_map snd]; intros H; [constructor|].
  inversion H as [|? ? Hn Hd]; subst. cbn [fst] in *.
  destruct (list_eqb k k') eqn:E.
  - apply list_eqb_spec in E; subst k'. rewrite (remove_notin k s Hn). apply Permutation_refl.
  - cbn [flat_map snd]. specialize (IH Hd).
    rewrite IH. rewrite !app_assoc. apply Permutation_app_tail. apply Permutation_app_comm.
Qed.

Lemma firstn_fits {A} n (l : list A) : (length l <= n)%nat -> firstn n l = l.
Proof. intros. apply firstn_all2. exact H. Qed.

(* ---- remove_last_occ -------------------------------------------------------- *)
Lemma remove_last_occ_snoc t l : remove_last_occ t (l ++ [t]) = l.
Proof.
  unfold remove_last_occ. rewrite rev_app_distr. cbn [rev app remove_first].
  rewrite Z.eqb_refl. apply rev_involutive.
Qed.

Lemma memb_in t l : memb t l = true <-> In t l.
Proof.
  unfold memb. rewrite existsb_exists. split.
  - intros (x & Hx & E). apply Z.eqb_eq in E. subst. exact Hx.
  - intros H. exists t. split; [exact H | apply Z.eqb_refl].
Qed.
Lemma memb_notin t l : memb t l = false <-> ~ In t l.
Proof. rewrite <- memb_in. destruct (memb t l); split; congruence. Qed.

Lemma last_removelast (l : list token) d : l <> [] -> l = removelast l ++ [last l d].
Proof. intros H. apply app_removelast_last. exact H. Qed.

(* ---- in-flight bookkeeping --------------------------------------------------- *)
Lemma find_rid_in rid l k t : find_rid rid l = Some (k, t) ->
  Permutation (itoks l) (t :: itoks (drop_rid rid l)) /\ In k (ikeys l) /\ incl (ikeys (drop_rid rid l)) (ikeys l).
Proof.
  induction l as [|[r [k' t']] l IH]; cbn [find_rid drop_rid itoks ikeys map]; [discriminate|].
  destruct (r =? rid).
  - intros H; inversion H; subst. cbn [snd fst]. split; [apply Permutation_refl|].
    split; [left; reflexivity | apply incl_tl, incl_refl].
  - intros H. destruct (IH H) as (P & I1 & I2). cbn [map snd fst]. split.
    + fold (itoks l). fold (itoks (drop_rid rid l)). rewrite P. apply perm_swap.
    + split; [right; exact I1|]. apply incl_cons; [left; reflexivity | apply incl_tl; exact I2].
Qed.

Lemma drop_rid_sub rid l :
  exists rest, Permutation (itoks l) (rest ++ itoks (drop_rid rid l)) /\ incl (ikeys (drop_rid rid l)) (ikeys l).
Proof.
  induction l as [|[r [k' t']] l IH]; cbn [drop_rid itoks ikeys map].
  - exists []. split; [constructor | apply incl_refl].
  - destruct (r =? rid).
    + exists [t']. split; [apply Permutation_refl | apply incl_tl, incl_refl].
    + destruct IH as (rest & P & I). exists rest. cbn [map snd fst]. split.
      * fold (itoks l). fold (itoks (drop_rid rid l)). rewrite P. apply Permutation_middle.
      * apply incl_cons; [left; reflexivity | apply incl_tl; exact I].
Qed.

(* ---- the simulation between the generator model and the property checker ----- *)
Definition fits (cap : nat) (K : list hkey) : Prop :=
  forall l, NoDup l -> incl l K -> (length l <= cap)%nat.

Definition op_keys (o : op) : list hkey := match o with Issue _ (Some k) => [k] | _ => [] end.
Definition keys_of (ops : list op) : list hkey := flat_map op_keys ops.

Definition R (K : list hkey) (g : gen) (infl : inflight) (c : cstate) : Prop :=
  cinfl c = infl /\
  (forall k, avail c k = stk (store g) k) /\
  NoDup (skeys (store g)) /\
  (forall k, lookup k (store g) <> Some []) /\
  (forall t, In t (seen c) -> t < next g) /\
  (forall t, In t (itoks infl ++ toks (store g)) -> In t (seen c)) /\
  NoDup (itoks infl ++ toks (store g)) /\
  incl (skeys (store g) ++ ikeys infl) K.

Lemma add_noevict cap K k v s :
  fits cap K -> NoDup (skeys s) -> incl (skeys s) K -> In k K ->
  add cap k v s = (k, v) :: remove k s.
Proof.
  intros Hf Hn Hi Hk. unfold add. apply firstn_fits.
  change (length ((k, v) :: remove k s)) with (S (length (remove k s))).
  replace (S (length (remove k s))) with (length (k :: skeys (remove k s)))
    by (cbn [length]; unfold skeys; rewrite map_length; reflexivity).
  apply Hf.
  - constructor; [apply not_in_skeys_remove | apply nodup_skeys_remove; exact Hn].
  - apply incl_cons; [exact Hk|]. eapply incl_tran; [apply skeys_remove_incl | exact Hi].
Qed.

Lemma stk_cons_same k v s : stk ((k, v) :: s) k = v.
Proof. unfold stk. cbn [lookup]. rewrite keq_refl. reflexivity. Qed.
Lemma stk_cons_other k k' v s : k <> k' -> stk ((k, v) :: s) k' = stk s k'.
Proof. intros H. unfold stk. cbn [lookup]. rewrite (keq_neq k' k) by congruence. reflexivity. Qed.
Lemma stk_remove_same k s : stk (remove k s) k = [].
Proof. unfold stk. rewrite lookup_remove_same. reflexivity. Qed.
Lemma stk_remove_other k k' s : k <> k' -> stk (remove k s) k' = stk s k'.
Proof. intros H. unfold stk. rewrite lookup_remove_other by exact H. reflexivity. Qed.

Lemma upd_same f k v : upd f k v k = v.
Proof. unfold upd. rewrite keq_refl. reflexivity. Qed.
Lemma upd_other f k v k' : k <> k' -> upd f k v k' = f k'.
Proof. intros H. unfold upd. rewrite keq_neq by congruence. reflexivity. Qed.

(* the store after "replace stack k by v" (v possibly empty = key removed) *)
Definition set_stack (k : hkey) (v : list token) (s : stacks) : stacks :=
  match v with [] => remove k s | _ => (k, v) :: remove k s end.

Lemma set_stack_stk k v s k' : stk (set_stack k v s) k' = if list_eqb k' k then v else stk s k'.
Proof.
  destruct (list_eqb k' k) eqn:E.
  - apply list_eqb_spec in E; subst k'. destruct v; cbn [set_stack]; [apply stk_remove_same | apply stk_cons_same].
  - assert (k <> k') by (intros ->; rewrite keq_refl in E; discriminate).
    destruct v; cbn [set_stack]; [|rewrite stk_cons_other by assumption]; apply stk_remove_other; assumption.
Qed.

Lemma set_stack_toks k v s : toks (set_stack k v s) = v ++ toks (remove k s).
Proof. destruct v; reflexivity. Qed.

Lemma set_stack_nodupk k v s : NoDup (skeys s) -> NoDup (skeys (set_stack k v s)).
Proof.
  intros H. destruct v; cbn [set_stack]; [apply nodup_skeys_remove; exact H|].
  cbn [skeys map fst]. constructor; [apply not_in_skeys_remove | apply nodup_skeys_remove; exact H].
Qed.

Lemma set_stack_keys k v s K : incl (skeys s) K -> In k K -> incl (skeys (set_stack k v s)) K.
Proof.
  intros Hi Hk. destruct v; cbn [set_stack].
  - eapply incl_tran; [apply skeys_remove_incl | exact Hi].
  - cbn [skeys map fst]. apply incl_cons; [exact Hk|]. eapply incl_tran; [apply skeys_remove_incl | exact Hi].
Qed.

Lemma set_stack_nonempty k v s k' :
  (forall k, lookup k s <> Some []) -> lookup k' (set_stack k v s) <> Some [].
Proof.
  intros H. destruct (list_eqb k' k) eqn:E.
  - apply list_eqb_spec in E; subst k'. destruct v; cbn [set_stack].
    + rewrite lookup_remove_same. discriminate.
    + cbn [lookup]. rewrite keq_refl. discriminate.
  - assert (k <> k') by (intros ->; rewrite keq_refl in E; discriminate).
    destruct v; cbn [set_stack]; [|cbn [lookup]; rewrite E]; rewrite lookup_remove_other by assumption; apply H.
Qed.

Lemma in_app_perm {A} (l l' : list A) x : Permutation l l' -> In x l -> In x l'.
Proof. intros P H. eapply Permutation_in; eassumption. Qed.

Lemma nodup_app_disjoint {A} (a b : list A) x : NoDup (a ++ b) -> In x a -> In x b -> False.
Proof.
  induction a as [|y a IH]; cbn [app In]; intros Hd Ha Hb; [contradiction|].
  inversion Hd as [|? ? Hy Hd']; subst. destruct Ha as [->|Ha].
  - apply Hy, in_or_app. right. exact Hb.
  - exact (IH Hd' Ha Hb).
Qed.

Lemma nodup_app_r {A} (a b : list A) : NoDup (a ++ b) -> NoDup b.
Proof. induction a as [|y a IH]; cbn [app]; intros H; [exact H|]. inversion H; subst. apply IH. assumption. Qed.

(* Issue of a valid request *)
Lemma issue_sim cap K g infl c rid k :
  fits cap K -> R K g infl c -> In k K ->
  let '(t, g') := generate cap g k in
  exists c', cstep c (Issue rid (Some k)) t = Some c' /\ R K g' ((rid, (k, t)) :: infl) c'.
Proof.
  intros Hf (Hi & Ha & Hnk & Hne & Hlt & Hall & Hnd & Hk) HkK.
  assert (HkS : incl (skeys (store g)) K) by (intros x Hx; apply Hk, in_or_app; left; exact Hx).
  unfold generate. destruct (lookup k (store g)) as [[|u us]|] eqn:El.
  - exfalso. exact (Hne k El).
  - (* a rolled-back token is waiting: reuse it *)
    set (l := u :: us). set (t := last l 0). set (l' := removelast l).
    assert (Hl : l = l' ++ [t]) by (apply app_removelast_last; discriminate).
    assert (Hstk : stk (store g) k = l) by (unfold stk; rewrite El; reflexivity).
    assert (Hstore : (match l' with [] => remove k (store g) | _ => add cap k l' (store g) end)
                     = set_stack k l' (store g)).
    { destruct l' eqn:E; [reflexivity|]. cbn [set_stack]. apply (add_noevict cap K); assumption. }
    rewrite Hstore.
    assert (Hperm : Permutation (toks (store g)) ((l' ++ [t]) ++ toks (remove k (store g)))).
    { rewrite <- Hl, <- Hstk. apply toks_split. exact Hnk. }
    assert (Htin : In t (toks (store g))).
    { apply (in_app_perm _ _ t (Permutation_sym Hperm)). apply in_or_app. left. apply in_or_app. right. left. reflexivity. }
    assert (Htni : ~ In t (itoks infl)).
    { intros Hin. exact (nodup_app_disjoint _ _ t Hnd Hin Htin). }
    cbn [cstep]. rewrite Hi. fold (itoks infl).
    rewrite (proj2 (memb_notin t (itoks infl)) Htni).
    rewrite (Ha k), Hstk. unfold l at 1. fold l.
    assert (Hmem : memb t l = true) by (apply memb_in; rewrite Hl; apply in_or_app; right; left; reflexivity).
    rewrite Hmem. eexists. split; [reflexivity|].
    unfold R. cbn [cinfl avail seen store next].
    assert (Hrl : remove_last_occ t l = l') by (rewrite Hl; apply remove_last_occ_snoc).
    rewrite Hrl.
    repeat split.
    + intros k'. rewrite set_stack_stk. unfold upd. destruct (list_eqb k' k); [reflexivity | apply Ha].
    + apply set_stack_nodupk; exact Hnk.
    + intros k'. apply set_stack_nonempty. exact Hne.
    + exact Hlt.
    + intros x Hx. apply Hall. cbn [itoks map snd] in Hx. fold (itoks infl) in Hx.
      rewrite set_stack_toks in Hx.
      destruct Hx as [<-|Hx]; [apply in_or_app; right; exact Htin|].
      apply in_app_or in Hx as [Hx|Hx]; [apply in_or_app; left; exact Hx|].
      apply in_or_app; right. apply (in_app_perm _ _ x (Permutation_sym Hperm)).
      apply in_app_or in Hx as [Hx|Hx]; apply in_or_app; [left; apply in_or_app; left; exact Hx | right; exact Hx].
    + cbn [itoks map snd]. fold (itoks infl). rewrite set_stack_toks.
      eapply Permutation_NoDup; [|exact Hnd].
      etransitivity; [apply Permutation_app_head; exact Hperm|].
      etransitivity; [apply Permutation_app_head, Permutation_app_tail, Permutation_app_comm|].
      cbn [app]. symmetry. apply Permutation_middle.
    + cbn [ikeys map fst snd]. fold (ikeys infl). intros x Hx.
      apply in_app_or in Hx as [Hx|Hx].
      * exact (set_stack_keys k l' (store g) K HkS HkK x Hx).
      * destruct Hx as [<-|Hx]; [exact HkK | apply Hk, in_or_app; right; exact Hx].
  - (* nothing to reuse: a fresh token *)
    assert (Hstk : stk (store g) k = []) by (unfold stk; rewrite El; reflexivity).
    assert (Hfresh_seen : ~ In (next g) (seen c)) by (intros H; apply Hlt in H; lia).
    assert (Hfresh_all : ~ In (next g) (itoks infl ++ toks (store g))) by (intros H; apply Hfresh_seen, Hall, H).
    cbn [cstep]. rewrite Hi. fold (itoks infl).
    rewrite (proj2 (memb_notin (next g) (itoks infl))) by (intros H; apply Hfresh_all, in_or_app; left; exact H).
    rewrite (Ha k), Hstk. rewrite (proj2 (memb_notin (next g) (seen c)) Hfresh_seen).
    eexists. split; [reflexivity|].
    unfold R. cbn [cinfl avail seen store next].
    repeat split; try assumption.
    + intros t [<-|Ht]; [lia | apply Hlt in Ht; lia].
    + intros t Ht. cbn [itoks map snd app] in Ht. destruct Ht as [<-|Ht]; [left; reflexivity | right; apply Hall, Ht].
    + cbn [itoks map snd app]. constructor; assumption.
    + cbn [ikeys map fst snd]. fold (ikeys infl). intros x Hx.
      apply in_app_or in Hx as [Hx|[<-|Hx]]; [apply Hk, in_or_app; left; exact Hx | exact HkK | apply Hk, in_or_app; right; exact Hx].
Qed.

Lemma putback_store cap K g k t :
  fits cap K -> NoDup (skeys (store g)) -> incl (skeys (store g)) K -> In k K ->
  store (putback cap g k t) = set_stack k (stk (store g) k ++ [t]) (store g).
Proof.
  intros Hf Hn Hi Hk. unfold putback. cbn [store].
  rewrite (add_noevict cap K) by assumption.
  unfold stk. destruct (lookup k (store g)) as [us|]; cbn [app set_stack].
  - destruct (us ++ [t]) eqn:E; [destruct us; discriminate | reflexivity].
  - reflexivity.
Qed.

Lemma rollback_sim cap K g infl c rid k t :
  fits cap K -> R K g infl c -> find_rid rid infl = Some (k, t) ->
  R K (putback cap g k t) (drop_rid rid infl) (cquiet c (Rollback rid)).
Proof.
  intros Hf (Hi & Ha & Hnk & Hne & Hlt & Hall & Hnd & Hk) Hfind.
  assert (HkS : incl (skeys (store g)) K) by (intros x Hx; apply Hk, in_or_app; left; exact Hx).
  destruct (find_rid_in rid infl k t Hfind) as (Pi & Hkin & Hkincl).
  assert (HkK : In k K) by (apply Hk, in_or_app; right; exact Hkin).
  cbn [cquiet]. rewrite Hi, Hfind.
  unfold R. cbn [cinfl avail seen]. rewrite (putback_store cap K) by assumption.
  assert (Hperm := toks_split k (store g) Hnk).
  repeat split.
  - intros k'. rewrite set_stack_stk. unfold upd. destruct (list_eqb k' k); [rewrite Ha; reflexivity | apply Ha].
  - apply set_stack_nodupk; exact Hnk.
  - intros k'. apply set_stack_nonempty. exact Hne.
  - exact Hlt.
  - intros x Hx. apply Hall. rewrite set_stack_toks in Hx.
    apply in_app_or in Hx as [Hx|Hx].
    + apply in_or_app; left. apply (in_app_perm _ _ x (Permutation_sym Pi)). right. exact Hx.
    + rewrite <- app_assoc in Hx. apply in_app_or in Hx as [Hx|Hx].
      * apply in_or_app; right. apply (in_app_perm _ _ x (Permutation_sym Hperm)). apply in_or_app; left; exact Hx.
      * cbn [app] in Hx. destruct Hx as [<-|Hx].
        -- apply in_or_app; left. apply (in_app_perm _ _ t (Permutation_sym Pi)). left; reflexivity.
        -- apply in_or_app; right. apply (in_app_perm _ _ x (Permutation_sym Hperm)). apply in_or_app; right; exact Hx.
  - rewrite set_stack_toks. eapply Permutation_NoDup; [|exact Hnd].
    etransitivity; [apply Permutation_app; [exact Pi | exact Hperm]|].
    cbn [app]. rewrite <- (app_assoc (stk (store g) k) [t]). cbn [app].
    rewrite !app_assoc. apply Permutation_middle.
  - intros x Hx. apply in_app_or in Hx as [Hx|Hx].
    + exact (set_stack_keys k _ (store g) K HkS HkK x Hx).
    + apply Hk, in_or_app; right. exact (Hkincl x Hx).
Qed.

Lemma success_sim K g infl c rid :
  R K g infl c -> R K g (drop_rid rid infl) (cquiet c (Success rid)).
Proof.
  intros (Hi & Ha & Hnk & Hne & Hlt & Hall & Hnd & Hk).
  destruct (drop_rid_sub rid infl) as (rest & P & I).
  cbn [cquiet]. unfold R. cbn [cinfl avail seen]. rewrite Hi.
  repeat split; try assumption.
  - intros x Hx. apply Hall. apply in_app_or in Hx as [Hx|Hx]; apply in_or_app; [left|right; exact Hx].
    apply (in_app_perm _ _ x (Permutation_sym P)). apply in_or_app; right; exact Hx.
  - assert (Hd : NoDup ((rest ++ itoks (drop_rid rid infl)) ++ toks (store g))).
    { eapply Permutation_NoDup; [|exact Hnd]. apply Permutation_app_tail. exact P. }
    rewrite <- app_assoc in Hd. exact (nodup_app_r _ _ Hd).
  - intros x Hx. apply Hk. apply in_app_or in Hx as [Hx|Hx]; apply in_or_app; [left; exact Hx | right; exact (I x Hx)].
Qed.

Lemma R_init K : R K {| store := []; next := 0 |} [] cinit.
Proof.
  unfold R, cinit; cbn. repeat split; try constructor; try tauto; try discriminate.
  intros x [].
Qed.

(* every history: what the generator model hands out satisfies the property checker,
   as long as the LRU never has to evict (at most cap distinct request hashes) *)
Lemma model_meets_spec cap K ops : forall g infl c,
  fits cap K -> R K g infl c -> incl (keys_of ops) K ->
  crun c ops (mrun cap (g, infl) ops) = true.
Proof.
  induction ops as [|o ops IH]; intros g infl c Hf HR Hinc; [reflexivity|].
  assert (Hinc' : incl (keys_of ops) K).
  { intros x Hx. apply Hinc. cbn [keys_of flat_map]. apply in_or_app; right; exact Hx. }
  destruct o as [rid [k|] | rid | rid]; cbn [mrun mstep crun].
  - assert (HkK : In k K) by (apply Hinc; left; reflexivity).
    pose proof (issue_sim cap K g infl c rid k Hf HR HkK) as Hs.
    destruct (generate cap g k) as [t g']. destruct Hs as (c' & Hc & HR').
    rewrite Hc. apply IH; assumption.
  - cbn [cstep]. rewrite Z.eqb_refl. apply IH; assumption.
  - destruct (find_rid rid infl) as [[k t]|] eqn:Ef.
    + apply IH; try assumption. eapply rollback_sim; eassumption.
    + apply IH; try assumption. destruct HR as (Hi & HR). cbn [cquiet]. rewrite Hi, Ef. split; assumption.
  - apply IH; try assumption. apply success_sim. exact HR.
Qed.

Lemma fits_of_nodup_length cap (K : list hkey) :
  (forall l, NoDup l -> incl l K -> (length l <= cap)%nat) -> fits cap K.
Proof. exact (fun H => H). Qed.

(* ---- meaning of the checker: accepted tokens never collide in flight ----------- *)
Definition ctoks (c : cstate) : list token := itoks (cinfl c).

Lemma cstep_inflight_distinct c rid k t c' :
  NoDup (ctoks c) -> cstep c (Issue rid (Some k)) t = Some c' -> NoDup (ctoks c').
Proof.
  unfold ctoks. intros Hn. cbn [cstep]. fold (itoks (cinfl c)).
  destruct (memb t (itoks (cinfl c))) eqn:Em; [discriminate|].
  apply memb_notin in Em.
  destruct (avail c k) as [|a av].
  - destruct (memb t (seen c)); [discriminate|]. intros H; inversion H; subst; cbn [cinfl itoks map snd].
    constructor; assumption.
  - destruct (memb t (a :: av)); [|discriminate]. intros H; inversion H; subst; cbn [cinfl itoks map snd].
    constructor; assumption.
Qed.

(* a token accepted for a request that is not a retry was never seen before *)
Lemma cstep_fresh_unless_retry c rid k t c' :
  avail c k = [] -> cstep c (Issue rid (Some k)) t = Some c' -> ~ In t (seen c).
Proof.
  intros Ha. cbn [cstep]. destruct (memb t _); [discriminate|]. rewrite Ha.
  destruct (memb t (seen c)) eqn:E; [discriminate|]. intros _. apply memb_notin. exact E.
Qed.

(* a retry (a rolled-back identical request exists) gets one of ITS rolled-back tokens *)
Lemma cstep_retry_reuses c rid k t c' :
  avail c k <> [] -> cstep c (Issue rid (Some k)) t = Some c' -> In t (avail c k).
Proof.
  intros Ha. cbn [cstep]. destruct (memb t _); [discriminate|].
  destruct (avail c k) as [|a av] eqn:E; [contradiction|].
  destruct (memb t (a :: av)) eqn:Em; [|discriminate]. intros _. apply memb_in. exact Em.
Qed.

(* ---- tag order does not matter ---------------------------------------------------- *)
Lemma lex_ltb_irrefl a : lex_ltb a a = false.
Proof. induction a as [|x a IH]; cbn [lex_ltb]; [reflexivity|]. rewrite Z.ltb_irrefl. exact IH. Qed.

Lemma lex_ltb_trans a : forall b c, lex_ltb a b = true -> lex_ltb b c = true -> lex_ltb a c = true.
Proof.
  induction a as [|x a IH]; intros [|y b] [|z c]; cbn [lex_ltb]; try congruence.
  destruct (x <? y) eqn:E1, (y <? x) eqn:E2, (y <? z) eqn:E3, (z <? y) eqn:E4;
    try congruence; try lia; intros H1 H2.
  all: try (assert (x <? z = true) as -> by lia; reflexivity).
  assert (x = y) by lia. assert (y = z) by lia. subst.
  rewrite Z.ltb_irrefl. apply (IH b c); assumption.
Qed.

Lemma lex_ltb_total a : forall b, lex_ltb a b = false -> lex_ltb b a = false -> a = b.
Proof.
  induction a as [|x a IH]; intros [|y b]; cbn [lex_ltb]; try congruence.
  destruct (x <? y) eqn:E1, (y <? x) eqn:E2; try congruence; try lia.
  intros H1 H2. assert (x = y) by lia. subst. f_equal. apply IH; assumption.
Qed.

Inductive sorted_tags : list tag -> Prop :=
| st_nil : sorted_tags []
| st_one t : sorted_tags [t]
| st_cons t u l : lex_ltb (fst t) (fst u) = true -> sorted_tags (u :: l) -> sorted_tags (t :: u :: l).

Lemma insert_sorted t l :
  sorted_tags l -> ~ In (fst t) (map fst l) -> sorted_tags (insert_tag t l).
Proof.
  induction 1 as [|u|u v l Huv Hs IH]; cbn [insert_tag map In fst]; intros Hn.
  - constructor.
  - destruct (lex_ltb (fst u) (fst t)) eqn:E.
    + constructor; [exact E | constructor].
    + constructor; [|constructor].
      destruct (lex_ltb (fst t) (fst u)) eqn:E2; [reflexivity|].
      exfalso. apply Hn. left. symmetry. apply lex_ltb_total; assumption.
  - destruct (lex_ltb (fst u) (fst t)) eqn:E.
    + cbn [insert_tag] in IH. destruct (lex_ltb (fst v) (fst t)) eqn:E2.
      * constructor; [exact Huv|]. apply IH. cbn [map In fst]. tauto.
      * constructor; [exact E|]. apply IH. cbn [map In fst]. tauto.
    + constructor; [|constructor; assumption].
      destruct (lex_ltb (fst t) (fst u)) eqn:E2; [reflexivity|].
      exfalso. apply Hn. left. symmetry. apply lex_ltb_total; assumption.
Qed.

Lemma insert_perm t l : Permutation (insert_tag t l) (t :: l).
Proof.
  induction l as [|h r IH]; cbn [insert_tag]; [apply Permutation_refl|].
  destruct (lex_ltb (fst h) (fst t)); [|apply Permutation_refl].
  etransitivity; [apply perm_skip; exact IH | apply perm_swap].
Qed.

Lemma sort_perm l : Permutation (sort_tags l) l.
Proof.
  induction l as [|t l IH]; cbn [sort_tags fold_right]; [constructor|].
  etransitivity; [apply insert_perm | apply perm_skip; exact IH].
Qed.

Lemma sort_sorted l : NoDup (map fst l) -> sorted_tags (sort_tags l).
Proof.
  induction l as [|t l IH]; cbn [sort_tags fold_right map]; intros H; [constructor|].
  inversion H as [|? ? Hn Hd]; subst. apply insert_sorted; [apply IH; exact Hd|].
  intros Hin. apply Hn. eapply Permutation_in; [|exact Hin].
  apply Permutation_map. apply sort_perm.
Qed.

Lemma sorted_head_min t l : sorted_tags (t :: l) -> forall u, In u l -> lex_ltb (fst t) (fst u) = true.
Proof.
  revert t. induction l as [|v l IH]; intros t Hs u Hu; [contradiction|].
  inversion Hs as [| |? ? ? Htv Hs']; subst. destruct Hu as [<-|Hu]; [exact Htv|].
  eapply lex_ltb_trans; [exact Htv | apply IH; assumption].
Qed.

Lemma sorted_perm_eq l : forall l', sorted_tags l -> sorted_tags l' -> Permutation l l' -> l = l'.
Proof.
  induction l as [|t l IH]; intros l' Hs Hs' P.
  - apply Permutation_nil in P. congruence.
  - destruct l' as [|t' l']; [apply Permutation_sym, Permutation_nil in P; discriminate|].
    assert (Ht : t = t').
    { assert (Hin : In t (t' :: l')) by (eapply Permutation_in; [exact P | left; reflexivity]).
      assert (Hin' : In t' (t :: l)) by (eapply Permutation_in; [exact (Permutation_sym P) | left; reflexivity]).
      destruct Hin as [E|Hin]; [congruence|]. destruct Hin' as [E|Hin']; [congruence|].
      pose proof (sorted_head_min t' l' Hs' t Hin) as H1.
      pose proof (sorted_head_min t l Hs t' Hin') as H2.
      pose proof (lex_ltb_trans _ _ _ H1 H2) as H3. rewrite lex_ltb_irrefl in H3. discriminate. }
    subst t'. f_equal. apply IH.
    + inversion Hs; subst; [constructor | assumption].
    + inversion Hs'; subst; [constructor | assumption].
    + eapply Permutation_cons_inv. exact P.
Qed.

Lemma sort_tags_perm_invariant l l' :
  NoDup (map fst l) -> Permutation l l' -> sort_tags l = sort_tags l'.
Proof.
  intros Hn P. apply sorted_perm_eq.
  - apply sort_sorted; exact Hn.
  - apply sort_sorted. eapply Permutation_NoDup; [apply Permutation_map; exact P | exact Hn].
  - etransitivity; [apply sort_perm|]. etransitivity; [exact P | symmetry; apply sort_perm].
Qed.
