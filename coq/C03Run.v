(* C03Run.v — C03 is decided on two harnesses: the cluster IPAM controller (IpamRun) and, for the node agent's
   side ("teardown is reported only for the pod whose DEL was processed"), the daemon's service harness (SvcRun);
   the cases of the latter carry the marker 9; the cases of the teardown-report harness (RtRun) the marker 8. *)
From Coq Require Import ZArith List Bool.
From TV Require Import Codec IpamRun SvcRun RtRun.
Import ListNotations.
Local Open Scope Z_scope.

Definition run_c03 (l : list Z) : list Z :=
  match l with 9 :: r => run_svc r | 8 :: r => run_rt r | _ => run_ipam l end.
Definition chk_c03_all (l o : list Z) : bool :=
  match l with 9 :: r => chk_c03d r o | 8 :: r => chk_rt r o | _ => chk_c03 l o end.
Definition why_c03 (l o : list Z) : Z :=
  match l with 9 :: r => why_svc 3 r o | 8 :: r => why_rt r o * 100000 | _ => why_ipam 3 l o end.
