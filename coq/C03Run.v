(* C03Run.v — C03 is decided on two harnesses: the cluster IPAM controller (IpamRun) and, for the node agent's
   side ("teardown is reported only for the pod whose DEL was processed"), the daemon's service harness (SvcRun);
   the cases of the latter carry the marker 9. *)
From Coq Require Import ZArith List Bool.
From TV Require Import Codec IpamRun SvcRun.
Import ListNotations.
Local Open Scope Z_scope.

Definition run_c03 (l : list Z) : list Z :=
  match l with 9 :: r => run_svc r | _ => run_ipam l end.
Definition chk_c03_all (l o : list Z) : bool :=
  match l with 9 :: r => chk_c03d r o | _ => chk_c03 l o end.
Definition why_c03 (l o : list Z) : Z :=
  match l with 9 :: r => why_svc 3 r o | _ => why_ipam 3 l o end.
