(* C18Proofs.v *)
From Coq Require Import ZArith List Bool Lia.
From Coq Require Import ZifyBool.
From TV Require Import Codec C18Model.
Import ListNotations.
Local Open Scope Z_scope.

Definition entry_ok (n : pnet) : Prop :=
  1 <= w_iflen n <= 5 /\ w_nsg n <= 10 /\ (w_alloc n = 1 \/ w_alloc n = 2).

Definition alloc_in (n : pnet) : Prop := 0 <= w_alloc n <= 3.

Lemma existsb_false_forall {A} (f : A -> bool) l : existsb f l = false -> forall m, In m l -> f m = false.
Proof. induction l as [|x l IH]; cbn [existsb]; [intros _ m []|]. intros H m [<-|Hm]; apply orb_false_iff in H as [H1 H2]; [exact H1 | exact (IH H2 m Hm)]. Qed.

Lemma validate_ok fixed_name l : forall seen ns req up,
  Forall alloc_in l ->
  validate fixed_name seen l = VOk ns req up ->
  Forall entry_ok ns /\
  length ns = length l /\
  (forall n, In n ns -> forall m, In m seen -> same_if n m = false) /\
  ForallOrdPairs (fun a b => same_if b a = false) ns /\
  (up = true -> fixed_name = true) /\
  (req = false -> Forall (fun n => w_nvsw n <> 0 /\ w_nsg n <> 0) ns) /\
  Forall2 (fun a b => w_iflen a = w_iflen b /\ w_ifid a = w_ifid b /\ w_nvsw a = w_nvsw b /\ w_nsg a = w_nsg b /\ w_attach_eni a = w_attach_eni b) l ns.
Proof.
  induction l as [|n r IH]; intros seen ns req up Hal; cbn [validate].
  - intros H; inversion H; subst. repeat split; try constructor; try discriminate; intros; contradiction.
  - inversion Hal as [|? ? Hn Hr]; subst. unfold alloc_in in Hn.
    destruct (10 <? w_nsg n) eqn:E1; [discriminate|].
    destruct ((w_iflen n <=? 0) || (6 <=? w_iflen n)) eqn:E2; [discriminate|].
    destruct (existsb (same_if n) seen) eqn:E3; [discriminate|].
    set (al := if (w_alloc n =? 0) || (w_alloc n =? 3) then 1 else w_alloc n).
    destruct ((al =? 2) && negb fixed_name) eqn:E4; [discriminate|].
    destruct (validate fixed_name (n :: seen) r) as [|ns' req' up'] eqn:Ev; [discriminate|].
    intros H; inversion H; subst; clear H.
    destruct (IH _ _ _ _ Hr Ev) as (H1 & H2 & H3 & Hp & H4 & H5 & H6).
    assert (Hal' : al = 1 \/ al = 2) by (subst al; destruct ((w_alloc n =? 0) || (w_alloc n =? 3)) eqn:E; lia).
    repeat split.
    + constructor; [|exact H1]. unfold entry_ok; cbn [w_iflen w_nsg w_alloc]. lia.
    + cbn [length]. rewrite H2. reflexivity.
    + intros x [<-|Hx] m Hm.
      * unfold same_if; cbn [w_iflen w_ifid]. exact (existsb_false_forall _ _ E3 m Hm).
      * apply (H3 x Hx m). right. exact Hm.
    + constructor; [|exact Hp]. rewrite Forall_forall. intros b Hb.
      pose proof (H3 b Hb n (or_introl eq_refl)) as Hs. unfold same_if in *. cbn [w_iflen w_ifid]. exact Hs.
    + intros Hup. apply orb_prop in Hup as [Hup|Hup]; [exact (H4 Hup)|]. destruct fixed_name; [reflexivity|]. cbn [negb] in E4. lia.
    + intros Hreq. apply orb_false_iff in Hreq as [Hreq Hsg]. apply orb_false_iff in Hreq as [Hreq Hvsw].
      constructor; [cbn [w_nvsw w_nsg]; lia | exact (H5 Hreq)].
    + constructor; [cbn; repeat split; reflexivity | exact H6].
Qed.


Lemma zinter_incl_l a b : incl (zinter a b) a.
Proof. unfold zinter. intros x Hx. apply filter_In in Hx. tauto. Qed.
Lemma zinter_incl_r a b : incl (zinter a b) b.
Proof. unfold zinter. intros x Hx. apply filter_In in Hx as [_ Hx]. apply existsb_exists in Hx as (y & Hy & E).
  apply Z.eqb_eq in E. subst. exact Hy. Qed.

Lemma insert_z_in x l y : In y (insert_z x l) -> y = x \/ In y l.
Proof. induction l as [|z l IH]; cbn [insert_z]; [intros [<-|[]]; left; reflexivity|].
  destruct (x <? z); [intros [<-|H]; [left; reflexivity | right; exact H]|].
  destruct (x =? z); [intros H; right; exact H|]. intros [<-|H]; [right; left; reflexivity|].
  destruct (IH H) as [->|H']; [left; reflexivity | right; right; exact H']. Qed.
Lemma zset_incl l : incl (zset l) l.
Proof. induction l as [|x l IH]; [apply incl_refl|]. cbn [zset fold_right]. intros y Hy.
  apply insert_z_in in Hy as [->|Hy]; [left; reflexivity | right; exact (IH y Hy)]. Qed.

(* the zone list handed to the affinity lies inside the zones of EVERY requested network *)
Lemma requests_zones l : forall first acc ns z,
  requests first acc l = Some (ns, z) ->
  (forall q, In q l -> incl z (k_zones (q_pn q))) /\ (first = false -> incl z acc) /\ length ns = length l.
Proof.
  induction l as [|q r IH]; intros first acc ns z; cbn [requests].
  - intros H; inversion H; subst. split; [intros q []|]. split; [intros _; apply incl_refl | reflexivity].
  - destruct (negb (k_exists (q_pn q)) || negb (k_ready (q_pn q)) || k_has_sel (q_pn q)); [discriminate|].
    destruct (requests false _ r) as [[ns' z']|] eqn:Er; [|discriminate].
    intros H; inversion H; subst; clear H.
    destruct (IH _ _ _ _ Er) as (H1 & H2 & H3). specialize (H2 eq_refl).
    split; [|split].
    + intros q' [<-|Hq]; [|exact (H1 q' Hq)].
      destruct first.
      * eapply incl_tran; [exact H2 | apply zset_incl].
      * eapply incl_tran; [exact H2|]. eapply incl_tran; [apply zinter_incl_r | apply zset_incl].
    + intros ->. eapply incl_tran; [exact H2 | apply zinter_incl_l].
    + cbn [length]. rewrite H3. reflexivity.
Qed.

Lemma fill_defaults_keeps i n :
  w_iflen (fill_defaults i n) = w_iflen n /\ w_ifid (fill_defaults i n) = w_ifid n /\
  w_alloc (fill_defaults i n) = w_alloc n /\ w_attach_eni (fill_defaults i n) = w_attach_eni n /\
  (w_nsg n <> 0 -> w_nsg (fill_defaults i n) = w_nsg n).
Proof. unfold fill_defaults; cbn; repeat split; try reflexivity.
  intros H. destruct (w_nsg n =? 0) eqn:E; [lia | reflexivity]. Qed.

Definition complete (i : inp) (ns : list pnet) (c : Z) : Prop :=
  Forall (fun n => 1 <= w_iflen n <= 5 /\ (w_alloc n = 1 \/ w_alloc n = 2) /\ (w_alloc n = 2 -> i_fixed_name i = true)) ns /\
  ForallOrdPairs (fun a b => same_if b a = false) ns /\
  ns <> [] /\
  (i_inject i = true -> c = Z.of_nat (length ns)).

Lemma forallordpairs_map {A} (R : A -> A -> Prop) (f : A -> A) l :
  (forall a b, R a b -> R (f a) (f b)) -> ForallOrdPairs R l -> ForallOrdPairs R (map f l).
Proof. intros Hf H. induction H as [|a l Ha Hp IH]; cbn [map]; constructor; [|exact IH].
  rewrite Forall_forall in *. intros y Hy. apply in_map_iff in Hy as (x & <- & Hx). apply Hf, Ha, Hx. Qed.

Lemma finish_complete i nets vz ns c e aff :
  nets <> [] -> Forall alloc_in nets -> finish i nets vz = Patched ns c e aff -> complete i ns c.
Proof.
  intros Hne Hal. unfold finish.
  destruct (validate (i_fixed_name i) [] nets) as [|vs req up] eqn:Ev; [discriminate|].
  destruct (validate_ok _ _ _ _ _ _ Hal Ev) as (H1 & H2 & _ & Hp & H4 & _ & _).
  destruct (req && negb (i_cfg_ok i)); [discriminate|].
  intros H; inversion H; subst; clear H.
  assert (Hfixed : Forall (fun n => w_alloc n = 2 -> i_fixed_name i = true) vs).
  { clear -Ev. revert Ev. generalize (@nil pnet) as seen. revert vs req up.
    induction nets as [|n r IH]; intros vs req up seen; cbn [validate].
    - intros H; inversion H; constructor.
    - destruct (10 <? w_nsg n); [discriminate|]. destruct ((w_iflen n <=? 0) || (6 <=? w_iflen n)); [discriminate|].
      destruct (existsb (same_if n) seen); [discriminate|].
      destruct (((if (w_alloc n =? 0) || (w_alloc n =? 3) then 1 else w_alloc n) =? 2) && negb (i_fixed_name i)) eqn:E4; [discriminate|].
      destruct (validate (i_fixed_name i) (n :: seen) r) as [|ns' req' up'] eqn:Ev; [discriminate|].
      intros H; inversion H; subst. constructor; [|eapply IH; exact Ev]. cbn [w_alloc]. intros H2. rewrite H2 in E4.
      destruct (i_fixed_name i); [reflexivity | discriminate]. }
  unfold complete.
  destruct req.
  - split; [|split; [|split]].
    + rewrite Forall_forall in *. intros y Hy. apply in_map_iff in Hy as (x & <- & Hx).
      destruct (fill_defaults_keeps i x) as (E1 & E2 & E3 & _). rewrite E1, E3.
      specialize (H1 x Hx). specialize (Hfixed x Hx). unfold entry_ok in H1. tauto.
    + apply forallordpairs_map; [|exact Hp]. intros a b Hab. unfold same_if in *.
      destruct (fill_defaults_keeps i a) as (A1 & A2 & _). destruct (fill_defaults_keeps i b) as (B1 & B2 & _).
      rewrite A1, A2, B1, B2. exact Hab.
    + destruct vs; [destruct nets; [congruence | discriminate]|discriminate].
    + intros ->. rewrite map_length. reflexivity.
  - split; [|split; [|split]].
    + rewrite Forall_forall in *. intros x Hx. specialize (H1 x Hx). specialize (Hfixed x Hx). unfold entry_ok in H1. tauto.
    + exact Hp.
    + destruct vs; [destruct nets; [congruence | discriminate]|discriminate].
    + intros ->. reflexivity.
Qed.

(* every entry of a patched pod carries vSwitches and security groups whenever the cluster's
   eni-config provides some (entries that bring their own keep them) *)
Lemma finish_filled i nets vz ns c e aff :
  Forall alloc_in nets -> finish i nets vz = Patched ns c e aff ->
  i_cfg_nvsw i <> 0 -> i_cfg_nsg i <> 0 ->
  Forall (fun n => w_nvsw n <> 0 /\ w_nsg n <> 0) ns.
Proof.
  intros Hal. unfold finish.
  destruct (validate (i_fixed_name i) [] nets) as [|vs req up] eqn:Ev; [discriminate|].
  destruct (validate_ok _ _ _ _ _ _ Hal Ev) as (_ & _ & _ & _ & _ & H5 & _).
  destruct (req && negb (i_cfg_ok i)); [discriminate|].
  intros H Hv Hs; inversion H; subst; clear H.
  destruct req.
  - rewrite Forall_forall. intros y Hy. apply in_map_iff in Hy as (x & <- & _).
    unfold fill_defaults; cbn [w_nvsw w_nsg].
    destruct (w_nvsw x =? 0) eqn:E1; destruct (w_nsg x =? 0) eqn:E2; split; try assumption; lia.
  - exact (H5 eq_refl).
Qed.

Lemma finish_sg i nets vz ns c e aff :
  Forall alloc_in nets -> finish i nets vz = Patched ns c e aff ->
  i_cfg_nsg i <= 10 -> Forall (fun n => w_nsg n <= 10) ns.
Proof.
  intros Hal. unfold finish.
  destruct (validate (i_fixed_name i) [] nets) as [|vs req up] eqn:Ev; [discriminate|].
  destruct (validate_ok _ _ _ _ _ _ Hal Ev) as (H1 & _).
  destruct (req && negb (i_cfg_ok i)); [discriminate|].
  intros H Hs; inversion H; subst; clear H.
  assert (Hvs : Forall (fun n => w_nsg n <= 10) vs).
  { rewrite Forall_forall in *. intros x Hx. destruct (H1 x Hx) as (_ & Hx2 & _). exact Hx2. }
  destruct req; [|exact Hvs].
  rewrite Forall_forall in *. intros y Hy. apply in_map_iff in Hy as (x & <- & Hx).
  unfold fill_defaults; cbn [w_nsg]. specialize (Hvs x Hx). destruct (w_nsg x =? 0); lia.
Qed.

(* ---- proofs of the statements in Props_C18.v ---- *)
Lemma c18_untouched_hostnet_ignored_pf : forall i,
  i_hostnet i = true \/ (i_ncont i <> 0 /\ i_ignored i = true) -> pod_webhook i = Allowed.
Proof. intros i [H|[Hc H]]; unfold pod_webhook; rewrite H; [reflexivity|].
  destruct (i_hostnet i); [reflexivity|]. destruct (i_ncont i =? 0) eqn:E; [reflexivity|]. reflexivity. Qed.

Lemma c18_untouched_no_match_pf : forall i,
  i_crd i = false -> i_use_eni i = false ->
  i_has_nets i = false -> i_has_req i = false -> i_has_pning i = false ->
  i_ns_exists i = true -> (i_fixed_name i && i_prev_err i = false) ->
  match_one (i_fixed_name i) (i_pns i) = None -> pod_webhook i = Allowed.
Proof.
  intros i Hc Hu H1 H2 H3 Hns Hpe Hm. unfold pod_webhook. rewrite H1, H2, H3, Hc, Hu, Hns, Hpe, Hm. cbn [andb orb negb].
  destruct (i_hostnet i); [reflexivity|]. destruct (i_ncont i =? 0); [reflexivity|]. destruct (i_ignored i); [reflexivity|].
  destruct (i_pns i); reflexivity.
Qed.

Lemma c18_conflicting_annotations_denied_pf : forall i,
  i_hostnet i = false -> i_ncont i <> 0 -> i_ignored i = false ->
  ((i_has_nets i && i_has_req i) || (i_has_nets i && i_has_pning i) || (i_has_req i && i_has_pning i)) = true ->
  pod_webhook i = Denied.
Proof. intros i H1 H2 H3 H4. unfold pod_webhook. rewrite H1, H3, H4.
  destruct (i_ncont i =? 0) eqn:E; [apply Z.eqb_eq in E; contradiction | reflexivity]. Qed.

Lemma webhook_patched_via_finish : forall i ns c e aff,
  Forall alloc_in (i_nets i) -> pod_webhook i = Patched ns c e aff ->
  exists nets vz, nets <> [] /\ Forall alloc_in nets /\ finish i nets vz = Patched ns c e aff.
Proof.
  intros i ns c e aff Hal. unfold pod_webhook.
  assert (Hd : alloc_in {| w_iflen := 4; w_ifid := 1; w_nvsw := 0; w_nsg := 0; w_alloc := 0; w_attach_eni := false |})
    by (unfold alloc_in; cbn; split; discriminate).
  assert (Hk : forall k a b, alloc_in (of_pn k a b)) by (intros k a b; unfold alloc_in, of_pn; cbn; destruct (k_fixed k); split; discriminate).
  destruct (i_hostnet i); [discriminate|].
  destruct (i_ncont i =? 0); [discriminate|].
  destruct (i_ignored i); [discriminate|].
  match goal with |- (if ?b then _ else _) = _ -> _ => destruct b; [discriminate|] end.
  match goal with |- (if ?b then _ else _) = _ -> _ => destruct b; [discriminate|] end.
  match goal with |- (if ?b then _ else _) = _ -> _ => destruct b; [discriminate|] end.
  cbv zeta.
  destruct (if i_has_nets i then i_nets i else []) as [|n0 r0] eqn:En.
  - repeat match goal with
           | |- (if ?b then _ else _) = _ -> _ => destruct b; try discriminate
           end.
    destruct (if i_has_req i then i_reqs i else []) as [|q0 qr] eqn:Eq.
    + destruct (i_pns i) as [|k0 kr] eqn:Ep.
      * destruct (negb (i_crd i) && negb (i_use_eni i)); [discriminate|].
        intros H; eexists _, _; split; [|split; [|exact H]]; [discriminate | constructor; [exact Hd | constructor]].
      * destruct (negb (i_ns_exists i)); [discriminate|].
        destruct (match_one (i_fixed_name i) (k0 :: kr)) as [k|].
        -- intros H; eexists _, _; split; [|split; [|exact H]]; [discriminate | constructor; [apply Hk | constructor]].
        -- destruct (negb (i_crd i) && negb (i_use_eni i)); [discriminate|].
           intros H; eexists _, _; split; [|split; [|exact H]]; [discriminate | constructor; [exact Hd | constructor]].
    + destruct (requests true [] (q0 :: qr)) as [[rs z]|] eqn:Er; [|discriminate].
      destruct (requests_zones _ _ _ _ _ Er) as (_ & _ & Hlen).
      intros H; exists rs, z; split; [|split; [|exact H]].
      * destruct rs; [cbn in Hlen; discriminate Hlen | intro Hx; discriminate Hx].
      * clear -Er Hk. revert Er. generalize true, (@nil Z). revert rs z.
        induction (q0 :: qr) as [|q l IH]; intros rs z f acc; cbn [requests].
        -- intros H; inversion H; constructor.
        -- destruct (negb _ || negb _ || _); [discriminate|].
           destruct (requests false _ l) as [[ns' z']|] eqn:E; [|discriminate].
           intros H; inversion H; subst. constructor; [destruct (q_iflen q =? 0); apply Hk | eapply IH; exact E].
  - intros H; exists (n0 :: r0), []; split; [|split; [|exact H]]; [discriminate|].
    destruct (i_has_nets i); [rewrite <- En; exact Hal | discriminate].
Qed.

Lemma c18_complete_pf : forall i ns c e aff,
  Forall alloc_in (i_nets i) -> pod_webhook i = Patched ns c e aff -> complete i ns c.
Proof.
  intros i ns c e aff Hal H. destruct (webhook_patched_via_finish _ _ _ _ _ Hal H) as (nets & vz & Hne & Hal' & Hf).
  exact (finish_complete _ _ _ _ _ _ _ Hne Hal' Hf).
Qed.

Lemma c18_vswitch_sg_present_pf : forall i ns c e aff,
  Forall alloc_in (i_nets i) -> pod_webhook i = Patched ns c e aff ->
  i_cfg_nvsw i <> 0 -> i_cfg_nsg i <> 0 ->
  Forall (fun n => w_nvsw n <> 0 /\ w_nsg n <> 0) ns.
Proof.
  intros i ns c e aff Hal H. destruct (webhook_patched_via_finish _ _ _ _ _ Hal H) as (nets & vz & _ & Hal' & Hf).
  exact (finish_filled _ _ _ _ _ _ _ Hal' Hf).
Qed.

Lemma c18_at_most_ten_sg_pf : forall i ns c e aff,
  Forall alloc_in (i_nets i) -> pod_webhook i = Patched ns c e aff ->
  i_cfg_nsg i <= 10 -> Forall (fun n => w_nsg n <= 10) ns.
Proof.
  intros i ns c e aff Hal H. destruct (webhook_patched_via_finish _ _ _ _ _ Hal H) as (nets & vz & _ & Hal' & Hf).
  exact (finish_sg _ _ _ _ _ _ _ Hal' Hf).
Qed.

Lemma c18_zone_affinity_pf : forall qs ns z,
  requests true [] qs = Some (ns, z) -> forall q, In q qs -> incl z (k_zones (q_pn q)).
Proof. intros qs ns z H. exact (proj1 (requests_zones _ _ _ _ _ H)). Qed.
