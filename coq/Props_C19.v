(* Props_C19.v — property C19 stated against C19Model (default capacity ratio 1). *)
From Coq Require Import ZArith List Bool.
From TV Require Import C19Model C19Proofs.
Import ListNotations.
Local Open Scope Z_scope.

(* interface slots the daemon will use never exceed the attachable secondaries *)
Theorem c19_slots : forall c l,
  1 <= adapters l -> c_shift c <= 0 -> c_multi_ip c = true ->
  0 <= p_max_eni (get_pool_config c l) <= adapters l - 1.
Proof. exact pool_slots. Qed.
Print Assumptions c19_slots.

(* advertised pod-IP capacity = slots x addresses per interface <= what the instance delivers *)
Theorem c19_ip_capacity : forall c l,
  1 <= adapters l -> c_shift c <= 0 -> 0 <= ipv4per l ->
  let p := get_pool_config c l in
  p_capacity p = p_max_eni p * p_ip_per_eni p /\ p_ip_per_eni p <= ipv4per l /\
  0 <= p_capacity p <= (adapters l - 1) * ipv4per l.
Proof. exact pool_capacity. Qed.
Print Assumptions c19_ip_capacity.

(* 0 <= min <= max <= capacity for EVERY configured pool size / eni count / shift *)
Theorem c19_watermarks : forall c l,
  0 <= ipv4per l ->
  let p := get_pool_config c l in
  0 <= p_min_pool p <= p_max_pool p /\ p_max_pool p <= p_capacity p.
Proof. exact pool_watermarks. Qed.
Print Assumptions c19_watermarks.

Theorem c19_member : forall c l, p_max_member (get_pool_config c l) <= Z.max 0 (member l).
Proof. exact pool_member. Qed.
Print Assumptions c19_member.

Theorem c19_erdma : forall c l,
  0 <= ipv4per l ->
  0 <= p_erdma_cap (get_pool_config c l) <= Z.min 2 (Z.max 0 (erdma_adapters l)) * ipv4per l.
Proof. exact pool_erdma. Qed.
Print Assumptions c19_erdma.

Theorem c19_erdma_res : forall l,
  0 <= erdma_res l <= 2 /\ erdma_res l <= Z.max 0 (erdma_adapters l) /\ (0 < erdma_res l -> 3 <= adapters l).
Proof. exact erdma_res_bounds. Qed.
Print Assumptions c19_erdma_res.

(* the flavor published in the Node CR sums to the attachable secondaries, no negative count *)
Theorem c19_flavor_slots : forall a i4 i6 m eri st ct ce os ex mx mn,
  1 <= a ->
  let n := node_reconcile a i4 i6 m eri st ct ce os ex mx mn in
  flavor_sum (n_flavor n) = a - 1 /\ Forall (fun f => 0 <= f_count f) (n_flavor n).
Proof. exact node_flavor_sum. Qed.
Print Assumptions c19_flavor_slots.

(* the controller's node annotation computed from that flavor *)
Theorem c19_controller_annotation : forall a i4 i6 m eri st ct ce os ex mx mn,
  1 <= a -> 0 <= i4 ->
  let n := node_reconcile a i4 i6 m eri st ct ce os ex mx mn in
  0 <= k8s_anno i4 false (n_flavor n) <= (a - 1) * i4 /\
  0 <= k8s_anno i4 true (n_flavor n) <= a - 1.
Proof. exact node_anno_bound. Qed.
Print Assumptions c19_controller_annotation.

(* unsupported features are reported disabled: daemon side and CRD side *)
Theorem c19_unsupported_disabled_daemon : forall l multi stack trunking erdma oscap v4 v6 tr er,
  check_instance l multi stack trunking erdma oscap = (v4, v6, tr, er) ->
  (v6 = true -> 0 < ipv6per l /\ (multi = true -> ipv6per l = ipv4per l)) /\
  (tr = true -> 0 < member l /\ trunking = true) /\
  (er = true -> 0 < erdma_res l /\ oscap = true /\ erdma = true).
Proof. exact check_instance_sound. Qed.
Print Assumptions c19_unsupported_disabled_daemon.

Theorem c19_unsupported_disabled_node : forall a i4 i6 m eri st ct ce os ex mx mn,
  let n := node_reconcile a i4 i6 m eri st ct ce os ex mx mn in
  (n_v6 n = true -> i6 = i4) /\
  (n_trunk n = true -> 0 < m /\ ex = false) /\
  (n_erdma n = true -> 0 < eri /\ os = true).
Proof. exact node_features_sound. Qed.
Print Assumptions c19_unsupported_disabled_node.

Example c19_ex :
  let l := {| adapters := 8; ipv4per := 20; ipv6per := 20; member := 10; maxmember := 10; erdma_adapters := 4 |} in
  let c := {| c_max_eni := 0; c_min_eni := 0; c_shift := 0; c_max_pool := 500; c_min_pool := 3;
              c_erdma := true; c_crd := false; c_multi_ip := true |} in
  let p := get_pool_config c l in
  (p_max_eni p, p_capacity p, p_max_pool p, p_min_pool p, p_erdma_cap p) = (7, 140, 140, 3, 40).
Proof. vm_compute. reflexivity. Qed.
