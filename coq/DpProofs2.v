(* DpProofs2.v — a setup changes no rule of another address. *)
From Coq Require Import ZArith List Bool Lia.
From TV Require Import Codec DpModel DpProofs.
Import ListNotations.
Local Open Scope Z_scope.

(* a rule that is neither the to-rule nor the from-rule of address a (in any family) *)
Definition foreign (a : Z) (r : hrule) : Prop :=
  forall f t, same_sel r (mkHr 512 f 0 a 0) = false /\ same_sel r (mkHr 2048 f a 0 t) = false.

Lemma setup_fam_rules s a j g h f r : foreign a r ->
  (In r (h_rules (setup_fam s a j g h f)) <-> In r (h_rules h)).
Proof.
  intro Hf. unfold setup_fam. cbn [h_rules].
  destruct (Hf f (j * 10 + g)) as [H1 H2].
  rewrite (ensure_rule_other _ _ r H2). apply (ensure_rule_other _ _ r H1).
Qed.

Theorem setup_spares_other_rules s a j fam h r : foreign a r ->
  (In r (h_rules (setup s a j fam h)) <-> In r (h_rules h)).
Proof.
  intro Hf. unfold setup. destruct (eni_gen h j) as [g|]; [|tauto].
  set (h2 := mkH _ _ _ _ _).
  assert (R2 : h_rules h2 = h_rules h) by reflexivity.
  assert (G : forall l h0, (In r (h_rules (fold_left (setup_fam s a j g) l h0)) <-> In r (h_rules h0))).
  { induction l as [|f l IH]; intro h0; [tauto|]. cbn [fold_left]. rewrite IH. apply setup_fam_rules. exact Hf. }
  rewrite G, R2. tauto.
Qed.

(* the rules of another address b are foreign to a *)
Lemma other_address_foreign a r : hr_src r <> a -> hr_dst r <> a -> foreign a r.
Proof.
  intros Hs Hd f t. unfold same_sel. cbn [hr_prio hr_fam hr_src hr_dst].
  assert (E1 : hr_dst r =? a = false) by (apply Z.eqb_neq; exact Hd).
  assert (E2 : hr_src r =? a = false) by (apply Z.eqb_neq; exact Hs).
  rewrite E1, E2. split.
  - apply andb_false_r.
  - destruct (hr_prio r =? 2048), (hr_fam r =? f); reflexivity.
Qed.
