(* PoolSets.v — how the set operations of PoolModel act on single entries. *)
From Coq Require Import ZArith List Bool Lia.
From TV Require Import PoolModel PoolLib.
Import ListNotations.
Local Open Scope Z_scope.

Definition owner_of (s : iset) (a : Z) : Z := match find a s with Some e => e_owner e | None => 0 end.
Definition st_of (s : iset) (a : Z) : option ipst := option_map e_st (find a s).

Lemma find_set_owner b a pod s :
  find b (set_owner a pod s) =
  if b =? a then match find a s with Some e => Some (mkEnt pod (e_st e) (e_prim e)) | None => None end else find b s.
Proof.
  unfold set_owner. destruct (b =? a) eqn:E.
  - apply Z.eqb_eq in E; subst. destruct (find a s) as [e|] eqn:F; [apply find_put_same | exact F].
  - apply Z.eqb_neq in E. destruct (find a s) as [e|]; [apply find_put_other; congruence | reflexivity].
Qed.
Lemma find_release b a pod s :
  find b (release a pod s) =
  if b =? a then match find a s with
                 | Some e => Some (if e_owner e =? pod then mkEnt 0 (e_st e) (e_prim e) else e)
                 | None => None end
  else find b s.
Proof.
  unfold release. destruct (b =? a) eqn:E.
  - apply Z.eqb_eq in E; subst. destruct (find a s) as [e|] eqn:F; [|exact F].
    destruct (e_owner e =? pod); [apply find_put_same | exact F].
  - apply Z.eqb_neq in E. destruct (find a s) as [e|]; [|reflexivity].
    destruct (e_owner e =? pod); [apply find_put_other; congruence | reflexivity].
Qed.
Lemma find_dispose_ip b a s :
  find b (dispose_ip a s) =
  if b =? a then match find a s with
                 | Some e => Some (if e_prim e then e else mkEnt (e_owner e) Deleting (e_prim e))
                 | None => None end
  else find b s.
Proof.
  unfold dispose_ip. destruct (b =? a) eqn:E.
  - apply Z.eqb_eq in E; subst. destruct (find a s) as [e|] eqn:F; [|exact F].
    destruct (e_prim e); [exact F | apply find_put_same].
  - apply Z.eqb_neq in E. destruct (find a s) as [e|]; [|reflexivity].
    destruct (e_prim e); [reflexivity | apply find_put_other; congruence].
Qed.

Lemma find_put_fresh st prim ips : forall s b,
  find b (put_fresh st prim ips s) = if memz b ips then Some (mkEnt 0 st (b =? prim)) else find b s.
Proof.
  unfold put_fresh. induction ips as [|a r IH]; intros s b; cbn [fold_left memz existsb]; [reflexivity|].
  rewrite IH. fold (memz b r). destruct (memz b r) eqn:Em; [rewrite orb_true_r; reflexivity|]. rewrite orb_false_r.
  destruct (b =? a) eqn:E; [apply Z.eqb_eq in E; subst; apply find_put_same | apply find_put_other; apply Z.eqb_neq in E; congruence].
Qed.
Lemma keys_put_fresh st prim ips : forall s b, In b (keys (put_fresh st prim ips s)) <-> In b ips \/ In b (keys s).
Proof.
  unfold put_fresh. induction ips as [|a r IH]; intros s b; cbn [fold_left]; [cbn; tauto|].
  rewrite IH, In_keys_put. cbn [In]. split; [intros [H|[H|H]]; auto | intros [[H|H]|H]; auto].
Qed.
Lemma nodup_put_fresh st prim ips : forall s, NoDup (keys s) -> NoDup (keys (put_fresh st prim ips s)).
Proof. unfold put_fresh. induction ips as [|a r IH]; intros s Hn; cbn [fold_left]; [exact Hn | apply IH, nodup_put, Hn]. Qed.

Lemma find_del_all ips : forall s b, find b (del_all ips s) = if memz b ips then None else find b s.
Proof.
  unfold del_all. induction ips as [|a r IH]; intros s b; cbn [fold_left memz existsb]; [reflexivity|].
  rewrite IH. fold (memz b r). destruct (memz b r); [rewrite orb_true_r; reflexivity|]. rewrite orb_false_r.
  destruct (b =? a) eqn:E; [apply Z.eqb_eq in E; subst; apply find_del_same | apply find_del_other; apply Z.eqb_neq in E; congruence].
Qed.
Lemma keys_del_all_incl ips : forall s, incl (keys (del_all ips s)) (keys s).
Proof.
  unfold del_all. induction ips as [|a r IH]; intros s; cbn [fold_left]; [apply incl_refl|].
  eapply incl_tran; [apply IH | apply keys_del_incl].
Qed.

Lemma find_dispose_invalid b s :
  find b (dispose_invalid s) =
  option_map (fun e => if negb (in_use e) && negb (ipst_eqb (e_st e) Valid) && negb (e_prim e)
                       then mkEnt (e_owner e) Deleting (e_prim e) else e) (find b s).
Proof.
  unfold dispose_invalid. induction s as [|[k e0] r IH]; cbn [map find fst snd option_map]; [reflexivity|].
  destruct (k =? b) eqn:E.
  - destruct (negb (in_use e0) && negb (ipst_eqb (e_st e0) Valid) && negb (e_prim e0)) eqn:Ec; cbn [find fst option_map]; rewrite E, ?Ec; reflexivity.
  - destruct (negb (in_use e0) && negb (ipst_eqb (e_st e0) Valid) && negb (e_prim e0)); cbn [find fst]; rewrite E; exact IH.
Qed.
Lemma find_sync_set remote b s :
  find b (sync_set remote s) =
  option_map (fun e => if ipst_eqb (e_st e) Valid && negb (memz b remote) then mkEnt (e_owner e) Invalid (e_prim e) else e) (find b s).
Proof.
  unfold sync_set. induction s as [|[k e0] r IH]; cbn [map find fst snd option_map]; [reflexivity|].
  destruct (k =? b) eqn:E.
  - apply Z.eqb_eq in E; subst.
    destruct (ipst_eqb (e_st e0) Valid && negb (memz b remote)) eqn:Ec; cbn [find fst option_map]; rewrite Z.eqb_refl, ?Ec; reflexivity.
  - destruct (ipst_eqb (e_st e0) Valid && negb (memz k remote)); cbn [find fst]; rewrite E; exact IH.
Qed.
Lemma find_dispose_marks m : forall s b,
  find b (fold_left (fun acc a => dispose_ip a acc) m s) =
  if memz b m then option_map (fun e => if e_prim e then e else mkEnt (e_owner e) Deleting (e_prim e)) (find b s) else find b s.
Proof.
  induction m as [|a r IH]; intros s b; cbn [fold_left memz existsb]; [reflexivity|].
  rewrite IH, find_dispose_ip. fold (memz b r).
  destruct (b =? a) eqn:E; cbn [orb]; [|reflexivity].
  apply Z.eqb_eq in E; subst.
  destruct (find a s) as [e|]; [|destruct (memz a r); reflexivity]. cbn [option_map].
  destruct (memz a r); [|reflexivity].
  destruct (e_prim e) eqn:Ep; [rewrite Ep; reflexivity | cbn [e_prim e_owner]; reflexivity].
Qed.

Lemma ipst_eqb_eq a b : ipst_eqb a b = true <-> a = b.
Proof. destruct a, b; cbn; split; congruence. Qed.

(* what PeekAvailable can return *)
Lemma peek_ok_entry s pod c : c <> 0 -> peek_ok s pod c = true ->
  exists e, find c s = Some e /\ ((pod <> 0 /\ e_owner e = pod) \/ (e_st e = Valid /\ e_owner e = 0)).
Proof.
  intros Hc. unfold peek_ok. destruct (c =? 0) eqn:E; [apply Z.eqb_eq in E; contradiction|].
  destruct (find c s) as [e|]; [|discriminate]. intros H. exists e. split; [reflexivity|].
  destruct (has_owned pod s) eqn:Eo.
  - left. unfold has_owned in Eo. apply andb_true_iff in Eo as [Hp _]. unfold owned_by in H. apply Z.eqb_eq in H.
    split; [|exact H]. intros ->. discriminate.
  - right. unfold allocatable in H. apply andb_true_iff in H as [H1 H2]. apply ipst_eqb_eq in H1. apply Z.eqb_eq in H2. tauto.
Qed.
