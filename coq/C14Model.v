(* C14Model.v — executable model of pkg/tc/u32.go, plugin/datapath/ipvlan_linux.go:dstIPRule,
   pkg/ip/ip_cilium.go:GetIPAtIndex + pkg/ip/ip.go:DeriveGatewayIP,
   plugin/driver/utils:GetRouteTableID, pkg/link/veth.go:VethNameForPod.
   Definitions only. *)
From Coq Require Import NArith ZArith List Bool.
From TV Require Import Bits Sha1 Codec.
Import ListNotations.
Local Open Scope N_scope.

(* ---- u32 classifier keys ------------------------------------------------ *)
Record key := { k_off : Z; k_val : N; k_mask : N }.

(* kernel u32: a key matches a 32-bit header word iff ((word ^ val) & mask) == 0 *)
Definition key_matches (k : key) (word : N) : bool :=
  N.land (N.lxor word (k_val k)) (k_mask k) =? 0.

(* U32IPv4Src: Mask = be32(Mask.To4()), Val = be32(IP.Mask(Mask).To4()), Off = 12.
   dstIPRule: the same with offset 16. *)
Definition u32_v4 (off : Z) (ip plen : N) : key :=
  {| k_off := off; k_val := N.land ip (mask 32 plen); k_mask := mask 32 plen |}.

Definition word128 (x : N) (i : N) : N := N.land (N.shiftr x (32 * (3 - i))) (ones 32).

(* U32IPv6Src: one key per 32-bit word whose mask word is non-zero; Off = 8 + 4*i *)
Definition u32_v6_src (ip plen : N) : list key :=
  let m := mask 128 plen in
  let v := N.land ip m in
  flat_map (fun i =>
    let mw := word128 m i in
    if mw =? 0 then []
    else [{| k_off := (8 + 4 * Z.of_N i)%Z; k_val := word128 v i; k_mask := mw |}])
    [0; 1; 2; 3].

(* headers: the word the kernel reads at a byte offset (big-endian) *)
Definition ipv4_word (src dst : N) (off : Z) : N :=
  if (off =? 12)%Z then src else if (off =? 16)%Z then dst else 0.
Definition ipv6_word (src dst : N) (off : Z) : N :=
  if (off =? 8)%Z then word128 src 0 else if (off =? 12)%Z then word128 src 1
  else if (off =? 16)%Z then word128 src 2 else if (off =? 20)%Z then word128 src 3
  else if (off =? 24)%Z then word128 dst 0 else if (off =? 28)%Z then word128 dst 1
  else if (off =? 32)%Z then word128 dst 2 else if (off =? 36)%Z then word128 dst 3
  else 0.

Definition keys_match (hdr : Z -> N) (ks : list key) : bool :=
  forallb (fun k => key_matches k (hdr (k_off k))) ks.

(* ---- gateway derivation -------------------------------------------------- *)
(* GetIPAtIndex(ipNet, -3) as repaired by the fix: commit (value padded to the
   address length before Contains); w = 32 or 128. *)
Definition net_base (w net plen : N) : N := N.land net (mask w plen).
Definition last_addr (w net plen : N) : N := N.lor (net_base w net plen) (ones (w - plen)).

Definition get_ip_at_neg3 (w net plen : N) : option N :=
  let v := (Z.of_N (last_addr w net plen) - 2)%Z in
  if (v <? 0)%Z then None
  else
    let a := Z.to_N v in
    if 2 ^ w <=? a then None
    else if N.land a (mask w plen) =? net_base w net plen then Some a else None.

(* the specification the property states: third-from-last address, or nothing
   when the subnet has fewer than three addresses below its last one *)
Definition gateway_spec (w net plen : N) : option N :=
  if plen + 2 <=? w then Some (net_base w net plen + 2 ^ (w - plen) - 3) else None.

(* ---- route table id ------------------------------------------------------ *)
Definition route_table_id (idx : Z) : Z := (1000 + idx)%Z.
Definition table_reserved (t : Z) : bool :=
  ((t =? 0) || (t =? 253) || (t =? 254) || (t =? 255))%Z.

(* ---- host-side interface name ------------------------------------------- *)
Definition str_eth0 : list Z := [101; 116; 104; 48]%Z.
Definition norm_if (ifn : list Z) : list Z := if list_eqb ifn str_eth0 then [] else ifn.
Definition veth_preimage (ns name ifn : list Z) : list Z :=
  ns ++ [46%Z] ++ name ++ norm_if ifn.
Definition veth_name (pfx ns name ifn : list Z) : list Z :=
  pfx ++ firstn 11 (hex (sha1 (veth_preimage ns name ifn))).
