(* Bits.v — word/mask facts shared by the address models (stdlib style). *)
From Coq Require Import NArith ZArith Lia List Bool.
From Coq Require Import ZifyN ZifyNat ZifyBool.
Import ListNotations.
Local Open Scope N_scope.

(* [mask w p] = the w-bit word whose p most significant bits are set:
   what Go's net.CIDRMask(p, w) is, read big-endian. *)
Definition ones (n : N) : N := 2 ^ n - 1.
Definition mask (w p : N) : N := N.shiftl (ones p) (w - p).

(* bit i counted from the most significant end of a w-bit word *)
Definition msb_bit (w : N) (a : N) (i : N) : bool := N.testbit a (w - 1 - i).

(* independent evaluator of CIDR membership: the first plen bits agree *)
Definition in_cidr (w a net plen : N) : Prop :=
  forall i, i < plen -> msb_bit w a i = msb_bit w net i.

Fixpoint in_cidr_fuel (w a net : N) (k : nat) : bool :=
  match k with
  | O => true
  | S k' => Bool.eqb (msb_bit w a (N.of_nat k')) (msb_bit w net (N.of_nat k'))
            && in_cidr_fuel w a net k'
  end.
Definition in_cidrb (w a net plen : N) : bool := in_cidr_fuel w a net (N.to_nat plen).

Lemma in_cidr_fuel_spec w a net k :
  in_cidr_fuel w a net k = true <->
  (forall i, i < N.of_nat k -> msb_bit w a i = msb_bit w net i).
Proof.
  induction k as [|k IH]; cbn [in_cidr_fuel].
  - split; [intros _ i Hi; lia | reflexivity].
  - rewrite andb_true_iff, IH, Bool.eqb_true_iff. split.
    + intros [H0 H1] i Hi.
      destruct (N.eq_dec i (N.of_nat k)) as [->|Hne]; [exact H0|].
      apply H1. lia.
    + intros H. split; [apply H; lia | intros i Hi; apply H; lia].
Qed.

Lemma in_cidrb_spec w a net plen : in_cidrb w a net plen = true <-> in_cidr w a net plen.
Proof.
  unfold in_cidrb, in_cidr. rewrite in_cidr_fuel_spec, N2Nat.id. reflexivity.
Qed.

Lemma ones_testbit n i : N.testbit (ones n) i = (i <? n).
Proof.
  unfold ones. rewrite N.sub_1_r, <- N.ones_equiv.
  destruct (N.ltb_spec i n) as [H|H].
  - apply N.ones_spec_low; exact H.
  - apply N.ones_spec_high; exact H.
Qed.

Lemma mask_testbit w p i : p <= w ->
  N.testbit (mask w p) i = ((w - p <=? i) && (i <? w)).
Proof.
  intros Hp. unfold mask.
  destruct (N.leb_spec (w - p) i) as [H|H].
  - rewrite N.shiftl_spec_high' by exact H. rewrite ones_testbit.
    cbn [andb].
    destruct (N.ltb_spec (i - (w - p)) p), (N.ltb_spec i w); try reflexivity; lia.
  - rewrite N.shiftl_spec_low by exact H. reflexivity.
Qed.

Lemma mask_lt w p : p <= w -> mask w p < 2 ^ w.
Proof.
  intros Hp. unfold mask, ones. rewrite N.shiftl_mul_pow2.
  assert (H : 2 ^ w = 2 ^ p * 2 ^ (w - p)).
  { rewrite <- N.pow_add_r. f_equal. lia. }
  rewrite H.
  assert (0 < 2 ^ p) by (apply N.neq_0_lt_0, N.pow_nonzero; lia).
  assert (0 < 2 ^ (w - p)) by (apply N.neq_0_lt_0, N.pow_nonzero; lia).
  nia.
Qed.

(* THE central lemma: the mask comparison the code emits decides CIDR
   membership as the bitwise evaluator defines it, for w-bit words. *)
Lemma mask_eq_iff_in_cidr w p a net :
  p <= w -> a < 2 ^ w -> net < 2 ^ w ->
  (N.land a (mask w p) = N.land net (mask w p) <-> in_cidr w a net p).
Proof.
  intros Hp Ha Hn. unfold in_cidr, msb_bit. split.
  - intros Heq i Hi.
    assert (Hb : N.testbit (N.land a (mask w p)) (w - 1 - i)
               = N.testbit (N.land net (mask w p)) (w - 1 - i)) by (rewrite Heq; reflexivity).
    rewrite !N.land_spec, !mask_testbit in Hb by exact Hp.
    assert (Hm : ((w - p <=? w - 1 - i) && (w - 1 - i <? w)) = true).
    { apply andb_true_iff; split; [apply N.leb_le | apply N.ltb_lt]; lia. }
    rewrite Hm, !andb_true_r in Hb. exact Hb.
  - intros H. apply N.bits_inj. intros j.
    rewrite !N.land_spec, !mask_testbit by exact Hp.
    destruct (N.leb_spec (w - p) j) as [H1|H1]; cbn [andb]; [|rewrite !andb_false_r; reflexivity].
    destruct (N.ltb_spec j w) as [H2|H2]; [|rewrite !andb_false_r; reflexivity].
    rewrite !andb_true_r.
    replace j with (w - 1 - (w - 1 - j)) by lia.
    apply H. lia.
Qed.

(* a w-bit value has no bits at or above w *)
Lemma testbit_high a w i : a < 2 ^ w -> w <= i -> N.testbit a i = false.
Proof.
  intros Ha Hi. destruct (N.eq_dec a 0) as [->|Hne]; [apply N.bits_0|].
  apply N.bits_above_log2.
  assert (N.log2 a < w) by (apply N.log2_lt_pow2; lia). lia.
Qed.

Lemma land_mask_lt a w p : p <= w -> N.land a (mask w p) < 2 ^ w.
Proof.
  intros Hp.
  destruct (N.eq_dec (N.land a (mask w p)) 0) as [->|Hne].
  - apply N.neq_0_lt_0, N.pow_nonzero; lia.
  - apply N.log2_lt_pow2; [lia|].
    assert (N.log2 (N.land a (mask w p)) <= N.log2 (mask w p)).
    { pose proof (N.log2_land a (mask w p)). lia. }
    assert (Hm := mask_lt w p Hp).
    destruct (N.eq_dec (mask w p) 0) as [E|E].
    + rewrite E, N.land_0_r in Hne. congruence.
    + assert (N.log2 (mask w p) < w) by (apply N.log2_lt_pow2; lia). lia.
Qed.
