(* C19Model.v — capacity arithmetic: daemon/config.go:getPoolConfig (with the fix: commit
   clamping at 0), pkg/aliyun/client/limit.go, daemon/daemon.go:checkInstance,
   pkg/eni/node_reconcile.go (feature switches + flavor), pkg/controller/node/node.go:k8sAnno.
   EniCapRatio is fixed to its default 1, as the property says. Definitions only. *)
From Coq Require Import ZArith List Bool.
Import ListNotations.
Local Open Scope Z_scope.

Record limits := { adapters : Z; ipv4per : Z; ipv6per : Z; member : Z; maxmember : Z; erdma_adapters : Z }.

Definition erdma_res (l : limits) : Z :=
  if (erdma_adapters l <=? 0) || (adapters l <=? 2) then 0
  else if 8 <=? adapters l then Z.min 2 (erdma_adapters l)
  else Z.min 1 (erdma_adapters l).
Definition multi_ip_pod (l : limits) : Z := (adapters l - 1) * ipv4per l.
Definition exclusive_eni_pod (l : limits) : Z := adapters l - 1.
Definition support_ipv6 (l : limits) : bool := 0 <? ipv6per l.
Definition support_multi_ipv6 (l : limits) : bool := ipv6per l =? ipv4per l.

Record cfg := { c_max_eni : Z; c_min_eni : Z; c_shift : Z; c_max_pool : Z; c_min_pool : Z;
                c_erdma : bool; c_crd : bool; c_multi_ip : bool }.
Record pool := { p_max_eni : Z; p_max_member : Z; p_ip_per_eni : Z; p_capacity : Z;
                 p_max_pool : Z; p_min_pool : Z; p_erdma_cap : Z; p_batch : Z }.

Definition get_pool_config (c : cfg) (l : limits) : pool :=
  if c_multi_ip c then
    let m0 := adapters l + c_shift c - 1 in
    let m1 := if (0 <? c_max_eni c) && (c_max_eni c <? m0) then c_max_eni c else m0 in
    let max_eni := if m1 <? 0 then 0 else m1 in
    let ippe := ipv4per l in
    let capacity := max_eni * ippe in
    let maxp0 := if capacity <? c_max_pool c then capacity else c_max_pool c in
    let maxp := if maxp0 <? 0 then 0 else maxp0 in
    let minp0 := if 0 <? c_min_eni c then c_min_eni c * ippe else c_min_pool c in
    let minp1 := if maxp <? minp0 then maxp else minp0 in
    let minp := if minp1 <? 0 then 0 else minp1 in
    {| p_max_eni := max_eni; p_max_member := member l; p_ip_per_eni := ippe; p_capacity := capacity;
       p_max_pool := if c_crd c then 0 else maxp; p_min_pool := if c_crd c then 0 else minp;
       p_erdma_cap := if c_erdma c then erdma_res l * ipv4per l else 0; p_batch := 10 |}
  else
    {| p_max_eni := 0; p_max_member := 0; p_ip_per_eni := 0; p_capacity := 0;
       p_max_pool := 0; p_min_pool := 0; p_erdma_cap := 0; p_batch := 10 |}.

(* checkInstance: stack 0 = ipv4, 1 = dual, 2 = ipv6, other = neither *)
Definition check_instance (l : limits) (multi_ip : bool) (stack : Z) (trunking erdma oscap : bool)
  : bool * bool * bool * bool :=
  let v4 := (stack =? 0) || (stack =? 1) in
  let v6r := (stack =? 1) || (stack =? 2) in
  let v6 := v6r && support_ipv6 l && (negb multi_ip || support_multi_ipv6 l) in
  let trunk := trunking && (0 <? member l) in
  let er := erdma && (0 <? erdma_res l) && oscap in
  (v4, v6, trunk, er).

(* node_reconcile: stack 0 = "", 1 = ipv4, 2 = dual *)
Inductive ftype := FSecondary | FTrunk.
Inductive fmode := MStandard | MHigh.
Record flavor := { f_type : ftype; f_mode : fmode; f_count : Z }.

Record node_spec := { n_v4 : bool; n_v6 : bool; n_trunk : bool; n_erdma : bool; n_flavor : list flavor;
                      n_max_pool : Z; n_min_pool : Z }.

Definition node_reconcile (adapters_ ipv4 ipv6 member_ eri : Z) (stack : Z)
           (cfg_trunk cfg_erdma oscap exclusive : bool) (maxp minp : Z) : node_spec :=
  let v6 := (stack =? 2) && (ipv6 =? ipv4) in
  let er := cfg_erdma && (0 <? eri) && oscap in
  let tr := cfg_trunk && (0 <? member_) && negb exclusive in
  let s0 := adapters_ - 1 in
  let '(f1, s1) := if tr && (0 <? s0)
                   then ([{| f_type := FTrunk; f_mode := MStandard; f_count := 1 |}], s0 - 1) else ([], s0) in
  let '(f2, s2) := if er && (0 <? s1)
                   then ([{| f_type := FSecondary; f_mode := MHigh; f_count := 1 |}], s1 - 1) else ([], s1) in
  {| n_v4 := true; n_v6 := v6; n_trunk := tr; n_erdma := er;
     n_flavor := f1 ++ f2 ++ [{| f_type := FSecondary; f_mode := MStandard; f_count := s2 |}];
     n_max_pool := maxp; n_min_pool := minp |}.

Definition flavor_sum (fs : list flavor) : Z := fold_right (fun f a => f_count f + a) 0 fs.

(* k8sAnno: the pod-IP capacity the controller writes on the k8s node; None = annotation removed *)
Definition is_std_secondary (f : flavor) : bool :=
  match f_type f, f_mode f with FSecondary, MStandard => true | _, _ => false end.
Definition is_trunk (f : flavor) : bool := match f_type f with FTrunk => true | _ => false end.

Definition k8s_anno (ipv4 : Z) (exclusive : bool) (fs : list flavor) : Z :=
  if exclusive then
    fold_left (fun acc f => if is_std_secondary f then f_count f else acc) fs 0
  else
    fold_left (fun acc f =>
      let a1 := if is_std_secondary f then acc + f_count f * ipv4 else acc in
      if is_trunk f then a1 + f_count f * ipv4 else a1) fs 0.
Definition k8s_anno_out (v : Z) : option Z := if 0 <? v then Some v else None.
