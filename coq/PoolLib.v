(* PoolLib.v — lemmas about the association lists and record updates of PoolModel. *)
From Coq Require Import ZArith List Bool Lia.
From TV Require Import PoolModel.
Import ListNotations.
Local Open Scope Z_scope.

Lemma memz_In a l : memz a l = true <-> In a l.
Proof.
  unfold memz. rewrite existsb_exists. split.
  - intros (x & Hx & E). apply Z.eqb_eq in E. subst. exact Hx.
  - intros H. exists a. split; [exact H | apply Z.eqb_refl].
Qed.
Lemma memz_false a l : memz a l = false <-> ~ In a l.
Proof. rewrite <- memz_In. destruct (memz a l); split; intros H; try congruence; try (intros H1; congruence); exfalso; apply H; reflexivity. Qed.

Lemma find_In a s e : find a s = Some e -> In (a, e) s.
Proof.
  induction s as [|[k e0] r IH]; cbn [find]; [discriminate|].
  destruct (k =? a) eqn:E; [apply Z.eqb_eq in E; subst; intros H; inversion H; left; reflexivity | intros H; right; exact (IH H)].
Qed.
Lemma find_keys a s e : find a s = Some e -> In a (keys s).
Proof. intros H. apply find_In in H. unfold keys. apply in_map_iff. exists (a, e). split; [reflexivity | exact H]. Qed.
Lemma find_none_keys a s : find a s = None <-> ~ In a (keys s).
Proof.
  induction s as [|[k e0] r IH]; cbn [find keys map fst]; [tauto|].
  destruct (k =? a) eqn:E.
  - apply Z.eqb_eq in E. subst. split; [discriminate | intros H; exfalso; apply H; left; reflexivity].
  - apply Z.eqb_neq in E. rewrite IH. unfold keys. split; [intros H [H1|H1]; [congruence | exact (H H1)] | intros H H1; apply H; right; exact H1].
Qed.
Lemma In_find a e s : NoDup (keys s) -> In (a, e) s -> find a s = Some e.
Proof.
  induction s as [|[k e0] r IH]; cbn [find keys map fst]; intros Hn; [intros []|].
  inversion Hn as [|? ? Hk Hr]; subst. intros [H|H].
  - inversion H; subst. rewrite Z.eqb_refl. reflexivity.
  - destruct (k =? a) eqn:E; [|exact (IH Hr H)].
    apply Z.eqb_eq in E; subst. exfalso. apply Hk. unfold keys. apply in_map_iff. exists (a, e). split; [reflexivity | exact H].
Qed.

Lemma find_put_same a e s : find a (put a e s) = Some e.
Proof.
  induction s as [|[k e0] r IH]; cbn [put find]; [rewrite Z.eqb_refl; reflexivity|].
  destruct (k =? a) eqn:E; cbn [find]; rewrite E; [reflexivity | exact IH].
Qed.
Lemma find_put_other a b e s : a <> b -> find b (put a e s) = find b s.
Proof.
  intros Hab. induction s as [|[k e0] r IH]; cbn [put find].
  - destruct (a =? b) eqn:E; [apply Z.eqb_eq in E; contradiction | reflexivity].
  - destruct (k =? a) eqn:E; cbn [find].
    + apply Z.eqb_eq in E; subst. destruct (a =? b) eqn:E2; [apply Z.eqb_eq in E2; contradiction | reflexivity].
    + destruct (k =? b); [reflexivity | exact IH].
Qed.
Lemma keys_put_in a e s : In a (keys s) -> keys (put a e s) = keys s.
Proof.
  induction s as [|[k e0] r IH]; cbn [put keys map fst]; [intros []|].
  destruct (k =? a) eqn:E; cbn [map fst]; [reflexivity|].
  intros [H|H]; [apply Z.eqb_neq in E; congruence | f_equal; exact (IH H)].
Qed.
Lemma keys_put_notin a e s : ~ In a (keys s) -> keys (put a e s) = keys s ++ [a].
Proof.
  induction s as [|[k e0] r IH]; cbn [put keys map fst app]; [reflexivity|].
  intros H. destruct (k =? a) eqn:E; [apply Z.eqb_eq in E; subst; exfalso; apply H; left; reflexivity|].
  cbn [map fst]. f_equal. apply IH. intros H1; apply H; right; exact H1.
Qed.
Lemma nodup_put a e s : NoDup (keys s) -> NoDup (keys (put a e s)).
Proof.
  intros Hn. destruct (in_dec Z.eq_dec a (keys s)) as [Hi|Hi].
  - rewrite keys_put_in by exact Hi. exact Hn.
  - rewrite keys_put_notin by exact Hi. apply NoDup_rev in Hn. rewrite <- (rev_involutive (keys s ++ [a])). apply NoDup_rev.
    rewrite rev_app_distr. cbn. constructor; [rewrite <- in_rev; exact Hi | exact Hn].
Qed.
Lemma In_keys_put b a e s : In b (keys (put a e s)) <-> b = a \/ In b (keys s).
Proof.
  destruct (in_dec Z.eq_dec a (keys s)) as [Hi|Hi].
  - rewrite keys_put_in by exact Hi. split; [tauto | intros [->|H]; assumption].
  - rewrite keys_put_notin by exact Hi. rewrite in_app_iff. cbn. split; [intros [H|[H|[]]]; auto | intros [->|H]; auto].
Qed.

Lemma find_del_same a s : find a (del a s) = None.
Proof.
  induction s as [|[k e0] r IH]; cbn [del filter find fst]; [reflexivity|].
  destruct (k =? a) eqn:E; cbn [negb]; [exact IH | cbn [find]; rewrite E; exact IH].
Qed.
Lemma find_del_other a b s : a <> b -> find b (del a s) = find b s.
Proof.
  intros Hab. induction s as [|[k e0] r IH]; cbn [del filter find fst]; [reflexivity|].
  destruct (k =? a) eqn:E; cbn [negb].
  - apply Z.eqb_eq in E; subst. destruct (a =? b) eqn:E2; [apply Z.eqb_eq in E2; contradiction | exact IH].
  - cbn [find]. destruct (k =? b); [reflexivity | exact IH].
Qed.
Lemma keys_del_incl a s : incl (keys (del a s)) (keys s).
Proof. unfold del, keys. intros x Hx. apply in_map_iff in Hx as (p & <- & Hp). apply filter_In in Hp as [Hp _]. apply in_map. exact Hp. Qed.
Lemma nodup_filter_keys (g : Z * ent -> bool) s : NoDup (keys s) -> NoDup (keys (filter g s)).
Proof.
  unfold keys. induction s as [|p r IH]; cbn [filter map]; intros Hn; [constructor|].
  inversion Hn as [|? ? Hk Hr]; subst. destruct (g p); cbn [map]; [|exact (IH Hr)].
  constructor; [|exact (IH Hr)]. intros Hx. apply Hk. apply in_map_iff in Hx as (q & E & Hq). apply filter_In in Hq as [Hq _].
  apply in_map_iff. exists q. split; assumption.
Qed.
Lemma nodup_del a s : NoDup (keys s) -> NoDup (keys (del a s)).
Proof. apply nodup_filter_keys. Qed.

(* a map over entries that keeps keys *)
Lemma keys_map_same (g : Z * ent -> Z * ent) s : (forall p, fst (g p) = fst p) -> keys (map g s) = keys s.
Proof. intros Hg. unfold keys. rewrite map_map. apply map_ext. exact Hg. Qed.
Lemma find_map_ent (g : Z -> ent -> ent) a s :
  find a (map (fun p => (fst p, g (fst p) (snd p))) s) = option_map (g a) (find a s).
Proof.
  induction s as [|[k e0] r IH]; cbn [map find fst snd option_map]; [reflexivity|].
  destruct (k =? a) eqn:E; [apply Z.eqb_eq in E; subst; reflexivity | exact IH].
Qed.

(* ---- fget / fset ------------------------------------------------------------------------- *)
Lemma fget_fset_same s f x : fget (fset s f x) f = x.
Proof. destruct f; reflexivity. Qed.
Lemma fget_fset_other s f g x : f <> g -> fget (fset s f x) g = fget s g.
Proof. destruct f, g; intros H; try contradiction; reflexivity. Qed.
Definition fid_eqb (a b : fid) : bool := match a, b with F4, F4 | F6, F6 => true | _, _ => false end.
Lemma fid_eqb_spec a b : reflect (a = b) (fid_eqb a b).
Proof. destruct a, b; constructor; congruence. Qed.
Lemma fget_fset s f g x : fget (fset s f x) g = if fid_eqb f g then x else fget s g.
Proof. destruct f, g; reflexivity. Qed.

Lemma len_nonneg {A} (l : list A) : 0 <= len l.
Proof. unfold len. lia. Qed.
Lemma len_app {A} (a b : list A) : len (a ++ b) = len a + len b.
Proof. unfold len. rewrite app_length. lia. Qed.
Lemma len_cons {A} (x : A) l : len (x :: l) = 1 + len l.
Proof. unfold len. cbn [length]. lia. Qed.
