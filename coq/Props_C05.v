(* Props_C05.v — property C05 (restart keeps acknowledged allocations and never double-allocates). *)
From Coq Require Import ZArith List Bool.
From TV Require Import PoolModel PoolSets PoolInv PoolThm PoolRun SvcModel SvcProofs.
Import ListNotations.
Local Open Scope Z_scope.

(* whatever prefix of a handler's effects a crash lets happen: an acknowledged ADD has its record on disk,
   an acknowledged DEL has none, and the memory mirror is never ahead of the disk *)
Theorem c05_ack_durable : forall k,
  (acked (firstn k add_handler) = true -> on_disk_after false (firstn k add_handler) = true) /\
  (acked (firstn k del_handler) = true -> on_disk_after true (firstn k del_handler) = false) /\
  (in_mem_after false (firstn k add_handler) = true -> on_disk_after false (firstn k add_handler) = true).
Proof. intros k. split; [apply add_ack_durable | split; [apply del_ack_durable | apply add_mem_implies_disk]]. Qed.
Print Assumptions c05_ack_durable.

(* after a restart an address is owned only through a stored allocation that lists it: what was taken but not
   yet recorded (not acknowledged) comes back idle, i.e. reclaimable *)
Theorem c05_unacked_reclaimable : forall ty on4 on6 cap batch now eni trunk prim v4 v6 owners a p,
  owner_of (f_set (s_4 (load_slot ty on4 on6 cap batch now eni trunk prim v4 v6 owners))) a = p -> p <> 0 ->
  exists a6, In (p, a, a6) owners.
Proof. exact load_owner_has_record. Qed.
Print Assumptions c05_unacked_reclaimable.

(* from any state satisfying the pool invariant — in particular the one load() builds — no address is ever
   held by two pods, whatever follows (C01 applied after the restart) *)
Theorem c05_no_double_allocation_after_restart : forall s0 ls s, Inv s0 -> run_env s0 ls -> run s0 ls = Some s ->
  forall p q f a, In (p, f, a) (s_held s) -> In (q, f, a) (s_held s) -> p = q.
Proof. intros s0 ls s HI He Hr. exact (held_exclusive s (inv_run ls s0 s HI He Hr)). Qed.
Print Assumptions c05_no_double_allocation_after_restart.

Example c05_ex :
  let s := load_slot 0 true false 4 2 0 7 false 50 [50; 51; 52] [] [(101, 51, 0); (102, 52, 0)] in
  owner_of (f_set (s_4 s)) 51 = 101 /\ owner_of (f_set (s_4 s)) 52 = 102 /\ owner_of (f_set (s_4 s)) 50 = 0 /\
  s_held s = [(101, F4, 51); (102, F4, 52)].
Proof. vm_compute. repeat split. Qed.
