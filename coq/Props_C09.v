(* Props_C09.v — property C09 (the node GC collects exactly the vanished pods). *)
From Coq Require Import ZArith List Bool.
From TV Require Import PoolModel SvcModel SvcProofs.
From TV Require PodExist.
Import ListNotations.
Local Open Scope Z_scope.

(* an allocation is collected only if the node no longer lists the pod with a running sandbox AND the API
   server answered that the pod does not exist (an API failure keeps the record) *)
Theorem c09_only_vanished : forall live api clean l p, In p (fst (gc_pass live api clean l)) ->
  live p = false /\ api p = Some false /\ In p l.
Proof. exact gc_only_vanished. Qed.
Print Assumptions c09_only_vanished.

(* every vanished pod's record is collected by a pass in which the cleanups work (IPStickTime = 0: one pass;
   the property allows two) *)
Theorem c09_vanished_collected : forall live api l p, In p l -> live p = false -> api p = Some false ->
  In p (fst (gc_pass live api (fun _ => true) l)) /\ snd (gc_pass live api (fun _ => true) l) = true.
Proof. intros live api l p. apply gc_collects_all. intros; exact I. Qed.
Print Assumptions c09_vanished_collected.

(* "one record's cleanup failure does not stop the others": FALSE of the pass as the unchanged tree coded it
   (the first failing cleanup returned from the whole pass) — witness below; repaired by commit
   "fix: a record whose cleanup fails no longer stops garbage collection ..." after which the pass is
   gc_pass over the records whose cleanup works (SvcRun.srec_step, record 43). *)
Theorem c09_independent_refuted_before_fix :
  exists live api clean l p, In p l /\ live p = false /\ api p = Some false /\ clean p = true /\
                             ~ In p (fst (gc_pass live api clean l)).
Proof.
  exists (fun _ => false), (fun _ => Some false), (fun p => negb (p =? 1)), [1; 2], 2.
  vm_compute. repeat split; try (right; left; reflexivity). intros [].
Qed.
Print Assumptions c09_independent_refuted_before_fix.

Example c09_ex :
  gc_pass (fun p => p =? 3) (fun p => if p =? 2 then None else Some (p =? 4)) (fun _ => true) [1; 2; 3; 4] = ([1], true).
Proof. vm_compute. reflexivity. Qed.

(* the answer of the API the pass relies on (PodExist): "exists" only for a pod of that name scheduled to THIS node, and
   every such pod is found unless the API failed - a same-named pod on another node does not keep the record alive *)
Theorem c09_pod_exist_is_local : forall me pods apierr name,
  (PodExist.pod_exist me pods apierr name = Some true -> PodExist.lookup name pods = Some me) /\
  (PodExist.lookup name pods = Some me -> PodExist.pod_exist me pods false name = Some true).
Proof. intros me pods apierr name. split; [apply PodExist.pod_exist_local | apply PodExist.pod_exist_complete]. Qed.
Print Assumptions c09_pod_exist_is_local.
Example c09_ex_other_node : PodExist.pod_exist 1 [(7, 2)] false 7 = Some false /\ PodExist.pod_exist 1 [(7, 1)] false 7 = Some true.
Proof. vm_compute. split; reflexivity. Qed.
