(* PoolModel.v — the node-local pool of one network interface (pkg/eni/local.go `Local`,
   types.go `Set`/`IP`/`AllocatingRequests`) as a labelled transition system.

   One constructor of [label] per critical section (the code holds l.cond.L for the whole of
   it) or per effect of the outside world (cloud answer, context cancellation, remote removal,
   clock).  [step s l = Some s'] means: label l, including the choices it carries (which idle
   address PeekAvailable returned in Go's map order, which entries Dispose hit, what the cloud
   answered, whether a cancelled context won the select in commit) is something the code can
   do in state s.  Theorems quantify over all label lists accepted by [step], i.e. over all
   interleavings of the goroutines at the granularity the mutex makes atomic, all histories,
   all fault placements.  Definitions only; proofs are in PoolInv.v.

   Ghost fields (never read by a guard): f_cl (what the cloud has assigned to the interface),
   f_gone (addresses a periodic sync found missing), f_unreq (addresses for which an unassign
   call was started), s_held (address deliveries not yet released), s_log (cloud calls with the
   facts judged by the property at call time). *)
From Coq Require Import ZArith List Bool Lia.
Import ListNotations.
Local Open Scope Z_scope.

Inductive ipst := Valid | Invalid | Deleting.
Record ent := mkEnt { e_owner : Z; e_st : ipst; e_prim : bool }.      (* owner 0 = no pod *)
Definition iset := list (Z * ent).                                     (* address -> entry *)

Definition ipst_eqb (a b : ipst) : bool :=
  match a, b with Valid, Valid | Invalid, Invalid | Deleting, Deleting => true | _, _ => false end.

Fixpoint find (a : Z) (s : iset) : option ent :=
  match s with [] => None | (k, e) :: r => if k =? a then Some e else find a r end.
Fixpoint put (a : Z) (e : ent) (s : iset) : iset :=
  match s with
  | [] => [(a, e)]
  | (k, e0) :: r => if k =? a then (k, e) :: r else (k, e0) :: put a e r
  end.
Definition del (a : Z) (s : iset) : iset := filter (fun p => negb (fst p =? a)) s.
Definition keys (s : iset) : list Z := map fst s.
Definition memz (a : Z) (l : list Z) : bool := existsb (Z.eqb a) l.
Definition remz (a : Z) (l : list Z) : list Z := filter (fun x => negb (x =? a)) l.
Definition remzs (xs l : list Z) : list Z := filter (fun x => negb (memz x xs)) l.
Definition len {A} (l : list A) : Z := Z.of_nat (length l).

Definition owned_by (pod : Z) (e : ent) : bool := e_owner e =? pod.
Definition in_use (e : ent) : bool := negb (e_owner e =? 0).
Definition allocatable (e : ent) : bool := ipst_eqb (e_st e) Valid && (e_owner e =? 0).
Definition has_owned (pod : Z) (s : iset) : bool := negb (pod =? 0) && existsb (fun p => owned_by pod (snd p)) s.
Definition has_allocatable (s : iset) : bool := existsb (fun p => allocatable (snd p)) s.
Definition avail (pod : Z) (s : iset) : bool := has_owned pod s || has_allocatable s.

(* Set.PeekAvailable: c is a possible result (0 = nil): an entry of the same pod if one exists
   (whatever its status), otherwise any allocatable entry, otherwise nil *)
Definition peek_ok (s : iset) (pod c : Z) : bool :=
  if c =? 0 then negb (avail pod s)
  else match find c s with
       | Some e => if has_owned pod s then owned_by pod e else allocatable e
       | None => false
       end.

Definition set_owner (a pod : Z) (s : iset) : iset :=
  match find a s with Some e => put a (mkEnt pod (e_st e) (e_prim e)) s | None => s end.
(* IP.Release: only the owner can release *)
Definition release (a pod : Z) (s : iset) : iset :=
  match find a s with
  | Some e => if e_owner e =? pod then put a (mkEnt 0 (e_st e) (e_prim e)) s else s
  | None => s
  end.
Definition set_st (a : Z) (st : ipst) (s : iset) : iset :=
  match find a s with Some e => put a (mkEnt (e_owner e) st (e_prim e)) s | None => s end.
(* IP.Dispose: a no-op on the primary address *)
Definition dispose_ip (a : Z) (s : iset) : iset :=
  match find a s with
  | Some e => if e_prim e then s else put a (mkEnt (e_owner e) Deleting (e_prim e)) s
  | None => s
  end.
Definition put_fresh (st : ipst) (prim : Z) (ips : list Z) (s : iset) : iset :=
  fold_left (fun acc a => put a (mkEnt 0 st (a =? prim)) acc) ips s.
Definition del_all (ips : list Z) (s : iset) : iset := fold_left (fun acc a => del a acc) ips s.
Definition deleting_keys (s : iset) : list Z := map fst (filter (fun p => ipst_eqb (e_st (snd p)) Deleting) s).
Definition idles (s : iset) : list (Z * ent) := filter (fun p => negb (in_use (snd p))) s.
Definition inuses (s : iset) : list (Z * ent) := filter (fun p => in_use (snd p)) s.

(* ---- requests --------------------------------------------------------------------------- *)
Record req := mkReq {
  r_pod : Z; r_nc : bool;          (* pod id (0 for pre-heat requests), NoCache *)
  r_ctx : bool;                    (* the caller's context is done *)
  r_wd : bool;                     (* workerCtx cancelled (worker left, or popped as no-cache) *)
  r_fin : bool;                    (* the worker / commit goroutine has finished *)
  r_direct : bool; r_d4 : Z; r_d6 : Z;  (* direct path: the entries chosen under the lock *)
  r_k4 : bool; r_k6 : bool              (* direct path: the pod held the entry before this request *)
}.
Definition rtab := list (Z * req).
Fixpoint rfind (r : Z) (t : rtab) : option req :=
  match t with [] => None | (k, q) :: t' => if k =? r then Some q else rfind r t' end.
Fixpoint rput (r : Z) (q : req) (t : rtab) : rtab :=
  match t with [] => [(r, q)] | (k, q0) :: t' => if k =? r then (k, q) :: t' else (k, q0) :: rput r q t' end.
Definition live (t : rtab) (r : Z) : bool := match rfind r t with Some q => negb (r_wd q) | None => false end.
(* AllocatingRequests.Len(): drops the entries whose workerCtx is done *)
Definition prune (t : rtab) (l : list Z) : list Z := filter (live t) l.

(* ---- one address family on the interface ----------------------------------------------- *)
Inductive fid := F4 | F6.
Record fam := mkFam { f_on : bool; f_set : iset; f_alloc : list Z; f_dang : list Z;
                      f_cl : list Z; f_gone : list Z; f_unreq : list Z }.
Definition with_set (f : fam) (s : iset) := mkFam (f_on f) s (f_alloc f) (f_dang f) (f_cl f) (f_gone f) (f_unreq f).
Definition with_q (f : fam) (a d : list Z) := mkFam (f_on f) (f_set f) a d (f_cl f) (f_gone f) (f_unreq f).
Definition with_ghost (f : fam) (cl gone unreq : list Z) := mkFam (f_on f) (f_set f) (f_alloc f) (f_dang f) cl gone unreq.

Inductive sst := SInit | SCreating | SInUse | SDeleting.
Inductive fwst := FwIdle | FwArmed (t : Z) | FwCreate (n4 n6 : Z) | FwAssign4 (n4 n6 : Z) | FwAssign6 (n6 : Z) (started : bool).
Inductive dwst := DwIdle | DwAfter4 | DwDelete | DwUn (f : fid) (ips : list Z).
(* DwAfter4: the IPv4 call of a dispose round has returned; the round's IPv6 list was computed before
   that call, so an IPv6 call may follow without any re-check; otherwise the worker is back at its loop head *)

(* a cloud call as the property judges it at the time it is made *)
Inductive call :=
| CCreate (n4 n6 : Z) | CAssign (f : fid) (n : Z) (cloud_before : Z)
| CUnassign (f : fid) (ips : list Z) (any_in_use any_primary : bool)
| CDelete (any_in_use : bool) (pending : Z) (ty : Z) (trunk : bool).

Record slot := mkSlot {
  s_st : sst; s_eni : Z; s_ty : Z; s_trunk : bool;      (* eni 0 = none; type 0 secondary 1 trunk 2 erdma *)
  s_4 : fam; s_6 : fam; s_inh : Z; s_fw : fwst; s_dw : dwst; s_reqs : rtab;
  s_cap : Z; s_batch : Z; s_now : Z;
  s_held : list (Z * fid * Z); s_log : list call }.

Definition fget (s : slot) (f : fid) : fam := match f with F4 => s_4 s | F6 => s_6 s end.
Definition fset (s : slot) (f : fid) (x : fam) : slot :=
  match f with
  | F4 => mkSlot (s_st s) (s_eni s) (s_ty s) (s_trunk s) x (s_6 s) (s_inh s) (s_fw s) (s_dw s) (s_reqs s) (s_cap s) (s_batch s) (s_now s) (s_held s) (s_log s)
  | F6 => mkSlot (s_st s) (s_eni s) (s_ty s) (s_trunk s) (s_4 s) x (s_inh s) (s_fw s) (s_dw s) (s_reqs s) (s_cap s) (s_batch s) (s_now s) (s_held s) (s_log s)
  end.
Definition with_st (s : slot) (st : sst) := mkSlot st (s_eni s) (s_ty s) (s_trunk s) (s_4 s) (s_6 s) (s_inh s) (s_fw s) (s_dw s) (s_reqs s) (s_cap s) (s_batch s) (s_now s) (s_held s) (s_log s).
Definition with_eni (s : slot) (e : Z) (tr : bool) := mkSlot (s_st s) e (s_ty s) tr (s_4 s) (s_6 s) (s_inh s) (s_fw s) (s_dw s) (s_reqs s) (s_cap s) (s_batch s) (s_now s) (s_held s) (s_log s).
Definition with_inh (s : slot) (i : Z) := mkSlot (s_st s) (s_eni s) (s_ty s) (s_trunk s) (s_4 s) (s_6 s) i (s_fw s) (s_dw s) (s_reqs s) (s_cap s) (s_batch s) (s_now s) (s_held s) (s_log s).
Definition with_fw (s : slot) (w : fwst) := mkSlot (s_st s) (s_eni s) (s_ty s) (s_trunk s) (s_4 s) (s_6 s) (s_inh s) w (s_dw s) (s_reqs s) (s_cap s) (s_batch s) (s_now s) (s_held s) (s_log s).
Definition with_dw (s : slot) (w : dwst) := mkSlot (s_st s) (s_eni s) (s_ty s) (s_trunk s) (s_4 s) (s_6 s) (s_inh s) (s_fw s) w (s_reqs s) (s_cap s) (s_batch s) (s_now s) (s_held s) (s_log s).
Definition with_reqs (s : slot) (t : rtab) := mkSlot (s_st s) (s_eni s) (s_ty s) (s_trunk s) (s_4 s) (s_6 s) (s_inh s) (s_fw s) (s_dw s) t (s_cap s) (s_batch s) (s_now s) (s_held s) (s_log s).
Definition with_now (s : slot) (n : Z) := mkSlot (s_st s) (s_eni s) (s_ty s) (s_trunk s) (s_4 s) (s_6 s) (s_inh s) (s_fw s) (s_dw s) (s_reqs s) (s_cap s) (s_batch s) n (s_held s) (s_log s).
Definition with_held (s : slot) (h : list (Z * fid * Z)) := mkSlot (s_st s) (s_eni s) (s_ty s) (s_trunk s) (s_4 s) (s_6 s) (s_inh s) (s_fw s) (s_dw s) (s_reqs s) (s_cap s) (s_batch s) (s_now s) h (s_log s).
Definition log_call (s : slot) (c : call) := mkSlot (s_st s) (s_eni s) (s_ty s) (s_trunk s) (s_4 s) (s_6 s) (s_inh s) (s_fw s) (s_dw s) (s_reqs s) (s_cap s) (s_batch s) (s_now s) (s_held s) (c :: s_log s).
Definition map_set (s : slot) (f : fid) (g : iset -> iset) : slot := fset s f (with_set (fget s f) (g (f_set (fget s f)))).

Definition plen (s : slot) (f : fid) : Z := len (prune (s_reqs s) (f_alloc (fget s f))).
Definition setlen (s : slot) (f : fid) : Z := len (f_set (fget s f)).

(* ---- Allocate (local.go:376-488) -------------------------------------------------------- *)
Inductive akind := KReject (reason : Z) | KDirect | KEnqueue (e4 e6 : bool).
(* reasons: 0 nil (deleting), 1 type mismatch, 2 interface mismatch, 3 full, 4 insufficient (inhibit) *)
Inductive fres := FOff | FHave | FFull | FExpect.
Definition fam_res (s : slot) (f : fid) (pod : Z) (nc : bool) : fres :=
  let x := fget s f in
  if negb (f_on x) then FOff
  else if nc then (if s_cap s <=? setlen s f + plen s f then FFull else FExpect)
  else if avail pod (f_set x) then FHave
  else if s_cap s <=? setlen s f + plen s f then FFull else FExpect.
Definition is_expect (r : fres) : bool := match r with FExpect => true | _ => false end.

Definition alloc_kind (s : slot) (pod : Z) (nc : bool) (pin : Z) (erdma : bool) : akind :=
  if negb (Bool.eqb erdma (s_ty s =? 2)) then KReject 1
  else match s_st s with SDeleting => KReject 0 | _ =>
    if negb (pin =? 0) && negb (s_eni s =? 0) && negb (s_eni s =? pin) then KReject 2
    else match fam_res s F4 pod nc with
         | FFull => KReject 3
         | r4 => match fam_res s F6 pod nc with
                 | FFull => KReject 3
                 | r6 =>
                     if (is_expect r4 || is_expect r6) && (s_now s <? s_inh s) then KReject 4
                     else if is_expect r4 || is_expect r6 then KEnqueue (is_expect r4) (is_expect r6)
                     else KDirect
                 end
         end
  end.

(* AllocatingRequests.Len() filters the slice IN PLACE (requests whose worker context is done leave it).  The factory
   worker calls it at its loop head — `allocatingV4.Len() <= 0 && allocatingV6.Len() <= 0`: the IPv6 queue is only looked
   at when the IPv4 one is empty — and again, on both queues, when it sizes a call after the sleep. *)
Definition prune_q (s : slot) (f : fid) : slot :=
  let x := fget s f in fset s f (with_q x (prune (s_reqs s) (f_alloc x)) (f_dang x)).
Definition prune_both (s : slot) : slot := prune_q (prune_q s F4) F6.
(* both are of this shape: only the two allocating lists change *)
Definition set_allocs (s : slot) (a4 a6 : list Z) : slot :=
  fset (fset s F4 (with_q (s_4 s) a4 (f_dang (s_4 s)))) F6 (with_q (s_6 s) a6 (f_dang (s_6 s))).
Definition loop_head (s : slot) : slot :=
  let s1 := prune_q s F4 in if plen s1 F4 <=? 0 then prune_q s1 F6 else s1.

(* Local.Allocate sizes each enabled family with `len(set) + allocating.Len() >= cap`, and Len() filters the queue in
   place: the IPv4 queue whenever that test is reached (a no-cache request, or no address the pod could take), the IPv6
   queue likewise unless IPv4 already answered Full. *)
Definition adm_prune (s : slot) (pod : Z) (nc : bool) : slot :=
  let e4 := f_on (s_4 s) && (nc || negb (avail pod (f_set (s_4 s)))) in
  let s1 := if e4 then prune_q s F4 else s in
  let full4 := e4 && (s_cap s <=? setlen s F4 + plen s F4) in
  let e6 := f_on (s_6 s) && negb full4 && (nc || negb (avail pod (f_set (s_6 s)))) in
  if e6 then prune_q s1 F6 else s1.

Definition new_req (pod : Z) (nc direct : bool) (d4 d6 : Z) (k4 k6 : bool) := mkReq pod nc false false false direct d4 d6 k4 k6.

(* ---- worker exit: switchIPv4/6 + request.cancel() (local.go:562-571, 1174-1217) -------- *)
Definition switch_f (s : slot) (f : fid) (r : Z) : slot :=
  let x := fget s f in
  if memz r (f_alloc x) then
    let a := remz r (f_alloc x) in
    match prune (s_reqs s) (f_dang x) with
    | [] => fset s f (with_q x a [])
    | h :: t => fset s f (with_q x (a ++ [h]) t)
    end
  else s.
Definition mark_req (s : slot) (r : Z) (g : req -> req) : slot :=
  match rfind r (s_reqs s) with Some q => with_reqs s (rput r (g q) (s_reqs s)) | None => s end.
Definition set_wd (q : req) := mkReq (r_pod q) (r_nc q) (r_ctx q) true (r_fin q) (r_direct q) (r_d4 q) (r_d6 q) (r_k4 q) (r_k6 q).
Definition set_fin (q : req) := mkReq (r_pod q) (r_nc q) (r_ctx q) (r_wd q) true (r_direct q) (r_d4 q) (r_d6 q) (r_k4 q) (r_k6 q).
Definition set_ctx (q : req) := mkReq (r_pod q) (r_nc q) true (r_wd q) (r_fin q) (r_direct q) (r_d4 q) (r_d6 q) (r_k4 q) (r_k6 q).
Definition worker_exit (s : slot) (r : Z) : slot :=
  mark_req (switch_f (switch_f s F4 r) F6 r) r (fun q => set_fin (set_wd q)).

(* popNIPv4Jobs / popNIPv6Jobs: split the raw list, append the head part to danging, cancel the
   workerCtx of every no-cache request now in danging *)
Definition cancel_nc (t : rtab) (l : list Z) : rtab :=
  fold_left (fun acc r => match rfind r acc with
                          | Some q => if r_nc q then rput r (set_wd q) acc else acc
                          | None => acc end) l t.
Definition pop_f (s : slot) (f : fid) (k : Z) : slot :=
  let x := fget s f in
  let '(a, b) := if (k <? 0) || (len (f_alloc x) <? k) then (f_alloc x, []) else (firstn (Z.to_nat k) (f_alloc x), skipn (Z.to_nat k) (f_alloc x)) in
  let d := f_dang x ++ a in
  with_reqs (fset s f (with_q x b d)) (cancel_nc (s_reqs s) d).

(* heldBy: the entry is already allocated to the pod *)
Definition held_by (s : iset) (a pod : Z) : bool :=
  negb (a =? 0) && negb (pod =? 0) && match find a s with Some e => e_owner e =? pod | None => false end.

(* commitKeep: owner := pod (again), then deliver, or roll back — except for an entry the pod held
   before this request (k4, k6) *)
Definition commit (s : slot) (pod c4 c6 : Z) (deliver k4 k6 : bool) : slot :=
  let s1 := if c4 =? 0 then s else map_set s F4 (set_owner c4 pod) in
  let s2 := if c6 =? 0 then s1 else map_set s1 F6 (set_owner c6 pod) in
  if deliver then
    with_held s2 ((if (c4 =? 0) || (pod =? 0) then [] else [(pod, F4, c4)]) ++
                  (if (c6 =? 0) || (pod =? 0) then [] else [(pod, F6, c6)]) ++ s_held s2)
  else
    let s3 := if (c4 =? 0) || k4 then s2 else map_set s2 F4 (release c4 pod) in
    if (c6 =? 0) || k6 then s3 else map_set s3 F6 (release c6 pod).

(* errorHandleLocked: back-off deadline by error class (1: ENI-per-instance limit, 60 s;
   2: vSwitch exhausted / private-IP quota, 600 s); the model's clock counts milliseconds *)
Definition inhibit (s : slot) (code : Z) : slot :=
  if code =? 1 then with_inh s (Z.max (s_inh s) (s_now s + 60000))
  else if code =? 2 then with_inh s (Z.max (s_inh s) (s_now s + 600000))
  else s.

(* canDispose (local.go:1089-1105) *)
Definition can_dispose (s : slot) : bool :=
  if s_eni s =? 0 then true
  else if (s_ty s =? 1) || (s_ty s =? 2) || s_trunk s then false
  else match inuses (f_set (s_4 s)), inuses (f_set (s_6 s)) with
       | [], [] => (plen s F4 =? 0) && (plen s F6 =? 0)
       | _, _ => false
       end.

Definition fw_guard (s : slot) : bool :=
  ((0 <? plen s F4) || (0 <? plen s F6))
  && (match s_st s with SInit | SInUse => true | _ => false end)
  && (s_inh s <=? s_now s).

Fixpoint nodupz (l : list Z) : bool := match l with [] => true | x :: r => negb (memz x r) && nodupz r end.
Definition subsetz (a b : list Z) : bool := forallb (fun x => memz x b) a.
Definition fresh_ips (ips : list Z) (s : iset) : bool :=
  nodupz ips && negb (memz 0 ips) && forallb (fun a => negb (memz a (keys s))) ips.   (* 0 is not an address *)

(* Dispose step (a): every idle, not-valid, non-primary entry becomes Deleting *)
Definition dispose_invalid (s : iset) : iset :=
  map (fun p => let e := snd p in
                if negb (in_use e) && negb (ipst_eqb (e_st e) Valid) && negb (e_prim e)
                then (fst p, mkEnt (e_owner e) Deleting (e_prim e)) else p) s.
(* Dispose step (b): `left` iterations, each hits some entry that is neither in use nor deleting;
   hitting the primary address changes nothing and it stays a candidate *)
Definition cand (p : Z * ent) : bool := negb (in_use (snd p)) && negb (ipst_eqb (e_st (snd p)) Deleting).
Definition dispose_marks_ok (s : iset) (n : Z) (m : list Z) : bool :=
  let c := filter cand s in
  let cnp := filter (fun p => negb (e_prim (snd p))) c in
  let left := Z.min (len (idles s)) n in
  nodupz m && subsetz m (keys cnp)
  && (len m <=? Z.min left (len cnp))
  && (if existsb (fun p => e_prim (snd p)) c then true else len m =? Z.min left (len cnp)).

Definition any_in_use_of (s : iset) (ips : list Z) : bool :=
  existsb (fun a => match find a s with Some e => in_use e | None => false end) ips.
Definition any_prim_of (s : iset) (ips : list Z) : bool :=
  existsb (fun a => match find a s with Some e => e_prim e | None => false end) ips.

(* ---- labels ---------------------------------------------------------------------------- *)
Inductive label :=
| LAllocReject (pod : Z) (nc : bool) (pin : Z) (erdma : bool) (reason : Z)
| LAllocDirect (r pod pin : Z) (erdma : bool) (c4 c6 : Z)
| LAllocEnqueue (r pod : Z) (nc : bool) (pin : Z) (erdma : bool)
| LCommit (r : Z) (deliver : bool)
| LWorkerTake (r c4 c6 : Z) (deliver : bool)
| LWorkerCancel (r : Z)
| LNoCacheExit (r : Z)
| LCancel (r : Z)
| LFwArm | LFwExpire | LFwSkip | LFwLook
| LCreateBegin (n4 n6 : Z)
| LCreateEnd (ok : bool) (eni : Z) (trunk : bool) (prim : Z) (v4 v6 : list Z) (code : Z)
| LAssignBegin (f : fid) (n : Z)
| LAssignEnd (f : fid) (ok : bool) (ips : list Z) (code : Z)
| LDispose (n : Z) (whole : bool) (m4 m6 : list Z)
| LUnassignBegin (f : fid) (ips : list Z)
| LUnassignEnd (f : fid) (ok effect : bool)
| LDeleteBegin
| LDeleteEnd (ok effect : bool)
| LMetaSync (ok : bool) (r4 r6 : list Z)
| LRelease (pod eni a4 a6 : Z)
| LRemoteRemove (f : fid) (a : Z)
| LTick (dt : Z).

Definition unfinished_for (s : slot) (pod : Z) : bool :=
  negb (pod =? 0) && existsb (fun p => (r_pod (snd p) =? pod) && negb (r_fin (snd p))) (s_reqs s).

Definition sync_set (remote : list Z) (s : iset) : iset :=
  map (fun p => let e := snd p in
                if ipst_eqb (e_st e) Valid && negb (memz (fst p) remote)
                then (fst p, mkEnt (e_owner e) Invalid (e_prim e)) else p) s.
Definition sync_gone (remote : list Z) (s : iset) : list Z :=
  map fst (filter (fun p => ipst_eqb (e_st (snd p)) Valid && negb (memz (fst p) remote)) s).

Definition ghost_assigned (x : fam) (ips : list Z) : fam :=
  with_ghost x (ips ++ remzs ips (f_cl x)) (remzs ips (f_gone x)) (remzs ips (f_unreq x)).

Definition step (s : slot) (l : label) : option slot :=
  match l with
  | LAllocReject pod nc pin erdma reason =>
      match alloc_kind s pod nc pin erdma with
      | KReject k => if k =? reason then Some (if (k =? 3) || (k =? 4) then adm_prune s pod nc else s) else None
      | _ => None end
  | LAllocDirect r pod pin erdma c4 c6 =>
      match alloc_kind s pod false pin erdma, rfind r (s_reqs s) with
      | KDirect, None =>
          if unfinished_for s pod || (pod =? 0) then None      (* H_seq: one unfinished request per pod (daemon/daemon.go pending set); pre-heat requests (pod 0) are no-cache, never direct *)
          else
          let ok4 := if f_on (s_4 s) then negb (c4 =? 0) && peek_ok (f_set (s_4 s)) pod c4 else c4 =? 0 in
          let ok6 := if f_on (s_6 s) then negb (c6 =? 0) && peek_ok (f_set (s_6 s)) pod c6 else c6 =? 0 in
          if ok4 && ok6 then
            let s1 := if c4 =? 0 then s else map_set s F4 (set_owner c4 pod) in
            let s2 := if c6 =? 0 then s1 else map_set s1 F6 (set_owner c6 pod) in
            Some (with_reqs s2 (rput r (new_req pod false true c4 c6 (held_by (f_set (s_4 s)) c4 pod) (held_by (f_set (s_6 s)) c6 pod)) (s_reqs s2)))
          else None
      | _, _ => None end
  | LAllocEnqueue r pod nc pin erdma =>
      match alloc_kind s pod nc pin erdma, rfind r (s_reqs s) with
      | KEnqueue e4 e6, None =>
          if unfinished_for s pod then None
          else
          let s := adm_prune s pod nc in
          let s1 := if e4 then fset s F4 (with_q (s_4 s) (f_alloc (s_4 s) ++ [r]) (f_dang (s_4 s))) else s in
          let s2 := if e6 then fset s1 F6 (with_q (s_6 s1) (f_alloc (s_6 s1) ++ [r]) (f_dang (s_6 s1))) else s1 in
          Some (with_reqs s2 (rput r (new_req pod nc false 0 0 false false) (s_reqs s2)))
      | _, _ => None end
  | LCommit r deliver =>
      match rfind r (s_reqs s) with
      | Some q =>
          if r_direct q && negb (r_fin q) && (deliver || r_ctx q)
          then Some (mark_req (commit s (r_pod q) (r_d4 q) (r_d6 q) deliver (r_k4 q) (r_k6 q)) r set_fin)
          else None
      | None => None end
  | LWorkerTake r c4 c6 deliver =>
      match rfind r (s_reqs s) with
      | Some q =>
          let ok4 := if f_on (s_4 s) then negb (c4 =? 0) && peek_ok (f_set (s_4 s)) (r_pod q) c4 else c4 =? 0 in
          let ok6 := if f_on (s_6 s) then negb (c6 =? 0) && peek_ok (f_set (s_6 s)) (r_pod q) c6 else c6 =? 0 in
          if negb (r_direct q) && negb (r_nc q) && negb (r_fin q) && (deliver || r_ctx q) && ok4 && ok6
          then Some (worker_exit (commit s (r_pod q) c4 c6 deliver (held_by (f_set (s_4 s)) c4 (r_pod q)) (held_by (f_set (s_6 s)) c6 (r_pod q))) r)
          else None
      | None => None end
  | LWorkerCancel r =>
      match rfind r (s_reqs s) with
      | Some q => if negb (r_direct q) && negb (r_nc q) && negb (r_fin q) && r_ctx q then Some (worker_exit s r) else None
      | None => None end
  | LNoCacheExit r =>
      match rfind r (s_reqs s) with
      | Some q => if negb (r_direct q) && r_nc q && negb (r_fin q) && (r_wd q || r_ctx q) then Some (worker_exit s r) else None
      | None => None end
  | LCancel r =>
      match rfind r (s_reqs s) with Some _ => Some (mark_req s r set_ctx) | None => None end
  | LFwArm =>
      (* factoryAllocWorker's loop head: pending work, status init/in-use, no back-off -> unlock and
         sleep 300 ms; nothing is re-checked after the sleep *)
      match s_fw s with FwIdle => if fw_guard s then Some (with_fw (loop_head s) (FwArmed (s_now s + 300))) else None | _ => None end
  | LFwLook =>
      (* the loop head evaluated with nothing to do (or wrong status, or inside the back-off): the worker goes back to
         cond.Wait(), but its Len() calls have filtered the queues *)
      match s_fw s with FwIdle => if fw_guard s then None else Some (loop_head s) | _ => None end
  | LFwExpire =>
      (* after the sleep: an interface exists and both queues are empty -> no call, back to the loop head *)
      match s_fw s with
      | FwArmed t => if (t <=? s_now s) && negb (s_eni s =? 0) && (plen s F4 =? 0) && (plen s F6 =? 0) then Some (with_fw (prune_both s) FwIdle) else None
      | _ => None end
  | LFwSkip =>
      (* the same observable behaviour as a worker whose loop-head check came after the last waiting
         request had left: FwArmed is read by no other goroutine, so armed-then-skip = never armed *)
      match s_fw s with FwArmed _ => Some (with_fw s FwIdle) | _ => None end
  | LCreateBegin n4 n6 =>
      match s_fw s with
      | FwArmed t =>
          if (t <=? s_now s) && (s_eni s =? 0)
             && (n4 =? Z.min (s_batch s) (Z.max (plen s F4) 1)) && (n6 =? Z.min (s_batch s) (plen s F6))
          then Some (log_call (with_fw (with_st (prune_both s) SCreating) (FwCreate n4 n6)) (CCreate n4 n6))
          else None
      | _ => None end
  | LCreateEnd ok eni trunk prim v4 v6 code =>
      match s_fw s with
      | FwCreate n4 n6 =>
          if ok then
            if negb (eni =? 0) && fresh_ips v4 (f_set (s_4 s)) && fresh_ips v6 (f_set (s_6 s))
               && (len v4 <=? n4) && (len v6 <=? n6) then
              let s1 := pop_f (pop_f (with_eni s eni trunk) F4 n4) F6 n6 in
              let s2 := if prim =? 0 then s1 else map_set s1 F4 (put_fresh Valid prim v4) in
              let s3 := map_set s2 F6 (put_fresh Valid 0 v6) in
              let s4 := fset s3 F4 (ghost_assigned (s_4 s3) v4) in
              let s5 := fset s4 F6 (ghost_assigned (s_6 s4) v6) in
              Some (with_fw (with_st s5 SInUse) FwIdle)
            else None
          else
            let s1 := inhibit s code in
            Some (with_fw (with_st (with_eni s1 eni trunk) (if eni =? 0 then SInit else SDeleting)) FwIdle)
      | _ => None end
  | LAssignBegin f n =>
      let n4 := Z.min (s_batch s) (plen s F4) in
      let n6 := Z.min (s_batch s) (plen s F6) in
      match s_fw s, f with
      | FwArmed t, F4 =>
          if (t <=? s_now s) && negb (s_eni s =? 0) && (0 <? n4) && (n =? n4)
          then Some (log_call (with_fw (prune_both s) (FwAssign4 n4 n6)) (CAssign F4 n (len (f_cl (s_4 s)))))
          else None
      | FwArmed t, F6 =>
          if (t <=? s_now s) && negb (s_eni s =? 0) && (n4 =? 0) && (0 <? n6) && (n =? n6)
          then Some (log_call (with_fw (prune_both s) (FwAssign6 n6 true)) (CAssign F6 n (len (f_cl (s_6 s)))))
          else None
      | FwAssign6 m false, F6 =>
          if n =? m then Some (log_call (with_fw s (FwAssign6 m true)) (CAssign F6 n (len (f_cl (s_6 s))))) else None
      | _, _ => None end
  | LAssignEnd f ok ips code =>
      let fin (s' : slot) (n : Z) (next : fwst) :=
        if fresh_ips ips (f_set (fget s f)) && (len ips <=? n) then
          if ok then
            let s1 := pop_f s' f (len ips) in
            let s2 := map_set s1 f (put_fresh Valid 0 ips) in
            Some (with_fw (fset s2 f (ghost_assigned (fget s2 f) ips)) next)
          else
            let s1 := map_set s' f (put_fresh Deleting 0 ips) in
            Some (with_fw (inhibit (fset s1 f (ghost_assigned (fget s1 f) ips)) code) FwIdle)
        else None in
      match s_fw s, f with
      | FwAssign4 n4 n6, F4 => fin s n4 (if 0 <? n6 then FwAssign6 n6 false else FwIdle)
      | FwAssign6 n6 true, F6 => fin s n6 FwIdle
      | _, _ => None end
  | LDispose n whole m4 m6 =>
      if negb (s_eni s =? 0) && (match s_st s with SInUse => true | _ => false end) then
        let big := Z.max (setlen s F4) (setlen s F6) <=? n in
        if whole then (if big && can_dispose s then Some (with_st s SDeleting) else None)
        else if big && can_dispose s then None
        else
          let a4 := dispose_invalid (f_set (s_4 s)) in
          let a6 := dispose_invalid (f_set (s_6 s)) in
          if dispose_marks_ok a4 n m4 && dispose_marks_ok a6 n m6 then
            Some (fset (fset s F4 (with_set (s_4 s) (fold_left (fun acc a => dispose_ip a acc) m4 a4)))
                       F6 (with_set (s_6 s) (fold_left (fun acc a => dispose_ip a acc) m6 a6)))
          else None
      else None
  | LUnassignBegin f ips =>
      let x := fget s f in
      let all := deleting_keys (f_set x) in
      let base := negb (s_eni s =? 0) && nodupz ips && subsetz ips all
                  && negb (match ips with [] => true | _ => false end)
                  && (len ips <=? Z.min (s_batch s) (len all)) in
      let go := Some (log_call (with_dw (fset s f (with_ghost x (f_cl x) (f_gone x) (ips ++ f_unreq x))) (DwUn f ips))
                               (CUnassign f ips (any_in_use_of (f_set x) ips) (any_prim_of (f_set x) ips))) in
      match s_dw s, f with
      | DwAfter4, F6 => if base then go else None      (* stale list of the running round: no status check *)
      | DwIdle, F4 | DwAfter4, F4 =>
          match s_st s with
          | SDeleting => None
          | _ => if base && (len ips =? Z.min (s_batch s) (len all)) then go else None
          end
      | DwIdle, F6 =>
          match s_st s, deleting_keys (f_set (s_4 s)) with
          | SDeleting, _ => None
          | _, [] => if base && (len ips =? Z.min (s_batch s) (len all)) then go else None
          | _, _ => None
          end
      | _, _ => None end
  | LUnassignEnd f ok effect =>
      match s_dw s with
      | DwUn g ips =>
          if match f, g with F4, F4 | F6, F6 => true | _, _ => false end then
            let x := fget s f in
            let x1 := if ok then with_set x (del_all ips (f_set x)) else x in
            let x2 := if ok || effect then with_ghost x1 (remzs ips (f_cl x1)) (f_gone x1) (f_unreq x1) else x1 in
            Some (with_dw (fset s f x2) (match f with F4 => DwAfter4 | F6 => DwIdle end))
          else None
      | _ => None end
  | LDeleteBegin =>
      match s_dw s, s_st s with
      | DwIdle, SDeleting | DwAfter4, SDeleting =>
          if negb (s_eni s =? 0) && can_dispose s
          then Some (log_call (with_dw s DwDelete)
                              (CDelete (match inuses (f_set (s_4 s)), inuses (f_set (s_6 s)) with [], [] => false | _, _ => true end)
                                       (plen s F4 + plen s F6) (s_ty s) (s_trunk s)))
          else None
      | _, _ => None end
  | LDeleteEnd ok effect =>
      match s_dw s with
      | DwDelete =>
          if ok then
            let s1 := with_inh (with_st (with_eni s 0 false) SInit) 0 in
            let s2 := fset s1 F4 (mkFam (f_on (s_4 s1)) [] (f_alloc (s_4 s1)) (f_dang (s_4 s1)) [] [] []) in
            let s3 := fset s2 F6 (mkFam (f_on (s_6 s2)) [] (f_alloc (s_6 s2)) (f_dang (s_6 s2)) [] [] []) in
            Some (with_dw s3 DwIdle)
          else
            let s1 := if effect then fset (fset s F4 (with_ghost (s_4 s) [] (f_gone (s_4 s)) (f_unreq (s_4 s))))
                                           F6 (with_ghost (s_6 s) [] (f_gone (s_6 s)) (f_unreq (s_6 s))) else s in
            Some (with_dw s1 DwIdle)
      | _ => None end
  | LMetaSync ok r4 r6 =>
      if negb (s_eni s =? 0) && (match s_st s with SInUse => true | _ => false end) then
        if ok then
          let x4 := s_4 s in let x6 := s_6 s in
          let y4 := with_ghost (with_set x4 (sync_set r4 (f_set x4))) (f_cl x4) (sync_gone r4 (f_set x4) ++ f_gone x4) (f_unreq x4) in
          let y6 := with_ghost (with_set x6 (sync_set r6 (f_set x6))) (f_cl x6) (sync_gone r6 (f_set x6) ++ f_gone x6) (f_unreq x6) in
          Some (fset (fset s F4 y4) F6 y6)
        else Some s
      else None
  | LRelease pod eni a4 a6 =>
      if negb (s_eni s =? 0) && (s_eni s =? eni) then
        if unfinished_for s pod then None     (* H_seq, see LAllocDirect *)
        else
        let s1 := if a4 =? 0 then s else map_set s F4 (release a4 pod) in
        let s2 := if a6 =? 0 then s1 else map_set s1 F6 (release a6 pod) in
        Some (with_held s2 (filter (fun h => negb ((fst (fst h) =? pod) &&
                 (match snd (fst h) with F4 => negb (a4 =? 0) && (snd h =? a4) | F6 => negb (a6 =? 0) && (snd h =? a6) end))) (s_held s2)))
      else None
  | LRemoteRemove f a =>
      let x := fget s f in Some (fset s f (with_ghost x (remz a (f_cl x)) (f_gone x) (f_unreq x)))
  | LTick dt => if 0 <=? dt then Some (with_now s (s_now s + dt)) else None
  end.

Fixpoint run (s : slot) (ls : list label) : option slot :=
  match ls with
  | [] => Some s
  | l :: r => match step s l with Some s' => run s' r | None => None end
  end.

(* a fresh slot as NewLocal builds it (no interface yet), or one restored around an interface
   by load() is expressed by the caller *)
Definition empty_fam (on : bool) := mkFam on [] [] [] [] [] [].
Definition init_slot (ty : Z) (on4 on6 : bool) (cap batch : Z) : slot :=
  mkSlot SInit 0 ty false (empty_fam on4) (empty_fam on6) 0 FwIdle DwIdle [] cap batch 0 [] [].

(* fault-free labels: the cloud answers every call with success (the quantifier of C06) *)
Definition fault_free (l : label) : bool :=
  match l with
  | LCreateEnd ok _ _ _ _ _ _ => ok
  | LAssignEnd _ ok _ _ => ok
  | LUnassignEnd _ ok _ => ok
  | LDeleteEnd ok _ => ok
  | LMetaSync ok _ _ => ok
  | LRemoteRemove _ _ => false
  | _ => true
  end.

(* ---- Manager.syncPool (pkg/eni/manager.go): the watermark arithmetic of one balancer pass over the node's totals ---- *)
Definition bal_todel (idle mx : Z) : Z := idle - mx.                         (* > 0: that many idle addresses are disposed *)
Definition bal_want (idle inuse mn tot : Z) : Z :=                           (* pre-heat requests issued *)
  if tot <=? idle + inuse then 0 else Z.max 0 (mn - idle).
(* the reserve once the disposals and the pre-heat requests of the pass have all been carried out *)
Definition bal_after (idle inuse mn mx tot : Z) : Z := idle - Z.max 0 (bal_todel idle mx) + bal_want idle inuse mn tot.
