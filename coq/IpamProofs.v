(* IpamProofs.v — proofs about the cluster IPAM model (IpamModel.v): the binding pass is a sequence of legal
   steps, every legal step keeps the record well formed and touches only an unowned address; the release gate;
   trimming; the planning arithmetic stays inside the quotas. *)
From Coq Require Import ZArith List Bool Lia Relations.
From TV Require Import Codec IpamModel.
Import ListNotations.
Local Open Scope Z_scope.

(* ---------------------------------------------------------------------------------------------------------- *)
(* entries under set_owner *)
Definition upd (a p u : Z) (i : ipe) : ipe := if i_a i =? a then mkIp (i_a i) (i_st i) (i_prim i) p u else i.
Definition updx (a p u : Z) (x : Z * ipe) : Z * ipe := (fst x, upd a p u (snd x)).

Lemma fam_of_set_fam e six l : fam_of (set_fam e six l) six = l.
Proof. destruct six; reflexivity. Qed.
Lemma fam_of_set_fam_other e six l : fam_of (set_fam e six l) (negb six) = fam_of e (negb six).
Proof. destruct six; reflexivity. Qed.
Lemma e_id_set_fam e six l : e_id (set_fam e six l) = e_id e.
Proof. destruct six; reflexivity. Qed.

Lemma ents_set_owner_same c six a p u :
  ents (set_owner c six a p u) six = map (updx a p u) (ents c six).
Proof.
  unfold ents, set_owner. induction c as [|e c IH]; [reflexivity|].
  cbn [map flat_map]. rewrite map_app, IH. f_equal.
  rewrite fam_of_set_fam, e_id_set_fam, !map_map. reflexivity.
Qed.
Lemma ents_set_owner_other c six a p u :
  ents (set_owner c six a p u) (negb six) = ents c (negb six).
Proof.
  unfold ents, set_owner. induction c as [|e c IH]; [reflexivity|].
  cbn [map flat_map]. rewrite IH. f_equal.
  rewrite fam_of_set_fam_other, e_id_set_fam. reflexivity.
Qed.

Lemma neq_negb (b b' : bool) : b' <> b -> b' = negb b.
Proof. destruct b, b'; cbn; intro H; try reflexivity; exfalso; apply H; reflexivity. Qed.

Definition addr (x : Z * ipe) : Z := i_a (snd x).
Definition own (x : Z * ipe) : Z := i_pod (snd x).
Definition uniq (c : cr) (six : bool) : Prop := NoDup (map addr (ents c six)).

Lemma updx_id a p u x : addr x <> a -> updx a p u x = x.
Proof. destruct x as [k i]. unfold updx, upd, addr. cbn. intro H. destruct (Z.eqb_spec (i_a i) a); [contradiction|reflexivity]. Qed.
Lemma updx_hit a p u x : addr x = a -> own (updx a p u x) = p /\ fst (updx a p u x) = fst x /\ addr (updx a p u x) = a.
Proof. destruct x as [k i]. unfold updx, upd, addr, own. cbn. intro H. rewrite H, Z.eqb_refl. cbn. auto. Qed.
Lemma addr_updx a p u x : addr (updx a p u x) = addr x.
Proof. destruct x as [k i]. unfold updx, upd, addr. cbn. destruct (i_a i =? a); reflexivity. Qed.
Lemma map_addr_updx a p u l : map addr (map (updx a p u) l) = map addr l.
Proof. rewrite map_map. apply map_ext. intro x. apply addr_updx. Qed.

Lemma uniq_set_owner c six six' a p u : uniq c six' -> uniq (set_owner c six a p u) six'.
Proof.
  unfold uniq. intro H. destruct (Bool.bool_dec six' six) as [->|Hn].
  - rewrite ents_set_owner_same, map_addr_updx. exact H.
  - assert (six' = negb six) as -> by (apply neq_negb; exact Hn).
    rewrite ents_set_owner_other. exact H.
Qed.

(* the lists of one pod *)
Definition ownb (p : Z) (x : Z * ipe) : bool := i_pod (snd x) =? p.
Lemma bnd_eq c six p : bnd c six p = filter (ownb p) (ents c six).
Proof. reflexivity. Qed.

Lemma filter_updx_other a p u q l :
  q <> p -> (forall x, In x l -> addr x = a -> own x <> q) ->
  filter (ownb q) (map (updx a p u) l) = filter (ownb q) l.
Proof.
  intros Hqp. induction l as [|x l IH]; intro H; [reflexivity|].
  cbn [map filter]. rewrite IH by (intros y Hy; apply H; right; exact Hy).
  destruct (Z.eq_dec (addr x) a) as [Ha|Ha].
  - destruct (updx_hit a p u x Ha) as [Ho _].
    assert (ownb q (updx a p u x) = false) as -> by (unfold ownb; fold (own (updx a p u x)); rewrite Ho; apply Z.eqb_neq; congruence).
    assert (ownb q x = false) as -> by (unfold ownb; apply Z.eqb_neq; apply (H x); [left; reflexivity|exact Ha]).
    reflexivity.
  - rewrite (updx_id a p u x Ha). reflexivity.
Qed.

Lemma filter_updx_none a p u q l :
  (forall x, In x l -> addr x <> a) -> filter (ownb q) (map (updx a p u) l) = filter (ownb q) l.
Proof.
  induction l as [|x l IH]; intro H; [reflexivity|].
  cbn [map filter]. rewrite IH by (intros y Hy; apply H; right; exact Hy).
  rewrite (updx_id a p u x) by (apply H; left; reflexivity). reflexivity.
Qed.

Lemma filter_updx_new a p u l x :
  NoDup (map addr l) -> In x l -> addr x = a -> own x <> p ->
  exists l1 l2, filter (ownb p) (map (updx a p u) l) = l1 ++ updx a p u x :: l2 /\ filter (ownb p) l = l1 ++ l2.
Proof.
  induction l as [|y l IH]; intros Hnd Hin Ha Ho; [destruct Hin|].
  cbn [map] in Hnd. apply NoDup_cons_iff in Hnd as [Hny Hnd].
  destruct Hin as [->|Hin].
  - (* the head is the entry *)
    exists [], (filter (ownb p) l). cbn [map filter app].
    destruct (updx_hit a p u x Ha) as [Ho' _].
    assert (ownb p (updx a p u x) = true) as -> by (unfold ownb; fold (own (updx a p u x)); rewrite Ho'; apply Z.eqb_refl).
    assert (ownb p x = false) as -> by (unfold ownb; apply Z.eqb_neq; exact Ho).
    split; [|reflexivity]. f_equal. apply filter_updx_none.
    intros z Hz Hza. apply Hny. rewrite Ha, <- Hza. apply in_map. exact Hz.
  - assert (addr y <> a) as Hya.
    { intro E. apply Hny. rewrite E, <- Ha. apply in_map. exact Hin. }
    destruct (IH Hnd Hin Ha Ho) as (l1 & l2 & E1 & E2).
    cbn [map filter]. rewrite (updx_id a p u y Hya), E1, E2.
    destruct (ownb p y).
    + exists (y :: l1), l2. split; reflexivity.
    + exists l1, l2. split; reflexivity.
Qed.

(* ---------------------------------------------------------------------------------------------------------- *)
(* the invariant of C02 on a record *)
Definition WF (c : cr) : Prop :=
  forall p, p <> 0 ->
    (length (bnd c false p) <= 1)%nat /\ (length (bnd c true p) <= 1)%nat /\
    (forall x y, In x (bnd c false p) -> In y (bnd c true p) -> fst x = fst y).

Lemma uniq_same_entry l x y : NoDup (map addr l) -> In x l -> In y l -> addr x = addr y -> x = y.
Proof.
  induction l as [|z l IH]; intros Hnd Hx Hy E; [destruct Hx|].
  cbn [map] in Hnd. apply NoDup_cons_iff in Hnd as [Hn Hnd].
  destruct Hx as [->|Hx], Hy as [->|Hy]; try reflexivity.
  - exfalso. apply Hn. rewrite E. apply in_map. exact Hy.
  - exfalso. apply Hn. rewrite <- E. apply in_map. exact Hx.
  - apply IH; assumption.
Qed.

(* binding an unowned address to a pod that has none in that family, on the interface of its other address *)
Lemma set_owner_WF c six a p u x :
  WF c -> uniq c six -> In x (ents c six) -> addr x = a -> own x = 0 -> p <> 0 ->
  bnd c six p = [] -> (forall y, In y (bnd c (negb six) p) -> fst y = fst x) ->
  WF (set_owner c six a p u).
Proof.
  intros Hwf Hu Hx Ha Ho Hp Hnone Hother q Hq.
  assert (Hsame : forall q', bnd (set_owner c six a p u) (negb six) q' = bnd c (negb six) q')
    by (intro q'; unfold bnd; rewrite ents_set_owner_other; reflexivity).
  destruct (Z.eq_dec q p) as [->|Hqp].
  - (* the pod itself *)
    assert (Hxp : own x <> p) by (rewrite Ho; congruence).
    destruct (filter_updx_new a p u (ents c six) x Hu Hx Ha Hxp) as (l1 & l2 & E1 & E2).
    rewrite <- bnd_eq in E2. rewrite Hnone in E2.
    destruct l1; [|discriminate]. destruct l2; [|discriminate]. cbn [app] in E1.
    assert (Hnew : bnd (set_owner c six a p u) six p = [updx a p u x])
      by (unfold bnd; rewrite ents_set_owner_same; exact E1).
    destruct (Hwf p Hp) as (H4 & H6 & _).
    destruct (updx_hit a p u x Ha) as (_ & Hfst & _).
    destruct six; cbn [negb] in *.
    + rewrite Hnew, Hsame. split; [exact H4|]. split; [cbn; lia|].
      intros y z Hy Hz. destruct Hz as [<-|[]]. rewrite Hfst. apply Hother. exact Hy.
    + rewrite Hnew, Hsame. split; [cbn; lia|]. split; [exact H6|].
      intros y z Hy Hz. destruct Hy as [<-|[]]. rewrite Hfst. symmetry. apply Hother. exact Hz.
  - (* another pod: nothing of it changes *)
    assert (Hkeep : bnd (set_owner c six a p u) six q = bnd c six q).
    { unfold bnd. rewrite ents_set_owner_same. apply filter_updx_other; [exact Hqp|].
      intros y Hy Hya. rewrite (uniq_same_entry _ y x Hu Hy Hx) by congruence. rewrite Ho. congruence. }
    destruct (Hwf q Hq) as (H4 & H6 & Hc).
    destruct six; cbn [negb] in *; rewrite Hkeep, Hsame; auto.
Qed.

(* ---------------------------------------------------------------------------------------------------------- *)
(* from the model's lookups to entries *)
Lemma lookup_in c six a e i : lookup c six a = Some (e, i) -> In (e_id e, i) (ents c six) /\ i_a i = a /\ In e c.
Proof.
  unfold lookup, ents. induction c as [|e0 c IH]; cbn [flat_map]; [discriminate|].
  destruct (filter (fun i0 => i_a i0 =? a) (fam_of e0 six)) as [|i0 r] eqn:F.
  - cbn [map app]. intro H. destruct (IH H) as (H1 & H2 & H3). split; [apply in_or_app; right; exact H1|]. split; [exact H2|right; exact H3].
  - cbn [map app]. intro H. injection H as <- <-.
    assert (Hin : In i0 (filter (fun i1 => i_a i1 =? a) (fam_of e0 six))) by (rewrite F; left; reflexivity).
    apply filter_In in Hin as [Hin Hia]. apply Z.eqb_eq in Hia.
    split; [apply in_or_app; left; apply in_map_iff; exists i0; auto|]. split; [exact Hia|left; reflexivity].
Qed.

Lemma bnd_bound_of c six p : map (fun x => (e_id (fst x), snd x)) (bound_of c six p) = bnd c six p.
Proof.
  unfold bound_of, bnd, ents. induction c as [|e c IH]; [reflexivity|].
  cbn [flat_map]. rewrite map_app, filter_app, IH. f_equal.
  rewrite map_map. cbn [fst snd].
  induction (fam_of e six) as [|i l IHl]; [reflexivity|].
  cbn [filter map snd]. destruct (i_pod i =? p); cbn [map]; rewrite IHl; reflexivity.
Qed.
Lemma has_b_false c six p : has_b c six p = false -> bnd c six p = [].
Proof. unfold has_b. rewrite <- bnd_bound_of. destruct (bound_of c six p); [reflexivity|discriminate]. Qed.
Lemma owner_eni_spec c six p y : In y (bnd c six p) -> (length (bnd c six p) <= 1)%nat -> owner_eni c six p = fst y.
Proof.
  unfold owner_eni. rewrite <- bnd_bound_of. destruct (bound_of c six p) as [|[e i] r]; cbn [map]; [intros []|].
  intros Hy Hl. destruct r; [|cbn in Hl; lia]. destruct Hy as [<-|[]]. reflexivity.
Qed.

(* ---------------------------------------------------------------------------------------------------------- *)
(* legal steps of the binding pass *)
Definition ids_ok (c : cr) : Prop := forall e, In e c -> e_id e <> 0.
Lemma ids_ok_set_owner c six a p u : ids_ok c -> ids_ok (set_owner c six a p u).
Proof.
  unfold ids_ok, set_owner. intros H e He. apply in_map_iff in He as (e0 & <- & He0). rewrite e_id_set_fam. apply H. exact He0.
Qed.

Inductive bstep (rdma_on : bool) (c : cr) : cr -> Prop :=
| b_take six p a :
    needs p six = true -> has_b c six (p_id p) = false -> rep_of p six = a -> a <> 0 ->
    takeover_ok c six p a = true ->
    bstep rdma_on c (set_owner c six a (p_id p) (p_uid p))
| b_pick six p a :
    needs p six = true -> has_b c six (p_id p) = false -> rep_of p six = 0 ->
    pick_ok rdma_on c six p a (owner_eni c (negb six) (p_id p)) = true ->
    bstep rdma_on c (set_owner c six a (p_id p) (p_uid p)).

(* a re-adoption is consistent when the reported address lies on the interface of the pod's other address *)
Definition take_consistent (c : cr) (six : bool) (p : pod) (a : Z) : Prop :=
  forall e i y, lookup c six a = Some (e, i) -> In y (bnd c (negb six) (p_id p)) -> fst y = e_id e.

Lemma pick_step_WF rdma_on c six p a :
  WF c -> uniq c six -> ids_ok c -> p_id p <> 0 ->
  has_b c six (p_id p) = false ->
  pick_ok rdma_on c six p a (owner_eni c (negb six) (p_id p)) = true ->
  WF (set_owner c six a (p_id p) (p_uid p)).
Proof.
  intros Hwf Hu Hids Hp Hhas Hpick. unfold pick_ok in Hpick.
  destruct (lookup c six a) as [[e i]|] eqn:L; [|discriminate].
  destruct (lookup_in _ _ _ _ _ L) as (Hin & Hia & Hec).
  apply andb_true_iff in Hpick as [Hpick Hoth]. apply andb_true_iff in Hpick as [Hpick Hfree].
  apply Z.eqb_eq in Hfree.
  apply (set_owner_WF c six a (p_id p) (p_uid p) (e_id e, i)); auto.
  - apply has_b_false. exact Hhas.
  - intros y Hy. cbn [fst].
    destruct (Hwf (p_id p) Hp) as (H4 & H6 & _).
    assert (Hl : (length (bnd c (negb six) (p_id p)) <= 1)%nat) by (destruct six; assumption).
    rewrite (owner_eni_spec _ _ _ y Hy Hl) in Hoth.
    apply orb_true_iff in Hoth as [Hz|He].
    + exfalso. apply Z.eqb_eq in Hz.
      (* the other address sits on an interface of the record, whose id is not 0 *)
      unfold bnd in Hy. apply filter_In in Hy as [Hy _]. unfold ents in Hy.
      apply in_flat_map in Hy as (e' & He' & Hy). apply in_map_iff in Hy as (i' & <- & _). cbn [fst] in Hz.
      exact (Hids e' He' Hz).
    + apply Z.eqb_eq in He. symmetry. exact He.
Qed.

Lemma take_step_WF c six p a :
  WF c -> uniq c six -> p_id p <> 0 ->
  has_b c six (p_id p) = false -> takeover_ok c six p a = true -> take_consistent c six p a ->
  WF (set_owner c six a (p_id p) (p_uid p)).
Proof.
  intros Hwf Hu Hp Hhas Htake Hcons. unfold takeover_ok in Htake.
  destruct (lookup c six a) as [[e i]|] eqn:L; [|discriminate].
  destruct (lookup_in _ _ _ _ _ L) as (Hin & Hia & Hec).
  assert (Hfree : i_pod i = 0).
  { apply orb_true_iff in Htake as [H|H]; apply Z.eqb_eq in H; [exact H|].
    (* owned by the pod itself: then the pod would have a binding *)
    exfalso. pose proof (has_b_false _ _ _ Hhas) as Hn.
    assert (In (e_id e, i) (bnd c six (p_id p))) by (unfold bnd; apply filter_In; split; [exact Hin|cbn; apply Z.eqb_eq; exact H]).
    rewrite Hn in H0. destruct H0. }
  apply (set_owner_WF c six a (p_id p) (p_uid p) (e_id e, i)); auto.
  - apply has_b_false. exact Hhas.
  - intros y Hy. cbn [fst]. eapply Hcons; [exact L|exact Hy].
Qed.

(* C03: a legal step never changes an entry that has an owner; C02: the entry it binds was valid, unowned, on an
   attached interface of the right kind (pick), or is exactly the reported address (re-adoption) *)
Lemma bstep_only_unowned rdma_on c c' :
  bstep rdma_on c c' ->
  forall six x, In x (ents c six) -> own x <> 0 ->
  (forall y, In y (ents c six) -> addr y = addr x -> y = x) -> In x (ents c' six).
Proof.
  intros Hs six x Hx Hox Hun.
  destruct Hs as [six0 p a Hn Hh Hr Ha Ht | six0 p a Hn Hh Hr Hp].
  - destruct (Bool.bool_dec six six0) as [->|Hd].
    + rewrite ents_set_owner_same. apply in_map_iff. exists x. split; [|exact Hx].
      apply updx_id. intro Hax. unfold takeover_ok in Ht.
      destruct (lookup c six0 a) as [[e i]|] eqn:L; [|discriminate].
      destruct (lookup_in _ _ _ _ _ L) as (Hin & Hia & _).
      assert (E : (e_id e, i) = x) by (apply Hun; [exact Hin|unfold addr in *; cbn; congruence]).
      subst x. unfold own in Hox. cbn in Hox.
      apply orb_true_iff in Ht as [H|H]; apply Z.eqb_eq in H; [contradiction|].
      pose proof (has_b_false _ _ _ Hh) as Hnb.
      assert (In (e_id e, i) (bnd c six0 (p_id p))) by (unfold bnd; apply filter_In; split; [exact Hin|cbn; apply Z.eqb_eq; exact H]).
      rewrite Hnb in H0. destruct H0.
    + assert (six = negb six0) as -> by (apply neq_negb; exact Hd).
      rewrite ents_set_owner_other. exact Hx.
  - destruct (Bool.bool_dec six six0) as [->|Hd].
    + rewrite ents_set_owner_same. apply in_map_iff. exists x. split; [|exact Hx].
      apply updx_id. intro Hax. unfold pick_ok in Hp.
      destruct (lookup c six0 a) as [[e i]|] eqn:L; [|discriminate].
      destruct (lookup_in _ _ _ _ _ L) as (Hin & Hia & _).
      assert (E : (e_id e, i) = x) by (apply Hun; [exact Hin|unfold addr in *; cbn; congruence]).
      subst x. unfold own in Hox. cbn in Hox.
      apply andb_true_iff in Hp as [Hp _]. apply andb_true_iff in Hp as [_ Hf]. apply Z.eqb_eq in Hf. contradiction.
    + assert (six = negb six0) as -> by (apply neq_negb; exact Hd).
      rewrite ents_set_owner_other. exact Hx.
Qed.

Lemma pick_ok_valid rdma_on c six p a o :
  pick_ok rdma_on c six p a o = true ->
  exists e i, lookup c six a = Some (e, i) /\ e_status e = 1 /\ i_st i = 1 /\ i_pod i = 0 /\
              (if p_rdma p then e_mode e = 1 else (rdma_on = true -> e_mode e <> 1)).
Proof.
  unfold pick_ok. destruct (lookup c six a) as [[e i]|]; [|discriminate]. intro H.
  apply andb_true_iff in H as [H _]. apply andb_true_iff in H as [H Hf]. apply andb_true_iff in H as [H Hv].
  apply andb_true_iff in H as [Hs Hm].
  exists e, i. split; [reflexivity|]. apply Z.eqb_eq in Hs, Hv, Hf. repeat split; try assumption.
  destruct (p_rdma p); [apply Z.eqb_eq; exact Hm|].
  intros ->. cbn in Hm. apply negb_true_iff in Hm. apply Z.eqb_neq. exact Hm.
Qed.

(* ---------------------------------------------------------------------------------------------------------- *)
(* the pass is a sequence of legal steps *)
Definition steps (rdma_on : bool) := clos_refl_trans cr (bstep rdma_on).

Lemma takeover1_steps rdma_on c six p obs c' : takeover1 c six p obs = Some c' -> steps rdma_on c c'.
Proof.
  unfold takeover1.
  destruct (needs p six && negb (has_b c six (p_id p)) && negb (rep_of p six =? 0) && negb (obs =? 0)) eqn:G.
  - apply andb_true_iff in G as [G Ho]. apply andb_true_iff in G as [G Hr]. apply andb_true_iff in G as [Hn Hh].
    apply negb_true_iff in Hh. apply negb_true_iff in Hr. apply Z.eqb_neq in Hr.
    destruct ((obs =? rep_of p six) && takeover_ok c six p obs) eqn:T; [|discriminate].
    apply andb_true_iff in T as [Te Tt]. apply Z.eqb_eq in Te. intro H. injection H as <-.
    apply rt_step. apply (b_take rdma_on c six p obs); auto; congruence.
  - intro H. injection H as <-. apply rt_refl.
Qed.

Lemma takeover_all_steps rdma_on c0 l : forall c c', takeover_all c0 c l = Some c' -> steps rdma_on c c'.
Proof.
  induction l as [|[[p c4] c6] l IH]; intros c c' H; cbn [takeover_all] in H.
  - injection H as <-. apply rt_refl.
  - destruct (takeover_pod c0 c (p, c4, c6)) as [c1|] eqn:T; [|discriminate].
    eapply rt_trans; [|apply IH; exact H].
    unfold takeover_pod in T. destruct (pending c0 p).
    + destruct (takeover1 c false p c4) as [c2|] eqn:T4; [|discriminate].
      eapply rt_trans; eapply takeover1_steps; eassumption.
    + injection T as <-. apply rt_refl.
Qed.

Lemma pick_pod_steps rdma_on c0 c x c' : pick_pod rdma_on c0 c x = Some c' -> steps rdma_on c c'.
Proof.
  destruct x as [[p c4] c6]. unfold pick_pod.
  destruct (negb (pending c0 p)); [intro H; injection H as <-; apply rt_refl|].
  set (id := p_id p).
  destruct (p_need4 p && negb (has_b c false id) && (p_rep4 p =? 0) && negb (c4 =? 0)) eqn:P4.
  - (* an IPv4 address is picked *)
    apply andb_true_iff in P4 as [P4 _]. apply andb_true_iff in P4 as [P4 Hr4]. apply andb_true_iff in P4 as [Hn4 Hh4].
    apply negb_true_iff in Hh4. apply Z.eqb_eq in Hr4.
    destruct (pick_ok rdma_on c false p c4 (owner_eni c true id)) eqn:K4; [|discriminate].
    assert (S4 : steps rdma_on c (set_owner c false c4 id (p_uid p))).
    { apply rt_step. apply (b_pick rdma_on c false p c4); auto. }
    set (c1 := set_owner c false c4 id (p_uid p)) in *.
    destruct (p_need4 p && negb (has_b c false id) && negb (has_b c1 false id)).
    + destruct (p_need6 p && negb (has_b c1 true id) && negb (c6 =? 0)); [discriminate|]. intro H; injection H as <-. exact S4.
    + destruct (p_need6 p && negb (has_b c1 true id)) eqn:W6.
      * apply andb_true_iff in W6 as [Hn6 Hh6]. apply negb_true_iff in Hh6.
        destruct ((p_rep6 p =? 0) && negb (c6 =? 0)) eqn:R6; [|discriminate].
        apply andb_true_iff in R6 as [Hr6 _]. apply Z.eqb_eq in Hr6.
        destruct (pick_ok rdma_on c1 true p c6 (owner_eni c1 false id)) eqn:K6; [|discriminate].
        intro H; injection H as <-. eapply rt_trans; [exact S4|].
        apply rt_step. apply (b_pick rdma_on c1 true p c6); auto.
      * intro H; injection H as <-. exact S4.
  - (* no IPv4 pick *)
    destruct (p_need4 p && negb (has_b c false id) && negb (has_b c false id)).
    + destruct (p_need6 p && negb (has_b c true id) && negb (c6 =? 0)); [discriminate|]. intro H; injection H as <-. apply rt_refl.
    + destruct (p_need6 p && negb (has_b c true id)) eqn:W6.
      * apply andb_true_iff in W6 as [Hn6 Hh6]. apply negb_true_iff in Hh6.
        destruct ((p_rep6 p =? 0) && negb (c6 =? 0)) eqn:R6.
        -- apply andb_true_iff in R6 as [Hr6 _]. apply Z.eqb_eq in Hr6.
           destruct (pick_ok rdma_on c true p c6 (owner_eni c false id)) eqn:K6; [|discriminate].
           intro H; injection H as <-. apply rt_step. apply (b_pick rdma_on c true p c6); auto.
        -- intro H; injection H as <-. apply rt_refl.
      * intro H; injection H as <-. apply rt_refl.
Qed.

Lemma pick_all_steps rdma_on c0 l : forall c c', pick_all rdma_on c0 c l = Some c' -> steps rdma_on c c'.
Proof.
  induction l as [|x l IH]; intros c c' H; cbn [pick_all] in H.
  - injection H as <-. apply rt_refl.
  - destruct (pick_pod rdma_on c0 c x) as [c1|] eqn:P; [|discriminate].
    eapply rt_trans; [eapply pick_pod_steps; exact P|apply IH; exact H].
Qed.

Theorem bind_all_steps rdma_on c l c' : bind_all rdma_on c l = Some c' -> steps rdma_on c c'.
Proof.
  unfold bind_all. destruct (takeover_all c c l) as [c1|] eqn:T; [|discriminate].
  destruct (forallb (takeover_complete c c1) l); [|discriminate]. intro H.
  eapply rt_trans; [eapply takeover_all_steps; exact T|eapply pick_all_steps; exact H].
Qed.

(* ---------------------------------------------------------------------------------------------------------- *)
(* consistent steps keep the invariant *)
Definition good (c : cr) : Prop := WF c /\ uniq c false /\ uniq c true /\ ids_ok c.

Inductive cstep (rdma_on : bool) (c c' : cr) : Prop :=
| c_take six p a : p_id p <> 0 -> has_b c six (p_id p) = false -> takeover_ok c six p a = true -> take_consistent c six p a ->
                   c' = set_owner c six a (p_id p) (p_uid p) -> cstep rdma_on c c'
| c_pick six p a : p_id p <> 0 -> has_b c six (p_id p) = false ->
                   pick_ok rdma_on c six p a (owner_eni c (negb six) (p_id p)) = true ->
                   c' = set_owner c six a (p_id p) (p_uid p) -> cstep rdma_on c c'.

Lemma cstep_good rdma_on c c' : good c -> cstep rdma_on c c' -> good c'.
Proof.
  intros (Hwf & U4 & U6 & Hids) Hs.
  destruct Hs as [six p a Hp Hh Ht Hc -> | six p a Hp Hh Hk ->].
  - split; [|split; [apply uniq_set_owner; exact U4|split; [apply uniq_set_owner; exact U6|apply ids_ok_set_owner; exact Hids]]].
    apply take_step_WF; auto. destruct six; assumption.
  - split; [|split; [apply uniq_set_owner; exact U4|split; [apply uniq_set_owner; exact U6|apply ids_ok_set_owner; exact Hids]]].
    eapply pick_step_WF; eauto. destruct six; assumption.
Qed.

Theorem csteps_good rdma_on c c' : good c -> clos_refl_trans cr (cstep rdma_on) c c' -> good c'.
Proof.
  intros Hg Hs. apply clos_rt_rt1n in Hs. induction Hs as [|c c1 c2 H1 _ IH]; [exact Hg|].
  apply IH. eapply cstep_good; eassumption.
Qed.

(* when no pod of the pass reports an address, every step of the pass is a pick: the pass keeps the invariant *)
Definition fresh (l : list (pod * Z * Z)) : Prop :=
  forall p c4 c6, In (p, c4, c6) l -> p_rep4 p = 0 /\ p_rep6 p = 0 /\ p_id p <> 0.

Lemma takeover1_fresh c six p obs : rep_of p six = 0 -> takeover1 c six p obs = Some c.
Proof. intro H. unfold takeover1. rewrite H. cbn [Z.eqb negb]. rewrite andb_false_r. reflexivity. Qed.
Lemma takeover_all_fresh c0 l : fresh l -> forall c c', takeover_all c0 c l = Some c' -> c' = c.
Proof.
  induction l as [|[[p c4] c6] l IH]; intros Hf c c' H; cbn [takeover_all] in H; [congruence|].
  destruct (Hf p c4 c6 (or_introl eq_refl)) as (R4 & R6 & _).
  assert (T : takeover_pod c0 c (p, c4, c6) = Some c).
  { unfold takeover_pod. destruct (pending c0 p); [|reflexivity].
    rewrite (takeover1_fresh c false p c4 R4). apply (takeover1_fresh c true p c6 R6). }
  rewrite T in H. apply IH in H; [exact H|]. intros q d4 d6 Hq; apply (Hf q d4 d6); right; exact Hq.
Qed.

Lemma pick_pod_csteps rdma_on c0 c p c4 c6 c' :
  p_id p <> 0 -> pick_pod rdma_on c0 c (p, c4, c6) = Some c' -> clos_refl_trans cr (cstep rdma_on) c c'.
Proof.
  intro Hp. unfold pick_pod.
  destruct (negb (pending c0 p)); [intro H; injection H as <-; apply rt_refl|].
  set (id := p_id p).
  destruct (p_need4 p && negb (has_b c false id) && (p_rep4 p =? 0) && negb (c4 =? 0)) eqn:P4.
  - apply andb_true_iff in P4 as [P4 _]. apply andb_true_iff in P4 as [P4 Hr4]. apply andb_true_iff in P4 as [Hn4 Hh4].
    apply negb_true_iff in Hh4.
    destruct (pick_ok rdma_on c false p c4 (owner_eni c true id)) eqn:K4; [|discriminate].
    assert (S4 : clos_refl_trans cr (cstep rdma_on) c (set_owner c false c4 id (p_uid p))).
    { apply rt_step. apply (c_pick rdma_on c _ false p c4); auto. }
    set (c1 := set_owner c false c4 id (p_uid p)) in *.
    destruct (p_need4 p && negb (has_b c false id) && negb (has_b c1 false id)).
    + destruct (p_need6 p && negb (has_b c1 true id) && negb (c6 =? 0)); [discriminate|]. intro H; injection H as <-. exact S4.
    + destruct (p_need6 p && negb (has_b c1 true id)) eqn:W6.
      * apply andb_true_iff in W6 as [Hn6 Hh6]. apply negb_true_iff in Hh6.
        destruct ((p_rep6 p =? 0) && negb (c6 =? 0)) eqn:R6; [|discriminate].
        destruct (pick_ok rdma_on c1 true p c6 (owner_eni c1 false id)) eqn:K6; [|discriminate].
        intro H; injection H as <-. eapply rt_trans; [exact S4|].
        apply rt_step. apply (c_pick rdma_on c1 _ true p c6); auto.
      * intro H; injection H as <-. exact S4.
  - destruct (p_need4 p && negb (has_b c false id) && negb (has_b c false id)).
    + destruct (p_need6 p && negb (has_b c true id) && negb (c6 =? 0)); [discriminate|]. intro H; injection H as <-. apply rt_refl.
    + destruct (p_need6 p && negb (has_b c true id)) eqn:W6.
      * apply andb_true_iff in W6 as [Hn6 Hh6]. apply negb_true_iff in Hh6.
        destruct ((p_rep6 p =? 0) && negb (c6 =? 0)) eqn:R6.
        -- destruct (pick_ok rdma_on c true p c6 (owner_eni c false id)) eqn:K6; [|discriminate].
           intro H; injection H as <-. apply rt_step. apply (c_pick rdma_on c _ true p c6); auto.
        -- intro H; injection H as <-. apply rt_refl.
      * intro H; injection H as <-. apply rt_refl.
Qed.

Lemma pick_all_csteps rdma_on c0 l : fresh l -> forall c c', pick_all rdma_on c0 c l = Some c' -> clos_refl_trans cr (cstep rdma_on) c c'.
Proof.
  induction l as [|[[p c4] c6] l IH]; intros Hf c c' H; cbn [pick_all] in H.
  - injection H as <-. apply rt_refl.
  - destruct (pick_pod rdma_on c0 c (p, c4, c6)) as [c1|] eqn:P; [|discriminate].
    destruct (Hf p c4 c6 (or_introl eq_refl)) as (_ & _ & Hp).
    eapply rt_trans; [eapply pick_pod_csteps; [exact Hp|exact P]|].
    apply IH; [|exact H]. intros q d4 d6 Hq; apply (Hf q d4 d6); right; exact Hq.
Qed.

Theorem bind_all_fresh_good rdma_on c l c' : good c -> fresh l -> bind_all rdma_on c l = Some c' -> good c'.
Proof.
  intros Hg Hf. unfold bind_all. destruct (takeover_all c c l) as [c1|] eqn:T; [|discriminate].
  rewrite (takeover_all_fresh c l Hf c c1 T).
  destruct (forallb (takeover_complete c c) l); [|discriminate]. intro H.
  eapply csteps_good; [exact Hg|]. eapply pick_all_csteps; eassumption.
Qed.

(* ---------------------------------------------------------------------------------------------------------- *)
(* the release gate (C03) *)
Lemma release_entry_gate pods rt_ok rt i :
  i_pod (release_entry pods rt_ok rt i) <> i_pod i ->
  i_pod (release_entry pods rt_ok rt i) = 0 /\ rt_ok = true /\
  find (fun p => p_id p =? i_pod i) pods = None /\ (i_uid i = 0 \/ rt (i_uid i) = 2).
Proof.
  unfold release_entry. destruct rt_ok; cbn [negb]; [|intro H; contradiction H; reflexivity].
  destruct (i_pod i =? 0) eqn:Z0; [intro H; contradiction H; reflexivity|].
  destruct (find (fun p => p_id p =? i_pod i) pods) eqn:F; [cbn; intro H; contradiction H; reflexivity|].
  destruct ((i_uid i =? 0) || (rt (i_uid i) =? 2)) eqn:G; [|intro H; contradiction H; reflexivity].
  intros _. cbn. repeat split; auto.
  apply orb_true_iff in G as [G|G]; apply Z.eqb_eq in G; auto.
Qed.
Lemma release_entry_live pods rt_ok rt i :
  i_pod i <> 0 -> rt_ok = true -> find (fun p => p_id p =? i_pod i) pods = None -> (i_uid i = 0 \/ rt (i_uid i) = 2) ->
  i_pod (release_entry pods rt_ok rt i) = 0.
Proof.
  intros Hp -> F G. unfold release_entry. cbn [negb].
  destruct (Z.eqb_spec (i_pod i) 0); [contradiction|]. rewrite F.
  assert ((i_uid i =? 0) || (rt (i_uid i) =? 2) = true) as ->; [|reflexivity].
  apply orb_true_iff. destruct G as [G|G]; [left|right]; apply Z.eqb_eq; exact G.
Qed.
Lemma release_entry_keeps pods rt_ok rt i :
  i_a (release_entry pods rt_ok rt i) = i_a i /\ i_st (release_entry pods rt_ok rt i) = i_st i /\ i_prim (release_entry pods rt_ok rt i) = i_prim i.
Proof.
  unfold release_entry. destruct (negb rt_ok); [auto|]. destruct (i_pod i =? 0); [auto|].
  destruct (find _ pods); [cbn; auto|]. destruct (_ || _); cbn; auto.
Qed.
(* the owner of an entry after the release is the old owner or nobody: the pass only shrinks a pod's lists *)
Lemma release_entry_owner pods rt_ok rt i :
  i_pod (release_entry pods rt_ok rt i) = i_pod i \/ i_pod (release_entry pods rt_ok rt i) = 0.
Proof.
  unfold release_entry. destruct (negb rt_ok); [auto|]. destruct (i_pod i =? 0); [auto|].
  destruct (find _ pods); [cbn; auto|]. destruct (_ || _); cbn; auto.
Qed.

Lemma ents_release pods rt_ok rt c six :
  ents (release_not_found pods rt_ok rt c) six = map (fun x => (fst x, release_entry pods rt_ok rt (snd x))) (ents c six).
Proof.
  unfold ents, release_not_found. induction c as [|e c IH]; [reflexivity|].
  cbn [map flat_map]. rewrite map_app, IH. f_equal.
  destruct six; cbn [fam_of e_4 e_6 e_id]; rewrite !map_map; reflexivity.
Qed.

Lemma filter_release_sub pods rt_ok rt q l :
  q <> 0 ->
  exists l', filter (ownb q) (map (fun x : Z * ipe => (fst x, release_entry pods rt_ok rt (snd x))) l) =
             map (fun x => (fst x, release_entry pods rt_ok rt (snd x))) l' /\
             (length l' <= length (filter (ownb q) l))%nat /\ (forall y, In y l' -> In y (filter (ownb q) l)).
Proof.
  intro Hq. induction l as [|x l (l' & E & Hl & Hs)]; [exists []; cbn; auto|].
  cbn [map filter]. unfold ownb at 1. cbn [snd].
  destruct (release_entry_owner pods rt_ok rt (snd x)) as [Ho|Ho]; rewrite Ho.
  - fold (ownb q x). destruct (ownb q x) eqn:B.
    + exists (x :: l'). cbn [map]. rewrite E. split; [reflexivity|]. split; [cbn; lia|].
      intros y [<-|Hy]; [left; reflexivity|right; apply Hs; exact Hy].
    + exists l'. split; [exact E|]. split; [exact Hl|exact Hs].
  - assert (0 =? q = false) as -> by (apply Z.eqb_neq; congruence).
    exists l'. split; [exact E|]. destruct (ownb q x); split; try (cbn; lia); try exact Hl; intros y Hy; try (right); apply Hs; exact Hy.
Qed.

Theorem release_WF pods rt_ok rt c : WF c -> WF (release_not_found pods rt_ok rt c).
Proof.
  intros Hwf q Hq. destruct (Hwf q Hq) as (H4 & H6 & Hc).
  unfold bnd. rewrite !ents_release.
  destruct (filter_release_sub pods rt_ok rt q (ents c false) Hq) as (l4 & E4 & L4 & S4).
  destruct (filter_release_sub pods rt_ok rt q (ents c true) Hq) as (l6 & E6 & L6 & S6).
  fold (ownb q). rewrite E4, E6, !map_length. unfold bnd in H4, H6, Hc. fold (ownb q) in H4, H6, Hc.
  split; [lia|]. split; [lia|].
  intros x y Hx Hy. apply in_map_iff in Hx as (x0 & <- & Hx0). apply in_map_iff in Hy as (y0 & <- & Hy0).
  cbn [fst]. apply Hc; [apply S4; exact Hx0|apply S6; exact Hy0].
Qed.

(* ---------------------------------------------------------------------------------------------------------- *)
(* planning stays inside the quotas (C08) *)
Lemma min3_le a b c : min3 a b c <= a /\ min3 a b c <= b /\ min3 a b c <= c.
Proof. unfold min3. lia. Qed.

(* what one slot may ask for *)
Definition opt_ok (pc : plan_cfg) (o : opt) : Prop :=
  if o_eni o =? 0 then o_add4 o <= Z.max (pc_per4 pc) 0 /\ o_add6 o <= Z.max (pc_per6 pc) 0
  else (o_add4 o <= 0 \/ o_len4 o + o_add4 o <= pc_per4 pc) /\ (o_add6 o <= 0 \/ o_len6 o + o_add6 o <= pc_per6 pc).

Lemma assign_fam_ok per len al add t batch :
  (add <= 0 \/ len + add <= per) ->
  fst (fst (assign_fam per len al add t batch)) <= 0 \/ len + fst (fst (assign_fam per len al add t batch)) <= per.
Proof.
  intro H. unfold assign_fam.
  destruct (0 <? t); [|exact H]. destruct (0 <? t - al); [|exact H].
  destruct (0 <? per - len) eqn:Q; [|exact H]. apply Z.ltb_lt in Q. cbn [fst].
  right. pose proof (min3_le (per - len) (t - al) batch). lia.
Qed.
Lemma assign_new_ok per add t batch :
  add <= Z.max per 0 -> fst (assign_new per add t batch) <= Z.max per 0.
Proof.
  intro H. unfold assign_new. destruct (0 <? t); [|exact H]. cbn [fst]. pose proof (min3_le per t batch). lia.
Qed.

Lemma assign_one_ok pc o t4 t6 :
  opt_ok pc o -> opt_ok pc (fst (fst (assign_one pc o t4 t6))).
Proof.
  intros Ho. unfold assign_one, opt_ok in *.
  destruct (o_eni o =? 0) eqn:E; cbn [negb].
  - set (t4a := if o_trunk o && (t4 <=? 0) then 1 else t4).
    set (t6a := if o_trunk o && pc_on6 pc && (t6 <=? 0) then 1 else t6).
    destruct Ho as [H4 H6].
    pose proof (assign_new_ok (pc_per4 pc) (o_add4 o) t4a (pc_batch pc) H4) as K4.
    pose proof (assign_new_ok (pc_per6 pc) (o_add6 o) t6a (pc_batch pc) H6) as K6.
    destruct (assign_new (pc_per4 pc) (o_add4 o) t4a (pc_batch pc)) as [a4 t4'].
    destruct (assign_new (pc_per6 pc) (o_add6 o) t6a (pc_batch pc)) as [a6 t6'].
    cbn [fst o_eni o_add4 o_add6] in *. rewrite Z.eqb_refl. split; assumption.
  - destruct Ho as [H4 H6].
    pose proof (assign_fam_ok (pc_per4 pc) (o_len4 o) (o_al4 o) (o_add4 o) t4 (pc_batch pc) H4) as K4.
    pose proof (assign_fam_ok (pc_per6 pc) (o_len6 o) (o_al6 o) (o_add6 o) t6 (pc_batch pc) H6) as K6.
    destruct (assign_fam (pc_per4 pc) (o_len4 o) (o_al4 o) (o_add4 o) t4 (pc_batch pc)) as [[a4 f4] t4'].
    destruct (assign_fam (pc_per6 pc) (o_len6 o) (o_al6 o) (o_add6 o) t6 (pc_batch pc)) as [[a6 f6] t6'].
    cbn [fst o_eni o_add4 o_add6 o_len4 o_len6] in *. rewrite E. split; assumption.
Qed.

Lemma assign_opts_ok pc kinds l : forall t4 t6, Forall (opt_ok pc) l -> Forall (opt_ok pc) (assign_opts pc kinds l t4 t6).
Proof.
  induction l as [|o l IH]; intros t4 t6 H; [constructor|].
  inversion H as [|? ? Ho Hl]; subst. cbn [assign_opts].
  destruct (opt_filter kinds o).
  - destruct (assign_one pc o t4 t6) as [[o' t4'] t6'] eqn:A. constructor; [|apply IH; exact Hl].
    pose proof (assign_one_ok pc o t4 t6 Ho) as K. rewrite A in K. exact K.
  - constructor; [exact Ho|apply IH; exact Hl].
Qed.
Lemma assign_opts_length pc kinds l : forall t4 t6, length (assign_opts pc kinds l t4 t6) = length l.
Proof.
  induction l as [|o l IH]; intros t4 t6; [reflexivity|]. cbn [assign_opts].
  destruct (opt_filter kinds o); [destruct (assign_one pc o t4 t6) as [[o' t4'] t6']|]; cbn [length]; rewrite IH; reflexivity.
Qed.

Lemma fresh_opt_ok pc t r : opt_ok pc (fresh_opt t r).
Proof. unfold opt_ok, fresh_opt. cbn. lia. Qed.
Lemma Forall_repeat {A} (P : A -> Prop) x n : P x -> Forall P (repeat x n).
Proof. intro H. induction n; cbn; constructor; auto. Qed.

Definition existing_ok (existing : list opt) : Prop := Forall (fun o => o_add4 o = 0 /\ o_add6 o = 0) existing.
Lemma eni_options_ok pc existing : existing_ok existing -> Forall (opt_ok pc) (eni_options pc existing).
Proof.
  intro He. unfold eni_options. repeat (apply Forall_app; split); try (apply Forall_repeat; apply fresh_opt_ok).
  eapply Forall_impl; [|exact He]. intros o [H4 H6]. unfold opt_ok. rewrite H4, H6.
  destruct (o_eni o =? 0); lia.
Qed.

Theorem plan_within_limits pc existing normal rdma :
  existing_ok existing -> Forall (opt_ok pc) (plan pc existing normal rdma).
Proof.
  intros He. unfold plan. apply assign_opts_ok. apply assign_opts_ok. apply eni_options_ok. exact He.
Qed.

(* the number of slots never exceeds what the flavor allows (or what is there already) *)
Lemma length_replicate {A} n (x : A) : Z.of_nat (length (replicate n x)) = Z.max n 0.
Proof. unfold replicate. rewrite repeat_length. lia. Qed.

Theorem plan_slots pc existing normal rdma :
  0 <= pc_fl_sec pc -> 0 <= pc_fl_trunk pc -> 0 <= pc_fl_rdma pc ->
  (* the record holds no more trunk interfaces than the flavor lists *)
  lenz (filter (is_kind true false) existing) <= pc_fl_trunk pc ->
  lenz (plan pc existing normal rdma) <= Z.max (lenz existing) (pc_fl_sec pc + pc_fl_trunk pc + pc_fl_rdma pc).
Proof.
  intros Hs Ht Hr Htr. unfold plan. unfold lenz at 1. rewrite !assign_opts_length. unfold eni_options, lenz in *.
  set (total := pc_fl_sec pc + pc_fl_trunk pc + pc_fl_rdma pc).
  set (n := Z.of_nat (length existing)).
  set (kt := Z.of_nat (length (filter (is_kind true false) existing))) in *.
  set (lt := if pc_fl_trunk pc =? 0 then 0 else pc_fl_trunk pc - kt).
  set (lr := if pc_fl_rdma pc =? 0 then 0 else pc_fl_rdma pc - Z.of_nat (length (filter (is_kind false true) existing))).
  set (ls := if pc_fl_sec pc =? 0 then 0 else pc_fl_sec pc - Z.of_nat (length (filter (is_kind false false) existing))).
  set (nl := Z.max (total - n) 0).
  set (ntrunk := if pc_trunk pc then Z.min lt nl else 0).
  set (nl2 := if pc_trunk pc then nl - ntrunk else nl).
  set (nrdma := if pc_rdma pc then Z.min lr nl2 else 0).
  rewrite !app_length, !Nat2Z.inj_add, !length_replicate. fold n.
  assert (Hn : 0 <= n) by (unfold n; lia).
  assert (Hlt : 0 <= lt) by (unfold lt; destruct (pc_fl_trunk pc =? 0); lia).
  assert (Hhd : Z.max ntrunk 0 + (Z.max nrdma 0 + n) <= Z.max n total).
  { unfold nrdma, nl2, ntrunk, nl. destruct (pc_trunk pc), (pc_rdma pc); lia. }
  lia.
Qed.

(* without that hypothesis the bound fails: a record with two trunk interfaces under a flavor of one makes the
   count-down negative, which then widens the room for RDMA interfaces *)
Example plan_slots_needs_hypothesis :
  let pc := mkPc true false true true 4 4 10 1 1 2 in
  let tr := mkOpt true false 7 1 0 0 0 true 0 0 false in
  let ex := [tr; mkOpt true false 8 1 0 0 0 true 0 0 false; mkOpt false false 9 1 0 0 0 true 0 0 false] in
  lenz (plan pc ex 0 0) = 5.
Proof. vm_compute. reflexivity. Qed.

(* ---------------------------------------------------------------------------------------------------------- *)
(* trimming never counts on an owned entry *)
Lemma trim_whole_unowned e todel : trim_whole e todel = true -> in_use_n (e_4 e) = 0 /\ in_use_n (e_6 e) = 0.
Proof.
  unfold trim_whole. intro H.
  repeat (apply andb_true_iff in H as [H ?]). apply Z.eqb_eq in H. apply Z.eqb_eq in H4. auto.
Qed.

(* ---------------------------------------------------------------------------------------------------------- *)
(* the checker's boolean implies the invariant *)
Lemma ents_pods_of c six x : In x (ents c six) -> i_pod (snd x) <> 0 -> In (i_pod (snd x)) (pods_of c).
Proof.
  unfold ents, pods_of. intros Hx Hp. apply in_flat_map in Hx as (e & He & Hx).
  apply in_map_iff in Hx as (i & <- & Hi). cbn [snd] in *.
  apply in_flat_map. exists e. split; [exact He|].
  apply in_map. apply filter_In. split.
  - apply in_or_app. destruct six; [right|left]; exact Hi.
  - apply negb_true_iff. apply Z.eqb_neq. exact Hp.
Qed.

Theorem wf_sound c : wf c = true -> WF c.
Proof.
  unfold wf. intros H p Hp. rewrite forallb_forall in H.
  destruct (in_dec Z.eq_dec p (pods_of c)) as [Hin|Hnin].
  - specialize (H p Hin). unfold wf_pod in H.
    destruct (bnd c false p) as [|x4 [|? ?]]; destruct (bnd c true p) as [|x6 [|? ?]]; try discriminate; cbn [length];
      (split; [lia|]); (split; [lia|]); intros x y Hx Hy; try destruct Hx as [<-|[]]; try destruct Hy as [<-|[]]; try contradiction.
    apply Z.eqb_eq. exact H.
  - assert (E : forall six, bnd c six p = []).
    { intro six. unfold bnd. destruct (filter _ (ents c six)) as [|x r] eqn:F; [reflexivity|]. exfalso.
      assert (Hx : In x (filter (fun x0 => i_pod (snd x0) =? p) (ents c six))) by (rewrite F; left; reflexivity).
      apply filter_In in Hx as [Hx Hq]. apply Z.eqb_eq in Hq. apply Hnin. rewrite <- Hq. apply (ents_pods_of c six x Hx). congruence. }
    rewrite !E. cbn. split; [lia|]. split; [lia|]. intros x y [].
Qed.

(* re-adoption binds exactly the reported address *)
Lemma takeover1_exact c six p obs c' :
  takeover1 c six p obs = Some c' -> c' = c \/ (obs = rep_of p six /\ obs <> 0 /\ c' = set_owner c six obs (p_id p) (p_uid p)).
Proof.
  unfold takeover1.
  destruct (needs p six && negb (has_b c six (p_id p)) && negb (rep_of p six =? 0) && negb (obs =? 0)) eqn:G.
  - destruct ((obs =? rep_of p six) && takeover_ok c six p obs) eqn:T; [|discriminate].
    apply andb_true_iff in T as [Te _]. apply Z.eqb_eq in Te.
    apply andb_true_iff in G as [_ Ho]. apply negb_true_iff in Ho. apply Z.eqb_neq in Ho.
    intro H. injection H as <-. right. auto.
  - intro H. injection H as <-. left. reflexivity.
Qed.
