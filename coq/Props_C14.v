(* Props_C14.v — property C14, stated against C14Model. Nothing but statements. *)
From Coq Require Import NArith ZArith List Bool.
From TV Require Import Bits Sha1 Codec C14Model C14Proofs.
Import ListNotations.
Local Open Scope N_scope.

(* the classifier key for CIDR ip/plen at the IPv4 source offset matches a packet
   exactly when its source address lies in the CIDR (bitwise evaluator) *)
Theorem c14_u32_v4_src : forall ip plen src dst,
  plen <= 32 -> ip < 2 ^ 32 -> src < 2 ^ 32 ->
  (keys_match (ipv4_word src dst) [u32_v4 12 ip plen] = true <-> in_cidr 32 src ip plen).
Proof. intros ip plen src dst Hp Hi Hs. unfold keys_match; cbn [forallb]; rewrite andb_true_r.
  exact (u32_v4_correct 12 ip plen src Hp Hi Hs). Qed.
Print Assumptions c14_u32_v4_src.

Theorem c14_u32_v4_dst : forall ip plen src dst,
  plen <= 32 -> ip < 2 ^ 32 -> dst < 2 ^ 32 ->
  (keys_match (ipv4_word src dst) [u32_v4 16 ip plen] = true <-> in_cidr 32 dst ip plen).
Proof. intros ip plen src dst Hp Hi Hs. unfold keys_match; cbn [forallb]; rewrite andb_true_r.
  exact (u32_v4_correct 16 ip plen dst Hp Hi Hs). Qed.
Print Assumptions c14_u32_v4_dst.

Theorem c14_u32_v6_src : forall ip plen src dst,
  plen <= 128 -> ip < 2 ^ 128 -> src < 2 ^ 128 ->
  (keys_match (ipv6_word src dst) (u32_v6_src ip plen) = true <-> in_cidr 128 src ip plen).
Proof. intros ip plen src dst. exact (u32_v6_src_correct src dst ip plen). Qed.
Print Assumptions c14_u32_v6_src.

(* third-from-last address, or nothing, for every width / subnet / prefix *)
Theorem c14_gateway : forall w net plen,
  plen <= w -> net < 2 ^ w -> get_ip_at_neg3 w net plen = gateway_spec w net plen.
Proof. exact gateway_correct. Qed.
Print Assumptions c14_gateway.

Theorem c14_gateway_inside : forall w net plen g,
  plen <= w -> net < 2 ^ w -> gateway_spec w net plen = Some g ->
  net_base w net plen < g /\ g + 2 = last_addr w net plen /\
  N.land g (mask w plen) = net_base w net plen.
Proof. exact gateway_inside. Qed.
Print Assumptions c14_gateway_inside.

Theorem c14_table_injective : forall i j, route_table_id i = route_table_id j -> i = j.
Proof. exact table_injective. Qed.
Print Assumptions c14_table_injective.

Theorem c14_table_not_reserved : forall i, (0 <= i)%Z ->
  table_reserved (route_table_id i) = false /\ (1000 <= route_table_id i)%Z.
Proof. exact table_not_reserved. Qed.
Print Assumptions c14_table_not_reserved.

Theorem c14_veth_len : forall pfx ns name ifn,
  length (veth_name pfx ns name ifn) = (length pfx + 11)%nat.
Proof. exact veth_len. Qed.
Print Assumptions c14_veth_len.

(* distinct interfaces of one pod hash distinct inputs; that the 44-bit truncated
   digests then differ is hypothesis E7 (no theorem can remove it) *)
Theorem c14_veth_preimage_distinct_partial : forall ns name i j,
  norm_if i <> norm_if j -> veth_preimage ns name i <> veth_preimage ns name j.
Proof. exact veth_preimage_distinct. Qed.
Print Assumptions c14_veth_preimage_distinct_partial.

(* non-vacuity: concrete instances meeting the hypotheses, evaluated *)
Example c14_ex_v4 : keys_match (ipv4_word 3232235777 1) [u32_v4 12 3232235776 24] = true
                 /\ keys_match (ipv4_word 3232236033 1) [u32_v4 12 3232235776 24] = false.
Proof. vm_compute. split; reflexivity. Qed.
Example c14_ex_gw : get_ip_at_neg3 32 65536 24 = Some 65789 /\ get_ip_at_neg3 32 3232235776 31 = None.
Proof. vm_compute. split; reflexivity. Qed.
Example c14_ex_veth : length (veth_name [99;97;108;105]%Z [100]%Z [112]%Z [101;116;104;49]%Z) = 15%nat.
Proof. vm_compute. reflexivity. Qed.
