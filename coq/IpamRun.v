(* IpamRun.v — case decoders for the cluster IPAM harness (harness/ipam), the model evaluated on them,
   and the clauses of C02 / C03 / C08 judged on what the implementation did.  Definitions only. *)
From Coq Require Import ZArith List Bool.
From TV Require Import Codec IpamModel IpamLoop.
Import ListNotations.
Local Open Scope Z_scope.

(* ---- the record as integers: n, then per interface id status type mode n4 [a st prim pod uid].. n6 [..].. ---- *)
Fixpoint dec_ips (n : nat) (l : list Z) : list ipe * list Z :=
  match n, l with
  | S n', a :: st :: pr :: pod :: uid :: r => let '(is, r') := dec_ips n' r in (mkIp a st (dec_bool pr) pod uid :: is, r')
  | _, _ => ([], l)
  end.
Definition dec_ipl (l : list Z) : list ipe * list Z := match l with n :: r => dec_ips (Z.to_nat n) r | [] => ([], []) end.
Fixpoint dec_enis (n : nat) (l : list Z) : cr * list Z :=
  match n, l with
  | S n', id :: st :: ty :: mode :: r =>
      let '(v4, r1) := dec_ipl r in let '(v6, r2) := dec_ipl r1 in
      let '(es, r3) := dec_enis n' r2 in (mkEni id st ty mode v4 v6 :: es, r3)
  | _, _ => ([], l)
  end.
Definition dec_cr (l : list Z) : cr * list Z := match l with n :: r => dec_enis (Z.to_nat n) r | [] => ([], []) end.
Definition enc_ips (l : list ipe) : list Z := lenz l :: flat_map (fun i => [i_a i; i_st i; enc_bool (i_prim i); i_pod i; i_uid i]) l.
Definition enc_cr (c : cr) : list Z := lenz c :: flat_map (fun e => [e_id e; e_status e; e_type e; e_mode e] ++ enc_ips (e_4 e) ++ enc_ips (e_6 e)) c.

(* what the implementation produced, appended to the input by the harness: -555 n out.. *)
Definition observed (l : list Z) : option (list Z) :=
  match l with
  | m :: r => if m =? -555 then match take_list r with Some (o, _) => Some o | None => None end else None
  | [] => None
  end.

(* ---- kind 1: planning -------------------------------------------------------------------------------- *)
Definition alloc_n (l : list ipe) : Z := lenz (filter (fun i => (i_st i =? 1) && (i_pod i =? 0)) l).
Definition opt_of_eni (e : eni) : opt :=
  mkOpt (e_type e =? 1) ((e_type e =? 0) && (e_mode e =? 1)) (e_id e) (lenz (e_4 e)) (alloc_n (e_4 e)) (lenz (e_6 e)) (alloc_n (e_6 e)) (e_status e =? 1) 0 0 false.
(* sortNetworkInterface: trunk first, then high-performance, then more addresses first; the order among equals is
   Go's map order, so the observed order is checked for being sorted *)
Definition sort_key (on4 : bool) (e : eni) : Z * Z * Z := (if e_type e =? 1 then 1 else 0, if e_mode e =? 1 then 1 else 0, if on4 then lenz (e_4 e) else lenz (e_6 e)).
Definition key_ge (a b : Z * Z * Z) : bool :=
  match a, b with (a1, a2, a3), (b1, b2, b3) =>
    (b1 <? a1) || ((a1 =? b1) && ((b2 <? a2) || ((a2 =? b2) && (b3 <=? a3)))) end.
Fixpoint sorted_by (on4 : bool) (l : list eni) : bool :=
  match l with
  | a :: t => match t with b :: _ => key_ge (sort_key on4 a) (sort_key on4 b) | [] => true end && sorted_by on4 t
  | [] => true
  end.
Definition pick_enis (c : cr) (order : list Z) : list eni :=
  flat_map (fun id => filter (fun e => e_id e =? id) c) order.
Definition enc_opt1 (o : opt) : list Z := [enc_bool (o_trunk o); enc_bool (o_rdma o); o_eni o; o_add4 o; o_add6 o; enc_bool (o_full o)].

Record plan_in := mkPi { pi_pc : plan_cfg; pi_cr : cr; pi_normal : Z; pi_rdma : Z; pi_order : list Z }.
Definition dec_plan (l : list Z) : option plan_in :=
  match l with
  | on4 :: on6 :: tr :: rd :: per4 :: per6 :: fs :: ft :: fr :: r =>
      let '(c, r1) := dec_cr r in
      match r1 with
      | normal :: rdma :: r2 =>
          match take_list r2 with
          | Some (order, _) => Some (mkPi (mkPc (dec_bool on4) (dec_bool on6) (dec_bool tr) (dec_bool rd) per4 per6 10 fs ft fr) c normal rdma order)
          | None => None end
      | _ => None end
  | _ => None
  end.
Definition run_plan (l : list Z) : list Z :=
  match dec_plan l with
  | Some p =>
      let es := pick_enis (pi_cr p) (pi_order p) in
      if (lenz es =? lenz (pi_cr p)) && sorted_by (pc_on4 (pi_pc p)) es
      then flat_map enc_opt1 (plan (pi_pc p) (map opt_of_eni es) (pi_normal p) (pi_rdma p))
      else [-997; 1]
  | None => bad
  end.

(* C08 on a plan: no option asks for more than the per-interface limit leaves; the new interfaces fit the flavor *)
Fixpoint dec_opts (fuel : nat) (l : list Z) : list (Z * Z * Z) :=
  match fuel, l with
  | S f, _ :: _ :: e :: a4 :: a6 :: _ :: r => (e, a4, a6) :: dec_opts f r
  | _, _ => []
  end.
Definition plan_ok (p : plan_in) (o : list Z) : bool :=
  let pc := pi_pc p in
  let opts := dec_opts (length o) o in
  forallb (fun x => match x with (e, a4, a6) =>
     if e =? 0 then (a4 <=? Z.max (pc_per4 pc) 0) && (a6 <=? Z.max (pc_per6 pc) 0)
     else match List.find (fun en => e_id en =? e) (pi_cr p) with
          | Some en => ((a4 <=? 0) || (lenz (e_4 en) + a4 <=? pc_per4 pc)) && ((a6 <=? 0) || (lenz (e_6 en) + a6 <=? pc_per6 pc))
          | None => false end end) opts
  (* the slot bound is claimed for records that hold no more trunk interfaces than the flavor lists (the hypothesis
     of c08_plan_slots_partial; c08_plan_slots_hypothesis_needed shows what happens otherwise) *)
  && ((pc_fl_trunk pc <? lenz (filter (fun e => e_type e =? 1) (pi_cr p)))
      || (lenz (filter (fun x => match x with (e, _, _) => e =? 0 end) opts) <=? Z.max 0 (pc_fl_sec pc + pc_fl_trunk pc + pc_fl_rdma pc - lenz (pi_cr p)))).

(* ---- kind 2: trimming one interface ------------------------------------------------------------------- *)
Definition class_counts (l : list ipe) : list Z :=
  map (fun k => lenz (filter (fun i => Bool.eqb (i_st i =? 1) (k mod 2 =? 1)
                                      && Bool.eqb (negb (i_pod i =? 0)) ((k / 2) mod 2 =? 1)
                                      && Bool.eqb (i_prim i) ((k / 4) mod 2 =? 1)) l))
      [0; 1; 2; 3; 4; 5; 6; 7].
Definition mark_first (k : Z) (l : list ipe) : list ipe :=
  snd (fold_left (fun (acc : Z * list ipe) (i : ipe) =>
         if (0 <? fst acc) && (i_pod i =? 0) && negb (i_prim i) && negb (i_st i =? 2)
         then (fst acc - 1, snd acc ++ [mkIp (i_a i) 2 (i_prim i) (i_pod i) (i_uid i)])
         else (fst acc, snd acc ++ [i])) l (k, [])).
Definition trim (e : eni) (todel : Z) : Z * eni :=
  if trim_whole e todel then (Z.max (lenz (e_4 e)) (lenz (e_6 e)), mkEni (e_id e) 5 (e_type e) (e_mode e) (e_4 e) (e_6 e))
  else let '(d4, d6) := trim_counts e todel in
       (trim_ret e todel, mkEni (e_id e) (e_status e) (e_type e) (e_mode e) (mark_first d4 (e_4 e)) (mark_first d6 (e_6 e))).
Definition summary (e : eni) : list Z := [e_status e] ++ class_counts (e_4 e) ++ class_counts (e_6 e).
Definition dec_trim (l : list Z) : option (eni * Z * list Z) :=
  match l with
  | _ :: r => let '(c, r1) := dec_cr r in
              match c, r1 with [e], todel :: r2 => Some (e, todel, r2) | _, _ => None end
  | [] => None
  end.
Definition run_trim (l : list Z) : list Z :=
  match dec_trim l with
  | Some (e, todel, r) =>
      match observed r with
      | Some (oret :: ocr) =>
          let '(ret, e') := trim e todel in
          match dec_cr ocr with
          | ([oe], _) => if (ret =? oret) && list_eqb (summary e') (summary oe) then oret :: ocr else ret :: enc_cr [e']
          | _ => ret :: enc_cr [e'] end
      | _ => bad end
  | None => bad
  end.
(* C03 / C08: trimming never touches an address that has an owner, nor the primary address; an interface is
   given up whole only if nothing on it is owned *)
Definition fam_kept (b a : list ipe) : bool :=
  forallb (fun i => match List.find (fun j => i_a j =? i_a i) a with
                    | Some j => (i_pod j =? i_pod i) && (i_uid j =? i_uid i) &&
                                ((i_st j =? i_st i) || ((i_pod i =? 0) && negb (i_prim i)))
                    | None => false end) b.
Definition trim_ok (before after : eni) : bool :=
  fam_kept (e_4 before) (e_4 after) && fam_kept (e_6 before) (e_6 after)
  && ((e_status after =? e_status before) || ((in_use_n (e_4 before) =? 0) && (in_use_n (e_6 before) =? 0))).

(* ---- kind 3: one binding pass -------------------------------------------------------------------------- *)
Fixpoint dec_pods (n : nat) (l : list Z) : list pod * list Z :=
  match n, l with
  | S n', p :: u :: n4 :: n6 :: rd :: r4 :: r6 :: r =>
      let '(ps, r') := dec_pods n' r in (mkPod p u (dec_bool n4) (dec_bool n6) (dec_bool rd) r4 r6 :: ps, r')
  | _, _ => ([], l)
  end.
Fixpoint dec_pairs (n : nat) (l : list Z) : list (Z * Z) * list Z :=
  match n, l with
  | S n', a :: b :: r => let '(ps, r') := dec_pairs n' r in ((a, b) :: ps, r')
  | _, _ => ([], l)
  end.
Definition rt_fun (l : list (Z * Z)) (u : Z) : Z :=
  match List.find (fun p => fst p =? u) l with Some p => snd p | None => 0 end.
Definition addr_of (c : cr) (six : bool) (p : Z) : Z := match bound_of c six p with (_, i) :: _ => i_a i | [] => 0 end.

Record bind_in := mkBi { b_on4 : bool; b_on6 : bool; b_rdma : bool; b_cr : cr; b_pods : list pod; b_rtok : bool; b_rt : list (Z * Z) }.
Definition dec_bind (l : list Z) : option (bind_in * list Z) :=
  match l with
  | on4 :: on6 :: rd :: r =>
      let '(c, r1) := dec_cr r in
      match r1 with
      | np :: r2 =>
          let '(ps, r3) := dec_pods (Z.to_nat np) r2 in
          match r3 with
          | ok :: nrt :: r4 => let '(rt, r5) := dec_pairs (Z.to_nat nrt) r4 in
                               Some (mkBi (dec_bool on4) (dec_bool on6) (dec_bool rd) c ps (dec_bool ok) rt, r5)
          | _ => None end
      | _ => None end
  | _ => None
  end.
(* the model follows the observed outcome: after the gated release every pod is taken through the take-over and
   pick loops towards the addresses it ended up with; the result must be the observed record *)
Definition bind_check (b : bind_in) (obs : cr) : option cr :=
  let c1 := release_not_found (b_pods b) (b_rtok b) (rt_fun (b_rt b)) (b_cr b) in
  let outcome p :=
    let had4 := addr_of c1 false (p_id p) in let had6 := addr_of c1 true (p_id p) in
    (p, (if had4 =? 0 then addr_of obs false (p_id p) else 0), (if had6 =? 0 then addr_of obs true (p_id p) else 0)) in
  bind_all (b_rdma b) c1 (map outcome (b_pods b)).
Definition run_bind (l : list Z) : list Z :=
  match dec_bind l with
  | Some (b, r) =>
      match observed r with
      | Some out =>
          let '(obs, _) := dec_cr out in
          (* a malformed record (a pod owning two addresses of one family) is outside the model: which of them the
             index keeps is Go's map order; such cases are judged by the clauses only *)
          if negb (wf (b_cr b)) then out else
          match bind_check b obs with
          | Some c' => if list_eqb (enc_cr c') (enc_cr obs) then out else enc_cr c'
          | None => [-997; 2]
          end
      | None => bad end
  | None => bad
  end.

(* ---- the clauses on one step of the record: pre -> post with the pods and runtime reports of that moment ----- *)
(* C02 *)
Definition new_binding_ok (rdma_on : bool) (pods : list pod) (pre post : cr) (six : bool) : bool :=
  forallb (fun e => forallb (fun i =>
      if i_pod i =? 0 then true
      else
        let was := match lookup pre six (i_a i) with Some (_, j) => i_pod j | None => 0 end in
        if was =? i_pod i then true                                          (* not a new binding *)
        else
          match List.find (fun p => p_id p =? i_pod i) pods with
          | Some p => let rep := if six then p_rep6 p else p_rep4 p in
                      if negb (rep =? 0) then i_a i =? rep                   (* re-adopted onto exactly the reported address *)
                      (* a previous owner that is gone may have been released in this very pass: C03 judges that *)
                      else ((was =? 0) || negb (existsb (fun q => p_id q =? was) pods)) && (e_status e =? 1) && (i_st i =? 1)
                           && (if p_rdma p then e_mode e =? 1 else negb (rdma_on && (e_mode e =? 1)))
          | None => false end) (fam_of e six)) post.
(* a pod that reports an address is never bound to another one *)
Definition reported_kept (pods : list pod) (post : cr) : bool :=
  forallb (fun p => ((p_rep4 p =? 0) || (addr_of post false (p_id p) =? 0) || (addr_of post false (p_id p) =? p_rep4 p))
                    && ((p_rep6 p =? 0) || (addr_of post true (p_id p) =? 0) || (addr_of post true (p_id p) =? p_rep6 p))) pods.
(* C03: an address bound before the step loses its owner, is marked, or disappears only if its pod is gone and
   (no uid was recorded or the final runtime report for that uid is `deleted`).  gone a : the address no longer
   exists in the cloud before the step (drift), which the record may follow. *)
Definition gate_ok (pods : list pod) (rt_ok : bool) (rt : Z -> Z) (gone : bool -> Z -> bool) (pre post : cr) (six : bool) : bool :=
  forallb (fun e => forallb (fun i =>
      if i_pod i =? 0 then true
      else
        let kept := match lookup post six (i_a i) with
                    | Some (_, j) => (i_pod j =? i_pod i) && ((i_st j =? i_st i) || negb (i_st j =? 2))
                    | None => false end in
        kept || gone six (i_a i)
        || (negb (existsb (fun p => p_id p =? i_pod i) pods) && rt_ok && ((i_uid i =? 0) || (rt (i_uid i) =? 2)))
    ) (fam_of e six)) pre.
(* the other half: pod gone, teardown reported, the pass succeeded -> the binding is gone *)
Definition freed_ok (pods : list pod) (rt_ok : bool) (rt : Z -> Z) (pre post : cr) (six : bool) : bool :=
  forallb (fun e => forallb (fun i =>
      if i_pod i =? 0 then true
      else if negb (existsb (fun p => p_id p =? i_pod i) pods) && rt_ok && ((i_uid i =? 0) || (rt (i_uid i) =? 2))
           then match lookup post six (i_a i) with Some (_, j) => negb (i_pod j =? i_pod i) | None => true end
           else true) (fam_of e six)) pre.

(* a reported address that the record knows and nobody owns is re-adopted by a pod that reports it *)
Definition readopted (pods : list pod) (pre post : cr) (six : bool) : bool :=
  forallb (fun p =>
     let a := if six then p_rep6 p else p_rep4 p in
     if (a =? 0) || negb (if six then p_need6 p else p_need4 p) || has_b pre six (p_id p) then true
     else match lookup pre six a, lookup post six a with
          | Some (_, i), Some (_, j) =>
              negb (i_pod i =? 0) ||
              existsb (fun q => (p_id q =? i_pod j) && ((if six then p_rep6 q else p_rep4 q) =? a)) pods
          | _, _ => true end) pods.

(* in a record grown by the controller itself every bound address is valid and sits on an interface in use *)
Definition bound_live (c : cr) : bool :=
  forallb (fun e => forallb (fun i => (i_pod i =? 0) || ((e_status e =? 1) && (i_st i =? 1))) (e_4 e ++ e_6 e)) c.

Definition bind_why (prop : Z) (l o : list Z) : Z :=
  match dec_bind l with
  | Some (b, _) =>
      let '(post, _) := dec_cr o in
      let rt := rt_fun (b_rt b) in
      let nogone := fun (_ : bool) (_ : Z) => false in
      if prop =? 2 then
        if negb (if wf (b_cr b) then wf post else true) then 201
        else if negb (new_binding_ok (b_rdma b) (b_pods b) (b_cr b) post false && new_binding_ok (b_rdma b) (b_pods b) (b_cr b) post true) then 202
        else if negb (readopted (b_pods b) (b_cr b) post false && readopted (b_pods b) (b_cr b) post true) then 206
        else 0
      else
        if negb (gate_ok (b_pods b) (b_rtok b) rt nogone (b_cr b) post false && gate_ok (b_pods b) (b_rtok b) rt nogone (b_cr b) post true) then 301
        else if negb (freed_ok (b_pods b) (b_rtok b) rt (b_cr b) post false && freed_ok (b_pods b) (b_rtok b) rt (b_cr b) post true) then 302
        else 0
  | None => 299
  end.

(* ---- kind 4: histories of whole reconciles ----------------------------------------------------------------- *)
Record hcfg := mkHc { h_on4 : bool; h_on6 : bool; h_trunk : bool; h_rdma : bool; h_per4 : Z; h_per6 : Z;
                      h_fs : Z; h_ft : Z; h_fr : Z; h_min : Z; h_max : Z }.
Record ceni := mkCe { ce_id : Z; ce_inuse : bool; ce_4 : list Z; ce_6 : list Z }.
Record pass := mkPass { ps_err : bool; ps_confl : bool; ps_restarted : bool; ps_pods : list pod; ps_rtok : bool; ps_rt : list (Z * Z);
                        ps_pre : list ceni; ps_calls : list (list Z); ps_cr : cr; ps_cloud : list ceni }.

Fixpoint dec_hpods (on4 on6 : bool) (n : nat) (l : list Z) : list pod * list Z :=
  match n, l with
  | S n', p :: u :: rd :: r4 :: r6 :: r => let '(ps, r') := dec_hpods on4 on6 n' r in (mkPod p u on4 on6 (dec_bool rd) r4 r6 :: ps, r')
  | _, _ => ([], l)
  end.
Fixpoint dec_cloud (n : nat) (l : list Z) : list ceni * list Z :=
  match n, l with
  | S n', id :: iu :: r =>
      match take_list r with
      | Some (v4, r1) => match take_list r1 with
                         | Some (v6, r2) => let '(es, r3) := dec_cloud n' r2 in (mkCe id (dec_bool iu) v4 v6 :: es, r3)
                         | None => ([], l) end
      | None => ([], l) end
  | _, _ => ([], l)
  end.
Fixpoint dec_lists (n : nat) (l : list Z) : list (list Z) * list Z :=
  match n with
  | S n' => match take_list l with Some (x, r) => let '(xs, r') := dec_lists n' r in (x :: xs, r') | None => ([], l) end
  | O => ([], l)
  end.
Definition dec_pass (on4 on6 : bool) (l : list Z) : option (pass * list Z) :=
  match l with
  | m :: er :: cf :: rs :: np :: r =>
      if negb (m =? 77) then None else
      let '(pods, r1) := dec_hpods on4 on6 (Z.to_nat np) r in
      match r1 with
      | nrt :: r2 =>
          let '(rt, r3) := dec_pairs (Z.to_nat nrt) r2 in
          match r3 with
          | npre :: r4 =>
              let '(pre, r5) := dec_cloud (Z.to_nat npre) r4 in
              match r5 with
              | nc :: r6 =>
                  let '(calls, r7) := dec_lists (Z.to_nat nc) r6 in
                  let '(c, r8) := dec_cr r7 in
                  match r8 with
                  | ncl :: r9 => let '(cl, r10) := dec_cloud (Z.to_nat ncl) r9 in
                                 Some (mkPass (dec_bool er) (dec_bool cf) (dec_bool rs) pods (0 <=? nrt) rt pre calls c cl, r10)
                  | [] => None end
              | [] => None end
          | [] => None end
      | [] => None end
  | _ => None
  end.
Fixpoint dec_passes (fuel : nat) (on4 on6 : bool) (l : list Z) : list pass :=
  match fuel with
  | S f => match dec_pass on4 on6 l with Some (p, r) => p :: dec_passes f on4 on6 r | None => [] end
  | O => []
  end.
Definition dec_hist (l : list Z) : option (hcfg * list Z) :=
  match l with
  | on4 :: on6 :: tr :: rd :: per4 :: per6 :: fs :: ft :: fr :: mn :: mx :: n :: r =>
      let '(_, r1) := dec_lists (Z.to_nat n) r in
      Some (mkHc (dec_bool on4) (dec_bool on6) (dec_bool tr) (dec_bool rd) per4 per6 fs ft fr mn mx, r1)
  | _ => None
  end.

(* -- the simulated cloud followed through the call log (kind eni n ok nips ips..) -- *)
Definition cl_find (cl : list ceni) (id : Z) : option ceni := List.find (fun e => ce_id e =? id) cl.
Definition cl_upd (cl : list ceni) (e : ceni) : list ceni := map (fun x => if ce_id x =? ce_id e then e else x) cl.
Definition not_in (l : list Z) (a : Z) : bool := negb (existsb (Z.eqb a) l).
Definition cl_call (cl : list ceni) (c : list Z) : list ceni :=
  match c with
  | k :: id :: n :: ok :: _ :: ips =>
      if ok =? 0 then cl else
      if k =? 1 then cl ++ [mkCe id false (firstn (Z.to_nat (Z.max 1 (n / 1000))) ips) (skipn (Z.to_nat (Z.max 1 (n / 1000))) ips)]
      else match cl_find cl id with
           | None => cl
           | Some e =>
               if k =? 2 then cl_upd cl (mkCe id true (ce_4 e) (ce_6 e))
               else if k =? 3 then cl_upd cl (mkCe id (ce_inuse e) (ce_4 e ++ ips) (ce_6 e))
               else if k =? 4 then cl_upd cl (mkCe id (ce_inuse e) (ce_4 e) (ce_6 e ++ ips))
               else if k =? 5 then cl_upd cl (mkCe id (ce_inuse e) (filter (not_in ips) (ce_4 e)) (ce_6 e))
               else if k =? 6 then cl_upd cl (mkCe id (ce_inuse e) (ce_4 e) (filter (not_in ips) (ce_6 e)))
               else if k =? 7 then cl_upd cl (mkCe id false (ce_4 e) (ce_6 e))
               else if k =? 8 then filter (fun x => negb (ce_id x =? id)) cl
               else cl
           end
  | _ => cl
  end.
(* C08: a request never exceeds the per-interface limits, nor the number of interfaces the flavor allows.
   interfaces of the record and attached ones both occupy a slot.  What the controller can know of an interface is
   its record (stale after a call that failed after taking effect, or a lost update) or, after a synchronisation,
   the cloud: a request is out of bounds only if it is so by both counts. *)
Definition rec_count (pre_cr : cr) (six : bool) (id : Z) : Z :=
  match List.find (fun e => e_id e =? id) pre_cr with Some e => lenz (fam_of e six) | None => 0 end.
Definition call_quota_ok (hc : hcfg) (pre_cr : cr) (cl : list ceni) (c : list Z) : bool :=
  match c with
  | k :: id :: n :: _ =>
      if k =? 1 then
        (n / 1000 <=? Z.max 1 (h_per4 hc)) && (n mod 1000 <=? h_per6 hc)
        && ((lenz (filter (fun e => ce_inuse e || existsb (fun x => e_id x =? ce_id e) pre_cr) cl) + 1 <=? h_fs hc + h_ft hc + h_fr hc)
            || (lenz pre_cr + 1 <=? h_fs hc + h_ft hc + h_fr hc))
      else if k =? 3 then match cl_find cl id with Some e => (lenz (ce_4 e) + n <=? h_per4 hc) || (rec_count pre_cr false id + n <=? h_per4 hc) | None => true end
      else if k =? 4 then match cl_find cl id with Some e => (lenz (ce_6 e) + n <=? h_per6 hc) || (rec_count pre_cr true id + n <=? h_per6 hc) | None => true end
      else true
  | _ => true
  end.
(* C03 at a call: an address taken away in the cloud (unassign, or with its interface on detach / delete) is not
   one whose owner, before the pass, fails the gate; nor one that is bound after the pass *)
Definition may_go (ps : pass) (pre post : cr) (six : bool) (a : Z) : bool :=
  (match lookup pre six a with
   | Some (_, i) => (i_pod i =? 0) || (negb (existsb (fun p => p_id p =? i_pod i) (ps_pods ps)) && ps_rtok ps && ((i_uid i =? 0) || (rt_fun (ps_rt ps) (i_uid i) =? 2)))
   | None => true end)
  && (match lookup post six a with Some (_, j) => i_pod j =? 0 | None => true end).
Definition call_gate_ok (ps : pass) (pre post : cr) (cl : list ceni) (c : list Z) : bool :=
  match c with
  | k :: id :: n :: ok :: _ :: ips =>
      if k =? 5 then forallb (may_go ps pre post false) ips
      else if k =? 6 then forallb (may_go ps pre post true) ips
      else if (k =? 7) || (k =? 8) then
        match cl_find cl id with
        | Some e => forallb (may_go ps pre post false) (ce_4 e) && forallb (may_go ps pre post true) (ce_6 e)
        | None => true end
      else true
  | _ => true
  end.
Fixpoint calls_why (prop : Z) (hc : hcfg) (ps : pass) (pre post : cr) (cl : list ceni) (cs : list (list Z)) : Z :=
  match cs with
  | [] => 0
  | c :: r => if (prop =? 8) && negb (call_quota_ok hc pre cl c) then 801
              else if (prop =? 3) && negb (call_gate_ok ps pre post cl c) then 303
              else calls_why prop hc ps pre post (cl_call cl c) r
  end.
(* every interface this pass created is, afterwards, gone from the cloud, or in the record, or attached while the
   record was lost to a failed update (the forced synchronisation will find it) *)
Definition created_ok (ps : pass) : bool :=
  forallb (fun c => match c with
                    | k :: id :: _ :: ok :: _ =>
                        if (k =? 1) && (ok =? 1) then
                          match cl_find (ps_cloud ps) id with
                          | None => true
                          | Some e => existsb (fun x => e_id x =? id) (ps_cr ps) || (ce_inuse e && (ps_confl ps || ps_err ps))
                          end
                        else true
                    | _ => true end) (ps_calls ps).
(* record and cloud agree: an interface of the record that is not being given up is attached in the cloud with exactly
   the record's addresses; every cloud interface is in the record *)
Definition same_set (a b : list Z) : bool := forallb (fun x => existsb (Z.eqb x) b) a && forallb (fun x => existsb (Z.eqb x) a) b.
Definition agree (c : cr) (cl : list ceni) : bool :=
  forallb (fun e => if e_status e =? 1 then
                      match cl_find cl (e_id e) with
                      | Some ce => ce_inuse ce && same_set (map i_a (e_4 e)) (ce_4 ce) && same_set (map i_a (e_6 e)) (ce_6 ce)
                      | None => false end
                    else true) c
  && forallb (fun ce => existsb (fun e => e_id e =? ce_id ce) c) cl.
Definition gone_of (pre : list ceni) (six : bool) (a : Z) : bool :=
  negb (existsb (fun e => existsb (Z.eqb a) (if six then ce_6 e else ce_4 e)) pre).
Definition mutating (cs : list (list Z)) : bool := negb (lenz cs =? 0).
Definition enc_cloud (cl : list ceni) : list Z := flat_map (fun e => [ce_id e; enc_bool (ce_inuse e); lenz (ce_4 e)] ++ ce_4 e ++ [lenz (ce_6 e)] ++ ce_6 e) cl.
Definition pod_bound (hc : hcfg) (c : cr) (p : pod) : bool :=
  (negb (h_on4 hc) || negb (addr_of c false (p_id p) =? 0)) && (negb (h_on6 hc) || negb (addr_of c true (p_id p) =? 0)).
Definition all_bound (hc : hcfg) (ps : pass) : bool := forallb (pod_bound hc (ps_cr ps)) (ps_pods ps).
(* spare capacity, judged conservatively: the ordinary pods plus the idle band fit on the secondary interfaces of the
   flavor alone, the RDMA pods on the RDMA ones *)
Definition ghosts (ps : pass) (six : bool) : Z :=
  lenz (filter (fun x => negb (i_pod (snd x) =? 0) && negb (existsb (fun p => p_id p =? i_pod (snd x)) (ps_pods ps))) (ents (ps_cr ps) six)).
Definition roomy (hc : hcfg) (ps : pass) : bool :=
  let per := Z.min (if h_on4 hc then h_per4 hc else h_per6 hc) (if h_on6 hc then h_per6 hc else h_per4 hc) in
  (* addresses still held for pods whose teardown was never reported occupy room too *)
  let held := Z.max (ghosts ps false) (ghosts ps true) in
  (lenz (filter (fun p => negb (p_rdma p)) (ps_pods ps)) + held + h_max hc <=? per * h_fs hc)
  && (lenz (filter p_rdma (ps_pods ps)) + held <=? per * h_fr hc).
(* the lower edge of the band: the idle addresses the refill counts (valid, unowned, on attached interfaces that are
   not RDMA ones), per enabled family *)
Definition idle_fam (c : cr) (six : bool) : Z :=
  fold_left Z.add (map (fun e => if (e_status e =? 1) && (e_mode e =? 0) then idle_valid (fam_of e six) else 0) c) 0.
Definition min_ok (hc : hcfg) (ps : pass) : bool :=
  (negb (h_on4 hc) || (h_min hc <=? idle_fam (ps_cr ps) false)) && (negb (h_on6 hc) || (h_min hc <=? idle_fam (ps_cr ps) true)).
(* a pod that reports no address yet is eligible for one *)
(* (a pod that kept one family after the other vanished in the cloud is tied to that interface: the conservative
   capacity estimate above says nothing about room there, so it is not counted) *)
Definition fresh_bound (hc : hcfg) (ps : pass) : bool :=
  forallb (fun p => negb ((p_rep4 p =? 0) && (p_rep6 p =? 0)) || pod_bound hc (ps_cr ps) p
                    || negb (addr_of (ps_cr ps) false (p_id p) =? 0) || negb (addr_of (ps_cr ps) true (p_id p) =? 0)) (ps_pods ps).

(* one pass judged against the record the previous one left; left = number of passes still to come.
   prop selects the clause family: 2 = C02, 3 = C03, 8 = C08 *)
Definition pass_why (prop : Z) (hc : hcfg) (pre : cr) (ps : pass) (togo : Z) : Z :=
  let post := ps_cr ps in
  let rt := rt_fun (ps_rt ps) in
  if prop =? 2 then
    if negb (wf post) then 201
    else if negb (new_binding_ok (h_rdma hc) (ps_pods ps) pre post false && new_binding_ok (h_rdma hc) (ps_pods ps) pre post true) then 202
    else if negb (bound_live post) then 204
    else if negb (ps_err ps) && negb (readopted (ps_pods ps) pre post false && readopted (ps_pods ps) pre post true) then 206
    else 0
  else if prop =? 3 then
    if negb (gate_ok (ps_pods ps) (ps_rtok ps) rt (gone_of (ps_pre ps)) pre post false
             && gate_ok (ps_pods ps) (ps_rtok ps) rt (gone_of (ps_pre ps)) pre post true) then 301
    else if negb (ps_err ps) && negb (freed_ok (ps_pods ps) (ps_rtok ps) rt pre post false && freed_ok (ps_pods ps) (ps_rtok ps) rt pre post true) then 302
    else calls_why 3 hc ps pre post (ps_pre ps) (ps_calls ps)
  else
    let w := calls_why 8 hc ps pre post (ps_pre ps) (ps_calls ps) in
    if negb (w =? 0) then w
    else if negb (created_ok ps) then 802
    else if (togo <? 2) && roomy hc ps && negb (fresh_bound hc ps) then 806      (* every eligible pod has its addresses *)
    else if (togo <? 2) && all_bound hc ps && mutating (ps_calls ps) then 803    (* the tail is a fixed point *)
    else if (togo <? 2) && all_bound hc ps && negb (list_eqb (enc_cr pre) (enc_cr post)) then 804
    else if (togo <? 2) && negb (agree post (ps_cloud ps)) then 805
    else if (togo <? 2) && all_bound hc ps && roomy hc ps && negb (min_ok hc ps) then 808     (* the pool holds its minimum *)
    else 0.
(* a round whose only failure was the status-update conflict forces a full synchronisation: if record and cloud
   agreed before it, they agree again after the next round that runs without any failure *)
Definition calls_all_ok (cs : list (list Z)) : bool := forallb (fun c => match c with _ :: _ :: _ :: ok :: _ => ok =? 1 | _ => true end) cs.
Definition resync_why (prev : option (pass * cr)) (ps : pass) : Z :=
  match prev with
  | Some (q, pre_q) =>
      if ps_confl q && agree pre_q (ps_pre q) && calls_all_ok (ps_calls q)
         && negb (ps_err ps) && negb (ps_confl ps) && negb (ps_restarted ps) && calls_all_ok (ps_calls ps) && list_eqb (enc_cloud (ps_cloud q)) (enc_cloud (ps_pre ps))
         && negb (agree (ps_cr ps) (ps_cloud ps)) then 807 else 0
  | None => 0
  end.
Fixpoint hist_why (prop : Z) (hc : hcfg) (prev : option (pass * cr)) (pre : cr) (l : list pass) (idx : Z) : Z :=
  match l with
  | [] => 0
  | ps :: r => let w := pass_why prop hc pre ps (lenz r) in
               let w := if (w =? 0) && (prop =? 8) then resync_why prev ps else w in
               (* a round that failed before it made any cloud call (the forced synchronisation itself could not read the
                  cloud) leaves the synchronisation owed: the round after it is judged against the conflict round *)
               let prev' := match prev with
                            | Some (q, _) => if ps_confl q && ps_err ps && negb (ps_confl ps) && negb (ps_restarted ps)
                                                && (match ps_calls ps with [] => true | _ => false end)
                                                && list_eqb (enc_cloud (ps_cloud q)) (enc_cloud (ps_pre ps))
                                                && list_eqb (enc_cloud (ps_pre ps)) (enc_cloud (ps_cloud ps))
                                             then prev else Some (ps, pre)
                            | None => Some (ps, pre) end in
               if negb (w =? 0) then w * 100000 + idx else hist_why prop hc prev' (ps_cr ps) r (idx + 1)
  end.

(* ---- kind 5: the pool maintenance loop on a node without pods (IpamLoop) ------------------------------------------- *)
(* input: dual per min max fs nENI (n4 n6).. npass, then what was observed;
   per round: 55 ncalls (kind eni n).. nENI (id n4 d4 n6 d6 gone).. *)
Fixpoint dec_lens (n : nat) (id : Z) (l : list Z) : list lce * list Z :=
  match n, l with
  | S n', a :: b :: r => let '(es, r') := dec_lens n' (id + 1) r in (mkLe id a 0 b 0 false :: es, r')
  | _, _ => ([], l)
  end.
Definition dec_loop (l : list Z) : option (lcfg * lstate * Z * list Z) :=
  match l with
  | du :: per :: mn :: mx :: fs :: ne :: r =>
      let '(es, r1) := dec_lens (Z.to_nat ne) 1 r in
      match r1 with
      | np :: r2 => Some (mkLc (dec_bool du) per mn mx fs, (ne + 1, es), np, r2)
      | [] => None end
  | _ => None
  end.
Fixpoint dec_calls3 (n : nat) (l : list Z) : list call * list Z :=
  match n, l with
  | S n', k :: e :: c :: r => let '(cs, r') := dec_calls3 n' r in ((k, e, c) :: cs, r')
  | _, _ => ([], l)
  end.
Fixpoint dec_ces (n : nat) (l : list Z) : list lce * list Z :=
  match n, l with
  | S n', id :: a :: b :: c :: d :: g :: r => let '(es, r') := dec_ces n' r in (mkLe id a b c d (dec_bool g) :: es, r')
  | _, _ => ([], l)
  end.
Definition dec_round (l : list Z) : option (list call * list lce * list Z) :=
  match l with
  | m :: nc :: r =>
      if negb (m =? 55) then None else
      let '(cs, r1) := dec_calls3 (Z.to_nat nc) r in
      match r1 with
      | ne :: r2 => let '(es, r3) := dec_ces (Z.to_nat ne) r2 in Some (cs, es, r3)
      | [] => None end
  | _ => None
  end.
Definition call_eqb (a b : call) : bool := match a, b with (a1, a2, a3), (b1, b2, b3) => (a1 =? b1) && (a2 =? b2) && (a3 =? b3) end.
Definition ce_eqb (a b : lce) : bool :=
  (c_id a =? c_id b) && (c_n4 a =? c_n4 b) && (c_d4 a =? c_d4 b) && (c_n6 a =? c_n6 b) && (c_d6 a =? c_d6 b) && Bool.eqb (c_gone a) (c_gone b).
Definition same_multiset {A} (eqb : A -> A -> bool) (a b : list A) : bool :=
  (Z.of_nat (length a) =? Z.of_nat (length b)) && forallb (fun x => existsb (eqb x) b) a && forallb (fun x => existsb (eqb x) a) b.
(* the model runs beside the observed rounds; where the sort order of the interfaces is decided by Go's map order (equal
   address counts) the model adopts what was observed and goes on from there *)
Fixpoint loop_follow (fuel : nat) (c : lcfg) (st : lstate) (obs : list Z) (idx : Z) : Z :=
  match fuel with
  | O => 0
  | S f =>
      match dec_round obs with
      | None => 0
      | Some (ocs, oes, rest) =>
          if tie_somewhere c st then loop_follow f c (fst st + Z.of_nat (length (filter (fun x => match x with (k, _, _) => k =? 1 end) ocs)), oes) rest (idx + 1)
          else
            let '(st', cs) := IpamLoop.pass c st in
            if same_multiset call_eqb cs ocs && same_multiset ce_eqb (snd st') oes then loop_follow f c st' rest (idx + 1)
            else 1 + idx
      end
  end.
Definition run_loop (l : list Z) : list Z :=
  match dec_loop l with
  | Some (c, st, np, r) =>
      match observed r with
      | Some o => let w := loop_follow (Z.to_nat np + 1) c st o 0 in if w =? 0 then o else [-997; 5; w]
      | None => bad end
  | None => bad
  end.
(* C08 on the loop: with min <= max and a healthy cloud the last two rounds are quiet *)
Fixpoint rounds_calls (fuel : nat) (obs : list Z) : list Z :=
  match fuel with
  | O => []
  | S f => match dec_round obs with Some (cs, _, rest) => Z.of_nat (length cs) :: rounds_calls f rest | None => [] end
  end.
Definition loop_why (l o : list Z) : Z :=
  let ns := rounds_calls 64 o in
  match rev ns with
  | a :: b :: _ => if (a =? 0) && (b =? 0) then 0 else 809
  | _ => 0 end.

(* ---- dispatch ---------------------------------------------------------------------------------------------- *)
Definition run_ipam (l : list Z) : list Z :=
  match l with
  | k :: r =>
      if k =? 1 then run_plan r
      else if k =? 2 then run_trim r
      else if k =? 3 then run_bind r
      else if k =? 4 then match dec_hist r with
                          | Some (_, r1) => match observed r1 with Some o => o | None => bad end
                          | None => bad end
      else if k =? 5 then run_loop r
      else bad
  | [] => bad
  end.
Definition why_ipam (prop : Z) (l o : list Z) : Z :=
  match l with
  | k :: r =>
      if k =? 1 then (if prop =? 8 then match dec_plan r with Some p => if plan_ok p o then 0 else 81100000 | None => 89900000 end else 0)
      else if k =? 2 then (match dec_trim r, o with
                           | Some (e, _, _), _ :: ocr => match dec_cr ocr with
                                                         | ([oe], _) => if trim_ok e oe then 0 else (if prop =? 3 then 30400000 else if prop =? 2 then 20500000 else 80700000)
                                                         | _ => 39800000 end
                           | _, _ => 39900000 end)
      else if k =? 3 then (if prop =? 8 then 0 else bind_why prop r o * 100000)
      else if k =? 4 then match dec_hist r with
                          | Some (hc, _) => hist_why prop hc None [] (dec_passes 400 (h_on4 hc) (h_on6 hc) o) 0
                          | None => 49900000 end
      else if k =? 5 then (if prop =? 8 then loop_why r o * 100000 else 0)
      else 99900000
  | [] => 99900000
  end.
Definition chk_c02 (l o : list Z) : bool := why_ipam 2 l o =? 0.
Definition chk_c03 (l o : list Z) : bool := why_ipam 3 l o =? 0.
Definition chk_c08 (l o : list Z) : bool := why_ipam 8 l o =? 0.
