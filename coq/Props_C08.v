(* Props_C08.v — property C08 (the cluster IPAM stays inside the quotas, converges, and rolls back).
   Proved: the planning arithmetic (getEniOptions + assignEniWithOptions) never asks for more than the
   per-interface limits leave nor for more interfaces than the flavor allows.  The last sentence of the property
   (a fixed point once min <= max and the cloud is healthy) is REFUTED on the closed-loop model of the pool
   maintenance (IpamLoop: addIP's refill, handleStatus, adjustPool, on a node without pods), which the harness
   compares round by round with the real Reconcile: two configurations call the cloud in every round, forever
   (recorded as known findings).  What does hold there: one interface inside the band is left alone.
   Roll-back and agreement of record and cloud after failures are judged on Reconcile histories only
   (IpamRun.pass_why, clauses 801-808): the level of this property is partial. *)
From Coq Require Import ZArith List Bool Lia.
From TV Require Import IpamModel IpamProofs IpamLoop IpamLoopProofs.
Import ListNotations.
Local Open Scope Z_scope.

(* every slot of a plan: a new interface asks for at most the per-interface limit, an interface of the record for
   at most what the limit leaves beside the addresses it has *)
Theorem c08_plan_within_limits_partial : forall pc existing normal rdma,
  existing_ok existing -> Forall (opt_ok pc) (plan pc existing normal rdma).
Proof. exact plan_within_limits. Qed.
Print Assumptions c08_plan_within_limits_partial.

(* the plan never has more slots than the flavor's total (or than the interfaces that already exist) *)
Theorem c08_plan_slots_partial : forall pc existing normal rdma,
  0 <= pc_fl_sec pc -> 0 <= pc_fl_trunk pc -> 0 <= pc_fl_rdma pc ->
  lenz (filter (is_kind true false) existing) <= pc_fl_trunk pc ->
  lenz (plan pc existing normal rdma) <= Z.max (lenz existing) (pc_fl_sec pc + pc_fl_trunk pc + pc_fl_rdma pc).
Proof. exact plan_slots. Qed.
Print Assumptions c08_plan_slots_partial.

(* the hypothesis on trunk interfaces is needed: with more trunk interfaces in the record than the flavor lists
   the count-down goes negative and widens the room for RDMA interfaces (5 slots under a flavor of 4) *)
Theorem c08_plan_slots_hypothesis_needed :
  exists pc existing, lenz (plan pc existing 0 0) > Z.max (lenz existing) (pc_fl_sec pc + pc_fl_trunk pc + pc_fl_rdma pc).
Proof.
  exists (mkPc true false true true 4 4 10 1 1 2),
         [mkOpt true false 7 1 0 0 0 true 0 0 false; mkOpt true false 8 1 0 0 0 true 0 0 false; mkOpt false false 9 1 0 0 0 true 0 0 false].
  vm_compute. reflexivity.
Qed.
Print Assumptions c08_plan_slots_hypothesis_needed.

(* non-vacuity: a plan that fills an interface of the record up to its limit and opens a new one *)
Example c08_ex :
  let pc := mkPc true false false false 4 4 10 2 0 0 in
  map (fun o => (o_eni o, o_add4 o)) (plan pc [mkOpt false false 5 3 1 0 0 true 0 0 false] 6 0) = [(5, 1); (0, 4)].
Proof. vm_compute. reflexivity. Qed.

(* ---- the closed loop of the pool maintenance (node without pods, healthy cloud) ------------------------------------ *)
(* the fixed-point sentence, as the property states it, would be:  forall c st, l_min c <= l_max c -> converges c st.
   It is false of the model that reproduces the implementation's rounds: *)
Theorem c08_pool_churn_refuted :
  exists c st, l_min c <= l_max c /\ l_dual c = false /\ ~ converges c st.
Proof. exact pool_churn_refuted. Qed.
Print Assumptions c08_pool_churn_refuted.
Theorem c08_pool_churn_dual_stack_refuted :
  exists c st, l_min c <= l_max c /\ l_dual c = true /\ ~ converges c st.
Proof. exact pool_churn_dual_refuted. Qed.
Print Assumptions c08_pool_churn_dual_stack_refuted.
(* the witnesses round by round (replayed on the real Reconcile by the harness in every run) *)
Example c08_witness_ipv4 :
  pass w1_cfg w1_a = (w1_b, [(3, 1, 1)]) /\ pass w1_cfg w1_b = (w1_a, [(5, 1, 1)]).
Proof. split; [exact w1_step_a | exact w1_step_b]. Qed.
Example c08_witness_dual :
  pass w2_cfg w2_a = (w2_b, [(4, 2, 2)]) /\ pass w2_cfg w2_b = (w2_b, [(3, 2, 1); (4, 2, 1); (5, 2, 1); (6, 2, 1)]).
Proof. split; [exact w2_step_a | exact w2_step_b]. Qed.

(* what does hold: all idle addresses on one interface, inside the band: the round makes no call and changes nothing *)
Theorem c08_one_interface_in_band_is_fixed_partial : forall c next id n,
  l_dual c = false -> id <> 0 -> l_min c <= n -> n <= l_max c ->
  pass c (next, [mkLe id n 0 0 0 false]) = ((next, [mkLe id n 0 0 0 false]), []).
Proof. exact one_interface_in_band_is_fixed. Qed.
Print Assumptions c08_one_interface_in_band_is_fixed_partial.

(* ... and a node whose pool sits on ONE interface converges from any filling of it: below the band one round refills to
   min, above it one round marks the surplus and the next unassigns it, then every round is quiet.  Partial: IPv4 only,
   per-interface limit within one batch (10), no address marked for deletion at the start. *)
Theorem c08_one_interface_converges_partial : forall c next id,
  l_dual c = false -> id <> 0 -> 0 <= l_min c <= l_max c -> l_min c <= l_per c <= l_batch ->
  forall n, 1 <= n <= l_per c -> converges c (next, one id n 0).
Proof. exact one_interface_converges. Qed.
Print Assumptions c08_one_interface_converges_partial.
Example c08_one_interface_instance : converges (mkLc false 6 2 4 2) (2, one 1 6 0).
Proof. apply c08_one_interface_converges_partial; try reflexivity; try discriminate; unfold l_batch; cbn; lia. Qed.
