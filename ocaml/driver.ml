(* driver.ml — generic correspondence driver.
   Input (stdin or file): one case per line
       <caseid> | i1 i2 ... | o1 o2 ...
   where the first list is the harness input and the second what the
   implementation produced.  For property P the extracted model function
   run_P maps the input to the model's output and chk_P evaluates the property
   itself on (input, implementation output).
   Output: one line per case:  <caseid> OK | MISMATCH <model out> | PROPFAIL | MISMATCH+PROPFAIL <model out>
   Not trusted for soundness of the theorems; trusted for the tie (parser/printer). *)

let rec pos_of_z (v : Z.t) : Model.positive =
  if Z.equal v Z.one then Model.XH
  else if Z.testbit v 0 then Model.XI (pos_of_z (Z.shift_right v 1))
  else Model.XO (pos_of_z (Z.shift_right v 1))

let coq_of_z (v : Z.t) : Model.z =
  if Z.sign v = 0 then Model.Z0
  else if Z.sign v > 0 then Model.Zpos (pos_of_z v)
  else Model.Zneg (pos_of_z (Z.neg v))

let rec z_of_pos (p : Model.positive) : Z.t =
  match p with
  | Model.XH -> Z.one
  | Model.XO q -> Z.shift_left (z_of_pos q) 1
  | Model.XI q -> Z.succ (Z.shift_left (z_of_pos q) 1)

let z_of_coq (v : Model.z) : Z.t =
  match v with
  | Model.Z0 -> Z.zero
  | Model.Zpos p -> z_of_pos p
  | Model.Zneg p -> Z.neg (z_of_pos p)

let parse_ints (s : string) : Model.z list =
  String.split_on_char ' ' s
  |> List.filter (fun t -> t <> "")
  |> List.map (fun t -> coq_of_z (Z.of_string t))

let show_ints (l : Model.z list) : string =
  String.concat " " (List.map (fun v -> Z.to_string (z_of_coq v)) l)

let () =
  let prop = Sys.argv.(1) in
  let run, chk =
    try List.assoc prop Table.table
    with Not_found -> (prerr_endline ("driver: unknown property " ^ prop); exit 2) in
  let ic = if Array.length Sys.argv > 2 then open_in Sys.argv.(2) else stdin in
  let n = ref 0 and bad = ref 0 in
  (try
     while true do
       let line = input_line ic in
       if String.length line > 0 && line.[0] <> '#' then begin
         match String.split_on_char '|' line with
         | [id; i; o] ->
             incr n;
             let id = String.trim id in
             let i = parse_ints i and o = parse_ints o in
             let m = run i in
             let agree = (m = o) in
             let holds = chk i o in
             if agree && holds then Printf.printf "%s OK\n" id
             else begin
               incr bad;
               let tag = (if agree then "" else "MISMATCH") ^
                         (if (not agree) && (not holds) then "+" else "") ^
                         (if holds then "" else "PROPFAIL") in
               let w = if holds then "" else
                   (try " why=" ^ Z.to_string (z_of_coq ((List.assoc prop Table.why) i o)) with Not_found -> "") in
               Printf.printf "%s %s %s%s\n" id tag (show_ints m) w
             end
         | _ -> (incr bad; Printf.printf "? MALFORMED %s\n" line)
       end
     done
   with End_of_file -> ());
  Printf.printf "# cases=%d bad=%d\n" !n !bad
