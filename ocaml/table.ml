(* table.ml — property id -> (model evaluator, property checker), both extracted *)
let table : (string * ((Model.z list -> Model.z list) * (Model.z list -> Model.z list -> bool))) list = [
  ("C14", (Model.run_c14, Model.chk_c14));
  ("C19", (Model.run_c19, Model.chk_c19));
  ("C16", (Model.run_c16, Model.chk_c16));
  ("C17", (Model.run_c17, Model.chk_c17));
  ("C15", (Model.run_c15, Model.chk_c15));
  ("C20", (Model.run_c20, Model.chk_c20));
  ("C12", (Model.run_c12, Model.chk_c12));
  ("C18", (Model.run_c18, Model.chk_c18));
  ("C01", (Model.run_pool, Model.chk_c01));
  ("C06", (Model.run_pool, Model.chk_c06));
  ("C07", (Model.run_c07, Model.chk_c07_all));
  ("C04", (Model.run_svc, Model.chk_c04));
  ("C05", (Model.run_svc, Model.chk_c05));
  ("C09", (Model.run_c09, Model.chk_c09_all));
  ("C02", (Model.run_ipam, Model.chk_c02));
  ("C03", (Model.run_c03, Model.chk_c03_all));
  ("C08", (Model.run_ipam, Model.chk_c08));
  ("C10", (Model.run_pe, Model.chk_c10));
  ("C11", (Model.run_pe, Model.chk_c11));
  ("C13", (Model.run_dp, Model.chk_c13));
]

(* optional diagnostics: which clause of the property failed *)
let why : (string * (Model.z list -> Model.z list -> Model.z)) list = [
  ("C01", Model.why_pool (Model.Zpos Model.XH));
  ("C06", Model.why_pool (Model.Zpos (Model.XO (Model.XI Model.XH))));
  ("C07", Model.why_c07);
  ("C04", Model.why_svc (Model.Zpos (Model.XO (Model.XO Model.XH))));
  ("C05", Model.why_svc (Model.Zpos (Model.XI (Model.XO Model.XH))));
  ("C09", Model.why_c09);
  ("C02", Model.why_ipam (Model.Zpos (Model.XO Model.XH)));
  ("C03", Model.why_c03);
  ("C08", Model.why_ipam (Model.Zpos (Model.XO (Model.XO (Model.XO Model.XH)))));
  ("C10", Model.why_pe (Model.Zpos (Model.XO (Model.XI (Model.XO Model.XH)))));
  ("C11", Model.why_pe (Model.Zpos (Model.XI (Model.XI (Model.XO Model.XH)))));
  ("C13", Model.why_dp);
]
