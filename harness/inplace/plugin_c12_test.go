//go:build verif

package main

import (
	"fmt"
	"math/big"
	"net"
	"testing"

	"github.com/containernetworking/cni/pkg/skel"

	"github.com/AliyunContainerService/terway/plugin/driver/types"
	"github.com/AliyunContainerService/terway/rpc"
)

var vfIfNames = []string{"", "eth0", "eth1", "net1", "eth2", "eth00"}

func vfIfCode(s string) int {
	for i, n := range vfIfNames {
		if n == s {
			return i
		}
	}
	return 99
}
func vfIPStr(v *big.Int, w int) string {
	b := make([]byte, w/8)
	v.FillBytes(b)
	return net.IP(b).String()
}
func vfIPNum(p net.IP, w int) *big.Int {
	if p == nil {
		return big.NewInt(-1)
	}
	if w == 32 {
		if p4 := p.To4(); p4 != nil {
			return new(big.Int).SetBytes(p4)
		}
		return big.NewInt(-2)
	}
	return new(big.Int).SetBytes(p.To16())
}

func vfEvalC12(in []*big.Int) ([]*big.Int, []*big.Int) {
	d := &vfD{L: in}
	var o vfB
	switch d.Int() {
	case 3:
		t, vs, tr := d.Int(), d.Bool(), d.Bool()
		ipt := []rpc.IPType{rpc.IPType_TypeVPCIP, rpc.IPType_TypeVPCENI, rpc.IPType_TypeENIMultiIP, rpc.IPType(7)}[t&3]
		v := types.VlanStripType(types.VlanStripTypeFilter)
		if vs {
			v = types.VlanStripTypeVlan
		}
		o.I(int(getDatePath(ipt, v, tr)))
	case 4:
		t := d.Int()
		ipt := []rpc.IPType{rpc.IPType_TypeVPCIP, rpc.IPType_TypeVPCENI, rpc.IPType_TypeENIMultiIP, rpc.IPType(7)}[t&3]
		// family flag: 0 nothing sent, 1 address + subnet + gateway, 2 subnet + gateway but no pod address (e.g. an IPv4-only pod on a
		// dual-stack interface: LocalIPResource.ToRPC fills PodCIDR and GatewayIP from the interface), 3 address + gateway but no subnet
		h4, i4, n4, p4, g4 := d.Int(), d.Big(), d.Big(), d.Int(), d.Big()
		h6, i6, n6, p6, g6 := d.Int(), d.Big(), d.Big(), d.Int(), d.Big()
		heni, trunk, vid, erdma, egh, eg4 := d.Bool(), d.Bool(), d.Int(), d.Bool(), d.Bool(), d.Big()
		hpod, ing, egr := d.Bool(), d.Big(), d.Big()
		ifc, dr, aifc := d.Int(), d.Bool(), d.Int()
		rte, rti, vs, dpeer := d.Int(), d.Int(), d.Bool(), d.Bool()
		nr := d.Int()
		alloc := &rpc.NetConf{IfName: vfIfNames[ifc%len(vfIfNames)], DefaultRoute: dr}
		bi := &rpc.BasicInfo{PodIP: &rpc.IPSet{}, PodCIDR: &rpc.IPSet{}, GatewayIP: &rpc.IPSet{}, ServiceCIDR: &rpc.IPSet{IPv4: "172.16.0.0/16"}}
		if h4 != 0 {
			bi.GatewayIP.IPv4 = vfIPStr(g4, 32)
			if h4 != 2 {
				bi.PodIP.IPv4 = vfIPStr(i4, 32)
			}
			if h4 != 3 {
				bi.PodCIDR.IPv4 = fmt.Sprintf("%s/%d", vfIPStr(n4, 32), p4)
			}
		}
		if h6 != 0 {
			bi.GatewayIP.IPv6 = vfIPStr(g6, 128)
			if h6 != 2 {
				bi.PodIP.IPv6 = vfIPStr(i6, 128)
			}
			if h6 != 3 {
				bi.PodCIDR.IPv6 = fmt.Sprintf("%s/%d", vfIPStr(n6, 128), p6)
			}
		}
		alloc.BasicInfo = bi
		if heni {
			alloc.ENIInfo = &rpc.ENIInfo{MAC: "", Trunk: trunk, Vid: uint32(vid), ERDMA: erdma}
			if egh {
				alloc.ENIInfo.GatewayIP = &rpc.IPSet{IPv4: vfIPStr(eg4, 32)}
			}
		}
		if hpod {
			alloc.Pod = &rpc.Pod{Ingress: ing.Uint64(), Egress: egr.Uint64()}
		}
		for i := 0; i < nr; i++ {
			fam, rn, rp := d.Int(), d.Big(), d.Int()
			w := 32
			if fam == 6 {
				w = 128
			}
			alloc.ExtraRoutes = append(alloc.ExtraRoutes, &rpc.Route{Dst: fmt.Sprintf("%s/%d", vfIPStr(rn, w), rp)})
		}
		conf := &types.CNIConf{DisableHostPeer: dpeer, MTU: 1500}
		conf.VlanStripType = types.VlanStripTypeFilter
		if vs {
			conf.VlanStripType = types.VlanStripTypeVlan
		}
		conf.RuntimeConfig.Bandwidth.EgressRate, conf.RuntimeConfig.Bandwidth.IngressRate = rte, rti
		if d.Bad {
			return in, nil
		}
		sc, err := parseSetupConf(&skel.CmdArgs{IfName: vfIfNames[aifc%len(vfIfNames)]}, alloc, conf, ipt)
		if err != nil {
			return in, o.I(0).L
		}
		o.I(1, int(sc.DP), vfIfCode(sc.ContainerIfName))
		put := func(n *net.IPNet, gw net.IP, w int) {
			if n == nil {
				o.I(0, 0, 0, 0)
				return
			}
			ones, _ := n.Mask.Size()
			o.I(1).Big(vfIPNum(n.IP, w)).I(ones).Big(vfIPNum(gw, w))
		}
		put(sc.ContainerIPNet.IPv4, sc.GatewayIP.IPv4, 32)
		put(sc.ContainerIPNet.IPv6, sc.GatewayIP.IPv6, 128)
		if sc.ENIGatewayIP != nil && sc.ENIGatewayIP.IPv4 != nil {
			o.I(1).Big(vfIPNum(sc.ENIGatewayIP.IPv4, 32))
		} else {
			o.I(0, 0)
		}
		o.U64(sc.Ingress).U64(sc.Egress).Bool(sc.StripVlan).I(sc.Vid).Bool(sc.DefaultRoute).Bool(sc.ERDMA).Bool(sc.DisableCreatePeer).I(len(sc.ExtraRoutes))
		for _, r := range sc.ExtraRoutes {
			ones, bits := r.Dst.Mask.Size()
			fam, w := 4, 32
			if bits == 128 {
				fam, w = 6, 128
			}
			o.I(fam).Big(vfIPNum(r.Dst.IP, w)).I(ones)
			if r.GW != nil {
				o.I(1).Big(vfIPNum(r.GW, w))
			} else {
				o.I(0, 0)
			}
		}
	default:
		return in, nil
	}
	return in, o.L
}

func vfNet(r *vfRand, w int) (net_, ip, gw *big.Int, plen int) {
	plen = r.Range(w/4, w-2)
	base := new(big.Int)
	for i := 0; i < w/32; i++ {
		base.Lsh(base, 32).Or(base, big.NewInt(int64(r.U64()&0xffffffff)))
	}
	if w == 128 {
		base.SetBit(base, 125, 1)
	} else {
		base.SetBit(base, 27, 1)
	}
	hb := uint(w - plen)
	base.Rsh(base, hb).Lsh(base, hb)
	size := new(big.Int).Lsh(big.NewInt(1), hb)
	host := new(big.Int).SetUint64(r.U64())
	host.Mod(host, size)
	ip = new(big.Int).Or(base, host)
	gw = new(big.Int).Add(base, new(big.Int).Sub(size, big.NewInt(3)))
	net_ = base
	if r.Chance(1, 4) {
		net_ = ip
	}
	return
}

func vfGenC12(r *vfRand) [][]*big.Int {
	var cs [][]*big.Int
	for t := 0; t < 4; t++ {
		for vs := 0; vs < 2; vs++ {
			for tr := 0; tr < 2; tr++ {
				var b vfB
				cs = append(cs, b.I(3, t, vs, tr).L)
			}
		}
	}
	n := vfN(1500)
	for c := 0; c < n; c++ {
		var b vfB
		stack := r.Intn(3)
		n4, i4, g4, p4 := vfNet(r, 32)
		n6, i6, g6, p6 := vfNet(r, 128)
		b.I(4, r.Range(1, 2))
		fl := func(on bool) int {
			switch {
			case on && r.Chance(1, 20):
				return 3
			case on:
				return 1
			case r.Chance(1, 4):
				return 2 + r.Intn(2)
			}
			return 0
		}
		b.I(fl(stack != 1)).Big(i4).Big(n4).I(p4).Big(g4)
		b.I(fl(stack != 0)).Big(i6).Big(n6).I(p6).Big(g6)
		_, _, eg, _ := vfNet(r, 32)
		b.Bool(r.Chance(5, 6)).Bool(r.Chance(1, 3)).I(r.Range(0, 4000)).Bool(r.Chance(1, 5)).Bool(r.Chance(1, 2)).Big(eg)
		lim := func() int {
			if r.Chance(1, 3) {
				return 0
			}
			return r.Range(1, 1<<30)
		}
		b.Bool(r.Chance(4, 5)).I(lim(), lim())
		b.I(r.Intn(4)).Bool(r.Bool()).I(r.Range(1, 3))
		rt := func() int {
			switch r.Intn(4) {
			case 0:
				return r.Range(1, 1<<31)
			case 1:
				return r.Range(1, 7) // rounds to 0 bytes/s
			}
			return 0
		}
		b.I(rt(), rt()).Bool(r.Chance(1, 3)).Bool(r.Chance(1, 4))
		nr := r.Intn(4)
		b.I(nr)
		for i := 0; i < nr; i++ {
			if stack == 2 && r.Bool() || stack == 1 {
				rn, _, _, rp := vfNet(r, 128)
				b.I(6).Big(rn).I(rp)
			} else {
				rn, _, _, rp := vfNet(r, 32)
				b.I(4).Big(rn).I(rp)
			}
		}
		cs = append(cs, b.L)
	}
	return cs
}

func TestVerif_C12_Plugin(t *testing.T) {
	vfRun(t, map[int]bool{3: true, 4: true}, vfGenC12, vfEvalC12)
}
