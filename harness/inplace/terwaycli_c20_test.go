//go:build verif

package main

import (
	"encoding/json"
	"fmt"
	"math/big"
	"os"
	"strings"
	"testing"
)

var vfVtypes = map[int][]string{1: {"veth", "Veth", "VETH"}, 2: {""}, 3: {"ipvlan", "IPVlan", "IPVLAN"}, 4: {"datapathv2", "DataPathV2", "datapathV2"},
	5: {"vlan", "ipvlan-l2", "ipvlan ", "foo", "v2", " veth"}}

func vfDpCode(v interface{}, absent int) int {
	s, ok := v.(string)
	if !ok {
		return absent
	}
	switch s {
	case "":
		if absent == -1 {
			return 0
		}
		return 9
	case "veth":
		return 1
	case "ipvlan":
		return 2
	case "datapathv2":
		return 3
	}
	return 9
}

func vfEvalChain(in []*big.Int) ([]*big.Int, []*big.Int) {
	d := &vfD{L: in}
	if d.Int() != 2 {
		return in, nil
	}
	f := &feature{EBPF: d.Bool(), EDT: d.Bool(), EnableNetworkPolicy: d.Bool()}
	sw := d.Bool()
	prev := d.Int()
	n := d.Int()
	_switchDataPathV2 = func() bool { return sw }
	// the recorded node capability consulted by allowEBPFNetworkPolicy
	_ = os.MkdirAll("/var/run/eni", 0755)
	switch prev {
	case 1:
		_ = os.WriteFile(nodeCapabilitiesFile, []byte("has_cilium_chainer = true\n"), 0644)
	case 0:
		_ = os.WriteFile(nodeCapabilitiesFile, []byte("has_cilium_chainer = false\n"), 0644)
	default:
		_ = os.Remove(nodeCapabilitiesFile)
	}
	var configs [][]byte
	pick := 0
	for i := 0; i < n; i++ {
		pt, vt, np, bwin := d.Int(), d.Int(), d.Int(), d.Int()
		m := map[string]interface{}{"marker": i, "cniVersion": "0.3.1", "name": "x"}
		switch pt {
		case 0:
			m["type"] = "terway"
			// a bandwidth_mode already present in the input (a hand-written entry, or a generated list fed back)
			switch bwin {
			case 1:
				m["bandwidth_mode"] = "edt"
			case 2:
				m["bandwidth_mode"] = "tc"
			case 3:
				m["bandwidth_mode"] = []string{"EDT", "htb", " edt", "none"}[i%4]
			case 4:
				m["bandwidth_mode"] = 7
			case 5:
				m["bandwidth_mode"] = ""
			}
			if vt != 0 {
				vs := vfVtypes[vt]
				m["eniip_virtual_type"] = vs[(pick+i)%len(vs)]
				pick++
			}
			switch np {
			case 1:
				m["network_policy_provider"] = "iptables"
			case 2:
				m["network_policy_provider"] = "ebpf"
			case 3:
				m["network_policy_provider"] = "other"
			case 4:
				m["network_policy_provider"] = 7
			}
		case 1:
			m["type"] = "cilium-cni"
		case 2:
			m["type"] = []string{"portmap", "bandwidth", "tuning"}[i%3]
		default:
			if i%2 == 0 {
				m["type"] = 5
			}
		}
		b, _ := json.Marshal(m)
		configs = append(configs, b)
	}
	if d.Bad {
		return in, nil
	}
	var o vfB
	out, err := mergeConfigList(configs, f)
	if err != nil {
		return in, o.I(0).L
	}
	var doc struct {
		CNIVersion string                   `json:"cniVersion"`
		Name       string                   `json:"name"`
		Plugins    []map[string]interface{} `json:"plugins"`
	}
	if err := json.Unmarshal([]byte(out), &doc); err != nil {
		return in, o.I(-7).L // not valid JSON
	}
	o.I(1, len(doc.Plugins))
	for _, p := range doc.Plugins {
		idx := -1
		if mk, ok := p["marker"].(float64); ok {
			idx = int(mk)
		}
		ty := 2
		switch p["type"] {
		case "terway":
			ty = 0
		case "cilium-cni":
			ty = 1
		}
		vt := 0
		if v, ok := p["eniip_virtual_type"]; ok {
			vt = vfDpCode(v, 9)
		}
		bw := 0
		if v, ok := p["bandwidth_mode"]; ok {
			switch v {
			case "edt":
				bw = 1
			case "tc":
				bw = 2
			default:
				bw = 9
			}
		}
		cdp := -1
		if ty == 1 {
			if v, ok := p["datapath"]; ok {
				cdp = vfDpCode(v, -1)
			} else if v, ok := p["data-path"]; ok {
				cdp = vfDpCode(v, -1)
			}
		}
		if _, ok := p["cniVersion"]; ok {
			vt = 99 // per-plugin cniVersion/name must have been dropped
		}
		o.I(idx, ty, vt, bw, cdp)
	}
	return in, o.L
}

func vfGenChain(r *vfRand) [][]*big.Int {
	var cs [][]*big.Int
	n := vfN(1500)
	for c := 0; c < n; c++ {
		var b vfB
		np := r.Range(0, 5)
		b.I(2).Bool(r.Chance(3, 4)).Bool(r.Bool()).Bool(r.Bool()).Bool(r.Chance(1, 3)).I(r.Range(-1, 1)).I(np)
		for i := 0; i < np; i++ {
			pt := 0
			switch x := r.Intn(10); {
			case x < 5:
				pt = 0
			case x < 7:
				pt = 1
			case x < 9:
				pt = 2
			default:
				pt = 3
			}
			if i == 0 && r.Chance(2, 3) {
				pt = 0
			}
			vt := r.Intn(6)
			npp := r.Intn(5)
			if r.Chance(2, 3) {
				npp = r.Intn(3)
			}
			bwin := 0
			if pt == 0 && r.Chance(2, 5) {
				bwin = 1 + r.Intn(5)
			}
			b.I(pt, vt, npp, bwin)
		}
		cs = append(cs, b.L)
	}
	return cs
}

func TestVerif_C20_Chain(t *testing.T) {
	if strings.Contains(fmt.Sprint(os.Args), "nothing") {
		t.Skip()
	}
	vfRun(t, map[int]bool{2: true}, vfGenChain, vfEvalChain)
}
