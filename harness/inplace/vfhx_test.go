//go:build verif

package main

// Minimal copy of the harness plumbing (verifharness/hx) for tests that are mapped by
// the overlay into a `package main` directory of /repo and therefore cannot import
// another module. All names carry the vf prefix.

import (
	"bufio"
	"fmt"
	"math/big"
	"os"
	"strconv"
	"strings"
	"testing"
)

type vfRand struct{ s uint64 }

func (r *vfRand) U64() uint64 {
	r.s += 0x9e3779b97f4a7c15
	z := r.s
	z = (z ^ (z >> 30)) * 0xbf58476d1ce4e5b9
	z = (z ^ (z >> 27)) * 0x94d049bb133111eb
	return z ^ (z >> 31)
}
func (r *vfRand) Intn(n int) int {
	if n <= 0 {
		return 0
	}
	return int(r.U64() % uint64(n))
}
func (r *vfRand) Range(lo, hi int) int     { return lo + r.Intn(hi-lo+1) }
func (r *vfRand) Bool() bool               { return r.U64()&1 == 1 }
func (r *vfRand) Chance(num, den int) bool { return r.Intn(den) < num }
func (r *vfRand) Fork() *vfRand            { return &vfRand{s: r.U64()} }

type vfB struct{ L []*big.Int }

func (b *vfB) I(vs ...int) *vfB {
	for _, v := range vs {
		b.L = append(b.L, big.NewInt(int64(v)))
	}
	return b
}
func (b *vfB) Big(v *big.Int) *vfB { b.L = append(b.L, new(big.Int).Set(v)); return b }
func (b *vfB) U64(v uint64) *vfB   { b.L = append(b.L, new(big.Int).SetUint64(v)); return b }
func (b *vfB) Bool(v bool) *vfB {
	if v {
		return b.I(1)
	}
	return b.I(0)
}
func (b *vfB) Str(s string) *vfB {
	b.I(len(s))
	for i := 0; i < len(s); i++ {
		b.I(int(s[i]))
	}
	return b
}
func (b *vfB) Ints(vs []int) *vfB { b.I(len(vs)); return b.I(vs...) }
func (b *vfB) Rec(r *vfB) *vfB    { b.I(len(r.L)); b.L = append(b.L, r.L...); return b }

type vfD struct {
	L   []*big.Int
	pos int
	Bad bool
}

func (d *vfD) Left() int { return len(d.L) - d.pos }
func (d *vfD) Big() *big.Int {
	if d.pos >= len(d.L) {
		d.Bad = true
		return new(big.Int)
	}
	v := d.L[d.pos]
	d.pos++
	return v
}
func (d *vfD) Int() int   { return int(d.Big().Int64()) }
func (d *vfD) Bool() bool { return d.Big().Sign() != 0 }
func (d *vfD) Str() string {
	n := d.Int()
	if n < 0 || n > d.Left() {
		d.Bad = true
		return ""
	}
	bs := make([]byte, n)
	for i := range bs {
		bs[i] = byte(d.Int())
	}
	return string(bs)
}
func (d *vfD) Ints() []int {
	n := d.Int()
	if n < 0 || n > d.Left() {
		d.Bad = true
		return nil
	}
	r := make([]int, n)
	for i := range r {
		r[i] = d.Int()
	}
	return r
}
func (d *vfD) Sub() *vfD {
	n := d.Int()
	if n < 0 || n > d.Left() {
		d.Bad = true
		return &vfD{}
	}
	s := &vfD{L: d.L[d.pos : d.pos+n]}
	d.pos += n
	return s
}

func vfShow(l []*big.Int) string {
	var sb strings.Builder
	for i, v := range l {
		if i > 0 {
			sb.WriteByte(' ')
		}
		sb.WriteString(v.String())
	}
	return sb.String()
}

func vfReadInputs(path string) ([][]*big.Int, error) {
	f, err := os.Open(path)
	if err != nil {
		return nil, err
	}
	defer f.Close()
	var out [][]*big.Int
	sc := bufio.NewScanner(f)
	sc.Buffer(make([]byte, 1<<20), 1<<28)
	for sc.Scan() {
		line := sc.Text()
		if line == "" || line[0] == '#' {
			continue
		}
		parts := strings.Split(line, "|")
		if len(parts) < 2 {
			return nil, fmt.Errorf("malformed case line")
		}
		var in []*big.Int
		for _, t := range strings.Fields(parts[1]) {
			v, ok := new(big.Int).SetString(t, 10)
			if !ok {
				return nil, fmt.Errorf("bad integer %q", t)
			}
			in = append(in, v)
		}
		out = append(out, in)
	}
	return out, sc.Err()
}

func vfN(def int) int {
	v, err := strconv.Atoi(os.Getenv("VERIF_N"))
	if err != nil || v <= 0 {
		return def
	}
	return v
}

// vfRun: replay inputs (only those whose first element is in fns) or corpus + generated.
func vfRun(t *testing.T, fns map[int]bool, gen func(r *vfRand) [][]*big.Int, eval func(in []*big.Int) ([]*big.Int, []*big.Int)) {
	var inputs [][]*big.Int
	var tags []string
	load := func(p, tag string) {
		in, err := vfReadInputs(p)
		if err != nil {
			t.Fatalf("%s: %v", tag, err)
		}
		for i := range in {
			if len(in[i]) > 0 && fns[int(in[i][0].Int64())] {
				inputs = append(inputs, in[i])
				tags = append(tags, fmt.Sprintf("%s%d", tag, i))
			}
		}
	}
	if p := os.Getenv("VERIF_REPLAY"); p != "" {
		load(p, "r")
	} else {
		if p := os.Getenv("VERIF_CORPUS"); p != "" {
			load(p, "c")
		}
		seed, err := strconv.ParseUint(os.Getenv("VERIF_SEED"), 10, 64)
		if err != nil {
			seed = 1
		}
		g := gen(&vfRand{s: seed})
		for i := range g {
			inputs = append(inputs, g[i])
			tags = append(tags, fmt.Sprintf("m%d", i))
		}
	}
	outPath := os.Getenv("VERIF_OUT")
	if outPath == "" {
		t.Fatalf("VERIF_OUT not set")
	}
	f, err := os.Create(outPath)
	if err != nil {
		t.Fatal(err)
	}
	w := bufio.NewWriterSize(f, 1<<20)
	for i, in := range inputs {
		in2, out := vfSafe(eval, in)
		if out == nil {
			continue
		}
		fmt.Fprintf(w, "%s | %s | %s\n", tags[i], vfShow(in2), vfShow(out))
	}
	if err := w.Flush(); err != nil {
		t.Fatal(err)
	}
	_ = f.Close()
}

func vfSafe(eval func(in []*big.Int) ([]*big.Int, []*big.Int), in []*big.Int) (in2, out []*big.Int) {
	defer func() {
		if r := recover(); r != nil {
			in2, out = in, []*big.Int{big.NewInt(-998)}
		}
	}()
	return eval(in)
}
