package ipam

import (
	"context"
	"fmt"
	"math/big"
	"os"
	"sort"
	"sync"
	"testing"
	"testing/synctest"
	"time"

	sdkErr "github.com/aliyun/alibaba-cloud-sdk-go/sdk/errors"
	"github.com/aliyun/alibaba-cloud-sdk-go/services/vpc"
	corev1 "k8s.io/api/core/v1"
	k8sErr "k8s.io/apimachinery/pkg/api/errors"
	"k8s.io/apimachinery/pkg/api/resource"
	metav1 "k8s.io/apimachinery/pkg/apis/meta/v1"
	"k8s.io/apimachinery/pkg/runtime/schema"
	k8stypes "k8s.io/apimachinery/pkg/types"
	"k8s.io/apimachinery/pkg/util/wait"
	"sigs.k8s.io/controller-runtime/pkg/client"
	"sigs.k8s.io/controller-runtime/pkg/client/fake"
	"sigs.k8s.io/controller-runtime/pkg/client/interceptor"
	"sigs.k8s.io/controller-runtime/pkg/reconcile"

	"verifharness/hx"

	aliyunClient "github.com/AliyunContainerService/terway/pkg/aliyun/client"
	apiErr "github.com/AliyunContainerService/terway/pkg/aliyun/client/errors"
	networkv1beta1 "github.com/AliyunContainerService/terway/pkg/apis/network.alibabacloud.com/v1beta1"
	register "github.com/AliyunContainerService/terway/pkg/controller"
	ipamnode "github.com/AliyunContainerService/terway/pkg/controller/multi-ip/node"
	"github.com/AliyunContainerService/terway/pkg/vswitch"
)

// ---- simulated cloud -------------------------------------------------------------------------------

type cEni struct {
	id        int
	status    string // Available | InUse
	trunk, hp bool
	v4, v6    []int // v4[0] is the primary address
}

// call kinds in the log
const (
	cCreate   = 1
	cAttach   = 2
	cAssign4  = 3
	cAssign6  = 4
	cUn4      = 5
	cUn6      = 6
	cDetach   = 7
	cDelete   = 8
	cDescribe = 9 // fault kind only: the listing of the node's interfaces fails (throttled), nothing is logged
)

type fakeCloud struct {
	register.Interface
	mu       sync.Mutex
	enis     map[int]*cEni
	nextENI  int
	nextAddr int
	calls    [][]int       // kind eni n ok nips ips..  (ok: 0 no effect, 1 effect + success, 2 effect but failure reported)
	faults   map[int][]int // call kind -> outcomes for the next calls (0 ok 1 error before effect 2 error after effect 3 quota code)
}

// snapshot: n (eni inuse v4list v6list)*; the caller holds the lock
func (c *fakeCloud) snapshot(out *hx.B) {
	var ids []int
	for id := range c.enis {
		ids = append(ids, id)
	}
	sort.Ints(ids)
	out.I(len(ids))
	for _, id := range ids {
		e := c.enis[id]
		inuse := 0
		if e.status == "InUse" {
			inuse = 1
		}
		out.I(id, inuse).Ints(e.v4).Ints(e.v6)
	}
}

func (c *fakeCloud) outcome(kind int) int {
	q := c.faults[kind]
	if len(q) == 0 {
		return 0
	}
	c.faults[kind] = q[1:]
	return q[0]
}

// okOf: 1 = took effect and returned success, 2 = took effect but reported failure
func okOf(out int) int {
	if out == 2 {
		return 2
	}
	return 1
}

func (c *fakeCloud) logCall(kind, eni, n, ok int, ips []int) {
	c.calls = append(c.calls, append([]int{kind, eni, n, ok, len(ips)}, ips...))
}

func (c *fakeCloud) toAPI(e *cEni) *aliyunClient.NetworkInterface {
	ni := &aliyunClient.NetworkInterface{Status: e.status, NetworkInterfaceID: eniID(e.id), MacAddress: fmt.Sprintf("02:00:00:00:00:%02x", e.id),
		VSwitchID: "vsw-1", ZoneID: "zone-a", Type: aliyunClient.ENITypeSecondary, NetworkInterfaceTrafficMode: aliyunClient.ENITrafficModeStandard}
	if e.status == "InUse" {
		ni.InstanceID = "i-1"
	}
	if e.trunk {
		ni.Type = aliyunClient.ENITypeTrunk
	}
	if e.hp {
		ni.NetworkInterfaceTrafficMode = aliyunClient.ENITrafficModeRDMA
	}
	for i, a := range e.v4 {
		ni.PrivateIPSets = append(ni.PrivateIPSets, aliyunClient.IPSet{Primary: i == 0, IPAddress: ip4(a)})
		if i == 0 {
			ni.PrivateIPAddress = ip4(a)
		}
	}
	for _, a := range e.v6 {
		ni.IPv6Set = append(ni.IPv6Set, aliyunClient.IPSet{IPAddress: ip6(a)})
	}
	return ni
}

func quotaErr() error {
	return sdkErr.NewServerError(403, "{\"Code\": \"InvalidVSwitchId.IpNotEnough\"}", "")
}

func (c *fakeCloud) DescribeVSwitchByID(ctx context.Context, id string) (*vpc.VSwitch, error) {
	return &vpc.VSwitch{VSwitchId: id, ZoneId: "zone-a", AvailableIpAddressCount: 1000, CidrBlock: "10.0.0.0/8", Ipv6CidrBlock: "fd00::/64"}, nil
}

func (c *fakeCloud) DescribeNetworkInterfaceV2(ctx context.Context, opts ...aliyunClient.DescribeNetworkInterfaceOption) ([]*aliyunClient.NetworkInterface, error) {
	o := &aliyunClient.DescribeNetworkInterfaceOptions{}
	for _, x := range opts {
		x.ApplyTo(o)
	}
	c.mu.Lock()
	defer c.mu.Unlock()
	if c.outcome(cDescribe) != 0 {
		return nil, fmt.Errorf("injected: Throttling")
	}
	var ids []int
	for id := range c.enis {
		ids = append(ids, id)
	}
	sort.Ints(ids)
	var out []*aliyunClient.NetworkInterface
	for _, id := range ids {
		e := c.enis[id]
		if o.NetworkInterfaceIDs != nil {
			found := false
			for _, w := range *o.NetworkInterfaceIDs {
				if w == eniID(id) {
					found = true
				}
			}
			if !found {
				continue
			}
		} else if o.InstanceID != nil && e.status != "InUse" {
			continue
		}
		out = append(out, c.toAPI(e))
	}
	return out, nil
}

func (c *fakeCloud) CreateNetworkInterfaceV2(ctx context.Context, opts ...aliyunClient.CreateNetworkInterfaceOption) (*aliyunClient.NetworkInterface, error) {
	o := &aliyunClient.CreateNetworkInterfaceOptions{}
	for _, x := range opts {
		x.ApplyCreateNetworkInterface(o)
	}
	c.mu.Lock()
	defer c.mu.Unlock()
	n4, n6 := o.NetworkInterfaceOptions.IPCount, o.NetworkInterfaceOptions.IPv6Count
	out := c.outcome(cCreate)
	if out == 2 {
		// a create that reports failure has created nothing: the client wrapper retries with an idempotency
		// token, so the caller either gets the interface or there is none
		out = 1
	}
	if out == 1 || out == 3 {
		c.logCall(cCreate, 0, n4*1000+n6, 0, nil)
		if out == 3 {
			return nil, quotaErr()
		}
		return nil, fmt.Errorf("injected: create failed")
	}
	c.nextENI++
	e := &cEni{id: c.nextENI, status: "Available", trunk: o.NetworkInterfaceOptions.Trunk, hp: o.NetworkInterfaceOptions.ERDMA}
	if n4 < 1 {
		n4 = 1
	}
	for i := 0; i < n4; i++ {
		c.nextAddr++
		e.v4 = append(e.v4, c.nextAddr)
	}
	for i := 0; i < n6; i++ {
		c.nextAddr++
		e.v6 = append(e.v6, c.nextAddr)
	}
	c.enis[e.id] = e
	c.logCall(cCreate, e.id, n4*1000+n6, 1, append(append([]int{}, e.v4...), e.v6...))
	if out == 2 {
		return nil, fmt.Errorf("injected: create timed out after the interface was created")
	}
	return c.toAPI(e), nil
}

func (c *fakeCloud) AttachNetworkInterface(ctx context.Context, opts ...aliyunClient.AttachNetworkInterfaceOption) error {
	o := &aliyunClient.AttachNetworkInterfaceOptions{}
	for _, x := range opts {
		x.ApplyTo(o)
	}
	c.mu.Lock()
	defer c.mu.Unlock()
	id := eniNum(*o.NetworkInterfaceID)
	e := c.enis[id]
	out := c.outcome(cAttach)
	if e == nil || out == 1 || out == 3 {
		c.logCall(cAttach, id, 0, 0, nil)
		return fmt.Errorf("injected: attach failed")
	}
	e.status = "InUse"
	c.logCall(cAttach, id, 0, okOf(out), nil)
	if out == 2 {
		return fmt.Errorf("injected: attach timed out after it took effect")
	}
	return nil
}

func (c *fakeCloud) DetachNetworkInterface(ctx context.Context, eni, instanceID, trunkENIID string) error {
	c.mu.Lock()
	defer c.mu.Unlock()
	id := eniNum(eni)
	e := c.enis[id]
	out := c.outcome(cDetach)
	if out == 1 || out == 3 {
		c.logCall(cDetach, id, 0, 0, nil)
		return fmt.Errorf("injected: detach failed")
	}
	if e != nil {
		e.status = "Available"
	}
	c.logCall(cDetach, id, 0, okOf(out), nil)
	if out == 2 {
		return fmt.Errorf("injected: detach timed out after it took effect")
	}
	return nil
}

func (c *fakeCloud) DeleteNetworkInterfaceV2(ctx context.Context, eni string) error {
	c.mu.Lock()
	defer c.mu.Unlock()
	id := eniNum(eni)
	out := c.outcome(cDelete)
	if out == 1 || out == 3 {
		c.logCall(cDelete, id, 0, 0, nil)
		return fmt.Errorf("injected: delete failed")
	}
	var ips []int
	if e := c.enis[id]; e != nil {
		ips = append(append(ips, e.v4...), e.v6...)
	}
	delete(c.enis, id)
	c.logCall(cDelete, id, 0, okOf(out), ips)
	if out == 2 {
		return fmt.Errorf("injected: delete timed out after it took effect")
	}
	return nil
}

func (c *fakeCloud) WaitForNetworkInterfaceV2(ctx context.Context, eni string, status string, backoff wait.Backoff, ignoreNotExist bool) (*aliyunClient.NetworkInterface, error) {
	c.mu.Lock()
	defer c.mu.Unlock()
	e := c.enis[eniNum(eni)]
	if e == nil {
		if ignoreNotExist {
			return nil, apiErr.ErrNotFound
		}
		return nil, fmt.Errorf("interface %s not found", eni)
	}
	if e.status != status {
		return nil, fmt.Errorf("interface %s is %s, want %s", eni, e.status, status)
	}
	return c.toAPI(e), nil
}

func (c *fakeCloud) assign(kind int, o *aliyunClient.NetworkInterfaceOptions, n int) ([]aliyunClient.IPSet, error) {
	c.mu.Lock()
	defer c.mu.Unlock()
	id := eniNum(o.NetworkInterfaceID)
	e := c.enis[id]
	out := c.outcome(kind)
	if e == nil || out == 1 || out == 3 {
		c.logCall(kind, id, n, 0, nil)
		if out == 3 {
			return nil, quotaErr()
		}
		return nil, fmt.Errorf("injected: assign failed")
	}
	var ips []int
	var res []aliyunClient.IPSet
	for i := 0; i < n; i++ {
		c.nextAddr++
		ips = append(ips, c.nextAddr)
		if kind == cAssign4 {
			e.v4 = append(e.v4, c.nextAddr)
			res = append(res, aliyunClient.IPSet{IPAddress: ip4(c.nextAddr)})
		} else {
			e.v6 = append(e.v6, c.nextAddr)
			res = append(res, aliyunClient.IPSet{IPAddress: ip6(c.nextAddr)})
		}
	}
	c.logCall(kind, id, n, okOf(out), ips)
	if out == 2 {
		return nil, fmt.Errorf("injected: assign timed out after the addresses were assigned")
	}
	return res, nil
}

func (c *fakeCloud) AssignPrivateIPAddressV2(ctx context.Context, opts ...aliyunClient.AssignPrivateIPAddressOption) ([]aliyunClient.IPSet, error) {
	o := &aliyunClient.AssignPrivateIPAddressOptions{}
	for _, x := range opts {
		x.ApplyAssignPrivateIPAddress(o)
	}
	return c.assign(cAssign4, o.NetworkInterfaceOptions, o.NetworkInterfaceOptions.IPCount)
}
func (c *fakeCloud) AssignIpv6AddressesV2(ctx context.Context, opts ...aliyunClient.AssignIPv6AddressesOption) ([]aliyunClient.IPSet, error) {
	o := &aliyunClient.AssignIPv6AddressesOptions{}
	for _, x := range opts {
		x.ApplyAssignIPv6Addresses(o)
	}
	return c.assign(cAssign6, o.NetworkInterfaceOptions, o.NetworkInterfaceOptions.IPv6Count)
}

func (c *fakeCloud) unassign(kind int, eni string, ips []aliyunClient.IPSet) error {
	c.mu.Lock()
	defer c.mu.Unlock()
	id := eniNum(eni)
	e := c.enis[id]
	var ids []int
	for _, x := range ips {
		ids = append(ids, addrNum(x.IPAddress))
	}
	out := c.outcome(kind)
	if e == nil || out == 1 || out == 3 {
		c.logCall(kind, id, len(ids), 0, ids)
		return fmt.Errorf("injected: unassign failed")
	}
	rm := func(l []int) []int {
		var r []int
		for _, a := range l {
			keep := true
			for _, x := range ids {
				if x == a {
					keep = false
				}
			}
			if keep {
				r = append(r, a)
			}
		}
		return r
	}
	if kind == cUn4 {
		e.v4 = rm(e.v4)
	} else {
		e.v6 = rm(e.v6)
	}
	c.logCall(kind, id, len(ids), okOf(out), ids)
	if out == 2 {
		return fmt.Errorf("injected: unassign timed out after it took effect")
	}
	return nil
}
func (c *fakeCloud) UnAssignPrivateIPAddressesV2(ctx context.Context, eni string, ips []aliyunClient.IPSet) error {
	return c.unassign(cUn4, eni, ips)
}
func (c *fakeCloud) UnAssignIpv6AddressesV2(ctx context.Context, eni string, ips []aliyunClient.IPSet) error {
	return c.unassign(cUn6, eni, ips)
}

// ---- one scripted history ------------------------------------------------------------------------------
// input: 4 on4 on6 trunk rdma per4 per6 flSec flTrunk flRdma minPool maxPool nrec (len rec..)*
// records: 1 addpod p uid rdma rep4 rep6 | 2 delpod p | 3 runtime uid status | 4 reconcile nf (kind outcome)* |
//          5 drift what arg | 6 restart-controller | 7 advance secs | 8 conflict-on-next-status-update | 9 runtime-readable flag
// output per reconcile: 77 err conflict restarted-since-last npods (pod uid)* nrt (uid final)* ncalls (len call..)* <record> ncloud (eni inuse n4 a.. n6 a..)*

func evalHistory(in []*big.Int) ([]*big.Int, []*big.Int) {
	d := hx.NewD(in)
	d.Int()
	on4, on6, trunk, rdma := d.Bool(), d.Bool(), d.Bool(), d.Bool()
	per4, per6 := d.Int(), d.Int()
	flSec, flTrunk, flRdma := d.Int(), d.Int(), d.Int()
	minPool, maxPool := d.Int(), d.Int()
	n := d.Int()
	var recs [][]int
	for i := 0; i < n; i++ {
		recs = append(recs, d.Ints())
	}
	if d.Bad {
		return in, nil
	}
	var out hx.B
	run := func(t *testing.T) {
		node := baseNode(on4, on6, trunk, rdma, per4, per6)
		node.Spec.NodeMetadata = networkv1beta1.NodeMetadata{InstanceID: "i-1", InstanceType: "ecs.x", RegionID: "r", ZoneID: "zone-a"}
		node.Spec.NodeCap.Adapters = flSec + flTrunk + flRdma + 1
		node.Spec.Pool = &networkv1beta1.PoolSpec{MinPoolSize: minPool, MaxPoolSize: maxPool}
		add := func(ty networkv1beta1.ENIType, mode networkv1beta1.NetworkInterfaceTrafficMode, c int) {
			if c > 0 {
				node.Spec.Flavor = append(node.Spec.Flavor, networkv1beta1.Flavor{NetworkInterfaceType: ty, NetworkInterfaceTrafficMode: mode, Count: c})
			}
		}
		add(networkv1beta1.ENITypeSecondary, networkv1beta1.NetworkInterfaceTrafficModeStandard, flSec)
		add(networkv1beta1.ENITypeTrunk, networkv1beta1.NetworkInterfaceTrafficModeStandard, flTrunk)
		add(networkv1beta1.ENITypeSecondary, networkv1beta1.NetworkInterfaceTrafficModeHighPerformance, flRdma)
		rt := &networkv1beta1.NodeRuntime{ObjectMeta: metav1.ObjectMeta{Name: "node-1"}}
		rtReadable, conflict := true, false
		cb := fake.NewClientBuilder().WithScheme(scheme).WithObjects(node, rt, &corev1.Node{ObjectMeta: metav1.ObjectMeta{Name: "node-1"}}).
			WithStatusSubresource(&networkv1beta1.Node{}, &networkv1beta1.NodeRuntime{}).
			WithIndex(&corev1.Pod{}, "spec.nodeName", func(o client.Object) []string { return []string{o.(*corev1.Pod).Spec.NodeName} }).
			WithInterceptorFuncs(interceptor.Funcs{
				Get: func(ctx context.Context, c client.WithWatch, key client.ObjectKey, obj client.Object, opts ...client.GetOption) error {
					if _, ok := obj.(*networkv1beta1.NodeRuntime); ok && !rtReadable {
						return fmt.Errorf("injected: node runtime unreadable")
					}
					return c.Get(ctx, key, obj, opts...)
				},
				SubResourceUpdate: func(ctx context.Context, c client.Client, sub string, obj client.Object, opts ...client.SubResourceUpdateOption) error {
					if _, ok := obj.(*networkv1beta1.Node); ok && conflict {
						conflict = false
						return k8sErr.NewConflict(schema.GroupResource{Resource: "nodes"}, "node-1", fmt.Errorf("injected conflict"))
					}
					return c.SubResource(sub).Update(ctx, obj, opts...)
				},
			})
		cl := cb.Build()
		cloud := &fakeCloud{enis: map[int]*cEni{}, faults: map[int][]int{}}
		pool, _ := vswitch.NewSwitchPool(100, "10m")
		rec := ipamnode.VerifNewReconcileNode(cl, cloud, pool, 1*time.Hour, 2*time.Minute)
		ctx := context.Background()
		stamp := int64(1000)
		restarted := false
		for _, r := range recs {
			if len(r) == 0 {
				continue
			}
			switch r[0] {
			case 1:
				p := &corev1.Pod{ObjectMeta: metav1.ObjectMeta{Namespace: "ns", Name: fmt.Sprintf("p%d", r[1]), UID: k8stypes.UID(uidStr(r[2]))},
					Spec: corev1.PodSpec{NodeName: "node-1", Containers: []corev1.Container{{Name: "c", Image: "i"}}}}
				if r[3] != 0 {
					p.Spec.Containers[0].Resources.Limits = corev1.ResourceList{"aliyun/erdma": *resourceOne()}
				}
				if r[4] != 0 {
					p.Status.PodIPs = append(p.Status.PodIPs, corev1.PodIP{IP: ip4(r[4])})
					p.Status.PodIP = ip4(r[4])
				}
				if r[5] != 0 {
					p.Status.PodIPs = append(p.Status.PodIPs, corev1.PodIP{IP: ip6(r[5])})
				}
				_ = cl.Create(ctx, p)
			case 2:
				_ = cl.Delete(ctx, &corev1.Pod{ObjectMeta: metav1.ObjectMeta{Namespace: "ns", Name: fmt.Sprintf("p%d", r[1])}})
			case 3:
				cur := &networkv1beta1.NodeRuntime{}
				if err := cl.Get(ctx, client.ObjectKey{Name: "node-1"}, cur); err != nil {
					rtReadableWas := rtReadable
					rtReadable = true
					_ = cl.Get(ctx, client.ObjectKey{Name: "node-1"}, cur)
					rtReadable = rtReadableWas
				}
				if cur.Status.Pods == nil {
					cur.Status.Pods = map[string]*networkv1beta1.RuntimePodStatus{}
				}
				ps := cur.Status.Pods[uidStr(r[1])]
				if ps == nil {
					ps = &networkv1beta1.RuntimePodStatus{PodID: "x", Status: map[networkv1beta1.CNIStatus]*networkv1beta1.CNIStatusInfo{}}
					cur.Status.Pods[uidStr(r[1])] = ps
				}
				stamp += 10
				st := networkv1beta1.CNIStatusInitial
				if r[2] == 2 {
					st = networkv1beta1.CNIStatusDeleted
				}
				ps.Status[st] = &networkv1beta1.CNIStatusInfo{LastUpdateTime: metav1.Unix(stamp, 0)}
				_ = cl.Status().Update(ctx, cur)
			case 4:
				cloud.mu.Lock()
				cloud.faults = map[int][]int{}
				for i := 0; i < r[1] && 3+2*i < len(r); i++ {
					cloud.faults[r[2+2*i]] = append(cloud.faults[r[2+2*i]], r[3+2*i])
				}
				cloud.calls = nil
				cloud.mu.Unlock()
				// what the controller will see
				podList := &corev1.PodList{}
				_ = cl.List(ctx, podList)
				curRT := &networkv1beta1.NodeRuntime{}
				was := rtReadable
				rtReadable = true
				_ = cl.Get(ctx, client.ObjectKey{Name: "node-1"}, curRT)
				rtReadable = was
				var pre hx.B
				cloud.mu.Lock()
				cloud.snapshot(&pre)
				cloud.mu.Unlock()
				conflictWas := conflict
				_, rerr := rec.Reconcile(ctx, reconcile.Request{NamespacedName: k8stypes.NamespacedName{Name: "node-1"}})
				synctest.Wait()
				out.I(77).Bool(rerr != nil).Bool(conflictWas && !conflict).Bool(restarted)
				restarted = false
				var pl [][5]int
				for _, p := range podList.Items {
					x := [5]int{podNum("ns/" + p.Name), uidNum(string(p.UID)), 0, 0, 0}
					if q, ok := p.Spec.Containers[0].Resources.Limits["aliyun/erdma"]; ok && !q.IsZero() {
						x[2] = 1
					}
					for _, pip := range p.Status.PodIPs {
						if a := addrNum(pip.IP); a != 0 {
							if len(pip.IP) > 4 && pip.IP[:4] == "fd00" {
								x[4] = a
							} else {
								x[3] = a
							}
						}
					}
					pl = append(pl, x)
				}
				sort.Slice(pl, func(i, j int) bool { return pl[i][0] < pl[j][0] })
				out.I(len(pl))
				for _, x := range pl {
					out.I(x[0], x[1], x[2], x[3], x[4])
				}
				if !was {
					out.I(-1)
				} else {
					var rl [][2]int
					for u, ps := range curRT.Status.Pods {
						fin, best := 0, int64(-1)
						for st, info := range ps.Status {
							if info != nil && info.LastUpdateTime.Unix() > best {
								best = info.LastUpdateTime.Unix()
								fin = 1
								if st == networkv1beta1.CNIStatusDeleted {
									fin = 2
								}
							}
						}
						rl = append(rl, [2]int{uidNum(u), fin})
					}
					sort.Slice(rl, func(i, j int) bool { return rl[i][0] < rl[j][0] })
					out.I(len(rl))
					for _, x := range rl {
						out.I(x[0], x[1])
					}
				}
				out.L = append(out.L, pre.L...)
				cloud.mu.Lock()
				out.I(len(cloud.calls))
				for _, c := range cloud.calls {
					out.Ints(c)
				}
				cur := &networkv1beta1.Node{}
				_ = cl.Get(ctx, client.ObjectKey{Name: "node-1"}, cur)
				encCR(&out, cur.Status.NetworkInterfaces)
				cloud.snapshot(&out)
				cloud.mu.Unlock()
			case 5:
				cloud.mu.Lock()
				var ids []int
				for id := range cloud.enis {
					ids = append(ids, id)
				}
				sort.Ints(ids)
				if len(ids) > 0 {
					e := cloud.enis[ids[r[2]%len(ids)]]
					switch r[1] {
					case 1: // an address disappears in the cloud
						if len(e.v4) > 1 {
							e.v4 = e.v4[:len(e.v4)-1]
						}
					case 2: // an address appears in the cloud
						cloud.nextAddr++
						e.v4 = append(e.v4, cloud.nextAddr)
					}
				}
				cloud.mu.Unlock()
			case 6:
				rec.VerifResetCache()
				restarted = true
			case 7:
				time.Sleep(time.Duration(r[1]) * time.Second)
			case 8:
				conflict = true
			case 9:
				rtReadable = r[1] != 0
			}
			time.Sleep(1100 * time.Millisecond)
		}
	}
	historyRunner(run)
	return in, out.L
}

var historyRunner func(f func(t *testing.T))

func genHistory(r *hx.Rand) []*big.Int {
	var b hx.B
	on4, on6 := true, false
	switch r.Intn(4) {
	case 0:
		on4, on6 = true, true
	case 1:
		on4, on6 = false, true
	}
	rdma := r.Chance(1, 6)
	if os.Getenv("VERIF_PROP") == "C02" {
		rdma = r.Chance(1, 3) // more ERDMA nodes: the kind filter of the binding pass
	}
	per := 2 + r.Intn(5)
	flSec, flTrunk, flRdma := 1+r.Intn(3), 0, 0
	trunk := r.Chance(1, 5)
	if trunk {
		flTrunk = 1
	}
	if rdma {
		flRdma = 1
	}
	minPool := r.Intn(3)
	maxPool := minPool + r.Intn(4)
	b.I(4).Bool(on4).Bool(on6).Bool(trunk).Bool(rdma).I(per, per, flSec, flTrunk, flRdma, minPool, maxPool)
	var recs [][]int
	npods := 1 + r.Intn(5)
	gen := map[int]int{}
	alive := map[int]bool{}
	n := 8 + r.Intn(25)
	if rdma && r.Chance(1, 2) {
		// an ERDMA node on which the RDMA interface holds an idle address (its pod has gone, teardown reported) while an ordinary
		// pod asks for addresses in a round whose cloud calls fail: the idle RDMA address is not for that pod
		q := npods + 2
		recs = append(recs, []int{1, q, q*10 + 1, 1, 0, 0}, []int{4, 0}, []int{4, 0}, []int{2, q}, []int{3, q*10 + 1, 2}, []int{4, 0})
		p := 1 + r.Intn(npods)
		gen[p]++
		recs = append(recs, []int{1, p, p*10 + gen[p], 0, 0, 0})
		alive[p] = true
		if r.Chance(1, 2) {
			recs = append(recs, []int{4, 3, 1, 3, 3, 3, 4, 3})
		} else {
			recs = append(recs, []int{4, 3, 1, 1, 3, 1, 4, 1})
		}
		recs = append(recs, []int{4, 0})
	}
	for i := 0; i < n; i++ {
		x := r.Intn(100)
		p := 1 + r.Intn(npods)
		switch {
		case x < 22:
			if !alive[p] {
				gen[p]++
				rep4 := 0
				if r.Chance(1, 10) {
					rep4 = 1 + r.Intn(10)
				}
				recs = append(recs, []int{1, p, p*10 + gen[p], b2i(rdma && r.Chance(1, 3)), rep4, 0})
				alive[p] = true
			}
		case x < 36:
			if alive[p] {
				recs = append(recs, []int{2, p})
				alive[p] = false
				if r.Chance(3, 4) {
					recs = append(recs, []int{3, p*10 + gen[p], 2})
				}
			}
		case x < 44:
			recs = append(recs, []int{3, p*10 + gen[p], 1 + r.Intn(2)})
		case x < 80:
			rec := []int{4, 0}
			if r.Chance(1, 4) {
				rec = []int{4, 1, 1 + r.Intn(8), 1 + r.Intn(3)}
			}
			recs = append(recs, rec)
		case x < 84:
			recs = append(recs, []int{5, 1 + r.Intn(2), r.Intn(4)})
		case x < 88:
			recs = append(recs, []int{6})
		case x < 92:
			recs = append(recs, []int{7, []int{5, 130, 4000}[r.Intn(3)]})
		case x < 97:
			// a status-update conflict, mostly right before a round that has something to do
			recs = append(recs, []int{8})
			if r.Chance(2, 3) {
				q := 1 + r.Intn(npods)
				if !alive[q] {
					gen[q]++
					recs = append(recs, []int{1, q, q*10 + gen[q], 0, 0, 0})
					alive[q] = true
				}
				if r.Chance(1, 2) {
					// the synchronisation the conflict forces is throttled once, then the cloud is healthy again
					recs = append(recs, []int{4, 0}, []int{4, 1, cDescribe, 1}, []int{4, 0})
				} else {
					recs = append(recs, []int{4, 0}, []int{4, 0})
				}
			}
		default:
			recs = append(recs, []int{9, r.Intn(2)})
		}
	}
	// a healthy tail: the runtime object readable, a full synchronisation falls due, then quiet rounds
	recs = append(recs, []int{9, 1}, []int{7, 8000}, []int{4, 0})
	if r.Chance(1, 2) {
		// once more the vSwitch reports that it has run out of addresses while a new pod waits: the controller stops asking
		// (the vSwitch is blocked in its cache) and has to come back by itself when the block expires (10 minutes)
		recs = append(recs, []int{1, npods + 1, (npods+1)*10 + 1, 0, 0, 0}, []int{4, 3, 1, 3, 3, 3, 4, 3})
	}
	for i := 0; i < 10; i++ {
		recs = append(recs, []int{7, 130}, []int{4, 0})
	}
	recs = append(recs, []int{4, 0}, []int{4, 0})
	b.I(len(recs))
	for _, rec := range recs {
		b.Ints(rec)
	}
	return b.L
}

func resourceOne() *resource.Quantity { q := resource.MustParse("1"); return &q }

func b2i(b bool) int {
	if b {
		return 1
	}
	return 0
}

// ---- kind 5: the pool maintenance loop on a node without pods -----------------------------------------------
// input: 5 dual per min max fs nENI (n4 n6)* npass          (interfaces are numbered 1..nENI, all attached, all
//        addresses valid and idle, record = cloud)
// output per round: 55 ncalls (kind eni n)* nENI (id n4 d4 n6 d6 gone)*

func evalLoop(in []*big.Int) ([]*big.Int, []*big.Int) {
	d := hx.NewD(in)
	d.Int()
	dual := d.Bool()
	per, minPool, maxPool, fs := d.Int(), d.Int(), d.Int(), d.Int()
	ne := d.Int()
	var lens [][2]int
	for i := 0; i < ne; i++ {
		lens = append(lens, [2]int{d.Int(), d.Int()})
	}
	npass := d.Int()
	if d.Bad {
		return in, nil
	}
	var out hx.B
	run := func(t *testing.T) {
		node := baseNode(true, dual, false, false, per, per)
		node.Spec.NodeMetadata = networkv1beta1.NodeMetadata{InstanceID: "i-1", InstanceType: "ecs.x", RegionID: "r", ZoneID: "zone-a"}
		node.Spec.NodeCap.Adapters = fs + 1
		node.Spec.Pool = &networkv1beta1.PoolSpec{MinPoolSize: minPool, MaxPoolSize: maxPool}
		node.Spec.Flavor = []networkv1beta1.Flavor{{NetworkInterfaceType: networkv1beta1.ENITypeSecondary, NetworkInterfaceTrafficMode: networkv1beta1.NetworkInterfaceTrafficModeStandard, Count: fs}}
		cloud := &fakeCloud{enis: map[int]*cEni{}, faults: map[int][]int{}}
		node.Status.NetworkInterfaces = map[string]*networkv1beta1.NetworkInterface{}
		for i, l := range lens {
			e := &cEni{id: i + 1, status: "InUse"}
			ni := &networkv1beta1.NetworkInterface{ID: eniID(e.id), Status: "InUse", VSwitchID: "vsw-1", MacAddress: fmt.Sprintf("02:00:00:00:00:%02x", e.id),
				NetworkInterfaceType: networkv1beta1.ENITypeSecondary, NetworkInterfaceTrafficMode: networkv1beta1.NetworkInterfaceTrafficModeStandard,
				IPv4: map[string]*networkv1beta1.IP{}, IPv6: map[string]*networkv1beta1.IP{}, IPv4CIDR: "10.0.0.0/8", IPv6CIDR: "fd00::/64"}
			for k := 0; k < l[0]; k++ {
				cloud.nextAddr++
				e.v4 = append(e.v4, cloud.nextAddr)
				ni.IPv4[ip4(cloud.nextAddr)] = &networkv1beta1.IP{IP: ip4(cloud.nextAddr), IPName: ip4(cloud.nextAddr), Status: networkv1beta1.IPStatusValid, Primary: k == 0}
			}
			for k := 0; k < l[1]; k++ {
				cloud.nextAddr++
				e.v6 = append(e.v6, cloud.nextAddr)
				ni.IPv6[ip6(cloud.nextAddr)] = &networkv1beta1.IP{IP: ip6(cloud.nextAddr), IPName: ip6(cloud.nextAddr), Status: networkv1beta1.IPStatusValid}
			}
			cloud.enis[e.id] = e
			node.Status.NetworkInterfaces[ni.ID] = ni
		}
		cloud.nextENI = len(lens)
		rt := &networkv1beta1.NodeRuntime{ObjectMeta: metav1.ObjectMeta{Name: "node-1"}}
		cl := fake.NewClientBuilder().WithScheme(scheme).WithObjects(node, rt, &corev1.Node{ObjectMeta: metav1.ObjectMeta{Name: "node-1"}}).
			WithStatusSubresource(&networkv1beta1.Node{}, &networkv1beta1.NodeRuntime{}).
			WithIndex(&corev1.Pod{}, "spec.nodeName", func(o client.Object) []string { return []string{o.(*corev1.Pod).Spec.NodeName} }).Build()
		pool, _ := vswitch.NewSwitchPool(100, "10m")
		rec := ipamnode.VerifNewReconcileNode(cl, cloud, pool, 1*time.Hour, 2*time.Minute)
		ctx := context.Background()
		for p := 0; p < npass; p++ {
			cloud.mu.Lock()
			cloud.calls = nil
			cloud.mu.Unlock()
			_, _ = rec.Reconcile(ctx, reconcile.Request{NamespacedName: k8stypes.NamespacedName{Name: "node-1"}})
			synctest.Wait()
			cloud.mu.Lock()
			out.I(55, len(cloud.calls))
			for _, c := range cloud.calls {
				out.I(c[0], c[1], c[2])
			}
			cloud.mu.Unlock()
			cur := &networkv1beta1.Node{}
			_ = cl.Get(ctx, client.ObjectKey{Name: "node-1"}, cur)
			var ids []int
			for id := range cur.Status.NetworkInterfaces {
				ids = append(ids, eniNum(id))
			}
			sort.Ints(ids)
			out.I(len(ids))
			for _, id := range ids {
				e := cur.Status.NetworkInterfaces[eniID(id)]
				cnt := func(m map[string]*networkv1beta1.IP) (int, int) {
					v, dl := 0, 0
					for _, x := range m {
						if x.Status == networkv1beta1.IPStatusDeleting {
							dl++
						} else {
							v++
						}
					}
					return v, dl
				}
				n4, d4 := cnt(e.IPv4)
				n6, d6 := cnt(e.IPv6)
				out.I(id, n4, d4, n6, d6).Bool(e.Status != "InUse")
			}
			time.Sleep(130 * time.Second)
		}
	}
	historyRunner(run)
	return in, out.L
}
