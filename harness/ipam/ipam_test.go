// Package ipam: correspondence harness for the cluster IPAM controller
// (pkg/controller/multi-ip/node): the planning arithmetic, the trimming of idle addresses,
// the binding pass (index, gated release, take-over, pick) and whole Reconcile histories
// against a simulated cloud and controller-runtime's fake API server. Properties C02 C03 C08.
package ipam

import (
	"context"
	"fmt"
	"math/big"
	"os"
	"sort"
	"testing"
	"testing/synctest"
	"time"

	metav1 "k8s.io/apimachinery/pkg/apis/meta/v1"
	"k8s.io/apimachinery/pkg/runtime"
	clientgoscheme "k8s.io/client-go/kubernetes/scheme"
	"sigs.k8s.io/controller-runtime/pkg/client"
	"sigs.k8s.io/controller-runtime/pkg/client/fake"

	"verifharness/hx"

	networkv1beta1 "github.com/AliyunContainerService/terway/pkg/apis/network.alibabacloud.com/v1beta1"
	ipamnode "github.com/AliyunContainerService/terway/pkg/controller/multi-ip/node"
	"github.com/AliyunContainerService/terway/pkg/vswitch"
)

var scheme = func() *runtime.Scheme {
	s := runtime.NewScheme()
	_ = clientgoscheme.AddToScheme(s)
	_ = networkv1beta1.AddToScheme(s)
	return s
}()

func ip4(a int) string { return fmt.Sprintf("10.%d.%d.%d", a>>16&255, a>>8&255, a&255) }
func ip6(a int) string { return fmt.Sprintf("fd00::%x", a) }
func addrNum(s string) int {
	var a, b, c int
	if _, err := fmt.Sscanf(s, "10.%d.%d.%d", &a, &b, &c); err == nil {
		return a<<16 | b<<8 | c
	}
	var x int
	if _, err := fmt.Sscanf(s, "fd00::%x", &x); err == nil {
		return x
	}
	return 0
}
func eniID(n int) string { return fmt.Sprintf("eni-%d", n) }
func eniNum(s string) int {
	var n int
	fmt.Sscanf(s, "eni-%d", &n)
	return n
}
func podID(p int) string {
	if p == 0 {
		return ""
	}
	return fmt.Sprintf("ns/p%d", p)
}
func podNum(s string) int {
	var n int
	fmt.Sscanf(s, "ns/p%d", &n)
	return n
}
func uidStr(u int) string {
	if u == 0 {
		return ""
	}
	return fmt.Sprintf("u%d", u)
}
func uidNum(s string) int {
	var n int
	fmt.Sscanf(s, "u%d", &n)
	return n
}

var eniStatusNames = map[int]string{1: "InUse", 2: "Available", 3: "Attaching", 4: "Detaching", 5: "Deleting"}

func statusNum(s string) int {
	for k, v := range eniStatusNames {
		if v == s {
			return k
		}
	}
	return 0
}

// ---- the record (Node CR status) as integers -------------------------------------------------------

func decIPs(d *hx.D, six bool) map[string]*networkv1beta1.IP {
	n := d.Int()
	m := map[string]*networkv1beta1.IP{}
	for i := 0; i < n; i++ {
		a, st, prim, pod, uid := d.Int(), d.Int(), d.Bool(), d.Int(), d.Int()
		s := ip4(a)
		if six {
			s = ip6(a)
		}
		status := networkv1beta1.IPStatusValid
		if st == 2 {
			status = networkv1beta1.IPStatusDeleting
		}
		m[s] = &networkv1beta1.IP{IP: s, IPName: s, Status: status, Primary: prim, PodID: podID(pod), PodUID: uidStr(uid)}
	}
	return m
}

func decCR(d *hx.D) map[string]*networkv1beta1.NetworkInterface {
	n := d.Int()
	m := map[string]*networkv1beta1.NetworkInterface{}
	for i := 0; i < n; i++ {
		id, st, ty, mode := d.Int(), d.Int(), d.Int(), d.Int()
		e := &networkv1beta1.NetworkInterface{ID: eniID(id), Status: eniStatusNames[st], VSwitchID: "vsw-1",
			NetworkInterfaceType: networkv1beta1.ENITypeSecondary, NetworkInterfaceTrafficMode: networkv1beta1.NetworkInterfaceTrafficModeStandard}
		if ty == 1 {
			e.NetworkInterfaceType = networkv1beta1.ENITypeTrunk
		}
		if mode == 1 {
			e.NetworkInterfaceTrafficMode = networkv1beta1.NetworkInterfaceTrafficModeHighPerformance
		}
		e.IPv4 = decIPs(d, false)
		e.IPv6 = decIPs(d, true)
		m[e.ID] = e
	}
	return m
}

func encIPs(b *hx.B, m map[string]*networkv1beta1.IP) {
	var ks []string
	for k := range m {
		ks = append(ks, k)
	}
	sort.Slice(ks, func(i, j int) bool { return addrNum(ks[i]) < addrNum(ks[j]) })
	b.I(len(ks))
	for _, k := range ks {
		v := m[k]
		st := 0
		switch v.Status {
		case networkv1beta1.IPStatusValid:
			st = 1
		case networkv1beta1.IPStatusDeleting:
			st = 2
		}
		b.I(addrNum(k), st).Bool(v.Primary).I(podNum(v.PodID), uidNum(v.PodUID))
	}
}

func encCR(b *hx.B, m map[string]*networkv1beta1.NetworkInterface) {
	var ks []string
	for k := range m {
		ks = append(ks, k)
	}
	sort.Slice(ks, func(i, j int) bool { return eniNum(ks[i]) < eniNum(ks[j]) })
	b.I(len(ks))
	for _, k := range ks {
		e := m[k]
		ty, mode := 0, 0
		if e.NetworkInterfaceType == networkv1beta1.ENITypeTrunk {
			ty = 1
		}
		if e.NetworkInterfaceTrafficMode == networkv1beta1.NetworkInterfaceTrafficModeHighPerformance {
			mode = 1
		}
		b.I(eniNum(e.ID), statusNum(e.Status), ty, mode)
		encIPs(b, e.IPv4)
		encIPs(b, e.IPv6)
	}
}

func baseNode(on4, on6, trunk, rdma bool, per4, per6 int) *networkv1beta1.Node {
	n := &networkv1beta1.Node{ObjectMeta: metav1.ObjectMeta{Name: "node-1"}}
	n.Spec.ENISpec = &networkv1beta1.ENISpec{EnableIPv4: on4, EnableIPv6: on6, EnableTrunk: trunk, EnableERDMA: rdma, VSwitchOptions: []string{"vsw-1"}}
	n.Spec.NodeCap.IPv4PerAdapter, n.Spec.NodeCap.IPv6PerAdapter = per4, per6
	n.Spec.Pool = &networkv1beta1.PoolSpec{}
	return n
}

// ---- evaluation -------------------------------------------------------------------------------------

func eval(in []*big.Int) ([]*big.Int, []*big.Int) {
	d := hx.NewD(in)
	var o hx.B
	switch d.Int() {
	case 1: // planning arithmetic
		on4, on6, trunk, rdma := d.Bool(), d.Bool(), d.Bool(), d.Bool()
		per4, per6 := d.Int(), d.Int()
		flSec, flTrunk, flRdma := d.Int(), d.Int(), d.Int()
		node := baseNode(on4, on6, trunk, rdma, per4, per6)
		node.Spec.NodeCap.Adapters = flSec + flTrunk + flRdma + 1
		if flSec > 0 {
			node.Spec.Flavor = append(node.Spec.Flavor, networkv1beta1.Flavor{NetworkInterfaceType: networkv1beta1.ENITypeSecondary, NetworkInterfaceTrafficMode: networkv1beta1.NetworkInterfaceTrafficModeStandard, Count: flSec})
		}
		if flTrunk > 0 {
			node.Spec.Flavor = append(node.Spec.Flavor, networkv1beta1.Flavor{NetworkInterfaceType: networkv1beta1.ENITypeTrunk, NetworkInterfaceTrafficMode: networkv1beta1.NetworkInterfaceTrafficModeStandard, Count: flTrunk})
		}
		if flRdma > 0 {
			node.Spec.Flavor = append(node.Spec.Flavor, networkv1beta1.Flavor{NetworkInterfaceType: networkv1beta1.ENITypeSecondary, NetworkInterfaceTrafficMode: networkv1beta1.NetworkInterfaceTrafficModeHighPerformance, Count: flRdma})
		}
		node.Status.NetworkInterfaces = decCR(d)
		normal, rdmaN := d.Int(), d.Int()
		if d.Bad {
			return in, nil
		}
		pool, _ := vswitch.NewSwitchPool(100, "10m")
		rec := ipamnode.VerifNewReconcileNode(fake.NewClientBuilder().WithScheme(scheme).Build(), &fakeCloud{enis: map[int]*cEni{}, faults: map[int][]int{}}, pool, time.Hour, 2*time.Minute)
		plan := rec.VerifPlan(context.Background(), node, normal, rdmaN)
		// annotate the input with the order in which the record's interfaces were considered
		var order []int
		for _, p := range plan {
			if p.ENI != "" {
				order = append(order, eniNum(p.ENI))
			}
		}
		var ann hx.B
		ann.L = append(ann.L, in[:d.Pos()]...)
		ann.Ints(order)
		for _, p := range plan {
			o.Bool(p.Trunk).Bool(p.RDMA).I(eniNum(p.ENI), p.Add4, p.Add6).Bool(p.Full)
		}
		return ann.L, o.L
	case 2: // trimming of one interface
		on4 := d.Bool()
		cr := decCR(d)
		todel := d.Int()
		if d.Bad || len(cr) != 1 {
			return in, nil
		}
		_ = on4
		for _, e := range cr {
			ret := ipamnode.VerifReleaseUnused(e, todel)
			o.I(ret)
		}
		encCR(&o, cr)
		return annotate(in, o.L), o.L
	case 3: // one binding pass
		on4, on6, rdma := d.Bool(), d.Bool(), d.Bool()
		node := baseNode(on4, on6, false, rdma, 10, 10)
		node.Status.NetworkInterfaces = decCR(d)
		np := d.Int()
		var pods []ipamnode.VerifPod
		for i := 0; i < np; i++ {
			p, u := d.Int(), d.Int()
			vp := ipamnode.VerifPod{ID: podID(p), UID: uidStr(u), Need4: d.Bool(), Need6: d.Bool(), RDMA: d.Bool()}
			if r4 := d.Int(); r4 != 0 {
				vp.IPv4 = ip4(r4)
			}
			if r6 := d.Int(); r6 != 0 {
				vp.IPv6 = ip6(r6)
			}
			pods = append(pods, vp)
		}
		rtOK := d.Bool()
		nrt := d.Int()
		rt := &networkv1beta1.NodeRuntime{ObjectMeta: metav1.ObjectMeta{Name: "node-1"}}
		rt.Status.Pods = map[string]*networkv1beta1.RuntimePodStatus{}
		for i := 0; i < nrt; i++ {
			u, st := d.Int(), d.Int()
			ps := &networkv1beta1.RuntimePodStatus{PodID: "x", Status: map[networkv1beta1.CNIStatus]*networkv1beta1.CNIStatusInfo{}}
			t0 := metav1.Unix(1000, 0)
			t1 := metav1.Unix(2000, 0)
			switch st {
			case 1:
				ps.Status[networkv1beta1.CNIStatusInitial] = &networkv1beta1.CNIStatusInfo{LastUpdateTime: t1}
			case 2:
				ps.Status[networkv1beta1.CNIStatusInitial] = &networkv1beta1.CNIStatusInfo{LastUpdateTime: t0}
				ps.Status[networkv1beta1.CNIStatusDeleted] = &networkv1beta1.CNIStatusInfo{LastUpdateTime: t1}
			}
			rt.Status.Pods[uidStr(u)] = ps
		}
		if d.Bad {
			return in, nil
		}
		cb := fake.NewClientBuilder().WithScheme(scheme)
		if rtOK {
			cb = cb.WithObjects(rt)
		}
		un := ipamnode.VerifBind(context.Background(), cb.Build(), node, pods)
		encCR(&o, node.Status.NetworkInterfaces)
		var uns []int
		for _, u := range un {
			uns = append(uns, podNum(u))
		}
		sort.Ints(uns)
		o.Ints(uns)
		return annotate(in, o.L), o.L
	case 4:
		_, out := evalHistory(in)
		return annotate(in, out), out
	case 5:
		_, out := evalLoop(in)
		return annotate(in, out), out
	}
	return in, nil
}

var _ client.Client

// annotate appends what the implementation produced to the input: the model follows the observed
// outcome where Go's map order decides, and must arrive at the same result.
func annotate(in, out []*big.Int) []*big.Int {
	var a hx.B
	a.L = append(a.L, in...)
	a.I(-555)
	a.L = append(a.L, big.NewInt(int64(len(out))))
	a.L = append(a.L, out...)
	return a.L
}

// ---- generators ---------------------------------------------------------------------------------------

type gIP struct {
	a, st    int
	prim     bool
	pod, uid int
}
type gENI struct {
	id, st, ty, mode int
	v4, v6           []gIP
}

// genCR: a record whose bindings are mostly well formed (a pod has at most one address per family, both on
// one interface), with a share of partially bound pods (one family only) as taken over from an earlier
// version, and — rarely — a malformed record.
func genCR(r *hx.Rand, b *hx.B, nenis, maxIPs, pods int, on4, on6 bool, distinctLens bool) []gENI {
	next := 0
	var es []gENI
	for i := 0; i < nenis; i++ {
		e := gENI{id: i + 1, st: []int{1, 1, 1, 1, 3, 5}[r.Intn(6)]}
		if r.Chance(1, 6) {
			e.ty = 1
		} else if r.Chance(1, 6) {
			e.mode = 1
		}
		n4, n6 := 0, 0
		if on4 {
			n4 = r.Intn(maxIPs + 1)
			if distinctLens {
				n4 = (i*2 + r.Intn(2)) % (maxIPs + 1)
			}
		}
		if on6 {
			n6 = r.Intn(maxIPs + 1)
			if on4 && r.Chance(2, 3) {
				n6 = n4
			}
		}
		mk := func(n int, prim bool) []gIP {
			var l []gIP
			for k := 0; k < n; k++ {
				next++
				st := 1
				if r.Chance(1, 6) {
					st = 2
				}
				l = append(l, gIP{a: next, st: st, prim: prim && k == 0})
			}
			return l
		}
		e.v4 = mk(n4, true)
		e.v6 = mk(n6, false)
		es = append(es, e)
	}
	malformed := r.Chance(1, 12)
	for p := 1; p <= pods && len(es) > 0; p++ {
		if !r.Chance(1, 2) {
			continue
		}
		e := &es[r.Intn(len(es))]
		uid := p*10 + r.Intn(2)
		if r.Chance(1, 8) {
			uid = 0
		}
		bind := func(l []gIP) {
			var idle []int
			for k := range l {
				if l[k].pod == 0 && l[k].st == 1 {
					idle = append(idle, k)
				}
			}
			if len(idle) > 0 {
				k := idle[r.Intn(len(idle))]
				l[k].pod, l[k].uid = p, uid
			}
		}
		want4, want6 := on4, on6
		if on4 && on6 && r.Chance(1, 4) { // partially bound
			if r.Chance(1, 2) {
				want4 = false
			} else {
				want6 = false
			}
		}
		if want4 {
			bind(e.v4)
		}
		if want6 {
			if malformed {
				e = &es[r.Intn(len(es))]
			}
			bind(e.v6)
		}
		if malformed && r.Chance(1, 2) {
			bind(es[r.Intn(len(es))].v4)
		}
	}
	b.I(len(es))
	for _, e := range es {
		b.I(e.id, e.st, e.ty, e.mode)
		for _, l := range [][]gIP{e.v4, e.v6} {
			b.I(len(l))
			for _, x := range l {
				b.I(x.a, x.st).Bool(x.prim).I(x.pod, x.uid)
			}
		}
	}
	return es
}

func gen(r *hx.Rand) [][]*big.Int {
	n := hx.N(300)
	var out [][]*big.Int
	prop := os.Getenv("VERIF_PROP")
	for c := 0; c < n; c++ {
		var b hx.B
		if prop == "C08" && c < 2 {
			// the two witnesses of c08_pool_churn_refuted / c08_pool_churn_dual_stack_refuted (coq/IpamLoopProofs.v w1, w2)
			if c == 0 {
				b.I(5, 0, 3, 3, 3, 2, 2, 2, 0, 1, 0, 10)
			} else {
				b.I(5, 1, 3, 2, 2, 2, 2, 1, 0, 2, 0, 10)
			}
			out = append(out, b.L)
			continue
		}
		kind := []int{1, 2, 3, 3}[r.Intn(4)]
		switch prop {
		case "C08":
			kind = []int{1, 1, 2, 4, 5}[r.Intn(5)]
		case "C02":
			kind = []int{3, 3, 2, 4}[r.Intn(4)]
		case "C03":
			kind = []int{3, 2, 4, 4}[r.Intn(4)]
		}
		on4, on6 := true, false
		switch r.Intn(4) {
		case 0:
			on4, on6 = true, true
		case 1:
			on4, on6 = false, true
		}
		switch kind {
		case 1:
			per := 2 + r.Intn(8)
			b.I(1).Bool(on4).Bool(on6).Bool(r.Chance(1, 3)).Bool(r.Chance(1, 4)).I(per, per)
			b.I(r.Intn(4), r.Intn(2), r.Intn(3))
			genCR(r, &b, r.Intn(5), per, 4, on4, on6, true)
			b.I(r.Intn(25), r.Intn(6))
		case 2:
			b.I(2).Bool(on4)
			genCR(r, &b, 1, 6, 3, on4, on6, false)
			b.I(r.Intn(9))
		case 3:
			pods := 1 + r.Intn(5)
			b.I(3).Bool(on4).Bool(on6).Bool(r.Chance(1, 4))
			es := genCR(r, &b, 1+r.Intn(3), 5, pods, on4, on6, false)
			np := r.Intn(pods + 2)
			b.I(np)
			perm := make([]int, pods+3)
			for i := range perm {
				perm[i] = i + 1
			}
			for i := len(perm) - 1; i > 0; i-- {
				j := r.Intn(i + 1)
				perm[i], perm[j] = perm[j], perm[i]
			}
			for i := 0; i < np; i++ {
				p := perm[i]
				// a pod that already runs reports addresses of one interface (both families, or only one);
				// rarely an address the record does not know
				rep4, rep6 := 0, 0
				if r.Chance(1, 3) {
					e := es[r.Intn(len(es))]
					// what the record already binds to the pod is what it reports
					own4, own6 := 0, 0
					for _, x := range es {
						for _, ip := range x.v4 {
							if ip.pod == p {
								e, own4 = x, ip.a
							}
						}
						for _, ip := range x.v6 {
							if ip.pod == p {
								e, own6 = x, ip.a
							}
						}
					}
					if on4 && len(e.v4) > 0 && r.Chance(4, 5) {
						rep4 = e.v4[r.Intn(len(e.v4))].a
						if own4 != 0 {
							rep4 = own4
						}
					}
					if on6 && len(e.v6) > 0 && r.Chance(4, 5) {
						rep6 = e.v6[r.Intn(len(e.v6))].a
						if own6 != 0 {
							rep6 = own6
						}
					}
					if r.Chance(1, 10) && own4 == 0 {
						rep4 = 90 + r.Intn(5)
					}
				}
				b.I(p, p*10+r.Intn(2)).Bool(on4).Bool(on6).Bool(r.Chance(1, 5)).I(rep4, rep6)
			}
			b.Bool(r.Chance(9, 10))
			nrt := r.Intn(6)
			var rts [][2]int
			seen := map[int]bool{}
			for i := 0; i < nrt; i++ {
				p := 1 + r.Intn(pods+2)
				u := p*10 + r.Intn(2)
				if !seen[u] {
					seen[u] = true
					rts = append(rts, [2]int{u, 1 + r.Intn(2)})
				}
			}
			b.I(len(rts))
			for _, x := range rts {
				b.I(x[0], x[1])
			}
		case 4:
			b.L = append(b.L, genHistory(r)...)
		case 5:
			// the pool loop on a node without pods: small limits, min <= max, 0..3 interfaces with distinct address counts
			per := 2 + r.Intn(4)
			mn := r.Intn(4)
			mx := mn + r.Intn(3)
			fs := 1 + r.Intn(3)
			dual := r.Chance(1, 3)
			b.I(5).Bool(dual).I(per, mn, mx, fs)
			ne := r.Intn(fs + 1)
			b.I(ne)
			for i := 0; i < ne; i++ {
				n4 := 1 + (i+r.Intn(2))%per
				n6 := 0
				if dual {
					n6 = r.Intn(per + 1)
				}
				b.I(n4, n6)
			}
			b.I(8 + r.Intn(5))
		}
		out = append(out, b.L)
	}
	return out
}

func TestVerif_Ipam(t *testing.T) {
	historyRunner = func(f func(t *testing.T)) {
		t.Run("history", func(t *testing.T) { synctest.Test(t, f) })
	}
	hx.Run2(t, gen, eval)
}
