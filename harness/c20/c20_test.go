package c20

import (
	"bytes"
	"encoding/json"
	"math/big"
	"reflect"
	"sort"
	"testing"

	"verifharness/hx"

	jsonpatch "github.com/evanphx/json-patch"

	"github.com/AliyunContainerService/terway/types/daemon"
)

func encJSON(b *hx.B, v interface{}) {
	switch x := v.(type) {
	case nil:
		b.I(0)
	case bool:
		b.I(1).Bool(x)
	case json.Number:
		n, ok := new(big.Int).SetString(string(x), 10)
		if !ok {
			n = big.NewInt(-424242)
		}
		b.I(2).Big(n)
	case int:
		b.I(2, x)
	case string:
		b.I(3).Str(x)
	case []interface{}:
		b.I(4, len(x))
		for _, e := range x {
			encJSON(b, e)
		}
	case map[string]interface{}:
		keys := make([]string, 0, len(x))
		for k := range x {
			keys = append(keys, k)
		}
		sort.Strings(keys)
		b.I(5, len(keys))
		for _, k := range keys {
			b.Str(k)
			encJSON(b, x[k])
		}
	}
}

func decJSON(d *hx.D) interface{} {
	switch d.Int() {
	case 0:
		return nil
	case 1:
		return d.Bool()
	case 2:
		return json.Number(d.Big().String())
	case 3:
		return d.Str()
	case 4:
		n := d.Int()
		a := make([]interface{}, 0, n)
		for i := 0; i < n && !d.Bad; i++ {
			a = append(a, decJSON(d))
		}
		return a
	case 5:
		n := d.Int()
		m := map[string]interface{}{}
		for i := 0; i < n && !d.Bad; i++ {
			k := d.Str()
			m[k] = decJSON(d)
		}
		return m
	}
	d.Bad = true
	return nil
}

func parse(b []byte) (interface{}, error) {
	dec := json.NewDecoder(bytes.NewReader(b))
	dec.UseNumber()
	var v interface{}
	err := dec.Decode(&v)
	return v, err
}

func cfgOf(top, base []byte) (*daemon.Config, bool) {
	c, err := daemon.MergeConfigAndUnmarshal(top, base)
	return c, err == nil
}

func eval(in []*big.Int) []*big.Int {
	d := hx.NewD(in)
	if d.Int() != 1 {
		return nil
	}
	baseT, ovT := decJSON(d), decJSON(d)
	if d.Bad {
		return nil
	}
	base, _ := json.Marshal(baseT)
	ov, _ := json.Marshal(ovT)
	var o hx.B
	m1b, err := jsonpatch.MergePatch(base, ov)
	_, okB := baseT.(map[string]interface{})
	_, okO := ovT.(map[string]interface{})
	if err != nil || !okB || !okO {
		return o.I(0).L
	}
	m2b, err := jsonpatch.MergePatch(m1b, ov)
	if err != nil {
		return o.I(0).L
	}
	m1, err1 := parse(m1b)
	m2, err2 := parse(m2b)
	if err1 != nil || err2 != nil {
		return o.I(-7).L
	}
	o.I(1)
	encJSON(&o, m1)
	encJSON(&o, m2)
	// the terway function under test against decode-of-the-merge (and the empty-overlay shortcut)
	got, gotOK := cfgOf(ov, base)
	ref := &daemon.Config{}
	refOK := json.Unmarshal(m1b, ref) == nil
	consistent := gotOK == refOK && (!gotOK || reflect.DeepEqual(got, ref))
	if len(ovT.(map[string]interface{})) == 0 { // an absent overlay ("" in MergeConfigAndUnmarshal) must equal the empty one
		g0, ok0 := cfgOf(nil, base)
		consistent = consistent && ok0 == gotOK && (!ok0 || reflect.DeepEqual(g0, got))
	}
	again, againOK := cfgOf(ov, m1b)
	idem := againOK == gotOK && (!gotOK || reflect.DeepEqual(again, got))
	o.Bool(consistent).Bool(idem)
	return o.L
}

var cfgKeys = []string{"version", "max_pool_size", "min_pool_size", "vswitches", "security_groups", "eni_tags", "ip_stack", "enable_eni_trunking", "security_group", "x", "y"}

func scalar(r *hx.Rand) interface{} {
	switch r.Intn(5) {
	case 0:
		return r.Range(-3, 40)
	case 1:
		return []string{"a", "b", "ipv4", "dual", "", "sg-1", "vsw-1"}[r.Intn(7)]
	case 2:
		return r.Bool()
	case 3:
		return nil
	}
	return r.Range(0, 9)
}

func strArr(r *hx.Rand) interface{} {
	n := r.Intn(4)
	a := make([]interface{}, n)
	for i := range a {
		a[i] = []string{"vsw-1", "vsw-2", "sg-1", "sg-2", "x"}[r.Intn(5)]
		if r.Chance(1, 8) {
			a[i] = nil
		}
	}
	return a
}

func genVal(r *hx.Rand, key string, depth int, overlay bool) interface{} {
	if overlay && r.Chance(1, 5) {
		return nil
	}
	if r.Chance(1, 8) && depth < 3 { // anything at all, including arrays of objects
		switch r.Intn(3) {
		case 0:
			return genObj(r, depth+1, overlay, []string{"a", "b", "c", "x"})
		case 1:
			n := r.Intn(3)
			a := make([]interface{}, n)
			for i := range a {
				if r.Bool() {
					a[i] = genObj(r, depth+1, overlay, []string{"a", "b", "x"})
				} else {
					a[i] = scalar(r)
				}
			}
			return a
		}
		return scalar(r)
	}
	switch key {
	case "max_pool_size", "min_pool_size":
		return r.Range(0, 30)
	case "vswitches":
		m := map[string]interface{}{}
		for i := r.Intn(3); i > 0; i-- {
			z := []string{"z1", "z2", "z3"}[r.Intn(3)]
			if overlay && r.Chance(1, 3) {
				m[z] = nil
			} else {
				m[z] = strArr(r)
			}
		}
		return m
	case "eni_tags":
		m := map[string]interface{}{}
		for i := r.Intn(3); i > 0; i-- {
			k := []string{"k1", "k2", "k3"}[r.Intn(3)]
			if overlay && r.Chance(1, 3) {
				m[k] = nil
			} else {
				m[k] = []string{"v1", "v2"}[r.Intn(2)]
			}
		}
		return m
	case "security_groups":
		return strArr(r)
	case "enable_eni_trunking":
		return r.Bool()
	case "version", "ip_stack", "security_group":
		return []string{"1", "ipv4", "dual", "sg-9", ""}[r.Intn(5)]
	}
	return scalar(r)
}

func genObj(r *hx.Rand, depth int, overlay bool, keys []string) map[string]interface{} {
	m := map[string]interface{}{}
	for i := r.Intn(len(keys) + 1); i > 0; i-- {
		k := keys[r.Intn(len(keys))]
		m[k] = genVal(r, k, depth, overlay)
	}
	return m
}

func gen(r *hx.Rand) [][]*big.Int {
	var cs [][]*big.Int
	n := hx.N(1500)
	for c := 0; c < n; c++ {
		rr := r.Fork()
		base := genObj(rr, 0, false, cfgKeys)
		ov := genObj(rr, 0, true, cfgKeys)
		if rr.Chance(1, 12) {
			ov = map[string]interface{}{}
		}
		var b hx.B
		b.I(1)
		encJSON(&b, base)
		encJSON(&b, ov)
		cs = append(cs, b.L)
	}
	return cs
}

func TestVerif_C20(t *testing.T) { hx.Run(t, gen, eval) }
