// Package dp: correspondence harness for the pod datapaths (plugin/datapath): the declarative per-link
// configuration generators of all four datapaths, and setup / teardown sequences of the policy-route veth
// datapath applied for real in private network namespaces (veth pairs stand in for ENIs), with the kernel's
// rule / route / link dumps and FIB lookups after every operation. Property C13.
package dp

import (
	"context"
	"fmt"
	"math/big"
	"net"
	"os"
	"runtime"
	"sort"
	"testing"

	cniTypes "github.com/containernetworking/cni/pkg/types"
	"github.com/containernetworking/plugins/pkg/ns"
	"github.com/containernetworking/plugins/pkg/testutils"
	"github.com/vishvananda/netlink"
	"golang.org/x/sys/unix"

	"verifharness/hx"

	"github.com/AliyunContainerService/terway/plugin/datapath"
	"github.com/AliyunContainerService/terway/plugin/driver/nic"
	"github.com/AliyunContainerService/terway/plugin/driver/types"
	"github.com/AliyunContainerService/terway/plugin/driver/utils"
	terwayTypes "github.com/AliyunContainerService/terway/types"
)

// ---- addresses as integers: family 0 none, 4, 6; value = the low bits (10.10.x.y -> x*256+y, fd00::n -> n),
//      169.254.1.1 and fe80::1 (the link-local next hops) -> -1, anything else -> -2 -------------------------

func ip4(n int) net.IP { return net.IPv4(10, 10, byte(n>>8), byte(n)) }
func ip6(n int) net.IP {
	ip := net.ParseIP("fd00::")
	ip[14], ip[15] = byte(n>>8), byte(n)
	return ip
}

func encIP(b *hx.B, ip net.IP) {
	if ip == nil {
		b.I(0, 0)
		return
	}
	if v4 := ip.To4(); v4 != nil {
		switch {
		case v4.Equal(net.IPv4(169, 254, 1, 1)):
			b.I(4, -1)
		case v4[0] == 10 && v4[1] == 10:
			b.I(4, int(v4[2])<<8|int(v4[3]))
		case v4.Equal(net.IPv4zero):
			b.I(4, 0)
		default:
			b.I(4, -2)
		}
		return
	}
	switch {
	case ip.Equal(net.ParseIP("fe80::1")):
		b.I(6, -1)
	case ip[0] == 0xfd && ip[1] == 0:
		b.I(6, int(ip[14])<<8|int(ip[15]))
	case ip.Equal(net.IPv6zero):
		b.I(6, 0)
	default:
		b.I(6, -2)
	}
}

func encNet(b *hx.B, n *net.IPNet) {
	if n == nil {
		b.I(0, 0, 0)
		return
	}
	encIP(b, n.IP)
	ones, _ := n.Mask.Size()
	b.I(ones)
}

// Conf: naddr (fam ip len)* nroute (table fam dst len gwfam gw dev scope onlink)* nrule (prio srcfam src srclen dstfam dst dstlen oif table)* nneigh (fam ip dev)*
func encConf(b *hx.B, c *nic.Conf) {
	if c == nil {
		b.I(0, 0, 0, 0)
		return
	}
	b.I(len(c.Addrs))
	for _, a := range c.Addrs {
		encNet(b, a.IPNet)
	}
	b.I(len(c.Routes))
	for _, r := range c.Routes {
		b.I(r.Table)
		encNet(b, r.Dst)
		encIP(b, r.Gw)
		b.I(r.LinkIndex, int(r.Scope)).Bool(r.Flags&int(netlink.FLAG_ONLINK) != 0)
	}
	b.I(len(c.Rules))
	for _, r := range c.Rules {
		b.I(r.Priority)
		encNet(b, r.Src)
		encNet(b, r.Dst)
		b.Bool(r.OifName != "").I(r.Table)
	}
	b.I(len(c.Neighs))
	for _, n := range c.Neighs {
		encIP(b, n.IP)
		b.I(n.LinkIndex)
	}
}

// ---- kind 1: the generators --------------------------------------------------------------------------------
// input: 1 dp on4 on6 defaultRoute multiNetwork stripVlan nextra (extra route kinds..) ip gw enigw linkIndex vethIndex eniIndex

func mkCfg(d *hx.D) (*types.SetupConfig, int, int, int, int) {
	dp := d.Int()
	on4, on6, def, multi, strip := d.Bool(), d.Bool(), d.Bool(), d.Bool(), d.Bool()
	nx := d.Int()
	cfg := &types.SetupConfig{HostVETHName: "cali1", ContainerIfName: "eth0", MTU: 1500, DefaultRoute: def, MultiNetwork: multi, StripVlan: strip, Vid: 7,
		ContainerIPNet: &terwayTypes.IPNetSet{}, GatewayIP: &terwayTypes.IPSet{}, ENIGatewayIP: &terwayTypes.IPSet{}, HostIPSet: &terwayTypes.IPNetSet{},
		ServiceCIDR: &terwayTypes.IPNetSet{}}
	for i := 0; i < nx; i++ {
		k := d.Int()
		r := cniTypes.Route{}
		switch k {
		case 0:
			r.Dst = net.IPNet{IP: ip4(0x2000), Mask: net.CIDRMask(24, 32)}
		case 1:
			r.Dst = net.IPNet{IP: ip4(0x3000), Mask: net.CIDRMask(24, 32)}
			r.GW = ip4(0x00fd)
		default:
			r.Dst = net.IPNet{IP: ip6(0x3000), Mask: net.CIDRMask(120, 128)}
		}
		cfg.ExtraRoutes = append(cfg.ExtraRoutes, r)
	}
	ip, gw, egw := d.Int(), d.Int(), d.Int()
	if on4 {
		cfg.ContainerIPNet.IPv4 = &net.IPNet{IP: ip4(ip), Mask: net.CIDRMask(24, 32)}
		cfg.GatewayIP.IPv4 = ip4(gw)
		cfg.ENIGatewayIP.IPv4 = ip4(egw)
		cfg.HostIPSet.IPv4 = &net.IPNet{IP: ip4(0x0101), Mask: net.CIDRMask(24, 32)}
		cfg.ServiceCIDR.IPv4 = &net.IPNet{IP: ip4(0x4000), Mask: net.CIDRMask(20, 32)}
	}
	if on6 {
		cfg.ContainerIPNet.IPv6 = &net.IPNet{IP: ip6(ip), Mask: net.CIDRMask(64, 128)}
		cfg.GatewayIP.IPv6 = ip6(gw)
		cfg.ENIGatewayIP.IPv6 = ip6(egw)
		cfg.HostIPSet.IPv6 = &net.IPNet{IP: ip6(0x0101), Mask: net.CIDRMask(64, 128)}
		cfg.ServiceCIDR.IPv6 = &net.IPNet{IP: ip6(0x4000), Mask: net.CIDRMask(112, 128)}
	}
	li, vi, ei := d.Int(), d.Int(), d.Int()
	return cfg, dp, li, vi, ei
}

func evalGen(in []*big.Int) ([]*big.Int, []*big.Int) {
	d := hx.NewD(in)
	d.Int()
	cfg, dp, li, vi, ei := mkCfg(d)
	if d.Bad || dp < 0 || dp > 3 {
		return in, nil
	}
	var o hx.B
	func() {
		defer func() {
			if r := recover(); r != nil {
				o.L = nil
				o.I(-998)
			}
		}()
		mac, _ := net.ParseMAC("02:00:00:00:00:01")
		encConf(&o, datapath.VerifContCfg(dp, cfg, li, mac))
		if dp == 0 {
			h, e := datapath.VerifHostCfg(cfg, vi, ei, utils.GetRouteTableID(ei))
			encConf(&o, h)
			encConf(&o, e)
		}
	}()
	return in, o.L
}

// ---- kind 2: sequences in private network namespaces ---------------------------------------------------------
// input: 2 nops (op slot addr eni fam mode)*
//   op 1 setup slot with address addr on eni (fam 1 v4, 2 v6, 3 dual) | 2 teardown slot (mode 0 real ENI index, 1 index 0, 2 index of a vanished ENI)
//      3 the sandbox of slot is destroyed without a DEL (host veth vanishes) | 4 ENI vanishes | 5 ENI comes back (new index)
//      6 the pod of slot is forgotten without any teardown: veth, routes and rules stay, its address may be handed out again
// output per op: 99 op slot addr fam eni err nrules (prio fam srcaddr dstaddr tbl)* nveth (slot)* nmain (fam addr dev)* ntab (tbl fam gw dev)*
//                nlook (slot addr fam eni todev fromdev fromgw)* ncont (slot fam def4 def6 n4 n6)*
//   dev: 100+slot host veth, 200+eni ENI, 0 nothing, -1 something else; tbl: 0 main, eni*10+generation otherwise

type world struct {
	host     ns.NetNS
	cont     map[int]ns.NetNS
	eniIdx   map[int]int    // eni -> current ifindex (0 = vanished)
	eniGen   map[int]int    // eni -> generation
	idxOwner map[int][2]int // ifindex -> (eni, generation)
	slotAddr map[int]int
	slotFam  map[int]int
	slotENI  map[int]int
	slotGen  map[int]int
	lastGone int
}

func (w *world) addENI(j int) error {
	name := fmt.Sprintf("eni%d", j)
	if err := netlink.LinkAdd(&netlink.Veth{LinkAttrs: netlink.LinkAttrs{Name: name}, PeerName: name + "p"}); err != nil {
		return err
	}
	peer, err := netlink.LinkByName(name + "p")
	if err != nil {
		return err
	}
	_ = netlink.LinkSetUp(peer)
	l, err := netlink.LinkByName(name)
	if err != nil {
		return err
	}
	_ = netlink.LinkSetUp(l)
	w.eniGen[j]++
	w.eniIdx[j] = l.Attrs().Index
	w.idxOwner[l.Attrs().Index] = [2]int{j, w.eniGen[j]}
	return nil
}

func (w *world) dev(idx int) int {
	if idx == 0 {
		return 0
	}
	if l, err := netlink.LinkByIndex(idx); err == nil {
		var s int
		if _, err := fmt.Sscanf(l.Attrs().Name, "calip%d", &s); err == nil {
			return 100 + s
		}
	}
	if o, ok := w.idxOwner[idx]; ok {
		return 200 + o[0]
	}
	return -1
}

func (w *world) tbl(t int) int {
	if t == unix.RT_TABLE_MAIN || t == 0 {
		return 0
	}
	if o, ok := w.idxOwner[t-1000]; ok {
		return o[0]*10 + o[1]
	}
	return -1
}

func addrNum(ip net.IP) int {
	var b hx.B
	encIP(&b, ip)
	return int(b.L[1].Int64())
}

func (w *world) dump(o *hx.B, op, slot, addr, fam, eni int, err error) {
	e := 0
	if err != nil {
		e = 1
	}
	o.I(99, op, slot, addr, fam, eni, e)
	type rr struct{ prio, fam, src, dst, tbl int }
	var rs []rr
	for _, fam := range []int{netlink.FAMILY_V4, netlink.FAMILY_V6} {
		rules, _ := netlink.RuleList(fam)
		for _, r := range rules {
			if r.Priority != datapath.VerifToContainerPriority && r.Priority != datapath.VerifFromContainerPriority {
				continue
			}
			f := 4
			if fam == netlink.FAMILY_V6 {
				f = 6
			}
			x := rr{prio: r.Priority, fam: f, tbl: w.tbl(r.Table)}
			if r.Src != nil {
				x.src = addrNum(r.Src.IP)
			}
			if r.Dst != nil {
				x.dst = addrNum(r.Dst.IP)
			}
			rs = append(rs, x)
		}
	}
	sort.Slice(rs, func(i, j int) bool { return fmt.Sprint(rs[i]) < fmt.Sprint(rs[j]) })
	o.I(len(rs))
	for _, x := range rs {
		o.I(x.prio, x.fam, x.src, x.dst, x.tbl)
	}
	links, _ := netlink.LinkList()
	var veths []int
	for _, l := range links {
		var s int
		if _, err := fmt.Sscanf(l.Attrs().Name, "calip%d", &s); err == nil {
			veths = append(veths, s)
		}
	}
	sort.Ints(veths)
	o.Ints(veths)
	// routes to pod addresses in the main table, default routes in the per-ENI tables
	type mr struct{ fam, addr, dev int }
	var ms []mr
	type tr struct{ tbl, fam, gw, dev int }
	var ts []tr
	for _, fam := range []int{netlink.FAMILY_V4, netlink.FAMILY_V6} {
		f := 4
		if fam == netlink.FAMILY_V6 {
			f = 6
		}
		routes, _ := netlink.RouteListFiltered(fam, &netlink.Route{Table: unix.RT_TABLE_UNSPEC}, netlink.RT_FILTER_TABLE)
		for _, r := range routes {
			if r.Table == unix.RT_TABLE_MAIN && r.Dst != nil {
				ones, bits := r.Dst.Mask.Size()
				if ones == bits && addrNum(r.Dst.IP) > 0 {
					ms = append(ms, mr{f, addrNum(r.Dst.IP), w.dev(r.LinkIndex)})
				}
			}
			if r.Table >= 1000 && r.Table < 1000+1<<20 {
				ones := 1
				if r.Dst != nil {
					ones, _ = r.Dst.Mask.Size()
				}
				if r.Dst == nil || ones == 0 {
					ts = append(ts, tr{w.tbl(r.Table), f, addrNum(r.Gw), w.dev(r.LinkIndex)})
				}
			}
		}
	}
	sort.Slice(ms, func(i, j int) bool { return fmt.Sprint(ms[i]) < fmt.Sprint(ms[j]) })
	sort.Slice(ts, func(i, j int) bool { return fmt.Sprint(ts[i]) < fmt.Sprint(ts[j]) })
	o.I(len(ms))
	for _, x := range ms {
		o.I(x.fam, x.addr, x.dev)
	}
	o.I(len(ts))
	for _, x := range ts {
		o.I(x.tbl, x.fam, x.gw, x.dev)
	}
	// FIB lookups for every slot that is set up
	var slots []int
	for s := range w.slotAddr {
		slots = append(slots, s)
	}
	sort.Ints(slots)
	var looks [][]int
	for _, s := range slots {
		for _, f := range []int{4, 6} {
			if (f == 4 && w.slotFam[s]&1 == 0) || (f == 6 && w.slotFam[s]&2 == 0) {
				continue
			}
			ip, ext := ip4(w.slotAddr[s]), net.ParseIP("8.8.8.8")
			if f == 6 {
				ip, ext = ip6(w.slotAddr[s]), net.ParseIP("2001:db8::1")
			}
			to, from, gw := 0, 0, 0
			if rt, err := netlink.RouteGet(ip); err == nil && len(rt) == 1 {
				to = w.dev(rt[0].LinkIndex)
			}
			if rt, err := netlink.RouteGetWithOptions(ext, &netlink.RouteGetOptions{SrcAddr: ip, Iif: fmt.Sprintf("calip%d", s)}); err == nil && len(rt) == 1 {
				from = w.dev(rt[0].LinkIndex)
				gw = addrNum(rt[0].Gw)
			}
			ej := w.slotENI[s]
			if w.eniIdx[ej] == 0 || w.idxOwner[w.eniIdx[ej]] != [2]int{ej, w.slotGen[s]} {
				ej = 0 // the interface the pod was set up on is gone
			}
			looks = append(looks, []int{s, w.slotAddr[s], f, ej, to, from, gw})
		}
	}
	o.I(len(looks))
	for _, l := range looks {
		o.I(l...)
	}
	// the container side
	o.I(len(slots))
	for _, s := range slots {
		d4, d6, n4, n6 := 0, 0, 0, 0
		_ = w.cont[s].Do(func(ns.NetNS) error {
			for _, fam := range []int{netlink.FAMILY_V4, netlink.FAMILY_V6} {
				routes, _ := netlink.RouteList(nil, fam)
				for _, r := range routes {
					isDef := r.Dst == nil
					if r.Dst != nil {
						ones, _ := r.Dst.Mask.Size()
						isDef = ones == 0
					}
					if isDef && fam == netlink.FAMILY_V4 {
						d4++
					}
					if isDef && fam == netlink.FAMILY_V6 {
						d6++
					}
				}
			}
			if l, err := netlink.LinkByName("eth0"); err == nil {
				a4, _ := netlink.AddrList(l, netlink.FAMILY_V4)
				n4 = len(a4)
				a6, _ := netlink.AddrList(l, netlink.FAMILY_V6)
				for _, a := range a6 {
					if !a.IP.IsLinkLocalUnicast() {
						n6++
					}
				}
			}
			return nil
		})
		o.I(s, w.slotFam[s], d4, d6, n4, n6)
	}
}

func evalSeq(in []*big.Int) ([]*big.Int, []*big.Int) {
	d := hx.NewD(in)
	d.Int()
	n := d.Int()
	var ops [][]int
	for i := 0; i < n; i++ {
		ops = append(ops, []int{d.Int(), d.Int(), d.Int(), d.Int(), d.Int(), d.Int()})
	}
	if d.Bad {
		return in, nil
	}
	var o hx.B
	done := make(chan struct{})
	go func() {
		defer close(done)
		runtime.LockOSThread() // never unlocked: the thread dies with its namespace
		host, err := testutils.NewNS()
		if err != nil {
			o.I(-997)
			return
		}
		defer func() { _ = host.Close(); _ = testutils.UnmountNS(host) }()
		w := &world{host: host, cont: map[int]ns.NetNS{}, eniIdx: map[int]int{}, eniGen: map[int]int{}, idxOwner: map[int][2]int{},
			slotAddr: map[int]int{}, slotFam: map[int]int{}, slotENI: map[int]int{}, slotGen: map[int]int{}}
		for s := 1; s <= 3; s++ {
			c, err := testutils.NewNS()
			if err != nil {
				o.I(-997)
				return
			}
			w.cont[s] = c
			defer func() { _ = c.Close(); _ = testutils.UnmountNS(c) }()
		}
		if err := host.Set(); err != nil {
			o.I(-997)
			return
		}
		if lo, err := netlink.LinkByName("lo"); err == nil {
			_ = netlink.LinkSetUp(lo)
		}
		for _, f := range []string{"/proc/sys/net/ipv4/conf/all/forwarding", "/proc/sys/net/ipv6/conf/all/forwarding"} {
			_ = os.WriteFile(f, []byte("1"), 0644)
		}
		for _, f := range []string{"/proc/sys/net/ipv4/conf/all/rp_filter", "/proc/sys/net/ipv4/conf/default/rp_filter", "/proc/sys/net/ipv6/conf/all/disable_ipv6", "/proc/sys/net/ipv6/conf/default/disable_ipv6"} {
			_ = os.WriteFile(f, []byte("0"), 0644)
		}
		for j := 1; j <= 2; j++ {
			if err := w.addENI(j); err != nil {
				o.I(-997)
				return
			}
		}
		drv := datapath.NewPolicyRoute()
		ctx := context.Background()
		ipset := func(a, fam int) *terwayTypes.IPNetSet {
			s := &terwayTypes.IPNetSet{}
			if fam&1 != 0 {
				s.IPv4 = &net.IPNet{IP: ip4(a), Mask: net.CIDRMask(24, 32)}
			}
			if fam&2 != 0 {
				s.IPv6 = &net.IPNet{IP: ip6(a), Mask: net.CIDRMask(64, 128)}
			}
			return s
		}
		for _, op := range ops {
			k, s, a, j, fam, mode := op[0], op[1], op[2], op[3], op[4], op[5]
			var err error
			ha, hf, hj := a, fam, j
			if k == 2 || k == 3 || k == 6 {
				ha, hf, hj = w.slotAddr[s], w.slotFam[s], w.slotENI[s]
			}
			switch k {
			case 1:
				if w.eniIdx[j] == 0 {
					err = fmt.Errorf("eni gone")
					break
				}
				gw := &terwayTypes.IPSet{}
				if fam&1 != 0 {
					gw.IPv4 = ip4(j<<8 | 253)
				}
				if fam&2 != 0 {
					gw.IPv6 = ip6(j<<8 | 253)
				}
				cfg := &types.SetupConfig{HostVETHName: fmt.Sprintf("calip%d", s), ContainerIfName: "eth0", ContainerIPNet: ipset(a, fam), GatewayIP: gw,
					MTU: 1500, ENIIndex: w.eniIdx[j], DefaultRoute: true}
				err = drv.Setup(ctx, cfg, w.cont[s])
				if err == nil {
					w.slotAddr[s], w.slotFam[s], w.slotENI[s], w.slotGen[s] = a, fam, j, w.eniGen[j]
				}
			case 2:
				a2, f2 := w.slotAddr[s], w.slotFam[s]
				if a2 == 0 {
					a2, f2 = a, fam
				}
				idx := w.eniIdx[w.slotENI[s]]
				switch mode {
				case 1:
					idx = 0
				case 2:
					if w.lastGone != 0 {
						idx = w.lastGone
					}
				}
				err = drv.Teardown(ctx, &types.TeardownCfg{HostVETHName: fmt.Sprintf("calip%d", s), ContainerIfName: "eth0", ContainerIPNet: ipset(a2, f2), ENIIndex: idx}, w.cont[s])
				if err == nil {
					_ = w.cont[s].Do(func(ns.NetNS) error {
						if l, e := netlink.LinkByName("eth0"); e == nil {
							_ = netlink.LinkDel(l)
						}
						return nil
					})
					delete(w.slotAddr, s)
					delete(w.slotFam, s)
					delete(w.slotENI, s)
				}
			case 3:
				err = utils.DelLinkByName(ctx, fmt.Sprintf("calip%d", s))
				delete(w.slotAddr, s)
				delete(w.slotFam, s)
				delete(w.slotENI, s)
			case 6:
				// the pod is forgotten without any teardown (no DEL ever arrives, the address is reclaimed by the control plane):
				// its host veth, routes and rules stay behind
				delete(w.slotAddr, s)
				delete(w.slotFam, s)
				delete(w.slotENI, s)
			case 4:
				if w.eniIdx[j] != 0 {
					if l, e := netlink.LinkByIndex(w.eniIdx[j]); e == nil {
						err = netlink.LinkDel(l)
					}
					w.lastGone = w.eniIdx[j]
					w.eniIdx[j] = 0
				}
			case 5:
				if w.eniIdx[j] == 0 {
					err = w.addENI(j)
				}
			}
			w.dump(&o, k, s, ha, hf, hj, err)
		}
	}()
	<-done
	return in, o.L
}

// annotate appends what the implementation produced to the input (the model follows the observed operations)
func annotate(in, out []*big.Int) []*big.Int {
	var a hx.B
	a.L = append(a.L, in...)
	a.I(-555)
	a.L = append(a.L, big.NewInt(int64(len(out))))
	a.L = append(a.L, out...)
	return a.L
}

func eval(in []*big.Int) ([]*big.Int, []*big.Int) {
	if len(in) < 2 {
		return in, nil
	}
	switch in[0].Int64() {
	case 1:
		i, o := evalGen(in)
		if in[1].Int64() != 0 {
			return annotate(i, o), o
		}
		return i, o
	case 2:
		i, o := evalSeq(in)
		return annotate(i, o), o
	}
	return in, nil
}

// ---- generator ------------------------------------------------------------------------------------------------

func gen(r *hx.Rand) [][]*big.Int {
	n := hx.N(200)
	var out [][]*big.Int
	for c := 0; c < n; c++ {
		var b hx.B
		if r.Chance(2, 3) {
			on4, on6 := true, false
			switch r.Intn(3) {
			case 0:
				on4, on6 = true, true
			case 1:
				on4, on6 = false, true
			}
			b.I(1, r.Intn(4)).Bool(on4).Bool(on6).Bool(r.Chance(3, 4)).Bool(r.Chance(1, 4)).Bool(r.Chance(1, 5))
			nx := r.Intn(3)
			b.I(nx)
			for i := 0; i < nx; i++ {
				// extra routes belong to an enabled family
				k := r.Intn(3)
				if !on4 {
					k = 2
				} else if !on6 && k == 2 {
					k = r.Intn(2)
				}
				b.I(k)
			}
			b.I(1+r.Intn(60000), 1+r.Intn(60000), 1+r.Intn(60000), 2+r.Intn(50), 60+r.Intn(50), 120+r.Intn(50))
		} else {
			var ops [][]int
			setup := map[int]bool{}
			dead := map[int]bool{} // slots whose pod was forgotten: their network namespace still holds the old interface, a new pod gets a new one
			held := map[int]int{}  // address -> live slot
			k := 4 + r.Intn(10)
			for i := 0; i < k; i++ {
				s := 1 + r.Intn(3)
				x := r.Intn(100)
				switch {
				case x < 45:
					if !setup[s] && !dead[s] {
						a := 11 + r.Intn(3)
						if held[a] != 0 {
							break // addresses of live pods are unique
						}
						ops = append(ops, []int{1, s, a, 1 + r.Intn(2), []int{1, 1, 3, 2}[r.Intn(4)], 0})
						setup[s] = true
						held[a] = s
					}
				case x < 70:
					if setup[s] {
						ops = append(ops, []int{2, s, 0, 0, 0, []int{0, 0, 0, 1, 2}[r.Intn(5)]})
						setup[s] = false
						for a, t := range held {
							if t == s {
								delete(held, a)
							}
						}
					}
				case x < 82:
					if setup[s] {
						ops = append(ops, []int{3, s, 0, 0, 0, 0})
						setup[s] = false
						lost := 0
						for a, t := range held {
							if t == s {
								delete(held, a)
								lost = a
							}
						}
						// the address of the lost sandbox is handed out again, to another pod, maybe on another interface
						if lost != 0 && r.Chance(1, 2) {
							s2 := 1 + (s+r.Intn(2))%3
							if !setup[s2] && !dead[s2] {
								ops = append(ops, []int{1, s2, lost, 1 + r.Intn(2), []int{1, 3, 2}[r.Intn(3)], 0})
								setup[s2] = true
								held[lost] = s2
							}
						}
					}
				case x < 88:
					if setup[s] {
						ops = append(ops, []int{6, s, 0, 0, 0, 0})
						setup[s] = false
						dead[s] = true
						lost := 0
						for a, t := range held {
							if t == s {
								delete(held, a)
								lost = a
							}
						}
						if lost != 0 && r.Chance(2, 3) {
							s2 := 1 + (s+r.Intn(2))%3
							if !setup[s2] && !dead[s2] {
								ops = append(ops, []int{1, s2, lost, 1 + r.Intn(2), []int{1, 3, 2}[r.Intn(3)], 0})
								setup[s2] = true
								held[lost] = s2
							}
						}
					}
				case x < 94:
					ops = append(ops, []int{4, 0, 0, 1 + r.Intn(2), 0, 0})
				default:
					ops = append(ops, []int{5, 0, 0, 1 + r.Intn(2), 0, 0})
				}
			}
			b.I(2, len(ops))
			for _, op := range ops {
				b.I(op...)
			}
		}
		out = append(out, b.L)
	}
	return out
}

func TestVerif_DP(t *testing.T) {
	if os.Geteuid() != 0 {
		t.Skip("needs root for network namespaces")
	}
	hx.Run2(t, gen, eval)
}
