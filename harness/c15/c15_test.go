package c15

import (
	"context"
	"encoding/json"
	"math/big"
	"strconv"
	"strings"
	"testing"

	"verifharness/hx"

	admissionv1 "k8s.io/api/admission/v1"
	corev1 "k8s.io/api/core/v1"
	metav1 "k8s.io/apimachinery/pkg/apis/meta/v1"
	"k8s.io/apimachinery/pkg/runtime"
	"k8s.io/apimachinery/pkg/util/sets"
	"k8s.io/utils/ptr"
	"sigs.k8s.io/controller-runtime/pkg/client"
	"sigs.k8s.io/controller-runtime/pkg/client/fake"
	"sigs.k8s.io/controller-runtime/pkg/webhook/admission"

	podeni "github.com/AliyunContainerService/terway/pkg/controller/pod-eni"
	"github.com/AliyunContainerService/terway/pkg/controller/webhook"
	"github.com/AliyunContainerService/terway/pkg/k8s"
	"github.com/AliyunContainerService/terway/types"
	"github.com/AliyunContainerService/terway/types/controlplane"
	"github.com/AliyunContainerService/terway/types/daemon"
)

func isASCII(s string) bool {
	for i := 0; i < len(s); i++ {
		if s[i] >= 128 {
			return false
		}
	}
	return true
}

func bw(o *hx.B, exact bool, s string) {
	v, err := k8s.VerifParseBandwidth(s)
	switch {
	case !isASCII(s):
		o.I(2)
	case err != nil:
		o.I(1)
	case exact:
		o.I(0).U64(v)
	default:
		o.I(0)
	}
}

func eval(in []*big.Int) []*big.Int {
	d := hx.NewD(in)
	var o hx.B
	switch d.Int() {
	case 1:
		exact := d.Bool()
		bw(&o, exact, d.Str())
	case 9:
		s := d.Str()
		for _, u := range []string{"", "K", "M", "G", "T"} {
			bw(&o, true, s+u)
		}
	case 2: // daemon: pod -> PodInfo with every user-writable annotation
		pod := &corev1.Pod{ObjectMeta: metav1.ObjectMeta{Name: "p", Namespace: "ns", Annotations: map[string]string{
			"k8s.aliyun.com/ingress-bandwidth": d.Str(), "k8s.aliyun.com/egress-bandwidth": d.Str(),
			types.NetworkPriority: d.Str(), types.PodENI: d.Str(), types.PodIPReservation: d.Str(),
			"kubernetes.io/ingress-bandwidth": d.Str(), "kubernetes.io/egress-bandwidth": d.Str()}}}
		mode := daemon.ModeENIMultiIP
		if d.Bool() {
			mode = daemon.ModeENIOnly
		}
		_ = k8s.VerifConvertPod(mode, d.Bool(), sets.New[string]("statefulset"), pod)
		o.I(2)
	case 3: // controllers / webhook: pod-networks JSON annotations
		s := d.Str()
		pod := &corev1.Pod{ObjectMeta: metav1.ObjectMeta{Annotations: map[string]string{types.PodNetworks: s, types.PodNetworksRequest: s}}}
		_, _ = controlplane.ParsePodNetworksFromAnnotation(pod)
		_, _ = controlplane.ParsePodNetworksFromRequest(pod.Annotations)
		o.I(2)
	case 4: // PodENI controller: NUMA hints
		_ = podeni.VerifPodNumaHints(map[string]string{"cpuSet": d.Str()})
		o.I(2)
	case 5: // ConfigMap content (cluster config + node overlay)
		top, base := d.Str(), d.Str()
		cfg, err := daemon.MergeConfigAndUnmarshal([]byte(top), []byte(base))
		if err == nil { // as the callers do (LoadGlobalConfig, ConfigFromConfigMap): no nil check
			cfg.Populate()
			_ = cfg.Validate()
			_ = cfg.GetSecurityGroups()
			_ = cfg.GetVSwitchIDs()
		}
		o.I(2)
	case 7: // the admission webhook on a pod that carries the pod-networks annotation
		s, crd := d.Str(), d.Bool()
		webhookOn(s, crd)
		o.I(2)
	case 6: // stored record
		_, _ = k8s.VerifDeserialize([]byte(d.Str()))
		o.I(2)
	default:
		return nil
	}
	if d.Bad {
		return nil
	}
	return o.L
}

var webhookObjs = []client.Object{
	&corev1.Namespace{ObjectMeta: metav1.ObjectMeta{Name: "ns"}},
	&corev1.ConfigMap{ObjectMeta: metav1.ObjectMeta{Name: "eni-config", Namespace: "kube-system"},
		Data: map[string]string{"eni_conf": `{"version":"1","security_groups":["sg-1"],"vswitches":{"cn-a":["vsw-1"]}}`}},
}

func webhookOn(anno string, crd bool) {
	pod := &corev1.Pod{TypeMeta: metav1.TypeMeta{Kind: "Pod", APIVersion: "v1"},
		ObjectMeta: metav1.ObjectMeta{Name: "p", Namespace: "ns", Annotations: map[string]string{types.PodNetworks: anno, types.PodENI: "true"}},
		Spec:       corev1.PodSpec{Containers: []corev1.Container{{Name: "c", Image: "i"}}}}
	raw, _ := json.Marshal(pod)
	cl := fake.NewClientBuilder().WithScheme(types.Scheme).WithObjects(webhookObjs...).Build()
	cfg := &controlplane.Config{EnableTrunk: ptr.To(true), EnableWebhookInjectResource: ptr.To(true), IPAMType: "default"}
	if crd {
		cfg.IPAMType = types.IPAMTypeCRD
	}
	req := &admission.Request{AdmissionRequest: admissionv1.AdmissionRequest{Kind: metav1.GroupVersionKind{Kind: "Pod", Version: "v1"}, Namespace: "ns", Name: "p",
		Object: runtime.RawExtension{Raw: raw}}}
	_ = webhook.VerifPodWebhook(context.Background(), req, cl, cfg)
}

var units = []string{"", "", "K", "M", "G", "T", "B", "KB", "MB", "GB", "TB", "KiB", "MiB", "GiB", "TiB", "k", "m", "g", "t", "kb", "Kb", "mib", "b",
	"X", "KK", "BK", "P", "E", "Ki", "bit", "bps", "Mbps"}
var spaces = []string{"", "", "", " ", "  ", "\t", "\n", " \t ", "\v", "\f", "\r"}

func digits(r *hx.Rand, lo, hi int) string {
	n := r.Range(lo, hi)
	var sb strings.Builder
	for i := 0; i < n; i++ {
		sb.WriteByte(byte('0' + r.Intn(10)))
	}
	return sb.String()
}

// well-formed (mostly): [space][sign]int[.frac][space?]unit[space]; returns the string and whether value comparison is exact-safe
func wellFormed(r *hx.Rand) (string, bool) {
	ip := digits(r, 0, 9)
	fp := ""
	dot := false
	if r.Chance(2, 5) {
		dot = true
		fp = digits(r, 0, 3)
	}
	if r.Chance(1, 6) {
		ip = strings.TrimLeft(ip, "0")
	}
	sign := []string{"", "", "", "", "+", "-"}[r.Intn(6)]
	num := sign + ip
	if dot {
		num += "." + fp
	}
	mid := ""
	if r.Chance(1, 10) {
		mid = " " // a space between number and unit makes ParseFloat fail: still must agree
	}
	unit := units[r.Intn(len(units))]
	s := spaces[r.Intn(len(spaces))] + num + mid + unit + spaces[r.Intn(len(spaces))]
	// exact-safe region for comparing VALUES (float64 vs exact rational, see DESIGN.md C15):
	// integers below 2^53, or <= 3 fraction digits with a result below 2^40
	mult := 1.0
	switch strings.ToUpper(unit) {
	case "K", "KB", "KIB":
		mult = 1 << 10
	case "M", "MB", "MIB":
		mult = 1 << 20
	case "G", "GB", "GIB":
		mult = 1 << 30
	case "T", "TB", "TIB":
		mult = 1 << 40
	}
	bound := mult
	for i := 0; i < len(ip); i++ {
		bound *= 10
	}
	exact := (fp == "" && bound < (1<<53)) || (bound < (1 << 40))
	return s, exact
}

var weird = []string{"", " ", ".", "+", "-", "..", "1.2.3", "1e3", "1E3", "0x10", "0X1P-2", "inf", "Inf", "NaN", "nan", "+Inf", "1_000", "1_000M", "१०M", "１０M", "10м", "10é",
	" 10M", "10M ", "​10", "10\x00M", "\xff", "\xff\xfeM", "M", "MB10", "10 M", "1,5M", "1/2M", "١٠", "0", "0M", "0.0", "-0", "00000001", "1e", "e1", "--1", "+-1", "1+",
	"18446744073709551616", "99999999999999999999999T", "0.0000000001T", "1" + strings.Repeat("0", 400), strings.Repeat("9", 310) + "." + strings.Repeat("9", 50) + "G",
	"1.", ".5", "+.5", "-.5K", "5.K", " 7 ", "\t8\n", "ǅ", "10ǅ", "ß", "10ß", "İ", "10İ"}

func randBytes(r *hx.Rand, n int) string {
	b := make([]byte, n)
	for i := range b {
		switch r.Intn(6) {
		case 0:
			b[i] = byte(r.Intn(256))
		case 1:
			b[i] = " \t\n.+-eExXpP_"[r.Intn(13)]
		case 2:
			b[i] = "KMGTBkmgtbiI"[r.Intn(12)]
		default:
			b[i] = byte('0' + r.Intn(10))
		}
	}
	return string(b)
}

// pod-networks documents the webhook has to cope with: entries without / with a null allocation type, without interface, with odd types
var netJSONs = []string{`{"podNetworks":[{"interface":"eth0","vSwitchOptions":["vsw-1"],"securityGroupIDs":["sg-1"]}]}`,
	`{"podNetworks":[{"interface":"eth0","allocationType":null}]}`,
	`{"podNetworks":[{"interface":"eth0","allocationType":{"type":"Elastic"}},{"interface":"eth1"}]}`,
	`{"podNetworks":[{"interface":"eth0","allocationType":{"type":"Fixed","releaseStrategy":"TTL","releaseAfter":"5m"}}]}`,
	`{"podNetworks":[{"interface":"eth0","allocationType":{"type":"Fixed","releaseStrategy":"TTL","releaseAfter":"x"}}]}`,
	`{"podNetworks":[{"interface":"eth0","allocationType":{}}]}`, `{"podNetworks":[{}]}`, `{"podNetworks":[{"interface":"eth0","eniOptions":null,"extraRoutes":null}]}`,
	`{"podNetworks":[{"interface":"eth0"},{"interface":"eth0"}]}`, `{"podNetworks":[{"interface":"abcdefghijklmnopq"}]}`}

var jsons = []string{``, `null`, `{}`, `[]`, `{"podNetworks":null}`, `{"podNetworks":[null]}`, `{"podNetworks":[{"interface":null,"vSwitchOptions":null}]}`, `[null]`, `[{"interfaceName":1}]`,
	`{"a":null}`, `{"a":{"0":1,"x":2,"-1":3}}`, `{"a":{"0":1},"b":{"1":{}}}`, `{"a":[]}`, `{"a":{"99999999999999999999":1}}`, `"str"`, `1`, `{"podNetworks":[{"interface":"eth0","defaultRoute":true,"extraRoutes":[{"dst":"x"}]}]}`,
	`{"version":"1","max_pool_size":"x"}`, `{"vswitches":{"z":null}}`, `{"vswitches":null,"security_groups":[null]}`, `{"eni_tags":{"a":null}}`, `{"max_pool_size":1e400}`, `{"max_pool_size":-1}`, `{"eni_cap_ratio":"1"}`,
	`{"Pod":null}`, `{"Pod":{"PodIPs":null}}`, `{"Pod":{"PodIPs":{"IPv4":"x"}}}`, `{"pod":1}`, "\x00", `{"a":{"b":{"c":{"d":{}}}}}`, `{"ip_stack":"ipv6"}`, `{"enable_patch_pod_ips":null}`}

func mutateJSON(r *hx.Rand, s string) string {
	if len(s) == 0 || r.Chance(1, 3) {
		return s
	}
	b := []byte(s)
	for k := r.Range(1, 3); k > 0; k-- {
		i := r.Intn(len(b))
		switch r.Intn(4) {
		case 0:
			b[i] = byte(r.Intn(256))
		case 1:
			b = append(b[:i], b[i+1:]...)
		case 2:
			const ins = "{}[]\":,0n"
			b = append(b[:i], append([]byte{ins[r.Intn(len(ins))]}, b[i:]...)...)
		case 3:
			b = b[:i]
		}
		if len(b) == 0 {
			return ""
		}
	}
	return string(b)
}

func gen(r *hx.Rand) [][]*big.Int {
	var cs [][]*big.Int
	n := hx.N(3000)
	rb, rw, rm, ro := r.Fork(), r.Fork(), r.Fork(), r.Fork()
	add := func(b *hx.B) { cs = append(cs, b.L) }
	for _, w := range weird {
		var b hx.B
		add(b.I(1, 0).Str(w))
	}
	for i := 0; i < n; i++ {
		s, exact := wellFormed(rb)
		var b hx.B
		add(b.I(1).Bool(exact).Str(s))
	}
	for i := 0; i < n/3; i++ {
		var b hx.B
		add(b.I(1, 0).Str(randBytes(rw, rw.Range(0, 12))))
	}
	for i := 0; i < n/6; i++ { // one number, all units
		// exact-safe for every unit up to T: integers below 8192, or 0.ddd
		ip := strconv.Itoa(rm.Range(1, 8191))
		if rm.Bool() {
			ip = "0." + digits(rm, 0, 3)
		}
		var b hx.B
		add(b.I(9).Str(ip))
	}
	str := func() string {
		switch ro.Intn(4) {
		case 0:
			s, _ := wellFormed(ro)
			return s
		case 1:
			return weird[ro.Intn(len(weird))]
		case 2:
			return randBytes(ro, ro.Range(0, 10))
		}
		return []string{"true", "false", "1", "t", "yes", "guaranteed", "burstable", "best-effort", "Guaranteed", ""}[ro.Intn(10)]
	}
	for i := 0; i < n/6; i++ {
		var b hx.B
		b.I(2)
		for k := 0; k < 7; k++ {
			b.Str(str())
		}
		add(b.Bool(ro.Bool()).Bool(ro.Bool()))
	}
	for _, j := range jsons { // every document as the whole ConfigMap content, without and with an overlay
		for _, top := range []string{"", "{}", " ", "null"} {
			for _, pad := range []string{"", " ", "\n"} {
				var b hx.B
				add(b.I(5).Str(top).Str(pad + j + pad))
			}
		}
	}
	for i := 0; i < n/6; i++ {
		for _, fn := range []int{3, 4, 6} {
			var b hx.B
			add(b.I(fn).Str(mutateJSON(ro, jsons[ro.Intn(len(jsons))])))
		}
		var b hx.B
		add(b.I(5).Str(mutateJSON(ro, jsons[ro.Intn(len(jsons))])).Str(mutateJSON(ro, jsons[ro.Intn(len(jsons))])))
	}
	for _, j := range append(append([]string{}, netJSONs...), jsons...) {
		for _, crd := range []bool{false, true} {
			var b hx.B
			add(b.I(7).Str(j).Bool(crd))
			var b3 hx.B
			add(b3.I(3).Str(j))
		}
	}
	for i := 0; i < n/6; i++ {
		var b hx.B
		add(b.I(7).Str(mutateJSON(ro, netJSONs[ro.Intn(len(netJSONs))])).Bool(ro.Bool()))
	}
	return cs
}

func TestVerif_C15(t *testing.T) { hx.Run(t, gen, eval) }
