package c17

import (
	"context"
	"fmt"
	"math/big"
	"sync"
	"testing"
	"testing/synctest"
	"time"

	"verifharness/hx"

	"github.com/aliyun/alibaba-cloud-sdk-go/services/vpc"

	"github.com/AliyunContainerService/terway/pkg/vswitch"
)

type fakeVPC struct {
	mu    sync.Mutex
	resp  map[string]*vpc.VSwitch // nil = error
	calls []string
	tags  []string // the caller (context value) behind each call
	// overlapped selections: the first call made on behalf of parkTag waits for release
	parkTag string
	parked  bool
	release chan struct{}
}

type tagKey struct{}

func (f *fakeVPC) DescribeVSwitchByID(ctx context.Context, id string) (*vpc.VSwitch, error) {
	tag, _ := ctx.Value(tagKey{}).(string)
	f.mu.Lock()
	f.calls = append(f.calls, id)
	f.tags = append(f.tags, tag)
	if tag != "" && tag == f.parkTag && !f.parked {
		f.parked = true
		rel := f.release
		f.mu.Unlock()
		<-rel
		f.mu.Lock()
	}
	defer f.mu.Unlock()
	r := f.resp[id]
	if r == nil {
		return nil, fmt.Errorf("not found")
	}
	c := *r
	return &c, nil
}

func vid(n int) string { return fmt.Sprintf("vsw-%d", n) }
func zid(n int) string { return fmt.Sprintf("zone-%d", n) }

func num(s string) int {
	var n int
	if _, err := fmt.Sscanf(s, "vsw-%d", &n); err != nil {
		return -1
	}
	return n
}

// one case runs in its own synctest bubble: cache expiry follows the fake clock
func evalIn(in []*big.Int) (in2, out []*big.Int) {
	d := hx.NewD(in)
	ttl, nops := d.Int(), d.Int()
	pool, err := vswitch.NewSwitchPool(100, fmt.Sprintf("%ds", ttl))
	if err != nil {
		return in, nil
	}
	api := &fakeVPC{resp: map[string]*vpc.VSwitch{}}
	var ib, ob hx.B
	emitted := 0
	for i := 0; i < nops && !d.Bad; i++ {
		od := d.Sub()
		var rec hx.B
		switch od.Int() {
		case 0:
			zone, policy, ignore := od.Int(), od.Int(), od.Bool()
			idn := od.Ints()
			rec.I(0, zone, policy).Bool(ignore).Ints(idn)
			ids := make([]string, len(idn))
			for j, n := range idn {
				ids[j] = vid(n)
			}
			opt := &vswitch.SelectOptions{IgnoreZone: ignore}
			switch policy {
			case 0:
				opt.VSwitchSelectPolicy = vswitch.VSwitchSelectionPolicyOrdered
			case 1:
				opt.VSwitchSelectPolicy = vswitch.VSwitchSelectionPolicyMost
			case 2:
				opt.VSwitchSelectPolicy = vswitch.VSwitchSelectionPolicyRandom
			}
			api.mu.Lock()
			api.calls, api.tags = nil, nil
			api.mu.Unlock()
			sw, err := pool.GetOne(context.Background(), api, zid(zone), ids, opt)
			res := 0
			if err == nil && sw != nil {
				res = num(sw.ID)
			}
			var fetched, after []int
			for _, c := range api.calls {
				fetched = append(fetched, num(c))
			}
			for _, s := range ids {
				after = append(after, num(s))
			}
			rec.I(res).Ints(fetched).Ints(after)
			ob.I(res).Ints(fetched).Ints(after)
		case 4:
			// two overlapping selections: A is parked in its first cloud call while B runs to completion. Recorded as
			// two GetOne operations in the order in which they took effect (B, then A; A first if it never called the cloud)
			type sel struct {
				zone, policy int
				ignore       bool
				idn          []int
				ids          []string
				res          int
				done         bool
			}
			var ab [2]*sel
			for k := range ab {
				x := &sel{zone: od.Int(), policy: od.Int(), ignore: od.Bool(), idn: od.Ints()}
				for _, n := range x.idn {
					x.ids = append(x.ids, vid(n))
				}
				ab[k] = x
			}
			if od.Bool() && !od.Bad {
				// an annotated input (replay, corpus): the two records that follow are an earlier run's observation
				d.Sub()
				d.Sub()
				i += 2
			}
			if od.Bad || d.Bad {
				return in, nil
			}
			api.mu.Lock()
			api.calls, api.tags = nil, nil
			api.parkTag, api.parked, api.release = "A", false, make(chan struct{})
			api.mu.Unlock()
			var wg sync.WaitGroup
			start := func(x *sel, tag string) {
				wg.Add(1)
				go func() {
					defer wg.Done()
					opt := &vswitch.SelectOptions{IgnoreZone: x.ignore}
					switch x.policy {
					case 0:
						opt.VSwitchSelectPolicy = vswitch.VSwitchSelectionPolicyOrdered
					case 1:
						opt.VSwitchSelectPolicy = vswitch.VSwitchSelectionPolicyMost
					case 2:
						opt.VSwitchSelectPolicy = vswitch.VSwitchSelectionPolicyRandom
					}
					sw, err := pool.GetOne(context.WithValue(context.Background(), tagKey{}, tag), api, zid(x.zone), x.ids, opt)
					api.mu.Lock()
					if err == nil && sw != nil {
						x.res = num(sw.ID)
					}
					x.done = true
					api.mu.Unlock()
				}()
			}
			start(ab[0], "A")
			synctest.Wait()
			api.mu.Lock()
			parked := api.parked
			if parked {
				// B does not ask for the vSwitch A is waiting for (it would join A's lookup and wait with it)
				pid := api.calls[len(api.calls)-1]
				b := ab[1]
				var idn []int
				var ids []string
				for j, s := range b.ids {
					if s != pid {
						idn, ids = append(idn, b.idn[j]), append(ids, s)
					}
				}
				b.idn, b.ids = idn, ids
			}
			api.mu.Unlock()
			start(ab[1], "B")
			synctest.Wait()
			api.mu.Lock()
			bdone := ab[1].done
			api.mu.Unlock()
			close(api.release)
			wg.Wait()
			api.parkTag = ""
			if !bdone {
				return in, nil // B joined A's outstanding lookup: the two then run truly in parallel, no fixed order to record
			}
			var r4 hx.B
			r4.I(4)
			for _, x := range ab {
				r4.I(x.zone, x.policy).Bool(x.ignore).Ints(x.idn)
			}
			ib.Rec(r4.I(1))
			emitted++
			order := []int{0, 1}
			if parked {
				order = []int{1, 0}
			}
			for _, k := range order {
				x := ab[k]
				tag := []string{"A", "B"}[k]
				var fetched, after []int
				for j, c := range api.calls {
					if api.tags[j] == tag {
						fetched = append(fetched, num(c))
					}
				}
				for _, s := range x.ids {
					after = append(after, num(s))
				}
				var r2 hx.B
				r2.I(0, x.zone, x.policy).Bool(x.ignore).Ints(x.idn)
				r2.I(x.res).Ints(fetched).Ints(after)
				ob.I(x.res).Ints(fetched).Ints(after)
				ib.Rec(&r2)
				emitted++
			}
			continue
		case 1:
			id := od.Int()
			pool.Block(vid(id))
			rec.I(1, id)
		case 2:
			dt := od.Int()
			time.Sleep(time.Duration(dt) * time.Second)
			rec.I(2, dt)
		case 3:
			id, ok, zone, free := od.Int(), od.Bool(), od.Int(), od.Int()
			if ok {
				api.resp[vid(id)] = &vpc.VSwitch{VSwitchId: vid(id), ZoneId: zid(zone), AvailableIpAddressCount: int64(free)}
			} else {
				delete(api.resp, vid(id))
			}
			rec.I(3, id).Bool(ok).I(zone, free)
		default:
			return in, nil
		}
		ib.Rec(&rec)
		emitted++
	}
	if d.Bad {
		return in, nil
	}
	if ob.L == nil {
		ob.L = []*big.Int{}
	}
	var hd hx.B
	hd.I(ttl, emitted)
	return append(hd.L, ib.L...), ob.L
}

var curT *testing.T

func eval(in []*big.Int) (in2, out []*big.Int) {
	synctest.Test(curT, func(t *testing.T) { in2, out = evalIn(in) })
	return
}

func gen(r *hx.Rand) [][]*big.Int {
	var cs [][]*big.Int
	n := hx.N(500)
	for c := 0; c < n; c++ {
		rr := r.Fork()
		nv := rr.Range(1, 8)
		nz := rr.Range(1, 3)
		ttl := []int{600, 600, 1, 30}[rr.Intn(4)]
		nops := rr.Range(3, 30)
		overlap := rr.Chance(1, 2) // half of the histories contain overlapping selections
		var b hx.B
		ops := 0
		var body hx.B
		add := func(rec *hx.B) { body.Rec(rec); ops++ }
		// most vSwitches exist from the start
		for v := 1; v <= nv; v++ {
			if rr.Chance(5, 6) {
				free := rr.Range(0, 6)
				if rr.Chance(1, 3) {
					free = 0
				}
				var rec hx.B
				add(rec.I(3, v, 1, rr.Range(1, nz), free))
			}
		}
		for i := 0; i < nops; i++ {
			var rec hx.B
			x := rr.Intn(20)
			switch {
			case x < 10 || (x < 11 && !overlap):
				k := rr.Range(0, nv+1)
				ids := make([]int, k)
				for j := range ids {
					ids[j] = rr.Range(1, nv)
				}
				if rr.Chance(1, 8) && k > 0 {
					ids[0] = nv + 1 // unknown vSwitch: API error
				}
				policy := rr.Intn(4) // 3 = unset
				rec.I(0, rr.Range(1, nz), policy).Bool(rr.Chance(1, 3)).Ints(ids)
			case x < 13 && overlap:
				// overlapping selections, mostly 'most' against anything
				rec.I(4)
				for k := 0; k < 2; k++ {
					n := rr.Range(1, nv+1)
					ids := make([]int, n)
					for j := range ids {
						ids[j] = rr.Range(1, nv)
					}
					policy := rr.Intn(4)
					if rr.Chance(1, 2) {
						policy = 1
					}
					rec.I(rr.Range(1, nz), policy).Bool(rr.Chance(1, 3)).Ints(ids)
				}
				rec.I(0)
			case x < 14:
				rec.I(1, rr.Range(1, nv))
			case x < 17:
				rec.I(2, []int{1, 1, 29, 30, 31, 599, 600, 601, 2}[rr.Intn(9)])
			default:
				free := rr.Range(0, 6)
				rec.I(3, rr.Range(1, nv), b2i(rr.Chance(9, 10)), rr.Range(1, nz), free)
			}
			add(&rec)
		}
		b.I(ttl, ops)
		b.L = append(b.L, body.L...)
		cs = append(cs, b.L)
	}
	return cs
}

func b2i(b bool) int {
	if b {
		return 1
	}
	return 0
}

func TestVerif_C17(t *testing.T) {
	curT = t
	hx.Run2(t, gen, eval)
}

// thorough tier: concurrent selections and Block calls on one pool, sharing one
// candidate slice, under the race detector (a test supporting the proof: data-race freedom
// is not something the theorem about logical atomicity can show)
func TestVerif_C17_Race(t *testing.T) {
	if !hx.Thorough() {
		t.Skip("thorough tier only")
	}
	pool, _ := vswitch.NewSwitchPool(100, "10m")
	api := &fakeVPC{resp: map[string]*vpc.VSwitch{}}
	ids := []string{}
	for v := 1; v <= 8; v++ {
		api.resp[vid(v)] = &vpc.VSwitch{VSwitchId: vid(v), ZoneId: zid(1 + v%2), AvailableIpAddressCount: int64(v)}
		ids = append(ids, vid(v))
	}
	want := append([]string(nil), ids...)
	var wg sync.WaitGroup
	for g := 0; g < 8; g++ {
		wg.Add(1)
		go func(g int) {
			defer wg.Done()
			for i := 0; i < 300; i++ {
				pol := []vswitch.SelectionPolicy{vswitch.VSwitchSelectionPolicyOrdered, vswitch.VSwitchSelectionPolicyMost, vswitch.VSwitchSelectionPolicyRandom}[(g+i)%3]
				_, _ = pool.GetOne(context.Background(), api, zid(1), ids, &vswitch.SelectOptions{VSwitchSelectPolicy: pol, IgnoreZone: i%2 == 0})
				if i%7 == 0 {
					pool.Block(vid(1 + i%8))
				}
			}
		}(g)
	}
	wg.Wait()
	for i := range ids {
		if ids[i] != want[i] {
			t.Fatalf("caller's candidate list was reordered: %v", ids)
		}
	}
}
