package c17

import (
	"context"
	"fmt"
	"math/big"
	"sync"
	"testing"
	"testing/synctest"
	"time"

	"verifharness/hx"

	"github.com/aliyun/alibaba-cloud-sdk-go/services/vpc"

	"github.com/AliyunContainerService/terway/pkg/vswitch"
)

type fakeVPC struct {
	mu    sync.Mutex
	resp  map[string]*vpc.VSwitch // nil = error
	calls []string
}

func (f *fakeVPC) DescribeVSwitchByID(ctx context.Context, id string) (*vpc.VSwitch, error) {
	f.mu.Lock()
	defer f.mu.Unlock()
	f.calls = append(f.calls, id)
	r := f.resp[id]
	if r == nil {
		return nil, fmt.Errorf("not found")
	}
	c := *r
	return &c, nil
}

func vid(n int) string { return fmt.Sprintf("vsw-%d", n) }
func zid(n int) string { return fmt.Sprintf("zone-%d", n) }

func num(s string) int {
	var n int
	if _, err := fmt.Sscanf(s, "vsw-%d", &n); err != nil {
		return -1
	}
	return n
}

// one case runs in its own synctest bubble: cache expiry follows the fake clock
func evalIn(in []*big.Int) (in2, out []*big.Int) {
	d := hx.NewD(in)
	ttl, nops := d.Int(), d.Int()
	pool, err := vswitch.NewSwitchPool(100, fmt.Sprintf("%ds", ttl))
	if err != nil {
		return in, nil
	}
	api := &fakeVPC{resp: map[string]*vpc.VSwitch{}}
	var ib, ob hx.B
	ib.I(ttl, nops)
	for i := 0; i < nops && !d.Bad; i++ {
		od := d.Sub()
		var rec hx.B
		switch od.Int() {
		case 0:
			zone, policy, ignore := od.Int(), od.Int(), od.Bool()
			idn := od.Ints()
			rec.I(0, zone, policy).Bool(ignore).Ints(idn)
			ids := make([]string, len(idn))
			for j, n := range idn {
				ids[j] = vid(n)
			}
			opt := &vswitch.SelectOptions{IgnoreZone: ignore}
			switch policy {
			case 0:
				opt.VSwitchSelectPolicy = vswitch.VSwitchSelectionPolicyOrdered
			case 1:
				opt.VSwitchSelectPolicy = vswitch.VSwitchSelectionPolicyMost
			case 2:
				opt.VSwitchSelectPolicy = vswitch.VSwitchSelectionPolicyRandom
			}
			api.calls = nil
			sw, err := pool.GetOne(context.Background(), api, zid(zone), ids, opt)
			res := 0
			if err == nil && sw != nil {
				res = num(sw.ID)
			}
			var fetched, after []int
			for _, c := range api.calls {
				fetched = append(fetched, num(c))
			}
			for _, s := range ids {
				after = append(after, num(s))
			}
			rec.I(res).Ints(fetched).Ints(after)
			ob.I(res).Ints(fetched).Ints(after)
		case 1:
			id := od.Int()
			pool.Block(vid(id))
			rec.I(1, id)
		case 2:
			dt := od.Int()
			time.Sleep(time.Duration(dt) * time.Second)
			rec.I(2, dt)
		case 3:
			id, ok, zone, free := od.Int(), od.Bool(), od.Int(), od.Int()
			if ok {
				api.resp[vid(id)] = &vpc.VSwitch{VSwitchId: vid(id), ZoneId: zid(zone), AvailableIpAddressCount: int64(free)}
			} else {
				delete(api.resp, vid(id))
			}
			rec.I(3, id).Bool(ok).I(zone, free)
		default:
			return in, nil
		}
		ib.Rec(&rec)
	}
	if d.Bad {
		return in, nil
	}
	if ob.L == nil {
		ob.L = []*big.Int{}
	}
	return ib.L, ob.L
}

var curT *testing.T

func eval(in []*big.Int) (in2, out []*big.Int) {
	synctest.Test(curT, func(t *testing.T) { in2, out = evalIn(in) })
	return
}

func gen(r *hx.Rand) [][]*big.Int {
	var cs [][]*big.Int
	n := hx.N(500)
	for c := 0; c < n; c++ {
		rr := r.Fork()
		nv := rr.Range(1, 8)
		nz := rr.Range(1, 3)
		ttl := []int{600, 600, 1, 30}[rr.Intn(4)]
		nops := rr.Range(3, 30)
		var b hx.B
		ops := 0
		var body hx.B
		add := func(rec *hx.B) { body.Rec(rec); ops++ }
		// most vSwitches exist from the start
		for v := 1; v <= nv; v++ {
			if rr.Chance(5, 6) {
				free := rr.Range(0, 6)
				if rr.Chance(1, 3) {
					free = 0
				}
				var rec hx.B
				add(rec.I(3, v, 1, rr.Range(1, nz), free))
			}
		}
		for i := 0; i < nops; i++ {
			var rec hx.B
			x := rr.Intn(20)
			switch {
			case x < 11:
				k := rr.Range(0, nv+1)
				ids := make([]int, k)
				for j := range ids {
					ids[j] = rr.Range(1, nv)
				}
				if rr.Chance(1, 8) && k > 0 {
					ids[0] = nv + 1 // unknown vSwitch: API error
				}
				policy := rr.Intn(4) // 3 = unset
				rec.I(0, rr.Range(1, nz), policy).Bool(rr.Chance(1, 3)).Ints(ids)
			case x < 14:
				rec.I(1, rr.Range(1, nv))
			case x < 17:
				rec.I(2, []int{1, 1, 29, 30, 31, 599, 600, 601, 2}[rr.Intn(9)])
			default:
				free := rr.Range(0, 6)
				rec.I(3, rr.Range(1, nv), b2i(rr.Chance(9, 10)), rr.Range(1, nz), free)
			}
			add(&rec)
		}
		b.I(ttl, ops)
		b.L = append(b.L, body.L...)
		cs = append(cs, b.L)
	}
	return cs
}

func b2i(b bool) int {
	if b {
		return 1
	}
	return 0
}

func TestVerif_C17(t *testing.T) {
	curT = t
	hx.Run2(t, gen, eval)
}

// thorough tier: concurrent selections and Block calls on one pool, sharing one
// candidate slice, under the race detector (a test supporting the proof: data-race freedom
// is not something the theorem about logical atomicity can show)
func TestVerif_C17_Race(t *testing.T) {
	if !hx.Thorough() {
		t.Skip("thorough tier only")
	}
	pool, _ := vswitch.NewSwitchPool(100, "10m")
	api := &fakeVPC{resp: map[string]*vpc.VSwitch{}}
	ids := []string{}
	for v := 1; v <= 8; v++ {
		api.resp[vid(v)] = &vpc.VSwitch{VSwitchId: vid(v), ZoneId: zid(1 + v%2), AvailableIpAddressCount: int64(v)}
		ids = append(ids, vid(v))
	}
	want := append([]string(nil), ids...)
	var wg sync.WaitGroup
	for g := 0; g < 8; g++ {
		wg.Add(1)
		go func(g int) {
			defer wg.Done()
			for i := 0; i < 300; i++ {
				pol := []vswitch.SelectionPolicy{vswitch.VSwitchSelectionPolicyOrdered, vswitch.VSwitchSelectionPolicyMost, vswitch.VSwitchSelectionPolicyRandom}[(g+i)%3]
				_, _ = pool.GetOne(context.Background(), api, zid(1), ids, &vswitch.SelectOptions{VSwitchSelectPolicy: pol, IgnoreZone: i%2 == 0})
				if i%7 == 0 {
					pool.Block(vid(1 + i%8))
				}
			}
		}(g)
	}
	wg.Wait()
	for i := range ids {
		if ids[i] != want[i] {
			t.Fatalf("caller's candidate list was reordered: %v", ids)
		}
	}
}
