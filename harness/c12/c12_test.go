package c12

import (
	"fmt"
	"math/big"
	"net"
	"testing"

	"verifharness/hx"

	terwaydaemon "github.com/AliyunContainerService/terway/daemon"
	podENITypes "github.com/AliyunContainerService/terway/pkg/apis/network.alibabacloud.com/v1beta1"
	"github.com/AliyunContainerService/terway/pkg/eni"
	"github.com/AliyunContainerService/terway/rpc"
	"github.com/AliyunContainerService/terway/types"
	"github.com/AliyunContainerService/terway/types/daemon"
)

var ifNames = []string{"", "eth0", "eth1", "net1", "eth2", "eth00"}

func ifCode(s string) int {
	for i, n := range ifNames {
		if n == s {
			return i
		}
	}
	return 99
}

func ipStr(v *big.Int, w int) string {
	b := make([]byte, w/8)
	v.FillBytes(b)
	return net.IP(b).String()
}

func ipNum(s string, w int) *big.Int {
	p := net.ParseIP(s)
	if p == nil {
		return big.NewInt(-1)
	}
	if w == 32 {
		if p4 := p.To4(); p4 != nil {
			return new(big.Int).SetBytes(p4)
		}
		return big.NewInt(-2)
	}
	return new(big.Int).SetBytes(p.To16())
}

func eval(in []*big.Int) []*big.Int {
	d := hx.NewD(in)
	var o hx.B
	switch d.Int() {
	case 1:
		n := d.Int()
		var ncs []*rpc.NetConf
		for i := 0; i < n; i++ {
			ifc, dr := d.Int(), d.Bool()
			ncs = append(ncs, &rpc.NetConf{IfName: ifNames[ifc%len(ifNames)], DefaultRoute: dr})
		}
		if err := terwaydaemon.VerifDefaultForNetConf(ncs); err != nil {
			return o.I(0).L
		}
		o.I(1, len(ncs))
		for _, c := range ncs {
			o.Bool(c.DefaultRoute)
		}
	case 2:
		trunk, n := d.Bool(), d.Int()
		pe := &podENITypes.PodENI{}
		pe.Status.ENIInfos = map[string]podENITypes.ENIInfo{}
		for i := 0; i < n; i++ {
			h4, i4, n4, p4 := d.Bool(), d.Big(), d.Big(), d.Int()
			h6, i6, n6, p6 := d.Bool(), d.Big(), d.Big(), d.Int()
			ifc, dr, vk, vid := d.Int(), d.Bool(), d.Bool(), d.Int()
			a := podENITypes.Allocation{Interface: ifNames[ifc%len(ifNames)], DefaultRoute: dr}
			a.ENI.ID = fmt.Sprintf("eni-%d", i)
			a.ENI.MAC = ""
			if h4 {
				a.IPv4 = ipStr(i4, 32)
				if p4 >= 0 {
					a.IPv4CIDR = fmt.Sprintf("%s/%d", ipStr(n4, 32), p4)
				}
			}
			if h6 {
				a.IPv6 = ipStr(i6, 128)
				if p6 >= 0 {
					a.IPv6CIDR = fmt.Sprintf("%s/%d", ipStr(n6, 128), p6)
				}
			}
			if vk {
				pe.Status.ENIInfos[a.ENI.ID] = podENITypes.ENIInfo{ID: a.ENI.ID, Vid: vid}
			}
			pe.Spec.Allocations = append(pe.Spec.Allocations, a)
		}
		var tr *daemon.ENI
		if trunk {
			tr = &daemon.ENI{ID: "eni-trunk", MAC: "", GatewayIP: types.IPSet{IPv4: net.ParseIP("10.0.0.253")}}
		}
		ncs := eni.VerifRemoteToRPC(tr, pe)
		if ncs == nil && n > 0 {
			return o.I(0).L
		}
		o.I(1, len(ncs))
		for _, c := range ncs {
			bi := c.BasicInfo
			h4, h6 := bi.PodIP.IPv4 != "", bi.PodIP.IPv6 != ""
			o.Bool(h4)
			if h4 {
				o.Big(ipNum(bi.PodIP.IPv4, 32)).Big(ipNum(bi.GatewayIP.IPv4, 32))
			} else {
				o.I(0, 0)
			}
			o.Bool(h6)
			if h6 {
				o.Big(ipNum(bi.PodIP.IPv6, 128)).Big(ipNum(bi.GatewayIP.IPv6, 128))
			} else {
				o.I(0, 0)
			}
			o.I(ifCode(c.IfName)).Bool(c.DefaultRoute).Bool(c.ENIInfo.Trunk).I(int(c.ENIInfo.Vid))
		}
	default:
		return nil
	}
	if d.Bad {
		return nil
	}
	return o.L
}

func randNet(r *hx.Rand, w int) (net_, ip *big.Int, plen int) {
	plen = r.Range(w/4, w)
	if r.Chance(1, 5) {
		plen = r.Range(w-3, w)
	}
	if r.Chance(1, 10) {
		plen = r.Range(0, w)
	}
	base := r.Big(w)
	if w == 128 && base.Cmp(new(big.Int).Lsh(big.NewInt(1), 120)) < 0 { // keep away from ::/8 (v4-mapped, unspecified)
		base.SetBit(base, 125, 1)
	}
	hb := uint(w - plen)
	base.Rsh(base, hb).Lsh(base, hb)
	host := r.Big(w - plen)
	switch r.Intn(6) { // the pod near the end of the subnet: the reserved addresses
	case 0, 1:
		size := new(big.Int).Lsh(big.NewInt(1), hb)
		host = new(big.Int).Sub(size, big.NewInt(int64(r.Range(1, 4))))
		if host.Sign() < 0 {
			host.SetInt64(0)
		}
	}
	ip = new(big.Int).Or(base, host)
	net_ = base
	if r.Chance(1, 4) { // CIDR written with host bits set
		net_ = new(big.Int).Set(ip)
	}
	return
}

func gen(r *hx.Rand) [][]*big.Int {
	var cs [][]*big.Int
	n := hx.N(1500)
	r1, r2 := r.Fork(), r.Fork()
	// all default-route / interface-name combinations for up to 4 interfaces would be 12^4: enumerate up to 3, sample 4..5
	var rec func(pre []int, k int)
	rec = func(pre []int, k int) {
		if k == 0 {
			var b hx.B
			b.I(1, len(pre)/2).I(pre...)
			cs = append(cs, b.L)
			return
		}
		for ifc := 0; ifc < 4; ifc++ {
			for dr := 0; dr < 2; dr++ {
				rec(append(append([]int{}, pre...), ifc, dr), k-1)
			}
		}
	}
	for k := 0; k <= 3; k++ {
		rec(nil, k)
	}
	for i := 0; i < n/3; i++ {
		k := r1.Range(4, 5)
		var b hx.B
		b.I(1, k)
		for j := 0; j < k; j++ {
			b.I(r1.Intn(len(ifNames)), b2i(r1.Chance(1, 4)))
		}
		cs = append(cs, b.L)
	}
	for i := 0; i < n; i++ {
		k := r2.Range(1, 4)
		var b hx.B
		b.I(2).Bool(r2.Chance(1, 3)).I(k)
		for j := 0; j < k; j++ {
			stack := r2.Intn(3) // 0 v4, 1 v6, 2 dual
			n4, i4, p4 := randNet(r2, 32)
			n6, i6, p6 := randNet(r2, 128)
			if r2.Chance(1, 25) {
				p4 = -1
			}
			if r2.Chance(1, 25) {
				p6 = -1
			}
			b.Bool(stack != 1).Big(i4).Big(n4).I(p4).Bool(stack != 0).Big(i6).Big(n6).I(p6)
			b.I(r2.Intn(4)).Bool(r2.Chance(1, 3)).Bool(r2.Chance(9, 10)).I(r2.Range(1, 4000))
		}
		cs = append(cs, b.L)
	}
	return cs
}

func b2i(b bool) int {
	if b {
		return 1
	}
	return 0
}

func TestVerif_C12(t *testing.T) { hx.Run(t, gen, eval) }
