package c12

import (
	"context"
	"fmt"
	"math/big"
	"net"
	"net/netip"
	"strconv"
	"strings"
	"testing"
	"testing/synctest"
	"time"

	metav1 "k8s.io/apimachinery/pkg/apis/meta/v1"
	"sigs.k8s.io/controller-runtime/pkg/client"
	"sigs.k8s.io/controller-runtime/pkg/client/fake"

	"verifharness/hx"

	terwaydaemon "github.com/AliyunContainerService/terway/daemon"
	networkv1beta1 "github.com/AliyunContainerService/terway/pkg/apis/network.alibabacloud.com/v1beta1"
	podENITypes "github.com/AliyunContainerService/terway/pkg/apis/network.alibabacloud.com/v1beta1"
	"github.com/AliyunContainerService/terway/pkg/eni"
	"github.com/AliyunContainerService/terway/rpc"
	"github.com/AliyunContainerService/terway/types"
	"github.com/AliyunContainerService/terway/types/daemon"
)

var ifNames = []string{"", "eth0", "eth1", "net1", "eth2", "eth00"}

func ifCode(s string) int {
	for i, n := range ifNames {
		if n == s {
			return i
		}
	}
	return 99
}

func ipStr(v *big.Int, w int) string {
	b := make([]byte, w/8)
	v.FillBytes(b)
	return net.IP(b).String()
}

func ipNum(s string, w int) *big.Int {
	p := net.ParseIP(s)
	if p == nil {
		return big.NewInt(-1)
	}
	if w == 32 {
		if p4 := p.To4(); p4 != nil {
			return new(big.Int).SetBytes(p4)
		}
		return big.NewInt(-2)
	}
	return new(big.Int).SetBytes(p.To16())
}

func eval(in []*big.Int) []*big.Int {
	d := hx.NewD(in)
	var o hx.B
	switch d.Int() {
	case 1:
		n := d.Int()
		var ncs []*rpc.NetConf
		for i := 0; i < n; i++ {
			ifc, dr := d.Int(), d.Bool()
			ncs = append(ncs, &rpc.NetConf{IfName: ifNames[ifc%len(ifNames)], DefaultRoute: dr})
		}
		if err := terwaydaemon.VerifDefaultForNetConf(ncs); err != nil {
			return o.I(0).L
		}
		o.I(1, len(ncs))
		for _, c := range ncs {
			o.Bool(c.DefaultRoute)
		}
	case 2:
		trunk, n := d.Bool(), d.Int()
		pe := &podENITypes.PodENI{}
		pe.Status.ENIInfos = map[string]podENITypes.ENIInfo{}
		for i := 0; i < n; i++ {
			h4, i4, n4, p4 := d.Bool(), d.Big(), d.Big(), d.Int()
			h6, i6, n6, p6 := d.Bool(), d.Big(), d.Big(), d.Int()
			ifc, dr, vk, vid := d.Int(), d.Bool(), d.Bool(), d.Int()
			a := podENITypes.Allocation{Interface: ifNames[ifc%len(ifNames)], DefaultRoute: dr}
			a.ENI.ID = fmt.Sprintf("eni-%d", i)
			a.ENI.MAC = ""
			if h4 {
				a.IPv4 = ipStr(i4, 32)
				if p4 >= 0 {
					a.IPv4CIDR = fmt.Sprintf("%s/%d", ipStr(n4, 32), p4)
				}
			}
			if h6 {
				a.IPv6 = ipStr(i6, 128)
				if p6 >= 0 {
					a.IPv6CIDR = fmt.Sprintf("%s/%d", ipStr(n6, 128), p6)
				}
			}
			if vk {
				pe.Status.ENIInfos[a.ENI.ID] = podENITypes.ENIInfo{ID: a.ENI.ID, Vid: vid}
			}
			pe.Spec.Allocations = append(pe.Spec.Allocations, a)
		}
		var tr *daemon.ENI
		if trunk {
			tr = &daemon.ENI{ID: "eni-trunk", MAC: "", GatewayIP: types.IPSet{IPv4: net.ParseIP("10.0.0.253")}}
		}
		ncs := eni.VerifRemoteToRPC(tr, pe)
		if ncs == nil && n > 0 {
			return o.I(0).L
		}
		o.I(1, len(ncs))
		for _, c := range ncs {
			bi := c.BasicInfo
			h4, h6 := bi.PodIP.IPv4 != "", bi.PodIP.IPv6 != ""
			o.Bool(h4)
			if h4 {
				o.Big(ipNum(bi.PodIP.IPv4, 32)).Big(ipNum(bi.GatewayIP.IPv4, 32))
			} else {
				o.I(0, 0)
			}
			o.Bool(h6)
			if h6 {
				o.Big(ipNum(bi.PodIP.IPv6, 128)).Big(ipNum(bi.GatewayIP.IPv6, 128))
			} else {
				o.I(0, 0)
			}
			o.I(ifCode(c.IfName)).Bool(c.DefaultRoute).Bool(c.ENIInfo.Trunk).I(int(c.ENIInfo.Vid))
		}
	case 5:
		// the node-local pool's answer (LocalIPResource.ToRPC): a copy of what the interface and the address carry
		h4, i4, n4, p4, g4 := d.Bool(), d.Big(), d.Big(), d.Int(), d.Big()
		h6, i6, n6, p6, g6 := d.Bool(), d.Big(), d.Big(), d.Int(), d.Big()
		s4, s6, erdma := d.Bool(), d.Bool(), d.Bool() // the interface has a subnet of the family (dual-stack interface, single-stack pod)
		if d.Bad {
			return nil
		}
		res := &eni.LocalIPResource{PodID: "ns/p1"}
		res.ENI.ID, res.ENI.ERdma = "eni-1", erdma
		if h4 {
			res.IP.IPv4 = netip.MustParseAddr(ipStr(i4, 32))
		}
		if h6 {
			res.IP.IPv6 = netip.MustParseAddr(ipStr(i6, 128))
		}
		if h4 || s4 {
			res.ENI.VSwitchCIDR.IPv4 = &net.IPNet{IP: net.ParseIP(ipStr(n4, 32)), Mask: net.CIDRMask(p4, 32)}
			res.ENI.GatewayIP.IPv4 = net.ParseIP(ipStr(g4, 32))
		}
		if h6 || s6 {
			res.ENI.VSwitchCIDR.IPv6 = &net.IPNet{IP: net.ParseIP(ipStr(n6, 128)), Mask: net.CIDRMask(p6, 128)}
			res.ENI.GatewayIP.IPv6 = net.ParseIP(ipStr(g6, 128))
		}
		ncs := res.ToRPC()
		o.I(len(ncs))
		for _, c := range ncs {
			putConf(&o, c)
		}
		return o.L
	case 6:
		return evalCRD(d)
	default:
		return nil
	}
	if d.Bad {
		return nil
	}
	return o.L
}

// putConf: one NetConf as numbers: per family (has address, address, has subnet, subnet base as written, prefix length,
// has gateway, gateway), the interface's own gateway (IPv4), interface name, default route, trunk, erdma
func putConf(o *hx.B, c *rpc.NetConf) {
	bi := c.BasicInfo
	fam := func(ip, cidr, gw string, w int) {
		o.Bool(ip != "")
		if ip != "" {
			o.Big(ipNum(ip, w))
		} else {
			o.I(0)
		}
		if cidr != "" {
			base, ones := cidr, -1
			if i := strings.IndexByte(cidr, '/'); i >= 0 {
				base = cidr[:i]
				ones, _ = strconv.Atoi(cidr[i+1:])
			}
			o.I(1).Big(ipNum(base, w)).I(ones)
		} else {
			o.I(0, 0, 0)
		}
		o.Bool(gw != "")
		if gw != "" {
			o.Big(ipNum(gw, w))
		} else {
			o.I(0)
		}
	}
	fam(bi.GetPodIP().GetIPv4(), bi.GetPodCIDR().GetIPv4(), bi.GetGatewayIP().GetIPv4(), 32)
	fam(bi.GetPodIP().GetIPv6(), bi.GetPodCIDR().GetIPv6(), bi.GetGatewayIP().GetIPv6(), 128)
	eg := c.GetENIInfo().GetGatewayIP().GetIPv4()
	o.Bool(eg != "")
	if eg != "" {
		o.Big(ipNum(eg, 32))
	} else {
		o.I(0)
	}
	o.I(ifCode(c.IfName)).Bool(c.DefaultRoute).Bool(c.GetENIInfo().GetTrunk()).Bool(c.GetENIInfo().GetERDMA())
}

// evalCRD: the daemon's side of the cluster IPAM (CRDV2.multiIP): the address the controller bound to the pod in the Node
// record, with the subnet and the gateway derived from the interface's CIDR.
// input: erdmaNode nENI (status mode net4 plen4 net6 plen6 n4 (addr status podMatches uidMode)* n6 (...)*)*
//
//	status 1 InUse else Attaching; mode 1 high performance; entry status 1 Valid else Deleting; uidMode 0 none 1 the pod's 2 another
func evalCRD(d *hx.D) []*big.Int {
	var o hx.B
	erdmaNode, ne := d.Bool(), d.Int()
	node := &networkv1beta1.Node{ObjectMeta: metav1.ObjectMeta{Name: "node-1"}}
	node.Spec.ENISpec = &networkv1beta1.ENISpec{EnableERDMA: erdmaNode, EnableIPv4: true, EnableIPv6: true}
	node.Status.NetworkInterfaces = map[string]*networkv1beta1.NetworkInterface{}
	for e := 1; e <= ne; e++ {
		st, mode := d.Int(), d.Int()
		n4, p4, n6, p6 := d.Big(), d.Int(), d.Big(), d.Int()
		ni := &networkv1beta1.NetworkInterface{ID: fmt.Sprintf("eni-%d", e), Status: "Attaching", MacAddress: fmt.Sprintf("02:00:00:00:00:%02x", e), VSwitchID: "vsw-1",
			NetworkInterfaceType: networkv1beta1.ENITypeSecondary, NetworkInterfaceTrafficMode: networkv1beta1.NetworkInterfaceTrafficModeStandard,
			IPv4: map[string]*networkv1beta1.IP{}, IPv6: map[string]*networkv1beta1.IP{}}
		if st == 1 {
			ni.Status = "InUse"
		}
		if mode == 1 {
			ni.NetworkInterfaceTrafficMode = networkv1beta1.NetworkInterfaceTrafficModeHighPerformance
		}
		if p4 >= 0 {
			ni.IPv4CIDR = fmt.Sprintf("%s/%d", ipStr(n4, 32), p4)
		}
		if p6 >= 0 {
			ni.IPv6CIDR = fmt.Sprintf("%s/%d", ipStr(n6, 128), p6)
		}
		for f, w := range []int{32, 128} {
			k := d.Int()
			for j := 0; j < k; j++ {
				a, ist, pm, um := d.Big(), d.Int(), d.Bool(), d.Int()
				ip := &networkv1beta1.IP{IP: ipStr(a, w), Status: networkv1beta1.IPStatusDeleting}
				if ist == 1 {
					ip.Status = networkv1beta1.IPStatusValid
				}
				if pm {
					ip.PodID = "ns/p1"
				} else if j%2 == 1 {
					ip.PodID = "ns/other"
				}
				switch um {
				case 1:
					ip.PodUID = "uid-1"
				case 2:
					ip.PodUID = "uid-9"
				}
				if f == 0 {
					ni.IPv4[ip.IP] = ip
				} else {
					ni.IPv6[ip.IP] = ip
				}
			}
		}
		node.Status.NetworkInterfaces[ni.ID] = ni
	}
	if d.Bad {
		return nil
	}
	var resp *eni.AllocResp
	crdRunner(func(t *testing.T) {
		cl := fake.NewClientBuilder().WithScheme(types.Scheme).WithObjects(node).WithStatusSubresource(&networkv1beta1.Node{}).Build()
		cur := &networkv1beta1.Node{}
		_ = cl.Get(context.Background(), client.ObjectKey{Name: "node-1"}, cur)
		cur.Status = node.Status
		_ = cl.Status().Update(context.Background(), cur)
		ctx, cancel := context.WithTimeout(context.Background(), 10*time.Minute)
		defer cancel()
		resp = eni.VerifCRDV2MultiIP(ctx, cl, "node-1", &daemon.CNI{PodName: "p1", PodNamespace: "ns", PodID: "ns/p1", PodUID: "uid-1"})
	})
	if resp == nil || resp.Err != nil || len(resp.NetworkConfigs) == 0 {
		return o.I(0).L
	}
	o.I(1)
	for _, r := range resp.NetworkConfigs {
		lr, ok := r.(*eni.LocalIPResource)
		if !ok {
			return o.I(-1).L
		}
		var e int
		fmt.Sscanf(lr.ENI.ID, "eni-%d", &e)
		o.I(e)
		ncs := lr.ToRPC()
		if len(ncs) != 1 {
			return o.I(-2).L
		}
		putConf(&o, ncs[0])
	}
	return o.L
}

var crdRunner func(f func(t *testing.T))

func randNet(r *hx.Rand, w int) (net_, ip *big.Int, plen int) {
	plen = r.Range(w/4, w)
	if r.Chance(1, 5) {
		plen = r.Range(w-3, w)
	}
	if r.Chance(1, 10) {
		plen = r.Range(0, w)
	}
	base := r.Big(w)
	if w == 128 && base.Cmp(new(big.Int).Lsh(big.NewInt(1), 120)) < 0 { // keep away from ::/8 (v4-mapped, unspecified)
		base.SetBit(base, 125, 1)
	}
	hb := uint(w - plen)
	base.Rsh(base, hb).Lsh(base, hb)
	host := r.Big(w - plen)
	switch r.Intn(6) { // the pod near the end of the subnet: the reserved addresses
	case 0, 1:
		size := new(big.Int).Lsh(big.NewInt(1), hb)
		host = new(big.Int).Sub(size, big.NewInt(int64(r.Range(1, 4))))
		if host.Sign() < 0 {
			host.SetInt64(0)
		}
	}
	ip = new(big.Int).Or(base, host)
	net_ = base
	if r.Chance(1, 4) { // CIDR written with host bits set
		net_ = new(big.Int).Set(ip)
	}
	return
}

func gen(r *hx.Rand) [][]*big.Int {
	var cs [][]*big.Int
	n := hx.N(1500)
	r1, r2 := r.Fork(), r.Fork()
	// all default-route / interface-name combinations for up to 4 interfaces would be 12^4: enumerate up to 3, sample 4..5
	var rec func(pre []int, k int)
	rec = func(pre []int, k int) {
		if k == 0 {
			var b hx.B
			b.I(1, len(pre)/2).I(pre...)
			cs = append(cs, b.L)
			return
		}
		for ifc := 0; ifc < 4; ifc++ {
			for dr := 0; dr < 2; dr++ {
				rec(append(append([]int{}, pre...), ifc, dr), k-1)
			}
		}
	}
	for k := 0; k <= 3; k++ {
		rec(nil, k)
	}
	for i := 0; i < n/3; i++ {
		k := r1.Range(4, 5)
		var b hx.B
		b.I(1, k)
		for j := 0; j < k; j++ {
			b.I(r1.Intn(len(ifNames)), b2i(r1.Chance(1, 4)))
		}
		cs = append(cs, b.L)
	}
	for i := 0; i < n; i++ {
		k := r2.Range(1, 4)
		var b hx.B
		b.I(2).Bool(r2.Chance(1, 3)).I(k)
		for j := 0; j < k; j++ {
			stack := r2.Intn(3) // 0 v4, 1 v6, 2 dual
			n4, i4, p4 := randNet(r2, 32)
			n6, i6, p6 := randNet(r2, 128)
			if r2.Chance(1, 25) {
				p4 = -1
			}
			if r2.Chance(1, 25) {
				p6 = -1
			}
			b.Bool(stack != 1).Big(i4).Big(n4).I(p4).Bool(stack != 0).Big(i6).Big(n6).I(p6)
			b.I(r2.Intn(4)).Bool(r2.Chance(1, 3)).Bool(r2.Chance(9, 10)).I(r2.Range(1, 4000))
		}
		cs = append(cs, b.L)
	}
	r3 := r.Fork()
	for i := 0; i < n/3; i++ { // the node-local pool's answer
		stack := r3.Intn(3)
		n4, i4, p4 := randNet(r3, 32)
		n6, i6, p6 := randNet(r3, 128)
		_, g4, _ := randNet(r3, 32)
		_, g6, _ := randNet(r3, 128)
		var b hx.B
		b.I(5).Bool(stack != 1).Big(i4).Big(n4).I(p4).Big(g4).Bool(stack != 0).Big(i6).Big(n6).I(p6).Big(g6)
		b.Bool(r3.Chance(1, 3)).Bool(r3.Chance(1, 3)).Bool(r3.Chance(1, 5))
		cs = append(cs, b.L)
	}
	for i := 0; i < n/2; i++ { // the daemon's side of the cluster IPAM
		cs = append(cs, genCRD(r3))
	}
	return cs
}

// genCRD: a Node record of 1..3 interfaces; at most one entry per family is bound to the pod (valid, the pod's name, no other uid),
// both on one interface; the others are idle, belong to other pods, carry another uid, are being deleted, or sit on an interface
// that is not attached yet
func genCRD(r *hx.Rand) []*big.Int {
	var b hx.B
	ne := r.Range(1, 3)
	b.I(6).Bool(r.Chance(1, 4)).I(ne)
	home := r.Range(1, ne)
	stack := r.Intn(4) // 0 v4, 1 v6, 2 dual, 3 nothing bound
	for e := 1; e <= ne; e++ {
		n4, _, p4 := randNet(r, 32)
		n6, _, p6 := randNet(r, 128)
		if r.Chance(1, 30) {
			p4 = -1
		}
		if r.Chance(1, 30) {
			p6 = -1
		}
		st := 1
		if e != home && r.Chance(1, 3) || e == home && r.Chance(1, 15) {
			st = 0
		}
		b.I(st, b2i(r.Chance(1, 4))).Big(n4).I(p4).Big(n6).I(p6)
		for f, w := range []int{32, 128} {
			plen, base := p4, n4
			if f == 1 {
				plen, base = p6, n6
			}
			if plen < 0 {
				plen = w - 4
			}
			k := r.Range(0, 3)
			seen := map[string]bool{}
			bound := -1
			if e == home && (stack == 2 || stack == f) && k > 0 {
				bound = r.Intn(k)
			}
			b.I(k)
			hb := uint(w - plen)
			netb := new(big.Int).Rsh(base, hb)
			netb.Lsh(netb, hb)
			for j := 0; j < k; j++ {
				host := r.Big(w - plen)
				if r.Chance(1, 4) { // near the end of the subnet: the reserved addresses
					host = new(big.Int).Sub(new(big.Int).Lsh(big.NewInt(1), hb), big.NewInt(int64(r.Range(1, 4))))
					if host.Sign() < 0 {
						host.SetInt64(0)
					}
				}
				a := new(big.Int).Or(netb, host)
				for seen[a.String()] { // the record keys entries by address
					a.Xor(a, big.NewInt(int64(1+r.Intn(6))))
				}
				seen[a.String()] = true
				if j == bound {
					b.Big(a).I(1, 1, r.Intn(2))
				} else {
					// not bound to this pod: idle, another pod's, this name under another uid, or being deleted
					switch r.Intn(4) {
					case 0:
						b.Big(a).I(1, 0, 0)
					case 1:
						b.Big(a).I(1, 0, 2)
					case 2:
						b.Big(a).I(1, 1, 2)
					default:
						b.Big(a).I(2, 1, r.Intn(2))
					}
				}
			}
		}
	}
	return b.L
}

func b2i(b bool) int {
	if b {
		return 1
	}
	return 0
}

func TestVerif_C12(t *testing.T) {
	crdRunner = func(f func(t *testing.T)) { t.Run("crd", func(t *testing.T) { synctest.Test(t, f) }) }
	hx.Run(t, gen, eval)
}
